(* C18 — executable model of litep2p's PeerId (src/peer_id.rs) on top of
   multihash 0.19 (`Multihash<64>`), unsigned-varint 0.8 and bs58 0.5.  Definitions only.

   Bytes are N below 256, byte strings and texts (ASCII codes) are `list N`.
   SHA-256 is not modelled: where the code hashes, the digest is an argument (the harness
   supplies it, computed with the sha2 crate); theorems quantify over any 32-byte digest. *)
From Coq Require Import List NArith Bool.
From V.gen Require Consts.
From V.common Require Import Wire Varint Protobuf Sha256.
Import ListNotations.
Open Scope N_scope.

Definition MAX_INLINE : N := Consts.MAX_INLINE_KEY_LENGTH.      (* 42 *)
Definition IDENTITY : N := Consts.MULTIHASH_IDENTITY_CODE.      (* 0x00 *)
Definition MH_SIZE : N := Consts.PEER_ID_MULTIHASH_SIZE.        (* the 64 of Multihash<64> *)
Definition SHA256 : N := 18.                                    (* Code::Sha2_256 = 0x12 *)

Definition len (l : list N) : N := N.of_nat (length l).

(* a Multihash<64> value: code : u64, digest of `size` bytes *)
Record pid := mkPid { code : N; digest : list N }.

(* Multihash::to_bytes / write_multihash *)
Definition mh_to_bytes (p : pid) : list N :=
  encode (code p) ++ encode (len (digest p)) ++ digest p.

(* Multihash::<64>::from_bytes: read_u64 code, read_u64 size, size <= 64 (and <= 255),
   read_exact size bytes, nothing may remain *)
Definition mh_parse (b : list N) : option pid :=
  match decode_u64 b with
  | None => None
  | Some (c, r1) =>
      match decode_u64 r1 with
      | None => None
      | Some (sz, r2) =>
          if (MH_SIZE <? sz) || (255 <? sz) then None
          else if len r2 =? sz then Some (mkPid c r2) else None
      end
  end.

(* PeerId::from_multihash of litep2p *)
Definition admits (p : pid) : bool :=
  if code p =? SHA256 then true
  else if (code p =? IDENTITY) && (len (digest p) <=? MAX_INLINE) then true
  else false.

(* libp2p-identity 0.2.14, PeerId::from_multihash (transcribed: MULTIHASH_SHA256_CODE = 0x12,
   MULTIHASH_IDENTITY_CODE = 0, MAX_INLINE_KEY_LENGTH = 42) *)
Definition ref_admits (p : pid) : bool :=
  match code p with
  | 18 => true
  | 0 => len (digest p) <=? 42
  | _ => false
  end.

(* PeerId::from_bytes *)
Definition of_bytes (b : list N) : option pid :=
  if bytes_ok b then
    match mh_parse b with
    | Some p => if admits p then Some p else None
    | None => None
    end
  else None.

Definition to_bytes (p : pid) : list N := mh_to_bytes p.

(* what every value of the Rust type satisfies (Multihash<64> invariant + admission) *)
Definition valid (p : pid) : bool :=
  admits p && (code p <? 2 ^ 64) && (len (digest p) <=? MH_SIZE) && bytes_ok (digest p).

(* PeerId::from_public_key_protobuf; `sha` = SHA-256 of key_enc *)
Definition of_key_enc (sha key_enc : list N) : pid :=
  if len key_enc <=? MAX_INLINE then mkPid IDENTITY key_enc else mkPid SHA256 sha.

(* PublicKey::to_protobuf_encoding for Ed25519: field 1 varint = 1 (KeyType::Ed25519),
   field 2 length-delimited = the 32 key bytes *)
Definition encode_ed25519 (k : list N) : list N := [8; 1; 18; 32] ++ k.

(* the canonical form recognised (the general prost decoder is not modelled) *)
Definition decode_ed25519_canonical (b : list N) : option (list N) :=
  match b with
  | 8 :: 1 :: 18 :: 32 :: k => if len k =? 32 then Some k else None
  | _ => None
  end.

(* PeerId of an Ed25519 key (PeerId::from_public_key) *)
Definition of_ed25519 (sha k : list N) : pid := of_key_enc sha (encode_ed25519 k).

(* ---------- positional numbers (for base58) ---------- *)
Fixpoint digits_le (base : N) (fuel : nat) (n : N) : list N :=
  match fuel with
  | O => []
  | S f => if n =? 0 then [] else n mod base :: digits_le base f (n / base)
  end.
Definition digits_be (base n : N) : list N := rev (digits_le base (N.to_nat (N.size n)) n).

Fixpoint value_le (base : N) (ds : list N) : N :=
  match ds with [] => 0 | d :: t => d + base * value_le base t end.
Definition value_be (base : N) (ds : list N) : N := value_le base (rev ds).

(* number of leading zeros and the rest *)
Fixpoint split_zeros (l : list N) : nat * list N :=
  match l with
  | 0 :: t => let '(z, r) := split_zeros t in (S z, r)
  | _ => (O, l)
  end.

(* re-express a big-endian digit string in another base, keeping leading zeros one for one
   (this is what bs58 encode/decode do) *)
Definition rebase (from to : N) (l : list N) : list N :=
  let '(z, t) := split_zeros l in repeat 0 z ++ digits_be to (value_be from t).

(* bs58 alphabet "123456789ABCDEFGHJKLMNPQRSTUVWXYZabcdefghijkmnopqrstuvwxyz" *)
Definition alphabet : list N :=
  [49;50;51;52;53;54;55;56;57;
   65;66;67;68;69;70;71;72;74;75;76;77;78;80;81;82;83;84;85;86;87;88;89;90;
   97;98;99;100;101;102;103;104;105;106;107;109;110;111;112;113;114;115;116;117;118;119;120;121;122].

Definition chr (d : N) : N := nth (N.to_nat d) alphabet 0.
Fixpoint index_of (c : N) (l : list N) : option N :=
  match l with
  | [] => None
  | x :: t => if x =? c then Some 0
              else match index_of c t with Some i => Some (i + 1) | None => None end
  end.
Definition idx (c : N) : option N := index_of c alphabet.

Fixpoint map_opt {A B} (f : A -> option B) (l : list A) : option (list B) :=
  match l with
  | [] => Some []
  | x :: t => match f x, map_opt f t with Some y, Some r => Some (y :: r) | _, _ => None end
  end.

(* bs58::encode(bytes).into_string() *)
Definition b58_encode (bytes : list N) : list N := map chr (rebase 256 58 bytes).
(* bs58::decode(text).into_vec() *)
Definition b58_decode (text : list N) : option (list N) :=
  match map_opt idx text with
  | Some ds => Some (rebase 58 256 ds)
  | None => None
  end.

(* PeerId::to_base58 / FromStr *)
Definition to_text (p : pid) : list N := b58_encode (to_bytes p).
Definition of_text (t : list N) : option pid :=
  match b58_decode t with Some b => of_bytes b | None => None end.

(* ---------- the /p2p component of a binary multiaddress ---------- *)
Definition P2P : N := 421.
(* Protocol::P2p(..).write_bytes: varint 421, varint length, multihash bytes *)
Definition to_component (p : pid) : list N :=
  encode P2P ++ encode (len (to_bytes p)) ++ to_bytes p.
(* Protocol::from_bytes for a /p2p component that is the whole input, followed by
   PeerId::try_from_multiaddr: decode::u32 id, decode::usize n, split_at n, PeerId::from_bytes *)
Definition of_component (b : list N) : option pid :=
  if bytes_ok b then
    match decode_u32 b with
    | Some (id, r1) =>
        if id =? P2P then
          match decode_u64 r1 with
          | Some (n, r2) => if len r2 =? n then of_bytes r2 else None
          | None => None
          end
        else None
    | None => None
    end
  else None.

(* ====================================================================================== *)
(* Round 2: every way the crate makes a peer id out of a key, the textual multiaddress,    *)
(* serde, PeerId::random and the derived Eq/Ord.                                           *)
(* ====================================================================================== *)

(* ---------- the derivation call graph ---------- *)
(* SHA-256 as a function parameter H (theorems quantify over every H). *)
Definition hash := list N -> list N.

(* PeerId::from_public_key_protobuf *)
Definition derive (H : hash) (enc : list N) : pid := of_key_enc (H enc) enc.

(* keys the crate can hold: crypto::PublicKey has only Ed25519, crypto::RemotePublicKey also
   RSA (cargo feature `rsa`); Secp256k1 / ECDSA typed messages are rejected by both TryFrom impls *)
Inductive key := KEd (k : list N) | KRsa (pkcs1 : list N).

(* DER definite length / TLV as written by yasna *)
Definition der_len (n : N) : list N :=
  if n <? 128 then [n]
  else let ds := digits_be 256 n in (128 + len ds) :: ds.
Definition der (tag : N) (content : list N) : list N := tag :: der_len (len content) ++ content.

(* rsa::PublicKey::encode_x509: SubjectPublicKeyInfo { { rsaEncryption, NULL }, BIT STRING } *)
Definition RSA_OID : list N := [6; 9; 42; 134; 72; 134; 247; 13; 1; 1; 1].
Definition spki (pkcs1 : list N) : list N :=
  der 48 (der 48 (RSA_OID ++ [5; 0]) ++ der 3 (0 :: pkcs1)).

(* the canonical protobuf message of a key: field 1 = key type, field 2 = key data *)
Definition key_encoding (k : key) : list N :=
  match k with
  | KEd k => encode_ed25519 k
  | KRsa pk => [8; 0; 18] ++ encode (len (spki pk)) ++ spki pk
  end.

(* PeerId::from_public_key (crypto::PublicKey = Ed25519 only) *)
Definition from_public_key (H : hash) (k : list N) : pid := derive H (encode_ed25519 k).
(* impl From<PublicKey> for PeerId / impl From<&PublicKey> for PeerId *)
Definition from_impl (H : hash) (k : list N) : pid := from_public_key H k.
(* crypto::PublicKey::to_peer_id = self.into() *)
Definition publickey_to_peer_id (H : hash) (k : list N) : pid := from_impl H k.
(* ed25519::PublicKey::to_peer_id = PublicKey::Ed25519(self.clone()).into() *)
Definition ed25519_to_peer_id (H : hash) (k : list N) : pid := from_impl H k.
(* RemotePublicKey::to_peer_id *)
Definition remote_to_peer_id (H : hash) (k : key) : pid :=
  match k with
  | KEd k => ed25519_to_peer_id H k
  | KRsa pk => derive H (key_encoding (KRsa pk))
  end.

(* The identity checks of the two handshakes. `dec` is RemotePublicKey::from_protobuf_encoding
   (prost + curve / X.509 checks: a parameter), `verified` the outcome of the signature check. *)
Definition decoder := list N -> option key.
(* crypto/noise: parse_and_verify_peer_id *)
Definition noise_identity (dec : decoder) (H : hash) (identity : list N) (verified : bool) : option pid :=
  match dec identity with
  | Some k => let p := remote_to_peer_id H k in if verified then Some p else None
  | None => None
  end.
(* crypto/tls/certificate: parse_unverified + verify *)
Definition tls_identity (dec : decoder) (H : hash) (identity : list N) (verified : bool) : option pid :=
  match dec identity with
  | Some k => let p := remote_to_peer_id H k in if verified then Some p else None
  | None => None
  end.
(* local ids: Litep2p::new, TransportManager, Identify::new *)
Definition local_peer_id (H : hash) (k : list N) : pid := from_public_key H k.
Definition identify_local_peer_id (H : hash) (k : list N) : pid := publickey_to_peer_id H k.

Definition pid_eqb (a b : pid) : bool :=
  (code a =? code b) && list_eqb N.eqb (digest a) (digest b).

(* PeerId::is_public_key *)
Definition is_public_key (H : hash) (p : pid) (k : list N) : option bool :=
  let enc := encode_ed25519 k in
  if code p =? SHA256 then Some (pid_eqb (mkPid SHA256 (H enc)) p)
  else if code p =? IDENTITY then Some (pid_eqb (mkPid IDENTITY enc) p)
  else None.

(* PeerId::random: identity multihash of 32 random bytes *)
Definition random_pid (r : list N) : pid := mkPid IDENTITY r.

(* The places of the Rust source where a peer id is made from key material, as
   (file, enclosing function, kind) — tables in tools/gen_c18_sites.py. Proofs.sites_match ties
   this list to the one extracted from the source on every check. Each line names the model
   function that stands for the site. *)
Definition derivation_sites : list (N * N * N) :=
  [(0, 0, 2);    (* peer_id.rs  from_public_key -> from_public_key_protobuf     [from_public_key] *)
   (0, 1, 1);    (* peer_id.rs  from_public_key_protobuf: PeerId { multihash }   [derive] *)
   (0, 1, 5);    (*             ... Multihash::wrap(IDENTITY, key_enc)           [of_key_enc, inline arm] *)
   (0, 1, 6);    (*             ... Code::Sha2_256.digest(key_enc)               [of_key_enc, hashed arm] *)
   (0, 3, 1);    (* peer_id.rs  from_multihash, sha2-256 arm                     [admits] *)
   (0, 3, 1);    (*             from_multihash, identity arm                     [admits] *)
   (0, 5, 1);    (* peer_id.rs  random: PeerId { multihash }                     [random_pid] *)
   (0, 5, 5);    (*             random: Multihash::wrap(IDENTITY, 32 bytes)      [random_pid] *)
   (0, 6, 5);    (* peer_id.rs  is_public_key, identity arm                      [is_public_key] *)
   (0, 6, 6);    (*             is_public_key, sha2-256 arm                      [is_public_key] *)
   (0, 7, 3);    (* peer_id.rs  From<PublicKey>  -> from_public_key              [from_impl] *)
   (0, 7, 3);    (*             From<&PublicKey> -> from_public_key              [from_impl] *)
   (1, 9, 2);    (* crypto/mod.rs RemotePublicKey::to_peer_id, RSA arm -> from_public_key_protobuf(canonical) *)
   (1, 9, 4);    (*               RemotePublicKey::to_peer_id, Ed25519 arm -> ed25519 to_peer_id *)
   (1, 9, 8);    (*               PublicKey::to_peer_id = self.into()            [publickey_to_peer_id] *)
   (2, 9, 8);    (* crypto/ed25519.rs to_peer_id = PublicKey::Ed25519(..).into() [ed25519_to_peer_id] *)
   (3, 10, 4);   (* crypto/noise  parse_and_verify_peer_id -> RemotePublicKey::to_peer_id [noise_identity] *)
   (4, 11, 4);   (* crypto/tls/certificate parse_unverified -> RemotePublicKey::to_peer_id [tls_identity] *)
   (5, 12, 4);   (* identify.rs   Identify::new -> PublicKey::to_peer_id         [identify_local_peer_id] *)
   (6, 12, 3);   (* lib.rs        Litep2p::new -> PeerId::from_public_key        [local_peer_id] *)
   (7, 17, 3)].  (* transport/manager TransportManagerBuilder::build -> from_public_key [local_peer_id] *)

(* ---------- the textual multiaddress ---------- *)
Definition SLASH : N := 47.
(* str::split('/') *)
Fixpoint split_on (sep : N) (l : list N) : list (list N) :=
  match l with
  | [] => [[]]
  | c :: t =>
      match split_on sep t with
      | cur :: rest => if c =? sep then [] :: cur :: rest else (c :: cur) :: rest
      | [] => [[]]      (* unreachable: split_on never returns [] *)
      end
  end.

Definition NAME_P2P : list N := [112; 50; 112].                                   (* "p2p" *)
Definition NAME_IPFS : list N := [105; 112; 102; 115].                            (* "ipfs" *)
Definition NAME_CIRCUIT : list N := [112; 50; 112; 45; 99; 105; 114; 99; 117; 105; 116].  (* "p2p-circuit" *)

Inductive proto := PP2p (p : pid) | PCircuit.

(* Protocol::from_str_parts in a loop, for the three protocol names the model knows
   ("p2p" and its legacy alias "ipfs", "p2p-circuit"); any other name makes the model give up
   (None), the harness does not generate those *)
Fixpoint parse_parts (parts : list (list N)) : option (list proto) :=
  match parts with
  | [] => Some []
  | name :: rest =>
      if list_eqb N.eqb name NAME_P2P || list_eqb N.eqb name NAME_IPFS then
        match rest with
        | arg :: rest' =>
            match of_text arg, parse_parts rest' with
            | Some p, Some ps => Some (PP2p p :: ps)
            | _, _ => None
            end
        | [] => None
        end
      else if list_eqb N.eqb name NAME_CIRCUIT then
        match parse_parts rest with Some ps => Some (PCircuit :: ps) | None => None end
      else None
  end.

(* Multiaddr::from_str followed by PeerId::try_from_multiaddr *)
Definition of_addr_text (t : list N) : option pid :=
  match split_on SLASH t with
  | [] :: parts =>
      match parse_parts parts with
      | Some ps => match last ps PCircuit with PP2p p => Some p | PCircuit => None end
      | None => None
      end
  | _ => None
  end.

(* Multiaddr::empty().with(Protocol::P2p(p)).to_string() *)
Definition to_addr_text (p : pid) : list N := SLASH :: NAME_P2P ++ SLASH :: to_text p.

(* ---------- serde ---------- *)
(* Serialize: serialize_str(to_base58) when human readable, serialize_bytes(to_bytes) otherwise;
   Deserialize: visit_str = from_str, visit_bytes = from_bytes *)
Definition ser_hr (p : pid) : list N := to_text p.
Definition de_hr (t : list N) : option pid := of_text t.
Definition ser_bin (p : pid) : list N := to_bytes p.
Definition de_bin (b : list N) : option pid := of_bytes b.
(* serde_json renders the base58 string between quotes (no character needs escaping) *)
Definition QUOTE : N := 34.
Definition json_of (p : pid) : list N := QUOTE :: ser_hr p ++ [QUOTE].
Definition json_plain (c : N) : bool := (32 <=? c) && (c <? 127) && negb (c =? 34) && negb (c =? 92).
Definition of_json (j : list N) : option pid :=
  match j with
  | 34 :: rest =>
      match rev rest with
      | 34 :: body_rev => let body := rev body_rev in
                          if forallb json_plain body then de_hr body else None
      | _ => None
      end
  | _ => None
  end.

(* ---------- derived Eq / Ord ---------- *)
(* #[derive(Ord)] on PeerId { multihash } over #[derive(Ord)] on Multihash { code: u64, size: u8,
   digest: [u8; 64] }: lexicographic on (code, size, the full zero-padded array) *)
Fixpoint list_cmp (a b : list N) : comparison :=
  match a, b with
  | [], [] => Eq
  | [], _ :: _ => Lt
  | _ :: _, [] => Gt
  | x :: a', y :: b' => match x ?= y with Eq => list_cmp a' b' | c => c end
  end.
Definition pad64 (d : list N) : list N := d ++ repeat 0 (64 - length d).
Definition pid_cmp (p q : pid) : comparison :=
  match code p ?= code q with
  | Eq => match len (digest p) ?= len (digest q) with
          | Eq => list_cmp (pad64 (digest p)) (pad64 (digest q))
          | c => c
          end
  | c => c
  end.

(* ====================================================================================== *)
(* Round 3: the key message decoder and key admission (RemotePublicKey::from_protobuf_     *)
(* encoding) on top of the prost wire model of common/Protobuf.v, replacing the decoder     *)
(* oracle; exact description of the accepted-but-not-canonical inputs; error variants.      *)
(* ====================================================================================== *)

(* keys.proto:  enum KeyType { RSA = 0; Ed25519 = 1; Secp256k1 = 2; ECDSA = 3; }
                message PublicKey { required KeyType Type = 1; required bytes Data = 2; }
   prost-derive: `#[prost(enumeration = "KeyType", required, tag = "1")] type: i32`,
                 `#[prost(bytes = "vec", required, tag = "2")] data: Vec<u8>`.
   The enum numbers are read from src/schema/keys.proto at check time. *)
Definition KT_RSA : N := Consts.C18_KEY_TYPE_RSA.
Definition KT_ED25519 : N := Consts.C18_KEY_TYPE_ED25519.
Definition KT_SECP256K1 : N := Consts.C18_KEY_TYPE_SECP256K1.
Definition KT_ECDSA : N := Consts.C18_KEY_TYPE_ECDSA.
Definition key_types : list N := [KT_RSA; KT_ED25519; KT_SECP256K1; KT_ECDSA].

(* the decoded message; `k_type` is the i32 kept as its two's complement in [0, 2^32) *)
Record keymsg := mkKeyMsg { k_type : N; k_data : list N }.

(* the generated `merge_field`: tag 1 = int32::merge (wire type must be Varint, `as i32`),
   tag 2 = bytes::merge (wire type must be LengthDelimited, replaces the value), any other tag is
   skipped; a known tag with another wire type is an error. Last occurrence wins; `required` is
   not enforced by prost (absent fields keep the default: type 0, empty data). *)
Fixpoint fold_keymsg (fs : list field) (acc : keymsg) : option keymsg :=
  match fs with
  | [] => Some acc
  | (t, v) :: rest =>
      if t =? 1 then
        match v with
        | WVarint n => fold_keymsg rest (mkKeyMsg (to_u32 n) (k_data acc))
        | _ => None
        end
      else if t =? 2 then
        match v with
        | WLen b => fold_keymsg rest (mkKeyMsg (k_type acc) b)
        | _ => None
        end
      else fold_keymsg rest acc
  end.

(* keys_proto::PublicKey::decode *)
Definition decode_keymsg (b : list N) : option keymsg :=
  match pb_parse b with
  | Ok fs => fold_keymsg fs (mkKeyMsg 0 [])
  | _ => None
  end.

(* keys_proto::PublicKey::encode_to_vec: both fields are always written (required), in tag order;
   the i32 is sign-extended to 64 bits before it is written as a varint *)
Definition encode_keymsg (m : keymsg) : list N :=
  [8] ++ encode (i32_to_u64 (k_type m)) ++ [18] ++ encode (len (k_data m)) ++ k_data m.

(* The admission table of `impl TryFrom<keys_proto::PublicKey> for RemotePublicKey`:
   (key type, needs cargo feature `rsa`). tools/gen_c18_sites.py extracts the same table from the
   match arms of src/crypto/mod.rs (Proofs: admission_table_match). Everything not listed —
   Secp256k1, ECDSA, numbers outside the enum — is UnknownKeyType. *)
Definition remote_admission : list (N * bool) := [(KT_ED25519, false); (KT_RSA, true)].
(* `impl TryFrom<keys_proto::PublicKey> for PublicKey` (the local key type): Ed25519 only *)
Definition local_admission : list (N * bool) := [(KT_ED25519, false)].

Fixpoint admitted_type (tbl : list (N * bool)) (rsa_feature : bool) (t : N) : bool :=
  match tbl with
  | [] => false
  | (t', needs_rsa) :: r =>
      if (t' =? t) && (negb needs_rsa || rsa_feature) then true else admitted_type r rsa_feature t
  end.

(* what stays outside the model: does ed25519_dalek::VerifyingKey::from_bytes accept these 32
   bytes (point decompression), does rsa::PublicKey::try_decode_x509 accept this DER and which
   PKCS#1 key does it hold *)
Definition curve_oracle := list N -> bool.
Definition x509_oracle := list N -> option (list N).

(* ed25519::PublicKey::try_from_bytes *)
Definition ed25519_try_from_bytes (on_curve : curve_oracle) (d : list N) : option (list N) :=
  if (len d =? 32) && on_curve d then Some d else None.

(* TryFrom<keys_proto::PublicKey> for RemotePublicKey *)
Definition admit_key (on_curve : curve_oracle) (x509 : x509_oracle) (rsa_feature : bool) (m : keymsg)
  : option key :=
  if admitted_type remote_admission rsa_feature (k_type m) then
    if k_type m =? KT_ED25519 then
      match ed25519_try_from_bytes on_curve (k_data m) with Some k => Some (KEd k) | None => None end
    else
      match x509 (k_data m) with Some pk => Some (KRsa pk) | None => None end
  else None.

(* RemotePublicKey::from_protobuf_encoding *)
Definition decode_pubkey (on_curve : curve_oracle) (x509 : x509_oracle) (rsa_feature : bool)
  : decoder :=
  fun b => match decode_keymsg b with Some m => admit_key on_curve x509 rsa_feature m | None => None end.

(* ---------- the error variant of the text parser ---------- *)
(* PeerId::from_str: 1 = ParseError::B58 (bs58 refused the text), 2 = ParseError::MultiHash *)
Definition of_text_err (t : list N) : N :=
  match b58_decode t with
  | None => 1
  | Some b => match of_bytes b with Some _ => 0 | None => 2 end
  end.

(* ---------- a stricter parser (NOT what the code does; see Properties, "the repair that was not made") ---------- *)
Definition of_bytes_strict (b : list N) : option pid :=
  match of_bytes b with
  | Some p => if list_eqb N.eqb (to_bytes p) b then Some p else None
  | None => None
  end.

(* ---------- the parse sites ---------- *)
(* The places of the Rust source where a peer id is made from received bytes, text or a
   multiaddress component (tools/gen_c18_sites.py, second table; Proofs.parse_sites_match).
   The `multihash` field is private to src/peer_id.rs and the only struct literals are the
   kind-1 sites of `derivation_sites`, so every PeerId outside that file comes out of one of the
   gates below; each line names the model function that stands for the site. *)
Definition parse_sites : list (N * N * N) :=
  [(0, 2, 10);   (* peer_id.rs  from_bytes -> from_multihash                          [of_bytes = mh_parse + admits] *)
   (0, 2, 13);   (*             from_bytes: Multihash::from_bytes                     [mh_parse] *)
   (0, 4, 10);   (* peer_id.rs  try_from_multiaddr -> from_multihash                  [of_component / of_addr_text] *)
   (0, 8, 9);    (* peer_id.rs  TryFrom<Vec<u8>> -> from_bytes                        [of_bytes] *)
   (0, 8, 10);   (*             TryFrom<Multihash> -> from_multihash                  [admits] *)
   (0, 14, 9);   (* peer_id.rs  Deserialize visit_bytes -> from_bytes                 [de_bin] *)
   (0, 15, 12);  (*             Deserialize visit_str -> from_str                     [de_hr] *)
   (0, 16, 9);   (* peer_id.rs  from_str -> from_bytes                                [of_text] *)
   (0, 16, 14);  (*             from_str: bs58::decode                                [b58_decode] *)
   (0, 21, 14);  (* peer_id.rs  to_base58: bs58::encode                               [b58_encode] *)
   (7, 20, 11);  (* transport/manager  dial_address -> try_from_multiaddr             [of_component] *)
   (7, 22, 10);  (* transport/manager  update_address_on_dial_failure: /p2p -> from_multihash   [admits] *)
   (7, 23, 10);  (* transport/manager  next (DialFailure with address): /p2p -> from_multihash  [admits] *)
   (9, 8, 9);    (* kademlia/types.rs  KademliaPeer::try_from(&schema::Peer) -> from_bytes(id)  [of_bytes] *)
   (10, 18, 9);  (* kademlia/message.rs record_from_schema -> from_bytes(publisher)   [of_bytes] *)
   (11, 24, 10); (* transport/common/listener.rs multiaddr_to_socket_address: /p2p -> from_multihash [admits] *)
   (12, 25, 10); (* transport/websocket multiaddr_into_url: /p2p -> from_multihash    [admits] *)
   (13, 19, 10); (* transport/quic/listener.rs get_socket_address: /p2p -> from_multihash [admits] *)
   (14, 26, 11)]. (* addresses.rs ensure_local_peer -> try_from_multiaddr              [of_component] *)

(* ---------- derivation with SHA-256 itself ---------- *)
(* `derive sha256` written so that the extracted code does not compute a digest it does not use
   (KeyProofs.derive_fast_eq) *)
Definition derive_fast (enc : list N) : pid :=
  if len enc <=? MAX_INLINE then mkPid IDENTITY enc else mkPid SHA256 (sha256 enc).
