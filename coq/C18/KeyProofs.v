(* C18, round 3 — lemmas about the key message decoder / key admission, the exact shape of the
   accepted-but-not-canonical inputs, and the extracted parse-site / admission tables. *)
From Coq Require Import List Arith NArith Bool Lia.
From Coq Require Import ZifyBool ZifyNat ZifyN.
From V.gen Require Consts PeerIdSites.
From V.common Require Import Wire Varint Protobuf Sha256.
From V.C18 Require Import Model Proofs.
Import ListNotations.
Open Scope N_scope.

Local Arguments N.add : simpl never.
Local Arguments N.mul : simpl never.
Local Arguments N.sub : simpl never.
Local Arguments N.eqb : simpl never.
Local Arguments N.ltb : simpl never.
Local Arguments N.leb : simpl never.
Local Arguments N.div : simpl never.
Local Arguments N.modulo : simpl never.
Local Arguments N.pow : simpl never.
Local Arguments N.of_nat : simpl never.
Local Arguments N.to_nat : simpl never.

(* ---------- the extracted tables ---------- *)
Lemma key_type_numbers_match :
  KT_RSA = 0 /\ KT_ED25519 = 1 /\ KT_SECP256K1 = 2 /\ KT_ECDSA = 3 /\
  key_types = PeerIdSites.key_type_numbers.
Proof. repeat split; reflexivity. Qed.

Lemma admission_table_match :
  remote_admission = PeerIdSites.remote_admission /\ local_admission = PeerIdSites.local_admission.
Proof. split; reflexivity. Qed.

Lemma parse_sites_match : parse_sites = PeerIdSites.parse_sites.
Proof. reflexivity. Qed.

(* ---------- admitted key types ---------- *)
Lemma admitted_remote rsa t :
  admitted_type remote_admission rsa t = (t =? 1) || ((t =? 0) && rsa).
Proof.
  unfold remote_admission, admitted_type.
  change KT_ED25519 with 1. change KT_RSA with 0. cbn [negb orb].
  rewrite (N.eqb_sym 1 t), (N.eqb_sym 0 t).
  destruct (t =? 1), (t =? 0), rsa; reflexivity.
Qed.

Lemma admitted_local rsa t : admitted_type local_admission rsa t = (t =? 1).
Proof.
  unfold local_admission, admitted_type. change KT_ED25519 with 1. cbn [negb orb].
  rewrite (N.eqb_sym 1 t). destruct (t =? 1); reflexivity.
Qed.

(* exhaustive over the enum: of the four key types of keys.proto exactly Ed25519 is admitted
   without the `rsa` feature, Ed25519 and RSA with it; Secp256k1 and ECDSA never *)
Lemma admitted_enum :
  map (admitted_type remote_admission false) key_types = [false; true; false; false] /\
  map (admitted_type remote_admission true) key_types = [true; true; false; false] /\
  map (admitted_type local_admission true) key_types = [false; true; false; false].
Proof. repeat split; reflexivity. Qed.

Lemma admitted_outside_enum rsa t : 4 <= t -> admitted_type remote_admission rsa t = false.
Proof.
  intros H. rewrite admitted_remote.
  destruct (N.eqb_spec t 1); [lia|]. destruct (N.eqb_spec t 0); [lia|]. reflexivity.
Qed.

(* ---------- encoder / decoder of the key message ---------- *)
Lemma encode_keymsg_fields m :
  encode_keymsg m = encode_fields [(1, WVarint (i32_to_u64 (k_type m))); (2, WLen (k_data m))].
Proof.
  unfold encode_keymsg, encode_fields. cbn [flat_map enc_field app]. unfold enc_key.
  change (1 * 8 + 0) with 8. change (2 * 8 + 2) with 18.
  rewrite (encode_small 8), (encode_small 18) by lia. rewrite app_nil_r. unfold blen, len.
  cbn [app]. reflexivity.
Qed.

Lemma decode_keymsg_encode m :
  k_type m < 2 ^ 32 -> len (k_data m) < 2 ^ 64 -> decode_keymsg (encode_keymsg m) = Some m.
Proof.
  intros Ht Hd. unfold decode_keymsg, pb_parse. rewrite encode_keymsg_fields.
  destruct (i32_roundtrip _ Ht) as (R & B).
  rewrite pb_parse_encode.
  - cbn [fold_keymsg]. change (1 =? 1) with true. change (2 =? 1) with false. change (2 =? 2) with true.
    cbn iota. cbn [k_type k_data]. rewrite R. destruct m; reflexivity.
  - repeat constructor; cbn [fst snd]; unfold wf_num; try (rewrite ?Protobuf.two29; lia); try exact B.
    exact Hd.
Qed.

Lemma encode_keymsg_ed k : length k = 32%nat -> encode_keymsg (mkKeyMsg KT_ED25519 k) = encode_ed25519 k.
Proof.
  intros L. unfold encode_keymsg, encode_ed25519. cbn [k_type k_data]. change KT_ED25519 with 1.
  unfold i32_to_u64. change (1 <? 2 ^ 31) with true. cbn iota.
  unfold len. rewrite L. change (N.of_nat 32) with 32. rewrite !encode_small by lia. reflexivity.
Qed.

Lemma encode_keymsg_rsa pk : encode_keymsg (mkKeyMsg KT_RSA (spki pk)) = key_encoding (KRsa pk).
Proof.
  unfold encode_keymsg, key_encoding. cbn [k_type k_data]. change KT_RSA with 0.
  unfold i32_to_u64. change (0 <? 2 ^ 31) with true. cbn iota.
  rewrite encode_small by lia. reflexivity.
Qed.

(* the canonical encoding of a key decodes to its two fields *)
Lemma decode_keymsg_canonical_ed k :
  length k = 32%nat -> decode_keymsg (encode_ed25519 k) = Some (mkKeyMsg 1 k).
Proof.
  intros L. rewrite <- (encode_keymsg_ed k L). apply decode_keymsg_encode; cbn [k_type k_data].
  - change KT_ED25519 with 1. rewrite Protobuf.two32. lia.
  - unfold len. rewrite L. rewrite Protobuf.two64. change (N.of_nat 32) with 32. lia.
Qed.

Lemma decode_keymsg_canonical_rsa pk :
  len (spki pk) < 2 ^ 64 -> decode_keymsg (key_encoding (KRsa pk)) = Some (mkKeyMsg 0 (spki pk)).
Proof.
  intros L. rewrite <- encode_keymsg_rsa. apply decode_keymsg_encode; cbn [k_type k_data]; [|exact L].
  change KT_RSA with 0. rewrite Protobuf.two32. lia.
Qed.

(* ---------- admission ---------- *)
Section Admission.
  Variable on_curve : curve_oracle.
  Variable x509 : x509_oracle.
  Variable rsa : bool.

  Let dec := decode_pubkey on_curve x509 rsa.

  Lemma admit_key_inv m k : admit_key on_curve x509 rsa m = Some k ->
    match k with
    | KEd kk => k_type m = 1 /\ k_data m = kk /\ length kk = 32%nat /\ on_curve kk = true
    | KRsa pk => k_type m = 0 /\ rsa = true /\ x509 (k_data m) = Some pk
    end.
  Proof.
    unfold admit_key. rewrite admitted_remote. change KT_ED25519 with 1.
    destruct (k_type m =? 1) eqn:E1.
    - cbn [orb]. unfold ed25519_try_from_bytes.
      destruct (len (k_data m) =? 32) eqn:EL; cbn [andb]; [|discriminate].
      destruct (on_curve (k_data m)) eqn:EC; [|discriminate].
      intros [= <-]. unfold len in EL. repeat split; [lia|lia|exact EC].
    - cbn [orb]. destruct (k_type m =? 0) eqn:E0; cbn [andb]; [|discriminate].
      destruct rsa eqn:ER; [|discriminate].
      destruct (x509 (k_data m)) as [pk|] eqn:EX; [|discriminate].
      intros [= <-]. repeat split; lia.
  Qed.

  Lemma decode_pubkey_sound b k : dec b = Some k ->
    exists m, decode_keymsg b = Some m /\
    match k with
    | KEd kk => k_type m = 1 /\ k_data m = kk /\ length kk = 32%nat /\ on_curve kk = true
    | KRsa pk => k_type m = 0 /\ rsa = true /\ x509 (k_data m) = Some pk
    end.
  Proof.
    unfold dec, decode_pubkey. destruct (decode_keymsg b) as [m|]; [|discriminate].
    intros A. exists m. split; [reflexivity|]. exact (admit_key_inv _ _ A).
  Qed.

  (* Secp256k1, ECDSA, numbers outside the enum, and RSA without the feature: UnknownKeyType *)
  Lemma decode_pubkey_other_types b m :
    decode_keymsg b = Some m -> k_type m <> 1 -> (k_type m <> 0 \/ rsa = false) -> dec b = None.
  Proof.
    intros D H1 H0. unfold dec, decode_pubkey. rewrite D. unfold admit_key. rewrite admitted_remote.
    destruct (k_type m =? 1) eqn:E1; [lia|]. cbn [orb].
    destruct (k_type m =? 0) eqn:E0; cbn [andb]; [|reflexivity].
    destruct H0 as [H0| ->]; [lia|reflexivity].
  Qed.

  Lemma decode_pubkey_canonical_ed k :
    length k = 32%nat -> dec (key_encoding (KEd k)) = if on_curve k then Some (KEd k) else None.
  Proof.
    intros L. unfold dec, decode_pubkey. cbn [key_encoding]. rewrite (decode_keymsg_canonical_ed k L).
    unfold admit_key. rewrite admitted_remote. cbn [k_type k_data]. change (1 =? 1) with true. cbn [orb].
    change KT_ED25519 with 1. change (1 =? 1) with true. cbn iota.
    unfold ed25519_try_from_bytes, len. rewrite L. change (N.of_nat 32 =? 32) with true. cbn [andb].
    destruct (on_curve k); reflexivity.
  Qed.

  Lemma decode_pubkey_canonical_rsa pk :
    len (spki pk) < 2 ^ 64 ->
    dec (key_encoding (KRsa pk)) =
      if rsa then match x509 (spki pk) with Some pk' => Some (KRsa pk') | None => None end else None.
  Proof.
    intros L. unfold dec, decode_pubkey. rewrite (decode_keymsg_canonical_rsa pk L).
    unfold admit_key. rewrite admitted_remote. cbn [k_type k_data].
    change (0 =? 1) with false. change (0 =? 0) with true. cbn [orb andb].
    destruct rsa; [|reflexivity]. change KT_ED25519 with 1. change (0 =? 1) with false. cbn iota.
    reflexivity.
  Qed.

  (* The composition: the id that the Noise / TLS identity check reports for received bytes `b`
     is the id of the canonical encoding of the admitted key — for an Ed25519 key the identity
     multihash of 08 01 12 20 ‖ key — whatever the framing of `b`; it is a valid id, and its own
     digest decodes back to the same key (the id is self-describing). *)
  Lemma remote_identity_canonical (H : hash) b v p :
    noise_identity dec H b v = Some p ->
    v = true /\ exists k, dec b = Some k /\ p = derive H (key_encoding k) /\
      match k with
      | KEd kk => p = mkPid 0 (encode_ed25519 kk) /\ length kk = 32%nat /\ on_curve kk = true /\
                  dec (digest p) = Some (KEd kk)
      | KRsa pk => rsa = true
      end.
  Proof.
    unfold noise_identity. destruct (dec b) as [k|] eqn:D; [|discriminate].
    destruct v; [|discriminate]. intros [= <-]. split; [reflexivity|].
    exists k. split; [reflexivity|]. split; [apply remote_is_derive|].
    destruct (decode_pubkey_sound _ _ D) as (m & Dm & S).
    destruct k as [kk|pk].
    - destruct S as (_ & _ & L & C).
      assert (E : remote_to_peer_id H (KEd kk) = mkPid 0 (encode_ed25519 kk)).
      { cbn [remote_to_peer_id]. unfold ed25519_to_peer_id, from_impl. apply ed25519_id. exact L. }
      rewrite E. cbn [digest]. repeat split; [exact L|exact C|].
      change (encode_ed25519 kk) with (key_encoding (KEd kk)).
      rewrite (decode_pubkey_canonical_ed kk L), C. reflexivity.
    - destruct S as (_ & R & _). exact R.
  Qed.

  (* two received encodings that are admitted as the same key give the same id *)
  Lemma remote_identity_one_id (H : hash) b1 b2 k :
    dec b1 = Some k -> dec b2 = Some k ->
    noise_identity dec H b1 true = noise_identity dec H b2 true /\
    tls_identity dec H b1 true = noise_identity dec H b1 true.
  Proof.
    intros D1 D2. split; [|apply handshakes_agree].
    apply identity_encoding_irrelevant. congruence.
  Qed.
End Admission.

(* ed25519::PublicKey::try_from_bytes: exactly 32 bytes that are a curve point *)
Lemma ed25519_try_from_bytes_spec oc d k :
  ed25519_try_from_bytes oc d = Some k <-> (k = d /\ length d = 32%nat /\ oc d = true).
Proof.
  unfold ed25519_try_from_bytes, len. split.
  - destruct (N.of_nat (length d) =? 32) eqn:E; cbn [andb]; [|discriminate].
    destruct (oc d) eqn:C; [|discriminate]. intros [= <-]. repeat split; lia.
  - intros (-> & L & C). rewrite L, C. reflexivity.
Qed.

(* ---------- the exact shape of accepted inputs ---------- *)
Lemma valid_header p : valid p = true ->
  encode (code p) = [code p] /\ encode (len (digest p)) = [len (digest p)].
Proof.
  intros V. destruct (valid_code _ V) as [E|E]; destruct (valid_inv _ V) as (_ & _ & L & _);
    rewrite E; split; apply encode_small; lia.
Qed.

(* an accepted byte string is header ++ digest where the header has 2, 11 or 20 bytes: each of the
   two varints is either its one-byte encoding or occupies ten bytes *)
Lemma of_bytes_header b p : of_bytes b = Some p ->
  exists h, b = h ++ digest p /\ (length h = 2 \/ length h = 11 \/ length h = 20)%nat /\
            (length h = 2%nat -> h = [code p; len (digest p)]).
Proof.
  intros H. destruct (of_bytes_inv _ _ H) as (V & pre1 & pre2 & E & L1 & L2 & C1 & C2).
  destruct (valid_header _ V) as (E1 & E2).
  exists (pre1 ++ pre2). split; [rewrite E, app_assoc; reflexivity|].
  assert (A1 : (length pre1 = 1 \/ length pre1 = 10)%nat).
  { destruct (Nat.le_gt_cases (length pre1) 9) as [Hl|Hl]; [|lia].
    left. rewrite (C1 Hl), E1. reflexivity. }
  assert (A2 : (length pre2 = 1 \/ length pre2 = 10)%nat).
  { destruct (Nat.le_gt_cases (length pre2) 9) as [Hl|Hl]; [|lia].
    left. rewrite (C2 Hl), E2. reflexivity. }
  rewrite app_length. split; [lia|].
  intros L. rewrite C1, C2 by lia. rewrite E1, E2. reflexivity.
Qed.

Lemma of_bytes_canonical_iff b p : of_bytes b = Some p ->
  (to_bytes p = b <-> length b = (length (digest p) + 2)%nat).
Proof.
  intros H. pose proof (of_bytes_valid _ _ H) as V. split.
  - intros <-. rewrite (to_bytes_shape _ V). cbn [length]. lia.
  - intros L. apply of_bytes_canonical; [exact H|lia].
Qed.

(* the accepted inputs that are not the rendering of their id are exactly 9 or 18 bytes longer *)
Lemma of_bytes_noncanonical_length b p : of_bytes b = Some p -> to_bytes p <> b ->
  (length b = length (to_bytes p) + 9 \/ length b = length (to_bytes p) + 18)%nat.
Proof.
  intros H N. pose proof (of_bytes_valid _ _ H) as V.
  destruct (of_bytes_header _ _ H) as (h & E & L & C).
  rewrite (to_bytes_shape _ V). cbn [length]. rewrite E, app_length.
  destruct L as [L|[L|L]]; [|lia|lia].
  exfalso. apply N. rewrite (to_bytes_shape _ V), E, (C L). reflexivity.
Qed.

(* ---------- the stricter parser (re-encoding check) that was NOT adopted ---------- *)
Lemma of_bytes_strict_spec b p : of_bytes_strict b = Some p <-> (valid p = true /\ b = to_bytes p).
Proof.
  unfold of_bytes_strict. split.
  - destruct (of_bytes b) as [q|] eqn:H; [|discriminate].
    destruct (list_eqb N.eqb (to_bytes q) b) eqn:E; [|discriminate]. intros [= <-].
    apply nlist_eqb_eq in E. split; [exact (of_bytes_valid _ _ H)|congruence].
  - intros (V & ->). rewrite (of_bytes_to_bytes _ V).
    destruct (list_eqb N.eqb (to_bytes p) (to_bytes p)) eqn:E; [reflexivity|].
    assert (T : list_eqb N.eqb (to_bytes p) (to_bytes p) = true) by (apply nlist_eqb_eq; reflexivity).
    congruence.
Qed.

(* it differs from the real parser exactly on the inputs of known-finding class 1 — which the
   reference accepts (same multihash / unsigned-varint code), so adopting it would trade the
   clause "accepts exactly what the reference accepts" for canonicality *)
Lemma of_bytes_strict_differs b :
  of_bytes_strict b <> of_bytes b <->
  exists p, of_bytes b = Some p /\
            (length b = length (to_bytes p) + 9 \/ length b = length (to_bytes p) + 18)%nat.
Proof.
  unfold of_bytes_strict. split.
  - destruct (of_bytes b) as [p|] eqn:H; [|congruence].
    destruct (list_eqb N.eqb (to_bytes p) b) eqn:E; [congruence|]. intros _.
    exists p. split; [reflexivity|]. apply of_bytes_noncanonical_length; [exact H|].
    intros X. apply nlist_eqb_eq in X. congruence.
  - intros (p & H & L). rewrite H.
    destruct (list_eqb N.eqb (to_bytes p) b) eqn:E; [|discriminate].
    apply nlist_eqb_eq in E. rewrite <- E in L. lia.
Qed.

(* ---------- text: canonical iff the decoded bytes are ---------- *)
Lemma of_text_canonical_iff t p : of_text t = Some p ->
  (to_text p = t <-> exists b, b58_decode t = Some b /\ length b = (length (digest p) + 2)%nat).
Proof.
  unfold of_text. destruct (b58_decode t) as [b|] eqn:D; [|discriminate]. intros H.
  destruct (b58_encode_decode _ _ D) as (E & B). split.
  - intros T. exists b. split; [reflexivity|]. apply (of_bytes_canonical_iff _ _ H).
    unfold to_text in T. rewrite <- E in T.
    assert (X : b58_decode (b58_encode (to_bytes p)) = b58_decode (b58_encode b)) by congruence.
    rewrite !b58_decode_encode in X; [congruence|exact B|].
    apply to_bytes_ok. apply (valid_inv _ (of_bytes_valid _ _ H)).
  - intros (b' & [= <-] & L). unfold to_text.
    rewrite (proj2 (of_bytes_canonical_iff _ _ H) L). exact E.
Qed.

(* the error variant of from_str *)
Lemma of_text_err_spec t :
  (of_text_err t = 0 <-> exists p, of_text t = Some p) /\
  (of_text_err t = 1 <-> b58_decode t = None) /\
  (of_text_err t = 2 <-> exists b, b58_decode t = Some b /\ of_bytes b = None).
Proof.
  unfold of_text_err, of_text. destruct (b58_decode t) as [b|].
  - destruct (of_bytes b) as [p|] eqn:H; repeat split; intros X;
      try discriminate; try lia; eauto;
      try (destruct X as (? & [= <-] & X); congruence);
      try (destruct X as (? & X); discriminate).
  - repeat split; intros X; try discriminate; try lia; try reflexivity;
      try (destruct X as (? & X & _); discriminate);
      try (destruct X as (? & X); discriminate).
Qed.

(* ---------- the binary /p2p component: canonical iff 5 bytes longer than the digest ---------- *)
Lemma encode_421 : encode 421 = [165; 3].
Proof. rewrite encode_step by lia. change (421 / 128) with 3. rewrite (encode_small 3) by lia. reflexivity. Qed.

Lemma to_component_shape p : valid p = true ->
  to_component p = [165; 3; len (digest p) + 2; code p; len (digest p)] ++ digest p.
Proof.
  intros V. unfold to_component. change P2P with 421. rewrite encode_421.
  rewrite (to_bytes_shape _ V). destruct (valid_inv _ V) as (_ & _ & L & _).
  assert (E : len (code p :: len (digest p) :: digest p) = len (digest p) + 2).
  { unfold len. cbn [length]. lia. }
  rewrite E, encode_small by lia. reflexivity.
Qed.

Lemma decode_gen_prefix_len nbytes bits l n rest :
  bytes_ok l = true -> decode_gen nbytes bits l = Some (n, rest) -> 128 <= n ->
  exists pre, l = pre ++ rest /\ (2 <= length pre <= nbytes)%nat /\
              (pow128 (length pre) <= 2 ^ bits -> pre = encode n).
Proof.
  intros B D Hn. destruct (decode_gen_inv _ _ _ _ _ B D) as (pre & E & W & M & L & V & C).
  exists pre. split; [exact E|]. split.
  - split; [|exact L]. destruct W as [b Hb|b t H1 H2 W].
    + exfalso. cbn [value] in V. rewrite (N.mod_small b 128) in V by lia.
      assert (b + 128 * 0 = b) as Z by lia. rewrite Z in V.
      pose proof (N.mod_le b (2 ^ bits)) as Q.
      assert (2 ^ bits <> 0) by (apply N.pow_nonzero; lia). specialize (Q ltac:(assumption)). lia.
    + pose proof (wf_nonempty _ W). destruct t; [congruence|cbn [length]; lia].
  - intros Hfit. pose proof (value_bound _ W). rewrite N.mod_small in V by lia. subst n. symmetry. exact C.
Qed.

Lemma of_component_canonical_iff b p : of_component b = Some p ->
  (to_component p = b <-> length b = (length (digest p) + 5)%nat).
Proof.
  intros H. pose proof (of_component_valid _ _ H) as V. split.
  { intros <-. rewrite (to_component_shape _ V). rewrite app_length. cbn [length]. lia. }
  intros LB. revert H. unfold of_component.
  destruct (bytes_ok b) eqn:B; [|discriminate].
  destruct (decode_u32 b) as [[id r1]|] eqn:D1; [|discriminate].
  destruct (id =? P2P) eqn:EI; [|discriminate]. apply N.eqb_eq in EI. subst id.
  destruct (decode_u64 r1) as [[n r2]|] eqn:D2; [|discriminate].
  destruct (len r2 =? n) eqn:EN; [|discriminate]. intros H.
  destruct (decode_gen_prefix_len _ _ _ _ _ B D1 ltac:(change P2P with 421; lia)) as (pre1 & E1 & L1 & C1).
  assert (Br1 : bytes_ok r1 = true).
  { rewrite E1, bytes_ok_app in B. apply andb_prop in B. tauto. }
  destruct (decode_u64_shape _ _ _ Br1 D2) as (pre2 & E2 & L2 & _ & C2).
  destruct (of_bytes_header _ _ H) as (h & E3 & L3 & C3).
  rewrite E1, E2, E3, !app_length in LB.
  assert (P1 : length pre1 = 2%nat) by lia.
  assert (P2 : length pre2 = 1%nat) by lia.
  assert (P3 : length h = 2%nat) by lia.
  rewrite (to_component_shape _ V), E1, E2, E3, (C3 P3).
  rewrite C1 by (rewrite P1; vm_compute; discriminate). change P2P with 421. rewrite encode_421.
  rewrite C2 by lia.
  assert (EL : n = len (digest p) + 2).
  { unfold len in EN. rewrite E3, app_length, P3 in EN. unfold len. lia. }
  destruct (valid_inv _ V) as (_ & _ & L & _).
  rewrite EL, encode_small by lia. reflexivity.
Qed.

(* ---------- is_public_key never answers None on a value of the type ---------- *)
Lemma is_public_key_total H p k : valid p = true -> is_public_key H p k <> None.
Proof.
  intros V. unfold is_public_key. destruct consts_facts as (_ & -> & _ & ->).
  destruct (valid_code _ V) as [E|E]; rewrite E; cbn; discriminate.
Qed.

(* a different Ed25519 key is told apart: Some false *)
Lemma is_public_key_other H k1 k2 :
  length k1 = 32%nat -> length k2 = 32%nat -> k1 <> k2 ->
  is_public_key H (from_public_key H k1) k2 = Some false.
Proof.
  intros L1 L2 N. rewrite (ed25519_id H k1 L1). unfold is_public_key.
  destruct consts_facts as (_ & -> & _ & ->). cbn [code]. change (0 =? 18) with false. change (0 =? 0) with true.
  cbn iota. f_equal. destruct (pid_eqb (mkPid 0 (encode_ed25519 k2)) (mkPid 0 (encode_ed25519 k1))) eqn:E; [|reflexivity].
  apply pid_eqb_eq in E. injection E as E. congruence.
Qed.

(* the infallible conversion into multiaddr::PeerId: every valid id satisfies the reference's rule *)
Lemma valid_ref_admits p : valid p = true -> ref_admits p = true.
Proof. intros V. rewrite <- admits_ref. apply (valid_inv _ V). Qed.

(* ---------- with the concrete SHA-256 (common/Sha256.v) ---------- *)
(* the first sentence of the property, closed: no hash parameter, no side condition on digests *)
Lemma derive_sha256_spec enc :
  derive sha256 enc = if len enc <=? 42 then mkPid 0 enc else mkPid 18 (sha256 enc).
Proof.
  unfold derive, of_key_enc. destruct consts_facts as (-> & -> & _ & ->). reflexivity.
Qed.

Lemma derive_sha256_valid enc : bytes_ok enc = true -> valid (derive sha256 enc) = true.
Proof.
  intros B. unfold derive. apply of_key_enc_valid; [exact B|apply sha256_bytes|apply sha256_length].
Qed.

Lemma derive_sha256_roundtrip enc : bytes_ok enc = true ->
  of_bytes (to_bytes (derive sha256 enc)) = Some (derive sha256 enc) /\
  of_text (to_text (derive sha256 enc)) = Some (derive sha256 enc) /\
  of_component (to_component (derive sha256 enc)) = Some (derive sha256 enc).
Proof.
  intros B. pose proof (derive_sha256_valid _ B) as V.
  repeat split; [apply of_bytes_to_bytes|apply of_text_to_text|apply of_component_to_component]; exact V.
Qed.

(* known-finding class 1 for a binary /p2p component, exactly: the protocol number in its 5-byte
   form (+3), the length prefix in its 10-byte form (+9), the multihash header as in
   of_bytes_noncanonical_length (+9, +18) — the sums of the oracle's `overlong` list *)
Lemma of_component_noncanonical_length b p : of_component b = Some p -> to_component p <> b ->
  exists e, (length b = length (to_component p) + e)%nat /\ In e [3; 9; 12; 18; 21; 27; 30]%nat.
Proof.
  intros H N. pose proof (of_component_valid _ _ H) as V.
  assert (NL : length b <> (length (digest p) + 5)%nat).
  { intros L. apply N. apply (of_component_canonical_iff _ _ H). exact L. }
  revert H. unfold of_component.
  destruct (bytes_ok b) eqn:B; [|discriminate].
  destruct (decode_u32 b) as [[id r1]|] eqn:D1; [|discriminate].
  destruct (id =? P2P) eqn:EI; [|discriminate]. apply N.eqb_eq in EI. subst id.
  destruct (decode_u64 r1) as [[n r2]|] eqn:D2; [|discriminate].
  destruct (len r2 =? n) eqn:EN; [|discriminate]. intros H.
  destruct (decode_gen_prefix_len _ _ _ _ _ B D1 ltac:(change P2P with 421; lia)) as (pre1 & E1 & L1 & C1).
  assert (Br1 : bytes_ok r1 = true).
  { rewrite E1, bytes_ok_app in B. apply andb_prop in B. tauto. }
  destruct (decode_u64_shape _ _ _ Br1 D2) as (pre2 & E2 & L2 & _ & C2).
  destruct (of_bytes_header _ _ H) as (h & E3 & L3 & _).
  destruct (valid_inv _ V) as (_ & _ & LD & _).
  assert (P1 : (length pre1 = 2 \/ length pre1 = 5)%nat).
  { destruct (Nat.le_gt_cases (length pre1) 4) as [Hl|Hl]; [|lia]. left.
    rewrite C1.
    - change P2P with 421. rewrite encode_421. reflexivity.
    - pose proof (pow128_mono _ _ Hl) as M. pose proof pow128_4. lia. }
  assert (Hn : n <= 84).
  { unfold len in EN. rewrite E3, app_length in EN. unfold len in LD. lia. }
  assert (P2 : (length pre2 = 1 \/ length pre2 = 10)%nat).
  { destruct (Nat.le_gt_cases (length pre2) 9) as [Hl|Hl]; [|lia]. left.
    rewrite (C2 Hl), encode_small by lia. reflexivity. }
  rewrite (to_component_shape _ V), app_length. cbn [length].
  rewrite E1, E2, E3, !app_length in NL |- *.
  exists (length pre1 - 2 + (length pre2 - 1) + (length h - 2))%nat. split; [lia|].
  cbn [In]. destruct P1 as [P1|P1], P2 as [P2|P2], L3 as [L3|[L3|L3]]; rewrite P1, P2, L3 in *; cbn; try lia; tauto.
Qed.

Lemma of_text_noncanonical_length t p : of_text t = Some p -> to_text p <> t ->
  exists b, b58_decode t = Some b /\
    (length b = length (to_bytes p) + 9 \/ length b = length (to_bytes p) + 18)%nat.
Proof.
  unfold of_text. destruct (b58_decode t) as [b|] eqn:D; [|discriminate]. intros H N.
  exists b. split; [reflexivity|]. apply of_bytes_noncanonical_length; [exact H|].
  intros E. apply N. unfold to_text. rewrite E. apply (b58_encode_decode _ _ D).
Qed.

Lemma derive_fast_eq enc : derive_fast enc = derive sha256 enc.
Proof. reflexivity. Qed.
