(* C18 — wire format, model runner and the trace oracle prop_ok. Definitions only.

   Cases (first number = kind; `L x..` = count-prefixed list):
     1 L bytes                         PeerId::from_bytes
     2 L chars                         PeerId::from_str (ASCII)
     3 L bytes                         Multiaddr::try_from(bytes) + PeerId::try_from_multiaddr
     4 L blob L sha acc L key          a protobuf key blob: sha = SHA-256(blob) (oracle), acc/key =
                                       did the implementation's protobuf+curve decoder accept it and
                                       which 32-byte key came out (oracle: prost and curve25519 are
                                       not modelled)
     5 L secret L pub L blob acc       an Ed25519 keypair and an encoding of its public key
                                       (canonical or mutated) pushed through the Noise identity check
                                       with a valid signature; acc = "blob decodes to pub" (oracle)
   Traces:
     kinds 1-3:  k 1 L bytes L text L component f1..f9 refacc refsame     accepted
                 k 0 refacc                                              rejected
     kind 4:     4 L pid_of_blob acc [L key L pid] refacc [L refpid]
     kind 5:     5 L pid L pub nacc [L noise_pid] L refpid ispk
   A panic is the single number PANIC_MARK. *)
From Coq Require Import List NArith Bool.
From V.common Require Import Wire Varint.
From V.C18 Require Import Model.
Import ListNotations.
Open Scope N_scope.

Definition pL : parser (list N) := plist pN.
Definition eL (l : list N) : list N := enc_list (fun x => [x]) l.

Inductive case :=
| CBytes (b : list N)
| CText (t : list N)
| CComp (b : list N)
| CBlob (blob sha : list N) (acc : bool) (key : list N)
| CKey (secret pub blob : list N) (acc : bool).

Definition p_case : parser case :=
  let* k := pN in
  match k with
  | 1 => let* b := pL in pret (CBytes b)
  | 2 => let* b := pL in pret (CText b)
  | 3 => let* b := pL in pret (CComp b)
  | 4 => let* blob := pL in let* sha := pL in let* acc := pBool in let* key := pL in
         pret (CBlob blob sha acc key)
  | 5 => let* s := pL in let* p := pL in let* blob := pL in let* acc := pBool in
         pret (CKey s p blob acc)
  | _ => pfail
  end.

Definition well_formed (c : case) : bool :=
  match c with
  | CBytes b | CText b | CComp b => true
  | CBlob blob sha acc key =>
      bytes_ok blob && bytes_ok sha && (len sha =? 32) && bytes_ok key &&
      (if acc then len key =? 32 else len key =? 0)
  | CKey s p blob _ => bytes_ok s && bytes_ok p && bytes_ok blob && (len s =? 32) && (len p =? 32)
  end.

Definition decode_case (l : list N) : option case :=
  match pall p_case l with
  | Some c => if well_formed c then Some c else None
  | None => None
  end.

Definition ones9 : list N := [1; 1; 1; 1; 1; 1; 1; 1; 1].

Definition accepted_tail (p : pid) : list N :=
  eL (to_bytes p) ++ eL (to_text p) ++ eL (to_component p) ++ ones9 ++ [1; 1].

Definition parse_result (k : N) (r : option pid) : list N :=
  match r with
  | Some p => k :: 1 :: accepted_tail p
  | None => [k; 0; 0]
  end.

(* the key a blob stands for: the canonical form is decided by the model, everything else by
   the oracle bit of the case *)
Definition blob_key (blob key : list N) : list N :=
  match decode_ed25519_canonical blob with Some k => k | None => key end.

Definition run (c : case) : list N :=
  match c with
  | CBytes b => parse_result 1 (of_bytes b)
  | CText t => parse_result 2 (of_text t)
  | CComp b => parse_result 3 (of_component b)
  | CBlob blob sha acc key =>
      4 :: eL (to_bytes (of_key_enc sha blob)) ++
      (if acc
       then let k := blob_key blob key in
            let pb := eL (to_bytes (of_ed25519 [] k)) in
            1 :: eL k ++ pb ++ 1 :: pb
       else [0; 0])
  | CKey s p blob acc =>
      let pb := eL (to_bytes (of_ed25519 [] p)) in
      5 :: pb ++ eL p ++ (if acc then 1 :: pb else [0]) ++ pb ++ [1]
  end.

Definition run_case (l : list N) : list N :=
  match decode_case l with
  | Some c => run c
  | None => [0]
  end.

(* ---------- the oracle ---------- *)
Definition all_ones (l : list N) : bool := forallb (N.eqb 1) l.

Definition pid_eqb (a b : pid) : bool := (code a =? code b) && nlist_eqb (digest a) (digest b).
Definition opid_is (o : option pid) (p : pid) : bool :=
  match o with Some q => pid_eqb q p | None => false end.

Record accepted := mkAcc {
  a_bytes : list N; a_text : list N; a_comp : list N; a_flags : list N; a_refacc : N; a_refsame : N
}.
Definition p_accepted : parser accepted :=
  let* b := pL in let* t := pL in let* c := pL in let* f := prep 9 pN in
  let* ra := pN in let* rs := pN in pret (mkAcc b t c f ra rs).

(* everything the property demands of an accepted parse except canonicality of the input:
   the three renderings denote one valid peer id (so converting to bytes / text / multiaddress
   and back is the identity), every conversion performed by the implementation came back to the
   same id (flags), the reference accepted the input and produced the same id. *)
Definition core_ok (a : accepted) : bool :=
  match of_bytes (a_bytes a) with
  | Some p =>
      valid p && ref_admits p &&
      opid_is (of_text (a_text a)) p && opid_is (of_component (a_comp a)) p &&
      nlist_eqb (to_bytes p) (a_bytes a) && nlist_eqb (to_text p) (a_text a) &&
      nlist_eqb (to_component p) (a_comp a) &&
      all_ones (a_flags a) && (a_refacc a =? 1) && (a_refsame a =? 1)
  | None => false
  end.

(* canonicality: the accepted input is the rendering of the id (one string per id) *)
Definition canon_ok (c : case) (a : accepted) : bool :=
  match c with
  | CBytes b => nlist_eqb b (a_bytes a)
  | CText t => nlist_eqb t (a_text a)
  | CComp b => nlist_eqb b (a_comp a)
  | _ => true
  end.

(* known class 1: the input is strictly longer than the rendering — an over-long varint
   (10 bytes for u64, 5 for u32) whose excess bits unsigned-varint drops silently *)
Definition overlong (c : case) (a : accepted) : bool :=
  match c with
  | CBytes b => Nat.ltb (length (a_bytes a)) (length b)
  | CText t => match b58_decode t with
               | Some b => Nat.ltb (length (a_bytes a)) (length b)
               | None => false
               end
  | CComp b => Nat.ltb (length (a_comp a)) (length b)
  | _ => false
  end.

Definition kind_of (c : case) : N :=
  match c with CBytes _ => 1 | CText _ => 2 | CComp _ => 3 | CBlob _ _ _ _ => 4 | CKey _ _ _ _ => 5 end.

Definition is_parse (c : case) : bool := kind_of c <=? 3.

Definition blob_ok (blob sha : list N) (body : list N) : bool :=
  match pall (let* pid0 := pL in let* acc := pN in
              if acc =? 1
              then let* key := pL in let* pidb := pL in let* ra := pN in
                   if ra =? 1 then let* rp := pL in pret (pid0, Some (key, pidb, Some rp))
                   else pret (pid0, Some (key, pidb, None))
              else let* ra := pN in
                   if ra =? 1 then let* rp := pL in pret (pid0, None) else pret (pid0, None)) body with
  | Some (pid0, r) =>
      (* from_public_key_protobuf: identity multihash of the bytes when <= 42, else SHA-256 *)
      nlist_eqb pid0 (to_bytes (of_key_enc sha blob)) &&
      match r with
      | Some (key, pidb, Some rp) =>
          (* same acceptance as the reference, same id as the reference, and the id is the one
             of the canonical encoding of the key *)
          nlist_eqb pidb rp && (len key =? 32) &&
          nlist_eqb pidb (to_bytes (of_ed25519 [] key)) &&
          match decode_ed25519_canonical blob with Some k => nlist_eqb k key | None => true end
      | Some (_, _, None) => false
      | None =>
          (* rejected by both: second number after pid0 must be refacc = 0 *)
          match pall (let* _ := pL in let* a := pN in let* ra := pN in pret (a, ra)) body with
          | Some (a, ra) => (a =? 0) && (ra =? 0)
          | None => false
          end
      end
  | None => false
  end.

Definition key_ok (pub : list N) (acc : bool) (body : list N) : bool :=
  match pall (let* pidb := pL in let* pk := pL in let* na := pN in
              let* np := (if na =? 1 then let* x := pL in pret (Some x) else pret None) in
              let* rp := pL in let* ispk := pN in pret (pidb, pk, na, np, rp, ispk)) body with
  | Some (pidb, pk, na, np, rp, ispk) =>
      let want := to_bytes (of_ed25519 [] pub) in
      nlist_eqb pk pub && nlist_eqb pidb want && nlist_eqb rp want && (ispk =? 1) &&
      match np with
      | Some x => nlist_eqb x want       (* whatever encoding was received, the id is the key's *)
      | None => negb acc                 (* an encoding of the key must not be turned away *)
      end
  | None => false
  end.

Definition prop_parts (case trace : list N) : option (bool * bool * bool) :=
  (* (core, canonical, overlong) *)
  match decode_case case with
  | None => match trace with [0] => Some (true, true, false) | _ => Some (false, true, false) end
  | Some c =>
      match trace with
      | k :: rest =>
          if negb (k =? kind_of c) then Some (false, true, false)
          else if is_parse c then
            match rest with
            | [0; ra] => Some (ra =? 0, true, false)   (* rejected: the reference must reject too *)
            | 1 :: body =>
                match pall p_accepted body with
                | Some a => Some (core_ok a, canon_ok c a, overlong c a)
                | None => Some (false, true, false)
                end
            | _ => Some (false, true, false)
            end
          else
            match c with
            | CBlob blob sha _ _ => Some (blob_ok blob sha rest, true, false)
            | CKey _ pub _ acc => Some (key_ok pub acc rest, true, false)
            | _ => Some (false, true, false)
            end
      | [] => Some (false, true, false)
      end
  end.

Definition prop_ok (case trace : list N) : bool :=
  match prop_parts case trace with
  | Some (core, canon, _) => core && canon
  | None => false
  end.

Definition known_class (case trace : list N) : N :=
  match prop_parts case trace with
  | Some (true, false, true) => 1
  | _ => 0
  end.
