(* C18 — wire format, model runner and the trace oracle prop_ok. Definitions only.

   Cases (first number = kind; `L x..` = count-prefixed list):
     1 L bytes                         PeerId::from_bytes
     2 L chars                         PeerId::from_str (ASCII)
     3 L bytes                         Multiaddr::try_from(bytes) + PeerId::try_from_multiaddr
     4 L blob oc                       a protobuf key blob; oc = is the Data field a point of the curve
                                       (oracle: curve25519 is not modelled; the protobuf decoding, the
                                       key admission and SHA-256 are)
     5 L secret L pub L blob           an Ed25519 keypair and an encoding of its public key
                                       (canonical or mutated) pushed through the Noise identity check
                                       with a valid signature of that key
     6 L chars                         Multiaddr::from_str + PeerId::try_from_multiaddr (text made of
                                       p2p / ipfs / p2p-circuit components)
     7 L bytes L bytes                 two ids: PartialEq, Ord, Hash against the byte order
     8 n                               n draws of PeerId::random()
     9 L secret L pub L blob           as 5, through a TLS certificate (QUIC; harness built with `quic`)
     10 L blob L pkcs1 xacc            an RSA key (harness built with `rsa`): blob = protobuf framing
                                       around its SubjectPublicKeyInfo, xacc = does the X.509 parser
                                       take the Data field for this key (oracle, only consulted when the
                                       field is not the canonical DER)
     11 L peer L addr                  AddressRecord::new(peer, addr, 0) / from_multiaddr(addr) for a peer
                                       id given as bytes and ANY binary multiaddress (multiaddr 0.18.2's
                                       protocol table, coq/C19/Formats.v), and try_from_multiaddr of the
                                       address and of the record's address
   Traces:
     kinds 1-3,6: k 1 L bytes L text L component f1..f10 refacc refsame    accepted
                  k 0 refacc agree [err]                                  rejected (kind 2: err = 1
                                                                          ParseError::B58, 2 MultiHash)
                  (f10 / agree: every other entry point for the same input gives the same result)
     kind 4:     4 L pid_of_blob dm [type L data] acc [L key L pid] refacc [L refpid]
                 (dm: prost decoded the message; type = the i32 as u32; data = the Data field)
     kind 5, 9:  k L pid L pub nacc [L handshake_pid] L refpid ispk
     kind 7:     7 a1 a2 [eq ord hashimp byteseq bytesord texteq]   (ord: 0 Less 1 Equal 2 Greater)
     kind 8:     8 ok
     kind 10:    10 acc [L pid] nacc [L noise_pid] tacc [L tls_pid]
     kind 11:    11 pacc [aacc [r0acc [L r0] L recbytes r1acc [L r1] fm]]
                 (r0 = try_from_multiaddr(addr), recbytes = record.address().to_vec(),
                  r1 = try_from_multiaddr(record.address()), fm = from_multiaddr(addr).is_some())
   A panic is the single number PANIC_MARK. *)
From Coq Require Import List NArith Bool.
From V.common Require Import Wire Varint.
From V.common Require Import Protobuf Sha256.
From V.C18 Require Import Model Addr.
From V.C19 Require Import Formats.
Import ListNotations.
Open Scope N_scope.

Definition pL : parser (list N) := plist pN.
Definition eL (l : list N) : list N := enc_list (fun x => [x]) l.

Inductive case :=
| CBytes (b : list N)
| CText (t : list N)
| CComp (b : list N)
| CBlob (blob : list N) (oc : bool)
| CKey (secret pub blob : list N)
| CAddr (t : list N)
| CPair (b1 b2 : list N)
| CRandom (n : N)
| CTls (secret pub blob : list N)
| CRsa (blob pkcs1 : list N) (xacc : bool)
| CRec (peer addr : list N).

Definition p_case : parser case :=
  let* k := pN in
  match k with
  | 1 => let* b := pL in pret (CBytes b)
  | 2 => let* b := pL in pret (CText b)
  | 3 => let* b := pL in pret (CComp b)
  | 4 => let* blob := pL in let* oc := pBool in pret (CBlob blob oc)
  | 5 => let* s := pL in let* p := pL in let* blob := pL in pret (CKey s p blob)
  | 6 => let* b := pL in pret (CAddr b)
  | 7 => let* a := pL in let* b := pL in pret (CPair a b)
  | 8 => let* n := pN in pret (CRandom n)
  | 9 => let* s := pL in let* p := pL in let* blob := pL in pret (CTls s p blob)
  | 10 => let* blob := pL in let* pk := pL in let* acc := pBool in pret (CRsa blob pk acc)
  | 11 => let* pb := pL in let* ab := pL in pret (CRec pb ab)
  | _ => pfail
  end.

Definition well_formed (c : case) : bool :=
  match c with
  | CBytes b | CText b | CComp b | CAddr b => true
  | CPair _ _ | CRandom _ | CRec _ _ => true
  | CTls s p blob => bytes_ok s && bytes_ok p && bytes_ok blob && (len s =? 32) && (len p =? 32)
  | CRsa blob pk _ => bytes_ok blob && bytes_ok pk
  | CBlob blob _ => bytes_ok blob
  | CKey s p blob => bytes_ok s && bytes_ok p && bytes_ok blob && (len s =? 32) && (len p =? 32)
  end.

Definition decode_case (l : list N) : option case :=
  match pall p_case l with
  | Some c => if well_formed c then Some c else None
  | None => None
  end.

Definition ones10 : list N := [1; 1; 1; 1; 1; 1; 1; 1; 1; 1].

Definition accepted_tail (p : pid) : list N :=
  eL (to_bytes p) ++ eL (to_text p) ++ eL (to_component p) ++ ones10 ++ [1; 1].

Definition parse_result (k : N) (r : option pid) : list N :=
  match r with
  | Some p => k :: 1 :: accepted_tail p
  | None => [k; 0; 0; 1]
  end.

(* PeerId::from_str: a rejection also names the error variant *)
Definition text_result (t : list N) : list N :=
  match of_text t with
  | Some p => 2 :: 1 :: accepted_tail p
  | None => [2; 0; 0; 1; of_text_err t]
  end.

Definition enc_cmp (c : comparison) : N := match c with Lt => 0 | Eq => 1 | Gt => 2 end.
Definition const_hash (sha : list N) : hash := fun _ => sha.

Definition handshake_trace (k : N) (p : list N) (acc : bool) : list N :=
  let pb := eL (to_bytes (from_public_key (const_hash []) p)) in
  k :: pb ++ eL p ++ (if acc then 1 :: pb else [0]) ++ pb ++ [1].

(* The decoders of the two builds: the default one has no `rsa` feature (an RSA-typed message is
   UnknownKeyType), the second stream has it. The curve check is the oracle bit of the case; the
   X.509 parser is asked only about Data fields that are not the canonical DER of the key. *)
Definition blob_decoder (oc : bool) : decoder :=
  decode_pubkey (fun _ => oc) (fun _ => None) false.

(* kinds 5 / 9: the signature is made with the secret key of `pub`, so the identity check goes
   through exactly when the message decodes to an Ed25519-typed `pub` (a real public key is a
   curve point) *)
Definition key_decoder (pub : list N) : decoder :=
  decode_pubkey (fun d => nlist_eqb d pub) (fun _ => None) false.
Definition blob_is_key (pub blob : list N) : bool :=
  match key_decoder pub blob with Some (KEd k) => nlist_eqb k pub | _ => false end.

Definition rsa_decoder (pk : list N) (xacc : bool) : decoder :=
  decode_pubkey (fun _ => false)
                (fun d => if nlist_eqb d (spki pk) then Some pk else if xacc then Some pk else None) true.
Definition blob_is_rsa_key (pk : list N) (xacc : bool) (blob : list N) : bool :=
  match rsa_decoder pk xacc blob with Some (KRsa _) => true | _ => false end.

Definition keymsg_trace (blob : list N) : list N :=
  match decode_keymsg blob with
  | Some m => 1 :: k_type m :: eL (k_data m)
  | None => [0]
  end.

Definition opt_pid (o : option pid) : list N :=
  match o with Some q => 1 :: eL (to_bytes q) | None => [0] end.

Definition rec_trace (pb ab : list N) : list N :=
  match of_bytes pb with
  | None => [11; 0]
  | Some p =>
      match maddr_parse ab with
      | Ok cs =>
          11 :: 1 :: 1 :: opt_pid (of_comps cs) ++
          match record_new_bytes p ab with
          | Some rb => eL rb ++ opt_pid (of_maddr rb)
          | None => []
          end ++ [b2n (ends_with_p2p cs)]
      | _ => [11; 1; 0]
      end
  end.

Definition run (c : case) : list N :=
  match c with
  | CBytes b => parse_result 1 (of_bytes b)
  | CText t => text_result t
  | CComp b => parse_result 3 (of_component b)
  | CBlob blob oc =>
      4 :: eL (to_bytes (derive_fast blob)) ++ keymsg_trace blob ++
      (match blob_decoder oc blob with
       | Some (KEd k) =>
            let pb := eL (to_bytes (remote_to_peer_id (const_hash []) (KEd k))) in
            1 :: eL k ++ pb ++ 1 :: pb
       | _ => [0; 0]
       end)
  | CKey s p blob => handshake_trace 5 p (blob_is_key p blob)
  | CAddr t => parse_result 6 (of_addr_text t)
  | CPair b1 b2 =>
      match of_bytes b1, of_bytes b2 with
      | Some p, Some q =>
          [7; 1; 1; b2n (pid_eqb p q); enc_cmp (pid_cmp p q); 1;
           b2n (nlist_eqb (to_bytes p) (to_bytes q)); enc_cmp (list_cmp (to_bytes p) (to_bytes q));
           b2n (nlist_eqb (to_text p) (to_text q))]
      | a, b => [7; b2n (match a with Some _ => true | None => false end);
                 b2n (match b with Some _ => true | None => false end)]
      end
  | CRandom _ => [8; 1]
  | CTls s p blob => handshake_trace 9 p (blob_is_key p blob)
  | CRsa blob pk xacc =>
      if blob_is_rsa_key pk xacc blob
      then let pb := eL (to_bytes (remote_to_peer_id sha256 (KRsa pk))) in
           10 :: 1 :: pb ++ 1 :: pb ++ 1 :: pb
      else [10; 0; 0; 0]
  | CRec pb ab => rec_trace pb ab
  end.

Definition run_case (l : list N) : list N :=
  match decode_case l with
  | Some c => run c
  | None => [0]
  end.

(* ---------- the oracle ---------- *)
Definition all_ones (l : list N) : bool := forallb (N.eqb 1) l.

Definition opid_is (o : option pid) (p : pid) : bool :=
  match o with Some q => pid_eqb q p | None => false end.

Record accepted := mkAcc {
  a_bytes : list N; a_text : list N; a_comp : list N; a_flags : list N; a_refacc : N; a_refsame : N
}.
Definition p_accepted : parser accepted :=
  let* b := pL in let* t := pL in let* c := pL in let* f := prep 10 pN in
  let* ra := pN in let* rs := pN in pret (mkAcc b t c f ra rs).

(* everything the property demands of an accepted parse except canonicality of the input:
   the three renderings denote one valid peer id (so converting to bytes / text / multiaddress
   and back is the identity), every conversion performed by the implementation came back to the
   same id (flags), the reference accepted the input and produced the same id. *)
Definition core_ok (a : accepted) : bool :=
  match of_bytes (a_bytes a) with
  | Some p =>
      valid p && ref_admits p &&
      opid_is (of_text (a_text a)) p && opid_is (of_component (a_comp a)) p &&
      nlist_eqb (to_bytes p) (a_bytes a) && nlist_eqb (to_text p) (a_text a) &&
      nlist_eqb (to_component p) (a_comp a) &&
      all_ones (a_flags a) && (a_refacc a =? 1) && (a_refsame a =? 1)
  | None => false
  end.

(* canonicality: the accepted input is the rendering of the id (one string per id) *)
Definition canon_ok (c : case) (a : accepted) : bool :=
  match c with
  | CBytes b => nlist_eqb b (a_bytes a)
  | CText t => nlist_eqb t (a_text a)
  | CComp b => nlist_eqb b (a_comp a)
  | _ => true      (* "/ipfs/.." and addresses with more components are other spellings by design *)
  end.

(* known class 1: an over-long varint (10 bytes for u64, 5 for u32) whose excess bits
   unsigned-varint drops silently. For bytes and text the accepted inputs that are not the
   rendering of their id are EXACTLY 9 or 18 bytes longer than it (KeyProofs.
   of_bytes_noncanonical_length: one or both header varints in their 10-byte form); a /p2p
   component adds the 5-byte form of the protocol number (+3) and the 10-byte form of its length
   prefix (+9). *)
Definition excess_in (longer shorter : list N) (allowed : list nat) : bool :=
  Nat.ltb (length shorter) (length longer) &&
  existsb (Nat.eqb (length longer - length shorter)) allowed.

Definition overlong (c : case) (a : accepted) : bool :=
  match c with
  | CBytes b => excess_in b (a_bytes a) [9; 18]%nat
  | CText t => match b58_decode t with
               | Some b => excess_in b (a_bytes a) [9; 18]%nat
               | None => false
               end
  | CComp b => excess_in b (a_comp a) [3; 9; 12; 18; 21; 27; 30]%nat
  | _ => false
  end.

Definition kind_of (c : case) : N :=
  match c with
  | CBytes _ => 1 | CText _ => 2 | CComp _ => 3 | CBlob _ _ => 4 | CKey _ _ _ => 5
  | CAddr _ => 6 | CPair _ _ => 7 | CRandom _ => 8 | CTls _ _ _ => 9 | CRsa _ _ _ => 10
  | CRec _ _ => 11
  end.

Definition is_parse (c : case) : bool := (kind_of c <=? 3) || (kind_of c =? 6).

(* two ids: the derived PartialEq / Ord / Hash agree with the byte form *)
Definition pair_ok (body : list N) : bool :=
  match body with
  | [1; 1; eq; ord; hashimp; beq; bord; teq] =>
      (eq =? beq) && (eq =? teq) && (ord =? bord) && (hashimp =? 1) &&
      Bool.eqb (eq =? 1) (ord =? 1) && (eq <=? 1) && (ord <=? 2)
  | [a1; a2] => negb ((a1 =? 1) && (a2 =? 1)) && (a1 <=? 1) && (a2 <=? 1)
  | _ => false
  end.

(* an RSA key: whatever framing was received, all three paths give the id of the canonical
   message (SHA-256 multihash; the digest is the oracle of the case) *)
Definition rsa_ok (pk : list N) (xacc : bool) (blob : list N) (body : list N) : bool :=
  let acc := blob_is_rsa_key pk xacc blob in
  match pall (let* a := pN in
              let* p1 := (if a =? 1 then let* x := pL in pret (Some x) else pret None) in
              let* na := pN in
              let* p2 := (if na =? 1 then let* x := pL in pret (Some x) else pret None) in
              let* ta := pN in
              let* p3 := (if ta =? 1 then let* x := pL in pret (Some x) else pret None) in
              pret (p1, p2, p3)) body with
  | Some (p1, p2, p3) =>
      let want := to_bytes (remote_to_peer_id sha256 (KRsa pk)) in
      let good := fun o : option (list N) =>
                    match o with Some x => acc && nlist_eqb x want | None => negb acc end in
      good p1 && good p2 && good p3
  | None => false
  end.

Definition p_optlist (flag : N) : parser (option (list N)) :=
  if flag =? 1 then let* x := pL in pret (Some x) else pret None.

(* a key blob: `from_public_key_protobuf` is the identity / SHA-256 multihash of the bytes as they
   are; when the blob is admitted as a key, the id is the one of the canonical encoding of the key
   the message carries (Ed25519-typed, 32 bytes — the trace's own report of the decoded message
   is used, so this does not depend on the model's decoder) and the reference derives the same
   id; the reference admits the blob exactly when litep2p does *)
Definition blob_ok (blob : list N) (body : list N) : bool :=
  match pall (let* pid0 := pL in
              let* dm := pN in
              let* msg := (if dm =? 1 then let* t := pN in let* d := pL in pret (Some (t, d)) else pret None) in
              let* acc := pN in
              let* key := p_optlist acc in
              let* pidb := p_optlist acc in
              let* ra := pN in
              let* rp := p_optlist ra in
              pret (pid0, dm, msg, acc, key, pidb, ra, rp)) body with
  | Some (pid0, dm, msg, acc, key, pidb, ra, rp) =>
      nlist_eqb pid0 (to_bytes (derive_fast blob)) && (dm <=? 1) && (acc <=? 1) && (ra <=? 1) &&
      (acc =? ra) &&
      match key, pidb, rp with
      | Some key, Some pidb, Some rp =>
          nlist_eqb pidb rp && (len key =? 32) &&
          nlist_eqb pidb (to_bytes (of_ed25519 [] key)) &&
          match msg with
          | Some (t, d) => (t =? KT_ED25519) && nlist_eqb d key
          | None => false
          end &&
          match decode_ed25519_canonical blob with Some k => nlist_eqb k key | None => true end
      | None, None, None => true
      | _, _, _ => false
      end
  | None => false
  end.

Definition key_ok (pub blob : list N) (body : list N) : bool :=
  match pall (let* pidb := pL in let* pk := pL in let* na := pN in
              let* np := p_optlist na in
              let* rp := pL in let* ispk := pN in pret (pidb, pk, na, np, rp, ispk)) body with
  | Some (pidb, pk, na, np, rp, ispk) =>
      let want := to_bytes (of_ed25519 [] pub) in
      nlist_eqb pk pub && nlist_eqb pidb want && nlist_eqb rp want && (ispk =? 1) &&
      match np with
      | Some x => nlist_eqb x want       (* whatever encoding was received, the id is the key's *)
      | None => negb (blob_is_key pub blob)   (* a protobuf encoding of the key must not be turned away *)
      end
  | None => false
  end.

(* AddressRecord::new: whenever the peer id and the address are accepted, the record's address
   yields an id; it is the given peer when the address did not end with /p2p, and otherwise the
   address is kept byte for byte and yields the id it already carried (from_multiaddr says which
   case it is) *)
Definition rec_ok (pb ab : list N) (body : list N) : bool :=
  match body with
  | [0] => true
  | [1; 0] => true
  | 1 :: 1 :: rest =>
      match pall (let* a0 := pN in let* r0 := p_optlist a0 in
                  let* rb := pL in
                  let* a1 := pN in let* r1 := p_optlist a1 in
                  let* fm := pN in pret (r0, rb, r1, fm)) rest with
      | Some (r0, rb, r1, fm) =>
          match r1 with
          | None => false
          | Some r1 =>
              if fm =? 1 then
                nlist_eqb rb ab && match r0 with Some r0 => nlist_eqb r0 r1 | None => false end
              else if fm =? 0 then
                match r0 with Some _ => false | None => true end &&
                match of_bytes pb with Some p => nlist_eqb r1 (to_bytes p) | None => false end &&
                Nat.ltb (length ab) (length rb) && nlist_eqb (firstn (length ab) rb) ab
              else false
          end
      | None => false
      end
  | _ => false
  end.

Definition prop_parts (case trace : list N) : option (bool * bool * bool) :=
  (* (core, canonical, overlong) *)
  match decode_case case with
  | None => match trace with [0] => Some (true, true, false) | _ => Some (false, true, false) end
  | Some c =>
      match trace with
      | k :: rest =>
          if negb (k =? kind_of c) then Some (false, true, false)
          else if is_parse c then
            match rest with
            | [0; ra; ag] => Some ((ra =? 0) && (ag =? 1) && negb (k =? 2), true, false)
                (* rejected: the reference and every other entry point must reject too *)
            | [0; ra; ag; err] =>
                Some ((ra =? 0) && (ag =? 1) && (k =? 2) && ((err =? 1) || (err =? 2)), true, false)
            | 1 :: body =>
                match pall p_accepted body with
                | Some a => Some (core_ok a, canon_ok c a, overlong c a)
                | None => Some (false, true, false)
                end
            | _ => Some (false, true, false)
            end
          else
            match c with
            | CBlob blob _ => Some (blob_ok blob rest, true, false)
            | CKey _ pub blob | CTls _ pub blob => Some (key_ok pub blob rest, true, false)
            | CPair _ _ => Some (pair_ok rest, true, false)
            | CRandom _ => Some (match rest with [1] => true | _ => false end, true, false)
            | CRsa blob pk xacc => Some (rsa_ok pk xacc blob rest, true, false)
            | CRec pb ab => Some (rec_ok pb ab rest, true, false)
            | _ => Some (false, true, false)
            end
      | [] => Some (false, true, false)
      end
  end.

Definition prop_ok (case trace : list N) : bool :=
  match prop_parts case trace with
  | Some (core, canon, _) => core && canon
  | None => false
  end.

Definition known_class (case trace : list N) : N :=
  match prop_parts case trace with
  | Some (true, false, true) => 1
  | _ => 0
  end.
