(* C14 — the address stores inside the routing table (KademliaPeer.address_store:
   src/transport/manager/address.rs AddressStore::{insert, addresses, is_empty} as used by
   kademlia/types.rs KademliaPeer::{new, push_addresses, addresses} and by
   routing_table.rs add_known_peer / on_connection_established / on_dial_failure).
   Definitions only.

   The rich state is the table of Model.v together with one store per node, in the same shape
   (`stores`: bucket i, position p).  The table component of a rich step IS Model.step on the
   abstracted operation; AddrProofs.v shows that the has-address flag of Model.node is exactly
   "the store is not empty", which justifies the abstraction used by every other theorem.

   Addresses are numbers: a = 2m is the multiaddress number m with the /p2p/<peer> suffix of the
   peer it is given for, a = 2m+1 the same address without the suffix; m >= 100 is a global
   (public) IPv4 address, m < 100 a private one.  Scores are integers; only 0, +-100 and the
   public bonus occur in this use of the store, so i32 saturation never applies.
   Where the result depends on HashMap iteration order (which of several minimal records is
   evicted from a full store; the order of equal scores in `addresses(limit)`) the
   implementation's choice is an input that the model validates (bad choice => the model goes its
   own way and the traces differ). *)
From Coq Require Import List NArith ZArith Bool Arith.
From V.gen Require Consts.
From V.C14 Require Import Model.
Import ListNotations.

Definition addr := N.
Definition store := list (addr * Z).

Definition CAP : nat := N.to_nat Consts.MAX_ADDRESSES.
Definition REPORT : nat := N.to_nat Consts.C19_KAD_MAX_ADDRESSES.
Definition S_OK : Z := Z.of_N Consts.SCORE_CONNECTION_ESTABLISHED.
Definition S_FAIL : Z := (- Z.of_N Consts.SCORE_CONNECTION_FAILURE_NEG)%Z.
Definition S_BONUS : Z := Z.of_N Consts.SCORE_PUBLIC_ADDRESS_BONUS.

Definition is_global (a : addr) : bool := (100 <=? a / 2)%N.
(* add_known_peer: append /p2p/<peer> unless the address already ends in /p2p *)
Definition with_p2p (a : addr) : addr := if N.even a then a else (a - 1)%N.

Fixpoint sfind (a : addr) (s : store) : option Z :=
  match s with
  | [] => None
  | (b, z) :: t => if (b =? a)%N then Some z else sfind a t
  end.

Fixpoint sset (a : addr) (z : Z) (s : store) : store :=
  match s with
  | [] => []
  | (b, y) :: t => if (b =? a)%N then (b, z) :: t else (b, y) :: sset a z t
  end.

Fixpoint sremove (a : addr) (s : store) : store :=
  match s with
  | [] => []
  | (b, y) :: t => if (b =? a)%N then t else (b, y) :: sremove a t
  end.

Fixpoint smin (s : store) : option Z :=
  match s with
  | [] => None
  | (_, z) :: t => match smin t with Some m => Some (Z.min z m) | None => Some z end
  end.

Inductive ins_result := IKept | IUpdated | IInserted | IDropped | IEvicted (v : addr) | IBad.

(* AddressStore::insert(record with score sc); victim = the implementation's choice among the
   minimal records when the store is full *)
Definition sinsert (cap : nat) (s : store) (a : addr) (sc : Z) (victim : option addr)
  : store * ins_result :=
  match sfind a s with
  | Some _ => if (sc =? 0)%Z then (s, IKept) else (sset a sc s, IUpdated)
  | None =>
      let sc' := if is_global a then (sc + S_BONUS)%Z else sc in
      if (cap <=? length s)%nat then
        match smin s with
        | None => (s, IBad)                      (* capacity 0: the code panics *)
        | Some m =>
            if (sc' <? m)%Z then (s, IDropped)
            else match victim with
                 | None => (s, IBad)
                 | Some v =>
                     match sfind v s with
                     | Some vs => if (vs =? m)%Z then (sremove v s ++ [(a, sc')], IEvicted v)
                                  else (s, IBad)
                     | None => (s, IBad)
                     end
                 end
        end
      else (s ++ [(a, sc')], IInserted)
  end.

(* several insertions with the same score, one victim consumed per eviction; bad = an invalid
   victim was supplied *)
Fixpoint sinsert_all (cap : nat) (s : store) (l : list addr) (sc : Z) (victims : list addr)
  : store * list addr * bool :=
  match l with
  | [] => (s, victims, false)
  | a :: t =>
      let v := match victims with v :: _ => Some v | [] => None end in
      let '(s1, r) := sinsert cap s a sc v in
      let victims' := match r with IEvicted _ => tl victims | _ => victims end in
      let '(s2, vs, bad) := sinsert_all cap s1 t sc victims' in
      (s2, vs, match r with IBad => true | _ => bad end)
  end.

(* AddressStore::addresses(limit): sort by decreasing score, first `limit` *)
Fixpoint ins_desc (x : addr * Z) (l : store) : store :=
  match l with
  | [] => [x]
  | h :: t => if (snd h <? snd x)%Z then x :: l else h :: ins_desc x t
  end.
Definition sort_desc (s : store) : store := fold_right ins_desc [] s.
Definition reported (limit : nat) (s : store) : store := firstn limit (sort_desc s).

Fixpoint nonincreasing (l : list Z) : bool :=
  match l with
  | [] => true
  | x :: t => match t with [] => true | y :: _ => (y <=? x)%Z && nonincreasing t end
  end.

Fixpoint nodup_n (l : list N) : bool :=
  match l with [] => true | a :: t => negb (existsb (N.eqb a) t) && nodup_n t end.

(* an observed addresses(limit) result: right length, from the store, no duplicates,
   non-increasing scores, nothing left out that scores higher than something reported *)
Definition reported_ok (limit : nat) (s : store) (obs : list addr) : bool :=
  (length obs =? Nat.min limit (length s))%nat &&
  forallb (fun a => match sfind a s with Some _ => true | None => false end) obs &&
  nodup_n obs &&
  nonincreasing (map (fun a => match sfind a s with Some z => z | None => 0%Z end) obs) &&
  forallb (fun y : addr * Z =>
             existsb (N.eqb (fst y)) obs ||
             forallb (fun a => match sfind a s with Some z => (snd y <=? z)%Z | None => false end) obs) s.

(* ---- rich operations ---- *)
Inductive rop :=
| REntry (k : key)
| RInsert (k : key) (l : list addr) (c : conn) (v : list addr)   (* entry(k).insert(KademliaPeer::new(peer, l, c)) *)
| RAdd (k : key) (l : list addr) (c : conn) (v : list addr)      (* add_known_peer(peer, l, c) *)
| RConnected (k : key) (dialed : option addr) (v : list addr)    (* Endpoint::Dialer{address} / Listener *)
| RDialFailure (k : key) (l : list addr) (v : list addr)
| RDisconnected (k : key).

Definition nonempty {A} (l : list A) : bool := match l with [] => false | _ => true end.

Definition abs_op (r : rop) : op :=
  match r with
  | REntry k => OEntry k
  | RInsert k l c _ => OInsert k (nonempty l) c
  | RAdd k l c _ => OAdd k (nonempty l) c
  | RConnected k d _ => OConnected k (match d with Some _ => true | None => false end)
  | RDialFailure k l _ => ODialFailure k (nonempty l)
  | RDisconnected k => ODisconnected k
  end.

Definition stores := list (list store).

Definition slot_pos (s : slot) : option nat :=
  match s with SOcc a _ _ | SVac a _ _ => Some (length a) | _ => None end.
Definition slot_occ (s : slot) : bool := match s with SOcc _ _ _ => true | _ => false end.
Definition slot_vac (s : slot) : bool := match s with SVac _ _ _ => true | _ => false end.

(* what the operation does to the store of the slot it obtained *)
Definition store_op (cap : nat) (r : rop) (s : slot) (st : store) : store * bool :=
  match r with
  | RInsert _ l _ v =>
      if slot_vac s then let '(st', _, bad) := sinsert_all cap [] l 0%Z v in (st', bad) else (st, false)
  | RAdd _ l _ v =>
      if slot_vac s then let '(st', _, bad) := sinsert_all cap [] (map with_p2p l) 0%Z v in (st', bad)
      else if slot_occ s then let '(st', _, bad) := sinsert_all cap st (map with_p2p l) 0%Z v in (st', bad)
      else (st, false)
  | RConnected _ (Some a) v =>
      if slot_occ s then let '(st', _, bad) := sinsert_all cap st [a] S_OK v in (st', bad) else (st, false)
  | RDialFailure _ l v =>
      if slot_occ s then let '(st', _, bad) := sinsert_all cap st l S_FAIL v in (st', bad) else (st, false)
  | _ => (st, false)
  end.

Record rstate := mkR { r_table : table; r_stores : stores }.

(* one rich operation: new state, (touched bucket, outcome code), bad victim choice *)
Definition rstep (cap : nat) (local : key) (K : nat) (s : rstate) (r : rop)
  : rstate * (option nat * nat) * bool :=
  let o := abs_op r in
  let res := step local K (r_table s) o in
  match fst (snd res) with
  | None => (mkR (fst res) (r_stores s), snd res, false)
  | Some i =>
      let b := nth i (r_table s) [] in
      let sl := bucket_entry K b (op_key o) in
      let sb := nth i (r_stores s) [] in
      (* KBucket::entry pushes a dummy (empty store) for a vacant lookup in a bucket with room *)
      let sb1 := if (length sb <? length (slot_bucket b sl))%nat then sb ++ [[]] else sb in
      let '(sb2, bad) :=
        match slot_pos sl with
        | Some p => let '(st', bad) := store_op cap r sl (nth p sb1 []) in (upd_nth p st' sb1, bad)
        | None => (sb1, false)
        end in
      (mkR (fst res) (upd_nth i sb2 (r_stores s)), snd res, bad)
  end.

Fixpoint rrun (cap : nat) (local : key) (K : nat) (s : rstate) (h : list rop) : rstate :=
  match h with
  | [] => s
  | r :: h' => rrun cap local K (fst (fst (rstep cap local K s r))) h'
  end.

Definition rempty (L : nat) : rstate := mkR (empty_table L) (repeat [] L).

(* KademliaPeer::addresses(): what a FIND_NODE reply and the user see *)
Definition peer_addresses (st : store) : store := reported REPORT st.
