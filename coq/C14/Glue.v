(* C14 — wire format, model runner and the trace oracle prop_ok. Definitions only.

   case  = plist keyentry ++ plist gop            keyentry = seed limb*8 (limb = 32 bits, MSB limb
           first; seed > 0 marks a key that is the SHA-256 of a real PeerId, the harness fills the
           limbs in); key 0 is the local key; operations name keys by index.
   trace = 1 :: per operation (see enc_res) ++ final dump of all non-empty buckets. *)
From Coq Require Import List NArith ZArith Bool Arith.
From V.common Require Import Wire.
From V.gen Require Consts.
From V.C14 Require Import Model AddrModel.
Import ListNotations.
Open Scope N_scope.

Definition LIMBS : nat := 8.
Definition LIMB_BITS : nat := 32.
Definition KBITS : nat := (LIMBS * LIMB_BITS)%nat.
Definition K : nat := N.to_nat Consts.K_BUCKET.

(* the wire format carries 256-bit keys; the source must still say so *)
Definition consts_ok : bool := (N.of_nat KBITS =? Consts.NUM_BUCKETS).

Definition bits_of_limb (x : N) : list bool :=
  map (fun i => N.testbit_nat x i) (rev (seq 0 LIMB_BITS)).

Definition LIMB_MAX : N := 4294967296.

Definition p_key : parser key :=
  let* ls := prep LIMBS pN in
  if forallb (fun x => x <? LIMB_MAX) ls then pret (flat_map bits_of_limb ls) else pfail.

Definition p_keyentry : parser (N * key) :=
  let* seed := pN in let* k := p_key in pret (seed, k).

(* a key packed back into 32-bit limbs: only used to look keys up quickly when encoding *)
Fixpoint bits_to_N (l : list bool) (acc : N) : N :=
  match l with [] => acc | b :: t => bits_to_N t (2 * acc + (if b then 1 else 0)) end.
Fixpoint pack (fuel : nat) (k : key) : list N :=
  match fuel with
  | O => []
  | S f => match k with
           | [] => []
           | _ => bits_to_N (firstn LIMB_BITS k) 0 :: pack f (skipn LIMB_BITS k)
           end
  end.

Definition dec_conn (x : N) : conn :=
  match x with 1 => Connected | 2 => CanConnect | 3 => CannotConnect | _ => NotConnected end.
Definition enc_conn (c : conn) : N :=
  match c with NotConnected => 0 | Connected => 1 | CanConnect => 2 | CannotConnect => 3 end.

Inductive gop :=
| GOp (real : bool) (o : rop)
| GClosest (t : key) (k : nat)
| GOrder (t : key)
| GAddrs (t : key) (obs : list addr).   (* KademliaPeer::addresses() of the entry of t; obs = observed *)

Definition p_kidx (keys : list (N * key)) : parser (N * key) :=
  let* i := pNat in
  match nth_error keys i with Some e => pret e | None => pfail end.

(* the address lists of the short operation forms: addresses 1, 3, 5, ... (number 0, 1, 2, ...
   without the /p2p suffix), at most six *)
Definition addrs_old (n : N) : list addr :=
  map (fun i => 2 * N.of_nat i + 1) (seq 0 (Nat.min (N.to_nat n) 6)).

Definition p_gop (keys : list (N * key)) : parser gop :=
  let* tag := pN in
  let* e := p_kidx keys in
  let real := negb (fst e =? 0) in
  let k := snd e in
  match tag with
  | 0 => pret (GOp real (REntry k))
  | 1 => let* a := pBool in let* c := pN in
         pret (GOp real (RInsert k (if a then [1] else []) (dec_conn c) []))
  | 2 => let* a := pN in let* c := pN in pret (GOp real (RAdd k (addrs_old a) (dec_conn c) []))
  | 3 => let* d := pBool in pret (GOp real (RConnected k (if d then Some 1 else None) []))
  | 4 => let* a := pN in pret (GOp real (RDialFailure k (addrs_old a) []))
  | 5 => let* n := pNat in pret (GClosest k n)
  | 6 => pret (GOrder k)
  | 7 => pret (GOp real (RDisconnected k))
  | 8 => let* obs := plist pN in pret (GAddrs k obs)
  | 11 => let* l := plist pN in let* c := pN in let* v := plist pN in
          pret (GOp real (RInsert k l (dec_conn c) v))
  | 12 => let* l := plist pN in let* c := pN in let* v := plist pN in
          pret (GOp real (RAdd k l (dec_conn c) v))
  | 13 => let* d := pN in let* v := plist pN in pret (GOp real (RConnected k (dec_opt d) v))
  | 14 => let* l := plist pN in let* v := plist pN in pret (GOp real (RDialFailure k l v))
  | _ => pfail
  end.

Record gcase := mkCase { c_keys : list key; c_local : key; c_ops : list gop }.

Definition decode_case (l : list N) : option gcase :=
  pall (let* keys := plist p_keyentry in
        match keys with
        | [] => pfail
        | (_, loc) :: _ =>
            let* ops := plist (p_gop keys) in
            pret (mkCase (map snd keys) loc ops)
        end) l.

(* ---- encoders ---- *)
Fixpoint index_of (pkeys : list (list N)) (pk : list N) (i : N) : N :=
  match pkeys with
  | [] => 0
  | h :: t => if nlist_eqb h pk then i + 1 else index_of t pk (i + 1)
  end.
(* 1 + index of the first equal key in the case's key table, 0 when unknown (placeholder) *)
Definition kid (pkeys : list (list N)) (k : key) : N :=
  match k with
  | [] => 0
  | _ => index_of pkeys (pack LIMBS k) 0
  end.

Definition enc_node (keys : list (list N)) (n : node) : list N :=
  [kid keys (n_key n); b2n (n_addr n); enc_conn (n_conn n)].
Definition enc_bucket (keys : list (list N)) (b : list node) : list N := enc_list (enc_node keys) b.

Definition node_eqb (a b : node) : bool :=
  key_eqb (n_key a) (n_key b) && Bool.eqb (n_addr a) (n_addr b) &&
  (enc_conn (n_conn a) =? enc_conn (n_conn b)).
Definition bucket_eqb := list_eqb node_eqb.

(* The outcome of add_known_peer with a real PeerId, on_connection_established and
   on_dial_failure is not returned by the code: code 9. *)
Definition shown_code (real : bool) (o : op) (code : nat) : N :=
  match o with
  | OConnected _ _ | ODialFailure _ _ | ODisconnected _ => 9
  | OAdd _ _ _ => if real then 9 else N.of_nat code
  | _ => N.of_nat code
  end.

(* buckets that differ between two tables, as (index, new content) *)
Fixpoint changed (i : nat) (a b : table) : list (nat * list node) :=
  match a, b with
  | x :: a', y :: b' => (if bucket_eqb x y then [] else [(i, y)]) ++ changed (S i) a' b'
  | _, _ => []
  end.

(* step touches at most the bucket whose index it returns *)
Definition changed_at (oi : option nat) (a b : table) : list (nat * list node) :=
  match oi with
  | Some i => if bucket_eqb (nth i a []) (nth i b []) then [] else [(i, nth i b [])]
  | None => []
  end.

Definition enc_changed (keys : list (list N)) (l : list (nat * list node)) : list N :=
  enc_list (fun ib : nat * list node => N.of_nat (fst ib) :: enc_bucket keys (snd ib)) l.

Fixpoint nonempty_from (i : nat) (t : table) : list (nat * list node) :=
  match t with
  | [] => []
  | b :: t' => (match b with [] => [] | _ => [(i, b)] end) ++ nonempty_from (S i) t'
  end.
Definition dump (keys : list (list N)) (t : table) : list N := enc_changed keys (nonempty_from 0 t).

(* stream A dumps every node with its address store, sorted by address number; scores are
   shifted by 2^31 *)
Definition SCORE_OFF : Z := 2147483648%Z.
Definition enc_score (z : Z) : N := Z.to_N (z + SCORE_OFF)%Z.
Definition dec_score (x : N) : Z := (Z.of_N x - SCORE_OFF)%Z.
Definition enc_store (st : store) : list N :=
  enc_list (fun az : addr * Z => [fst az; enc_score (snd az)]) (sort_by (fun az : addr * Z => fst az) st).
Definition enc_rnode (keys : list (list N)) (ns : node * store) : list N :=
  enc_node keys (fst ns) ++ enc_store (snd ns).
Definition enc_rbucket (keys : list (list N)) (b : list (node * store)) : list N :=
  enc_list (enc_rnode keys) b.
Definition enc_rchanged (keys : list (list N)) (l : list (nat * list (node * store))) : list N :=
  enc_list (fun ib : nat * list (node * store) => N.of_nat (fst ib) :: enc_rbucket keys (snd ib)) l.

Definition store_eqb (a b : store) : bool :=
  list_eqb (fun x y : addr * Z => (fst x =? fst y) && (snd x =? snd y)%Z)
           (sort_by (fun az : addr * Z => fst az) a) (sort_by (fun az : addr * Z => fst az) b).

Definition rbucket (s : rstate) (i : nat) : list (node * store) :=
  combine (nth i (r_table s) []) (nth i (r_stores s) []).
Definition rbucket_eqb (a b : list (node * store)) : bool :=
  list_eqb (fun x y : node * store => node_eqb (fst x) (fst y) && store_eqb (snd x) (snd y)) a b.

Definition rchanged_at (oi : option nat) (a b : rstate) : list (nat * list (node * store)) :=
  match oi with
  | Some i => if rbucket_eqb (rbucket a i) (rbucket b i) then [] else [(i, rbucket b i)]
  | None => []
  end.

Fixpoint rnonempty_from (i : nat) (t : table) (ss : stores) : list (nat * list (node * store)) :=
  match t with
  | [] => []
  | b :: t' => (match b with [] => [] | _ => [(i, combine b (hd [] ss))] end) ++ rnonempty_from (S i) t' (tl ss)
  end.
Definition rdump (keys : list (list N)) (s : rstate) : list N :=
  enc_rchanged keys (rnonempty_from 0 (r_table s) (r_stores s)).

(* the store of the entry of k, if it is Occupied *)
Definition entry_store (local : key) (s : rstate) (k : key) : option store :=
  match ilog2 (kxor local k) with
  | None => None
  | Some i =>
      match split_first (fun ns : node * store => has_key k (fst ns)) (rbucket s i) with
      | Some (_, ns, _) => Some (snd ns)
      | None => None
      end
  end.

Fixpoint run_trace (keys : list (list N)) (local : key) (s : rstate) (ops : list gop) : list N :=
  match ops with
  | [] => rdump keys s
  | GOp real o :: r =>
      let '(s', (oi, code), bad) := rstep CAP local K s o in
      (if bad then [77] else []) ++
      shown_code real (abs_op o) code :: enc_rchanged keys (rchanged_at oi s s') ++ run_trace keys local s' r
  | GClosest tgt k :: r =>
      enc_list (fun n => [kid keys (n_key n)]) (closest local (r_table s) tgt k) ++ run_trace keys local s r
  | GOrder tgt :: r =>
      enc_list (fun i => [N.of_nat i]) (bucket_order (kxor local tgt)) ++ run_trace keys local s r
  | GAddrs tgt obs :: r =>
      (* 0 = no Occupied entry; otherwise 1 and the reported addresses: the observed ones when they
         are a valid answer, the model's own otherwise *)
      match entry_store local s tgt with
      | None => [0]
      | Some st => 1 :: enc_list (fun a => [a])
                         (if reported_ok REPORT st obs then obs else map fst (peer_addresses st))
      end ++ run_trace keys local s r
  end.

(* ---- glue cases: the Kademlia event loop around the table ----
   case  = 0 :: k :: plist keyentry ++ plist step     (key 0 = local peer; all keys are SHA-256 keys
           of real peer ids); step = event tag, plist of event arguments (inputs of the harness,
           ignored here), plist of the glue operations the event led to (observed on the
           implementation where the query engine decides: which peers got a PeerContext, whether
           dials were pending, which peers a reply named).
   trace = 1 :: per step (replies of the step's FIND_NODE-like requests, changed buckets, sorted
           peer set) ++ final dump ++ peer set *)
Inductive kgop := KOp (o : kop) | KFind (req tgt : key).

Definition p_kgop (keys : list (N * key)) : parser kgop :=
  let* tag := pN in
  match tag with
  | 14 => let* l := plist (let* e := p_kidx keys in let* a := pN in pret (snd e, negb (a =? 0))) in
          pret (KOp (KUpdate l))
  | _ =>
    let* e := p_kidx keys in
    let p := snd e in
    match tag with
    | 10 => let* a := pN in pret (KOp (KAddKnown p (negb (a =? 0))))
    | 11 => let* d := pBool in let* pe := pBool in pret (KOp (KEstablished p d pe))
    | 12 => pret (KOp (KDisconnect p))
    | 13 => pret (KOp (KTouch p))
    | 15 => let* a := pN in pret (KOp (KDialFailure p (negb (a =? 0))))
    | 16 => pret (KOp (KEntry p))
    | 17 => let* t := p_kidx keys in pret (KFind p (snd t))
    | _ => pfail
    end
  end.

Definition p_kstep (keys : list (N * key)) : parser (list kgop) :=
  let* _ := pN in let* _ := plist pN in plist (p_kgop keys).

Record kcase := mkKCase { kc_k : nat; kc_keys : list key; kc_local : key; kc_steps : list (list kgop) }.

Definition decode_kcase (l : list N) : option kcase :=
  pall (let* z := pN in
        if negb (z =? 0) then pfail else
        let* k := pNat in
        let* keys := plist p_keyentry in
        match keys with
        | [] => pfail
        | (_, loc) :: _ =>
            let* steps := plist (p_kstep keys) in
            (* k >= 100: routing-table update mode Manual (the harness then records no update
               operations), replication factor k - 100 *)
            pret (mkKCase (Nat.modulo k 100) (map snd keys) loc steps)
        end) l.

Definition enc_peers (pkeys : list (list N)) (ps : list key) : list N :=
  enc_list (fun x => [x]) (sort_by (fun x => x) (map (kid pkeys) ps)).

Fixpoint krun_step (pkeys : list (list N)) (local : key) (k : nat) (s : kad) (ops : list kgop)
  : kad * list N :=
  match ops with
  | [] => (s, [])
  | KOp o :: r => krun_step pkeys local k (kstep local K s o) r
  | KFind _ tgt :: r =>
      let '(s', out) := krun_step pkeys local k s r in
      (s', enc_list (fun n => [kid pkeys (n_key n)]) (reply local s tgt k) ++ out)
  end.

Fixpoint krun_trace (pkeys : list (list N)) (local : key) (k : nat) (s : kad)
         (steps : list (list kgop)) : list N :=
  match steps with
  | [] => dump pkeys (k_table s) ++ enc_peers pkeys (k_peers s)
  | ops :: r =>
      let '(s', out) := krun_step pkeys local k s ops in
      out ++ enc_changed pkeys (changed 0 (k_table s) (k_table s')) ++ enc_peers pkeys (k_peers s')
          ++ krun_trace pkeys local k s' r
  end.

Definition run_case (l : list N) : list N :=
  if consts_ok then
    match l with
    | 0 :: _ =>
        match decode_kcase l with
        | Some c => 1 :: krun_trace (map (pack LIMBS) (kc_keys c)) (kc_local c) (kc_k c)
                                    (kad_empty KBITS) (kc_steps c)
        | None => [0]
        end
    | _ =>
        match decode_case l with
        | Some c => 1 :: run_trace (map (pack LIMBS) (c_keys c)) (c_local c) (rempty KBITS) (c_ops c)
        | None => [0]
        end
    end
  else [0].

(* ---- decoding a trace ---- *)
Definition key_of_id (keys : list key) (i : N) : key :=
  if i =? 0 then [] else nth (N.to_nat (i - 1)) keys [].

Definition p_node (keys : list key) : parser node :=
  let* i := pN in let* a := pBool in let* c := pN in
  pret (mkNode (key_of_id keys i) a (dec_conn c)).
Definition p_changed (keys : list key) : parser (list (nat * list node)) :=
  plist (let* i := pNat in let* b := plist (p_node keys) in pret (i, b)).

(* ---- the oracle: the property judged on an observed trace ---- *)

Definition real (n : node) : bool := match n_key n with [] => false | _ => true end.

Fixpoint nodup_keys (l : list key) : bool :=
  match l with [] => true | x :: t => negb (existsb (key_eqb x) t) && nodup_keys t end.

Definition opt_nat_eqb (a : option nat) (b : nat) : bool :=
  match a with Some x => Nat.eqb x b | None => false end.

(* bucket i holds at most K nodes, every peer in it belongs there by XOR distance (so it is not
   the local node), no peer twice *)
Definition binv_b (local : key) (i : nat) (b : list node) : bool :=
  (length b <=? K)%nat &&
  forallb (fun n => negb (real n) || opt_nat_eqb (ilog2 (kxor local (n_key n))) i) b &&
  nodup_keys (map n_key (filter real b)).

Definition protected (n : node) : bool :=
  match n_conn n with Connected | CanConnect => true | _ => false end.

(* connected peers other than the one operated on are still there, unchanged *)
Definition kept_b (k : key) (prev next : list node) : bool :=
  forallb (fun n => negb (protected n && real n) || key_eqb (n_key n) k ||
                    existsb (node_eqb n) next) prev.

Fixpoint apply_changes (t : table) (l : list (nat * list node)) : table :=
  match l with [] => t | (i, b) :: r => apply_changes (upd_nth i b t) r end.

Definition stores (o : op) : bool :=
  match o with OInsert _ _ _ | OAdd _ _ _ => true | _ => false end.

Definition table_op_ok (local : key) (t : table) (o : op) (code : N)
           (ch : list (nat * list node)) : bool :=
  let k := op_key o in
  forallb (fun ib : nat * list node =>
             (fst ib <? length t)%nat && binv_b local (fst ib) (snd ib) &&
             kept_b k (nth (fst ib) t []) (snd ib)) ch &&
  match ilog2 (kxor local k) with
  | None =>
      (* the local node is never stored: nothing changes *)
      match ch with [] => true | _ => false end && ((code =? 0) || (code =? 9) || (code =? 4))
  | Some i =>
      negb (code =? 0) &&
      (* a reported success of an insertion means the peer is in its bucket *)
      (negb (stores o && ((code =? 1) || (code =? 2))) ||
       existsb (has_key k) (nth i (apply_changes t ch) []))
  end.

Definition dist_lt (tgt : key) (a b : key) : bool := klt (kxor tgt a) (kxor tgt b).

Fixpoint strictly_sorted (tgt : key) (l : list key) : bool :=
  match l with
  | [] => true
  | x :: r => match r with [] => true | y :: _ => dist_lt tgt x y end && strictly_sorted tgt r
  end.

(* res = exactly the min(k, |cands|) candidates closest to tgt, in strictly increasing distance
   order (hence without duplicates) *)
Definition closest_ok (t : table) (tgt : key) (k : nat) (res : list key) : bool :=
  let cands := map n_key (filter n_addr (concat t)) in
  strictly_sorted tgt res &&
  forallb (fun r => existsb (key_eqb r) cands) res &&
  Nat.eqb (length res) (Nat.min k (length cands)) &&
  (* res is sorted (checked above), so its last element is the furthest one *)
  match rev res with
  | [] => true
  | far :: _ => forallb (fun c => existsb (key_eqb c) res || negb (dist_lt tgt c far)) cands
  end.

(* Known finding F-C14a (class 1): ClosestBucketsIter yields bucket 0 twice when bit 0 of the
   target's distance to the local key is set or that distance is zero; when bucket 0 holds a peer
   with an address, closest() returns it twice in a row (and, cut at k, one further peer less).
   A query is in the class exactly when these conditions hold; inside the class the result is
   judged after removing the adjacent repetition. *)
Definition in_class (local : key) (t : table) (tgt : key) : bool :=
  let d := kxor local tgt in
  (bit (rev d) 0 || match ilog2 d with None => true | Some _ => false end) &&
  existsb n_addr (nth 0 t []).

Fixpoint dedup_adj (l : list key) : list key :=
  match l with
  | [] => []
  | x :: r => match r with
              | y :: _ => if key_eqb x y then dedup_adj r else x :: dedup_adj r
              | [] => [x]
              end
  end.

Definition closest_ok_class (t : table) (tgt : key) (k : nat) (res : list key) : bool :=
  let res' := dedup_adj res in
  closest_ok t tgt (length res') res' &&
  Nat.eqb (length res)
          (Nat.min k (length (filter n_addr (concat t)) + length (filter n_addr (nth 0 t [])))).

Definition p_store : parser store :=
  plist (let* a := pN in let* z := pN in pret (a, dec_score z)).
Definition p_rnode (keys : list key) : parser (node * store) :=
  let* n := p_node keys in let* st := p_store in pret (n, st).
Definition p_rchanged (keys : list key) : parser (list (nat * list (node * store))) :=
  plist (let* i := pNat in let* b := plist (p_rnode keys) in pret (i, b)).

(* "has a known address" is "the address store is not empty" *)
Definition flags_ok (l : list (nat * list (node * store))) : bool :=
  forallb (fun ib : nat * list (node * store) =>
             forallb (fun ns : node * store => Bool.eqb (n_addr (fst ns)) (nonempty (snd ns))) (snd ib)) l.
Definition drop_stores (l : list (nat * list (node * store))) : list (nat * list node) :=
  map (fun ib : nat * list (node * store) => (fst ib, map fst (snd ib))) l.

(* g = the peers that are connected by ground truth (Model.gt_step on the observed tables): each of
   them must be stored, in the bucket of its distance, after every operation *)
Fixpoint steps_ok (lenient : bool) (keys : list key) (local : key) (t : table) (g : list key)
         (ops : list gop) : parser bool :=
  match ops with
  | [] =>
      let* d := p_rchanged keys in
      pret (flags_ok d &&
            list_eqb (fun a b : nat * list node => Nat.eqb (fst a) (fst b) && bucket_eqb (snd a) (snd b))
                     (drop_stores d) (nonempty_from 0 t))
  | GOp _ ro :: r =>
      let o := abs_op ro in
      let* code := pN in
      let* chr := p_rchanged keys in
      let ch := drop_stores chr in
      let t' := apply_changes t ch in
      let g' := gt_step local t t' (N.to_nat code) g o in
      if flags_ok chr && table_op_ok local t o code ch && forallb (stored_in local t') g'
      then steps_ok lenient keys local t' g' r
      else pret false
  | GClosest tgt k :: r =>
      let* ids := plist pN in
      let res := map (key_of_id keys) ids in
      if closest_ok t tgt k res || (lenient && in_class local t tgt && closest_ok_class t tgt k res)
      then steps_ok lenient keys local t g r else pret false
  | GOrder _ :: r =>
      (* the visiting order is internal: it is diffed against the model, not judged *)
      let* _ := plist pN in steps_ok lenient keys local t g r
  | GAddrs _ _ :: r =>
      (* the reported addresses are diffed against the model (validated there), not judged *)
      let* f := pN in
      if f =? 0 then steps_ok lenient keys local t g r
      else let* _ := plist pN in steps_ok lenient keys local t g r
  end.

(* ---- glue cases ---- *)

Definition kgop_keys (g : kgop) : list key :=
  match g with
  | KOp (KUpdate l) => map fst l
  | KOp (KAddKnown p _) | KOp (KEstablished p _ _) | KOp (KDisconnect p) | KOp (KTouch p)
  | KOp (KDialFailure p _) | KOp (KEntry p) => [p]
  | KFind _ _ => []
  end.
Definition kgop_disc (g : kgop) : list key :=
  match g with KOp (KDisconnect p) => [p] | _ => [] end.
Definition kgop_writes (g : kgop) : bool :=
  match g with KOp (KTouch _) | KFind _ _ => false | _ => true end.

(* connected peers whose key no operation of the step names are still there, unchanged *)
Definition kept_multi (touched : list key) (prev next : list node) : bool :=
  forallb (fun n => negb (protected n && real n) || existsb (key_eqb (n_key n)) touched ||
                    existsb (node_eqb n) next) prev.

(* an entry that says Connected still says so unless disconnect_peer ran for that peer *)
Definition conn_ok (disc : list key) (prev next : list node) : bool :=
  forallb (fun n => negb (real n && (enc_conn (n_conn n) =? 1)) || existsb (key_eqb (n_key n)) disc ||
                    existsb (fun n' => key_eqb (n_key n') (n_key n) && (enc_conn (n_conn n') =? 1)) next)
          prev.

Definition reply_ok (lenient : bool) (local : key) (t : table) (tgt : key) (k : nat) (res : list key)
  : bool :=
  (closest_ok t tgt k res || (lenient && in_class local t tgt && closest_ok_class t tgt k res)) &&
  (length res <=? k)%nat && forallb (fun r => negb (key_eqb r local)) res.

Fixpoint p_replies (keys : list key) (ops : list kgop) : parser (list (key * list key)) :=
  match ops with
  | [] => pret []
  | KFind _ tgt :: r =>
      let* ids := plist pN in
      let* rest := p_replies keys r in
      pret ((tgt, map (key_of_id keys) ids) :: rest)
  | _ :: r => p_replies keys r
  end.

(* ground truth along a step: the Connected claims of its operations (connection established;
   add / update while a PeerContext exists), minus the peers disconnect_peer ran for afterwards.
   ps = the PeerContext set, followed through the operations as Model.kstep does *)
Fixpoint kclaims (local : key) (ps : list key) (g claims : list key) (ops : list kgop)
  : list key * list key * list key :=
  match ops with
  | [] => (ps, g, claims)
  | KFind _ _ :: r => kclaims local ps g claims r
  | KOp o :: r =>
      match o with
      | KAddKnown p a =>
          kclaims local ps g (if a && in_peers ps p then p :: claims else claims) r
      | KEstablished p _ pe => kclaims local (if pe then add_peer ps p else ps) g (p :: claims) r
      | KDisconnect p => kclaims local (del_peer ps p) (del_peer g p) (del_peer claims p) r
      | KTouch p => kclaims local (add_peer ps p) g claims r
      | KUpdate l =>
          kclaims local ps g
                  (map fst (filter (fun pa : key * bool =>
                                      snd pa && negb (key_eqb (fst pa) local) && in_peers ps (fst pa)) l)
                   ++ claims) r
      | KDialFailure _ _ | KEntry _ => kclaims local ps g claims r
      end
  end.

Fixpoint ksteps_ok (lenient : bool) (keys : list key) (local : key) (k : nat) (t : table)
         (ps g : list key) (steps : list (list kgop)) : parser bool :=
  match steps with
  | [] =>
      let* d := p_changed keys in
      let* _ := plist pN in
      pret (list_eqb (fun a b : nat * list node => Nat.eqb (fst a) (fst b) && bucket_eqb (snd a) (snd b))
                     d (nonempty_from 0 t))
  | ops :: r =>
      let* reps := p_replies keys ops in
      let* ch := p_changed keys in
      let* _ := plist pN in
      let touched := flat_map kgop_keys ops in
      let disc := flat_map kgop_disc ops in
      let pure := negb (existsb kgop_writes ops) in
      let t' := apply_changes t ch in
      let '(ps', g1, claims) := kclaims local ps g [] ops in
      let g' := fold_left (fun acc p => if stored_in local t' p then add_peer acc p else acc) claims g1 in
      if forallb (fun ib : nat * list node =>
                    (fst ib <? length t)%nat && binv_b local (fst ib) (snd ib) &&
                    kept_multi touched (nth (fst ib) t []) (snd ib) &&
                    conn_ok disc (nth (fst ib) t []) (snd ib)) ch &&
         (* a reply is judged against the table it was computed from *)
         (match reps with [] => true | _ => pure && match ch with [] => true | _ => false end end) &&
         forallb (fun tr : key * list key => reply_ok lenient local t (fst tr) k (snd tr)) reps &&
         (* ground truth: every connected peer is still stored after the step *)
         forallb (stored_in local t') g'
      then ksteps_ok lenient keys local k t' ps' g' r
      else pret false
  end.

Definition prop_ok_gen (lenient : bool) (case trace : list N) : bool :=
  match case with
  | 0 :: _ =>
      match decode_kcase case, trace with
      | Some c, 1 :: body =>
          match pall (ksteps_ok lenient (kc_keys c) (kc_local c) (kc_k c) (empty_table KBITS) [] []
                                (kc_steps c)) body with
          | Some b => b
          | None => false
          end
      | None, [0] => true
      | _, _ => false
      end
  | _ =>
      match decode_case case, trace with
      | Some c, 1 :: body =>
          match pall (steps_ok lenient (c_keys c) (c_local c) (empty_table KBITS) [] (c_ops c)) body with
          | Some b => b
          | None => false
          end
      | None, [0] => true
      | _, _ => false
      end
  end.

(* the property as stated: no leniency *)
Definition prop_ok (case trace : list N) : bool := prop_ok_gen false case trace.

(* class 1 = the trace fails only because of in-class closest queries (KNOWN_FINDINGS.txt) *)
Definition known_class (case trace : list N) : N :=
  if prop_ok case trace then 0 else if prop_ok_gen true case trace then 1 else 0.
