(* C14 — pinned property theorems. This file contains statements, `exact`, and
   Print Assumptions only. The pins in tools/pins/C14.v re-check the statements.

   Keys are MSB-first bit lists of any length L >= 1 (256 in litep2p); `reach local K h` is the
   table after any history h of entry / insert / add_known_peer / on_connection_established /
   on_dial_failure operations with keys of length L; K is the bucket size (20 in litep2p). *)
From Coq Require Import List Bool Arith NArith Permutation Sorted.
From V.gen Require Consts.
From Coq Require Import ZArith.
From V.C14 Require Import Model Proofs U256 GhostProofs AddrModel AddrProofs.
Import ListNotations.

(* Placement: every peer stored in bucket i (everything except the address-less dummy that
   KBucket::entry pushes) has a key of full length whose XOR distance to the local key has its
   highest set bit at i; in particular it is not the local key. *)
Theorem C14_placement :
  forall local K h i n, wf_ops local h ->
  In n (nth i (reach local K h) []) -> real n = true ->
  length (n_key n) = length local /\ ilog2 (kxor local (n_key n)) = Some i /\ n_key n <> local.
Proof. intros local K h i n H. exact (inv_placement local K _ i n (reach_inv local K h H)). Qed.
Print Assumptions C14_placement.

(* the only other thing a bucket can hold is the dummy, which has no address (never returned) *)
Theorem C14_dummy_has_no_address :
  forall local K h i n, wf_ops local h ->
  In n (nth i (reach local K h) []) -> real n = false -> n_key n = [] /\ n_addr n = false.
Proof. intros local K h i n H. exact (inv_dummy local K _ i n (reach_inv local K h H)). Qed.
Print Assumptions C14_dummy_has_no_address.

(* The local node is never stored: an operation on the local key changes nothing. *)
Theorem C14_no_local :
  forall local K t o, op_key o = local ->
  fst (step local K t o) = t /\
  (snd (snd (step local K t o)) = 0 \/ snd (snd (step local K t o)) = 4).
Proof. exact step_local. Qed.
Print Assumptions C14_no_local.

(* A bucket never holds more than K nodes, and no peer twice. *)
Theorem C14_bucket_bound :
  forall local K h i, wf_ops local h -> length (nth i (reach local K h) []) <= K.
Proof. intros local K h i H. exact (inv_bound local K _ i (reach_inv local K h H)). Qed.
Print Assumptions C14_bucket_bound.

Theorem C14_bucket_bound_20 :
  forall local h i, wf_ops local h ->
  length (nth i (reach local (N.to_nat Consts.K_BUCKET) h) []) <= 20.
Proof. intros local h i H. exact (inv_bound local 20 _ i (reach_inv local 20 h H)). Qed.
Print Assumptions C14_bucket_bound_20.

Theorem C14_constants : Consts.K_BUCKET = 20%N /\ Consts.NUM_BUCKETS = 256%N.
Proof. split; reflexivity. Qed.
Print Assumptions C14_constants.

Theorem C14_no_duplicate_peer :
  forall local K h i, wf_ops local h ->
  NoDup (map n_key (filter real (nth i (reach local K h) []))).
Proof. intros local K h i H. exact (inv_unique local K _ i (reach_inv local K h H)). Qed.
Print Assumptions C14_no_duplicate_peer.

(* The invariant (table has L buckets; bound, placement, uniqueness per bucket) is inductive
   from any state, not only from the empty table. *)
Theorem C14_step_preserves :
  forall local K t o, Inv local K t -> length (op_key o) = length local ->
  Inv local K (fst (step local K t o)).
Proof. exact step_inv. Qed.
Print Assumptions C14_step_preserves.

(* A Connected / CanConnect peer is never displaced by an operation on another key (any table,
   any operation, full bucket or not). *)
Theorem C14_connected_kept :
  forall local K t o j n,
  In n (nth j t []) -> protected n = true -> n_key n <> op_key o ->
  In n (nth j (fst (step local K t o)) []).
Proof. exact step_keeps. Qed.
Print Assumptions C14_connected_kept.

(* The key-order lemma behind the bucket visiting order: with d = distance(local, target), if
   bucket i is "before" bucket j (j < i with bit i of d set, or i < j with bit j clear) then every
   key of bucket i is strictly closer to the target than every key of bucket j. *)
Theorem C14_bucket_order_keys :
  forall local tgt a b i j,
  length a = length local -> length b = length local -> length tgt = length local ->
  ilog2 (kxor local a) = Some i -> ilog2 (kxor local b) = Some j ->
  before (rev (kxor local tgt)) i j = true ->
  klt (kxor tgt a) (kxor tgt b) = true.
Proof. exact bucket_order_keys. Qed.
Print Assumptions C14_bucket_order_keys.

(* ClosestBucketsIter terminates (more fuel yields nothing more) and visits every bucket. *)
Theorem C14_iter_terminates :
  forall d fuel, 1 <= length d -> 2 * length d + 3 <= fuel ->
  it_run (it_next (rev d)) (it_init d) fuel = bucket_order d.
Proof. exact bucket_order_fuel. Qed.
Print Assumptions C14_iter_terminates.

Theorem C14_iter_visits_all :
  forall d i, 1 <= length d -> (In i (bucket_order d) <-> i < length d).
Proof. exact bucket_order_complete. Qed.
Print Assumptions C14_iter_visits_all.

(* When bit 0 of the distance is clear and the distance is not zero, the iterator visits every
   bucket exactly once, in an order that is sorted by closeness to the target. *)
Theorem C14_iter_order :
  forall d, 1 <= length d -> bit (rev d) 0 = false -> ilog2 d <> None ->
  Permutation (bucket_order d) (seq 0 (length d)) /\
  StronglySorted (fun i j => before (rev d) i j = true) (bucket_order d).
Proof. exact bucket_order_good. Qed.
Print Assumptions C14_iter_order.

(* In general the order is the ideal order `visit` (set bits downwards, then clear bits upwards;
   a sorted permutation of all buckets) with at most one extra visit of bucket 0. *)
Theorem C14_iter_shape :
  forall d, 1 <= length d ->
  exists S C, visit (rev d) = S ++ C /\
    (bucket_order d = S ++ C \/ bucket_order d = S ++ 0 :: C) /\
    (bit (rev d) 0 = false -> ilog2 d <> None -> bucket_order d = S ++ C).
Proof. exact order_shape. Qed.
Print Assumptions C14_iter_shape.

Theorem C14_visit_sorted_perm :
  forall r, Permutation (visit r) (seq 0 (length r)) /\
            StronglySorted (fun i j => before r i j = true) (visit r).
Proof. intro r. split; [apply visit_perm | apply visit_sorted]. Qed.
Print Assumptions C14_visit_sorted_perm.

(* FINDING F-C14a, general form: whenever bit 0 of the distance is set, or the target is the
   local key, the iterator yields a bucket twice (the "each bucket once" part is refuted). *)
Theorem C14_iter_once_refuted :
  forall d, 1 <= length d -> bit (rev d) 0 = true \/ ilog2 d = None -> ~ NoDup (bucket_order d).
Proof. exact bucket_order_dup. Qed.
Print Assumptions C14_iter_once_refuted.

(* ... and it is observable: closest() returns a peer twice (reachable table, k = 2). *)
Theorem C14_closest_nodup_refuted :
  exists local h tgt k,
    wf_ops local h /\ length tgt = length local /\
    ~ NoDup (closest local (reach local 20 h) tgt k).
Proof.
  exists [false; false], [OAdd [false; true] true Connected], [false; true], 2.
  destruct closest_dup_witness as [H1 [H2 [H3 _]]]. auto.
Qed.
Print Assumptions C14_closest_nodup_refuted.

(* closest(): outside the class of the finding (bucket 0 holds no addressed peer, or bit 0 of
   distance(local,target) is clear and target <> local), for every reachable table — indeed
   every table satisfying the invariant —, every target and every k, the result is the first k
   elements of a list that is a permutation of all stored peers with a known address and is
   strictly increasing in distance to the target. *)
Theorem C14_closest_spec :
  forall local K t tgt k,
  1 <= length local -> Inv local K t -> length tgt = length local -> outside_class local t tgt ->
  exists full,
    Permutation full (filter n_addr (concat t)) /\
    StronglySorted (dlt tgt) full /\
    closest local t tgt k = firstn k full.
Proof. exact closest_spec. Qed.
Print Assumptions C14_closest_spec.

(* The same, spelled out as in the property text: strictly increasing distance, no duplicates,
   only stored peers with addresses, exactly min(k, #candidates) of them, and every candidate
   left out is strictly further than every returned peer. *)
Theorem C14_closest_exactly_k_closest :
  forall local K h tgt k,
  1 <= length local -> wf_ops local h -> length tgt = length local ->
  outside_class local (reach local K h) tgt ->
  let res := closest local (reach local K h) tgt k in
  let cands := filter n_addr (concat (reach local K h)) in
  StronglySorted (dlt tgt) res /\ NoDup (map n_key res) /\
  (forall n, In n res -> In n cands) /\
  length res = Nat.min k (length cands) /\
  (forall a b, In a res -> In b cands -> ~ In b res -> dlt tgt a b).
Proof.
  intros local K h tgt k HL Hw Ht Hc.
  exact (closest_facts local K _ tgt k HL (reach_inv local K h Hw) Ht Hc).
Qed.
Print Assumptions C14_closest_exactly_k_closest.

(* ---------------------------------------------------------------- sort first or filter first

   KBucket::closest_iter sorts the whole bucket by distance and then drops the peers without an
   address; Model.bucket_closest drops first.  For the stable sort and full-length keys the two
   orders commute, whatever (random) keys the dummies carry in the implementation. *)
Theorem C14_sort_filter_commute :
  forall tgt (p : node -> bool) l, Forall (full tgt) l ->
  filter p (sort_by_dist tgt l) = sort_by_dist tgt (filter p l).
Proof. exact filter_sort_commute. Qed.
Print Assumptions C14_sort_filter_commute.

Theorem C14_code_order_equals_model :
  forall tgt b b', same_but_dummies b b' -> Forall (full tgt) b' ->
  bucket_closest_code tgt b' = bucket_closest tgt b.
Proof. exact bucket_closest_code_eq. Qed.
Print Assumptions C14_code_order_equals_model.

(* ---------------------------------------------------------------- U256 arithmetic

   val = U256::from_big_endian on the bit string; the code computes distances with integer xor,
   the bucket index as (256 - leading_zeros).checked_sub(1), compares distances as integers and
   reads bits with U256::bit.  These are the list-of-bits operations of the model. *)
Theorem C14_index_is_ilog2_xor :
  forall a b, length a = length b ->
  ilog2 (kxor a b) =
  match u_ilog2 (N.of_nat (length a)) (N.lxor (val a) (val b)) with
  | None => None | Some x => Some (N.to_nat x) end.
Proof. exact index_is_ilog2_xor. Qed.
Print Assumptions C14_index_is_ilog2_xor.

Theorem C14_distance_compare_u256 :
  forall t a b, length a = length t -> length b = length t ->
  klt (kxor t a) (kxor t b) = (N.lxor (val t) (val a) <? N.lxor (val t) (val b))%N.
Proof. exact distance_compare. Qed.
Print Assumptions C14_distance_compare_u256.

Theorem C14_bit_is_testbit : forall d i, bit (rev d) i = u_bit (val d) i.
Proof. exact val_bit. Qed.
Print Assumptions C14_bit_is_testbit.

Theorem C14_key_value_injective :
  forall a b, length a = length b -> val a = val b -> a = b.
Proof. exact val_inj. Qed.
Print Assumptions C14_key_value_injective.

(* bytes: comparing the distances as U256 (from_big_endian of the 32 bytes, xor, integer order)
   is the lexicographic comparison of the bytewise-XORed strings, and is the model's klt/kxor *)
Theorem C14_bytes_distance_compare :
  forall t a b,
  Forall (fun x => (x < 256)%N) t -> Forall (fun x => (x < 256)%N) a -> Forall (fun x => (x < 256)%N) b ->
  length a = length t -> length b = length t ->
  bytes_lt (bytes_xor t a) (bytes_xor t b) =
    (N.lxor (bytes_val t) (bytes_val a) <? N.lxor (bytes_val t) (bytes_val b))%N /\
  bytes_lt (bytes_xor t a) (bytes_xor t b) =
    klt (kxor (key_of_bytes t) (key_of_bytes a)) (kxor (key_of_bytes t) (key_of_bytes b)).
Proof. exact bytes_distance_compare. Qed.
Print Assumptions C14_bytes_distance_compare.

Theorem C14_bytes_value :
  forall bs, Forall (fun x => (x < 256)%N) bs -> val (key_of_bytes bs) = bytes_val bs.
Proof. exact val_key_of_bytes. Qed.
Print Assumptions C14_bytes_value.

(* ---------------------------------------------------------------- the Kademlia glue (mod.rs)

   kreach local K h = table and PeerContext set after any history h of the glue operations that
   write the table: AddKnownPeer / bootstrap, on_connection_established, disconnect_peer,
   PeerContext creation, update_routing_table with any reply, on_dial_failure, bare entry(). *)
Theorem C14_kad_invariant :
  forall local K h, Forall (wf_kop local) h -> Inv local K (k_table (kreach local K h)).
Proof. exact kreach_inv. Qed.
Print Assumptions C14_kad_invariant.

Theorem C14_kad_buckets :
  forall local K h i, Forall (wf_kop local) h ->
  let b := nth i (k_table (kreach local K h)) [] in
  length b <= K /\ NoDup (map n_key (filter real b)) /\
  forall n, In n b -> real n = true ->
    length (n_key n) = length local /\ ilog2 (kxor local (n_key n)) = Some i /\ n_key n <> local.
Proof.
  intros local K h i H. pose proof (kreach_inv local K h H) as HI. cbv zeta.
  split; [exact (inv_bound local K _ i HI)|]. split; [exact (inv_unique local K _ i HI)|].
  intros n. exact (inv_placement local K _ i n HI).
Qed.
Print Assumptions C14_kad_buckets.

Theorem C14_kad_step_preserves :
  forall local K s o, Inv local K (k_table s) -> wf_kop local o ->
  Inv local K (k_table (kstep local K s o)).
Proof. exact kstep_inv. Qed.
Print Assumptions C14_kad_step_preserves.

(* a Connected / CanConnect peer is never displaced by a glue operation that does not name it *)
Theorem C14_kad_connected_kept :
  forall local K s o j n,
  In n (nth j (k_table s) []) -> protected n = true -> ~ In (n_key n) (kop_keys o) ->
  In n (nth j (k_table (kstep local K s o)) []).
Proof. exact kstep_keeps. Qed.
Print Assumptions C14_kad_connected_kept.

(* F-C14b (repaired): an entry that says Connected is still stored and still says Connected
   (and keeps its address) after every glue operation except disconnect_peer for that very peer —
   which the loop runs when the connection closes or a substream / IO with the peer fails.  So a
   connected peer is never downgraded, hence never evictable, by being heard of again. *)
Theorem C14_kad_connected_step :
  forall local K s o j n,
  In n (nth j (k_table s) []) -> n_conn n = Connected -> o <> KDisconnect (n_key n) ->
  exists n', In n' (nth j (k_table (kstep local K s o)) []) /\ conn_still n n'.
Proof. intros. apply kstep_connected; auto using add_conn_keeps. Qed.
Print Assumptions C14_kad_connected_step.

Theorem C14_kad_connected_until_disconnect :
  forall local K h s j n,
  In n (nth j (k_table s) []) -> n_conn n = Connected -> ~ In (KDisconnect (n_key n)) h ->
  exists n', In n' (nth j (k_table (krun local K s h)) []) /\ conn_still n n'.
Proof. intros. apply krun_connected; auto using add_conn_keeps. Qed.
Print Assumptions C14_kad_connected_until_disconnect.

(* before the repair (entry.connection = connection) this failed: a reply that mentions a
   connected peer downgraded its entry although no disconnect happened *)
Theorem C14_mention_downgrade_refuted_before_fix :
  exists local K h s j n,
    In n (nth j (k_table s) []) /\ n_conn n = Connected /\ ~ In (KDisconnect (n_key n)) h /\
    Forall (wf_kop local) h /\
    ~ exists n', In n' (nth j (k_table (krun_gen add_conn_orig local K s h)) []) /\ conn_still n n'.
Proof.
  exists [false; false; false], 20,
         [KUpdate [([true; false; true], true)]],
         (krun_gen add_conn_orig [false; false; false] 20 (kad_empty 3)
            [KAddKnown [true; false; true] true; KEstablished [true; false; true] true false]),
         2, (mkNode [true; false; true] true Connected).
  split; [vm_compute; auto|]. split; [reflexivity|]. split.
  - intros [H|[]]. discriminate.
  - split; [repeat constructor|].
    intros [n' [Hin [_ [Hc _]]]]. vm_compute in Hin. destruct Hin as [<-|[]]. discriminate.
Qed.
Print Assumptions C14_mention_downgrade_refuted_before_fix.

(* ---------------------------------------------------------------- replies to FIND_NODE / GET_VALUE /
   GET_PROVIDERS requests: the handler sends closest(hash(target), replication_factor) verbatim. *)
Theorem C14_reply_sound :
  forall local K s tgt k n,
  Inv local K (k_table s) -> In n (reply local s tgt k) ->
  n_key n <> local /\ n_addr n = true /\ length (n_key n) = length local /\
  exists i, In n (nth i (k_table s) []) /\ ilog2 (kxor local (n_key n)) = Some i.
Proof. exact reply_sound. Qed.
Print Assumptions C14_reply_sound.

Theorem C14_reply_at_most_k : forall local s tgt k, length (reply local s tgt k) <= k.
Proof. exact reply_at_most_k. Qed.
Print Assumptions C14_reply_at_most_k.

Theorem C14_reply_exactly_k_closest :
  forall local K h tgt k,
  1 <= length local -> Forall (wf_kop local) h -> length tgt = length local ->
  outside_class local (k_table (kreach local K h)) tgt ->
  let res := reply local (kreach local K h) tgt k in
  let cands := filter n_addr (concat (k_table (kreach local K h))) in
  StronglySorted (dlt tgt) res /\ NoDup (map n_key res) /\
  (forall n, In n res -> In n cands) /\
  length res = Nat.min k (length cands) /\
  (forall a b, In a res -> In b cands -> ~ In b res -> dlt tgt a b).
Proof.
  intros local K h tgt k HL Hw Ht Hc.
  exact (closest_facts local K _ tgt k HL (kreach_inv local K h Hw) Ht Hc).
Qed.
Print Assumptions C14_reply_exactly_k_closest.

(* ---------------------------------------------------------------- ground truth of connectedness

   `ghost local K h` (Model.v) is the set of peers that ARE connected after the history h, judged
   from the history alone: some operation said so while — or by which — the table held the peer
   (on_connection_established on a stored peer, add_known_peer(.., Connected) that left it stored,
   insert(.., Connected) through a Vacant slot) and no disconnect for that peer followed.  What
   the table's own `connection` flag says plays no role in the definition. *)

(* a connected peer is stored, in the bucket of its distance, and its entry says Connected (so
   KBucket::entry never offers its slot) — for every history, any keys, any K *)
Theorem C14_gt_connected_stored :
  forall local K h k, In k (ghost local K h) ->
  exists i n, ilog2 (kxor local k) = Some i /\ In n (nth i (reach local K h) []) /\
              n_key n = k /\ n_conn n = Connected.
Proof. exact ghost_stored. Qed.
Print Assumptions C14_gt_connected_stored.

(* C14_connected_kept restated against ground truth: once connected, the peer is connected and
   stored (same bucket, same key) after every continuation of the history that does not
   disconnect it — dial failures, re-mentions with any connection type, inserts, lookups and any
   number of newcomers to its full bucket included *)
Theorem C14_gt_connected_kept :
  forall local K h1 h2 k, In k (ghost local K h1) -> ~ In (ODisconnected k) h2 ->
  In k (ghost local K (h1 ++ h2)) /\
  exists i n, ilog2 (kxor local k) = Some i /\ In n (nth i (reach local K (h1 ++ h2)) []) /\
              n_key n = k /\ n_conn n = Connected.
Proof.
  intros local K h1 h2 k H1 H2. pose proof (ghost_kept local K h1 h2 k H1 H2) as H.
  split; [exact H|exact (ghost_stored local K _ k H)].
Qed.
Print Assumptions C14_gt_connected_kept.

(* membership is exactly: the last connection-related operation for the peer was a Connected
   claim that left it stored, with no disconnect after it *)
Theorem C14_gt_last_claim :
  forall local K h k,
  In k (ghost local K h) <->
  exists h1 o h2, h = h1 ++ o :: h2 /\ op_key o = k /\
    claims_connected o (last_code local K h1 o) = true /\
    stored_in local (reach local K (h1 ++ [o])) k = true /\
    ~ In (ODisconnected k) h2.
Proof. exact ghost_iff. Qed.
Print Assumptions C14_gt_last_claim.

Theorem C14_gt_disconnect_revokes :
  forall local K h k, ~ In k (ghost local K (h ++ [ODisconnected k])).
Proof. exact ghost_disconnect. Qed.
Print Assumptions C14_gt_disconnect_revokes.

(* closest(): a connected peer with a known address is returned, unless k stored peers with
   addresses strictly closer to the target fill the result *)
Theorem C14_gt_connected_returned :
  forall local K h tgt kk k,
  1 <= length local -> wf_ops local h -> length tgt = length local ->
  outside_class local (reach local K h) tgt ->
  In k (ghost local K h) ->
  exists n, In n (concat (reach local K h)) /\ n_key n = k /\ n_conn n = Connected /\
    (n_addr n = true ->
     In n (closest local (reach local K h) tgt kk) \/
     (length (closest local (reach local K h) tgt kk) = kk /\
      forall a, In a (closest local (reach local K h) tgt kk) -> dlt tgt a n)).
Proof.
  intros local K h tgt kk k HL Hw Ht Hc Hk.
  destruct (ghost_stored local K h k Hk) as [i [n [_ [Hin [E1 E2]]]]].
  exists n. split; [eapply in_nth_concat; exact Hin|]. split; [exact E1|]. split; [exact E2|].
  intro Ha. eapply closest_returns; eauto using reach_inv, in_nth_concat.
Qed.
Print Assumptions C14_gt_connected_returned.

(* the rule of add_known_peer matters (F-C14c): with the first repair alone (only NotConnected
   spared a Connected entry) a connected peer that is re-mentioned as CannotConnect lost its
   place to the next newcomer of its full bucket *)
Theorem C14_remention_displaces_refuted_before_fix :
  exists local K h k,
    wf_ops local h /\ In k (ghost local K h) /\
    ~ exists i n,
        In n (nth i (fold_left (fun t o => fst (step_gen add_conn_b local K t o)) h
                               (empty_table (length local))) []) /\ n_key n = k.
Proof.
  exists [false; false], 1,
         [OAdd [true; false] true NotConnected; OConnected [true; false] false;
          OAdd [true; false] true CannotConnect; OAdd [true; true] true NotConnected],
         [true; false].
  split; [repeat constructor|]. split; [vm_compute; auto|].
  intros [i [n [Hin Hk]]]. vm_compute in Hin.
  destruct i as [|[|[|i]]]; simpl in Hin; try (destruct Hin; fail).
  destruct Hin as [<-|[]]. discriminate.
Qed.
Print Assumptions C14_remention_displaces_refuted_before_fix.

(* the same against the Kademlia glue: kghost = ground truth along a glue history (connection
   established while the peer is stored, or an update while a PeerContext exists, until
   disconnect_peer) *)
Theorem C14_kad_gt_connected_stored :
  forall local K h k, In k (kghost local K h) ->
  exists i n, ilog2 (kxor local k) = Some i /\ In n (nth i (k_table (kreach local K h)) []) /\
              n_key n = k /\ n_conn n = Connected.
Proof. exact kghost_stored. Qed.
Print Assumptions C14_kad_gt_connected_stored.

Theorem C14_kad_gt_connected_kept :
  forall local K h1 h2 k, In k (kghost local K h1) -> ~ In (KDisconnect k) h2 ->
  In k (kghost local K (h1 ++ h2)) /\
  exists i n, ilog2 (kxor local k) = Some i /\ In n (nth i (k_table (kreach local K (h1 ++ h2))) []) /\
              n_key n = k /\ n_conn n = Connected.
Proof.
  intros local K h1 h2 k H1 H2. pose proof (kghost_kept local K h1 h2 k H1 H2) as H.
  split; [exact H|exact (kghost_stored local K _ k H)].
Qed.
Print Assumptions C14_kad_gt_connected_kept.

Theorem C14_kad_gt_established :
  forall local K h p d pe,
  stored_in local (k_table (kreach local K (h ++ [KEstablished p d pe]))) p = true ->
  In p (kghost local K (h ++ [KEstablished p d pe])).
Proof. exact kghost_established. Qed.
Print Assumptions C14_kad_gt_established.

(* the glue history is the table history kflat: everything proved about `reach` holds for the
   tables of the event loop *)
Theorem C14_kad_is_table_history :
  forall local K h,
  k_table (kreach local K h) = reach local K (kflat local K (kad_empty (length local)) h).
Proof. intros. unfold kreach, reach. apply krun_flat. Qed.
Print Assumptions C14_kad_is_table_history.

(* ---------------------------------------------------------------- displaced only to make room

   If a stored peer's key is gone after an operation, then the operation stored a NEW key of the
   same bucket (insert / add_known_peer), the bucket was full (>= K nodes), the displaced node was
   replaceable (NotConnected / CannotConnect by its flag — never a ground-truth connected peer, see
   C14_gt_connected_stored) and it was the first replaceable node of the bucket.  Nothing else ever
   removes a peer. *)
Theorem C14_displaced_only_for_room :
  forall local K t o j n,
  In n (nth j t []) ->
  ~ key_in (n_key n) (nth j (fst (step local K t o)) []) ->
  ilog2 (kxor local (op_key o)) = Some j /\ K <= length (nth j t []) /\ replaceable n = true /\
  stores_op o = true /\ ~ key_in (op_key o) (nth j t []) /\
  exists a c, nth j t [] = a ++ n :: c /\ Forall (fun x => replaceable x = false) a.
Proof. exact step_displaced. Qed.
Print Assumptions C14_displaced_only_for_room.

(* a full bucket without a replaceable node turns every new key away (NoSlot; an add without
   addresses is ignored): the table does not change *)
Theorem C14_full_bucket_rejects :
  forall local K t o i,
  ilog2 (kxor local (op_key o)) = Some i -> K <= length (nth i t []) ->
  Forall (fun x => replaceable x = false) (nth i t []) -> ~ key_in (op_key o) (nth i t []) ->
  fst (step local K t o) = t /\
  (snd (snd (step local K t o)) = 3 \/ snd (snd (step local K t o)) = 4).
Proof. exact step_full_rejects. Qed.
Print Assumptions C14_full_bucket_rejects.

(* ---------------------------------------------------------------- the address stores of the entries

   AddrModel.v carries one AddressStore per node next to the table of Model.v: rrun = any history
   of rich operations (with their address lists) from the empty table. *)

(* the table part of the rich run is the run of Model.v on the abstracted operations: every
   theorem about `reach` applies to it *)
Theorem C14_addr_refines_table :
  forall cap local K h,
  r_table (rrun cap local K (rempty (length local)) h) = reach local K (map abs_op h).
Proof. intros. unfold reach. apply rrun_table. Qed.
Print Assumptions C14_addr_refines_table.

(* "has a known address" (the flag of Model.node that closest() filters on) is exactly "the
   address store is not empty"; a store holds at most `cap` records and no address twice *)
Theorem C14_addr_flag_is_store :
  forall cap local K h, 1 <= cap ->
  Forall2 (Forall2 (fun n st => n_addr n = nonempty st /\ length st <= cap /\ NoDup (map fst st)))
          (r_table (rrun cap local K (rempty (length local)) h))
          (r_stores (rrun cap local K (rempty (length local)) h)).
Proof. intros cap local K h Hc. apply (rrun_ainv cap local K h _ Hc (rempty_ainv cap _)). Qed.
Print Assumptions C14_addr_flag_is_store.

Theorem C14_addr_constants :
  S_FAIL = (-100)%Z /\ S_OK = 100%Z /\ S_BONUS = 1%Z /\ CAP = 64 /\ REPORT = 32.
Proof. exact S_FAIL_val. Qed.
Print Assumptions C14_addr_constants.

(* AddressStore::insert never empties a store (so a peer never loses "has a known address") *)
Theorem C14_addr_insert_never_empties :
  forall cap s a sc v, 1 <= cap -> nonempty (fst (sinsert cap s a sc v)) = true.
Proof. exact sinsert_nonempty. Qed.
Print Assumptions C14_addr_insert_never_empties.

(* KademliaPeer::addresses() — what FIND_NODE replies carry: min(32, n) addresses of the store,
   in non-increasing score order, no address twice, and no address left out scores higher than
   one that is reported (the store itself keeps up to 64) *)
Theorem C14_addr_reported :
  forall s,
  length (peer_addresses s) = Nat.min 32 (length s) /\
  StronglySorted (fun x y => (snd y <= snd x)%Z) (peer_addresses s) /\
  (forall x, In x (peer_addresses s) -> In x s) /\
  (forall x y, In x (peer_addresses s) -> In y s -> ~ In y (peer_addresses s) -> (snd y <= snd x)%Z) /\
  (NoDup (map fst s) -> NoDup (map fst (peer_addresses s))).
Proof. intro s. exact (reported_facts REPORT s). Qed.
Print Assumptions C14_addr_reported.

(* a dial failure re-scores exactly the failed address (to -100), a re-mention (score 0) does not
   erase the score of a known address *)
Theorem C14_addr_dial_failure_marks :
  forall cap s a z v, sfind a s = Some z ->
  sinsert cap s a S_FAIL v = (sset a S_FAIL s, IUpdated) /\
  sfind a (sset a S_FAIL s) = Some S_FAIL /\
  forall b, b <> a -> sfind b (sset a S_FAIL s) = sfind b s.
Proof. exact dial_failure_marks. Qed.
Print Assumptions C14_addr_dial_failure_marks.

Theorem C14_addr_readd_keeps_score :
  forall cap s a z v, sfind a s = Some z -> sinsert cap s a 0%Z v = (s, IKept).
Proof. exact readd_keeps_score. Qed.
Print Assumptions C14_addr_readd_keeps_score.

(* ---------------------------------------------------------------- the extremes of the key space *)

(* the bucket index is undefined exactly for the key itself (distance 0: the local node) *)
Theorem C14_index_none_iff_same_key :
  forall a b, length a = length b -> (ilog2 (kxor a b) = None <-> a = b).
Proof. exact ilog2_none_iff. Qed.
Print Assumptions C14_index_none_iff_same_key.

(* keys that differ in the most significant bit (distance >= 2^(L-1)) go to the last bucket *)
Theorem C14_index_top_bit :
  forall x y a b, length a = length b -> xorb x y = true ->
  ilog2 (kxor (x :: a) (y :: b)) = Some (length a).
Proof. exact ilog2_top. Qed.
Print Assumptions C14_index_top_bit.

(* no ties: two different keys never have the same distance to a target, so the distance order
   on stored peers is strict and total (`sort_by_key` never sees equal sort keys for different peers) *)
Theorem C14_no_distance_ties :
  forall t a b, length t = length a -> length t = length b -> a <> b ->
  kxor t a <> kxor t b /\ (klt (kxor t a) (kxor t b) = true \/ klt (kxor t b) (kxor t a) = true).
Proof. exact no_ties. Qed.
Print Assumptions C14_no_distance_ties.

(* the handler does not remove the requester from the reply: a requester that is stored with an
   address and is among the k closest to the target is sent back to itself *)
Example C14_reply_may_contain_requester :
  let local := [false; false; false] in
  let requester := [true; false; true] in
  let s := kreach local 20 [KAddKnown requester true; KTouch requester] in
  map n_key (reply local s requester 20) = [requester].
Proof. vm_compute. reflexivity. Qed.

(* scope of the ground truth (not a theorem about the code's merit): a connection established to
   a peer the table does not hold leaves no trace, so a peer that connects first and is learned
   afterwards from a reply (no PeerContext) is stored NotConnected and is not a ghost member *)
Example C14_connected_before_known_is_not_protected :
  let local := [false; false; false] in
  let p := [true; false; true] in
  let h := [KEstablished p false false; KUpdate [(p, true)]] in
  map (fun n => (n_key n, n_conn n)) (nth 2 (k_table (kreach local 20 h)) []) =
    [([], NotConnected); (p, NotConnected)] /\
  kghost local 20 h = [].
Proof. vm_compute. split; reflexivity. Qed.

(* non-vacuity: 3-bit keys, K = 2; bucket 2 overflows, a NotConnected peer is replaced, the
   Connected ones stay, and closest returns the addressed peers in distance order *)
Example C14_nonvacuous :
  let local := [false; false; false] in
  let h := [OAdd [true; false; false] true Connected; OAdd [true; false; true] true NotConnected;
            OAdd [true; true; false] true CanConnect; OAdd [true; true; true] true Connected;
            OAdd [false; true; false] true Connected; OConnected [false; true; true] true] in
  map n_key (nth 2 (reach local 2 h) []) = [[true; false; false]; [true; true; false]] /\
  map n_key (closest local (reach local 2 h) [true; true; true] 5) =
    [[true; true; false]; [true; false; false]; [false; true; false]] /\
  outside_class local (reach local 2 h) [true; true; true].
Proof. vm_compute. split; [reflexivity|]. split; [reflexivity|]. left. reflexivity. Qed.
