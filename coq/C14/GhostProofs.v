(* C14 — ground truth of connectedness (Model.ghost): proofs.

   ghost local K h = the peers the callers told the table to be connected while (or by which)
   it stored them, minus those disconnected since — a function of the history only.
   Main facts: every ghost member is stored in the bucket of its distance and its entry says
   Connected (so KBucket::entry never hands its slot out); membership is kept by every operation
   except the disconnect of that very peer; membership is exactly "the last connection-related
   operation for the peer was an accepted Connected claim". *)
From Coq Require Import List Bool Arith Lia Permutation Sorted.
From V.C14 Require Import Model Proofs.
Import ListNotations.

Definition GInv (local : key) (t : table) (g : list key) : Prop :=
  forall k, In k g ->
  exists i n, ilog2 (kxor local k) = Some i /\ In n (nth i t []) /\ n_key n = k /\ n_conn n = Connected.

Lemma in_peers_true : forall ps p, in_peers ps p = true -> In p ps.
Proof.
  intros ps p H. unfold in_peers in H. apply existsb_exists in H.
  destruct H as [q [Hq E]]. apply key_eqb_eq in E. subst q. exact Hq.
Qed.

Lemma in_add_peer : forall g p k, In k (add_peer g p) -> k = p \/ In k g.
Proof.
  intros g p k H. unfold add_peer in H. destruct (in_peers g p); [right; exact H|].
  destruct H as [H|H]; [left; symmetry; exact H|right; exact H].
Qed.

Lemma add_peer_in : forall g p, In p (add_peer g p).
Proof.
  intros g p. unfold add_peer. destruct (in_peers g p) eqn:E; [apply in_peers_true; exact E|left; reflexivity].
Qed.

Lemma add_peer_mono : forall g p k, In k g -> In k (add_peer g p).
Proof. intros g p k H. unfold add_peer. destruct (in_peers g p); [exact H|right; exact H]. Qed.

Lemma in_del_peer : forall g p k, In k (del_peer g p) <-> In k g /\ k <> p.
Proof.
  intros g p k. unfold del_peer. rewrite filter_In. split; intros [H1 H2]; split; auto.
  - intro E. subst k. rewrite key_eqb_refl in H2. discriminate.
  - destruct (key_eqb p k) eqn:E; [|reflexivity]. apply key_eqb_eq in E. congruence.
Qed.

Lemma kxor_nil_r : forall a, kxor a [] = [].
Proof. destruct a; reflexivity. Qed.

Lemma add_conn_connected : forall c, add_conn c Connected = Connected.
Proof. destruct c; reflexivity. Qed.

Lemma existsb_app_false : forall {A} (p : A -> bool) l x,
  Forall (fun y => p y = false) l -> p x = false -> existsb p (l ++ [x]) = false.
Proof.
  intros A p l x Hl Hx. rewrite existsb_app. simpl. rewrite Hx, orb_false_r.
  induction Hl as [|y l Hy _ IH]; simpl; [reflexivity|]. rewrite Hy. exact IH.
Qed.

Lemma existsb_forall_false : forall {A} (p : A -> bool) l,
  Forall (fun y => p y = false) l -> existsb p l = false.
Proof. intros A p l H. induction H as [|y l Hy _ IH]; simpl; [reflexivity|]. rewrite Hy. exact IH. Qed.

Lemma in_mid : forall {A} (a : list A) y c, In y (a ++ y :: c).
Proof. intros. apply in_app_iff. right. left. reflexivity. Qed.

(* a Connected claim that leaves the peer stored leaves it stored as Connected *)
Lemma claim_bucket : forall K b o,
  claims_connected o (slot_code (bucket_entry K b (op_key o))) = true ->
  op_key o <> [] ->
  existsb (has_key (op_key o)) (apply_slot o b (bucket_entry K b (op_key o))) = true ->
  exists n, In n (apply_slot o b (bucket_entry K b (op_key o))) /\
            n_key n = op_key o /\ n_conn n = Connected.
Proof.
  intros K b o Hcl Hk Hst. unfold apply_slot in *. unfold bucket_entry in *.
  set (k := op_key o) in *.
  assert (Hph : has_key k placeholder = false).
  { unfold has_key, placeholder. simpl. destruct k; [congruence|reflexivity]. }
  destruct (split_first (has_key k) b) as [[[a y] c]|] eqn:E1.
  - apply split_first_some in E1. destruct E1 as [Eb [Hy _]].
    unfold has_key in Hy. apply key_eqb_eq in Hy.
    destruct o as [k0|k0 a0 c0|k0 a0 c0|k0 d0|k0 a0|k0]; simpl in Hcl; try discriminate.
    + destruct c0; discriminate.
    + destruct a0; [|discriminate]. destruct c0; try discriminate. simpl.
      eexists. split; [apply in_mid|]. simpl. rewrite add_conn_connected. auto.
    + simpl. eexists. split; [apply in_mid|]. simpl. auto.
  - apply split_first_none in E1.
    destruct (length b <? K) eqn:EK.
    + destruct o as [k0|k0 a0 c0|k0 a0 c0|k0 d0|k0 a0|k0]; simpl in Hcl; try discriminate.
      * destruct c0; try discriminate. simpl. eexists. split; [apply in_mid|]. simpl. auto.
      * destruct a0; [|discriminate]. destruct c0; try discriminate. simpl.
        eexists. split; [apply in_mid|]. simpl. auto.
      * simpl in Hst. rewrite (existsb_app_false _ _ _ E1 Hph) in Hst. discriminate.
    + destruct (split_first replaceable b) as [[[a y] c]|] eqn:E3.
      * pose proof (split_first_some _ _ _ _ _ E3) as [Eb _].
        destruct o as [k0|k0 a0 c0|k0 a0 c0|k0 d0|k0 a0|k0]; simpl in Hcl; try discriminate.
        -- destruct c0; try discriminate. simpl. eexists. split; [apply in_mid|]. simpl. auto.
        -- destruct a0; [|discriminate]. destruct c0; try discriminate. simpl.
           eexists. split; [apply in_mid|]. simpl. auto.
        -- simpl in Hst. rewrite <- Eb in Hst. rewrite (existsb_forall_false _ _ E1) in Hst. discriminate.
      * destruct o as [k0|k0 a0 c0|k0 a0 c0|k0 d0|k0 a0|k0]; simpl in Hcl; try discriminate.
        -- destruct c0; discriminate.
        -- simpl in Hst. rewrite (existsb_forall_false _ _ E1) in Hst. discriminate.
        -- simpl in Hst. rewrite (existsb_forall_false _ _ E1) in Hst. discriminate.
Qed.

Lemma claim_connected : forall local K t o,
  claims_connected o (snd (snd (step local K t o))) = true ->
  stored_in local (fst (step local K t o)) (op_key o) = true ->
  exists i n, ilog2 (kxor local (op_key o)) = Some i /\
              In n (nth i (fst (step local K t o)) []) /\
              n_key n = op_key o /\ n_conn n = Connected.
Proof.
  intros local K t o Hcl Hst. unfold stored_in in Hst.
  destruct (ilog2 (kxor local (op_key o))) as [i|] eqn:Ei; [|discriminate].
  assert (Hk : op_key o <> []).
  { intro E. rewrite E, kxor_nil_r in Ei. discriminate. }
  assert (Hnf : forall k c, o <> OAdd k false c).
  { intros k c E. subst o. simpl in Hcl. discriminate. }
  assert (Est : step local K t o =
                (upd_nth i (apply_slot o (nth i t []) (bucket_entry K (nth i t []) (op_key o))) t,
                 (Some i, slot_code (bucket_entry K (nth i t []) (op_key o))))).
  { unfold step, step_gen, apply_slot.
    destruct o as [k0|k0 a0 c0|k0 [|] c0|k0 d0|k0 a0|k0]; simpl in *; rewrite ?Ei; try reflexivity.
    exfalso. eapply Hnf. reflexivity. }
  rewrite Est in *. simpl fst in *. simpl snd in *.
  destruct (Nat.lt_ge_cases i (length t)) as [Hlt|Hge].
  - rewrite nth_upd_same in * by exact Hlt.
    destruct (claim_bucket K (nth i t []) o Hcl Hk Hst) as [n [H1 [H2 H3]]].
    exists i, n. rewrite nth_upd_same by exact Hlt. auto.
  - exfalso. rewrite nth_overflow in Hst; [discriminate|]. rewrite upd_nth_length. exact Hge.
Qed.

Lemma step_is_tstep : forall local K t o, fst (step local K t o) = tstep add_conn local K t o.
Proof. reflexivity. Qed.

Lemma split_first_existsb : forall {A} (p : A -> bool) l,
  existsb p l = true -> exists a y c, split_first p l = Some (a, y, c).
Proof.
  induction l as [|x l IH]; simpl; intros H; [discriminate|].
  destruct (p x) eqn:E; [eauto|]. simpl in H. destruct (IH H) as [a [y [c ->]]]. eauto.
Qed.

(* an operation never removes the key it names *)
Lemma stored_self_mono : forall local K t o,
  stored_in local t (op_key o) = true -> stored_in local (fst (step local K t o)) (op_key o) = true.
Proof.
  intros local K t o H. destruct (step_cases local K t o) as [E|[i [Hi E]]]; rewrite E; [exact H|].
  unfold stored_in in *. rewrite Hi in *.
  assert (Hlt : i < length t).
  { destruct (Nat.lt_ge_cases i (length t)) as [Hl|Hl]; auto.
    rewrite nth_overflow in H by exact Hl. discriminate. }
  rewrite nth_upd_same by exact Hlt. unfold bucket_entry.
  destruct (split_first_existsb _ _ H) as [a [y [c E1]]]. rewrite E1.
  apply split_first_some in E1. destruct E1 as [_ [Hy _]].
  assert (Hs : exists y', apply_slot o (nth i t []) (SOcc a y c) = a ++ y' :: c /\ n_key y' = n_key y)
    by (unfold apply_slot; destruct o; eexists; split; reflexivity).
  destruct Hs as [y' [-> Ek]]. rewrite existsb_app. simpl.
  unfold has_key in *. rewrite Ek, Hy. rewrite orb_true_r. reflexivity.
Qed.

Lemma stored_or : forall local K t o,
  stored_in local t (op_key o) || stored_in local (fst (step local K t o)) (op_key o) = true ->
  stored_in local (fst (step local K t o)) (op_key o) = true.
Proof.
  intros local K t o H. apply orb_true_iff in H. destruct H as [H|H]; [apply stored_self_mono; exact H|exact H].
Qed.

Lemma in_gt_step : forall local t t' code g o k,
  In k (gt_step local t t' code g o) ->
  (op_key o = k /\ claims_connected o code = true /\
   stored_in local t k || stored_in local t' k = true) \/
  (In k g /\ o <> ODisconnected k).
Proof.
  intros local t t' code g o k Hk.
  assert (Hgen : forall o', (forall k0, o' <> ODisconnected k0) ->
            In k (if claims_connected o' code && (stored_in local t (op_key o') || stored_in local t' (op_key o'))
                  then add_peer g (op_key o') else g) ->
            (op_key o' = k /\ claims_connected o' code = true /\
             stored_in local t k || stored_in local t' k = true) \/ (In k g /\ o' <> ODisconnected k)).
  { intros o' Hnd H.
    destruct (claims_connected o' code && (stored_in local t (op_key o') || stored_in local t' (op_key o'))) eqn:Ec.
    - apply andb_true_iff in Ec. destruct Ec as [Ec1 Ec2].
      apply in_add_peer in H. destruct H as [->|H]; [left; auto|right; split; [exact H|apply Hnd]].
    - right. split; [exact H|apply Hnd]. }
  destruct o as [k0|k0 a0 c0|k0 a0 c0|k0 d0|k0 a0|k0];
    try (apply Hgen; [intros; discriminate|exact Hk]).
  simpl in Hk. apply in_del_peer in Hk. destruct Hk as [Hin Hne].
  right. split; [exact Hin|]. intro E. inversion E. congruence.
Qed.

(* the invariant is kept by every operation, from any table *)
Lemma gt_step_inv : forall local K t g o,
  GInv local t g ->
  GInv local (fst (step local K t o)) (gt_step local t (fst (step local K t o)) (snd (snd (step local K t o))) g o).
Proof.
  intros local K t g o HG k Hk.
  apply in_gt_step in Hk. destruct Hk as [[E1 [E2 E3]]|[Hin Hnd]].
  - subst k. apply claim_connected; [exact E2|apply stored_or; exact E3].
  - destruct (HG k Hin) as [i [n [Hi [Hn [Hkey Hc]]]]].
    rewrite step_is_tstep.
    destruct (tstep_connected add_conn local K t o i n add_conn_keeps Hn Hc) as [n' [Hn' [F1 [F2 _]]]].
    { rewrite Hkey. exact Hnd. }
    exists i, n'. repeat split; auto. congruence.
Qed.

Lemma grun_fst : forall local K h t g, fst (grun local K t g h) = run local K t h.
Proof. induction h as [|o h IH]; intros t g; simpl; [reflexivity|apply IH]. Qed.

Lemma grun_inv : forall local K h t g,
  GInv local t g -> GInv local (fst (grun local K t g h)) (snd (grun local K t g h)).
Proof.
  induction h as [|o h IH]; intros t g HG; simpl; [exact HG|].
  apply IH. apply gt_step_inv. exact HG.
Qed.

Lemma grun_app : forall local K h1 h2 t g,
  grun local K t g (h1 ++ h2) =
  grun local K (fst (grun local K t g h1)) (snd (grun local K t g h1)) h2.
Proof. induction h1 as [|o h1 IH]; intros h2 t g; simpl; [reflexivity|apply IH]. Qed.

Lemma gt_step_mono : forall local t t' code g o k,
  In k g -> o <> ODisconnected k -> In k (gt_step local t t' code g o).
Proof.
  intros local t t' code g o k Hin Hnd.
  destruct o as [k0|k0 a0 c0|k0 a0 c0|k0 d0|k0 a0|k0];
    try (unfold gt_step; match goal with |- In _ (if ?c then _ else _) => destruct c end;
         [apply add_peer_mono; exact Hin|exact Hin]).
  simpl. apply in_del_peer. split; [exact Hin|]. intro E. apply Hnd. congruence.
Qed.

Lemma grun_mono : forall local K h t g k,
  In k g -> ~ In (ODisconnected k) h -> In k (snd (grun local K t g h)).
Proof.
  induction h as [|o h IH]; intros t g k Hin Hnd; simpl; [exact Hin|].
  apply IH.
  - apply gt_step_mono; [exact Hin|]. intro E. apply Hnd. left. exact E.
  - intro H. apply Hnd. right. exact H.
Qed.

Lemma run_app : forall local K h1 h2 t, run local K t (h1 ++ h2) = run local K (run local K t h1) h2.
Proof. induction h1 as [|o h1 IH]; intros h2 t; simpl; [reflexivity|apply IH]. Qed.

Lemma empty_ginv : forall local L, GInv local (empty_table L) [].
Proof. intros local L k []. Qed.

(* every ghost member is stored, in the bucket of its distance, with an entry that says
   Connected — after every history, with no assumption on the keys *)
Lemma ghost_stored : forall local K h k,
  In k (ghost local K h) ->
  exists i n, ilog2 (kxor local k) = Some i /\ In n (nth i (reach local K h) []) /\
              n_key n = k /\ n_conn n = Connected.
Proof.
  intros local K h k Hk. unfold ghost in Hk. unfold reach.
  rewrite <- (grun_fst local K h (empty_table (length local)) []).
  apply (grun_inv local K h _ [] (empty_ginv local _)). exact Hk.
Qed.

Lemma ghost_kept : forall local K h1 h2 k,
  In k (ghost local K h1) -> ~ In (ODisconnected k) h2 -> In k (ghost local K (h1 ++ h2)).
Proof.
  intros local K h1 h2 k Hk Hnd. unfold ghost in *. rewrite grun_app. apply grun_mono; assumption.
Qed.

Lemma ghost_snoc : forall local K h o,
  ghost local K (h ++ [o]) =
  gt_step local (reach local K h) (reach local K (h ++ [o]))
          (snd (snd (step local K (reach local K h) o))) (ghost local K h) o.
Proof.
  intros local K h o. unfold ghost, reach. rewrite grun_app, run_app. simpl.
  rewrite grun_fst. reflexivity.
Qed.

(* the outcome code of the last operation of a history *)
Definition last_code (local : key) (K : nat) (h : list op) (o : op) : nat :=
  snd (snd (step local K (reach local K h) o)).

(* ghost membership = the last connection-related operation for the peer was a Connected claim
   that left it stored *)
Lemma ghost_iff : forall local K h k,
  In k (ghost local K h) <->
  exists h1 o h2, h = h1 ++ o :: h2 /\ op_key o = k /\
    claims_connected o (last_code local K h1 o) = true /\
    stored_in local (reach local K (h1 ++ [o])) k = true /\
    ~ In (ODisconnected k) h2.
Proof.
  intros local K h k. split.
  - revert k. induction h as [|o h IH] using rev_ind; intros k Hk; [destruct Hk|].
    rewrite ghost_snoc in Hk.
    assert (Hcase : (op_key o = k /\ claims_connected o (last_code local K h o) = true /\
                     stored_in local (reach local K (h ++ [o])) k = true) \/
                    (In k (ghost local K h) /\ o <> ODisconnected k)).
    { apply in_gt_step in Hk. destruct Hk as [[E1 [E2 E3]]|H]; [left|right; exact H].
      split; [exact E1|]. split; [exact E2|]. subst k.
      unfold reach in *. rewrite run_app in *. simpl in *. apply stored_or. exact E3. }
    destruct Hcase as [[E1 [E2 E3]]|[Hin Hnd]].
    + exists h, o, []. repeat split; auto.
    + destruct (IH k Hin) as [h1 [o' [h2 [E [E1 [E2 [E3 E4]]]]]]].
      exists h1, o', (h2 ++ [o]). split; [rewrite E, <- app_assoc; reflexivity|].
      repeat split; auto. intro H. apply in_app_iff in H. destruct H as [H|[H|[]]]; [auto|].
      apply Hnd. exact H.
  - intros [h1 [o [h2 [E [E1 [E2 [E3 E4]]]]]]]. subst h.
    replace (h1 ++ o :: h2) with ((h1 ++ [o]) ++ h2) by (rewrite <- app_assoc; reflexivity).
    apply ghost_kept; [|exact E4]. rewrite ghost_snoc.
    assert (Hnd : forall k0, o <> ODisconnected k0).
    { intros k0 E. subst o. simpl in E2. discriminate. }
    unfold last_code in E2. subst k.
    destruct o as [k0|k0 a0 c0|k0 a0 c0|k0 d0|k0 a0|k0];
      try (unfold gt_step; rewrite E2, E3, orb_true_r; simpl; apply add_peer_in).
    exfalso. eapply Hnd. reflexivity.
Qed.

(* a disconnect revokes it, whatever came before *)
Lemma ghost_disconnect : forall local K h k, ~ In k (ghost local K (h ++ [ODisconnected k])).
Proof.
  intros local K h k H. rewrite ghost_snoc in H. simpl in H. apply in_del_peer in H. destruct H; congruence.
Qed.

(* ---- closest(): a connected peer with an address is returned, unless k peers strictly closer
   to the target are *)
Lemma closest_returns : forall local K t tgt k n,
  1 <= length local -> Inv local K t -> length tgt = length local -> outside_class local t tgt ->
  In n (concat t) -> n_addr n = true ->
  In n (closest local t tgt k) \/
  (length (closest local t tgt k) = k /\ forall a, In a (closest local t tgt k) -> dlt tgt a n).
Proof.
  intros local K t tgt k n HL HI Ht Hc Hin Ha.
  destruct (closest_spec local K t tgt k HL HI Ht Hc) as [full [Hp [Hs E]]]. rewrite E.
  assert (Hf : In n full).
  { apply (Permutation_in _ (Permutation_sym Hp)). apply filter_In. auto. }
  rewrite <- (firstn_skipn k full) in Hf, Hs. apply in_app_iff in Hf. destruct Hf as [Hf|Hf]; [left; exact Hf|].
  right. split.
  - apply firstn_length_le. destruct (Nat.le_gt_cases k (length full)) as [H|H]; [exact H|].
    rewrite skipn_all2 in Hf by lia. destruct Hf.
  - intros a Ha'. eapply SS_app_cross; eauto.
Qed.

Lemma in_nth_concat : forall (t : table) i (n : node), In n (nth i t []) -> In n (concat t).
Proof.
  induction t as [|b t IH]; intros i n H; [destruct i; destruct H|].
  simpl. apply in_app_iff. destruct i; [left; exact H|right; eapply IH; exact H].
Qed.

(* ---- the Kademlia glue: a glue history is the table history kflat *)

Lemma kupdate_flat : forall local K l s,
  k_peers (kupdate add_conn local K s l) = k_peers s /\
  k_table (kupdate add_conn local K s l) =
  run local K (k_table s) (kop_ops local (k_peers s) (KUpdate l)).
Proof.
  induction l as [|pa l IH]; intros s; [split; reflexivity|].
  rewrite kupdate_cons. simpl kop_ops.
  destruct (key_eqb (fst pa) local) eqn:E.
  - simpl. apply IH.
  - destruct (IH (kadd add_conn local K s pa)) as [H1 H2]. split; [rewrite H1; reflexivity|].
    rewrite H2. simpl. reflexivity.
Qed.

Lemma kstep_flat : forall local K s o,
  k_table (kstep local K s o) = run local K (k_table s) (kop_ops local (k_peers s) o).
Proof.
  intros local K s o. destruct o as [p a|p d pe|p|p|l|p a|p]; try reflexivity.
  apply (kupdate_flat local K l s).
Qed.

Lemma krun_flat : forall local K h s,
  k_table (krun local K s h) = run local K (k_table s) (kflat local K s h).
Proof.
  induction h as [|o h IH]; intros s; [reflexivity|].
  simpl kflat. rewrite run_app. rewrite <- kstep_flat. apply IH.
Qed.

Lemma kflat_app : forall local K h1 h2 s,
  kflat local K s (h1 ++ h2) = kflat local K s h1 ++ kflat local K (krun local K s h1) h2.
Proof.
  induction h1 as [|o h1 IH]; intros h2 s; [reflexivity|].
  simpl. rewrite <- app_assoc. f_equal. apply IH.
Qed.

Lemma kop_ops_disc : forall local ps o k, In (ODisconnected k) (kop_ops local ps o) -> o = KDisconnect k.
Proof.
  intros local ps o k H. destruct o as [p a|p d pe|p|p|l|p a|p]; simpl in H.
  - destruct H as [H|[]]. discriminate.
  - destruct H as [H|[]]. discriminate.
  - destruct H as [H|[]]. inversion H. reflexivity.
  - destruct H.
  - apply in_flat_map in H. destruct H as [pa [_ H]].
    destruct (key_eqb (fst pa) local); [destruct H|]. destruct H as [H|[]]. discriminate.
  - destruct H as [H|[]]. discriminate.
  - destruct H as [H|[]]. discriminate.
Qed.

Lemma kflat_disc : forall local K h s k,
  In (ODisconnected k) (kflat local K s h) -> In (KDisconnect k) h.
Proof.
  induction h as [|o h IH]; intros s k H; [destruct H|].
  simpl in H. apply in_app_iff in H. destruct H as [H|H].
  - left. eapply kop_ops_disc; eauto.
  - right. eapply IH; eauto.
Qed.

Lemma kghost_stored : forall local K h k,
  In k (kghost local K h) ->
  exists i n, ilog2 (kxor local k) = Some i /\ In n (nth i (k_table (kreach local K h)) []) /\
              n_key n = k /\ n_conn n = Connected.
Proof.
  intros local K h k Hk. unfold kghost in Hk. unfold kreach. rewrite krun_flat.
  apply ghost_stored in Hk. exact Hk.
Qed.

Lemma kghost_kept : forall local K h1 h2 k,
  In k (kghost local K h1) -> ~ In (KDisconnect k) h2 -> In k (kghost local K (h1 ++ h2)).
Proof.
  intros local K h1 h2 k Hk Hnd. unfold kghost in *. rewrite kflat_app.
  apply ghost_kept; [exact Hk|]. intro H. apply Hnd. eapply kflat_disc; eauto.
Qed.

(* what makes a peer a ghost member at the glue level: the connection is established while the
   peer is stored *)
Lemma kflat_single : forall local K s o, kflat local K s [o] = kop_ops local (k_peers s) o.
Proof. intros. simpl. apply app_nil_r. Qed.

Lemma kghost_established : forall local K h p d pe,
  stored_in local (k_table (kreach local K (h ++ [KEstablished p d pe]))) p = true ->
  In p (kghost local K (h ++ [KEstablished p d pe])).
Proof.
  intros local K h p d pe Hst.
  assert (E : kflat local K (kad_empty (length local)) (h ++ [KEstablished p d pe]) =
              kflat local K (kad_empty (length local)) h ++ [OConnected p d]).
  { rewrite kflat_app, kflat_single. reflexivity. }
  unfold kreach in Hst. rewrite krun_flat, E in Hst. simpl k_table in Hst. fold (reach local K) in Hst.
  unfold kghost. rewrite E, ghost_snoc. simpl gt_step.
  unfold reach in *. rewrite Hst, orb_true_r. apply add_peer_in.
Qed.

(* ---- before the repairs: the rule of add_known_peer matters ---- *)

(* with the first repair only (NotConnected does not overwrite Connected) a re-mention with
   CannotConnect still displaced a connected peer: K = 1, the peer is connected, re-mentioned as
   CannotConnect, and the next newcomer of the bucket takes its slot *)
Lemma add_conn_b_witness :
  let local := [false; false] in
  let p := [true; false] in
  let q := [true; true] in
  let h := [OAdd p true NotConnected; OConnected p false; OAdd p true CannotConnect; OAdd q true NotConnected] in
  In p (ghost local 1 h) /\
  nth 1 (fold_left (fun t o => fst (step_gen add_conn_b local 1 t o)) h (empty_table 2)) [] =
    [mkNode q true NotConnected] /\
  nth 1 (reach local 1 h) [] = [mkNode p true Connected].
Proof. cbv zeta. split; [vm_compute; auto|]. split; vm_compute; reflexivity. Qed.

(* ---- the extremes of the key space ---- *)
Lemma ilog2_none_iff : forall a b, length a = length b -> (ilog2 (kxor a b) = None <-> a = b).
Proof.
  intros a b HL. split; [|intros ->; apply kxor_self_ilog2].
  revert b HL. induction a as [|x a IH]; intros [|y b] HL H; simpl in *; try discriminate; auto.
  destruct x, y; simpl in H; try discriminate; f_equal; apply IH; auto.
Qed.

Lemma ilog2_top : forall x y a b, length a = length b -> xorb x y = true ->
  ilog2 (kxor (x :: a) (y :: b)) = Some (length a).
Proof.
  intros x y a b HL H. simpl. rewrite H. rewrite kxor_length, <- HL, Nat.min_id. reflexivity.
Qed.

Lemma no_ties : forall t a b, length t = length a -> length t = length b -> a <> b ->
  kxor t a <> kxor t b /\ (klt (kxor t a) (kxor t b) = true \/ klt (kxor t b) (kxor t a) = true).
Proof.
  intros t a b Ha Hb Hne.
  assert (H : kxor t a <> kxor t b) by (intro E; apply Hne; eapply kxor_inj; eauto).
  split; [exact H|]. apply klt_total; [|exact H]. rewrite !kxor_length. lia.
Qed.

(* ---- a peer is displaced only to make room ---- *)

Definition key_in (k : key) (b : list node) : Prop := exists n', In n' b /\ n_key n' = k.

Definition stores_op (o : op) : bool :=
  match o with OInsert _ _ _ | OAdd _ _ _ => true | _ => false end.

Lemma key_in_mid : forall a y c (n : node),
  In n (a ++ y :: c) -> forall y', n_key y' = n_key y -> key_in (n_key n) (a ++ y' :: c).
Proof.
  intros a y c n H y' E. apply in_app_iff in H. destruct H as [H|[H|H]].
  - exists n. split; [apply in_app_iff; left; exact H|reflexivity].
  - subst y. exists y'. split; [apply in_mid|exact E].
  - exists n. split; [apply in_app_iff; right; right; exact H|reflexivity].
Qed.

Lemma apply_slot_displaced : forall K b o n,
  In n b -> ~ key_in (n_key n) (apply_slot o b (bucket_entry K b (op_key o))) ->
  K <= length b /\ replaceable n = true /\ stores_op o = true /\ ~ key_in (op_key o) b /\
  exists a c, b = a ++ n :: c /\ Forall (fun x => replaceable x = false) a.
Proof.
  intros K b o n Hin Hno. unfold apply_slot, bucket_entry in Hno.
  set (k := op_key o) in *.
  assert (Hself : forall l, In n l -> key_in (n_key n) l) by (intros l H; exists n; auto).
  destruct (split_first (has_key k) b) as [[[a y] c]|] eqn:E1.
  - exfalso. apply split_first_some in E1. destruct E1 as [Eb _]. subst b. apply Hno.
    assert (H : exists y', apply_slot_gen add_conn o (a ++ y :: c) (SOcc a y c) = a ++ y' :: c /\ n_key y' = n_key y)
      by (destruct o; eexists; split; reflexivity).
    destruct H as [y' [-> E]]. eapply key_in_mid; eauto.
  - pose proof (split_first_none _ _ E1) as Hnk.
    destruct (length b <? K) eqn:EK.
    + exfalso. apply Hno. apply Hself.
      destruct o; simpl; apply in_app_iff; left; exact Hin.
    + destruct (split_first replaceable b) as [[[a y] c]|] eqn:E3.
      * apply split_first_some in E3. destruct E3 as [Eb [Hy Ha]].
        assert (Hny : n = y /\ stores_op o = true).
        { rewrite Eb in Hin. apply in_app_iff in Hin.
          destruct Hin as [H|[H|H]].
          - exfalso. apply Hno. apply Hself. destruct o; simpl; try (rewrite Eb);
              apply in_app_iff; left; exact H.
          - split; [symmetry; exact H|].
            destruct o; try reflexivity; exfalso; apply Hno; apply Hself; simpl; rewrite H; apply in_mid.
          - exfalso. apply Hno. apply Hself. destruct o; simpl; try (rewrite Eb);
              apply in_app_iff; right; right; exact H. }
        destruct Hny as [-> Hst]. split; [apply Nat.ltb_ge; exact EK|]. split; [exact Hy|].
        split; [exact Hst|]. split.
        -- intros [n' [Hn' Ek]]. rewrite Forall_forall in Hnk. specialize (Hnk n' Hn').
           unfold has_key in Hnk. rewrite Ek, key_eqb_refl in Hnk. discriminate.
        -- exists a, c. auto.
      * exfalso. apply Hno. apply Hself. destruct o; simpl; exact Hin.
Qed.

Lemma step_displaced : forall local K t o j n,
  In n (nth j t []) ->
  ~ key_in (n_key n) (nth j (fst (step local K t o)) []) ->
  ilog2 (kxor local (op_key o)) = Some j /\ K <= length (nth j t []) /\ replaceable n = true /\
  stores_op o = true /\ ~ key_in (op_key o) (nth j t []) /\
  exists a c, nth j t [] = a ++ n :: c /\ Forall (fun x => replaceable x = false) a.
Proof.
  intros local K t o j n Hin Hno.
  destruct (step_cases local K t o) as [E|[i [Hi E]]]; rewrite E in Hno.
  - exfalso. apply Hno. exists n. auto.
  - destruct (Nat.eq_dec j i) as [->|Hji].
    + assert (Hlt : i < length t).
      { destruct (Nat.lt_ge_cases i (length t)) as [H|H]; auto.
        rewrite nth_overflow in Hin by exact H. destruct Hin. }
      rewrite nth_upd_same in Hno by exact Hlt.
      split; [exact Hi|]. apply (apply_slot_displaced K _ o n Hin Hno).
    + exfalso. rewrite nth_upd_other in Hno by exact Hji. apply Hno. exists n. auto.
Qed.

Lemma upd_nth_same_val : forall {A} i (l : list A) d, upd_nth i (nth i l d) l = l.
Proof.
  intros A i l. revert i. induction l as [|h t IH]; intros i d; [destruct i; reflexivity|].
  destruct i; simpl; [reflexivity|]. f_equal. apply IH.
Qed.

(* a full bucket of peers none of which is replaceable turns a new key away: NoSlot, nothing changes *)
Lemma step_full_rejects : forall local K t o i,
  ilog2 (kxor local (op_key o)) = Some i -> K <= length (nth i t []) ->
  Forall (fun x => replaceable x = false) (nth i t []) -> ~ key_in (op_key o) (nth i t []) ->
  fst (step local K t o) = t /\ (snd (snd (step local K t o)) = 3 \/ snd (snd (step local K t o)) = 4).
Proof.
  intros local K t o i Hi HK Hrep Hnk.
  assert (E : bucket_entry K (nth i t []) (op_key o) = SNoSlot).
  { unfold bucket_entry.
    destruct (split_first (has_key (op_key o)) (nth i t [])) as [[[a y] c]|] eqn:E1.
    - exfalso. apply split_first_some in E1. destruct E1 as [Eb [Hy _]]. apply Hnk.
      exists y. split; [rewrite Eb; apply in_mid|]. unfold has_key in Hy. apply key_eqb_eq. exact Hy.
    - replace (length (nth i t []) <? K) with false by (symmetry; apply Nat.ltb_ge; exact HK).
      destruct (split_first replaceable (nth i t [])) as [[[a y] c]|] eqn:E3; [|reflexivity].
      exfalso. apply split_first_some in E3. destruct E3 as [Eb [Hy _]].
      rewrite Forall_forall in Hrep. rewrite (Hrep y) in Hy; [discriminate|]. rewrite Eb. apply in_mid. }
  unfold step, step_gen.
  destruct o as [k0|k0 a0 c0|k0 [|] c0|k0 d0|k0 a0|k0]; simpl in *; rewrite ?Hi, ?E; simpl;
    try (split; [apply upd_nth_same_val|auto]).
  split; auto.
Qed.
