(* C14 — proofs about the address stores inside the routing table (AddrModel.v). *)
From Coq Require Import List NArith ZArith Bool Arith Lia Permutation Sorted.
From V.C14 Require Import Model Proofs AddrModel.
Import ListNotations.

(* ------------------------------------------------------------------ one store *)

Definition store_ok (cap : nat) (st : store) : Prop :=
  length st <= cap /\ NoDup (map fst st).

Lemma sfind_in : forall a s z, sfind a s = Some z -> In (a, z) s.
Proof.
  induction s as [|[b y] s IH]; simpl; intros z H; [discriminate|].
  destruct (N.eqb_spec b a) as [->|Hne]; [inversion H; auto|right; auto].
Qed.

Lemma sfind_none : forall a s, sfind a s = None -> ~ In a (map fst s).
Proof.
  induction s as [|[b y] s IH]; simpl; intros H; [tauto|].
  destruct (N.eqb_spec b a) as [->|Hne]; [discriminate|]. intros [E|E]; [congruence|]. apply IH; auto.
Qed.

Lemma sfind_some_in : forall a s z, sfind a s = Some z -> In a (map fst s).
Proof. intros a s z H. apply sfind_in in H. apply in_map_iff. exists (a, z). auto. Qed.

Lemma sset_fst : forall a z s, map fst (sset a z s) = map fst s.
Proof.
  induction s as [|[b y] s IH]; simpl; [reflexivity|].
  destruct (N.eqb b a); simpl; [reflexivity|]. rewrite IH. reflexivity.
Qed.

Lemma sset_length : forall a z s, length (sset a z s) = length s.
Proof. intros. rewrite <- (map_length fst), sset_fst, map_length. reflexivity. Qed.

Lemma sfind_sset : forall a z s y, sfind a s = Some y -> sfind a (sset a z s) = Some z.
Proof.
  induction s as [|[b y0] s IH]; simpl; intros y H; [discriminate|].
  destruct (N.eqb b a) eqn:E; simpl; rewrite E; [reflexivity|]. eapply IH; eauto.
Qed.

Lemma sfind_sset_other : forall a b z s, a <> b -> sfind b (sset a z s) = sfind b s.
Proof.
  induction s as [|[c y] s IH]; simpl; intros Hne; [reflexivity|].
  destruct (N.eqb_spec c a) as [->|Hca]; simpl.
  - destruct (N.eqb_spec a b); [congruence|reflexivity].
  - destruct (N.eqb c b); [reflexivity|]. apply IH. exact Hne.
Qed.

Lemma sremove_in : forall v s x, In x (map fst (sremove v s)) -> In x (map fst s).
Proof.
  induction s as [|[b y] s IH]; simpl; intros x H; [exact H|].
  destruct (N.eqb b v); simpl in *; [right; exact H|]. destruct H as [H|H]; [left; exact H|right; auto].
Qed.

Lemma sremove_nodup : forall v s, NoDup (map fst s) -> NoDup (map fst (sremove v s)).
Proof.
  induction s as [|[b y] s IH]; simpl; intros H; [exact H|].
  inversion H as [|? ? Hn Hd]; subst. destruct (N.eqb b v); [exact Hd|]. simpl. constructor; auto.
  intro Hi. apply Hn. eapply sremove_in; eauto.
Qed.

Lemma sremove_length : forall v s z, sfind v s = Some z -> S (length (sremove v s)) = length s.
Proof.
  induction s as [|[b y] s IH]; simpl; intros z H; [discriminate|].
  destruct (N.eqb b v); simpl; [reflexivity|]. f_equal. eapply IH; eauto.
Qed.

Lemma nodup_app_one : forall (l : list N) a, NoDup l -> ~ In a l -> NoDup (l ++ [a]).
Proof.
  induction l as [|x l IH]; simpl; intros a Hd Hn; [constructor; [tauto|constructor]|].
  inversion Hd; subst. constructor.
  - intro H. apply in_app_iff in H. destruct H as [H|[H|[]]]; [auto|]. subst. tauto.
  - apply IH; tauto.
Qed.

Lemma sinsert_ok : forall cap s a sc v,
  store_ok cap s -> store_ok cap (fst (sinsert cap s a sc v)).
Proof.
  intros cap s a sc v [HL HD]. unfold sinsert.
  destruct (sfind a s) as [z|] eqn:Ef.
  - destruct (sc =? 0)%Z; simpl; [split; assumption|]. split; [rewrite sset_length; exact HL|rewrite sset_fst; exact HD].
  - destruct (cap <=? length s) eqn:Ec.
    + destruct (smin s) as [m|]; [|split; assumption].
      destruct (_ <? m)%Z; [split; assumption|].
      destruct v as [v|]; [|split; assumption].
      destruct (sfind v s) as [vs|] eqn:Ev; [|split; assumption].
      destruct (vs =? m)%Z; [|split; assumption]. simpl. split.
      * rewrite app_length. simpl. pose proof (sremove_length v s vs Ev). lia.
      * rewrite map_app. simpl. apply nodup_app_one; [apply sremove_nodup; exact HD|].
        intro H. apply sremove_in in H. eapply sfind_none; eauto.
    + simpl. apply Nat.leb_gt in Ec. split; [rewrite app_length; simpl; lia|].
      rewrite map_app. simpl. apply nodup_app_one; [exact HD|apply sfind_none; exact Ef].
Qed.

Lemma nonempty_app : forall {A} (l : list A) x, nonempty (l ++ [x]) = true.
Proof. destruct l; reflexivity. Qed.

Lemma nonempty_length : forall {A} (l : list A), 1 <= length l -> nonempty l = true.
Proof. destruct l; simpl; [lia|reflexivity]. Qed.

Lemma sset_nonempty : forall a z s, nonempty (sset a z s) = nonempty s.
Proof. destruct s as [|[b y] s]; simpl; [reflexivity|]. destruct (N.eqb b a); reflexivity. Qed.

(* AddressStore::insert never leaves a store empty *)
Lemma sinsert_nonempty : forall cap s a sc v,
  1 <= cap -> nonempty (fst (sinsert cap s a sc v)) = true.
Proof.
  intros cap s a sc v Hc. unfold sinsert.
  destruct (sfind a s) as [z|] eqn:Ef.
  - assert (Hs : nonempty s = true) by (destruct s; [discriminate|reflexivity]).
    destruct (sc =? 0)%Z; simpl; [exact Hs|rewrite sset_nonempty; exact Hs].
  - destruct (cap <=? length s) eqn:Ec.
    + apply Nat.leb_le in Ec. assert (Hs : nonempty s = true) by (apply nonempty_length; lia).
      destruct (smin s) as [m|]; [|exact Hs].
      destruct (_ <? m)%Z; [exact Hs|]. destruct v as [v|]; [|exact Hs].
      destruct (sfind v s) as [vs|]; [|exact Hs]. destruct (vs =? m)%Z; [|exact Hs].
      simpl. apply nonempty_app.
    + simpl. apply nonempty_app.
Qed.

Lemma sinsert_all_ok : forall cap l s sc v,
  store_ok cap s -> store_ok cap (fst (fst (sinsert_all cap s l sc v))).
Proof.
  induction l as [|a l IH]; intros s sc v H; simpl; [exact H|].
  destruct (sinsert cap s a sc (match v with v0 :: _ => Some v0 | [] => None end)) as [s1 r] eqn:E1.
  destruct (sinsert_all cap s1 l sc (match r with IEvicted _ => tl v | _ => v end)) as [[s2 vs] bad] eqn:E2.
  simpl. pose proof (IH s1 sc (match r with IEvicted _ => tl v | _ => v end)) as H2.
  rewrite E2 in H2. simpl in H2. apply H2.
  pose proof (sinsert_ok cap s a sc (match v with v0 :: _ => Some v0 | [] => None end) H) as H1.
  rewrite E1 in H1. exact H1.
Qed.

Lemma sinsert_all_nonempty : forall cap l s sc v,
  1 <= cap -> nonempty (fst (fst (sinsert_all cap s l sc v))) = nonempty s || nonempty l.
Proof.
  induction l as [|a l IH]; intros s sc v Hc; simpl; [rewrite orb_false_r; reflexivity|].
  destruct (sinsert cap s a sc (match v with v0 :: _ => Some v0 | [] => None end)) as [s1 r] eqn:E1.
  destruct (sinsert_all cap s1 l sc (match r with IEvicted _ => tl v | _ => v end)) as [[s2 vs] bad] eqn:E2.
  simpl. pose proof (IH s1 sc (match r with IEvicted _ => tl v | _ => v end) Hc) as H2.
  rewrite E2 in H2. simpl in H2. rewrite H2.
  pose proof (sinsert_nonempty cap s a sc (match v with v0 :: _ => Some v0 | [] => None end) Hc) as H1.
  rewrite E1 in H1. simpl in H1. rewrite H1. rewrite orb_true_r. reflexivity.
Qed.

(* a failed dial of a known address leaves exactly that address with the failure score *)
Lemma dial_failure_marks : forall cap s a z v,
  sfind a s = Some z ->
  sinsert cap s a S_FAIL v = (sset a S_FAIL s, IUpdated) /\
  sfind a (sset a S_FAIL s) = Some S_FAIL /\
  forall b, b <> a -> sfind b (sset a S_FAIL s) = sfind b s.
Proof.
  intros cap s a z v H. split; [|split].
  - unfold sinsert. rewrite H. reflexivity.
  - eapply sfind_sset; eauto.
  - intros b Hb. apply sfind_sset_other. congruence.
Qed.

(* re-adding a known address (score 0) does not erase its dial history *)
Lemma readd_keeps_score : forall cap s a z v, sfind a s = Some z -> sinsert cap s a 0%Z v = (s, IKept).
Proof. intros cap s a z v H. unfold sinsert. rewrite H. reflexivity. Qed.

(* ------------------------------------------------------------------ addresses(limit) *)

Definition sge (x y : addr * Z) : Prop := (snd y <= snd x)%Z.

Lemma ins_desc_perm : forall x l, Permutation (ins_desc x l) (x :: l).
Proof.
  induction l as [|h t IH]; simpl; [reflexivity|].
  destruct (snd h <? snd x)%Z; [reflexivity|].
  rewrite IH. apply perm_swap.
Qed.

Lemma sort_desc_perm : forall s, Permutation (sort_desc s) s.
Proof.
  induction s as [|x s IH]; simpl; [reflexivity|].
  rewrite ins_desc_perm. constructor. exact IH.
Qed.

Lemma ins_desc_sorted : forall x l, StronglySorted sge l -> StronglySorted sge (ins_desc x l).
Proof.
  induction l as [|h t IH]; simpl; intros H; [repeat constructor|].
  inversion H as [|? ? Hs Hf]; subst.
  destruct (snd h <? snd x)%Z eqn:E.
  - apply Z.ltb_lt in E. constructor; [exact H|]. constructor; [unfold sge; lia|].
    rewrite Forall_forall in *. intros y Hy. specialize (Hf y Hy). unfold sge in *. lia.
  - apply Z.ltb_ge in E. constructor; [apply IH; exact Hs|].
    rewrite Forall_forall in *. intros y Hy.
    apply (Permutation_in _ (ins_desc_perm x t)) in Hy. destruct Hy as [<-|Hy]; [exact E|auto].
Qed.

Lemma sort_desc_sorted : forall s, StronglySorted sge (sort_desc s).
Proof. induction s as [|x s IH]; simpl; [constructor|apply ins_desc_sorted; exact IH]. Qed.

Lemma nodup_app_l : forall {A} (l1 l2 : list A), NoDup (l1 ++ l2) -> NoDup l1.
Proof.
  induction l1 as [|x l1 IH]; intros l2 H; [constructor|].
  simpl in H. inversion H as [|? ? Hn Hd]; subst. constructor; [|eapply IH; eauto].
  intro Hi. apply Hn. apply in_app_iff. auto.
Qed.

Lemma reported_facts : forall limit s,
  length (reported limit s) = Nat.min limit (length s) /\
  StronglySorted sge (reported limit s) /\
  (forall x, In x (reported limit s) -> In x s) /\
  (forall x y, In x (reported limit s) -> In y s -> ~ In y (reported limit s) -> sge x y) /\
  (NoDup (map fst s) -> NoDup (map fst (reported limit s))).
Proof.
  intros limit s. unfold reported.
  pose proof (sort_desc_perm s) as Hp. pose proof (sort_desc_sorted s) as Hs.
  split; [rewrite firstn_length, (Permutation_length Hp); reflexivity|].
  split; [apply SS_firstn; exact Hs|]. split; [|split].
  - intros x Hx. apply (Permutation_in _ Hp). rewrite <- (firstn_skipn limit (sort_desc s)).
    apply in_app_iff. auto.
  - intros x y Hx Hy Hny. apply (Permutation_in _ (Permutation_sym Hp)) in Hy.
    rewrite <- (firstn_skipn limit (sort_desc s)) in Hy, Hs. apply in_app_iff in Hy.
    destruct Hy as [Hy|Hy]; [contradiction|]. eapply SS_app_cross; eauto.
  - intros Hd. assert (Hd' : NoDup (map fst (sort_desc s))).
    { eapply Permutation_NoDup; [|exact Hd]. apply Permutation_map. apply Permutation_sym. exact Hp. }
    rewrite <- (firstn_skipn limit (sort_desc s)), map_app in Hd'.
    apply nodup_app_l in Hd'. exact Hd'.
Qed.

(* ------------------------------------------------------------------ the stores of the table *)

Definition node_store_ok (cap : nat) (n : node) (st : store) : Prop :=
  n_addr n = nonempty st /\ store_ok cap st.

Definition AInv (cap : nat) (s : rstate) : Prop :=
  Forall2 (Forall2 (node_store_ok cap)) (r_table s) (r_stores s).

Lemma Forall2_length : forall {A B} {R : A -> B -> Prop} {l l'}, Forall2 R l l' -> length l = length l'.
Proof. intros A B R l l' H. induction H; simpl; congruence. Qed.

Lemma Forall2_upd : forall {A B} (R : A -> B -> Prop) i x y l l',
  Forall2 R l l' -> R x y -> Forall2 R (upd_nth i x l) (upd_nth i y l').
Proof.
  intros A B R i x y l l' H. revert i. induction H as [|a b l l' Hab H IH]; intros i Hxy.
  - destruct i; constructor.
  - destruct i; simpl; constructor; auto.
Qed.

Lemma Forall2_nth : forall {A B} (R : A -> B -> Prop) l l' i d d',
  Forall2 R l l' -> i < length l -> R (nth i l d) (nth i l' d').
Proof.
  intros A B R l l' i d d' H. revert i. induction H as [|a b l l' Hab H IH]; intros i Hi; simpl in *; [lia|].
  destruct i; [exact Hab|]. apply IH. lia.
Qed.

Lemma Forall2_mid : forall {A B} (R : A -> B -> Prop) a y c y' st' sb,
  Forall2 R (a ++ y :: c) sb -> R y' st' ->
  Forall2 R (a ++ y' :: c) (upd_nth (length a) st' sb) /\ R y (nth (length a) sb st').
Proof.
  intros A B R a y c y' st'. induction a as [|x a IH]; intros sb H Hy; simpl in *.
  - inversion H; subst. split; [constructor; auto|assumption].
  - inversion H as [|? b ? sb' Hxb H']; subst. destruct (IH sb' H' Hy) as [H1 H2].
    split; [constructor; auto|exact H2].
Qed.

Lemma Forall2_snoc : forall {A B} (R : A -> B -> Prop) l l' x y,
  Forall2 R l l' -> R x y -> Forall2 R (l ++ [x]) (l' ++ [y]).
Proof. intros. apply Forall2_app; [assumption|constructor; [assumption|constructor]]. Qed.

(* the node an operation leaves in the slot it obtained *)
Definition new_node (ac : conn -> conn -> conn) (o : op) (y : node) (occ : bool) : node :=
  if occ then
    match o with
    | OAdd _ _ c => mkNode (n_key y) true (ac (n_conn y) c)
    | OConnected _ dialer => mkNode (n_key y) (n_addr y || dialer) Connected
    | ODialFailure _ ne => mkNode (n_key y) (n_addr y || ne) (n_conn y)
    | ODisconnected _ => mkNode (n_key y) (n_addr y) NotConnected
    | _ => y
    end
  else
    match o with
    | OInsert k a c => mkNode k a c
    | OAdd k _ c => mkNode k true c
    | _ => y
    end.

Lemma apply_slot_occ : forall ac o b a y c,
  apply_slot_gen ac o b (SOcc a y c) = a ++ new_node ac o y true :: c.
Proof. intros. destruct o; reflexivity. Qed.

Lemma apply_slot_vac : forall ac o b a y c,
  apply_slot_gen ac o b (SVac a y c) = a ++ new_node ac o y false :: c.
Proof. intros. destruct o; reflexivity. Qed.

Lemma store_ok_nil : forall cap, store_ok cap [].
Proof. intro cap. split; [simpl; lia|constructor]. Qed.

Lemma map_nonempty : forall {A B} (f : A -> B) l, nonempty (map f l) = nonempty l.
Proof. destruct l; reflexivity. Qed.

(* the store an operation leaves in the slot matches the node it leaves there *)
Lemma store_op_ok : forall cap r sl y st a c,
  1 <= cap ->
  (sl = SOcc a y c \/ sl = SVac a y c) ->
  (forall k cn, abs_op r <> OAdd k false cn) ->
  node_store_ok cap y st ->
  node_store_ok cap (new_node add_conn (abs_op r) y (slot_occ sl)) (fst (store_op cap r sl st)).
Proof.
  intros cap r sl y st a c Hc Hsl Hna [Hf Hok].
  assert (Hall : forall s0 l sc v, store_ok cap s0 -> store_ok cap (fst (fst (sinsert_all cap s0 l sc v)))).
  { intros. apply sinsert_all_ok. assumption. }
  assert (Hne : forall s0 l sc v, nonempty (fst (fst (sinsert_all cap s0 l sc v))) = nonempty s0 || nonempty l).
  { intros. apply sinsert_all_nonempty. exact Hc. }
  destruct Hsl as [-> | ->]; simpl slot_occ;
    destruct r as [k|k l cn v|k l cn v|k d v|k l v|k]; cbn -[sinsert_all S_OK S_FAIL]; try (split; assumption).
  - (* RAdd, Occupied *)
    destruct l as [|a0 l]; [exfalso; eapply Hna; reflexivity|].
    destruct (sinsert_all cap st (map with_p2p (a0 :: l)) 0 v) as [[st' vs] bad] eqn:E.
    pose proof (Hall st (map with_p2p (a0 :: l)) 0%Z v Hok) as H1. pose proof (Hne st (map with_p2p (a0 :: l)) 0%Z v) as H2.
    rewrite E in H1, H2. simpl in H1, H2. split; [simpl; rewrite H2; rewrite orb_true_r; reflexivity|exact H1].
  - (* RConnected, Occupied *)
    destruct d as [a0|]; [|split; [simpl; rewrite orb_false_r; exact Hf|exact Hok]].
    destruct (sinsert_all cap st [a0] S_OK v) as [[st' vs] bad] eqn:E.
    pose proof (Hall st [a0] S_OK v Hok) as H1. pose proof (Hne st [a0] S_OK v) as H2.
    rewrite E in H1, H2. simpl in H1, H2. split; [simpl; rewrite H2, !orb_true_r; reflexivity|exact H1].
  - (* RDialFailure, Occupied *)
    destruct (sinsert_all cap st l S_FAIL v) as [[st' vs] bad] eqn:E.
    pose proof (Hall st l S_FAIL v Hok) as H1. pose proof (Hne st l S_FAIL v) as H2.
    rewrite E in H1, H2. simpl in H1, H2. split; [simpl; rewrite H2, Hf; reflexivity|exact H1].
  - (* RInsert, Vacant *)
    destruct (sinsert_all cap [] l 0 v) as [[st' vs] bad] eqn:E.
    pose proof (Hall [] l 0%Z v (store_ok_nil cap)) as H1. pose proof (Hne [] l 0%Z v) as H2.
    rewrite E in H1, H2. simpl in H1, H2. split; [simpl; rewrite H2; reflexivity|exact H1].
  - (* RAdd, Vacant *)
    destruct l as [|a0 l]; [exfalso; eapply Hna; reflexivity|].
    destruct (sinsert_all cap [] (map with_p2p (a0 :: l)) 0 v) as [[st' vs] bad] eqn:E.
    pose proof (Hall [] (map with_p2p (a0 :: l)) 0%Z v (store_ok_nil cap)) as H1.
    pose proof (Hne [] (map with_p2p (a0 :: l)) 0%Z v) as H2.
    rewrite E in H1, H2. simpl in H1, H2. split; [simpl; rewrite H2; reflexivity|exact H1].
  - (* RConnected, Vacant *) destruct d; split; assumption.
Qed.

Lemma placeholder_store_ok : forall cap, node_store_ok cap placeholder [].
Proof. intro cap. split; [reflexivity|apply store_ok_nil]. Qed.

Lemma bucket_entry_shape : forall K b k,
  match bucket_entry K b k with
  | SOcc a y c => b = a ++ y :: c
  | SVac a y c => b = a ++ y :: c \/ (a = b /\ y = placeholder /\ c = [])
  | _ => True
  end.
Proof.
  intros K b k. unfold bucket_entry.
  destruct (split_first (has_key k) b) as [[[a y] c]|] eqn:E1.
  - apply split_first_some in E1. tauto.
  - destruct (length b <? K); [right; auto|].
    destruct (split_first replaceable b) as [[[a y] c]|] eqn:E3; [|exact I].
    apply split_first_some in E3. left. tauto.
Qed.

Lemma rstep_table : forall cap local K s r,
  r_table (fst (fst (rstep cap local K s r))) = fst (step local K (r_table s) (abs_op r)).
Proof.
  intros cap local K s r. unfold rstep.
  destruct (fst (snd (step local K (r_table s) (abs_op r)))) as [i|]; [|reflexivity].
  destruct (slot_pos _) as [p|]; [|reflexivity].
  destruct (store_op _ _ _ _). reflexivity.
Qed.

Lemma step_touch : forall local K t o i,
  fst (snd (step local K t o)) = Some i ->
  ilog2 (kxor local (op_key o)) = Some i /\ (forall k c, o <> OAdd k false c) /\
  fst (step local K t o) =
    upd_nth i (apply_slot o (nth i t []) (bucket_entry K (nth i t []) (op_key o))) t.
Proof.
  intros local K t o i H. unfold step, step_gen, apply_slot in *.
  destruct o as [k0|k0 a0 c0|k0 [|] c0|k0 d0|k0 a0|k0]; simpl in *;
    try (destruct (ilog2 (kxor local k0)) as [j|] eqn:E; simpl in H; [|discriminate];
         inversion H; subst; split; [reflexivity|split; [intros; discriminate|reflexivity]]).
  discriminate.
Qed.

Lemma Forall2_split_mid : forall {A B} (R : A -> B -> Prop) a y c sb,
  Forall2 R (a ++ y :: c) sb ->
  exists sa st sc, sb = sa ++ st :: sc /\ length sa = length a /\
                   Forall2 R a sa /\ R y st /\ Forall2 R c sc.
Proof.
  intros A B R a y c sb H. destruct (Forall2_app_inv_l _ _ H) as [l1 [l2 [H1 [H2 E]]]].
  inversion H2 as [|? st ? sc Hy Hc]; subst. exists l1, st, sc.
  repeat split; auto. symmetry. apply (Forall2_length H1).
Qed.

Lemma nth_mid : forall {A} (sa : list A) st sc d, nth (length sa) (sa ++ st :: sc) d = st.
Proof. intros. rewrite app_nth2 by lia. rewrite Nat.sub_diag. reflexivity. Qed.

Lemma upd_nth_mid : forall {A} (sa : list A) st sc x, upd_nth (length sa) x (sa ++ st :: sc) = sa ++ x :: sc.
Proof. induction sa as [|h sa IH]; intros; simpl; [reflexivity|]. f_equal. apply IH. Qed.

Lemma slot_bucket_stores : forall cap K b k sb,
  Forall2 (node_store_ok cap) b sb ->
  Forall2 (node_store_ok cap) (slot_bucket b (bucket_entry K b k))
          (if length sb <? length (slot_bucket b (bucket_entry K b k)) then sb ++ [[]] else sb).
Proof.
  intros cap K b k sb H. pose proof (Forall2_length H) as HL.
  pose proof (bucket_entry_shape K b k) as Hsh.
  destruct (bucket_entry K b k) as [| |a y c|a y c]; simpl slot_bucket.
  - rewrite HL, Nat.ltb_irrefl. exact H.
  - rewrite HL, Nat.ltb_irrefl. exact H.
  - rewrite <- Hsh, HL, Nat.ltb_irrefl. exact H.
  - destruct Hsh as [Hsh|[-> [-> ->]]].
    + rewrite <- Hsh, HL, Nat.ltb_irrefl. exact H.
    + rewrite app_length. simpl. replace (length sb <? length b + 1) with true
        by (symmetry; apply Nat.ltb_lt; lia).
      apply Forall2_snoc; [exact H|apply placeholder_store_ok].
Qed.

Lemma apply_slot_noslot : forall o b, apply_slot o b SNoSlot = b /\ apply_slot o b SLocal = b.
Proof. intros. split; destruct o; reflexivity. Qed.

Lemma upd_nth_overflow : forall {A} i (x : A) l, length l <= i -> upd_nth i x l = l.
Proof.
  intros A i x l. revert i. induction l as [|h t IH]; intros i H; [destruct i; reflexivity|].
  destruct i; simpl in *; [lia|]. f_equal. apply IH. lia.
Qed.

Lemma rstep_ainv : forall cap local K s r,
  1 <= cap -> AInv cap s -> AInv cap (fst (fst (rstep cap local K s r))).
Proof.
  intros cap local K s r Hc HA. unfold AInv in *. unfold rstep.
  destruct (fst (snd (step local K (r_table s) (abs_op r)))) as [i|] eqn:Ei.
  2:{ simpl. unfold step, step_gen in *.
      destruct (abs_op r) as [k0|k0 a0 c0|k0 [|] c0|k0 d0|k0 a0|k0]; simpl in *;
        try (destruct (ilog2 (kxor local k0)); simpl in *; [discriminate|exact HA]). exact HA. }
  destruct (step_touch local K (r_table s) (abs_op r) i Ei) as [Hi [Hna Et]].
  destruct (Nat.lt_ge_cases i (length (r_table s))) as [Hlt|Hov].
  2:{ (* the index is outside the table: nothing changes *)
      assert (Hl : length (r_stores s) <= i) by (rewrite <- (Forall2_length HA); exact Hov).
      destruct (slot_pos _) as [p|]; [destruct (store_op _ _ _ _)|]; simpl;
        rewrite Et, !upd_nth_overflow by assumption; exact HA. }
  set (b := nth i (r_table s) []) in *. set (sb := nth i (r_stores s) []) in *.
  assert (Hb : Forall2 (node_store_ok cap) b sb) by (apply Forall2_nth; assumption).
  pose proof (slot_bucket_stores cap K b (op_key (abs_op r)) sb Hb) as H1.
  set (sl := bucket_entry K b (op_key (abs_op r))) in *.
  set (sb1 := if length sb <? length (slot_bucket b sl) then sb ++ [[]] else sb) in *.
  assert (Hgoal : forall sb2,
            Forall2 (node_store_ok cap) (apply_slot (abs_op r) b sl) sb2 ->
            Forall2 (Forall2 (node_store_ok cap))
                    (fst (step local K (r_table s) (abs_op r))) (upd_nth i sb2 (r_stores s))).
  { intros sb2 H2. rewrite Et. apply Forall2_upd; assumption. }
  assert (Hmid : forall a y c occ,
            (sl = SOcc a y c /\ occ = true) \/ (sl = SVac a y c /\ occ = false) ->
            Forall2 (node_store_ok cap) (a ++ y :: c) sb1 ->
            Forall2 (node_store_ok cap) (a ++ new_node add_conn (abs_op r) y occ :: c)
                    (upd_nth (length a) (fst (store_op cap r sl (nth (length a) sb1 []))) sb1)).
  { intros a y c occ Hsl H2.
    destruct (Forall2_split_mid _ a y c sb1 H2) as [sa [st [sc [E [HL [Ha [Hy Hcc]]]]]]].
    rewrite E, <- HL, nth_mid, upd_nth_mid.
    apply Forall2_app; [exact Ha|]. constructor; [|exact Hcc].
    assert (Eocc : occ = slot_occ sl) by (destruct Hsl as [[-> ->]|[-> ->]]; reflexivity).
    rewrite Eocc. apply (store_op_ok cap r sl y st a c Hc); auto.
    destruct Hsl as [[-> _]|[-> _]]; auto. }
  destruct sl as [| |a y c|a y c] eqn:Esl; simpl slot_pos; cbv iota.
  - simpl. apply Hgoal. rewrite (proj2 (apply_slot_noslot _ _)). exact H1.
  - simpl. apply Hgoal. rewrite (proj1 (apply_slot_noslot _ _)). exact H1.
  - specialize (Hmid a y c true (or_introl (conj eq_refl eq_refl)) H1).
    destruct (store_op cap r (SOcc a y c) (nth (length a) sb1 [])) as [st' bad] eqn:Es. simpl in *.
    apply Hgoal. unfold apply_slot. rewrite apply_slot_occ. exact Hmid.
  - specialize (Hmid a y c false (or_intror (conj eq_refl eq_refl)) H1).
    destruct (store_op cap r (SVac a y c) (nth (length a) sb1 [])) as [st' bad] eqn:Es. simpl in *.
    apply Hgoal. unfold apply_slot. rewrite apply_slot_vac. exact Hmid.
Qed.

Lemma rrun_ainv : forall cap local K h s, 1 <= cap -> AInv cap s -> AInv cap (rrun cap local K s h).
Proof.
  induction h as [|r h IH]; intros s Hc HA; simpl; [exact HA|]. apply IH; [exact Hc|].
  apply rstep_ainv; assumption.
Qed.

Lemma rempty_ainv : forall cap L, AInv cap (rempty L).
Proof.
  intros cap L. unfold AInv, rempty, empty_table. simpl.
  induction L as [|L IH]; simpl; constructor; [constructor|exact IH].
Qed.

(* the table component of the rich run is the run of Model.v on the abstracted operations *)
Lemma rrun_table : forall cap local K h s,
  r_table (rrun cap local K s h) = run local K (r_table s) (map abs_op h).
Proof.
  induction h as [|r h IH]; intros s; simpl; [reflexivity|].
  rewrite IH, rstep_table. reflexivity.
Qed.

Lemma CAP_pos : 1 <= CAP.
Proof. vm_compute. lia. Qed.

Lemma S_FAIL_val : S_FAIL = (-100)%Z /\ S_OK = 100%Z /\ S_BONUS = 1%Z /\ CAP = 64 /\ REPORT = 32.
Proof. repeat split; reflexivity. Qed.
