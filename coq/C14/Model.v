(* C14 — executable model of litep2p's Kademlia routing table
   (src/protocol/libp2p/kademlia/{routing_table,bucket,types}.rs).  Definitions only.

   Keys are MSB-first bit lists of any length L (L = 256 in the runs); the table has one bucket
   per bit.  Abstractions (all diffed by the correspondence harness):
   - a node is (key, has-address flag, connection type); the address store is abstracted to
     "is non-empty" (AddressStore::insert never empties a store);
   - the dummy peer that KBucket::entry pushes for a vacant lookup (random PeerId, no address,
     NotConnected) is a node with the empty key [] — it never equals a looked-up key;
   - KBucket::closest_iter sorts and then drops address-less peers; the model drops them first
     and then sorts (stable insertion sort), which yields the same list for a stable sort. *)
From Coq Require Import List Bool Arith.
Import ListNotations.

Definition key := list bool.

Fixpoint kxor (a b : key) : key :=
  match a, b with
  | x :: a', y :: b' => xorb x y :: kxor a' b'
  | _, _ => []
  end.

(* strict lexicographic order, MSB first: the numeric order of U256 on keys of equal length *)
Fixpoint klt (a b : key) : bool :=
  match a, b with
  | x :: a', y :: b' => if Bool.eqb x y then klt a' b' else y
  | _, _ => false
  end.

Fixpoint key_eqb (a b : key) : bool :=
  match a, b with
  | [], [] => true
  | x :: a', y :: b' => Bool.eqb x y && key_eqb a' b'
  | _, _ => false
  end.

(* Distance::ilog2 = 255 - leading_zeros, None for zero: the bucket index *)
Fixpoint ilog2 (d : key) : option nat :=
  match d with
  | [] => None
  | true :: t => Some (length t)
  | false :: t => ilog2 t
  end.

Inductive conn := NotConnected | Connected | CanConnect | CannotConnect.

Record node := mkNode { n_key : key; n_addr : bool; n_conn : conn }.

(* KademliaPeer::new(PeerId::random(), vec![], NotConnected) *)
Definition placeholder : node := mkNode [] false NotConnected.

Definition replaceable (n : node) : bool :=
  match n_conn n with NotConnected | CannotConnect => true | _ => false end.

Definition has_key (k : key) (n : node) : bool := key_eqb (n_key n) k.

(* first element satisfying p, with the elements before and after it *)
Fixpoint split_first {A} (p : A -> bool) (l : list A) : option (list A * A * list A) :=
  match l with
  | [] => None
  | x :: t =>
      if p x then Some ([], x, t)
      else match split_first p t with
           | Some (a, y, c) => Some (x :: a, y, c)
           | None => None
           end
  end.

(* KBucketEntry: the slot (node y between a and c) the entry points to *)
Inductive slot :=
| SLocal
| SNoSlot
| SOcc (a : list node) (y : node) (c : list node)
| SVac (a : list node) (y : node) (c : list node).

(* KBucket::entry *)
Definition bucket_entry (K : nat) (b : list node) (k : key) : slot :=
  match split_first (has_key k) b with
  | Some (a, y, c) => SOcc a y c
  | None =>
      if length b <? K then SVac b placeholder []
      else match split_first replaceable b with
           | Some (a, y, c) => SVac a y c
           | None => SNoSlot
           end
  end.

(* the bucket as KBucket::entry leaves it when the caller does not write through the slot *)
Definition slot_bucket (b : list node) (s : slot) : list node :=
  match s with
  | SOcc a y c | SVac a y c => a ++ y :: c
  | _ => b
  end.

Inductive op :=
| OEntry (k : key)                              (* RoutingTable::entry, result dropped *)
| OInsert (k : key) (addr : bool) (c : conn)    (* entry(k).insert(KademliaPeer::new(..)) *)
| OAdd (k : key) (addrs : bool) (c : conn)      (* add_known_peer; addrs = list non-empty *)
| OConnected (k : key) (dialer : bool)          (* on_connection_established *)
| ODialFailure (k : key) (addrs : bool)         (* on_dial_failure; addrs = list non-empty *)
| ODisconnected (k : key).                      (* kademlia/mod.rs disconnect_peer: if the entry is
                                                   Occupied, connection := NotConnected *)

Definition op_key (o : op) : key :=
  match o with
  | OEntry k | OInsert k _ _ | OAdd k _ _ | OConnected k _ | ODialFailure k _ | ODisconnected k => k
  end.

(* add_known_peer on an Occupied entry (repaired code, fixes F-C14b and F-C14c): hearing of a peer
   again, with whatever connection type, does not take Connected away (only disconnect does);
   every other entry is overwritten *)
Definition add_conn (old new : conn) : conn :=
  match old with
  | Connected => Connected
  | _ => new
  end.
(* before the repair: entry.connection = connection *)
Definition add_conn_orig (old new : conn) : conn := new.
(* after the first repair (F-C14b) only: NotConnected did not overwrite Connected, CanConnect and
   CannotConnect still did (F-C14c) *)
Definition add_conn_b (old new : conn) : conn :=
  match old, new with
  | Connected, NotConnected => Connected
  | _, _ => new
  end.

(* what the operation does with the slot it obtained; ac = the rule of add_known_peer above *)
Definition apply_slot_gen (ac : conn -> conn -> conn) (o : op) (b : list node) (s : slot)
  : list node :=
  match o, s with
  | OInsert k a c, SVac x _ z => x ++ mkNode k a c :: z
  | OAdd k _ c, SVac x _ z => x ++ mkNode k true c :: z
  | OAdd _ _ c, SOcc x y z => x ++ mkNode (n_key y) true (ac (n_conn y) c) :: z
  | OConnected _ dialer, SOcc x y z => x ++ mkNode (n_key y) (n_addr y || dialer) Connected :: z
  | ODialFailure _ ne, SOcc x y z => x ++ mkNode (n_key y) (n_addr y || ne) (n_conn y) :: z
  | ODisconnected _, SOcc x y z => x ++ mkNode (n_key y) (n_addr y) NotConnected :: z
  | _, _ => slot_bucket b s
  end.
Definition apply_slot := apply_slot_gen add_conn.

Fixpoint upd_nth {A} (i : nat) (x : A) (l : list A) : list A :=
  match l, i with
  | [], _ => []
  | _ :: t, O => x :: t
  | h :: t, S j => h :: upd_nth j x t
  end.

Definition table := list (list node).

Definition empty_table (L : nat) : table := repeat [] L.

(* outcome codes: 0 LocalNode, 1 Occupied, 2 Vacant, 3 NoSlot, 4 ignored (no addresses) *)
Definition slot_code (s : slot) : nat :=
  match s with SLocal => 0 | SOcc _ _ _ => 1 | SVac _ _ _ => 2 | SNoSlot => 3 end.

(* one table operation: new table, touched bucket index, outcome code *)
Definition step_gen (ac : conn -> conn -> conn) (local : key) (K : nat) (t : table) (o : op)
  : table * (option nat * nat) :=
  match o with
  | OAdd _ false _ => (t, (None, 4))
  | _ =>
      match ilog2 (kxor local (op_key o)) with
      | None => (t, (None, 0))
      | Some i =>
          let b := nth i t [] in
          let s := bucket_entry K b (op_key o) in
          (upd_nth i (apply_slot_gen ac o b s) t, (Some i, slot_code s))
      end
  end.
Definition step := step_gen add_conn.

Fixpoint run (local : key) (K : nat) (t : table) (h : list op) : table :=
  match h with
  | [] => t
  | o :: h' => run local K (fst (step local K t o)) h'
  end.

(* ---- closest ---- *)

(* stable insertion sort by distance to the target *)
Fixpoint ins (tgt : key) (x : node) (l : list node) : list node :=
  match l with
  | [] => [x]
  | h :: r =>
      if klt (kxor tgt (n_key h)) (kxor tgt (n_key x)) then h :: ins tgt x r else x :: l
  end.
Definition sort_by_dist (tgt : key) (l : list node) : list node := fold_right (ins tgt) [] l.

(* KBucket::closest_iter *)
Definition bucket_closest (tgt : key) (b : list node) : list node :=
  sort_by_dist tgt (filter n_addr b).

(* ClosestBucketsIter works on the distance as an LSB-first bit list r = rev d (bit i of the
   U256 is element i); NUM_BUCKETS = length r. *)
Definition bit (r : list bool) (i : nat) : bool := nth i r false.

(* (0..i).rev().find(bit set) *)
Fixpoint next_in (d : list bool) (i : nat) : option nat :=
  match i with
  | O => None
  | S j => if bit d j then Some j else next_in d j
  end.

(* (j..j+n).find(bit clear) *)
Fixpoint find_clear (d : list bool) (j n : nat) : option nat :=
  match n with
  | O => None
  | S n' => if bit d j then find_clear d (S j) n' else Some j
  end.
Definition next_out (d : list bool) (i : nat) : option nat := find_clear d (S i) (length d - S i).

Inductive st := Start (i : nat) | ZoomIn (i : nat) | ZoomOut (i : nat) | Done.

Definition zoom_out_step (d : list bool) (i : nat) : st * option nat :=
  match next_out d i with
  | Some j => (ZoomOut j, Some j)
  | None => (Done, None)
  end.

(* Iterator::next.  When zooming in ends, bucket 0 is yielded unconditionally — also when it has
   just been yielded (finding F-C14a; the crate's test closest_buckets_iterator_set_lsb pins
   this behaviour, so it is modelled as it is). *)
Definition it_next (d : list bool) (s : st) : st * option nat :=
  match s with
  | Start i => (ZoomIn i, Some i)
  | ZoomIn i =>
      match next_in d i with
      | Some j => (ZoomIn j, Some j)
      | None => (ZoomOut 0, Some 0)
      end
  | ZoomOut i => zoom_out_step d i
  | Done => (Done, None)
  end.

Fixpoint it_run (next : st -> st * option nat) (s : st) (fuel : nat) : list nat :=
  match fuel with
  | O => []
  | S f => match next s with
           | (s', Some i) => i :: it_run next s' f
           | (_, None) => []
           end
  end.

(* ClosestBucketsIter::new *)
Definition it_init (d : key) : st :=
  Start (match ilog2 d with Some i => i | None => 0 end).

(* all indices the iterator yields; the fuel is shown to be more than enough in Proofs.v *)
Definition bucket_order (d : key) : list nat := it_run (it_next (rev d)) (it_init d) (2 * length d + 3).
Definition all_closest (local : key) (t : table) (tgt : key) : list node :=
  flat_map (fun i => bucket_closest tgt (nth i t [])) (bucket_order (kxor local tgt)).

(* RoutingTable::closest *)
Definition closest (local : key) (t : table) (tgt : key) (k : nat) : list node :=
  firstn k (all_closest local t tgt).

(* ---- the Kademlia glue around the table (kademlia/mod.rs) ----

   State: the routing table and the set of peers Kademlia holds a PeerContext for (`self.peers`:
   peers with pending actions or an inbound substream — what it takes for "connected").
   Operations = every code path of mod.rs that writes a table entry:
   - KAddKnown: KademliaCommand::AddKnownPeer / bootstrap peers;
   - KEstablished: on_connection_established (pending = there were queued dials for the peer);
   - KDisconnect: disconnect_peer (connection closed, substream open failure, send/read failure);
   - KTouch: a PeerContext is created (inbound substream, open_substream_or_dial succeeded);
   - KUpdate: update_routing_table with the peers of a FIND_NODE/GET_VALUE/GET_PROVIDERS reply
     (automatic update mode);
   - KDialFailure: on_dial_failure;  KEntry: the bare routing_table.entry() of PutRecordToPeers. *)

Record kad := mkKad { k_table : table; k_peers : list key }.

Definition in_peers (ps : list key) (p : key) : bool := existsb (key_eqb p) ps.
Definition believed (ps : list key) (p : key) : conn :=
  if in_peers ps p then Connected else NotConnected.
Definition add_peer (ps : list key) (p : key) : list key := if in_peers ps p then ps else p :: ps.
Definition del_peer (ps : list key) (p : key) : list key :=
  filter (fun q => negb (key_eqb p q)) ps.

Inductive kop :=
| KAddKnown (p : key) (addrs : bool)
| KEstablished (p : key) (dialer pending : bool)
| KDisconnect (p : key)
| KTouch (p : key)
| KUpdate (l : list (key * bool))
| KDialFailure (p : key) (addrs : bool)
| KEntry (p : key).

Section Kad.
Variable ac : conn -> conn -> conn.
Variable local : key.
Variable K : nat.

Definition tstep (t : table) (o : op) : table := fst (step_gen ac local K t o).

Definition kadd (s : kad) (pa : key * bool) : kad :=
  mkKad (tstep (k_table s) (OAdd (fst pa) (snd pa) (believed (k_peers s) (fst pa)))) (k_peers s).

(* update_routing_table: the local peer is filtered out, the rest is added one by one *)
Definition kupdate (s : kad) (l : list (key * bool)) : kad :=
  fold_left (fun s' pa => if key_eqb (fst pa) local then s' else kadd s' pa) l s.

Definition kstep_gen (s : kad) (o : kop) : kad :=
  match o with
  | KAddKnown p a => kadd s (p, a)
  | KEstablished p dialer pending =>
      mkKad (tstep (k_table s) (OConnected p dialer))
            (if pending then add_peer (k_peers s) p else k_peers s)
  | KDisconnect p => mkKad (tstep (k_table s) (ODisconnected p)) (del_peer (k_peers s) p)
  | KTouch p => mkKad (k_table s) (add_peer (k_peers s) p)
  | KUpdate l => kupdate s l
  | KDialFailure p a => mkKad (tstep (k_table s) (ODialFailure p a)) (k_peers s)
  | KEntry p => mkKad (tstep (k_table s) (OEntry p)) (k_peers s)
  end.

Fixpoint krun_gen (s : kad) (h : list kop) : kad :=
  match h with [] => s | o :: h' => krun_gen (kstep_gen s o) h' end.
End Kad.

Definition kstep := kstep_gen add_conn.
Definition krun := krun_gen add_conn.
Definition kad_empty (L : nat) : kad := mkKad (empty_table L) [].

(* the FIND_NODE / GET_VALUE / GET_PROVIDERS request arms of on_message_received send
   closest(hash(target), replication_factor) back verbatim *)
Definition reply (local : key) (s : kad) (tgt : key) (k : nat) : list node :=
  closest local (k_table s) tgt k.

(* ---- ground truth of connectedness ----

   The table is judged against what its callers told it, not against the flag it stores: a peer
   is CONNECTED after a history iff some operation stated so while (or by which) the table held
   the peer — on_connection_established on a stored peer, add_known_peer(.., Connected) that left
   the peer stored, insert(.., Connected) through a Vacant slot — and no disconnect for that peer
   came later.  on_dial_failure, entry(), add_known_peer with any other connection type and the
   content of the table never revoke it.  `ghost` is that set as a function of the history. *)

Definition stored_in (local : key) (t : table) (k : key) : bool :=
  match ilog2 (kxor local k) with
  | Some i => existsb (has_key k) (nth i t [])
  | None => false
  end.

Definition claims_connected (o : op) (code : nat) : bool :=
  match o with
  | OConnected _ _ => true
  | OAdd _ true Connected => true
  | OInsert _ _ Connected => Nat.eqb code 2      (* insert writes only through a Vacant slot *)
  | _ => false
  end.

(* t / t' = the table before / after the operation, code = its outcome code.  A claim counts
   when the peer is stored before or after it (on the model "before" implies "after"; for an
   observed trace the disjunction makes losing the peer at the very claim a violation too) *)
Definition gt_step (local : key) (t t' : table) (code : nat) (g : list key) (o : op) : list key :=
  match o with
  | ODisconnected k => del_peer g k
  | _ => if claims_connected o code &&
            (stored_in local t (op_key o) || stored_in local t' (op_key o))
         then add_peer g (op_key o) else g
  end.

Fixpoint grun (local : key) (K : nat) (t : table) (g : list key) (h : list op)
  : table * list key :=
  match h with
  | [] => (t, g)
  | o :: h' =>
      let r := step local K t o in
      grun local K (fst r) (gt_step local t (fst r) (snd (snd r)) g o) h'
  end.

Definition ghost (local : key) (K : nat) (h : list op) : list key :=
  snd (grun local K (empty_table (length local)) [] h).

(* a glue operation as the table operations it performs (ps = the PeerContext set before it) *)
Definition kop_ops (local : key) (ps : list key) (o : kop) : list op :=
  match o with
  | KAddKnown p a => [OAdd p a (believed ps p)]
  | KEstablished p dialer _ => [OConnected p dialer]
  | KDisconnect p => [ODisconnected p]
  | KTouch _ => []
  | KUpdate l =>
      flat_map (fun pa : key * bool =>
                  if key_eqb (fst pa) local then [] else [OAdd (fst pa) (snd pa) (believed ps (fst pa))]) l
  | KDialFailure p a => [ODialFailure p a]
  | KEntry p => [OEntry p]
  end.

Fixpoint kflat (local : key) (K : nat) (s : kad) (h : list kop) : list op :=
  match h with
  | [] => []
  | o :: h' => kop_ops local (k_peers s) o ++ kflat local K (kstep local K s o) h'
  end.

(* ground truth along a glue history: connection established (peer stored), update with a
   PeerContext, until disconnect_peer *)
Definition kghost (local : key) (K : nat) (h : list kop) : list key :=
  ghost local K (kflat local K (kad_empty (length local)) h).
