(* C14 — lemmas about the routing-table model. *)
From Coq Require Import List Bool Arith Lia Permutation Sorted.
From V.C14 Require Import Model.
Import ListNotations.

(* ------------------------------------------------------------------ keys *)

Lemma kxor_length : forall a b, length (kxor a b) = Nat.min (length a) (length b).
Proof.
  induction a as [|x a IH]; intros [|y b]; simpl; auto.
Qed.

Lemma key_eqb_eq : forall a b, key_eqb a b = true <-> a = b.
Proof.
  induction a as [|x a IH]; intros [|y b]; simpl; split; intro H; try discriminate; auto.
  - apply andb_true_iff in H. destruct H as [H1 H2]. apply eqb_prop in H1. apply IH in H2. congruence.
  - inversion H; subst. rewrite eqb_reflx. simpl. apply IH. reflexivity.
Qed.

Lemma key_eqb_refl : forall a, key_eqb a a = true.
Proof. intro a. apply key_eqb_eq. reflexivity. Qed.

Lemma klt_irrefl : forall a, klt a a = false.
Proof. induction a as [|x a IH]; simpl; auto. rewrite eqb_reflx. exact IH. Qed.

Lemma klt_trans : forall a b c, klt a b = true -> klt b c = true -> klt a c = true.
Proof.
  induction a as [|x a IH]; intros [|y b] [|z c]; simpl; intros H1 H2; try discriminate.
  destruct x, y, z; simpl in *; try discriminate; auto; eapply IH; eauto.
Qed.

Lemma klt_total : forall a b, length a = length b -> a <> b -> klt a b = true \/ klt b a = true.
Proof.
  induction a as [|x a IH]; intros [|y b] Hl Hn; simpl in *; try discriminate.
  - congruence.
  - destruct x, y; simpl; auto; apply IH; try lia; congruence.
Qed.

Lemma kxor_inj : forall t a b, length t = length a -> length t = length b ->
  kxor t a = kxor t b -> a = b.
Proof.
  induction t as [|x t IH]; intros [|y a] [|z b] Ha Hb H; simpl in *; try discriminate; auto.
  inversion H. f_equal.
  - destruct x, y, z; simpl in *; congruence.
  - apply IH; auto.
Qed.

(* (l xor a) xor (l xor t) = t xor a *)
Lemma kxor_shuffle : forall l a t, length l = length a -> length l = length t ->
  kxor (kxor l a) (kxor l t) = kxor t a.
Proof.
  induction l as [|x l IH]; intros [|y a] [|z t] Ha Ht; simpl in *; try discriminate; auto.
  f_equal.
  - destruct x, y, z; reflexivity.
  - apply IH; lia.
Qed.

Lemma ilog2_lt : forall d i, ilog2 d = Some i -> i < length d.
Proof.
  induction d as [|b d IH]; simpl; intros i H; try discriminate.
  destruct b.
  - inversion H. lia.
  - apply IH in H. lia.
Qed.

Lemma kxor_self_ilog2 : forall a, ilog2 (kxor a a) = None.
Proof. induction a as [|x a IH]; simpl; auto. rewrite xorb_nilpotent. exact IH. Qed.

Lemma bit_cons : forall b d j,
  bit (rev (b :: d)) j =
  if j <? length d then bit (rev d) j else if j =? length d then b else false.
Proof.
  intros b d j. unfold bit. simpl.
  destruct (j <? length d) eqn:E1.
  - apply Nat.ltb_lt in E1. apply app_nth1. rewrite rev_length. exact E1.
  - apply Nat.ltb_ge in E1. rewrite app_nth2 by (rewrite rev_length; exact E1).
    rewrite rev_length.
    destruct (j =? length d) eqn:E2.
    + apply Nat.eqb_eq in E2. subst. rewrite Nat.sub_diag. reflexivity.
    + apply Nat.eqb_neq in E2. destruct (j - length d) as [|m] eqn:E3; [lia|].
      simpl. destruct m; reflexivity.
Qed.

Lemma bit_overflow : forall r j, length r <= j -> bit r j = false.
Proof. intros. unfold bit. apply nth_overflow. assumption. Qed.

Lemma ilog2_bits : forall d i, ilog2 d = Some i ->
  bit (rev d) i = true /\ forall j, i < j -> bit (rev d) j = false.
Proof.
  induction d as [|b d IH]; simpl ilog2; intros i H; try discriminate.
  destruct b.
  - inversion H; subst. split.
    + rewrite bit_cons. rewrite Nat.ltb_irrefl, Nat.eqb_refl. reflexivity.
    + intros j Hj. apply bit_overflow. rewrite rev_length. simpl. lia.
  - pose proof (ilog2_lt _ _ H) as Hlt. destruct (IH _ H) as [H1 H2]. split.
    + rewrite bit_cons. apply Nat.ltb_lt in Hlt. rewrite Hlt. exact H1.
    + intros j Hj. rewrite bit_cons.
      destruct (j <? length d) eqn:E1; [apply H2; exact Hj|].
      destruct (j =? length d); reflexivity.
Qed.

Lemma ilog2_none_bits : forall d, ilog2 d = None -> forall j, bit (rev d) j = false.
Proof.
  induction d as [|b d IH]; simpl ilog2; intros H j.
  - unfold bit. simpl. destruct j; reflexivity.
  - destruct b; try discriminate. rewrite bit_cons.
    destruct (j <? length d); [apply IH; exact H|]. destruct (j =? length d); reflexivity.
Qed.

(* ------------------------------------------------------------------ bucket order vs key order *)

(* bucket i is visited before bucket j *)
Definition before (r : list bool) (i j : nat) : bool :=
  ((j <? i) && bit r i) || ((i <? j) && negb (bit r j)).

(* the lemma behind the zoom-in / zoom-out order: with d = distance(local, target), a key whose
   distance from local has its top bit at i is closer to the target than one with top bit j
   whenever i is "before" j *)
Lemma order_key : forall d ea eb i j,
  length ea = length d -> length eb = length d ->
  ilog2 ea = Some i -> ilog2 eb = Some j -> before (rev d) i j = true ->
  klt (kxor ea d) (kxor eb d) = true.
Proof.
  induction d as [|b d IH]; intros [|x ea] [|y eb] i j Ha Hb Hi Hj;
    simpl in Ha, Hb, Hi, Hj; try discriminate.
  intro Hbf. unfold before in Hbf. cbn [kxor klt].
  destruct x, y; simpl in Hi, Hj; cbn [xorb].
  - inversion Hi; inversion Hj; subst.
    assert (length ea = length eb) as E by lia. rewrite E in Hbf.
    rewrite Nat.ltb_irrefl in Hbf. cbn [andb orb] in Hbf. discriminate.
  - inversion Hi; subst. apply ilog2_lt in Hj.
    assert (Hji : j <? length ea = true) by (apply Nat.ltb_lt; lia).
    assert (Hij : length ea <? j = false) by (apply Nat.ltb_ge; lia).
    rewrite Hji, Hij in Hbf. cbn [andb orb] in Hbf. rewrite orb_false_r in Hbf.
    rewrite bit_cons in Hbf.
    assert (E : length ea <? length d = false) by (apply Nat.ltb_ge; lia). rewrite E in Hbf.
    assert (E2 : length ea =? length d = true) by (apply Nat.eqb_eq; lia). rewrite E2 in Hbf.
    subst b. reflexivity.
  - inversion Hj; subst. apply ilog2_lt in Hi.
    assert (Hji : length eb <? i = false) by (apply Nat.ltb_ge; lia).
    assert (Hij : i <? length eb = true) by (apply Nat.ltb_lt; lia).
    rewrite Hji, Hij in Hbf. cbn [andb orb] in Hbf.
    rewrite bit_cons in Hbf.
    assert (E : length eb <? length d = false) by (apply Nat.ltb_ge; lia). rewrite E in Hbf.
    assert (E2 : length eb =? length d = true) by (apply Nat.eqb_eq; lia). rewrite E2 in Hbf.
    destruct b; simpl in Hbf; try discriminate. reflexivity.
  - rewrite eqb_reflx.
    pose proof (ilog2_lt _ _ Hi) as Li. pose proof (ilog2_lt _ _ Hj) as Lj.
    apply (IH ea eb i j); try lia; auto.
    unfold before. rewrite !bit_cons in Hbf.
    assert (E1 : i <? length d = true) by (apply Nat.ltb_lt; lia).
    assert (E2 : j <? length d = true) by (apply Nat.ltb_lt; lia).
    rewrite E1, E2 in Hbf. exact Hbf.
Qed.

Lemma bucket_order_keys : forall local tgt a b i j,
  length a = length local -> length b = length local -> length tgt = length local ->
  ilog2 (kxor local a) = Some i -> ilog2 (kxor local b) = Some j ->
  before (rev (kxor local tgt)) i j = true ->
  klt (kxor tgt a) (kxor tgt b) = true.
Proof.
  intros local tgt a b i j Ha Hb Ht Hi Hj Hbf.
  rewrite <- (kxor_shuffle local a tgt) by lia.
  rewrite <- (kxor_shuffle local b tgt) by lia.
  apply (order_key (kxor local tgt) (kxor local a) (kxor local b) i j); auto;
    rewrite !kxor_length; lia.
Qed.

(* ------------------------------------------------------------------ the iterator *)

Section Iter.
Variable r : list bool.
Let L := length r.
Let nb := fun j => negb (bit r j).

Lemma it_run_same : forall s s' fuel, it_next r s = it_next r s' ->
  it_run (it_next r) s fuel = it_run (it_next r) s' fuel.
Proof. intros s s' [|f] H; simpl; [reflexivity|]. rewrite H. reflexivity. Qed.

Lemma zo_run_gen : forall n j fuel i, j + n = L -> n < fuel -> next_out r i = find_clear r j n ->
  it_run (it_next r) (ZoomOut i) fuel = filter nb (seq j n).
Proof.
  induction n as [|n IH]; intros j fuel i HL Hf Hn.
  - destruct fuel as [|f]; [lia|]. simpl. unfold zoom_out_step. rewrite Hn. reflexivity.
  - destruct fuel as [|f]; [lia|]. simpl find_clear in Hn. simpl seq. simpl filter. unfold nb at 1.
    destruct (bit r j) eqn:Eb; simpl negb; cbv iota.
    + apply (IH (S j) (S f) i); try lia. exact Hn.
    + simpl it_run. unfold zoom_out_step. rewrite Hn. f_equal.
      apply (IH (S j) f j); try lia.
      unfold next_out. fold L. f_equal. lia.
Qed.

Lemma zo_run : forall i fuel, S i <= L -> L < fuel + S i ->
  it_run (it_next r) (ZoomOut i) fuel = filter nb (seq (S i) (L - S i)).
Proof.
  intros i fuel Hi Hf. apply zo_run_gen; try lia. reflexivity.
Qed.

Lemma zi_run : forall i fuel, 1 <= L -> i + L + 1 < fuel ->
  it_run (it_next r) (ZoomIn i) fuel =
  filter (bit r) (rev (seq 0 i)) ++ 0 :: filter nb (seq 1 (L - 1)).
Proof.
  induction i as [|i IH]; intros fuel HL Hf.
  - destruct fuel as [|f]; [lia|]. simpl. f_equal. apply zo_run; lia.
  - rewrite seq_S, rev_app_distr. simpl rev. simpl app. simpl filter.
    destruct (bit r i) eqn:Eb.
    + destruct fuel as [|f]; [lia|]. simpl it_run. rewrite Eb. simpl. f_equal. apply IH; lia.
    + rewrite <- (IH fuel) by lia. apply it_run_same. simpl. rewrite Eb. reflexivity.
Qed.

End Iter.

(* the order in which the repaired iterator would visit: set bits downwards, then clear bits upwards *)
Definition visit (r : list bool) : list nat :=
  filter (bit r) (rev (seq 0 (length r))) ++ filter (fun j => negb (bit r j)) (seq 0 (length r)).

Lemma bucket_order_eq : forall d, 1 <= length d ->
  bucket_order d =
  let i0 := match ilog2 d with Some i => i | None => 0 end in
  i0 :: filter (bit (rev d)) (rev (seq 0 i0)) ++
        0 :: filter (fun j => negb (bit (rev d) j)) (seq 1 (length d - 1)).
Proof.
  intros d HL. unfold bucket_order, it_init. cbv zeta.
  set (i0 := match ilog2 d with Some i => i | None => 0 end).
  assert (Hi0 : i0 < length d).
  { unfold i0. destruct (ilog2 d) eqn:E; [apply ilog2_lt; exact E | lia]. }
  replace (2 * length d + 3) with (S (2 * length d + 2)) by lia.
  simpl it_run. f_equal.
  rewrite zi_run; rewrite rev_length; try lia. reflexivity.
Qed.

Lemma seq_split_at : forall i n, i < n -> seq 0 n = seq 0 i ++ i :: seq (S i) (n - S i).
Proof.
  intros i n H. replace n with (i + S (n - S i)) at 1 by lia.
  rewrite seq_app. simpl. reflexivity.
Qed.

Lemma filter_nil_all : forall {A} (p : A -> bool) l, (forall x, In x l -> p x = false) -> filter p l = [].
Proof.
  induction l as [|x l IH]; simpl; intros H; auto.
  rewrite (H x) by auto. apply IH. intros; apply H; auto.
Qed.

Lemma set_bits_top : forall d i0, ilog2 d = Some i0 ->
  filter (bit (rev d)) (rev (seq 0 (length d))) = i0 :: filter (bit (rev d)) (rev (seq 0 i0)).
Proof.
  intros d i0 H. pose proof (ilog2_lt _ _ H) as Hlt. destruct (ilog2_bits _ _ H) as [H1 H2].
  rewrite (seq_split_at i0 (length d)) by exact Hlt.
  rewrite rev_app_distr. simpl rev. rewrite <- app_assoc. simpl app.
  rewrite filter_app. rewrite filter_nil_all.
  - simpl. rewrite H1. reflexivity.
  - intros x Hx. apply in_rev in Hx. apply in_seq in Hx. apply H2. lia.
Qed.

(* Shape of the real visiting order: it is `visit` with, possibly, one extra 0 — and no extra 0
   when bit 0 of the distance is clear and the distance is not zero. *)
Lemma order_shape : forall d, 1 <= length d ->
  exists S C, visit (rev d) = S ++ C /\
    (bucket_order d = S ++ C \/ bucket_order d = S ++ 0 :: C) /\
    (bit (rev d) 0 = false -> ilog2 d <> None -> bucket_order d = S ++ C).
Proof.
  intros d HL. rewrite bucket_order_eq by exact HL. cbv zeta. unfold visit. rewrite rev_length.
  assert (Hseq : seq 0 (length d) = 0 :: seq 1 (length d - 1)).
  { destruct (length d) as [|n]; [lia|]. simpl. rewrite Nat.sub_0_r. reflexivity. }
  destruct (ilog2 d) as [i0|] eqn:E.
  - rewrite (set_bits_top d i0 E). rewrite Hseq. simpl filter.
    destruct (bit (rev d) 0) eqn:B0; simpl negb; cbv iota.
    + exists (i0 :: filter (bit (rev d)) (rev (seq 0 i0))),
             (filter (fun j => negb (bit (rev d) j)) (seq 1 (length d - 1))).
      split; [reflexivity|]. split; [right; reflexivity|]. intros; discriminate.
    + exists (i0 :: filter (bit (rev d)) (rev (seq 0 i0))),
             (0 :: filter (fun j => negb (bit (rev d) j)) (seq 1 (length d - 1))).
      split; [reflexivity|]. split; [left; reflexivity|]. intros; reflexivity.
  - pose proof (ilog2_none_bits d E) as Hz.
    rewrite (filter_nil_all (bit (rev d))) by (intros; apply Hz).
    rewrite Hseq. simpl filter. rewrite Hz. simpl.
    exists [0], (filter (fun j => negb (bit (rev d) j)) (seq 1 (length d - 1))).
    split; [reflexivity|]. split; [right; reflexivity|]. intros _ H. congruence.
Qed.

(* ------------------------------------------------------------------ visit: permutation, sortedness *)

Lemma perm_filter_split : forall {A} (p : A -> bool) l,
  Permutation (filter p l ++ filter (fun x => negb (p x)) l) l.
Proof.
  induction l as [|a l IH]; simpl; auto.
  destruct (p a); simpl.
  - constructor. exact IH.
  - apply Permutation_sym. apply Permutation_cons_app. apply Permutation_sym. exact IH.
Qed.

Lemma perm_filter : forall {A} (p : A -> bool) l l',
  Permutation l l' -> Permutation (filter p l) (filter p l').
Proof.
  induction 1; simpl.
  - constructor.
  - destruct (p x); auto.
  - destruct (p x), (p y); auto. constructor.
  - eapply perm_trans; eauto.
Qed.

Lemma visit_perm : forall r, Permutation (visit r) (seq 0 (length r)).
Proof.
  intro r. unfold visit.
  eapply perm_trans; [|apply (perm_filter_split (bit r))].
  apply Permutation_app_tail. apply perm_filter. apply Permutation_sym. apply Permutation_rev.
Qed.

Lemma SS_app : forall {A} (R : A -> A -> Prop) l1 l2,
  StronglySorted R l1 -> StronglySorted R l2 -> (forall x y, In x l1 -> In y l2 -> R x y) ->
  StronglySorted R (l1 ++ l2).
Proof.
  induction l1 as [|a l1 IH]; simpl; intros l2 H1 H2 H; auto.
  inversion H1; subst. constructor.
  - apply IH; auto.
  - apply Forall_app. split; auto. apply Forall_forall. intros; apply H; auto.
Qed.

Lemma SS_filter : forall {A} (R R' : A -> A -> Prop) (p : A -> bool) l,
  StronglySorted R l -> (forall x y, R x y -> p x = true -> p y = true -> R' x y) ->
  StronglySorted R' (filter p l).
Proof.
  induction 1 as [|a l Hs IH Hf]; simpl; intros HR; [constructor|].
  destruct (p a) eqn:E; [|apply IH; exact HR].
  constructor; [apply IH; exact HR|].
  apply Forall_forall. intros y Hy. apply filter_In in Hy. destruct Hy as [Hy Py].
  apply HR; auto. rewrite Forall_forall in Hf. apply Hf. exact Hy.
Qed.

Lemma SS_seq : forall n s, StronglySorted lt (seq s n).
Proof.
  induction n as [|n IH]; intro s; simpl; constructor; auto.
  apply Forall_forall. intros x Hx. apply in_seq in Hx. lia.
Qed.

Lemma SS_rev_seq : forall n, StronglySorted gt (rev (seq 0 n)).
Proof.
  induction n as [|n IH]; [constructor|].
  rewrite seq_S, rev_app_distr. simpl. constructor; auto.
  apply Forall_forall. intros x Hx. apply in_rev in Hx. apply in_seq in Hx. lia.
Qed.

Lemma visit_sorted : forall r, StronglySorted (fun i j => before r i j = true) (visit r).
Proof.
  intro r. unfold visit. apply SS_app.
  - apply (SS_filter gt _ _ _ (SS_rev_seq _)). intros x y Hxy Px Py. unfold before.
    assert (E : y <? x = true) by (apply Nat.ltb_lt; lia). rewrite E, Px. reflexivity.
  - apply (SS_filter lt _ _ _ (SS_seq _ _)). intros x y Hxy Px Py. unfold before.
    assert (E : x <? y = true) by (apply Nat.ltb_lt; lia). rewrite E, Py. apply orb_true_r.
  - intros x y Hx Hy. apply filter_In in Hx. apply filter_In in Hy.
    destruct Hx as [_ Px]. destruct Hy as [_ Py]. unfold before. rewrite Px, Py. simpl.
    rewrite !andb_true_r.
    destruct (y <? x) eqn:E1; [reflexivity|]. simpl. apply Nat.ltb_lt.
    apply Nat.ltb_ge in E1. destruct (Nat.eq_dec x y) as [->|Hne]; [|lia].
    rewrite Px in Py. discriminate.
Qed.

(* ------------------------------------------------------------------ buckets *)

Lemma split_first_some : forall {A} (p : A -> bool) l a y c,
  split_first p l = Some (a, y, c) ->
  l = a ++ y :: c /\ p y = true /\ Forall (fun x => p x = false) a.
Proof.
  induction l as [|x l IH]; simpl; intros a y c H; [discriminate|].
  destruct (p x) eqn:E.
  - inversion H; subst. auto.
  - destruct (split_first p l) as [[[a' y'] c']|] eqn:E2; [|discriminate].
    inversion H; subst. destruct (IH _ _ _ eq_refl) as [H1 [H2 H3]]. subst l. auto.
Qed.

Lemma split_first_none : forall {A} (p : A -> bool) l,
  split_first p l = None -> Forall (fun x => p x = false) l.
Proof.
  induction l as [|x l IH]; simpl; intros H; [constructor|].
  destruct (p x) eqn:E; [discriminate|].
  destruct (split_first p l) as [[[a' y'] c']|]; [discriminate|]. constructor; auto.
Qed.

Definition real (n : node) : bool := match n_key n with [] => false | _ => true end.

(* a stored node is either the address-less dummy or a peer whose key belongs to bucket i *)
Definition node_ok (local : key) (i : nat) (n : node) : Prop :=
  (n_key n = [] /\ n_addr n = false) \/
  (length (n_key n) = length local /\ ilog2 (kxor local (n_key n)) = Some i).

Definition BInv (local : key) (K i : nat) (b : list node) : Prop :=
  length b <= K /\ Forall (node_ok local i) b /\ NoDup (map n_key (filter real b)).

Definition Inv (local : key) (K : nat) (t : table) : Prop :=
  length t = length local /\ forall i, i < length t -> BInv local K i (nth i t []).

Lemma in_map_filter : forall {A B} (f : A -> B) p l x, In x (map f (filter p l)) -> In x (map f l).
Proof.
  intros A B f p l x H. apply in_map_iff in H. destruct H as [y [H1 H2]].
  apply filter_In in H2. apply in_map_iff. exists y. tauto.
Qed.

Lemma nodup_replace : forall a (y n' : node) c,
  NoDup (map n_key (filter real (a ++ y :: c))) ->
  (real n' = true -> ~ In (n_key n') (map n_key (a ++ c))) ->
  NoDup (map n_key (filter real (a ++ n' :: c))).
Proof.
  intros a y n' c H Hn. rewrite filter_app, map_app in H. rewrite filter_app, map_app. simpl in *.
  assert (H0 : NoDup (map n_key (filter real a) ++ map n_key (filter real c))).
  { destruct (real y); simpl in H; [apply NoDup_remove_1 in H|]; exact H. }
  destruct (real n') eqn:E; simpl; [|exact H0].
  eapply Permutation_NoDup; [apply Permutation_middle|].
  constructor; [|exact H0].
  intro Hin. apply (Hn eq_refl). rewrite map_app. apply in_app_iff.
  apply in_app_iff in Hin. destruct Hin as [Hin|Hin]; [left|right]; eapply in_map_filter; eauto.
Qed.

Lemma binv_replace : forall local K i a y n' c,
  BInv local K i (a ++ y :: c) -> node_ok local i n' ->
  (real n' = true -> ~ In (n_key n') (map n_key (a ++ c))) ->
  BInv local K i (a ++ n' :: c).
Proof.
  intros local K i a y n' c [H1 [H2 H3]] Hok Hn. split; [|split].
  - rewrite app_length in *. simpl in *. exact H1.
  - apply Forall_app in H2. destruct H2 as [Ha Hc]. inversion Hc; subst.
    apply Forall_app. split; auto.
  - eapply nodup_replace; eauto.
Qed.

Lemma binv_same_key : forall local K i a y y' c,
  BInv local K i (a ++ y :: c) -> n_key y' = n_key y -> real y = true ->
  BInv local K i (a ++ y' :: c).
Proof.
  intros local K i a y y' c H Hk Hr. pose proof H as [H1 [H2 H3]].
  apply (binv_replace local K i a y y' c H).
  - apply Forall_app in H2. destruct H2 as [_ Hc]. inversion Hc as [|? ? Hy _]; subst.
    unfold node_ok in *. rewrite Hk. destruct Hy as [[Hy _]|Hy]; [|right; exact Hy].
    unfold real in Hr. rewrite Hy in Hr. discriminate.
  - intros _ Hin. rewrite Hk in Hin.
    rewrite filter_app, map_app in H3. simpl in H3. rewrite Hr in H3. simpl in H3.
    apply NoDup_remove_2 in H3. apply H3.
    rewrite map_app in Hin. apply in_app_iff in Hin. apply in_app_iff.
    assert (Hreal : forall l, In (n_key y) (map n_key l) -> In (n_key y) (map n_key (filter real l))).
    { intros l Hl. apply in_map_iff in Hl. destruct Hl as [z [Hz1 Hz2]].
      apply in_map_iff. exists z. split; auto. apply filter_In. split; auto.
      unfold real in *. rewrite Hz1. exact Hr. }
    destruct Hin as [Hin|Hin]; [left|right]; apply Hreal; exact Hin.
Qed.

Lemma binv_push : forall local K i b n',
  BInv local K i b -> length b < K -> node_ok local i n' ->
  (real n' = true -> ~ In (n_key n') (map n_key b)) ->
  BInv local K i (b ++ [n']).
Proof.
  intros local K i b n' [H1 [H2 H3]] Hl Hok Hn. split; [|split].
  - rewrite app_length. simpl. lia.
  - apply Forall_app. split; auto.
  - rewrite filter_app, map_app. simpl. destruct (real n') eqn:E; simpl.
    + eapply Permutation_NoDup; [apply Permutation_cons_append|].
      constructor; auto. intro Hin. apply (Hn eq_refl). eapply in_map_filter; eauto.
    + rewrite app_nil_r. exact H3.
Qed.

Lemma not_has_key : forall k l, Forall (fun x => has_key k x = false) l -> ~ In k (map n_key l).
Proof.
  intros k l H Hin. apply in_map_iff in Hin. destruct Hin as [x [Hx Hin]].
  rewrite Forall_forall in H. specialize (H x Hin). unfold has_key in H.
  rewrite Hx, key_eqb_refl in H. discriminate.
Qed.

Lemma placeholder_ok : forall local i, node_ok local i placeholder.
Proof. intros. left. split; reflexivity. Qed.

(* what any operation does to its bucket preserves the bucket invariant *)
Lemma apply_slot_binv : forall local K i b o,
  BInv local K i b -> length (op_key o) = length local ->
  ilog2 (kxor local (op_key o)) = Some i ->
  BInv local K i (apply_slot o b (bucket_entry K b (op_key o))).
Proof.
  intros local K i b o HB Hlen Hidx.
  set (k := op_key o) in *.
  assert (Hk : forall a c, node_ok local i (mkNode k a c)) by (intros; right; simpl; auto).
  assert (Hkne : k <> []).
  { intro E. rewrite E in Hidx. destruct local; simpl in Hidx; discriminate. }
  unfold bucket_entry.
  destruct (split_first (has_key k) b) as [[[a y] c]|] eqn:E1.
  - apply split_first_some in E1. destruct E1 as [Eb [Hy _]]. subst b.
    unfold has_key in Hy. apply key_eqb_eq in Hy.
    assert (Hr : real y = true).
    { unfold real. rewrite Hy. destruct k; [congruence|reflexivity]. }
    destruct o; simpl; try exact HB; apply (binv_same_key local K i a y _ c HB); auto.
  - apply split_first_none in E1. pose proof (not_has_key _ _ E1) as Hnk.
    destruct (length b <? K) eqn:E2.
    + apply Nat.ltb_lt in E2.
      destruct o; simpl; apply binv_push; auto using placeholder_ok; simpl; intros; try discriminate;
        exact Hnk.
    + destruct (split_first replaceable b) as [[[a y] c]|] eqn:E3.
      * apply split_first_some in E3. destruct E3 as [Eb _]. subst b.
        assert (Hnk' : ~ In k (map n_key (a ++ c))).
        { intro Hin. apply Hnk. rewrite map_app in *. simpl. apply in_app_iff in Hin.
          apply in_app_iff. destruct Hin; [left|right; right]; assumption. }
        destruct o; simpl; try exact HB; apply (binv_replace local K i a y _ c HB); auto.
      * destruct o; simpl; exact HB.
Qed.

(* connected peers other than the one operated on stay in the bucket *)
Definition protected (n : node) : bool :=
  match n_conn n with Connected | CanConnect => true | _ => false end.

Lemma apply_slot_keeps : forall K b o n,
  In n b -> protected n = true -> n_key n <> op_key o ->
  In n (apply_slot o b (bucket_entry K b (op_key o))).
Proof.
  intros K b o n Hin Hp Hne.
  set (k := op_key o) in *.
  assert (Hmid : forall a y y' c, In n (a ++ y :: c) -> n <> y -> In n (a ++ y' :: c)).
  { intros a y y' c H Hny. apply in_app_iff in H. apply in_app_iff.
    destruct H as [H|[H|H]]; [left; exact H|congruence|right; right; exact H]. }
  unfold bucket_entry.
  destruct (split_first (has_key k) b) as [[[a y] c]|] eqn:E1.
  - apply split_first_some in E1. destruct E1 as [Eb [Hy _]]. subst b.
    unfold has_key in Hy. apply key_eqb_eq in Hy.
    assert (n <> y) by congruence.
    destruct o; simpl; try exact Hin; eapply Hmid; eauto.
  - destruct (length b <? K).
    + destruct o; simpl; apply in_app_iff; left; exact Hin.
    + destruct (split_first replaceable b) as [[[a y] c]|] eqn:E3.
      * apply split_first_some in E3. destruct E3 as [Eb [Hy _]]. subst b.
        assert (n <> y).
        { intro E. subst y. unfold replaceable in Hy. unfold protected in Hp.
          destruct (n_conn n); discriminate. }
        destruct o; simpl; try exact Hin; eapply Hmid; eauto.
      * destruct o; simpl; exact Hin.
Qed.

(* ------------------------------------------------------------------ table *)

Lemma upd_nth_length : forall {A} i (x : A) l, length (upd_nth i x l) = length l.
Proof. intros A i x l. revert i. induction l as [|h l IH]; intros [|i]; simpl; auto. Qed.

Lemma nth_upd_same : forall {A} i (x : A) l d, i < length l -> nth i (upd_nth i x l) d = x.
Proof.
  intros A i x l d. revert i. induction l as [|h l IH]; intros [|i] H; simpl in *; try lia; auto.
  apply IH. lia.
Qed.

Lemma nth_upd_other : forall {A} i j (x : A) l d, j <> i -> nth j (upd_nth i x l) d = nth j l d.
Proof.
  intros A i j x l d. revert i j. induction l as [|h l IH]; intros [|i] [|j] H; simpl; auto; try lia.
Qed.

Lemma nth_repeat_nil : forall {A} n i, nth i (repeat (@nil A) n) [] = [].
Proof. induction n as [|n IH]; intros [|i]; simpl; auto. Qed.

Lemma empty_inv : forall local K, Inv local K (empty_table (length local)).
Proof.
  intros local K. split.
  - unfold empty_table. apply repeat_length.
  - intros i _. unfold empty_table. rewrite nth_repeat_nil.
    split; [simpl; lia|]. split; constructor.
Qed.

Lemma step_cases : forall local K t o,
  fst (step local K t o) = t \/
  exists i, ilog2 (kxor local (op_key o)) = Some i /\
    fst (step local K t o) =
    upd_nth i (apply_slot o (nth i t []) (bucket_entry K (nth i t []) (op_key o))) t.
Proof.
  intros local K t o. unfold step, step_gen. fold apply_slot.
  destruct (ilog2 (kxor local (op_key o))) as [i|] eqn:E.
  - destruct o as [| | k [|] c | | |]; simpl in *; rewrite ?E; simpl; auto; right; exists i; auto.
  - left. destruct o as [| | k [|] c | | |]; simpl in *; rewrite ?E; reflexivity.
Qed.

Lemma step_inv : forall local K t o,
  Inv local K t -> length (op_key o) = length local -> Inv local K (fst (step local K t o)).
Proof.
  intros local K t o [HL HB] Hlen.
  destruct (step_cases local K t o) as [E|[i [Hi E]]]; rewrite E; [split; assumption|].
  assert (Hlt : i < length t).
  { apply ilog2_lt in Hi. rewrite kxor_length in Hi. lia. }
  split; [rewrite upd_nth_length; exact HL|].
  intros j Hj. rewrite upd_nth_length in Hj.
  destruct (Nat.eq_dec j i) as [->|Hne].
  - rewrite nth_upd_same by exact Hlt. apply apply_slot_binv; auto.
  - rewrite nth_upd_other by exact Hne. apply HB. exact Hj.
Qed.

Lemma run_inv : forall local K h t,
  Inv local K t -> Forall (fun o => length (op_key o) = length local) h ->
  Inv local K (run local K t h).
Proof.
  induction h as [|o h IH]; simpl; intros t HI HF; auto.
  inversion HF; subst. apply IH; auto. apply step_inv; auto.
Qed.

Lemma step_keeps : forall local K t o j n,
  In n (nth j t []) -> protected n = true -> n_key n <> op_key o ->
  In n (nth j (fst (step local K t o)) []).
Proof.
  intros local K t o j n Hin Hp Hne.
  destruct (step_cases local K t o) as [E|[i [Hi E]]]; rewrite E; [exact Hin|].
  destruct (Nat.eq_dec j i) as [->|Hji].
  - assert (Hlt : i < length t).
    { destruct (Nat.lt_ge_cases i (length t)) as [H|H]; auto.
      rewrite nth_overflow in Hin by exact H. destruct Hin. }
    rewrite nth_upd_same by exact Hlt. apply apply_slot_keeps; auto.
  - rewrite nth_upd_other by exact Hji. exact Hin.
Qed.

Lemma step_local : forall local K t o,
  op_key o = local -> fst (step local K t o) = t /\
  (snd (snd (step local K t o)) = 0 \/ snd (snd (step local K t o)) = 4).
Proof.
  intros local K t o E. unfold step, step_gen. rewrite E. rewrite kxor_self_ilog2.
  destruct o as [| | k [|] c | | |]; simpl; auto.
Qed.

(* ------------------------------------------------------------------ closest *)

Definition dlt (tgt : key) (a b : node) : Prop :=
  klt (kxor tgt (n_key a)) (kxor tgt (n_key b)) = true.

Lemma ins_perm : forall tgt x l, Permutation (ins tgt x l) (x :: l).
Proof.
  induction l as [|h l IH]; simpl; auto.
  destruct (klt (kxor tgt (n_key h)) (kxor tgt (n_key x))); auto.
  eapply perm_trans; [apply perm_skip; exact IH | apply perm_swap].
Qed.

Lemma sort_perm : forall tgt l, Permutation (sort_by_dist tgt l) l.
Proof.
  induction l as [|x l IH]; simpl; auto.
  eapply perm_trans; [apply ins_perm | constructor; exact IH].
Qed.

Lemma ins_sorted : forall tgt x l,
  StronglySorted (dlt tgt) l -> (forall y, In y l -> dlt tgt x y \/ dlt tgt y x) ->
  StronglySorted (dlt tgt) (ins tgt x l).
Proof.
  induction l as [|h l IH]; simpl; intros Hs Ht.
  - constructor; constructor.
  - inversion Hs as [|? ? Hs' Hf]; subst.
    destruct (klt (kxor tgt (n_key h)) (kxor tgt (n_key x))) eqn:E.
    + constructor; [apply IH; auto|].
      apply Forall_forall. intros y Hy. apply (Permutation_in _ (ins_perm tgt x l)) in Hy.
      destruct Hy as [<-|Hy]; [exact E|]. rewrite Forall_forall in Hf. apply Hf. exact Hy.
    + constructor; [exact Hs|]. constructor.
      * destruct (Ht h (or_introl eq_refl)) as [H|H]; [exact H|]. unfold dlt in H. congruence.
      * apply Forall_forall. intros y Hy. rewrite Forall_forall in Hf.
        destruct (Ht h (or_introl eq_refl)) as [H|H]; [|unfold dlt in H; congruence].
        unfold dlt in *. eapply klt_trans; [exact H|]. apply Hf. exact Hy.
Qed.

Lemma sort_sorted : forall tgt l,
  (forall x y, In x l -> In y l -> n_key x <> n_key y -> dlt tgt x y \/ dlt tgt y x) ->
  NoDup (map n_key l) -> StronglySorted (dlt tgt) (sort_by_dist tgt l).
Proof.
  induction l as [|a l IH]; simpl; intros Ht Hnd; [constructor|].
  inversion Hnd as [|? ? Hna Hnd']; subst. apply ins_sorted.
  - apply IH; auto.
  - intros y Hy. apply (Permutation_in _ (sort_perm tgt l)) in Hy. apply Ht; auto.
    intro E. apply Hna. rewrite E. apply in_map. exact Hy.
Qed.

Lemma binv_addr : forall local K i b n, BInv local K i b -> In n b -> n_addr n = true ->
  length (n_key n) = length local /\ ilog2 (kxor local (n_key n)) = Some i.
Proof.
  intros local K i b n [_ [H _]] Hin Ha. rewrite Forall_forall in H.
  destruct (H n Hin) as [[_ E]|E]; [congruence|exact E].
Qed.

Lemma filter_filter_imp : forall {A} (p q : A -> bool) l,
  (forall x, In x l -> p x = true -> q x = true) -> filter p l = filter p (filter q l).
Proof.
  induction l as [|x l IH]; simpl; intros H; auto.
  destruct (p x) eqn:Ep.
  - rewrite (H x (or_introl eq_refl) Ep). simpl. rewrite Ep. f_equal. apply IH. intros; apply H; auto.
  - destruct (q x); simpl; rewrite ?Ep; apply IH; intros; apply H; auto.
Qed.

Lemma nodup_map_filter : forall {A B} (f : A -> B) p l, NoDup (map f l) -> NoDup (map f (filter p l)).
Proof.
  induction l as [|x l IH]; simpl; intros H; auto.
  inversion H; subst. destruct (p x); simpl; auto.
  constructor; auto. intro Hin. apply in_map_filter in Hin. contradiction.
Qed.

Lemma binv_addr_nodup : forall local K i b, BInv local K i b -> NoDup (map n_key (filter n_addr b)).
Proof.
  intros local K i b HB. pose proof HB as [_ [Hf Hn]].
  rewrite (filter_filter_imp n_addr real).
  - apply nodup_map_filter. exact Hn.
  - intros x Hx Ha. destruct (binv_addr _ _ _ _ _ HB Hx Ha) as [Hl Hi].
    unfold real. destruct (n_key x); [|reflexivity].
    destruct local; simpl in Hi; discriminate.
Qed.

Lemma bucket_closest_sorted : forall local K i b tgt,
  BInv local K i b -> length tgt = length local ->
  StronglySorted (dlt tgt) (bucket_closest tgt b).
Proof.
  intros local K i b tgt HB Ht. unfold bucket_closest. apply sort_sorted.
  - intros x y Hx Hy Hne. apply filter_In in Hx. apply filter_In in Hy.
    destruct (binv_addr _ _ _ _ _ HB (proj1 Hx) (proj2 Hx)) as [Lx _].
    destruct (binv_addr _ _ _ _ _ HB (proj1 Hy) (proj2 Hy)) as [Ly _].
    unfold dlt. apply klt_total.
    + rewrite !kxor_length. lia.
    + intro E. apply Hne. apply (kxor_inj tgt); auto; lia.
  - eapply binv_addr_nodup; eauto.
Qed.

Lemma SS_flat_map : forall {A B} (Rb : A -> A -> Prop) (R : B -> B -> Prop) (g : A -> list B) l,
  StronglySorted Rb l -> (forall i, In i l -> StronglySorted R (g i)) ->
  (forall i j x y, Rb i j -> In i l -> In j l -> In x (g i) -> In y (g j) -> R x y) ->
  StronglySorted R (flat_map g l).
Proof.
  induction 1 as [|a l Hs IH Hf]; simpl; intros Hg Hc; [constructor|].
  apply SS_app.
  - apply Hg. auto.
  - apply IH; [intros; apply Hg; auto|]. intros i j x y Hr Hi Hj. apply Hc; auto.
  - intros x y Hx Hy. apply in_flat_map in Hy. destruct Hy as [j [Hj Hy]].
    rewrite Forall_forall in Hf. apply (Hc a j); auto.
Qed.

Lemma flat_map_map : forall {A B C} (f : B -> list C) (g : A -> B) l,
  flat_map f (map g l) = flat_map (fun x => f (g x)) l.
Proof. induction l as [|x l IH]; simpl; congruence. Qed.

Lemma flat_map_nth_seq : forall {B} (h : list node -> list B) (t : table),
  flat_map (fun i => h (nth i t [])) (seq 0 (length t)) = flat_map h t.
Proof.
  induction t as [|a t IH]; simpl; auto.
  f_equal. rewrite <- seq_shift, flat_map_map. exact IH.
Qed.

Lemma perm_flat_map_pointwise : forall {A B} (f g : A -> list B) l,
  (forall x, Permutation (f x) (g x)) -> Permutation (flat_map f l) (flat_map g l).
Proof. induction l as [|x l IH]; simpl; intros H; auto using Permutation_app. Qed.

Lemma filter_concat : forall {A} (p : A -> bool) t, filter p (concat t) = flat_map (filter p) t.
Proof. induction t as [|a t IH]; simpl; auto. rewrite filter_app. congruence. Qed.

(* the list closest() would produce if every bucket were visited exactly once *)
Definition full_closest (local : key) (t : table) (tgt : key) : list node :=
  flat_map (fun i => bucket_closest tgt (nth i t [])) (visit (rev (kxor local tgt))).

Lemma visit_length_ok : forall local tgt, length tgt = length local ->
  length (rev (kxor local tgt)) = length local.
Proof. intros. rewrite rev_length, kxor_length. lia. Qed.

Lemma full_closest_perm : forall local K t tgt,
  Inv local K t -> length tgt = length local ->
  Permutation (full_closest local t tgt) (filter n_addr (concat t)).
Proof.
  intros local K t tgt [HL _] Ht. unfold full_closest.
  eapply perm_trans.
  { apply Permutation_flat_map. apply visit_perm. }
  rewrite visit_length_ok by exact Ht. rewrite <- HL.
  rewrite (flat_map_nth_seq (bucket_closest tgt)). rewrite filter_concat.
  apply perm_flat_map_pointwise. intro b. unfold bucket_closest. apply sort_perm.
Qed.

Lemma full_closest_sorted : forall local K t tgt,
  Inv local K t -> length tgt = length local ->
  StronglySorted (dlt tgt) (full_closest local t tgt).
Proof.
  intros local K t tgt [HL HB] Ht. unfold full_closest.
  assert (Hin : forall i, In i (visit (rev (kxor local tgt))) -> i < length t).
  { intros i Hi. apply (Permutation_in _ (visit_perm _)) in Hi. apply in_seq in Hi.
    rewrite visit_length_ok in Hi by exact Ht. lia. }
  eapply SS_flat_map; [apply visit_sorted| |].
  - intros i Hi. eapply bucket_closest_sorted; eauto.
  - intros i j x y Hb Hi Hj Hx Hy. simpl in Hb.
    unfold bucket_closest in Hx, Hy.
    apply (Permutation_in _ (sort_perm _ _)) in Hx. apply (Permutation_in _ (sort_perm _ _)) in Hy.
    apply filter_In in Hx. apply filter_In in Hy.
    destruct (binv_addr _ _ _ _ _ (HB i (Hin i Hi)) (proj1 Hx) (proj2 Hx)) as [Lx Ix].
    destruct (binv_addr _ _ _ _ _ (HB j (Hin j Hj)) (proj1 Hy) (proj2 Hy)) as [Ly Iy].
    unfold dlt. eapply bucket_order_keys; eauto.
Qed.

(* outside the class of finding F-C14a the real visiting order produces exactly full_closest *)
Definition outside_class (local : key) (t : table) (tgt : key) : Prop :=
  filter n_addr (nth 0 t []) = [] \/
  (bit (rev (kxor local tgt)) 0 = false /\ ilog2 (kxor local tgt) <> None).

Lemma all_closest_full : forall local t tgt,
  1 <= length local -> length tgt = length local -> outside_class local t tgt ->
  all_closest local t tgt = full_closest local t tgt.
Proof.
  intros local t tgt HL Ht Hc. unfold all_closest, full_closest.
  assert (Hd : 1 <= length (kxor local tgt)) by (rewrite kxor_length; lia).
  destruct (order_shape _ Hd) as [S [C [Hv [Ho Ho']]]]. rewrite Hv.
  destruct Hc as [Hc|[Hc1 Hc2]].
  - destruct Ho as [Ho|Ho]; rewrite Ho; [reflexivity|].
    rewrite !flat_map_app. simpl. unfold bucket_closest at 2. rewrite Hc. reflexivity.
  - rewrite (Ho' Hc1 Hc2). reflexivity.
Qed.

Lemma SS_firstn : forall {A} (R : A -> A -> Prop) k l, StronglySorted R l -> StronglySorted R (firstn k l).
Proof.
  induction k as [|k IH]; intros [|x l] H; simpl; try constructor.
  - inversion H; subst. apply IH; auto.
  - inversion H as [|? ? _ Hf]; subst. apply Forall_forall. intros y Hy.
    rewrite Forall_forall in Hf. apply Hf.
    rewrite <- (firstn_skipn k l). apply in_app_iff. left. exact Hy.
Qed.

Lemma SS_app_cross : forall {A} (R : A -> A -> Prop) l1 l2,
  StronglySorted R (l1 ++ l2) -> forall x y, In x l1 -> In y l2 -> R x y.
Proof.
  induction l1 as [|a l1 IH]; simpl; intros l2 H x y Hx Hy; [destruct Hx|].
  inversion H as [|? ? Hs Hf]; subst. destruct Hx as [<-|Hx].
  - rewrite Forall_forall in Hf. apply Hf. apply in_app_iff. auto.
  - eapply IH; eauto.
Qed.

Lemma dlt_irrefl : forall tgt a, ~ dlt tgt a a.
Proof. intros tgt a H. unfold dlt in H. rewrite klt_irrefl in H. discriminate. Qed.

Lemma SS_nodup : forall tgt l, StronglySorted (dlt tgt) l -> NoDup l.
Proof.
  induction 1 as [|a l Hs IH Hf]; constructor; auto.
  intro Hin. rewrite Forall_forall in Hf. apply (dlt_irrefl tgt a). apply Hf. exact Hin.
Qed.

Lemma SS_nodup_keys : forall tgt l, StronglySorted (dlt tgt) l -> NoDup (map n_key l).
Proof.
  induction 1 as [|a l Hs IH Hf]; simpl; constructor; auto.
  intro Hin. apply in_map_iff in Hin. destruct Hin as [b [E Hb]].
  rewrite Forall_forall in Hf. specialize (Hf b Hb). unfold dlt in Hf.
  rewrite E, klt_irrefl in Hf. discriminate.
Qed.

Lemma closest_spec : forall local K t tgt k,
  1 <= length local -> Inv local K t -> length tgt = length local -> outside_class local t tgt ->
  exists full,
    Permutation full (filter n_addr (concat t)) /\
    StronglySorted (dlt tgt) full /\
    closest local t tgt k = firstn k full.
Proof.
  intros local K t tgt k HL HI Ht Hc. exists (full_closest local t tgt).
  split; [eapply full_closest_perm; eauto|]. split; [eapply full_closest_sorted; eauto|].
  unfold closest. rewrite all_closest_full; auto.
Qed.

(* the consequences the property text names *)
Lemma closest_facts : forall local K t tgt k,
  1 <= length local -> Inv local K t -> length tgt = length local -> outside_class local t tgt ->
  let res := closest local t tgt k in
  let cands := filter n_addr (concat t) in
  StronglySorted (dlt tgt) res /\ NoDup (map n_key res) /\
  (forall n, In n res -> In n cands) /\
  length res = Nat.min k (length cands) /\
  (forall a b, In a res -> In b cands -> ~ In b res -> dlt tgt a b).
Proof.
  intros local K t tgt k HL HI Ht Hc res cands.
  destruct (closest_spec local K t tgt k HL HI Ht Hc) as [full [Hp [Hs E]]].
  subst res. rewrite E.
  split; [apply SS_firstn; exact Hs|].
  split; [apply (SS_nodup_keys tgt); apply SS_firstn; exact Hs|].
  split; [|split].
  - intros n Hn. apply (Permutation_in _ Hp). rewrite <- (firstn_skipn k full).
    apply in_app_iff. auto.
  - rewrite firstn_length. rewrite (Permutation_length Hp). reflexivity.
  - intros a b Ha Hb Hnb. apply (Permutation_in _ (Permutation_sym Hp)) in Hb.
    rewrite <- (firstn_skipn k full) in Hb, Hs. apply in_app_iff in Hb.
    destruct Hb as [Hb|Hb]; [contradiction|]. eapply SS_app_cross; eauto.
Qed.

(* ------------------------------------------------------------------ more on the visiting order *)

(* the fuel in Model.bucket_order is irrelevant: the iterator has stopped by then *)
Lemma bucket_order_fuel : forall d fuel, 1 <= length d -> 2 * length d + 3 <= fuel ->
  it_run (it_next (rev d)) (it_init d) fuel = bucket_order d.
Proof.
  intros d fuel HL Hf. rewrite bucket_order_eq by exact HL. cbv zeta. unfold it_init.
  set (i0 := match ilog2 d with Some i => i | None => 0 end).
  assert (Hi0 : i0 < length d).
  { unfold i0. destruct (ilog2 d) eqn:E; [apply ilog2_lt; exact E | lia]. }
  destruct fuel as [|f]; [lia|]. simpl it_run. f_equal.
  rewrite zi_run; rewrite rev_length; try lia. reflexivity.
Qed.

Lemma bucket_order_complete : forall d i, 1 <= length d ->
  (In i (bucket_order d) <-> i < length d).
Proof.
  intros d i HL. destruct (order_shape d HL) as [S [C [Hv [Ho _]]]].
  assert (Hvi : In i (S ++ C) <-> i < length d).
  { rewrite <- Hv. split; intro H.
    - apply (Permutation_in _ (visit_perm _)) in H. apply in_seq in H. rewrite rev_length in H. lia.
    - apply (Permutation_in _ (Permutation_sym (visit_perm _))). apply in_seq. rewrite rev_length. lia. }
  destruct Ho as [Ho|Ho]; rewrite Ho; [exact Hvi|].
  rewrite <- Hvi. rewrite !in_app_iff. simpl. split; [|tauto].
  intros [H|[H|H]]; auto. subst i. apply in_app_iff. apply Hvi. lia.
Qed.

Lemma bucket_order_good : forall d, 1 <= length d ->
  bit (rev d) 0 = false -> ilog2 d <> None ->
  Permutation (bucket_order d) (seq 0 (length d)) /\
  StronglySorted (fun i j => before (rev d) i j = true) (bucket_order d).
Proof.
  intros d HL H0 Hn. destruct (order_shape d HL) as [S [C [Hv [_ Ho]]]].
  rewrite (Ho H0 Hn), <- Hv. split.
  - rewrite <- (rev_length d). apply visit_perm.
  - apply visit_sorted.
Qed.

(* F-C14a, in general: bucket 0 is yielded twice exactly in this class *)
Lemma bucket_order_dup : forall d, 1 <= length d ->
  bit (rev d) 0 = true \/ ilog2 d = None -> ~ NoDup (bucket_order d).
Proof.
  intros d HL Hc Hnd. rewrite bucket_order_eq in Hnd by exact HL. cbv zeta in Hnd.
  rewrite app_comm_cons in Hnd. apply NoDup_remove_2 in Hnd. apply Hnd.
  apply in_app_iff. left.
  destruct (ilog2 d) as [i0|] eqn:E; [|left; reflexivity].
  destruct Hc as [Hc|Hc]; [|discriminate].
  destruct i0 as [|i0]; [left; reflexivity|]. right.
  apply filter_In. split; [|exact Hc]. apply in_rev. rewrite rev_involutive. apply in_seq. lia.
Qed.

(* ------------------------------------------------------------------ statements for Properties.v *)

Definition wf_ops (local : key) (h : list op) : Prop :=
  Forall (fun o => length (op_key o) = length local) h.

Definition reach (local : key) (K : nat) (h : list op) : table :=
  run local K (empty_table (length local)) h.

Lemma reach_inv : forall local K h, wf_ops local h -> Inv local K (reach local K h).
Proof. intros. apply run_inv; auto. apply empty_inv. Qed.

Lemma inv_nth : forall local K t i, Inv local K t -> BInv local K i (nth i t []).
Proof.
  intros local K t i [HL HB]. destruct (Nat.lt_ge_cases i (length t)) as [H|H]; [apply HB; exact H|].
  rewrite nth_overflow by exact H. split; [simpl; lia|]. split; constructor.
Qed.

Lemma inv_placement : forall local K t i n, Inv local K t ->
  In n (nth i t []) -> real n = true ->
  length (n_key n) = length local /\ ilog2 (kxor local (n_key n)) = Some i /\ n_key n <> local.
Proof.
  intros local K t i n HI Hin Hr. destruct (inv_nth local K t i HI) as [_ [Hf _]].
  rewrite Forall_forall in Hf. destruct (Hf n Hin) as [[E _]|[E1 E2]].
  - unfold real in Hr. rewrite E in Hr. discriminate.
  - split; auto. split; auto. intro E. rewrite E, kxor_self_ilog2 in E2. discriminate.
Qed.

Lemma inv_dummy : forall local K t i n, Inv local K t ->
  In n (nth i t []) -> real n = false -> n_key n = [] /\ n_addr n = false.
Proof.
  intros local K t i n HI Hin Hr. destruct (inv_nth local K t i HI) as [_ [Hf _]].
  rewrite Forall_forall in Hf. destruct (Hf n Hin) as [E|[E1 E2]]; [exact E|].
  unfold real in Hr. destruct (n_key n); [|discriminate].
  destruct local; simpl in E2; discriminate.
Qed.

Lemma inv_bound : forall local K t i, Inv local K t -> length (nth i t []) <= K.
Proof. intros local K t i HI. destruct (inv_nth local K t i HI) as [H _]. exact H. Qed.

Lemma inv_unique : forall local K t i, Inv local K t -> NoDup (map n_key (filter real (nth i t []))).
Proof. intros local K t i HI. destruct (inv_nth local K t i HI) as [_ [_ H]]. exact H. Qed.

Lemma closest_dup_witness :
  let local := [false; false] in
  let h := [OAdd [false; true] true Connected] in
  let tgt := [false; true] in
  wf_ops local h /\ length tgt = length local /\
  ~ NoDup (closest local (reach local 20 h) tgt 2) /\
  ~ NoDup (closest local (reach local 20 h) local 2).
Proof.
  cbv zeta. split; [repeat constructor|]. split; [reflexivity|].
  split; vm_compute; intro H; inversion H as [|? ? Hn _]; apply Hn; left; reflexivity.
Qed.

(* ------------------------------------------------------------------ sort first or filter first *)

(* KBucket::closest_iter sorts the whole bucket and then drops the address-less peers; the model
   drops first.  For a stable insertion sort over full-length keys (whatever keys the dummies
   carry) the two orders give the same list. *)

Lemma klt_asym : forall a b, klt a b = true -> klt b a = false.
Proof.
  induction a as [|x a IH]; intros [|y b]; simpl; intro H; try discriminate; auto.
  destruct x, y; simpl in *; try discriminate; auto.
Qed.

Lemma klt_negtrans : forall a b c, length a = length b -> length b = length c ->
  klt a c = true -> klt a b = true \/ klt b c = true.
Proof.
  induction a as [|x a IH]; intros [|y b] [|z c] H1 H2 H; simpl in *; try discriminate.
  destruct x, y, z; simpl in *; auto; try discriminate; apply IH; auto.
Qed.

Definition dle (tgt : key) (a b : node) : Prop :=
  klt (kxor tgt (n_key b)) (kxor tgt (n_key a)) = false.

Definition full (tgt : key) (n : node) : Prop := length (n_key n) = length tgt.

Lemma dle_trans : forall tgt a b c, full tgt a -> full tgt b -> full tgt c ->
  dle tgt a b -> dle tgt b c -> dle tgt a c.
Proof.
  unfold dle, full. intros tgt a b c Fa Fb Fc H1 H2.
  destruct (klt (kxor tgt (n_key c)) (kxor tgt (n_key a))) eqn:E; [|reflexivity].
  apply (klt_negtrans _ (kxor tgt (n_key b))) in E; [|rewrite !kxor_length; lia ..].
  destruct E; congruence.
Qed.

Lemma ins_le_sorted : forall tgt x l, full tgt x -> Forall (full tgt) l ->
  StronglySorted (dle tgt) l -> StronglySorted (dle tgt) (ins tgt x l).
Proof.
  induction l as [|h l IH]; simpl; intros Fx Fl Hs.
  - constructor; constructor.
  - inversion Fl as [|? ? Fh Fl']; subst. inversion Hs as [|? ? Hs' Hf]; subst.
    destruct (klt (kxor tgt (n_key h)) (kxor tgt (n_key x))) eqn:E.
    + constructor; [apply IH; auto|].
      apply Forall_forall. intros y Hy. apply (Permutation_in _ (ins_perm tgt x l)) in Hy.
      destruct Hy as [<-|Hy]; [unfold dle; apply klt_asym; exact E|].
      rewrite Forall_forall in Hf. apply Hf. exact Hy.
    + constructor; [exact Hs|]. constructor; [exact E|].
      apply Forall_forall. intros y Hy. rewrite Forall_forall in Hf, Fl'.
      apply (dle_trans tgt x h y); auto.
Qed.

Lemma sort_full : forall tgt l, Forall (full tgt) l -> Forall (full tgt) (sort_by_dist tgt l).
Proof.
  intros tgt l H. apply Forall_forall. intros y Hy.
  apply (Permutation_in _ (sort_perm tgt l)) in Hy. rewrite Forall_forall in H. auto.
Qed.

Lemma sort_le_sorted : forall tgt l, Forall (full tgt) l ->
  StronglySorted (dle tgt) (sort_by_dist tgt l).
Proof.
  induction l as [|x l IH]; simpl; intro H; [constructor|].
  inversion H; subst. apply ins_le_sorted; auto. apply sort_full; auto.
Qed.

Lemma ins_head : forall tgt x l,
  (forall y, In y l -> klt (kxor tgt (n_key y)) (kxor tgt (n_key x)) = false) ->
  ins tgt x l = x :: l.
Proof.
  intros tgt x [|h l] H; simpl; auto. rewrite (H h); auto. left; reflexivity.
Qed.

Lemma filter_ins : forall tgt (p : node -> bool) x l,
  full tgt x -> Forall (full tgt) l -> StronglySorted (dle tgt) l ->
  filter p (ins tgt x l) = if p x then ins tgt x (filter p l) else filter p l.
Proof.
  induction l as [|h l IH]; simpl; intros Fx Fl Hs.
  - destruct (p x); reflexivity.
  - inversion Fl as [|? ? Fh Fl']; subst. inversion Hs as [|? ? Hs' Hf]; subst.
    destruct (klt (kxor tgt (n_key h)) (kxor tgt (n_key x))) eqn:E; simpl.
    + rewrite IH by auto. destruct (p h) eqn:Ph, (p x) eqn:Px; simpl; rewrite ?E; reflexivity.
    + destruct (p x) eqn:Px; [|reflexivity].
      symmetry. apply ins_head. intros y Hy.
      assert (Hy' : In y (h :: l)).
      { destruct (p h); [destruct Hy as [<-|Hy]; [left; reflexivity|right]|right];
          apply filter_In in Hy; tauto. }
      destruct Hy' as [<-|Hy']; [exact E|].
      rewrite Forall_forall in Hf, Fl'.
      apply (dle_trans tgt x h y); auto.
Qed.

Lemma filter_sort_commute : forall tgt (p : node -> bool) l, Forall (full tgt) l ->
  filter p (sort_by_dist tgt l) = sort_by_dist tgt (filter p l).
Proof.
  induction l as [|x l IH]; simpl; intro H; auto.
  inversion H; subst.
  rewrite filter_ins; auto using sort_full, sort_le_sorted.
  destruct (p x); simpl; rewrite IH; auto.
Qed.

(* the code's order of operations, on the bucket as the implementation holds it *)
Definition bucket_closest_code (tgt : key) (b : list node) : list node :=
  filter n_addr (sort_by_dist tgt b).

(* b' = the bucket with real keys in the dummies: same nodes except that a model dummy (empty key,
   no address) may stand for any address-less node *)
Definition same_but_dummies (b b' : list node) : Prop :=
  Forall2 (fun n n' => n = n' \/ (n_addr n = false /\ n_addr n' = false)) b b'.

Lemma same_but_dummies_filter : forall b b', same_but_dummies b b' ->
  filter n_addr b = filter n_addr b'.
Proof.
  induction 1 as [|n n' b b' H _ IH]; simpl; auto.
  destruct H as [<-|[H1 H2]]; [destruct (n_addr n); congruence|]. rewrite H1, H2. exact IH.
Qed.

Lemma bucket_closest_code_eq : forall tgt b b',
  same_but_dummies b b' -> Forall (full tgt) b' ->
  bucket_closest_code tgt b' = bucket_closest tgt b.
Proof.
  intros tgt b b' Hs Hf. unfold bucket_closest_code, bucket_closest.
  rewrite filter_sort_commute by exact Hf. rewrite (same_but_dummies_filter b b' Hs). reflexivity.
Qed.

(* ------------------------------------------------------------------ replies to FIND_NODE etc. *)

Lemma closest_in_bucket : forall local t tgt k n,
  In n (closest local t tgt k) -> n_addr n = true /\ exists i, In n (nth i t []).
Proof.
  intros local t tgt k n H. unfold closest in H.
  assert (H' : In n (all_closest local t tgt)).
  { rewrite <- (firstn_skipn k). apply in_app_iff. left. exact H. }
  unfold all_closest in H'. apply in_flat_map in H'. destruct H' as [i [_ Hi]].
  unfold bucket_closest in Hi. apply (Permutation_in _ (sort_perm _ _)) in Hi.
  apply filter_In in Hi. destruct Hi as [Hi Ha]. split; auto. exists i. exact Hi.
Qed.

Lemma reply_sound : forall local K s tgt k n,
  Inv local K (k_table s) -> In n (reply local s tgt k) ->
  n_key n <> local /\ n_addr n = true /\ length (n_key n) = length local /\
  exists i, In n (nth i (k_table s) []) /\ ilog2 (kxor local (n_key n)) = Some i.
Proof.
  intros local K s tgt k n HI H. unfold reply in H.
  destruct (closest_in_bucket _ _ _ _ _ H) as [Ha [i Hi]].
  destruct (binv_addr _ _ _ _ _ (inv_nth local K _ i HI) Hi Ha) as [Hl Hx].
  split; [|split; [exact Ha|split; [exact Hl|exists i; auto]]].
  intro E. rewrite E, kxor_self_ilog2 in Hx. discriminate.
Qed.

Lemma reply_at_most_k : forall local s tgt k, length (reply local s tgt k) <= k.
Proof. intros. unfold reply, closest. apply firstn_le_length. Qed.

(* ------------------------------------------------------------------ the Kademlia glue *)

Definition wf_kop (local : key) (o : kop) : Prop :=
  match o with
  | KUpdate l => Forall (fun pa => length (fst pa) = length local) l
  | KAddKnown p _ | KEstablished p _ _ | KDisconnect p | KTouch p | KDialFailure p _ | KEntry p =>
      length p = length local
  end.

Definition kop_keys (o : kop) : list key :=
  match o with
  | KUpdate l => map fst l
  | KAddKnown p _ | KEstablished p _ _ | KDisconnect p | KTouch p | KDialFailure p _ | KEntry p => [p]
  end.

Lemma tstep_inv : forall local K t o, Inv local K t -> length (op_key o) = length local ->
  Inv local K (tstep add_conn local K t o).
Proof. intros. unfold tstep. apply step_inv; auto. Qed.

Lemma kupdate_cons : forall ac local K s pa l,
  kupdate ac local K s (pa :: l) =
  kupdate ac local K (if key_eqb (fst pa) local then s else kadd ac local K s pa) l.
Proof. reflexivity. Qed.

Lemma kupdate_inv : forall local K l s, Inv local K (k_table s) ->
  Forall (fun pa => length (fst pa) = length local) l ->
  Inv local K (k_table (kupdate add_conn local K s l)).
Proof.
  induction l as [|pa l IH]; intros s HI HF; [exact HI|].
  inversion HF; subst. rewrite kupdate_cons. apply IH; [|assumption].
  match goal with |- context [if ?c then _ else _] => destruct c end; [exact HI|].
  simpl. apply tstep_inv; auto.
Qed.

Lemma kstep_inv : forall local K s o, Inv local K (k_table s) -> wf_kop local o ->
  Inv local K (k_table (kstep local K s o)).
Proof.
  intros local K s o HI Hw. destruct o; simpl in *; auto; try (apply tstep_inv; auto).
  apply kupdate_inv; auto.
Qed.

Lemma krun_inv : forall local K h s, Inv local K (k_table s) -> Forall (wf_kop local) h ->
  Inv local K (k_table (krun local K s h)).
Proof.
  induction h as [|o h IH]; simpl; intros s HI HF; auto.
  inversion HF; subst. apply IH; auto. apply kstep_inv; auto.
Qed.

Lemma tstep_keeps : forall local K t o j n,
  In n (nth j t []) -> protected n = true -> n_key n <> op_key o ->
  In n (nth j (tstep add_conn local K t o) []).
Proof. intros. unfold tstep. apply step_keeps; auto. Qed.

Lemma kupdate_keeps : forall local K l s j n,
  In n (nth j (k_table s) []) -> protected n = true -> ~ In (n_key n) (map fst l) ->
  In n (nth j (k_table (kupdate add_conn local K s l)) []).
Proof.
  induction l as [|pa l IH]; intros s j n Hin Hp Hn; [exact Hin|].
  rewrite kupdate_cons. simpl in Hn. apply IH; [|exact Hp|tauto].
  match goal with |- context [if ?c then _ else _] => destruct c end; [exact Hin|]. simpl.
  apply tstep_keeps; [exact Hin|exact Hp|]. simpl. intro E. apply Hn. left. congruence.
Qed.

(* a Connected / CanConnect peer survives every glue operation that does not name it *)
Lemma kstep_keeps : forall local K s o j n,
  In n (nth j (k_table s) []) -> protected n = true -> ~ In (n_key n) (kop_keys o) ->
  In n (nth j (k_table (kstep local K s o)) []).
Proof.
  intros local K s o j n Hin Hp Hn.
  destruct o; simpl in *; auto; try (apply tstep_keeps; auto; simpl; intro E; apply Hn; left; congruence).
  apply kupdate_keeps; auto.
Qed.

(* F-C14b (fixed): the only thing that takes Connected away from an entry is disconnect_peer for
   that very peer.  Table level, for the add_known_peer rule `ac`: *)
Definition keeps_connected (ac : conn -> conn -> conn) : Prop :=
  forall c, ac Connected c = Connected.

Definition conn_still (n n' : node) : Prop :=
  n_key n' = n_key n /\ n_conn n' = Connected /\ (n_addr n = true -> n_addr n' = true).

Lemma conn_still_refl : forall n, n_conn n = Connected -> conn_still n n.
Proof. intros n H. split; auto. Qed.

Lemma step_gen_cases : forall ac local K t o,
  fst (step_gen ac local K t o) = t \/
  exists i, ilog2 (kxor local (op_key o)) = Some i /\
    fst (step_gen ac local K t o) =
    upd_nth i (apply_slot_gen ac o (nth i t []) (bucket_entry K (nth i t []) (op_key o))) t.
Proof.
  intros ac local K t o. unfold step_gen.
  destruct (ilog2 (kxor local (op_key o))) as [i|] eqn:E.
  - destruct o as [| | k [|] c | | |]; simpl in *; rewrite ?E; simpl; auto; right; exists i; auto.
  - left. destruct o as [| | k [|] c | | |]; simpl in *; rewrite ?E; reflexivity.
Qed.

Lemma node_eq_dec_or : forall n y : node, n = y \/ n <> y.
Proof.
  intros n y.
  assert (D : {n = y} + {n <> y}).
  { decide equality; [decide equality | apply bool_dec | apply (list_eq_dec bool_dec)]. }
  destruct D; auto.
Qed.

Lemma apply_slot_connected : forall ac K b o n,
  keeps_connected ac ->
  In n b -> n_conn n = Connected ->
  o <> ODisconnected (n_key n) ->
  exists n', In n' (apply_slot_gen ac o b (bucket_entry K b (op_key o))) /\ conn_still n n'.
Proof.
  intros ac K b o n Hac Hin Hc Hnd.
  set (k := op_key o) in *.
  assert (Hmid : forall a y y' c, In n (a ++ y :: c) -> n <> y -> In n (a ++ y' :: c)).
  { intros a y y' c H Hny. apply in_app_iff in H. apply in_app_iff.
    destruct H as [H|[H|H]]; [left; exact H|congruence|right; right; exact H]. }
  assert (Hnew : forall (a : list node) (y' : node) (c : list node), In y' (a ++ y' :: c)).
  { intros. apply in_app_iff. right. left. reflexivity. }
  unfold bucket_entry.
  destruct (split_first (has_key k) b) as [[[a y] c]|] eqn:E1.
  - apply split_first_some in E1. destruct E1 as [Eb [Hy _]]. subst b.
    unfold has_key in Hy. apply key_eqb_eq in Hy.
    destruct (node_eq_dec_or n y) as [<-|Hny].
    + (* the entry itself is operated on *)
      destruct o as [k0|k0 a0 c0|k0 a0 c0|k0 d0|k0 a0|k0]; simpl in *.
      * exists n. split; [exact Hin|apply conn_still_refl; exact Hc].
      * exists n. split; [exact Hin|apply conn_still_refl; exact Hc].
      * eexists. split; [apply Hnew|]. split; simpl; auto. split; auto.
        rewrite Hc. apply Hac.
      * eexists. split; [apply Hnew|]. split; simpl; auto. split; auto.
        intro Ha. rewrite Ha. reflexivity.
      * eexists. split; [apply Hnew|]. split; simpl; auto. split; auto.
        intro Ha. rewrite Ha. reflexivity.
      * exfalso. apply Hnd. unfold k in Hy. simpl in Hy. congruence.
    + exists n. split; [|apply conn_still_refl; exact Hc].
      destruct o; simpl; try exact Hin; eapply Hmid; eauto.
  - exists n. split; [|apply conn_still_refl; exact Hc].
    destruct (length b <? K).
    + destruct o; simpl; apply in_app_iff; left; exact Hin.
    + destruct (split_first replaceable b) as [[[a y] c]|] eqn:E3.
      * apply split_first_some in E3. destruct E3 as [Eb [Hy _]]. subst b.
        assert (n <> y).
        { intro E. subst y. unfold replaceable in Hy. rewrite Hc in Hy. discriminate. }
        destruct o; simpl; try exact Hin; eapply Hmid; eauto.
      * destruct o; simpl; exact Hin.
Qed.

Lemma tstep_connected : forall ac local K t o j n,
  keeps_connected ac ->
  In n (nth j t []) -> n_conn n = Connected ->
  o <> ODisconnected (n_key n) ->
  exists n', In n' (nth j (tstep ac local K t o) []) /\ conn_still n n'.
Proof.
  intros ac local K t o j n Hac Hin Hc Hnd. unfold tstep.
  destruct (step_gen_cases ac local K t o) as [E|[i [Hi E]]]; rewrite E.
  - exists n. split; [exact Hin|apply conn_still_refl; exact Hc].
  - destruct (Nat.eq_dec j i) as [->|Hji].
    + assert (Hlt : i < length t).
      { destruct (Nat.lt_ge_cases i (length t)) as [H|H]; auto.
        rewrite nth_overflow in Hin by exact H. destruct Hin. }
      rewrite nth_upd_same by exact Hlt. apply apply_slot_connected; auto.
    + rewrite nth_upd_other by exact Hji.
      exists n. split; [exact Hin|apply conn_still_refl; exact Hc].
Qed.

Lemma conn_still_trans : forall a b c, conn_still a b -> conn_still b c -> conn_still a c.
Proof.
  intros a b c [H1 [H2 H3]] [H4 [H5 H6]]. split; [congruence|]. split; auto.
Qed.

Lemma believed_cases : forall ps p, believed ps p = Connected \/ believed ps p = NotConnected.
Proof. intros. unfold believed. destruct (in_peers ps p); auto. Qed.

Lemma kadd_connected : forall ac local K s pa j n,
  keeps_connected ac -> In n (nth j (k_table s) []) -> n_conn n = Connected ->
  exists n', In n' (nth j (k_table (kadd ac local K s pa)) []) /\ conn_still n n'.
Proof.
  intros ac local K s pa j n Hac Hin Hc. simpl. apply tstep_connected; auto.
  discriminate.
Qed.

Lemma kupdate_connected : forall ac local K l s j n,
  keeps_connected ac -> In n (nth j (k_table s) []) -> n_conn n = Connected ->
  exists n', In n' (nth j (k_table (kupdate ac local K s l)) []) /\ conn_still n n'.
Proof.
  induction l as [|pa l IH]; intros s j n Hac Hin Hc.
  - exists n. split; [exact Hin|apply conn_still_refl; exact Hc].
  - rewrite kupdate_cons.
    assert (H : exists n1, In n1 (nth j (k_table (if key_eqb (fst pa) local then s
                                                  else kadd ac local K s pa)) []) /\ conn_still n n1).
    { match goal with |- context [if ?c then _ else _] => destruct c end.
      - exists n. split; [exact Hin|apply conn_still_refl; exact Hc].
      - apply kadd_connected; auto. }
    destruct H as [n1 [H1 S1]].
    destruct (IH _ j n1 Hac H1 (proj1 (proj2 S1))) as [n2 [H2 S2]].
    exists n2. split; [exact H2|]. eapply conn_still_trans; eauto.
Qed.

(* Kademlia level: under every glue operation except disconnect_peer of that very peer, an entry
   that says Connected is still there and still says Connected (and keeps its address flag) *)
Lemma kstep_connected : forall ac local K s o j n,
  keeps_connected ac -> In n (nth j (k_table s) []) -> n_conn n = Connected ->
  o <> KDisconnect (n_key n) ->
  exists n', In n' (nth j (k_table (kstep_gen ac local K s o)) []) /\ conn_still n n'.
Proof.
  intros ac local K s o j n Hac Hin Hc Hnd.
  destruct o as [p a|p d pe|p|p|l|p a|p]; simpl.
  - apply (kadd_connected ac local K s (p, a) j n); auto.
  - apply tstep_connected; auto; discriminate.
  - apply tstep_connected; auto; try discriminate. intro E. apply Hnd. congruence.
  - exists n. split; [exact Hin|apply conn_still_refl; exact Hc].
  - apply kupdate_connected; auto.
  - apply tstep_connected; auto; discriminate.
  - apply tstep_connected; auto; discriminate.
Qed.

Lemma krun_connected : forall ac local K h s j n,
  keeps_connected ac -> In n (nth j (k_table s) []) -> n_conn n = Connected ->
  ~ In (KDisconnect (n_key n)) h ->
  exists n', In n' (nth j (k_table (krun_gen ac local K s h)) []) /\ conn_still n n'.
Proof.
  induction h as [|o h IH]; intros s j n Hac Hin Hc Hnd; simpl.
  - exists n. split; [exact Hin|apply conn_still_refl; exact Hc].
  - destruct (kstep_connected ac local K s o j n Hac Hin Hc) as [n1 [H1 S1]].
    { intro E. apply Hnd. left. exact E. }
    destruct (IH _ j n1 Hac H1 (proj1 (proj2 S1))) as [n2 [H2 S2]].
    { destruct S1 as [E _]. rewrite E. intro H. apply Hnd. right. exact H. }
    exists n2. split; [exact H2|]. eapply conn_still_trans; eauto.
Qed.

Lemma add_conn_keeps : keeps_connected add_conn.
Proof. intro c. reflexivity. Qed.

(* F-C14b before the repair: a mention in a reply (no disconnect anywhere in the history) turns the
   Connected entry of a peer with an open connection into NotConnected *)
Lemma downgrade_orig_witness :
  let local := [false; false; false] in
  let p := [true; false; true] in
  let h := [KAddKnown p true; KEstablished p true false; KUpdate [(p, true)]] in
  Forall (wf_kop local) h /\ ~ In (KDisconnect p) h /\
  nth 2 (k_table (krun_gen add_conn_orig local 20 (kad_empty 3) (firstn 2 h))) [] =
    [mkNode p true Connected] /\
  nth 2 (k_table (krun_gen add_conn_orig local 20 (kad_empty 3) h)) [] =
    [mkNode p true NotConnected] /\
  nth 2 (k_table (krun local 20 (kad_empty 3) h)) [] = [mkNode p true Connected].
Proof.
  cbv zeta. split; [repeat constructor|]. split.
  - intros [H|[H|[H|[]]]]; discriminate.
  - vm_compute. auto.
Qed.

Definition kreach (local : key) (K : nat) (h : list kop) : kad :=
  krun local K (kad_empty (length local)) h.

Lemma kreach_inv : forall local K h, Forall (wf_kop local) h -> Inv local K (k_table (kreach local K h)).
Proof. intros. apply krun_inv; auto. apply empty_inv. Qed.
