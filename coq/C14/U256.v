(* C14 — number-level model of the U256 arithmetic behind the Kademlia keys
   (src/protocol/libp2p/kademlia/types.rs): Key = U256::from_big_endian(bytes), distance = a ^ b,
   Distance::ilog2 = (256 - leading_zeros).checked_sub(1), distances compared as integers,
   distance.0.bit(i) = integer test-bit.  The integers are Coq's binary naturals N; the theorems
   tie this arithmetic to the MSB-first list-bool model of Model.v (kxor / klt / ilog2 / bit),
   first for bit strings and then for big-endian byte strings. *)
From Coq Require Import List Bool Arith NArith Lia.
From V.C14 Require Import Model.
Import ListNotations.

Local Arguments N.mul : simpl never.
Local Arguments N.add : simpl never.
Local Arguments N.pow : simpl never.
Local Arguments N.sub : simpl never.
Local Arguments N.testbit : simpl never.
Local Arguments N.lxor : simpl never.

(* ------------------------------------------------------------------------------------------ *)
(* 1. the value of a bit string: U256::from_big_endian on bits                                *)

Fixpoint val_acc (acc : N) (k : key) : N :=
  match k with
  | [] => acc
  | b :: t => val_acc (2 * acc + N.b2n b) t
  end.

Definition val (k : key) : N := val_acc 0 k.

(* ------------------------------------------------------------------------------------------ *)
(* 2. the U256 operations, on N                                                               *)

Definition u_xor := N.lxor.

(* w = bit width (256 in the code); N.size n = number of significant bits, 0 for 0 *)
Definition u_leading_zeros (w : N) (n : N) : N := (w - N.size n)%N.

(* (w - leading_zeros).checked_sub(1) *)
Definition u_ilog2 (w : N) (n : N) : option N :=
  let x := (w - u_leading_zeros w n)%N in
  if (x =? 0)%N then None else Some (x - 1)%N.

Definition u_bit (n : N) (i : nat) : bool := N.testbit n (N.of_nat i).

(* ------------------------------------------------------------------------------------------ *)
(* helpers                                                                                    *)

Lemma u256_pow2_S : forall n : nat, (2 ^ N.of_nat (S n) = 2 * 2 ^ N.of_nat n)%N.
Proof.
  intro n. rewrite Nat2N.inj_succ. apply N.pow_succ_r'.
Qed.

Lemma u256_pow2_pos : forall n : N, (0 < 2 ^ n)%N.
Proof.
  intro n. apply N.neq_0_lt_0. apply N.pow_nonzero. discriminate.
Qed.

Lemma u256_b2n_le_1 : forall b : bool, (N.b2n b <= 1)%N.
Proof.
  intro b. destruct b; cbn; lia.
Qed.

(* lexicographic comparison of two-digit numbers in base P *)
Lemma u256_lex_ltb :
  forall P x y u v : N,
    (u < P)%N -> (v < P)%N ->
    (x * P + u <? y * P + v)%N = if (x =? y)%N then (u <? v)%N else (x <? y)%N.
Proof.
  intros P x y u v Hu Hv.
  destruct (N.eqb_spec x y) as [Heq | Hne].
  - subst y.
    destruct (N.ltb_spec (x * P + u) (x * P + v)) as [H1 | H1];
      destruct (N.ltb_spec u v) as [H2 | H2]; try reflexivity; lia.
  - destruct (N.ltb_spec x y) as [Hlt | Hge].
    + assert (Hm : ((x + 1) * P <= y * P)%N) by (apply N.mul_le_mono_r; lia).
      rewrite N.mul_add_distr_r, N.mul_1_l in Hm.
      apply N.ltb_lt. lia.
    + assert (Hm : ((y + 1) * P <= x * P)%N) by (apply N.mul_le_mono_r; lia).
      rewrite N.mul_add_distr_r, N.mul_1_l in Hm.
      apply N.ltb_ge. lia.
Qed.

Lemma u256_lex_inj :
  forall P x y u v : N,
    (u < P)%N -> (v < P)%N -> (x * P + u = y * P + v)%N -> x = y /\ u = v.
Proof.
  intros P x y u v Hu Hv Heq.
  assert (Hxy : x = y).
  { destruct (N.lt_trichotomy x y) as [Hlt | [Hxy | Hgt]].
    - assert (Hm : ((x + 1) * P <= y * P)%N) by (apply N.mul_le_mono_r; lia).
      rewrite N.mul_add_distr_r, N.mul_1_l in Hm. lia.
    - exact Hxy.
    - assert (Hm : ((y + 1) * P <= x * P)%N) by (apply N.mul_le_mono_r; lia).
      rewrite N.mul_add_distr_r, N.mul_1_l in Hm. lia. }
  subst y. split; [reflexivity | lia].
Qed.

Lemma kxor_length_eq : forall a b : key, length a = length b -> length (kxor a b) = length a.
Proof.
  induction a as [| x a IH]; intros b Hlen.
  - reflexivity.
  - destruct b as [| y b]; [discriminate Hlen |].
    cbn [kxor length]. f_equal. apply IH. injection Hlen as Hlen. exact Hlen.
Qed.

(* ------------------------------------------------------------------------------------------ *)
(* 3. val: accumulator, bound, cons / snoc forms                                              *)

Lemma val_acc_split :
  forall k acc, val_acc acc k = (acc * 2 ^ N.of_nat (length k) + val k)%N.
Proof.
  induction k as [| b t IH]; intro acc.
  - cbn [val_acc length N.of_nat]. unfold val. cbn [val_acc].
    rewrite N.pow_0_r. lia.
  - unfold val. cbn [val_acc length].
    rewrite (IH (2 * acc + N.b2n b)%N), (IH (2 * 0 + N.b2n b)%N).
    rewrite u256_pow2_S. lia.
Qed.

Lemma val_nil : val [] = 0%N.
Proof. reflexivity. Qed.

Lemma val_cons :
  forall b t, val (b :: t) = (N.b2n b * 2 ^ N.of_nat (length t) + val t)%N.
Proof.
  intros b t. unfold val at 1. cbn [val_acc].
  rewrite val_acc_split, N.mul_0_r, N.add_0_l. reflexivity.
Qed.

Theorem val_bound : forall k, (val k < 2 ^ N.of_nat (length k))%N.
Proof.
  induction k as [| b t IH].
  - cbn. lia.
  - rewrite val_cons. cbn [length]. rewrite u256_pow2_S.
    pose proof (u256_b2n_le_1 b) as Hb.
    assert (Hm : (N.b2n b * 2 ^ N.of_nat (length t) <= 1 * 2 ^ N.of_nat (length t))%N)
      by (apply N.mul_le_mono_r; exact Hb).
    lia.
Qed.

Lemma val_acc_app :
  forall a b acc, val_acc acc (a ++ b) = val_acc (val_acc acc a) b.
Proof.
  induction a as [| x a IH]; intros b acc.
  - reflexivity.
  - cbn [app val_acc]. apply IH.
Qed.

Lemma val_snoc : forall t b, val (t ++ [b]) = (2 * val t + N.b2n b)%N.
Proof.
  intros t b. unfold val. rewrite val_acc_app. reflexivity.
Qed.

(* ------------------------------------------------------------------------------------------ *)
(* xor                                                                                        *)

Lemma u256_lxor_double :
  forall x y p q,
    N.lxor (2 * x + N.b2n p) (2 * y + N.b2n q) = (2 * N.lxor x y + N.b2n (xorb p q))%N.
Proof.
  intros x y p q. apply N.bits_inj. intro n.
  rewrite N.lxor_spec.
  destruct (N.zero_or_succ n) as [Hz | [m Hm]]; subst n.
  - rewrite !N.testbit_0_r. reflexivity.
  - rewrite !N.testbit_succ_r. rewrite N.lxor_spec. reflexivity.
Qed.

Lemma val_acc_kxor :
  forall a b x y,
    length a = length b ->
    val_acc (N.lxor x y) (kxor a b) = N.lxor (val_acc x a) (val_acc y b).
Proof.
  induction a as [| p a IH]; intros b x y Hlen.
  - destruct b as [| q b]; [reflexivity | discriminate Hlen].
  - destruct b as [| q b]; [discriminate Hlen |].
    injection Hlen as Hlen.
    cbn [kxor val_acc]. rewrite <- u256_lxor_double. apply IH. exact Hlen.
Qed.

Theorem val_kxor :
  forall a b, length a = length b -> val (kxor a b) = N.lxor (val a) (val b).
Proof.
  intros a b Hlen. unfold val.
  rewrite <- (val_acc_kxor a b 0%N 0%N Hlen). reflexivity.
Qed.

(* ------------------------------------------------------------------------------------------ *)
(* order, injectivity                                                                         *)

Theorem val_klt :
  forall a b, length a = length b -> klt a b = (val a <? val b)%N.
Proof.
  induction a as [| p a IH]; intros b Hlen.
  - destruct b as [| q b]; [reflexivity | discriminate Hlen].
  - destruct b as [| q b]; [discriminate Hlen |].
    injection Hlen as Hlen.
    rewrite !val_cons. rewrite <- Hlen.
    rewrite u256_lex_ltb.
    + cbn [klt]. rewrite (IH b Hlen).
      destruct p, q; reflexivity.
    + apply val_bound.
    + rewrite Hlen. apply val_bound.
Qed.

Theorem val_inj :
  forall a b, length a = length b -> val a = val b -> a = b.
Proof.
  induction a as [| p a IH]; intros b Hlen Hval.
  - destruct b as [| q b]; [reflexivity | discriminate Hlen].
  - destruct b as [| q b]; [discriminate Hlen |].
    injection Hlen as Hlen.
    rewrite !val_cons in Hval. rewrite <- Hlen in Hval.
    apply u256_lex_inj in Hval.
    + destruct Hval as [Hpq Hab].
      f_equal.
      * destruct p, q; try reflexivity; discriminate Hpq.
      * apply IH; assumption.
    + apply val_bound.
    + rewrite Hlen. apply val_bound.
Qed.

(* ------------------------------------------------------------------------------------------ *)
(* test-bit: LSB-first characterisation                                                       *)

Fixpoint val_lsb (r : list bool) : N :=
  match r with
  | [] => 0%N
  | b :: r' => (2 * val_lsb r' + N.b2n b)%N
  end.

Lemma val_rev : forall r, val (rev r) = val_lsb r.
Proof.
  induction r as [| b r IH].
  - reflexivity.
  - cbn [rev val_lsb]. rewrite val_snoc, IH. reflexivity.
Qed.

Lemma val_val_lsb : forall d, val d = val_lsb (rev d).
Proof.
  intro d. rewrite <- val_rev, rev_involutive. reflexivity.
Qed.

Lemma testbit_val_lsb :
  forall r i, N.testbit (val_lsb r) (N.of_nat i) = nth i r false.
Proof.
  induction r as [| b r IH]; intro i.
  - cbn [val_lsb]. rewrite N.bits_0. destruct i; reflexivity.
  - cbn [val_lsb]. destruct i as [| i].
    + cbn [N.of_nat nth]. apply N.testbit_0_r.
    + rewrite Nat2N.inj_succ, N.testbit_succ_r. cbn [nth]. apply IH.
Qed.

Theorem val_bit : forall d i, bit (rev d) i = u_bit (val d) i.
Proof.
  intros d i. unfold bit, u_bit. rewrite val_val_lsb. symmetry. apply testbit_val_lsb.
Qed.

(* ------------------------------------------------------------------------------------------ *)
(* ilog2                                                                                      *)

Lemma ilog2_lt_length : forall d i, ilog2 d = Some i -> i < length d.
Proof.
  induction d as [| b t IH]; intros i H.
  - discriminate H.
  - destruct b; cbn [ilog2 length] in *.
    + injection H as H. lia.
    + apply IH in H. lia.
Qed.

Theorem ilog2_zero : forall d, ilog2 d = None <-> val d = 0%N.
Proof.
  induction d as [| b t IH].
  - split; reflexivity.
  - rewrite val_cons. destruct b; cbn [ilog2 N.b2n].
    + pose proof (u256_pow2_pos (N.of_nat (length t))) as Hp.
      split; intro H; [discriminate H | lia].
    + rewrite N.mul_0_l, N.add_0_l. exact IH.
Qed.

Theorem ilog2_log2 :
  forall d i, ilog2 d = Some i -> N.log2 (val d) = N.of_nat i /\ val d <> 0%N.
Proof.
  induction d as [| b t IH]; intros i H.
  - discriminate H.
  - rewrite val_cons. destruct b; cbn [ilog2 N.b2n] in *.
    + injection H as H. subst i.
      pose proof (val_bound t) as Hb.
      pose proof (u256_pow2_pos (N.of_nat (length t))) as Hp.
      rewrite N.mul_1_l. split.
      * apply N.log2_unique; [lia |].
        rewrite N.pow_succ_r'. lia.
      * lia.
    + rewrite N.mul_0_l, N.add_0_l. apply IH. exact H.
Qed.

Theorem ilog2_val :
  forall d,
    ilog2 d =
    match u_ilog2 (N.of_nat (length d)) (val d) with
    | None => None
    | Some x => Some (N.to_nat x)
    end.
Proof.
  intro d. unfold u_ilog2, u_leading_zeros.
  destruct (ilog2 d) as [i |] eqn:E.
  - pose proof (ilog2_lt_length d i E) as Hlt.
    destruct (ilog2_log2 d i E) as [Hlog Hnz].
    rewrite (N.size_log2 _ Hnz), Hlog.
    replace (N.of_nat (length d) - (N.of_nat (length d) - N.succ (N.of_nat i)))%N
      with (N.succ (N.of_nat i)) by lia.
    destruct (N.eqb_spec (N.succ (N.of_nat i)) 0) as [H0 | H0]; [lia |].
    f_equal. lia.
  - apply ilog2_zero in E. rewrite E. cbn [N.size].
    rewrite N.sub_0_r, N.sub_diag. reflexivity.
Qed.

Theorem index_is_ilog2_xor :
  forall a b,
    length a = length b ->
    ilog2 (kxor a b) =
    match u_ilog2 (N.of_nat (length a)) (N.lxor (val a) (val b)) with
    | None => None
    | Some x => Some (N.to_nat x)
    end.
Proof.
  intros a b Hlen.
  rewrite ilog2_val, (kxor_length_eq a b Hlen), (val_kxor a b Hlen). reflexivity.
Qed.

Theorem distance_compare :
  forall t a b,
    length a = length t -> length b = length t ->
    klt (kxor t a) (kxor t b) = (N.lxor (val t) (val a) <? N.lxor (val t) (val b))%N.
Proof.
  intros t a b Ha Hb.
  rewrite val_klt.
  - rewrite !val_kxor by (symmetry; assumption). reflexivity.
  - rewrite !kxor_length_eq by (symmetry; assumption). reflexivity.
Qed.

(* ------------------------------------------------------------------------------------------ *)
(* 4. byte level: keys are 32 big-endian bytes                                                *)

Fixpoint bytes_val_acc (acc : N) (bs : list N) : N :=
  match bs with
  | [] => acc
  | b :: t => bytes_val_acc (256 * acc + b) t
  end.

Definition bytes_val (bs : list N) : N := bytes_val_acc 0 bs.

Definition byte_bits (x : N) : list bool :=
  map (fun i => N.testbit_nat x i) (rev (seq 0 8)).

Definition key_of_bytes (bs : list N) : key := flat_map byte_bits bs.

Fixpoint bytes_xor (a b : list N) : list N :=
  match a, b with
  | x :: a', y :: b' => N.lxor x y :: bytes_xor a' b'
  | _, _ => []
  end.

Fixpoint bytes_lt (a b : list N) : bool :=
  match a, b with
  | x :: a', y :: b' => if (x =? y)%N then bytes_lt a' b' else (x <? y)%N
  | _, _ => false
  end.

Lemma byte_bits_length : forall x, length (byte_bits x) = 8.
Proof.
  intro x. unfold byte_bits. rewrite map_length, rev_length, seq_length. reflexivity.
Qed.

Theorem key_of_bytes_length : forall bs, length (key_of_bytes bs) = 8 * length bs.
Proof.
  induction bs as [| x bs IH].
  - reflexivity.
  - unfold key_of_bytes in *. cbn [flat_map length].
    rewrite app_length, byte_bits_length, IH. lia.
Qed.

Lemma u256_nth_map_seq :
  forall (f : nat -> bool) n i,
    nth i (map f (seq 0 n)) false = if i <? n then f i else false.
Proof.
  intros f n i. destruct (Nat.ltb_spec i n) as [Hlt | Hge].
  - rewrite (nth_indep _ false (f 0)) by (rewrite map_length, seq_length; exact Hlt).
    rewrite map_nth, seq_nth by exact Hlt. reflexivity.
  - apply nth_overflow. rewrite map_length, seq_length. exact Hge.
Qed.

Lemma val_byte_bits : forall x, (x < 256)%N -> val (byte_bits x) = x.
Proof.
  intros x Hx. unfold byte_bits. rewrite map_rev, val_rev.
  apply N.bits_inj. intro m.
  rewrite <- (N2Nat.id m). rewrite testbit_val_lsb, u256_nth_map_seq.
  destruct (Nat.ltb_spec (N.to_nat m) 8) as [Hlt | Hge].
  - symmetry. apply Ntestbit_Nbit.
  - symmetry. rewrite <- (N.mod_small x (2 ^ 8)) by exact Hx.
    apply N.mod_pow2_bits_high. lia.
Qed.

Lemma val_acc_byte_bits :
  forall x acc, (x < 256)%N -> val_acc acc (byte_bits x) = (256 * acc + x)%N.
Proof.
  intros x acc Hx.
  rewrite val_acc_split, byte_bits_length, (val_byte_bits x Hx).
  change (2 ^ N.of_nat 8)%N with 256%N. lia.
Qed.

Lemma val_acc_key_of_bytes :
  forall bs acc,
    Forall (fun x => (x < 256)%N) bs ->
    val_acc acc (key_of_bytes bs) = bytes_val_acc acc bs.
Proof.
  induction bs as [| x bs IH]; intros acc HF.
  - reflexivity.
  - inversion HF as [| x' bs' Hx HF']; subst.
    unfold key_of_bytes in *. cbn [flat_map bytes_val_acc].
    rewrite val_acc_app, (val_acc_byte_bits x acc Hx). apply IH. exact HF'.
Qed.

Theorem val_key_of_bytes :
  forall bs, Forall (fun x => (x < 256)%N) bs -> val (key_of_bytes bs) = bytes_val bs.
Proof.
  intros bs HF. unfold val, bytes_val. apply val_acc_key_of_bytes. exact HF.
Qed.

Lemma kxor_app :
  forall a1 b1 a2 b2,
    length a1 = length b1 -> kxor (a1 ++ a2) (b1 ++ b2) = kxor a1 b1 ++ kxor a2 b2.
Proof.
  induction a1 as [| x a1 IH]; intros b1 a2 b2 Hlen.
  - destruct b1 as [| y b1]; [reflexivity | discriminate Hlen].
  - destruct b1 as [| y b1]; [discriminate Hlen |].
    injection Hlen as Hlen.
    cbn [app kxor]. f_equal. apply IH. exact Hlen.
Qed.

Lemma byte_bits_lxor :
  forall x y, byte_bits (N.lxor x y) = kxor (byte_bits x) (byte_bits y).
Proof.
  intros x y. unfold byte_bits. cbn [seq rev app map kxor].
  rewrite !Nxor_semantics. reflexivity.
Qed.

(* holds for all byte lists; the hypotheses of key_of_bytes_xor are not needed *)
Lemma key_of_bytes_xor_gen :
  forall a b, key_of_bytes (bytes_xor a b) = kxor (key_of_bytes a) (key_of_bytes b).
Proof.
  induction a as [| x a IH]; intro b.
  - reflexivity.
  - destruct b as [| y b].
    + unfold key_of_bytes. cbn [bytes_xor flat_map].
      destruct (byte_bits x ++ flat_map byte_bits a); reflexivity.
    + unfold key_of_bytes in *. cbn [bytes_xor flat_map].
      rewrite kxor_app by (rewrite !byte_bits_length; reflexivity).
      rewrite byte_bits_lxor, IH. reflexivity.
Qed.

Theorem key_of_bytes_xor :
  forall a b,
    Forall (fun x => (x < 256)%N) a -> Forall (fun x => (x < 256)%N) b ->
    length a = length b ->
    key_of_bytes (bytes_xor a b) = kxor (key_of_bytes a) (key_of_bytes b).
Proof.
  intros a b _ _ _. apply key_of_bytes_xor_gen.
Qed.

Lemma bytes_xor_length_eq :
  forall a b, length a = length b -> length (bytes_xor a b) = length a.
Proof.
  induction a as [| x a IH]; intros b Hlen.
  - reflexivity.
  - destruct b as [| y b]; [discriminate Hlen |].
    cbn [bytes_xor length]. f_equal. apply IH. injection Hlen as Hlen. exact Hlen.
Qed.

Lemma lxor_byte_bound :
  forall x y, (x < 256)%N -> (y < 256)%N -> (N.lxor x y < 256)%N.
Proof.
  intros x y Hx Hy.
  rewrite <- (val_byte_bits x Hx), <- (val_byte_bits y Hy).
  rewrite <- val_kxor by (rewrite !byte_bits_length; reflexivity).
  pose proof (val_bound (kxor (byte_bits x) (byte_bits y))) as Hb.
  rewrite kxor_length_eq, byte_bits_length in Hb by (rewrite !byte_bits_length; reflexivity).
  exact Hb.
Qed.

Lemma bytes_xor_Forall :
  forall a b,
    Forall (fun x => (x < 256)%N) a -> Forall (fun x => (x < 256)%N) b ->
    Forall (fun x => (x < 256)%N) (bytes_xor a b).
Proof.
  induction a as [| x a IH]; intros b Ha Hb.
  - constructor.
  - destruct b as [| y b]; [constructor |].
    inversion Ha as [| x' a' Hx Ha']; subst.
    inversion Hb as [| y' b' Hy Hb']; subst.
    cbn [bytes_xor]. constructor.
    + apply lxor_byte_bound; assumption.
    + apply IH; assumption.
Qed.

Lemma u256_pow256_S : forall n : nat, (256 ^ N.of_nat (S n) = 256 * 256 ^ N.of_nat n)%N.
Proof.
  intro n. rewrite Nat2N.inj_succ. apply N.pow_succ_r'.
Qed.

Lemma bytes_val_acc_split :
  forall bs acc,
    bytes_val_acc acc bs = (acc * 256 ^ N.of_nat (length bs) + bytes_val bs)%N.
Proof.
  induction bs as [| b t IH]; intro acc.
  - unfold bytes_val. cbn [bytes_val_acc length N.of_nat]. rewrite N.pow_0_r. lia.
  - unfold bytes_val. cbn [bytes_val_acc length].
    rewrite (IH (256 * acc + b)%N), (IH (256 * 0 + b)%N).
    rewrite u256_pow256_S. lia.
Qed.

Lemma bytes_val_cons :
  forall b t, bytes_val (b :: t) = (b * 256 ^ N.of_nat (length t) + bytes_val t)%N.
Proof.
  intros b t. unfold bytes_val at 1. cbn [bytes_val_acc].
  rewrite bytes_val_acc_split, N.mul_0_r, N.add_0_l. reflexivity.
Qed.

Lemma bytes_val_bound :
  forall bs,
    Forall (fun x => (x < 256)%N) bs -> (bytes_val bs < 256 ^ N.of_nat (length bs))%N.
Proof.
  induction bs as [| b t IH]; intro HF.
  - cbn. lia.
  - inversion HF as [| b' t' Hb HF']; subst.
    rewrite bytes_val_cons. cbn [length]. rewrite u256_pow256_S.
    specialize (IH HF').
    assert (Hm : (b * 256 ^ N.of_nat (length t) <= 255 * 256 ^ N.of_nat (length t))%N)
      by (apply N.mul_le_mono_r; lia).
    lia.
Qed.

Theorem bytes_lt_val :
  forall a b,
    Forall (fun x => (x < 256)%N) a -> Forall (fun x => (x < 256)%N) b ->
    length a = length b ->
    bytes_lt a b = (bytes_val a <? bytes_val b)%N.
Proof.
  induction a as [| x a IH]; intros b Ha Hb Hlen.
  - destruct b as [| y b]; [reflexivity | discriminate Hlen].
  - destruct b as [| y b]; [discriminate Hlen |].
    injection Hlen as Hlen.
    inversion Ha as [| x' a' Hx Ha']; subst.
    inversion Hb as [| y' b' Hy Hb']; subst.
    rewrite !bytes_val_cons. rewrite <- Hlen.
    rewrite u256_lex_ltb.
    + cbn [bytes_lt]. rewrite (IH b Ha' Hb' Hlen). reflexivity.
    + apply bytes_val_bound. exact Ha'.
    + rewrite Hlen. apply bytes_val_bound. exact Hb'.
Qed.

Theorem bytes_distance_compare :
  forall t a b,
    Forall (fun x => (x < 256)%N) t ->
    Forall (fun x => (x < 256)%N) a ->
    Forall (fun x => (x < 256)%N) b ->
    length a = length t -> length b = length t ->
    bytes_lt (bytes_xor t a) (bytes_xor t b) =
      (N.lxor (bytes_val t) (bytes_val a) <? N.lxor (bytes_val t) (bytes_val b))%N
    /\
    bytes_lt (bytes_xor t a) (bytes_xor t b) =
      klt (kxor (key_of_bytes t) (key_of_bytes a)) (kxor (key_of_bytes t) (key_of_bytes b)).
Proof.
  intros t a b Ht Ha Hb Hla Hlb.
  assert (Hnum :
    bytes_lt (bytes_xor t a) (bytes_xor t b) =
    (N.lxor (bytes_val t) (bytes_val a) <? N.lxor (bytes_val t) (bytes_val b))%N).
  { rewrite bytes_lt_val.
    - rewrite <- !val_key_of_bytes by (apply bytes_xor_Forall; assumption).
      rewrite !key_of_bytes_xor_gen.
      rewrite !val_kxor by (rewrite !key_of_bytes_length; lia).
      rewrite !val_key_of_bytes by assumption. reflexivity.
    - apply bytes_xor_Forall; assumption.
    - apply bytes_xor_Forall; assumption.
    - rewrite !bytes_xor_length_eq by (symmetry; assumption). reflexivity. }
  split; [exact Hnum |].
  rewrite Hnum.
  rewrite distance_compare by (rewrite !key_of_bytes_length; lia).
  rewrite !val_key_of_bytes by assumption. reflexivity.
Qed.
