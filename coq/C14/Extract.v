From Coq Require Import ExtrOcamlBasic.
From V.C14 Require Import Glue.
Extraction Language OCaml.
Extraction "c14_model.ml" run_case prop_ok known_class.
