(* C11 — origin of the accepted-inbound state. *)
From Coq Require Import List NArith Bool Lia.
From V.C11 Require Import Model PBase PAlt.
Import ListNotations.
Open Scope N_scope.

(* ================================================================== the accepted-inbound state has an origin *)
Definition acc_inb (x : option pstate) : bool :=
  match x with Some (Validating _ _ (ISending | IOpen)) => true | _ => false end.

(* the two transitions that accept an inbound substream: the user's Accept for a substream that is
   being validated, and the auto-accept branch (auto_accept configured and an outbound substream
   already initiated) when the remote handshake has been read *)
Definition is_accept (c : cfg) (s : st) (o : op) (p : peer) : bool :=
  match o with
  | Validate q true =>
      (q =? p) && hval s p &&
      match ps s p with Some (Validating _ _ IValidating) => true | _ => false end
  | HsIn q true =>
      (q =? p) && hsI s p && auto_accept c &&
      match ps s p with Some (Validating _ ob IReading) => negb (o_closed ob) | _ => false end
  | _ => false
  end.

Definition noacc (s s' : st) : Prop := forall q, acc_inb (ps s' q) = true -> acc_inb (ps s q) = true.

Ltac acc_close :=
  let q := fresh "q" in let A := fresh "A" in let N0 := fresh "N" in let E := fresh "E" in
  intros q A N0; setters; unfold upd in A;
  repeat match type of A with context [q =? ?p] => destruct (q =? p) eqn:E; [apply N.eqb_eq in E; subst q|] end;
  try congruence; cbn in A; try discriminate A;
  repeat match goal with E : ps _ _ = _ |- _ => rewrite E in N0 end; cbn in N0; try discriminate N0;
  repeat match goal with E : _ && _ = true |- _ => apply andb_true_iff in E; destruct E end;
  cbn [is_accept]; rewrite ?N.eqb_refl;
  repeat match goal with E : _ = _ |- _ => rewrite E end; cbn; try reflexivity; try congruence.

Lemma noacc_on_shutdown s p q : acc_inb (ps (on_shutdown s p) q) = true -> acc_inb (ps s q) = true.
Proof.
  unfold on_shutdown. destruct (ps s p) as [[]|] eqn:Hp; auto. destruct (task_closed s k); auto.
  setters. unfold upd. destruct (q =? p); auto. discriminate.
Qed.

Lemma accept_main c s o s1 ev cl :
  main_handler c s o = Some (s1, ev, cl) ->
  forall q, acc_inb (ps s1 q) = true -> acc_inb (ps s q) = false -> is_accept c s o q = true.
Proof.
  intros M. destruct o; unfold_handlers M.
  all: try (split_all; try (acc_close; fail); fail).
  - split_all; try (acc_close; fail). intros q A N0. apply noacc_on_shutdown in A. setters. congruence.
  - match type of M with context [finish_tasks ?a ?b] => destruct (finish_tasks a b) as [[l' e'] n'] end.
    split_all. intros q A N0. unfold run_shutdowns in A.
    match type of A with context [if ?b then _ else _] => destruct b end; [|apply noacc_on_shutdown in A]; setters; congruence.
  - split_all; try (acc_close; fail). intros q A N0. apply noacc_on_shutdown in A. setters. congruence.
Qed.

Lemma noacc_on_validation s p s1 ev cl q :
  on_validation s p false = Some (s1, ev, cl) -> acc_inb (ps s1 q) = true -> acc_inb (ps s q) = true.
Proof.
  intros M. unfold on_validation, svc_open, ok, ok_ev in M. setters_in M.
  split_all; intros A; setters; unfold upd in A;
    repeat match type of A with context [q =? ?r] => destruct (q =? r) end; auto; discriminate A.
Qed.

Lemma noacc_task_dies s k s' ev q : task_dies s k = (s', ev) -> acc_inb (ps s' q) = true -> acc_inb (ps s q) = true.
Proof.
  unfold task_dies. destruct (find_task k (tasks s)) as [t|]; [|intros E; injection E as <- _; auto].
  destruct (t_closing t); [intros E; injection E as <- _; auto|].
  destruct (t_gated t); intros E; injection E as <- _; auto.
  intros A. apply noacc_on_shutdown in A. exact A.
Qed.

Lemma noacc_kill ks : forall s s' ev q, kill_tasks s ks = (s', ev) -> acc_inb (ps s' q) = true -> acc_inb (ps s q) = true.
Proof.
  induction ks as [|k t IH]; intros s s' ev q; cbn.
  - intros E; injection E as <- _; auto.
  - destruct (task_dies s k) as [s1 e1] eqn:E1. destruct (kill_tasks s1 t) as [s2 e2] eqn:E2.
    intros E; injection E as <- _. intros A. eapply noacc_task_dies; eauto.
Qed.

Lemma accept_step c s o s' ev cl q :
  step c s o = Some (s', ev, cl) -> acc_inb (ps s' q) = true -> acc_inb (ps s q) = false ->
  is_accept c s o q = true.
Proof.
  unfold step. destruct (main_handler c s o) as [[[s1 ev1] cl1]|] eqn:M; [|discriminate].
  destruct (drain s1 ev1) as [[s2 dr] ks] eqn:D. pose proof (drain_tasks _ _ _ _ _ D) as (P2 & _).
  destruct (kill_tasks s2 ks) as [s4 ev4] eqn:K.
  destruct (drain s4 ev4) as [[s5 x] y] eqn:D5. pose proof (drain_tasks _ _ _ _ _ D5) as (P5 & _).
  intros E; injection E as <- _ _. rewrite P5. intros A N0.
  eapply accept_main; eauto. rewrite <- P2.
  eapply noacc_kill; eauto.
Qed.

Lemma acc_history c p pre : forall s0 s,
  exec c s0 pre = Some s -> acc_inb (ps s p) = true ->
  acc_inb (ps s0 p) = true \/
  exists pre1 a pre2 s1, pre = pre1 ++ a :: pre2 /\ exec c s0 pre1 = Some s1 /\ is_accept c s1 a p = true.
Proof.
  induction pre as [|a t IH]; intros s0 s; cbn.
  - intros E; injection E as <-. auto.
  - destruct (step c s0 a) as [[[s1 ev] cl]|] eqn:S; [|discriminate].
    intros E A. destruct (IH _ _ E A) as [A1|(pre1 & b & pre2 & s2 & -> & E1 & Acc)].
    + destruct (acc_inb (ps s0 p)) eqn:A0; auto. right.
      exists [], a, t, s0. repeat split; auto. eapply accept_step; eauto.
    + right. exists (a :: pre1), b, pre2, s2. repeat split; auto. cbn. now rewrite S.
Qed.

Lemma accepted_in_acc x d : accepted_in x d -> acc_inb x = true.
Proof. intros [(i & -> & ->)|(o & -> & ->)]; reflexivity. Qed.

Lemma inbound_needs_accept c pre s o s' ev cl p d :
  exec c init pre = Some s -> step c s o = Some (s', ev, cl) -> In (UOpened p d) ev ->
  exists pre1 a pre2 s1,
    pre = pre1 ++ a :: pre2 /\ exec c init pre1 = Some s1 /\ is_accept c s1 a p = true.
Proof.
  intros E S HIn. pose proof (accepted_in_acc _ _ (step_opened _ _ _ _ _ _ _ _ S HIn)) as A.
  destruct (acc_history c p pre init s E A) as [A0|X]; auto. discriminate A0.
Qed.

