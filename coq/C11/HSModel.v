(* C11 — executable model of HandshakeService (src/protocol/notification/negotiation.rs) on its own: the map
   `substreams` with the per-substream handshake state and negotiation timer, the queue `ready`, the calls
   NotificationProtocol makes (negotiate_outbound, read_handshake, send_handshake, remove_outbound,
   remove_inbound) and one `poll_next`. The byte carrier of a substream is a record of flags the
   environment sets (a handshake frame can be read, the remote closed, writes fail, flushes complete).
   `poll_next` visits the map in an order nobody controls: the order is an input of `poll` (the harness reads
   it from the implementation). Definitions only. *)
From Coq Require Import List NArith Bool.
Import ListNotations.
Open Scope N_scope.

Definition peer := N.
(* key of `substreams`: 2 * peer for the inbound, 2 * peer + 1 for the outbound substream *)
Definition key := N.
Definition kpeer (k : key) : peer := k / 2.
Definition kout (k : key) : bool := N.odd k.
Definition mkkey (p : peer) (out : bool) : key := 2 * p + (if out then 1 else 0).

(* HandshakeState; SinkReady is passed within one visit (poll_ready of an idle sink and start_send of the
   short handshake succeed at once), so a substream rests in one of three states between polls *)
Inductive hstage := SSend | SSent | SRead.

(* the carrier of the substream *)
Record hio := mkIo {
  i_frame : bool;    (* a handshake frame is waiting to be read *)
  i_eof : bool;      (* the remote closed: reads end *)
  i_werr : bool;     (* writes and flushes fail *)
  i_flush : bool     (* flushes complete *)
}.
Definition io0 : hio := mkIo false false false false.

Record hent := mkE { e_key : key; e_stage : hstage; e_io : hio; e_timed : bool (* the negotiation timer fired *) }.

Record hs := mkHs {
  ents : list hent;              (* substreams: at most one entry per key *)
  ready : list (key * bool)      (* ready: key, and whether the entry carries a handshake that was read *)
}.
Definition hs0 : hs := mkHs [] [].

Fixpoint find (k : key) (l : list hent) : option hent :=
  match l with
  | [] => None
  | e :: t => if e_key e =? k then Some e else find k t
  end.
Definition del (k : key) (l : list hent) : list hent := filter (fun e => negb (e_key e =? k)) l.
Definition put (e : hent) (l : list hent) : list hent := e :: del (e_key e) l.   (* HashMap::insert *)
Definition has (k : key) (h : hs) : bool := match find k (ents h) with Some _ => true | None => false end.

(* ---- the calls of NotificationProtocol ---- *)
Inductive hcall :=
| NegOut (p : peer)        (* negotiate_outbound: send our handshake, read theirs *)
| ReadIn (p : peer)        (* read_handshake *)
| SendIn (p : peer)        (* send_handshake *)
| RemOut (p : peer) | RemIn (p : peer).

(* A completed handshake queued in `ready` belongs to the substream registered under its key at that moment.
   Repaired code (`forget`): it goes away with that substream — when the substream is removed and when another one
   is registered under the key. The original code (call0) left it in the queue. *)
Definition forget (k : key) (r : list (key * bool)) : list (key * bool) := filter (fun e => negb (fst e =? k)) r.

Definition call_gen (fx : bool) (h : hs) (c : hcall) : hs :=
  let fg := fun k r => if fx then forget k r else r in
  match c with
  | NegOut p => mkHs (put (mkE (mkkey p true) SSend io0 false) (ents h)) (fg (mkkey p true) (ready h))
  | ReadIn p => mkHs (put (mkE (mkkey p false) SRead io0 false) (ents h)) (fg (mkkey p false) (ready h))
  | SendIn p => mkHs (put (mkE (mkkey p false) SSend io0 false) (ents h)) (fg (mkkey p false) (ready h))
  | RemOut p => mkHs (del (mkkey p true) (ents h)) (fg (mkkey p true) (ready h))
  | RemIn p => mkHs (del (mkkey p false) (ents h)) (fg (mkkey p false) (ready h))
  end.
Definition call := call_gen true.
Definition call0 := call_gen false.

(* ---- what the environment does to the carrier of the substream under key k, and its timer ---- *)
Inductive henv := EFrame | EEof | EWerr | EFlush | ETimeout.

Definition env_io (x : henv) (i : hio) : hio :=
  match x with
  | EFrame => mkIo true (i_eof i) (i_werr i) (i_flush i)
  | EEof => mkIo (i_frame i) true (i_werr i) (i_flush i)
  | EWerr => mkIo (i_frame i) (i_eof i) true (i_flush i)
  | EFlush => mkIo (i_frame i) (i_eof i) (i_werr i) true
  | ETimeout => i
  end.

Definition env (h : hs) (k : key) (x : henv) : hs :=
  mkHs (map (fun e => if e_key e =? k
                      then mkE k (e_stage e) (env_io x (e_io e))
                               (match x with ETimeout => true | _ => e_timed e end)
                      else e) (ents h))
       (ready h).

(* ---- one visit of a substream by poll_next ---- *)
Inductive visit_res :=
| VErr                       (* NegotiationError returned at once *)
| VNeg (e : hent) (rd : bool)   (* pushed to `ready`; the entry stays in the map *)
| VWait (e : hent).          (* Poll::Pending: the loop goes on *)

Definition read_stage (e : hent) : visit_res :=
  let i := e_io e in
  if i_frame i then VNeg (mkE (e_key e) SRead (mkIo false (i_eof i) (i_werr i) (i_flush i)) (e_timed e)) true
  else if i_eof i then VErr
  else VWait (mkE (e_key e) SRead i (e_timed e)).

Definition visit1 (e : hent) : visit_res :=
  if e_timed e then VErr else
  match e_stage e with
  | SSend | SSent =>
      (* poll_ready, start_send, then poll_flush *)
      if i_werr (e_io e) then VErr
      else if i_flush (e_io e) then
        if kout (e_key e) then read_stage (mkE (e_key e) SRead (e_io e) (e_timed e))
        else VNeg (mkE (e_key e) SSent (e_io e) (e_timed e)) false
      else VWait (mkE (e_key e) SSent (e_io e) (e_timed e))
  | SRead => read_stage e
  end.

(* result of a poll: nothing, Negotiated (key, with a read handshake?), NegotiationError (key) *)
Inductive pres := PPending | PNeg (k : key) (rd : bool) | PErr (k : key).

(* the loop over the map in the given order *)
Fixpoint visit (h : hs) (ord : list key) : hs * option key :=
  match ord with
  | [] => (h, None)
  | k :: t =>
      match find k (ents h) with
      | None => visit h t
      | Some e =>
          match visit1 e with
          | VErr => (h, Some k)
          | VNeg e' rd => visit (mkHs (put e' (ents h)) (ready h ++ [(k, rd)])) t
          | VWait e' => visit (mkHs (put e' (ents h)) (ready h)) t
          end
      end
  end.

(* pop_event: entries of `ready` whose key is no longer in the map are skipped *)
Fixpoint pop (l : list hent) (r : list (key * bool)) : option (key * bool) * list (key * bool) :=
  match r with
  | [] => (None, [])
  | (k, rd) :: t => match find k l with Some _ => (Some (k, rd), t) | None => pop l t end
  end.

Definition poll (h : hs) (ord : list key) : hs * pres :=
  match pop (ents h) (ready h) with
  | (Some (k, rd), r) => (mkHs (del k (ents h)) r, PNeg k rd)
  | (None, r) =>
      let h0 := mkHs (ents h) r in
      match ents h with
      | [] => (h0, PPending)
      | _ :: _ =>
          match visit h0 ord with
          | (h1, Some k) => (h1, PErr k)
          | (h1, None) =>
              match ready h1 with
              | (k, rd) :: t => (mkHs (del k (ents h1)) t, PNeg k rd)
              | [] => (h1, PPending)
              end
          end
      end
  end.

(* ---- histories ---- *)
Inductive hop := HCall (c : hcall) | HEnv (k : key) (x : henv) | HPoll (ord : list key).

Definition hstep_gen (fx : bool) (h : hs) (o : hop) : hs * pres :=
  match o with
  | HCall c => (call_gen fx h c, PPending)
  | HEnv k x => (env h k x, PPending)
  | HPoll ord => poll h ord
  end.
Definition hstep := hstep_gen true.

Fixpoint hrun_gen (fx : bool) (h : hs) (l : list hop) : list (hs * pres) :=
  match l with
  | [] => []
  | o :: t => let '(h1, r) := hstep_gen fx h o in (h1, r) :: hrun_gen fx h1 t
  end.
Definition hrun := hrun_gen true.
(* the original code *)
Definition hrun0 := hrun_gen false.
