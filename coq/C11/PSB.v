(* C11 — no-stuck invariant, substream-id bookkeeping: requests in flight, pending_outbound and peer states agree. *)
From Coq Require Import List NArith Bool Lia.
From V.C11 Require Import Model PBase.
Import ListNotations.
Open Scope N_scope.

Definition wq (x : option pstate) : option sid :=
  match x with
  | Some (OutInit y) => Some y
  | Some (Validating _ (OInit y) _) => Some y
  | Some (Closed (Some y)) => Some y
  | _ => None
  end.

(* per-peer part: connectivity, handshake-service membership and peer state agree *)
(* ---- substream-id bookkeeping: transport requests, pending_outbound and peer states agree ---- *)
Definition SB (s : st) : Prop :=
  (forall x q, In (x, q) (spend s) ->
     x < nsid s /\ pend_find x (pend s) = Some q /\ wq (ps s q) = Some x) /\
  (forall p x, wq (ps s p) = Some x -> x < nsid s /\ forall q, In (x, q) (spend s) -> q = p).

Lemma in_pend_remove x y (q : peer) l : In (y, q) (pend_remove x l) <-> In (y, q) l /\ y <> x.
Proof.
  unfold pend_remove. rewrite filter_In. cbn. split; intros [A B]; split; auto.
  - intros E. subst. rewrite N.eqb_refl in B. discriminate.
  - destruct (y =? x) eqn:E; auto. apply N.eqb_eq in E. contradiction.
Qed.

Lemma in_drop_peer p y (q : peer) l : In (y, q) (drop_peer p l) <-> In (y, q) l /\ q <> p.
Proof.
  unfold drop_peer. rewrite filter_In. cbn. split; intros [A B]; split; auto.
  - intros E. subst. rewrite N.eqb_refl in B. discriminate.
  - destruct (q =? p) eqn:E; auto. apply N.eqb_eq in E. contradiction.
Qed.

Lemma pend_find_remove_other x y l : y <> x -> pend_find y (pend_remove x l) = pend_find y l.
Proof.
  intros H. induction l as [|[z q] l IH]; cbn; auto.
  destruct (z =? x) eqn:E1; cbn.
  - apply N.eqb_eq in E1. subst z. destruct (x =? y) eqn:E2; auto. apply N.eqb_eq in E2. congruence.
  - destruct (z =? y); auto.
Qed.

Lemma pend_find_insert_same x p l : pend_find x (pend_insert x p l) = Some p.
Proof. unfold pend_insert. cbn. now rewrite N.eqb_refl. Qed.

Lemma pend_find_insert_other x y p l : y <> x -> pend_find y (pend_insert x p l) = pend_find y l.
Proof.
  intros H. unfold pend_insert. cbn. destruct (x =? y) eqn:E.
  - apply N.eqb_eq in E. congruence.
  - now apply pend_find_remove_other.
Qed.

Lemma pend_find_drop_peer p y q l : pend_find y l = Some q -> q <> p -> pend_find y (drop_peer p l) = Some q.
Proof.
  intros H Hq. induction l as [|[z r] l IH]; cbn in *; [discriminate|].
  destruct (z =? y) eqn:E.
  - inversion H; subst. destruct (q =? p) eqn:E2; cbn [negb].
    + apply N.eqb_eq in E2. contradiction.
    + cbn. now rewrite E.
  - destruct (negb (r =? p)); cbn; auto. rewrite E. auto.
Qed.

Lemma first_req_in p l x : first_req p l = Some x -> In (x, p) l.
Proof.
  induction l as [|[y q] l IH]; cbn; [discriminate|].
  destruct (q =? p) eqn:E.
  - intros H; inversion H; subst. apply N.eqb_eq in E. subst. auto.
  - auto.
Qed.

Definition ps_at (s s' : st) (p : peer) (v : option pstate) : Prop :=
  forall q, ps s' q = if q =? p then v else ps s q.

Lemma SB_q s s' :
  SB s -> pend s' = pend s -> spend s' = spend s -> nsid s <= nsid s' ->
  (forall q, wq (ps s' q) = wq (ps s q)) -> SB s'.
Proof.
  intros [B1 B2] P S N0 W. split; rewrite ?P, ?S.
  - intros x q H. destruct (B1 x q H) as (A1 & A2 & A3). rewrite W. repeat split; auto. lia.
  - intros p x H. rewrite W in H. destruct (B2 p x H). split; auto. lia.
Qed.

Lemma SB_reuse s s' p x v :
  SB s -> wq (ps s p) = Some x -> ps_at s s' p v -> wq v = Some x ->
  pend s' = pend_insert x p (pend s) -> spend s' = spend s -> nsid s' = nsid s -> SB s'.
Proof.
  intros [B1 B2] Wp PA Wv P S N0. split; rewrite ?P, ?S, ?N0.
  - intros y q H. destruct (B1 y q H) as (A1 & A2 & A3). rewrite PA.
    destruct (N.eq_dec y x) as [->|Hne].
    + assert (q = p) by (eapply B2; eauto). subst q. rewrite N.eqb_refl, pend_find_insert_same. auto.
    + rewrite pend_find_insert_other by auto. destruct (q =? p) eqn:E; auto.
      apply N.eqb_eq in E. subst q. congruence.
  - intros r y H. rewrite PA in H. destruct (r =? p) eqn:E.
    + apply N.eqb_eq in E. subst r. rewrite Wv in H. inversion H; subst. apply B2; auto.
    + apply B2; auto.
Qed.

Lemma SB_new s s' p v :
  SB s -> wq (ps s p) = None -> ps_at s s' p v -> wq v = Some (nsid s) ->
  pend s' = pend_insert (nsid s) p (pend s) -> spend s' = spend s ++ [(nsid s, p)] ->
  nsid s' = nsid s + 1 -> SB s'.
Proof.
  intros [B1 B2] Wp PA Wv P S N0. split; rewrite ?P, ?S, ?N0.
  - intros y q H. apply in_app_or in H. destruct H as [H|[H|[]]].
    + destruct (B1 y q H) as (A1 & A2 & A3). rewrite PA.
      rewrite pend_find_insert_other by lia. destruct (q =? p) eqn:E.
      * apply N.eqb_eq in E. subst q. congruence.
      * repeat split; auto. lia.
    + inversion H; subst. rewrite PA, N.eqb_refl, pend_find_insert_same. repeat split; auto. lia.
  - intros r y H. rewrite PA in H. destruct (r =? p) eqn:E.
    + apply N.eqb_eq in E. subst r. rewrite Wv in H. inversion H; subst. split; [lia|].
      intros q Hq. apply in_app_or in Hq. destruct Hq as [Hq|[Hq|[]]].
      * destruct (B1 _ _ Hq). lia.
      * inversion Hq; auto.
    + destruct (B2 r y H) as [A1 A2]. split; [lia|].
      intros q Hq. apply in_app_or in Hq. destruct Hq as [Hq|[Hq|[]]]; auto.
      inversion Hq; subst. lia.
Qed.

Lemma SB_answer s s' p x v :
  SB s -> In (x, p) (spend s) -> ps_at s s' p v -> (wq v = None \/ wq v = Some x) ->
  pend s' = pend_remove x (pend s) -> spend s' = pend_remove x (spend s) -> nsid s' = nsid s -> SB s'.
Proof.
  intros [B1 B2] Hx PA Wv P S N0. destruct (B1 x p Hx) as (X1 & X2 & X3).
  split; rewrite ?P, ?S, ?N0.
  - intros y q H. apply in_pend_remove in H. destruct H as [H Hne].
    destruct (B1 y q H) as (A1 & A2 & A3). rewrite PA, pend_find_remove_other by auto.
    destruct (q =? p) eqn:E; auto. apply N.eqb_eq in E. subst q. congruence.
  - intros r y H. rewrite PA in H. destruct (r =? p) eqn:E.
    + apply N.eqb_eq in E. subst r. destruct Wv as [Wv|Wv]; rewrite Wv in H; [discriminate|].
      inversion H; subst. split; auto. intros q Hq. apply in_pend_remove in Hq. tauto.
    + destruct (B2 r y H) as [A1 A2]. split; auto.
      intros q Hq. apply in_pend_remove in Hq. apply A2. tauto.
Qed.

Lemma SB_closed s s' p v :
  SB s -> ps_at s s' p v -> wq v = None ->
  pend s' = drop_peer p (pend s) -> spend s' = drop_peer p (spend s) -> nsid s' = nsid s -> SB s'.
Proof.
  intros [B1 B2] PA Wv P S N0. split; rewrite ?P, ?S, ?N0.
  - intros y q H. apply in_drop_peer in H. destruct H as [H Hne].
    destruct (B1 y q H) as (A1 & A2 & A3). rewrite PA.
    apply N.eqb_neq in Hne. rewrite Hne. apply N.eqb_neq in Hne.
    repeat split; auto. now apply pend_find_drop_peer.
  - intros r y H. rewrite PA in H. destruct (r =? p) eqn:E.
    + rewrite Wv in H. discriminate.
    + destruct (B2 r y H) as [A1 A2]. split; auto.
      intros q Hq. apply in_drop_peer in Hq. apply A2. tauto.
Qed.

(* a remembered id that pending_outbound no longer lists is not owed by the transport: it can be
   replaced by a fresh request, or forgotten *)
Lemma SB_new_stale s s' p d v :
  SB s -> wq (ps s p) = Some d -> pend_find d (pend s) = None -> ps_at s s' p v -> wq v = Some (nsid s) ->
  pend s' = pend_insert (nsid s) p (pend s) -> spend s' = spend s ++ [(nsid s, p)] ->
  nsid s' = nsid s + 1 -> SB s'.
Proof.
  intros [B1 B2] Wp Pn PA Wv P S N0. split; rewrite ?P, ?S, ?N0.
  - intros y q H. apply in_app_or in H. destruct H as [H|[H|[]]].
    + destruct (B1 y q H) as (A1 & A2 & A3). rewrite PA.
      rewrite pend_find_insert_other by lia. destruct (q =? p) eqn:E.
      * apply N.eqb_eq in E. subst q. congruence.
      * repeat split; auto. lia.
    + inversion H; subst. rewrite PA, N.eqb_refl, pend_find_insert_same. repeat split; auto. lia.
  - intros r y H. rewrite PA in H. destruct (r =? p) eqn:E.
    + apply N.eqb_eq in E. subst r. rewrite Wv in H. inversion H; subst. split; [lia|].
      intros q Hq. apply in_app_or in Hq. destruct Hq as [Hq|[Hq|[]]].
      * destruct (B1 _ _ Hq). lia.
      * inversion Hq; auto.
    + destruct (B2 r y H) as [A1 A2]. split; [lia|].
      intros q Hq. apply in_app_or in Hq. destruct Hq as [Hq|[Hq|[]]]; auto.
      inversion Hq; subst. lia.
Qed.

Lemma SB_forget s s' p d v :
  SB s -> wq (ps s p) = Some d -> pend_find d (pend s) = None -> ps_at s s' p v -> wq v = None ->
  pend s' = pend s -> spend s' = spend s -> nsid s <= nsid s' -> SB s'.
Proof.
  intros [B1 B2] Wp Pn PA Wv P S N0. split; rewrite ?P, ?S.
  - intros y q H. destruct (B1 y q H) as (A1 & A2 & A3). rewrite PA. destruct (q =? p) eqn:E.
    + apply N.eqb_eq in E. subst q. congruence.
    + repeat split; auto. lia.
  - intros r y H. rewrite PA in H. destruct (r =? p) eqn:E.
    + rewrite Wv in H. discriminate.
    + destruct (B2 r y H) as [A1 A2]. split; auto. lia.
Qed.

Ltac wq_close :=
  let q := fresh "q" in intro q; setters; unfold upd;
  repeat (match goal with |- context [q =? ?p] => let E := fresh "E" in destruct (q =? p) eqn:E; [apply N.eqb_eq in E; subst q|] end);
  try reflexivity; repeat match goal with E : ps _ _ = _ |- _ => rewrite E end;
  repeat match goal with o : outb |- _ => destruct o end; try reflexivity.
Ltac psat_close :=
  let q := fresh "q" in intro q; setters; unfold upd;
  repeat match goal with |- context [q =? ?p] => destruct (q =? p) end; reflexivity.
Ltac wqp := repeat match goal with E : ps _ _ = _ |- _ => rewrite E end; reflexivity.
Ltac SB_q_close B := eapply (SB_q _ _ B); [reflexivity | reflexivity | setters; lia | wq_close].
Ltac SB_new_close B :=
  match goal with |- context [spend ?s ++ [(nsid ?s, ?p)]] =>
    eapply (SB_new s _ p _ B); [wqp | psat_close | reflexivity | reflexivity | reflexivity | reflexivity] end.
Ltac SB_closed_close B :=
  match goal with |- context [drop_peer ?p (spend ?s)] =>
    eapply (SB_closed s _ p _ B); [psat_close | reflexivity | reflexivity | reflexivity | reflexivity] end.
Ltac SB_reuse_close B :=
  match goal with |- context [pend_insert ?y ?p (pend ?s)] =>
    eapply (SB_reuse s _ p y _ B); [wqp | psat_close | reflexivity | reflexivity | reflexivity | reflexivity] end.
Ltac same_peer B :=
  match goal with
  | Hf : first_req ?p (spend ?s) = Some ?x, Hq : pend_find ?x (pend ?s) = Some ?p0 |- _ =>
      let K := fresh "K" in
      pose proof (proj1 B x p (first_req_in _ _ _ Hf)) as K; destruct K as (_ & K & _);
      rewrite Hq in K; injection K as K; subst p0
  | _ => idtac
  end;
  match goal with
  | Hf : first_req ?p (spend ?s) = Some ?x |- _ =>
      let K := fresh "K" in
      pose proof (proj1 B x p (first_req_in _ _ _ Hf)) as K; destruct K as (_ & _ & K);
      repeat match goal with E : ps _ _ = _ |- _ => rewrite E in K end; cbn in K;
      try discriminate K; try (injection K as K; subst)
  | _ => idtac
  end.
Ltac SB_answer_close B :=
  same_peer B;
  match goal with Hf : first_req ?p (spend ?s) = Some ?x |- _ =>
    eapply (SB_answer s _ p x _ B);
    [apply first_req_in; exact Hf | psat_close | first [left; reflexivity | right; reflexivity]
    | reflexivity | reflexivity | reflexivity] end.
Ltac SB_new_stale_close B :=
  match goal with Hn : pend_find ?d (pend ?s) = None |- context [spend ?s ++ [(nsid ?s, ?p)]] =>
    eapply (SB_new_stale s _ p d _ B); [wqp | exact Hn | psat_close | reflexivity | reflexivity | reflexivity | reflexivity] end.
Ltac SB_forget_close B :=
  match goal with Hn : pend_find ?d (pend ?s) = None, Hp : ps ?s ?p = Some (Closed (Some ?d)) |- _ =>
    eapply (SB_forget s _ p d _ B); [wqp | exact Hn | psat_close | reflexivity | reflexivity | reflexivity | setters; lia] end.
Ltac SB_close B := first [SB_new_stale_close B | SB_forget_close B | SB_q_close B | SB_new_close B | SB_closed_close B
                         | SB_reuse_close B | SB_answer_close B].

Lemma SB_on_shutdown s p : SB s -> SB (on_shutdown s p).
Proof.
  intros B. unfold on_shutdown. destruct (ps s p) as [[]|] eqn:Hp; auto.
  destruct (task_closed s k); auto. SB_q_close B.
Qed.

Lemma SB_main c s o s1 ev cl : SB s -> main_handler c s o = Some (s1, ev, cl) -> SB s1.
Proof.
  intros B M. destruct o; unfold_handlers M.
  all: try (split_all; try (SB_close B; fail); fail).
  - split_all; try (SB_close B; fail). apply SB_on_shutdown. SB_q_close B.
  - match type of M with context [finish_tasks ?a ?b] => destruct (finish_tasks a b) as [[? ?] ?] end.
    split_all. unfold run_shutdowns. match goal with |- context [if ?b then _ else _] => destruct b end; [|apply SB_on_shutdown]; SB_q_close B.
  - split_all; try (SB_close B; fail). apply SB_on_shutdown. SB_q_close B.
Qed.


Lemma SB_on_validation s p a s1 ev cl : SB s -> on_validation s p a = Some (s1, ev, cl) -> SB s1.
Proof.
  intros B M. unfold on_validation, svc_open, ok, ok_ev in M. setters_in M.
  split_all; SB_close B.
Qed.


Lemma spend_owner s x p q : SB s -> In (x, q) (spend s) -> In (x, p) (spend s) -> q = p.
Proof.
  intros [B1 _] H1 H2. destruct (B1 _ _ H1) as (_ & A & _). destruct (B1 _ _ H2) as (_ & A' & _). congruence.
Qed.


