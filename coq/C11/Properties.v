(* C11 — Notification streams follow a strict open/close protocol towards the user.
   Theorems about coq/C11/Model.v (see Proofs.v); every statement is closed under the global context. *)
From Coq Require Import List NArith Bool.
From V.C11 Require Import Model Proofs.
Import ListNotations.
Open Scope N_scope.

(* Event grammar per peer, for every configuration and every history of events in which Connection
   tasks close promptly (no Gate / gated TaskDie): NotificationStreamOpened and
   NotificationStreamClosed alternate strictly, starting with Opened, and no
   NotificationStreamOpenFailure is reported between an Opened and its Closed
   (`grammar` returns None on the first offending event). *)
Theorem C11_alternation :
  forall (c : cfg) (ops : list op),
    forallb prompt_op ops = true ->
    exists h, grammar (fun _ => false) (events (fst (run c init ops))) = Some h.
Proof. exact alternation_prompt. Qed.
Print Assumptions C11_alternation.

(* Without the promptness assumption the grammar fails (finding class 1): a stream whose Connection
   task is slow to close is re-opened by the remote before the old Closed is reported. *)
Theorem C11_alternation_refuted :
  exists (c : cfg) (ops : list op),
    grammar (fun _ => false) (events (fst (run c init ops))) = None.
Proof. exists cfg_w, w_slow_close. vm_compute. reflexivity. Qed.
Print Assumptions C11_alternation_refuted.

(* A stream is reported opened only in a step that starts with the inbound substream accepted
   (local handshake being sent or sent, which only on_validation_result(Accept) and the auto-accept
   branch produce) and the other half completing — in every state, reachable or not. *)
Theorem C11_opened_needs_accepted_inbound :
  forall (c : cfg) (s : st) (o : op) (s' : st) (ev : list uev) (calls : list call) (p : peer) (d : dir),
    step c s o = Some (s', ev, calls) -> In (UOpened p d) ev -> accepted_in (ps s p) d.
Proof. exact step_opened. Qed.
Print Assumptions C11_opened_needs_accepted_inbound.

(* When the connection to a peer with an open stream is lost, NotificationStreamClosed is reported in
   the same step (prompt histories; with a slow Connection task it is reported when the task is done). *)
Theorem C11_closed_on_disconnect :
  forall (c : cfg) (ops : list op) (x : st * list uev * list call) (p : peer) (k : N)
         (s' : st) (ev : list uev) (calls : list call),
    forallb prompt_op ops = true -> In x (fst (run c init ops)) ->
    conn (fst (fst x)) p = true -> ps (fst (fst x)) p = Some (Open k) ->
    step c (fst (fst x)) (ConnClosed p) = Some (s', ev, calls) -> In (UClosed p) ev.
Proof. exact closed_on_disconnect_prompt. Qed.
Print Assumptions C11_closed_on_disconnect.

Theorem C11_closed_on_user_close :
  forall (c : cfg) (ops : list op) (x : st * list uev * list call) (p : peer) (k : N)
         (s' : st) (ev : list uev) (calls : list call),
    forallb prompt_op ops = true -> In x (fst (run c init ops)) ->
    ps (fst (fst x)) p = Some (Open k) ->
    step c (fst (fst x)) (CmdClose p) = Some (s', ev, calls) -> In (UClosed p) ev.
Proof. exact closed_on_user_close_prompt. Qed.
Print Assumptions C11_closed_on_user_close.

(* Finding class 2: after the outbound substream of an accepted inbound stream fails to open, the
   failed id stays in pending_open; the next open request adopts it although the transport owes
   nothing for it (spend = []), so the request is never answered. *)
Theorem C11_open_answered_refuted :
  exists (c : cfg) (ops : list op),
    ps (last_state c ops) 0 = Some (OutInit 0) /\ spend (last_state c ops) = [] /\
    last ops (Timer 0) = CmdOpen 0.
Proof. exists cfg_w0, w_failed_sid. vm_compute. repeat split. Qed.
Print Assumptions C11_open_answered_refuted.

(* non-vacuity: a prompt history that opens a stream and closes it *)
Example C11_open_close_run :
  forallb prompt_op (open_by_user ++ [CmdClose 0]) = true /\
  events (fst (run cfg_w init (open_by_user ++ [CmdClose 0]))) = [UOpened 0 DOut; UClosed 0].
Proof. vm_compute. split; reflexivity. Qed.
