(* C11 — Notification streams follow a strict open/close protocol towards the user.
   Theorems about coq/C11/Model.v (see Proofs.v); every statement is closed under the global context. *)
From Coq Require Import List NArith Bool.
From V.C11 Require Import Model Proofs.
From V.C11 Require HSModel HSProofs.
Import ListNotations.
Open Scope N_scope.

(* Event grammar per peer, for every configuration and EVERY history of events (user commands, remote
   behaviour, validation answers, disconnects, Connection tasks that close their substreams promptly, slowly
   or never): what the user is handed is such that NotificationStreamOpened and NotificationStreamClosed
   alternate strictly, starting with Opened, no NotificationStreamOpenFailure is reported between an Opened
   and its Closed, and NotificationReceived is delivered only between an Opened and its Closed — also when
   the notification was still queued in the handle while the stream closed (NotifyDie)
   (`grammar` returns None on the first offending event). Holds since the repair of finding class 1:
   NotificationProtocol reports the stream closed itself when it stops tracking it as open; the later
   report of the Connection task is recognised by its stream identifier and ignored (Model.drain). *)
Theorem C11_alternation :
  forall (c : cfg) (ops : list op),
    exists h, grammar (fun _ => false) (events (fst (run c init ops))) = Some h.
Proof. exact alternation_all. Qed.
Print Assumptions C11_alternation.

(* Before the repair (coq/C11/Before.v: the model of the code in which only the Connection task reported
   NotificationStreamClosed, after closing its substreams): the user closes a stream whose Connection task
   is slow to close, the remote re-opens, the old task finishes: Opened, (Validate,) Opened, Closed, Closed
   — and the late Closed removes the NEW sink from the handle, which kills the new stream. The same history
   in the repaired model: Opened, Closed, Validate, Opened. *)
Theorem C11_alternation_before_fix_refuted :
  Before.events (fst (Before.run cfg_w_before Before.init w_slow_close_before)) =
    [Before.UOpened 0 Before.DOut; Before.UValidate 0; Before.UOpened 0 Before.DIn; Before.UClosed 0; Before.UClosed 0] /\
  Before.grammar (fun _ => false) (Before.events (fst (Before.run cfg_w_before Before.init w_slow_close_before))) = None /\
  events (fst (run cfg_w init w_slow_close)) = [UOpened 0 DOut; UClosed 0; UValidate 0; UOpened 0 DIn].
Proof. exact C11_alternation_before_fix_refuted_pf. Qed.
Print Assumptions C11_alternation_before_fix_refuted.

(* The invariant behind it, in every reachable state: the user sees a stream of a peer open (the handle
   lists the peer) exactly when the protocol tracks one as open, and the sink the handle holds is the one
   of that stream. *)
Theorem C11_user_view_is_protocol_view :
  forall (c : cfg) (s : st), reachable c s ->
    (forall p, hopen s p = is_open (ps s p)) /\ (forall p k, ps s p = Some (Open k) -> hsink s p = Some k).
Proof. exact C11_user_view_is_protocol_view_pf. Qed.
Print Assumptions C11_user_view_is_protocol_view.

(* A stream is reported opened only in a step that starts with the inbound substream accepted
   (local handshake being sent or sent, which only on_validation_result(Accept) and the auto-accept
   branch produce) and the other half completing — in every state, reachable or not. *)
Theorem C11_opened_needs_accepted_inbound :
  forall (c : cfg) (s : st) (o : op) (s' : st) (ev : list uev) (calls : list call) (p : peer) (d : dir),
    step c s o = Some (s', ev, calls) -> In (UOpened p d) ev -> accepted_in (ps s p) d.
Proof. exact step_opened. Qed.
Print Assumptions C11_opened_needs_accepted_inbound.

(* When the connection to a peer with an open stream is lost, NotificationStreamClosed is handed to the user
   in the same step, in every reachable state — however long the Connection task takes to close. *)
Theorem C11_closed_on_disconnect :
  forall (c : cfg) (s : st) (p : peer) (k : N) (s' : st) (ev : list uev) (calls : list call),
    reachable c s -> conn s p = true -> ps s p = Some (Open k) ->
    step c s (ConnClosed p) = Some (s', ev, calls) -> In (UClosed p) ev.
Proof. exact C11_closed_on_disconnect_pf. Qed.
Print Assumptions C11_closed_on_disconnect.

Theorem C11_closed_on_user_close :
  forall (c : cfg) (s : st) (p : peer) (k : N) (s' : st) (ev : list uev) (calls : list call),
    reachable c s -> ps s p = Some (Open k) ->
    step c s (CmdClose p) = Some (s', ev, calls) -> In (UClosed p) ev.
Proof. exact C11_closed_on_user_close_pf. Qed.
Print Assumptions C11_closed_on_user_close.

(* A NotificationStreamClosed report that the handle does not ignore removes the sink it holds for the peer;
   in no step of any history is that the sink of a Connection task that is still running (the task would
   see its notification channels closed and end the stream): the third component of drain is empty. *)
Theorem C11_delivered_close_kills_nothing :
  forall (c : cfg) (s : st) (o : op) (s1 : st) (ev : list uev) (cl : list call) (s2 : st) (dr : list peer) (ks : list N),
    reachable c s -> main_handler c s o = Some (s1, ev, cl) -> drain s1 ev = (s2, dr, ks) -> ks = [].
Proof. exact C11_delivered_close_kills_nothing_pf. Qed.
Print Assumptions C11_delivered_close_kills_nothing.

(* ---- no stuck states ----
   The run function stops at the first stuck step (a debug_assert!(false) / Poisoned survivor of the
   Rust code); for every configuration and every history of events it never does. The environment
   assumptions are the guards of Model.main_handler, stated explicitly as the predicate `enabled`
   below: an event that is not enabled is not delivered. *)
Theorem C11_no_stuck :
  forall (c : cfg) (ops : list op), snd (run c init ops) = true.
Proof. exact C11_no_stuck_pf. Qed.
Print Assumptions C11_no_stuck.

(* the same with the environment predicate on the event sequence spelled out *)
Theorem C11_no_stuck_feasible :
  forall (c : cfg) (ops : list op), feasible c init ops = true -> snd (run c init ops) = true.
Proof. exact C11_no_stuck_feasible_pf. Qed.
Print Assumptions C11_no_stuck_feasible.

Theorem C11_guards_are_the_environment :
  forall (c : cfg) (s : st) (o : op), enabled s o = false -> main_handler c s o = Some (s, [], []).
Proof. exact disabled_noop. Qed.
Print Assumptions C11_guards_are_the_environment.

(* without the guards the handlers do get stuck: a second ConnectionEstablished for a connected peer *)
Theorem C11_no_stuck_needs_environment_refuted :
  exists (c : cfg) (ops : list op) (p : peer),
    conn (last_state c ops) p = true /\ on_established c (last_state c ops) p = None.
Proof. exact C11_no_stuck_needs_environment_refuted_pf. Qed.
Print Assumptions C11_no_stuck_needs_environment_refuted.

(* ---- isolation ----
   A step for peer p leaves every other peer's state, handshake-service membership, handle gate
   entries (peers, pending validation), connection state, newest task, and requests in flight
   untouched, and reports events / makes service calls only about p. (For those requests B1 of the
   invariant gives pending_outbound = Some q again in the new state.) *)
Theorem C11_isolation :
  forall (c : cfg) (s : st) (o : op) (s' : st) (ev : list uev) (cl : list call),
    reachable c s -> step c s o = Some (s', ev, cl) -> iso s s' (op_peer o) ev cl.
Proof. exact C11_isolation_pf. Qed.
Print Assumptions C11_isolation.

Theorem C11_runs_are_reachable :
  forall (c : cfg) (ops : list op) (x : st * list uev * list call),
    In x (fst (run c init ops)) -> reachable c (fst (fst x)).
Proof. exact C11_runs_are_reachable_pf. Qed.
Print Assumptions C11_runs_are_reachable.

(* ---- inbound streams only after an accept ----
   The accepted-inbound state (handshake being sent / sent) arises, for any peer and in any state,
   only from the user's Accept of a substream under validation or from the auto-accept branch
   (auto_accept configured and an outbound substream already initiated). *)
Theorem C11_accepted_only_by_accept :
  forall (c : cfg) (s : st) (o : op) (s' : st) (ev : list uev) (cl : list call) (q : peer),
    step c s o = Some (s', ev, cl) -> acc_inb (ps s' q) = true -> acc_inb (ps s q) = false ->
    is_accept c s o q = true.
Proof. exact accept_step. Qed.
Print Assumptions C11_accepted_only_by_accept.

(* Every NotificationStreamOpened in every history is preceded by such an accepting step for the peer. *)
Theorem C11_inbound_needs_accept :
  forall (c : cfg) (pre : list op) (s : st) (o : op) (s' : st) (ev : list uev) (cl : list call)
         (p : peer) (d : dir),
    exec c init pre = Some s -> step c s o = Some (s', ev, cl) -> In (UOpened p d) ev ->
    exists pre1 a pre2 s1,
      pre = pre1 ++ a :: pre2 /\ exec c init pre1 = Some s1 /\ is_accept c s1 a p = true.
Proof. exact inbound_needs_accept. Qed.
Print Assumptions C11_inbound_needs_accept.

(* ---- the open-request ledger ----
   `ledger` runs a history and keeps, per peer, whether an open request the protocol took up is still
   owed an answer (owed_next: cleared by Opened / OpenFailure for the peer only). Outside finding
   class 3 (ledger_env: the user does not Reject the peer's inbound substream while his own open request
   for that peer is in progress), whoever is owed an answer has the outbound half in progress and the
   environment still owes the protocol the event that will produce the answer (obligation): at
   quiescence nothing is owed. (The former second exclusion, finding class 2, is gone: repaired in the
   code, see C11_no_dead_substream_id and C11_open_answered_before_fix_refuted.) *)
Theorem C11_open_answered :
  forall (c : cfg) (ops : list op) (s : st) (owed : peer -> bool),
    ledger_env c init ops = true -> ledger c init (fun _ => false) ops = Some (s, owed) ->
    forall p, owed p = true -> in_progress (ps s p) = true /\ obligation s p = true.
Proof. exact open_answered. Qed.
Print Assumptions C11_open_answered.

Theorem C11_quiescent_nothing_owed :
  forall (c : cfg) (ops : list op) (s : st) (owed : peer -> bool) (p : peer),
    ledger_env c init ops = true -> ledger c init (fun _ => false) ops = Some (s, owed) ->
    obligation s p = false -> owed p = false.
Proof. exact C11_quiescent_nothing_owed_pf. Qed.
Print Assumptions C11_quiescent_nothing_owed.

(* never two answers: one step reports at most one Opened / OpenFailure per peer, and an answer
   clears the ledger entry (owed_next), in every state *)
Theorem C11_at_most_one_answer :
  forall (c : cfg) (s : st) (o : op) (s' : st) (ev : list uev) (cl : list call) (q : peer),
    step c s o = Some (s', ev, cl) -> (length (answers q ev) <= 1)%nat.
Proof. exact C11_at_most_one_answer_pf. Qed.
Print Assumptions C11_at_most_one_answer.

(* The former finding class 2, repaired (fix: commit). In every reachable state, whatever the user and
   the environment did: the substream id an outbound attempt in progress waits for (OutboundInitiated,
   Validating{outbound: OutboundInitiated}) is owed by the transport to this peer, and so is every entry
   of pending_outbound: no open request ever waits for a substream id whose open has already failed. *)
Theorem C11_no_dead_substream_id :
  forall (c : cfg) (s : st), reachable c s ->
    (forall p x, (ps s p = Some (OutInit x) \/ exists d i, ps s p = Some (Validating d (OInit x) i)) -> In (x, p) (spend s)) /\
    (forall x q, In (x, q) (pend s) -> In (x, q) (spend s)).
Proof. exact C11_no_dead_substream_id_pf. Qed.
Print Assumptions C11_no_dead_substream_id.

(* Before the repair (on_open_old: the arm `Closed { pending_open: Some(id) }` of on_open_substream
   adopted the remembered id unconditionally): after the outbound substream of an accepted inbound
   stream fails to open, the failed id 0 stays in pending_open, pending_outbound and the transport no
   longer know it; the next open request (the handle gate is open, the history is inside ledger_env) is
   taken up with that id: in progress, and nothing will ever produce its answer. The repaired arm asks
   the transport for a new substream instead. *)
Theorem C11_open_answered_before_fix_refuted :
  exists (c : cfg) (pre : list op) (s s' : st),
    exec c init pre = Some s /\ ledger_env c init pre = true /\ hopen s 0 = false /\
    ps s 0 = Some (Closed (Some 0)) /\ pend_find 0 (pend s) = None /\ spend s = [] /\
    on_open_old c s 0 = Some (s', [], []) /\ in_progress (ps s' 0) = true /\ obligation s' 0 = false /\
    exists s2, on_open c s 0 = Some (s2, [], [COpen 0 1]) /\ obligation s2 0 = true.
Proof. exact C11_open_answered_before_fix_refuted_pf. Qed.
Print Assumptions C11_open_answered_before_fix_refuted.

(* Finding class 3: the user's Reject of the peer's inbound substream while the user's own open
   request for that peer is in progress drops the request without an answer (pinned by the
   integration test both_nodes_open_substream_one_rejects_substreams). *)
Theorem C11_open_answered_class3_refuted :
  exists (c : cfg) (ops : list op) (s : st) (owed : peer -> bool),
    ledger c init (fun _ => false) ops = Some (s, owed) /\ owed 0 = true /\ in_progress (ps s 0) = false.
Proof. exact C11_open_answered_class3_refuted_pf. Qed.
Print Assumptions C11_open_answered_class3_refuted.

(* ---- the sending side ----
   `CWire q k m`: frame m written on the outbound substream of Connection task k (stream period k) of
   peer q; `CRet p code`: what the send call returned. In every reachable state a frame reaches the wire
   only in a send operation, with that very message, through the sink the operation resolves to
   (send_sink), written by the running task that owns that sink, which is a task of the peer. Through the
   handle this needs the gate of the peer open (the user saw Opened and not yet Closed) and it is the
   period whose sink the handle holds; a sink the user kept feeds only the period it was cloned from:
   nothing is ever delivered into another stream period. *)
Theorem C11_send_gate :
  forall (c : cfg) (s : st) (o : op) (s' : st) (ev : list uev) (cl : list call) (q : peer) (k m : N),
    reachable c s -> step c s o = Some (s', ev, cl) -> In (CWire q k m) cl ->
    send_sink s o = Some (q, k, m) /\ running s k = true /\
    (exists t, find_task k (tasks s) = Some t /\ t_peer t = q) /\
    match o with
    | SendSync _ _ | SendAsync _ _ => hopen s q = true /\ hsink s q = Some k
    | _ => usink s q = Some k
    end.
Proof. exact send_gate. Qed.
Print Assumptions C11_send_gate.

(* before Opened, after Closed and for a peer never opened the handle sends nothing: the synchronous
   call returns Ok and is a no-op, the asynchronous one returns PeerDoesntExist *)
Theorem C11_send_gate_closed :
  forall (c : cfg) (s : st) (p : peer) (m : N) (a : bool) (s' : st) (ev : list uev) (cl : list call),
    reachable c s -> hopen s p = false ->
    step c s (if a then SendAsync p m else SendSync p m) = Some (s', ev, cl) ->
    cl = [CRet p (if a then R_NOPEER else R_OK)] /\ ev = [] /\ ps s' = ps s /\ tasks s' = tasks s.
Proof. exact send_gate_closed. Qed.
Print Assumptions C11_send_gate_closed.

(* a kept NotificationSink whose stream period is over only reports errors *)
Theorem C11_stale_sink_errors :
  forall (c : cfg) (s : st) (p : peer) (k m : N) (a : bool) (s' : st) (ev : list uev) (cl : list call),
    usink s p = Some k -> find_task k (tasks s) = None ->
    step c s (if a then SinkAsync p m else SinkSync p m) = Some (s', ev, cl) ->
    cl = [CRet p (if a then R_NOPEER else R_NOCONN)] /\ ev = [] /\ ps s' = ps s /\ tasks s' = tasks s.
Proof. exact stale_sink_errors. Qed.
Print Assumptions C11_stale_sink_errors.

(* ---- the 5 s negotiation timers ----
   `timers` is the FIFO of armed timers (all have the same duration, so arming order is expiry order).
   Only a handshake event of the peer arms a timer, only `Timer p` takes one away, exactly one, and a
   timer is never disarmed: every armed timer fires once. *)
Theorem C11_timers_fire_once :
  forall (c : cfg) (s : st) (o : op) (s' : st) (ev : list uev) (cl : list call),
    step c s o = Some (s', ev, cl) -> timers_spec s o s'.
Proof. exact timers_step. Qed.
Print Assumptions C11_timers_fire_once.

(* an attempt that waits for the remote's substream (outbound half open, no inbound substream yet) always
   has a timer armed: the wait is bounded *)
Theorem C11_waiting_attempt_has_timer :
  forall (c : cfg) (s : st) (p : peer),
    reachable c s -> waiting (ps s p) = true -> existsb (N.eqb p) (timers s) = true.
Proof. intros c s p R. apply (WT_reachable c s R). Qed.
Print Assumptions C11_waiting_attempt_has_timer.

(* the outcome of a fired timer: nothing at all unless the peer is in that waiting state (then
   on_timer: OpenFailure(Rejected), force_close, PeerState::Closed) *)
Theorem C11_timer_only_cancels_waiting :
  forall (c : cfg) (s : st) (p : peer) (s' : st) (ev : list uev) (cl : list call),
    waiting (ps s p) = false -> step c s (Timer p) = Some (s', ev, cl) ->
    ev = [] /\ cl = [] /\ ps s' = ps s /\ tasks s' = tasks s /\ hopen s' = hopen s.
Proof. exact timer_only_cancels_waiting. Qed.
Print Assumptions C11_timer_only_cancels_waiting.

(* in particular no timer, however old, touches an open stream *)
Theorem C11_no_stale_timer_kill :
  forall (c : cfg) (s : st) (p : peer) (k : N) (s' : st) (ev : list uev) (cl : list call),
    ps s p = Some (Open k) -> step c s (Timer p) = Some (s', ev, cl) ->
    ev = [] /\ cl = [] /\ ps s' = ps s /\ tasks s' = tasks s /\ hopen s' = hopen s.
Proof. exact no_stale_timer_kill. Qed.
Print Assumptions C11_no_stale_timer_kill.

(* Observation: a timer armed for a finished attempt is still armed when the next attempt of the same
   peer reaches the waiting state, and cancels it early (OpenFailure, force_close of the connection)
   while that attempt's own timer stays armed. Not a violation of the property text (the request is
   answered), reported with the findings. *)
Theorem C11_stale_timer_cancels_newer_attempt_refuted :
  exists s1 s2 s3 ev cl,
    exec cfg_wt init w_stale_pre = Some s1 /\ ps s1 0 = Some (Closed None) /\ timers s1 = [0] /\
    exec cfg_wt s1 w_stale_post = Some s2 /\ waiting (ps s2 0) = true /\ timers s2 = [0; 0] /\
    step cfg_wt s2 (Timer 0) = Some (s3, ev, cl) /\ ev = [UFail 0 E_REJECTED] /\ cl = [CForce 0] /\
    timers s3 = [0].
Proof. exact C11_stale_timer_cancels_newer_attempt_refuted_pf. Qed.
Print Assumptions C11_stale_timer_cancels_newer_attempt_refuted.

(* ---- the bounded user event channel, a user who polls late ----
   `lstep` / `lrun` (Model.v): the events queue up in a channel of capacity cap; the loop parks inside a
   handler while its event has no room; waiting producers are served in arrival order; `LPoll` is one
   `handle.next()`. For every capacity >= 0 and every schedule: the loop is never stuck, *)
Theorem C11_lazy_no_stuck :
  forall (c : cfg) (cap : nat) (gs : list lop), snd (lrun c cap linit gs) = true.
Proof. exact C11_lazy_no_stuck_pf. Qed.
Print Assumptions C11_lazy_no_stuck.

(* and what the user is handed obeys the event grammar: for every capacity and every schedule of protocol
   events and polls — a user who polls late, rarely or never — NotificationStreamOpened and
   NotificationStreamClosed alternate per peer, no NotificationStreamOpenFailure and every
   NotificationReceived between an Opened and its Closed (`levents`: the events returned by the polls, in
   order). Invariant PLazyAlt.LI: after the handle has processed what is still queued, its gate is open
   exactly for the peers whose PeerState is Open, with the sink of that stream. *)
Theorem C11_lazy_alternation :
  forall (c : cfg) (cap : nat) (gs : list lop),
    exists h, grammar (fun _ => false) (levents (fst (lrun c cap linit gs))) = Some h.
Proof. exact lazy_alternation. Qed.
Print Assumptions C11_lazy_alternation.

(* nothing is lost and nothing is reordered: what the polls took from the queue (events handed to the user
   and, in front of them, Closed reports that the handle ignores), followed by what is still queued (in the
   channel or with a waiting producer), is exactly what was emitted, in order; *)
Theorem C11_event_channel_no_loss :
  forall (c : cfg) (cap : nat) (gs : list lop),
    ltaken_run c cap linit gs ++ lq (lfinal c cap linit gs) = lemitted_run c cap linit gs.
Proof. exact C11_event_channel_no_loss_pf. Qed.
Print Assumptions C11_event_channel_no_loss.

(* one step: what it takes from the queue is accounted for, and when the poll hits an event in the channel
   that the handle does not ignore, what `handle.next()` returns is what the handle makes of the events taken
   (Model.delivered: ignored reports vanish, a Connection task's report that is not ignored is handed out
   as NotificationStreamClosed); a poll gets the oldest such event, whatever the capacity *)
Theorem C11_event_channel_step :
  forall (c : cfg) (cap : nat) (l : lst) (g : lop) (l' : lst) (ev : list uev) (cl : list call),
    lstep c cap l g = Some (l', ev, cl) ->
    ltaken cap l g ++ lq l' = lq l ++ lemitted c cap l g /\
    (snd (fst (poll_events cap (ls l) (lq l))) <> None \/ g <> LPoll -> ev = delivered (ls l) (ltaken cap l g)).
Proof. exact lstep_fifo. Qed.
Print Assumptions C11_event_channel_step.

Theorem C11_poll_delivers_oldest :
  forall (c : cfg) (cap : nat) (l : lst) (dd : list uev) (e : uev) (rest : list uev),
    poll_events cap (ls l) (lq l) = (dd, Some e, rest) ->
    exists l' cl, lstep c cap l LPoll = Some (l', delivered (ls l) [e], cl).
Proof. exact lpoll_delivers. Qed.
Print Assumptions C11_poll_delivers_oldest.

(* the capacity only delays: two capacities, the same schedule, no event scheduled while the loop is
   parked and no poll cut short by the capacity (poll_cut: every event in the channel was an ignored report
   and more is queued with waiting producers): same protocol states, same queue, same deliveries at every step *)
Theorem C11_capacity_only_delays :
  forall (c : cfg) (cap1 cap2 : nat) (gs : list lop),
    never_blocked c cap1 linit gs = true -> never_blocked c cap2 linit gs = true ->
    map (fun x => (lcore (fst (fst x)), snd (fst x))) (fst (lrun c cap1 linit gs)) =
    map (fun x => (lcore (fst (fst x)), snd (fst x))) (fst (lrun c cap2 linit gs)) /\
    snd (lrun c cap1 linit gs) = snd (lrun c cap2 linit gs).
Proof. exact C11_capacity_only_delays_pf. Qed.
Print Assumptions C11_capacity_only_delays.

(* ---- received notifications and the stream identifier ----
   handle.rs hands a received notification to the user only if the sink it holds for the peer belongs to the
   stream the notification arrived on. With a user who drains the handle after every event that is the gate
   test `hopen` of Model.step: in every reachable state an open gate holds the sink of the newest Connection
   task of the peer, the only one whose notifications the model forwards. *)
Theorem C11_gate_is_newest_sink :
  forall (c : cfg) (s : st) (p : peer),
    reachable c s -> hopen s p = true -> hsink s p = lastt s p /\ lastt s p <> None.
Proof. intros c s p R. apply (reachable_GSInv c s R). Qed.
Print Assumptions C11_gate_is_newest_sink.

(* With a late-polling user the test is modelled as written (Model.sink_is): for every schedule the event
   queue holds lifecycle events only, *)
Theorem C11_lazy_queue_lifecycle_only :
  forall (c : cfg) (cap : nat) (gs : list lop) (x : lst * list uev * list call),
    In x (fst (lrun c cap linit gs)) -> Forall not_notif (lq (fst (fst x))).
Proof. exact C11_lazy_queue_lifecycle_only_pf. Qed.
Print Assumptions C11_lazy_queue_lifecycle_only.

(* and one `handle.next()` returns NotificationReceived only when no lifecycle event is queued, for a peer
   whose gate is open (the user has seen Opened and not yet Closed), and only for a notification that arrived
   on the stream whose sink the handle holds: never a leftover of an earlier stream period of the peer. *)
Theorem C11_lazy_notification_in_its_period :
  forall (c : cfg) (cap : nat) (l l' : lst) (ev : list uev) (cl : list call) (p : peer),
    Forall not_notif (lq l) -> lstep c cap l LPoll = Some (l', ev, cl) -> In (UNotif p) ev ->
    snd (fst (poll_events cap (ls l) (lq l))) = None /\
    exists k, In (p, k) (lnf l) /\ hopen (ls l) p = true /\ hsink (ls l) p = Some k.
Proof. exact lpoll_notif. Qed.
Print Assumptions C11_lazy_notification_in_its_period.

(* a leftover notification of period 0 is discarded in period 1 (it was handed out before the handle
   compared stream identifiers: fix 810eaf6 of C12) *)
Example C11_lazy_stale_notification_dropped :
  flat_map (fun x => snd (fst x)) (fst (lrun cfg_w 5 linit w_stale_notif)) =
  [UOpened 0 DOut; UClosed 0; UValidate 0; UOpened 0 DIn].
Proof. vm_compute. reflexivity. Qed.

(* ---- the HandshakeService on its own (HSModel.v: the map `substreams` with handshake state, carrier and
   negotiation timer per substream, the queue `ready`, poll_next with the visiting order as an input) ----
   The main model treats it as two membership bits per peer and lets handshake events happen only for a
   substream the service holds (guards hsI / hsO of main_handler: `enabled`). That assumption is a theorem
   of the component: whatever the history of calls, carrier events, timeouts and polls, and whatever order
   the map is visited in, a poll reports an event only for a key that is in the map; *)
Theorem C11_hs_events_only_for_held_substreams :
  forall (h : HSModel.hs) (ord : list HSModel.key) (h' : HSModel.hs) (k : HSModel.key),
    (exists rd, HSModel.poll h ord = (h', HSModel.PNeg k rd)) \/ HSModel.poll h ord = (h', HSModel.PErr k) ->
    HSModel.has k h = true.
Proof. exact HSProofs.poll_held. Qed.
Print Assumptions C11_hs_events_only_for_held_substreams.

(* Negotiated hands the substream out: the key is gone, so it is reported at most once; *)
Theorem C11_hs_negotiated_hands_out :
  forall (h : HSModel.hs) (ord : list HSModel.key) (h' : HSModel.hs) (k : HSModel.key) (rd : bool),
    HSModel.poll h ord = (h', HSModel.PNeg k rd) -> HSModel.has k h' = false.
Proof. exact HSProofs.poll_neg_removes. Qed.
Print Assumptions C11_hs_negotiated_hands_out.

(* NegotiationError leaves the substream in the map: the owner has to remove it (on_handshake_event and
   on_substream_open_failure do; the third-round seeded change dropped those calls), else the error repeats; *)
Theorem C11_hs_error_keeps_substream :
  forall (h : HSModel.hs) (ord : list HSModel.key) (h' : HSModel.hs) (k : HSModel.key),
    HSModel.poll h ord = (h', HSModel.PErr k) -> HSModel.has k h' = true.
Proof. exact HSProofs.poll_err_keeps. Qed.
Print Assumptions C11_hs_error_keeps_substream.

(* a substream whose negotiation timer (NEGOTIATION_TIMEOUT) fired is failed as soon as the loop reaches it,
   whatever its carrier offers; *)
Theorem C11_hs_timeout_fails :
  forall (e : HSModel.hent), HSModel.e_timed e = true -> HSModel.visit1 e = HSModel.VErr.
Proof. exact HSProofs.visit1_timed. Qed.
Print Assumptions C11_hs_timeout_fails.

(* the keys of the map stay unique under every step; *)
Theorem C11_hs_keys_unique :
  forall (h : HSModel.hs) (o : HSModel.hop),
    HSProofs.uniq (HSModel.ents h) -> HSProofs.uniq (HSModel.ents (fst (HSModel.hstep h o))).
Proof. exact HSProofs.step_uniq. Qed.
Print Assumptions C11_hs_keys_unique.

(* a key that is not in the map is silent (a removed substream produces no event). *)
Theorem C11_hs_removed_is_silent :
  forall (h : HSModel.hs) (ord : list HSModel.key) (h' : HSModel.hs) (k : HSModel.key),
    HSModel.has k h = false -> (forall rd, ~ In (k, rd) (HSModel.ready h)) ->
    (forall rd, HSModel.poll h ord <> (h', HSModel.PNeg k rd)) /\ HSModel.poll h ord <> (h', HSModel.PErr k).
Proof. exact HSProofs.poll_silent. Qed.
Print Assumptions C11_hs_removed_is_silent.

(* Defect of the original code (reproduced with the real HandshakeService, corpus w14; it violates C12: finding
   F-C12b, repaired in the repo): remove_inbound / remove_outbound did not purge `ready`, and is_empty() only looks
   at the map. When a completed handshake is queued in `ready` and another substream of the same poll fails first,
   the handler removes both substreams, the queued entry stays; the peer's next substream of that direction is
   handed in before the service is polled again (the biased select skips the service while the map is empty), and
   pop_event matches the stale entry with the NEW substream: Negotiated with the handshake of the old one, although
   nothing was read from (or written to) the new one. HSModel.hrun0 is the original code. *)
Theorem C11_hs_stale_ready_refuted :
  map snd (HSModel.hrun0 HSModel.hs0 HSProofs.w_stale) =
  [HSModel.PPending; HSModel.PPending; HSModel.PPending; HSModel.PPending; HSModel.PErr 1;
   HSModel.PPending; HSModel.PPending; HSModel.PPending; HSModel.PNeg 0 true].
Proof. exact HSProofs.stale_ready_run. Qed.
Print Assumptions C11_hs_stale_ready_refuted.

(* The repaired code on the same history: the new substream waits for its own handshake. *)
Theorem C11_hs_stale_ready_repaired :
  map snd (HSModel.hrun HSModel.hs0 HSProofs.w_stale) =
  [HSModel.PPending; HSModel.PPending; HSModel.PPending; HSModel.PPending; HSModel.PErr 1;
   HSModel.PPending; HSModel.PPending; HSModel.PPending; HSModel.PPending].
Proof. exact HSProofs.stale_ready_repaired_run. Qed.
Print Assumptions C11_hs_stale_ready_repaired.

(* In general: every call of the owner (registering or removing a substream) forgets what was queued for that key ... *)
Theorem C11_hs_calls_forget :
  forall (h : HSModel.hs) (c : HSModel.hcall),
    let k := match c with
             | HSModel.NegOut p | HSModel.RemOut p => HSModel.mkkey p true
             | HSModel.ReadIn p | HSModel.SendIn p | HSModel.RemIn p => HSModel.mkkey p false
             end in
    forall rd, ~ In (k, rd) (HSModel.ready (HSModel.call h c)).
Proof. exact HSProofs.call_forgets. Qed.
Print Assumptions C11_hs_calls_forget.

(* ... so a removed substream is silent whatever was queued for it: the next poll reports nothing under its key. *)
Theorem C11_hs_removed_stays_silent :
  forall (h : HSModel.hs) (p : HSModel.peer) (out : bool) (ord : list HSModel.key) (h' : HSModel.hs),
    (forall rd, HSModel.poll (HSModel.call h (if out then HSModel.RemOut p else HSModel.RemIn p)) ord <>
                (h', HSModel.PNeg (HSModel.mkkey p out) rd)) /\
    HSModel.poll (HSModel.call h (if out then HSModel.RemOut p else HSModel.RemIn p)) ord <>
    (h', HSModel.PErr (HSModel.mkkey p out)).
Proof. exact HSProofs.removed_is_silent. Qed.
Print Assumptions C11_hs_removed_stays_silent.

Example C11_parked_handler_resumes :
  map (fun x => (parked 1 (fst (fst x)), snd (fst x), snd x)) (fst (lrun cfg_w0 1 linit w_parked)) =
  [(false, [], []); (false, [], []); (false, [], []); (false, [], []);
   (false, [], [COpen 0 0]); (false, [], []); (false, [], []);
   (true, [], []);                                  (* the timer arm parks on OpenFailure *)
   (true, [], []);                                  (* nothing else is handled meanwhile *)
   (false, [UValidate 1], [CForce 0]);              (* the poll makes room: the handler resumes *)
   (false, [UFail 0 E_REJECTED], [])].
Proof. vm_compute. reflexivity. Qed.

(* non-vacuity: a history that opens a stream and closes it *)
Example C11_notification_dropped_after_close :
  events (fst (run cfg_w init (open_by_user ++ [Notify 0; NotifyDie 0 false]))) =
  [UOpened 0 DOut; UNotif 0; UClosed 0].
Proof. vm_compute. reflexivity. Qed.

(* the replaced-validation defect (fix: commit) stays fixed: the second ValidateSubstream of this
   history replaces an unanswered one at the handle, and the user's open request is still in progress
   with the handshake service owing the next event *)
Example C11_replaced_validation_keeps_request :
  match ledger cfg_w0 init (fun _ => false) w_drop with
  | Some (s, owed) => (owed 0, in_progress (ps s 0), obligation s 0)
  | None => (false, false, false)
  end = (true, true, true).
Proof. exact w_drop_check. Qed.

Example C11_ledger_env_nonvacuous :
  ledger_env cfg_w init (open_by_user ++ [CmdClose 0]) = true /\ feasible cfg_w init open_by_user = true.
Proof. vm_compute. split; reflexivity. Qed.

Example C11_send_delivered_in_its_period :
  snd (last (fst (run cfg_w init (open_by_user ++ [SendSync 0 7; CmdClose 0; SendSync 0 8; SendAsync 0 9])))
            (init, [], [])) = [CRet 0 R_NOPEER] /\
  flat_map (fun x => snd x) (fst (run cfg_w init (open_by_user ++ [SendSync 0 7; CmdClose 0; SendSync 0 8]))) =
  [COpen 0 0; CRet 0 R_OK; CWire 0 0 7; CRet 0 R_OK].
Proof. vm_compute. split; reflexivity. Qed.

Example C11_open_close_run :
  events (fst (run cfg_w init (open_by_user ++ [CmdClose 0]))) = [UOpened 0 DOut; UClosed 0] /\
  (* a slow close: the user is told at once, the task's own report later is ignored *)
  events (fst (run cfg_w init (open_by_user ++ [Gate 0; CmdClose 0; Release 0 false]))) = [UOpened 0 DOut; UClosed 0].
Proof. vm_compute. split; reflexivity. Qed.
