(* placeholder *)
