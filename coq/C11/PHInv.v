(* C11 — the event grammar for ALL histories (since the repair of finding class 1).
   NotificationProtocol reports a stream closed at the moment it stops tracking it as open; the report of
   the Connection task is a duplicate that the handle recognises by the stream identifier. Invariant HInv:
   at every step boundary the handle's gate is open exactly for the peers whose PeerState is Open, and the
   sink it holds is the one of that stream. *)
From Coq Require Import List NArith Bool Lia.
From V.C11 Require Import Model PBase PAlt.
Import ListNotations.
Open Scope N_scope.

(* the part about Connection tasks and peer states *)
Record TPart (s : st) : Prop := mkT {
  h_id : forall t, In t (tasks s) -> t_id t < ntask s;
  h_oid : forall p k, ps s p = Some (Open k) -> k < ntask s;
  h_nodup : NoDup (map t_id (tasks s));
  (* a task the protocol has told to shut down is not the task of the stream that is open now *)
  h_sigd : forall t, In t (tasks s) -> t_closing t = Some false -> ps s (t_peer t) <> Some (Open (t_id t));
  h_peer : forall p k t, ps s p = Some (Open k) -> In t (tasks s) -> t_id t = k -> t_peer t = p
}.

Record HInv (s : st) : Prop := mkH {
  h_gate : forall p, hopen s p = is_open (ps s p);
  h_sink : forall p k, ps s p = Some (Open k) -> hsink s p = Some k;
  h_t : TPart s
}.

Lemma HInv_init : HInv init.
Proof. constructor; [| |constructor]; cbn; intros; try tauto; try discriminate; auto. constructor. Qed.

Lemma TPart_fields s s' : TPart s -> ps s' = ps s -> tasks s' = tasks s -> ntask s' = ntask s -> TPart s'.
Proof. intros [H3 H4 H5 H6 H7] P T N0. constructor; rewrite ?P, ?T, ?N0; auto. Qed.

(* ------------------------------------------------------------------ draining and the invariant *)
(* what a main handler must establish: draining its events kills no task, what the user is handed obeys the
   grammar from the gate state before to the gate state after, and the invariant holds again *)
Definition good (s s1 : st) (ev : list uev) : Prop :=
  forall s2 dr ks, drain s1 ev = (s2, dr, ks) ->
    ks = [] /\ grammar (hopen s) (delivered s1 ev) = Some (hopen s2) /\ HInv s2.

Lemma grammar_filter_notifs (h : peer -> bool) l : grammar h (map UNotif (filter h l)) = Some h.
Proof.
  apply grammar_notifs. intros q Hq. apply filter_In in Hq. tauto.
Qed.

Lemma step_of_good c s o s1 ev cl s' ev' cl' :
  main_handler c s o = Some (s1, ev, cl) -> good s s1 ev ->
  step c s o = Some (s', ev', cl') -> grammar (hopen s) ev' = Some (hopen s') /\ HInv s'.
Proof.
  intros M G. unfold step. rewrite M.
  destruct (drain s1 ev) as [[s2 dr] ks] eqn:D. destruct (G _ _ _ D) as (-> & Gr & HI).
  cbn [kill_tasks drain delivered]. intros E; injection E as <- <- <-.
  rewrite app_nil_r, grammar_app, Gr. split; [apply grammar_filter_notifs|exact HI].
Qed.

(* ---- quiet handlers ---- *)
Lemma delivered_quiet s0 ev : Forall (quiet_ev s0) ev -> forall s, delivered s ev = ev.
Proof.
  induction 1 as [|e t He _ IH]; intros s; cbn [delivered]; auto.
  destruct e; cbn in He; try contradiction; rewrite IH; reflexivity.
Qed.

Lemma HInv_fields s s' :
  HInv s -> ps s' = ps s -> hopen s' = hopen s -> hsink s' = hsink s -> tasks s' = tasks s -> ntask s' = ntask s -> HInv s'.
Proof.
  intros [H1 H2 HT] P HO HS T N0. constructor; rewrite ?P, ?HO, ?HS; auto. eapply TPart_fields; eauto.
Qed.

Lemma HInv_same_open s s' :
  HInv s -> same_open s s' -> hopen s' = hopen s -> hsink s' = hsink s -> tasks s' = tasks s -> ntask s' = ntask s -> HInv s'.
Proof.
  intros [H1 H2 [H3 H4 H5 H6 H7]] SO HO HS T N0. constructor; [| |constructor]; rewrite ?HO, ?HS, ?T, ?N0; auto.
  - intros p. rewrite H1. symmetry. now apply same_open_is_open.
  - intros p k Hk. apply SO in Hk. auto.
  - intros p k Hk. apply SO in Hk. eauto.
  - intros t Ht C Hk. apply SO in Hk. eapply H6; eauto.
  - intros p k t Hk. apply SO in Hk. eauto.
Qed.

Lemma good_of_quiet s s1 ev cl : HInv s -> quiet s (Some (s1, ev, cl)) -> hsink s1 = hsink s -> good s s1 ev.
Proof.
  intros HI (T & L & N0 & HO & SO & F) HS s2 dr ks D.
  destruct (drain_quiet s ev F _ _ _ _ D) as (-> & P2 & T2 & L2 & N2 & HO2 & _ & HS2).
  split; auto. split.
  - rewrite (delivered_quiet s ev F). rewrite (grammar_quiet s (hopen s) ev (h_gate s HI) F). now rewrite HO2, HO.
  - eapply (HInv_fields s1); try congruence. eapply HInv_same_open; eauto.
Qed.

(* ---- a handler that opens a stream ---- *)
Lemma good_of_opens s p d s1 : HInv s -> opens s p s1 -> hsink s1 = hsink s -> good s s1 [UOpened p d].
Proof.
  intros [H1 H2 [H3 H4 H5 H6 H7]] (NO & Hp & T & L & N0 & HO & FR) HS s2 dr ks. cbn [drain delivered].
  intros E; injection E as <- _ <-. split; auto.
  assert (Hh : hopen s p = false) by (rewrite H1; exact NO).
  assert (FrI : forall t, In t (tasks s) -> t_id t <> ntask s) by (intros t Ht; specialize (H3 t Ht); lia).
  split.
  - cbn [grammar]. rewrite Hh. setters. now rewrite HO.
  - constructor; [| |constructor]; setters; rewrite ?T, ?N0.
    + intros q. rewrite HO. unfold upd. destruct (q =? p) eqn:E.
      * apply N.eqb_eq in E. subst q. now rewrite Hp.
      * apply N.eqb_neq in E. rewrite FR by auto. apply H1.
    + intros q k Hk. unfold upd. destruct (q =? p) eqn:E.
      * apply N.eqb_eq in E. subst q. rewrite Hp in Hk. injection Hk as <-. rewrite L. apply upd_same.
      * apply N.eqb_neq in E. rewrite FR in Hk by auto. rewrite HS. auto.
    + intros t Ht. apply in_app_or in Ht. destruct Ht as [Ht|[<-|[]]]; cbn; [specialize (H3 t Ht)|]; lia.
    + intros q k Hk. destruct (N.eq_dec q p) as [->|Hne].
      * rewrite Hp in Hk. injection Hk as <-. lia.
      * rewrite FR in Hk by auto. specialize (H4 q k Hk). lia.
    + rewrite map_app. cbn. apply NoDup_app_single; auto.
      intros X. apply in_map_iff in X. destruct X as (t & E & Ht). apply (FrI t Ht). exact E.
    + intros t Ht C. apply in_app_or in Ht. destruct Ht as [Ht|[<-|[]]]; [|discriminate C].
      destruct (N.eq_dec (t_peer t) p) as [E|Hne].
      * rewrite E, Hp. intros X. injection X as X. apply (FrI t Ht). auto.
      * rewrite FR by auto. auto.
    + intros q k t Hk Ht Id. destruct (N.eq_dec q p) as [->|Hne].
      * rewrite Hp in Hk. injection Hk as <-. apply in_app_or in Ht. destruct Ht as [Ht|[<-|[]]]; auto.
        exfalso. apply (FrI t Ht). auto.
      * rewrite FR in Hk by auto. apply in_app_or in Ht. destruct Ht as [Ht|[<-|[]]]; [eauto|].
        cbn in Id. specialize (H4 q k Hk). lia.
Qed.

(* ---- handlers that emit Closed reports for one peer ---- *)
Definition is_report (p : peer) (e : uev) : Prop :=
  match e with UClosed q | UClosedT q _ => q = p | _ => False end.

(* the report concerns the stream the handle lists (it holds sink k for the peer) *)
Definition cur (k : N) (e : uev) : bool :=
  match e with UClosed _ => true | UClosedT _ k' => k' =? k | _ => false end.

Definition kill_of (s : st) (p : peer) (k : N) : list N :=
  if running s k && negb (match usink s p with Some k' => k' =? k | None => false end) then [k] else [].

Lemma drain_reports_closed p ev : Forall (is_report p) ev -> forall s,
  hopen s p = false -> drain s ev = (s, [], []) /\ delivered s ev = [].
Proof.
  induction 1 as [|e t He _ IH]; intros s HO; cbn [drain delivered]; auto.
  destruct e; cbn in He; try contradiction; subst p0; cbn [closed_report]; unfold current; rewrite HO; cbn [andb];
    apply IH; auto.
Qed.

Lemma drain_reports_open p k ev : Forall (is_report p) ev -> forall s,
  hopen s p = true -> hsink s p = Some k ->
  if existsb (cur k) ev
  then drain s ev = (set_hsink (set_hopen s p false) p None, [], kill_of s p k) /\ delivered s ev = [UClosed p]
  else drain s ev = (s, [], []) /\ delivered s ev = [].
Proof.
  induction 1 as [|e t He F IH]; intros s HO HS; cbn [existsb drain delivered]; auto.
  destruct e; cbn in He; try contradiction; subst p0; cbn [closed_report cur orb]; unfold current; rewrite HO, ?HS; cbn [andb].
  - assert (C : hopen (set_hsink (set_hopen s p false) p None) p = false) by (setters; apply upd_same).
    destruct (drain_reports_closed p t F _ C) as [D1 D2]. rewrite D1, D2.
    unfold kill_of. rewrite app_nil_r. auto.
  - destruct (k =? k0) eqn:E.
    + rewrite N.eqb_sym, E. cbn [orb].
      assert (C : hopen (set_hsink (set_hopen s p false) p None) p = false) by (setters; apply upd_same).
      destruct (drain_reports_closed p t F _ C) as [D1 D2]. rewrite D1, D2.
      unfold kill_of. rewrite app_nil_r. auto.
    + rewrite N.eqb_sym, E. cbn [orb]. apply IH; auto.
Qed.

(* a task of the new list that is running (and not brand new) was running in the old list *)
Definition runs_le (n : N) (old new : list task) : Prop :=
  forall t', In t' new -> t_closing t' = None -> t_id t' < n ->
    exists t, In t old /\ t_id t = t_id t' /\ t_closing t = None.

Lemma runs_refl n l : runs_le n l l.
Proof. intros t H C _. eauto. Qed.

Lemma runs_sub n old new : (forall t, In t new -> In t old) -> runs_le n old new.
Proof. intros H t Ht C _. eauto. Qed.

Lemma runs_trans n l1 l2 l3 : runs_le n l1 l2 -> runs_le n l2 l3 -> runs_le n l1 l3.
Proof.
  intros A B t3 H3 C3 L3. destruct (B t3 H3 C3 L3) as (t2 & H2 & E2 & C2).
  destruct (A t2 H2 C2 ltac:(rewrite E2; exact L3)) as (t1 & H1 & E1 & C1). exists t1. repeat split; auto. congruence.
Qed.

Lemma runs_map n k f l :
  (forall t, t_id (f t) = t_id t /\ (t_closing (f t) = None -> t_closing t = None)) -> runs_le n l (map_task k f l).
Proof.
  intros Hf t' Ht' C _. unfold map_task in Ht'. apply in_map_iff in Ht'. destruct Ht' as (t0 & E0 & Ht0).
  exists t0. destruct (Hf t0) as [A B]. destruct (t_id t0 =? k); subst t'; auto.
Qed.

Lemma runs_running s s1 k :
  NoDup (map t_id (tasks s)) -> runs_le (ntask s) (tasks s) (tasks s1) -> k < ntask s ->
  running s1 k = true -> running s k = true.
Proof.
  intros ND R Lk. unfold running. destruct (find_task k (tasks s1)) as [t1|] eqn:F1; [|discriminate].
  destruct (t_closing t1) eqn:C1; [discriminate|]. intros _.
  destruct (find_task_some _ _ _ F1) as [I1 Id1].
  destruct (R t1 I1 C1 ltac:(rewrite Id1; exact Lk)) as (t & It & E & C).
  destruct (find_task_in _ _ It) as (t' & F'). rewrite E, Id1 in F'. rewrite F'.
  destruct (find_task_some _ _ _ F') as [I' Id'].
  assert (t' = t) by (eapply nodup_id_eq; eauto; congruence). subst t'. now rewrite C.
Qed.

(* the state after a handler that only emits Closed reports for p *)
Record rshape (s : st) (p : peer) (s1 : st) (ev : list uev) : Prop := mkR {
  r_ev : Forall (is_report p) ev;
  r_hopen : hopen s1 = hopen s;
  r_hsink : hsink s1 = hsink s;
  r_other : forall q, q <> p -> ps s1 q = ps s q;
  r_t : TPart s1;
  r_cases :
    (ps s1 p = ps s p /\ forall k, ps s p = Some (Open k) -> existsb (cur k) ev = false) \/
    (exists k, ps s p = Some (Open k) /\ is_open (ps s1 p) = false /\ running s1 k = false /\ In (UClosed p) ev);
  r_run : runs_le (ntask s) (tasks s) (tasks s1) /\ ntask s1 = ntask s
}.

Lemma TPart_handle s p h k : TPart s -> TPart (set_hsink (set_hopen s p h) p k).
Proof. intros T. eapply TPart_fields; eauto. Qed.

Lemma good_of_rshape s p s1 ev : HInv s -> rshape s p s1 ev -> good s s1 ev.
Proof.
  intros [H1 H2 HT] [REv RHo RHs ROt RT RC _] s2 dr ks D.
  destruct (hopen s p) eqn:HO.
  - (* the user sees the stream open: the protocol has it Open k and the handle holds sink k *)
    pose proof (H1 p) as G. rewrite HO in G. destruct (ps s p) as [[| | | | | |k]|] eqn:Hp; try discriminate G.
    pose proof (H2 p k Hp) as HS.
    assert (HO1 : hopen s1 p = true) by (rewrite RHo; exact HO).
    assert (HS1 : hsink s1 p = Some k) by (rewrite RHs; exact HS).
    pose proof (drain_reports_open p k ev REv s1 HO1 HS1) as DR.
    destruct RC as [[Same NoCur]|(k0 & Hk0 & NO & NR & InC)].
    + rewrite (NoCur k eq_refl) in DR. destruct DR as [D1 D2]. rewrite D1 in D. injection D as <- _ <-.
      rewrite D2. split; auto. split; [cbn; now rewrite RHo|].
      constructor; auto.
      * intros q. rewrite RHo. destruct (N.eq_dec q p) as [->|Hne]; [rewrite Same; exact HO|rewrite ROt by auto; apply H1].
      * intros q k1 Hq. rewrite RHs. destruct (N.eq_dec q p) as [->|Hne]; [rewrite Same in Hq; injection Hq as <-|rewrite ROt in Hq by auto]; auto.
    + injection Hk0 as <-.
      assert (EC : existsb (cur k) ev = true) by (apply existsb_exists; exists (UClosed p); split; auto).
      rewrite EC in DR. destruct DR as [D1 D2]. rewrite D1 in D. injection D as <- _ <-.
      unfold kill_of. rewrite NR. cbn [andb]. split; auto. rewrite D2. split.
      * cbn [grammar]. rewrite HO. setters. now rewrite RHo.
      * constructor; [| |apply TPart_handle; exact RT]; setters.
        -- intros q. unfold upd. destruct (q =? p) eqn:E.
           ++ apply N.eqb_eq in E. subst q. symmetry. exact NO.
           ++ apply N.eqb_neq in E. rewrite RHo, ROt by auto. apply H1.
        -- intros q k1 Hq. unfold upd. destruct (q =? p) eqn:E.
           ++ apply N.eqb_eq in E. subst q. rewrite Hq in NO. discriminate NO.
           ++ apply N.eqb_neq in E. rewrite ROt in Hq by auto. rewrite RHs. auto.
  - (* the user does not see a stream of p: every report is ignored *)
    assert (HO1 : hopen s1 p = false) by (rewrite RHo; exact HO).
    destruct (drain_reports_closed p ev REv s1 HO1) as [D1 D2]. rewrite D1 in D. injection D as <- _ <-.
    rewrite D2. split; auto. split; [cbn; now rewrite RHo|].
    assert (NOp : is_open (ps s p) = false) by (rewrite <- H1; exact HO).
    constructor; auto.
    + intros q. rewrite RHo. destruct (N.eq_dec q p) as [->|Hne]; [|rewrite ROt by auto; apply H1].
      rewrite HO. symmetry. destruct RC as [[Same _]|(k0 & Hk0 & _)]; [rewrite Same; exact NOp|rewrite Hk0 in NOp; discriminate NOp].
    + intros q k1 Hq. rewrite RHs. destruct (N.eq_dec q p) as [->|Hne]; [|rewrite ROt in Hq by auto; auto].
      destruct RC as [[Same _]|(k0 & Hk0 & NO & _)]; [rewrite Same in Hq; auto|rewrite Hq in NO; discriminate NO].
Qed.

(* ---- the task part under changes of the task list ---- *)
(* every task of the new list comes from a task of the old one with the same id and peer; a task that is
   newly marked "told to shut down" is not the task of an open stream in the new state *)
Definition tder (s s1 : st) : Prop :=
  forall t', In t' (tasks s1) ->
    exists t, In t (tasks s) /\ t_id t' = t_id t /\ t_peer t' = t_peer t /\
              (t_closing t' = Some false -> t_closing t = Some false \/ ps s1 (t_peer t') <> Some (Open (t_id t'))).

Lemma TPart_der s s1 :
  TPart s -> tder s s1 -> NoDup (map t_id (tasks s1)) -> ntask s1 = ntask s ->
  (forall q k, ps s1 q = Some (Open k) -> ps s q = Some (Open k)) -> TPart s1.
Proof.
  intros [H3 H4 H5 H6 H7] TD ND N0 PO. constructor; rewrite ?N0; auto.
  - intros t' Ht'. destruct (TD t' Ht') as (t & Ht & E1 & _). rewrite E1. auto.
  - intros q k Hk. eauto.
  - intros t' Ht' C. destruct (TD t' Ht') as (t & Ht & E1 & E2 & E3). destruct (E3 C) as [C0|X]; auto.
    intros Hk. apply PO in Hk. rewrite E1, E2 in Hk. eapply H6; eauto.
  - intros q k t' Hk Ht' Id. destruct (TD t' Ht') as (t & Ht & E1 & E2 & _). rewrite E2. eapply H7; eauto. congruence.
Qed.

Lemma map_task_ids k f l : (forall t, t_id (f t) = t_id t) -> map t_id (map_task k f l) = map t_id l.
Proof.
  intros Hf. unfold map_task. rewrite map_map. apply map_ext. intros t. destruct (t_id t =? k); auto.
Qed.

Lemma find_task_map k f l t :
  find_task k l = Some t -> (forall t, t_id (f t) = t_id t) -> find_task k (map_task k f l) = Some (f t).
Proof.
  intros F Hf. induction l as [|a l IH]; cbn in *; [discriminate|].
  destruct (t_id a =? k) eqn:E.
  - injection F as ->. rewrite Hf, E. reflexivity.
  - rewrite E. auto.
Qed.

Lemma running_not s k : (forall t, find_task k (tasks s) = Some t -> t_closing t <> None) -> running s k = false.
Proof.
  intros H. unfold running. destruct (find_task k (tasks s)) as [t|] eqn:F; auto.
  destruct (t_closing t) eqn:C; auto. exfalso. eapply H; eauto.
Qed.

(* after the shutdown sender of task k was used or dropped, task k is not running *)
Lemma signal_facts s k s' ev :
  signal s k = (s', ev) ->
  ps s' = ps s /\ hopen s' = hopen s /\ hsink s' = hsink s /\ ntask s' = ntask s /\
  running s' k = false /\
  (ev = [] \/ exists t, find_task k (tasks s) = Some t /\ ev = [UClosedT (t_peer t) k]) /\
  (forall t', In t' (tasks s') -> exists t, In t (tasks s) /\ t_id t' = t_id t /\ t_peer t' = t_peer t /\
                                            (t_closing t' = Some false -> t_closing t = Some false \/ t_id t' = k)) /\
  (NoDup (map t_id (tasks s)) -> NoDup (map t_id (tasks s'))).
Proof.
  unfold signal. destruct (find_task k (tasks s)) as [t|] eqn:F.
  - destruct (t_closing t) eqn:C.
    + intros E; injection E as <- <-.
      refine (conj eq_refl (conj eq_refl (conj eq_refl (conj eq_refl (conj _ (conj _ (conj _ _))))))); auto.
      * unfold running. now rewrite F, C.
      * intros t' Ht'. exists t'. repeat split; auto.
    + destruct (t_gated t); intros E; injection E as <- <-; setters;
        refine (conj eq_refl (conj eq_refl (conj eq_refl (conj eq_refl (conj _ (conj _ (conj _ _))))))).
      * unfold running. setters. erewrite find_task_map; eauto.
      * now left.
      * intros t' Ht'. unfold map_task in Ht'. apply in_map_iff in Ht'. destruct Ht' as (t0 & E0 & Ht0).
        exists t0. destruct (t_id t0 =? k) eqn:E; subst t'; cbn; repeat split; auto.
        intros _. right. now apply N.eqb_eq.
      * intros ND. rewrite map_task_ids; auto.
      * unfold running. setters. now rewrite find_task_remove.
      * right. eauto.
      * intros t' Ht'. apply in_remove in Ht'. exists t'. repeat split; tauto.
      * apply nodup_remove.
  - intros E; injection E as <- <-.
    refine (conj eq_refl (conj eq_refl (conj eq_refl (conj eq_refl (conj _ (conj _ (conj _ _))))))); auto.
    + unfold running. now rewrite F.
    + intros t' Ht'. exists t'. repeat split; auto.
Qed.

Lemma report_of_signal s p k ev :
  TPart s -> ps s p = Some (Open k) ->
  (ev = [] \/ exists t, find_task k (tasks s) = Some t /\ ev = [UClosedT (t_peer t) k]) ->
  Forall (is_report p) ev.
Proof.
  intros T Hp [->|(t & F & ->)]; repeat constructor. cbn.
  destruct (find_task_some _ _ _ F) as [I1 I2]. eapply h_peer; eauto.
Qed.

Lemma signal_running s k s' ev :
  signal s k = (s', ev) -> forall t', In t' (tasks s') -> t_closing t' = None ->
  exists t, In t (tasks s) /\ t_id t = t_id t' /\ t_closing t = None.
Proof.
  unfold signal. destruct (find_task k (tasks s)) as [t|] eqn:F.
  - destruct (t_closing t) eqn:C.
    + intros E; injection E as <- _. eauto.
    + destruct (t_gated t); intros E; injection E as <- _; setters; intros t' Ht' C'.
      * unfold map_task in Ht'. apply in_map_iff in Ht'. destruct Ht' as (t0 & E0 & Ht0).
        destruct (t_id t0 =? k); subst t'; [discriminate C'|eauto].
      * apply in_remove in Ht'. exists t'. tauto.
  - intros E; injection E as <- _. eauto.
Qed.

(* the protocol leaves Open k for peer p (connection closed, user close): s0 is the state handed to `signal`
   (same tasks as s), s1 the final state *)
Lemma rshape_leave s p k s0 sg se s1 :
  TPart s -> ps s p = Some (Open k) -> tasks s0 = tasks s -> signal s0 k = (sg, se) ->
  tasks s1 = tasks sg -> hopen s1 = hopen s -> hsink s1 = hsink s -> ntask s1 = ntask s ->
  (forall q, q <> p -> ps s1 q = ps s q) -> is_open (ps s1 p) = false ->
  rshape s p s1 (UClosed p :: se).
Proof.
  intros HT Hp T0 Sg T1 HO HS N0 FR NO.
  destruct (signal_facts _ _ _ _ Sg) as (_ & _ & _ & _ & NR & EV & TD & ND). rewrite T0 in *.
  assert (PO : forall q k', ps s1 q = Some (Open k') -> ps s q = Some (Open k')).
  { intros q k' Hq. destruct (N.eq_dec q p) as [->|Hne]; [rewrite Hq in NO; discriminate NO|rewrite FR in Hq; auto]. }
  constructor; auto.
  - constructor; [reflexivity|]. eapply report_of_signal; eauto.
  - eapply TPart_der; eauto.
    + intros t' Ht'. rewrite T1 in Ht'. destruct (TD t' Ht') as (t & Ht & E1 & E2 & E3).
      exists t. repeat split; auto. intros C. destruct (E3 C) as [C0|Id]; auto. right.
      assert (t_peer t' = p) by (rewrite E2; eapply (h_peer s HT); eauto; congruence).
      rewrite H. intros X. rewrite X in NO. discriminate NO.
    + rewrite T1. apply ND. apply (h_nodup s HT).
  - right. exists k. repeat split; auto.
    + unfold running in *. rewrite T1. exact NR.
    + now left.
  - split; auto. rewrite T1. intros t' Ht' C _. destruct (TD t' Ht') as (t & Ht & E1 & E2 & _). exists t. repeat split; auto.
    destruct (signal_running _ _ _ _ Sg t' Ht' C) as (t0 & I0 & X0 & C0). rewrite T0 in I0.
    assert (t0 = t) by (eapply nodup_id_eq; [apply (h_nodup s HT)| | |]; eauto; congruence). subst t0. exact C0.
Qed.

Lemma task_closed_not_running s k : task_closed s k = true -> running s k = false.
Proof.
  unfold task_closed, running. destruct (find_task k (tasks s)) as [t|]; auto. destruct (t_closing t); auto.
Qed.

(* ---- only the task list changes, nothing is reported (Gate, a gated remote close) ---- *)
Lemma rshape_map s p k f :
  TPart s -> (forall t, t_id (f t) = t_id t /\ t_peer (f t) = t_peer t /\ (t_closing (f t) = Some false -> t_closing t = Some false)) ->
  (forall t, t_closing (f t) = None -> t_closing t = None) ->
  rshape s p (set_tasks s (map_task k f (tasks s))) [].
Proof.
  intros HT Hf Hc. constructor.
  - constructor.
  - reflexivity.
  - reflexivity.
  - reflexivity.
  - eapply TPart_der; eauto; setters; auto.
    + intros t' Ht'. unfold map_task in Ht'. apply in_map_iff in Ht'. destruct Ht' as (t0 & E0 & Ht0).
      exists t0. destruct (Hf t0) as (A & B & C). destruct (t_id t0 =? k); subst t'; repeat split; auto.
    + rewrite map_task_ids; [apply (h_nodup s HT)|]. intros t. apply Hf.
  - left. split; auto.
  - split; [|reflexivity]. setters. apply runs_map. intros t. destruct (Hf t) as (A & _ & _). split; auto.
Qed.

(* ---- the newest task of p finishes closing by itself (ungated remote close) ---- *)
Lemma rshape_die s p k :
  TPart s ->
  rshape s p (on_shutdown (set_tasks s (remove_task k (tasks s))) p)
             (UClosedT p k :: shut_ev (set_tasks s (remove_task k (tasks s))) p).
Proof.
  intros HT. set (s1 := set_tasks s (remove_task k (tasks s))).
  assert (TD : TPart s1).
  { eapply TPart_der; eauto; subst s1; setters; auto.
    - intros t' Ht'. apply in_remove in Ht'. exists t'. repeat split; tauto.
    - apply nodup_remove, (h_nodup s HT). }
  assert (P1 : ps s1 = ps s) by reflexivity.
  assert (F1 : hopen s1 = hopen s /\ hsink s1 = hsink s) by (split; reflexivity).
  assert (RU : runs_le (ntask s) (tasks s) (tasks s1) /\ ntask s1 = ntask s).
  { split; auto. apply runs_sub. subst s1. setters. intros t Ht. apply in_remove in Ht. tauto. }
  unfold on_shutdown, shut_ev. rewrite P1.
  destruct (ps s p) as [[| | | | | |k0]|] eqn:Hp.
  1-6,8: (constructor; [repeat constructor|apply F1|apply F1|intros q Hq; now rewrite P1|exact TD|
                        left; rewrite P1; split; auto; intros k0 X; rewrite Hp in X; discriminate X|exact RU]).
  destruct (task_closed s1 k0) eqn:TC.
  - constructor.
    + repeat constructor.
    + apply F1.
    + apply F1.
    + intros q Hq. setters. rewrite upd_other by auto. now rewrite P1.
    + eapply TPart_der; [exact TD| | | |]; setters; auto.
      * intros t' Ht'. exists t'. repeat split; auto.
      * apply (h_nodup s1 TD).
      * intros q k'. unfold upd. destruct (q =? p); [discriminate|auto].
    + right. exists k0. setters. rewrite upd_same. repeat split; auto.
      * apply task_closed_not_running in TC. unfold running in *. setters. exact TC.
      * right. now left.
    + exact RU.
  - constructor.
    + repeat constructor.
    + apply F1.
    + apply F1.
    + intros q Hq. now rewrite P1.
    + exact TD.
    + left. rewrite P1. split; auto. intros k1 X. rewrite Hp in X. injection X as <-. cbn. rewrite orb_false_r.
      destruct (k =? k0) eqn:E; auto. apply N.eqb_eq in E. subst k0.
      unfold task_closed in TC. subst s1. setters. rewrite find_task_remove in TC. discriminate TC.
    + exact RU.
Qed.

(* ---- Release: the closing tasks of p finish ---- *)
Definition fin (p : peer) (t : task) : bool :=
  (t_peer t =? p) && negb (t_gated t) && match t_closing t with Some _ => true | None => false end.

Lemma finish_facts p l : forall l' ev n, finish_tasks p l = (l', ev, n) ->
  (forall e, In e ev -> exists t b, In t l /\ e = UClosedT p (t_id t) /\ fin p t = true /\ t_closing t = Some b /\
                                   (b = true -> n <> 0)) /\
  (forall t', In t' l' -> In t' l /\ fin p t' = false) /\
  (NoDup (map t_id l) -> NoDup (map t_id l')).
Proof.
  induction l as [|a l IH]; cbn [finish_tasks]; intros l' ev n.
  - intros H; injection H as <- <- <-. split; [intros e []|split; [intros t' []|auto]].
  - destruct (finish_tasks p l) as [[r' e'] n'] eqn:E. destruct (IH _ _ _ eq_refl) as (A & B & C).
    unfold fin in *. destruct (t_peer a =? p) eqn:EP; cbn [andb]; [destruct (t_gated a) eqn:EG; cbn [negb andb]|].
    + intros H; injection H as <- <- <-. split; [|split].
      * intros e He. destruct (A e He) as (t & b & I1 & I2). exists t, b. split; [now right|exact I2].
      * intros t' [<-|Ht']; [split; [now left|now rewrite EP, EG]|]. destruct (B t' Ht'). split; auto. now right.
      * intros ND. cbn. inversion ND as [|x y Hn ND']; subst. constructor; auto.
        intros X. apply Hn. apply in_map_iff in X. destruct X as (t & E1 & Ht). apply in_map_iff. exists t. split; auto. apply B, Ht.
    + destruct (t_closing a) as [notify|] eqn:EC.
      * intros H; injection H as <- <- <-. split; [|split].
        -- intros e [<-|He].
           ++ exists a, notify. rewrite EP, EG, EC. split; [now left|split; [reflexivity|split; [reflexivity|split; [reflexivity|]]]].
              intros ->. lia.
           ++ destruct (A e He) as (t & b & I1 & I2 & I3 & I4 & I5). exists t, b.
              split; [now right|split; [exact I2|split; [exact I3|split; [exact I4|]]]].
              intros X. specialize (I5 X). destruct notify; lia.
        -- intros t' Ht'. destruct (B t' Ht'). split; auto. now right.
        -- intros ND. inversion ND; subst. auto.
      * intros H; injection H as <- <- <-. split; [|split].
        -- intros e He. destruct (A e He) as (t & b & I1 & I2). exists t, b. split; [now right|exact I2].
        -- intros t' [<-|Ht']; [split; [now left|now rewrite EP, EG, EC]|]. destruct (B t' Ht'). split; auto. now right.
        -- intros ND. cbn. inversion ND as [|x y Hn ND']; subst. constructor; auto.
           intros X. apply Hn. apply in_map_iff in X. destruct X as (t & E1 & Ht). apply in_map_iff. exists t. split; auto. apply B, Ht.
    + intros H; injection H as <- <- <-. split; [|split].
      * intros e He. destruct (A e He) as (t & b & I1 & I2). exists t, b. split; [now right|exact I2].
      * intros t' [<-|Ht']; [split; [now left|now rewrite EP]|]. destruct (B t' Ht'). split; auto. now right.
      * intros ND. cbn. inversion ND as [|x y Hn ND']; subst. constructor; auto.
        intros X. apply Hn. apply in_map_iff in X. destruct X as (t & E1 & Ht). apply in_map_iff. exists t. split; auto. apply B, Ht.
Qed.

Lemma existsb_false {A} (f : A -> bool) l : (forall x, In x l -> f x = false) -> existsb f l = false.
Proof. induction l as [|a l IH]; cbn; auto. intros H. rewrite (H a), IH; auto. Qed.

Lemma rshape_release s p older l' ev0 n :
  TPart s -> finish_tasks p (ungate s p older (tasks s)) = (l', ev0, n) ->
  rshape s p (run_shutdowns (set_tasks s l') p n) (ev0 ++ (if n =? 0 then [] else shut_ev (set_tasks s l') p)).
Proof.
  intros HT F. destruct (finish_facts _ _ _ _ _ F) as (A & B & C).
  set (s1 := set_tasks s l').
  assert (NDl : NoDup (map t_id (ungate s p older (tasks s)))) by (rewrite ungate_ids; apply (h_nodup s HT)).
  assert (TD : TPart s1).
  { eapply TPart_der; eauto; subst s1; setters; auto.
    intros t' Ht'. destruct (B t' Ht') as [Hl _]. destruct (ungate_in _ _ _ _ _ Hl) as (t0 & I0 & E1 & E2 & E3).
    exists t0. repeat split; auto. intros X. left. congruence. }
  assert (P1 : ps s1 = ps s) by reflexivity.
  assert (F1 : hopen s1 = hopen s /\ hsink s1 = hsink s) by (split; reflexivity).
  assert (REv0 : Forall (is_report p) ev0).
  { apply Forall_forall. intros e He. destruct (A e He) as (t & b & _ & -> & _). reflexivity. }
  (* a report of the finishing tasks concerns the open stream only if that task closed by itself and is gone *)
  assert (NoCur : forall k0, ps s p = Some (Open k0) -> n = 0 \/ task_closed s1 k0 = false -> existsb (cur k0) ev0 = false).
  { intros k0 Hp Hn. apply existsb_false. intros e He. destruct (A e He) as (t & b & I1 & -> & I3 & I4 & I5).
    cbn. destruct (t_id t =? k0) eqn:E; auto. apply N.eqb_eq in E. exfalso.
    destruct (ungate_in _ _ _ _ _ I1) as (t0 & J0 & E1 & E2 & E3).
    assert (Pt : t_peer t = p).
    { unfold fin in I3. apply andb_true_iff in I3. destruct I3 as [I3 _]. apply andb_true_iff in I3. destruct I3 as [I3 _]. now apply N.eqb_eq. }
    destruct b.
    - destruct Hn as [Hn|Hn]; [apply (I5 eq_refl Hn)|].
      unfold task_closed in Hn. subst s1. setters.
      destruct (find_task k0 l') as [t'|] eqn:FT; [|discriminate Hn].
      destruct (find_task_some _ _ _ FT) as [K1 K2]. destruct (B t' K1) as [K3 K4].
      assert (t' = t) by (eapply nodup_id_eq; eauto; congruence). subst t'. congruence.
    - apply (h_sigd s HT t0 J0); [congruence|]. rewrite <- E2, Pt, <- E1, E. exact Hp. }
  assert (RU : runs_le (ntask s) (tasks s) (tasks s1) /\ ntask s1 = ntask s).
  { split; auto. subst s1. setters. intros t' Ht' C' _. destruct (B t' Ht') as [Hl _].
    destruct (ungate_in _ _ _ _ _ Hl) as (t0 & I0 & E1 & E2 & E3). exists t0. repeat split; auto. congruence. }
  unfold run_shutdowns. destruct (n =? 0) eqn:En.
  - apply N.eqb_eq in En. rewrite app_nil_r. apply mkR.
    + exact REv0.
    + apply F1.
    + apply F1.
    + intros q Hq. now rewrite P1.
    + exact TD.
    + left. rewrite P1. split; auto.
    + exact RU.
  - unfold on_shutdown, shut_ev. rewrite P1. destruct (ps s p) as [[| | | | | |k0]|] eqn:Hp.
    1-6,8: (rewrite app_nil_r; constructor; [exact REv0|apply F1|apply F1|intros q Hq; now rewrite P1|exact TD|
                left; rewrite P1; split; auto; intros k0 X; rewrite Hp in X; discriminate X|exact RU]).
    destruct (task_closed s1 k0) eqn:TC.
    + constructor.
      * apply Forall_app. split; [exact REv0|repeat constructor].
      * apply F1.
      * apply F1.
      * intros q Hq. setters. rewrite upd_other by auto. now rewrite P1.
      * eapply TPart_der; [exact TD| | | |]; setters.
        -- intros t' Ht'. exists t'. repeat split; auto.
        -- apply (h_nodup s1 TD).
        -- reflexivity.
        -- intros q k'. unfold upd. destruct (q =? p); [discriminate|auto].
      * right. exists k0. setters. rewrite upd_same. repeat split; auto.
        -- apply task_closed_not_running in TC. unfold running in *. setters. exact TC.
        -- apply in_or_app. right. now left.
      * exact RU.
    + rewrite app_nil_r. apply mkR.
      * exact REv0.
      * apply F1.
      * apply F1.
      * intros q Hq. now rewrite P1.
      * exact TD.
      * left. rewrite P1. split; auto. intros k1 X. rewrite Hp in X. injection X as <-. apply NoCur; auto.
      * exact RU.
Qed.

(* ------------------------------------------------------------------ the shape of every main handler *)
Inductive mshape (s : st) : res -> Prop :=
| ms_none : mshape s None
| ms_quiet s1 ev cl : quiet s (Some (s1, ev, cl)) -> mshape s (Some (s1, ev, cl))
| ms_opens p d s1 cl : opens s p s1 -> mshape s (Some (s1, [UOpened p d], cl))
| ms_rep p s1 ev cl : rshape s p s1 ev -> mshape s (Some (s1, ev, cl)).

Lemma ms_of_quiet s r : quiet s r -> mshape s r.
Proof. destruct r as [[[s1 ev] cl]|]; intros; constructor; auto. Qed.

Lemma rshape_frame s s0 p s1 ev : same_core s s0 -> hsink s0 = hsink s -> rshape s0 p s1 ev -> rshape s p s1 ev.
Proof.
  intros (P & T & L & N0 & HO) HS [A B C D E F G]. constructor; auto; try congruence.
  - intros q Hq. rewrite D by auto. now rewrite P.
  - rewrite P in F. exact F.
Qed.

Lemma HInv_frame s s0 : same_core s s0 -> hsink s0 = hsink s -> HInv s -> HInv s0.
Proof. intros (P & T & L & N0 & HO) HS HI. eapply HInv_fields; eauto. Qed.

Lemma TPart_frame s s0 : same_core s s0 -> TPart s -> TPart s0.
Proof. intros (P & T & L & N0 & HO) HT. eapply TPart_fields; eauto. Qed.

Lemma mshape_frame s s0 r : same_core s s0 -> hsink s0 = hsink s -> mshape s0 r -> mshape s r.
Proof.
  intros C HS H. destruct H.
  - constructor.
  - apply ms_quiet. eapply quiet_frame; eauto.
  - apply ms_opens. eapply opens_frame; eauto.
  - eapply ms_rep. eapply rshape_frame; eauto.
Qed.

Lemma mshape_on_closed s p : TPart s -> mshape s (on_closed s p).
Proof.
  intros HI. unfold on_closed. setters.
  destruct (ps s p) as [x|] eqn:Hp; [|constructor].
  destruct x as [|b|po| |y|d o i|k]; try (apply ms_quiet; quiet_tac; fail).
  - destruct o, i; apply ms_quiet; quiet_tac.
  - match goal with |- context [signal ?a k] => destruct (signal a k) as [sg se] eqn:Sg end.
    eapply ms_rep. eapply (rshape_leave s p k _ sg se sg HI Hp); [|exact Sg| | | | | |].
    + reflexivity.
    + reflexivity.
    + destruct (signal_facts _ _ _ _ Sg) as (_ & A & _). rewrite A. reflexivity.
    + destruct (signal_facts _ _ _ _ Sg) as (_ & _ & A & _). rewrite A. reflexivity.
    + destruct (signal_facts _ _ _ _ Sg) as (_ & _ & _ & A & _). rewrite A. reflexivity.
    + intros q Hq. destruct (signal_facts _ _ _ _ Sg) as (A & _). rewrite A. setters. now rewrite upd_other.
    + destruct (signal_facts _ _ _ _ Sg) as (A & _). rewrite A. setters. now rewrite upd_same.
Qed.

Lemma mshape_on_close s p : TPart s -> mshape s (on_close s p).
Proof.
  intros HI. unfold on_close.
  destruct (ps s p) as [x|] eqn:Hp; [|apply ms_quiet; quiet_tac].
  destruct x as [|b|po| |y|d o i|k]; try (apply ms_quiet; quiet_tac; fail).
  destruct (signal s k) as [sg se] eqn:Sg.
  destruct (signal_facts _ _ _ _ Sg) as (A1 & A2 & A3 & A4 & _).
  eapply ms_rep. eapply (rshape_leave s p k s sg se _ HI Hp); [reflexivity|exact Sg|reflexivity| | | | |]; setters; auto.
  - intros q Hq. rewrite upd_other by auto. now rewrite A1.
  - now rewrite upd_same.
Qed.

Lemma mshape_hs_finish s0 s p :
  tasks s = tasks s0 -> lastt s = lastt s0 -> ntask s = ntask s0 -> hopen s = hopen s0 ->
  is_open (ps s0 p) = false -> (forall q, q <> p -> ps s q = ps s0 q) ->
  is_open (ps s p) = false ->
  mshape s0 (hs_finish s p).
Proof.
  intros T L N0 HO NO FR NO2. unfold hs_finish.
  assert (Q : quiet s0 (ok s)).
  { unfold quiet, ok. refine (conj _ (conj _ (conj _ (conj _ (conj _ _))))); auto.
    intros r k. destruct (N.eq_dec r p) as [->|Hne].
    - split; intros H; rewrite H in *; discriminate.
    - rewrite FR by auto. tauto. }
  assert (Q' : quiet s0 (ok (arm s p))).
  { destruct Q as (Q1 & Q2 & Q3 & Q4 & Q5 & Q6). unfold quiet, ok, arm. setters.
    refine (conj _ (conj _ (conj _ (conj _ (conj _ _))))); auto. }
  destruct (ps s p) as [x|] eqn:Hp; [|apply ms_quiet; exact Q'].
  destruct x as [|b|po| |y|d o i|k]; try (apply ms_quiet; exact Q').
  destruct o; try (apply ms_quiet; exact Q'). destruct i; try (apply ms_quiet; exact Q').
  apply ms_opens. unfold opens, spawn_task. setters. rewrite T, L, N0, HO.
  repeat apply conj; auto.
  - now rewrite upd_same.
  - intros r Hr. rewrite upd_other; auto.
Qed.

Ltac mfinish_tac Hp :=
  apply mshape_hs_finish; setters; auto;
  [ rewrite Hp; reflexivity
  | let r := fresh "r" in let Hr := fresh "Hr" in intros r Hr; now rewrite upd_other
  | now rewrite upd_same ].

Lemma mshape_on_hs_out_ok s p : mshape s (on_hs_out_ok s p).
Proof.
  unfold on_hs_out_ok. destruct (ps s p) as [x|] eqn:Hp; [|constructor].
  destruct x as [|b|po| |y|d o i|k]; try constructor.
  destruct o; try constructor. mfinish_tac Hp.
Qed.

Lemma mshape_on_hs_in_ok c s p : mshape s (on_hs_in_ok c s p).
Proof.
  unfold on_hs_in_ok. destruct (ps s p) as [x|] eqn:Hp; [|constructor].
  destruct x as [|b|po| |y|d o i|k]; try constructor.
  destruct i; try constructor.
  - destruct (negb (o_closed o) && auto_accept c); apply ms_quiet; quiet_tac.
  - mfinish_tac Hp.
Qed.

Lemma mshape_task_die s p g : TPart s -> mshape s (task_die_op s p g).
Proof.
  intros HI. unfold task_die_op.
  destruct (lastt s p) as [k|] eqn:Lk; [|apply ms_quiet; quiet_tac].
  destruct (find_task k (tasks s)) as [t|] eqn:F; [|apply ms_quiet; quiet_tac].
  destruct (t_closing t); [apply ms_quiet; quiet_tac|].
  destruct (g || t_gated t).
  - apply (ms_rep s p). apply rshape_map; auto; intros t0; cbn; [repeat split; auto|]; discriminate.
  - apply (ms_rep s p). apply rshape_die. exact HI.
Qed.

Lemma main_mshape c s o : TPart s -> mshape s (main_handler c s o).
Proof.
  intros HI.
  destruct o as [p|p|p|p|p|p|p b|p b|p a|p|p|p|p|p g|p older|p|p|p|p g|p|p m|p m|p m|p m]; cbn [main_handler].
  - destruct (conn s p); [apply ms_quiet; quiet_tac|].
    apply ms_of_quiet. eapply quiet_frame; [|apply quiet_on_established]. repeat split.
  - destruct (conn s p); [|apply ms_quiet; quiet_tac].
    apply (mshape_frame s (set_spend (set_conn s p false) (drop_peer p (spend s)))); [repeat split|reflexivity|].
    apply mshape_on_closed. eapply TPart_frame; [|exact HI]. repeat split.
  - destruct (conn s p); apply ms_of_quiet; [apply quiet_on_sub_in|quiet_tac].
  - destruct (conn s p); [|apply ms_quiet; quiet_tac].
    destruct (first_req p (spend s)); [|apply ms_quiet; quiet_tac].
    apply ms_of_quiet. eapply quiet_frame; [|apply quiet_on_sub_out]. repeat split.
  - destruct (conn s p); [|apply ms_quiet; quiet_tac].
    destruct (first_req p (spend s)); [|apply ms_quiet; quiet_tac].
    apply ms_of_quiet. eapply quiet_frame; [|apply quiet_on_open_fail]. repeat split.
  - apply ms_of_quiet. apply quiet_on_dial_fail.
  - destruct (hsI s p); [|apply ms_quiet; quiet_tac].
    destruct b; [apply mshape_on_hs_in_ok|apply ms_of_quiet, quiet_on_hs_err].
  - destruct (hsO s p); [|apply ms_quiet; quiet_tac].
    destruct b; [apply mshape_on_hs_out_ok|apply ms_of_quiet, quiet_on_hs_err].
  - destruct (hval s p); [|apply ms_quiet; quiet_tac].
    apply ms_of_quiet. eapply quiet_frame; [|apply quiet_on_validation]. repeat split.
  - destruct (existsb (N.eqb p) (timers s)); [|apply ms_quiet; quiet_tac].
    apply ms_of_quiet. eapply quiet_frame; [|apply quiet_on_timer]. repeat split.
  - destruct (hopen s p); [apply ms_quiet; quiet_tac|]. apply ms_of_quiet, quiet_on_open.
  - destruct (hopen s p); [|apply ms_quiet; quiet_tac]. apply mshape_on_close; auto.
  - apply ms_quiet. quiet_tac.
  - apply mshape_task_die; auto.
  - (* Release *)
    destruct (finish_tasks p (ungate s p older (tasks s))) as [[l' e'] n'] eqn:F.
    apply (ms_rep s p). eapply rshape_release; eauto.
  - destruct (conn s p); apply ms_quiet; quiet_tac.
  - destruct (lastt s p) as [k|]; [|apply ms_quiet; quiet_tac].
    apply (ms_rep s p). apply rshape_map; auto.
  - apply ms_quiet. quiet_tac.
  - apply mshape_task_die; auto.
  - destruct (usink s p), (hsink s p); apply ms_quiet; quiet_tac.
  - apply ms_quiet. quiet_tac.
  - apply ms_quiet. quiet_tac.
  - apply ms_quiet. quiet_tac.
  - apply ms_quiet. quiet_tac.
Qed.

Lemma main_good c s o s1 ev cl : HInv s -> main_handler c s o = Some (s1, ev, cl) -> good s s1 ev.
Proof.
  intros HI M. pose proof (main_mshape c s o (h_t s HI)) as Sh. pose proof (hsink_main _ _ _ _ _ _ M) as HS.
  rewrite M in Sh. inversion Sh; subst.
  - eapply good_of_quiet; eauto.
  - eapply good_of_opens; eauto.
  - eapply good_of_rshape; eauto.
Qed.

(* ------------------------------------------------------------------ every step, every history *)
Lemma step_HInv c s o s' ev cl :
  HInv s -> step c s o = Some (s', ev, cl) -> grammar (hopen s) ev = Some (hopen s') /\ HInv s'.
Proof.
  intros HI S. destruct (main_handler c s o) as [[[s1 ev1] cl1]|] eqn:M.
  - eapply step_of_good; eauto. eapply main_good; eauto.
  - unfold step in S. rewrite M in S. discriminate S.
Qed.

Lemma run_grammar c ops : forall s, HInv s ->
  exists h', grammar (hopen s) (events (fst (run c s ops))) = Some h'.
Proof.
  induction ops as [|o t IH]; intros s HI; cbn [run fst events flat_map].
  - eexists. reflexivity.
  - destruct (step c s o) as [[[s1 ev] calls]|] eqn:S.
    + destruct (step_HInv _ _ _ _ _ _ HI S) as (G1 & H1).
      destruct (IH s1 H1) as (h2 & G2).
      destruct (run c s1 t) as [r b]. cbn [fst events flat_map snd] in *.
      exists h2. rewrite grammar_app, G1. exact G2.
    + eexists. reflexivity.
Qed.

Lemma run_HInv c ops : forall s, HInv s ->
  forall x, In x (fst (run c s ops)) -> HInv (fst (fst x)).
Proof.
  induction ops as [|o t IH]; intros s HI x; cbn [run fst].
  - intros [].
  - destruct (step c s o) as [[[s1 ev] calls]|] eqn:S; [|intros []].
    destruct (step_HInv _ _ _ _ _ _ HI S) as (_ & H1).
    specialize (IH s1 H1). destruct (run c s1 t) as [r b]. cbn [fst] in *.
    intros [<-|H]; eauto.
Qed.

Lemma alternation_all c ops : exists h, grammar (fun _ => false) (events (fst (run c init ops))) = Some h.
Proof. apply (run_grammar c ops init HInv_init). Qed.

(* when the connection to a peer with an open stream is lost, or the user closes it, NotificationStreamClosed
   is handed to the user in that very step *)
Lemma delivered_head_closed s p t : hopen s p = true -> In (UClosed p) (delivered s (UClosed p :: t)).
Proof.
  intros HO. cbn [delivered closed_report]. unfold current. rewrite HO. cbn. now left.
Qed.

Lemma step_conn_closed c s p k s' ev calls :
  HInv s -> conn s p = true -> ps s p = Some (Open k) ->
  step c s (ConnClosed p) = Some (s', ev, calls) -> In (UClosed p) ev.
Proof.
  intros HI C Hp. assert (HO : hopen s p = true) by (rewrite (h_gate s HI), Hp; reflexivity).
  unfold step. cbn [main_handler]. rewrite C. unfold on_closed. setters. rewrite Hp.
  match goal with |- context [signal ?a k] => destruct (signal a k) as [sg se] eqn:Sg end.
  destruct (signal_facts _ _ _ _ Sg) as (_ & A2 & _).
  match goal with |- context [drain ?a ?b] => destruct (drain a b) as [[s2 dr] ks] end.
  destruct (kill_tasks s2 ks) as [s4 ev4].
  destruct (drain s4 ev4) as [[s5 x] y].
  intros H; inversion H; subst. apply in_or_app. left. apply delivered_head_closed. rewrite A2. exact HO.
Qed.

Lemma step_cmd_close c s p k s' ev calls :
  HInv s -> ps s p = Some (Open k) ->
  step c s (CmdClose p) = Some (s', ev, calls) -> In (UClosed p) ev.
Proof.
  intros HI Hp. assert (HO : hopen s p = true) by (rewrite (h_gate s HI), Hp; reflexivity).
  unfold step. cbn [main_handler]. rewrite HO. unfold on_close. rewrite Hp.
  destruct (signal s k) as [sg se] eqn:Sg.
  destruct (signal_facts _ _ _ _ Sg) as (_ & A2 & _).
  match goal with |- context [drain ?a ?b] => destruct (drain a b) as [[s2 dr] ks] end.
  destruct (kill_tasks s2 ks) as [s4 ev4].
  destruct (drain s4 ev4) as [[s5 x] y].
  intros H; inversion H; subst. apply in_or_app. left. apply delivered_head_closed. setters. rewrite A2. exact HO.
Qed.

(* a Closed report that the handle does not ignore never removes the sink of a running Connection task:
   the third component of drain is empty in every step of every history *)
Lemma step_kills_nothing c s o s1 ev cl s2 dr ks :
  HInv s -> main_handler c s o = Some (s1, ev, cl) -> drain s1 ev = (s2, dr, ks) -> ks = [].
Proof.
  intros HI M D. destruct (main_good _ _ _ _ _ _ HI M _ _ _ D) as (K & _). exact K.
Qed.
