(* C11 — the eager model BEFORE the repair of finding class 1 (kept for the before-fix refutation only:
   C11_alternation_before_fix_refuted). Copy of Model.v as of verif commit 46e5725, up to `run`.
   Original header: executable model of litep2p's NotificationProtocol (src/protocol/notification/mod.rs),
   its Connection tasks (connection.rs), the HandshakeService membership (negotiation.rs), the
   NotificationHandle gate (handle.rs) and the part of TransportService the protocol talks to.
   One model step = one event handled to completion by `next_event` plus everything that became
   ready because of it (Connection tasks polled, user draining the event stream, close notices).
   Every debug_assert!(false) / Poisoned survivor of the Rust code is the outcome None ("stuck").
   Definitions only. *)
From Coq Require Import List NArith Bool.
Import ListNotations.
Open Scope N_scope.

Definition peer := N.
Definition sid := N.

Inductive inb := IClosed | IReading | IValidating | ISending | IOpen.
Inductive outb := OClosed | OInit (s : sid) | ONeg | OOpen.
Inductive dir := DIn | DOut.

(* PeerState of mod.rs; `Open k`: k is the ordinal of the Connection task holding the substreams
   (the Rust value holds the oneshot sender towards that task). *)
Inductive pstate :=
| Poisoned
| VPending (conn_open : bool)
| Closed (po : option sid)
| Dialing
| OutInit (s : sid)
| Validating (d : dir) (o : outb) (i : inb)
| Open (k : N).

(* NotificationError codes as printed by the harness *)
Definition E_REJECTED : N := 0.
Definition E_NOCONN : N := 1.
Definition E_VALPENDING : N := 2.
Definition E_DIALFAIL : N := 3.

Inductive uev := UValidate (p : peer) | UOpened (p : peer) (d : dir) | UClosed (p : peer) | UFail (p : peer) (e : N)
               | UNotif (p : peer).   (* NotificationReceived *)
Inductive call := CDial (p : peer) | COpen (p : peer) (s : sid) | CForce (p : peer)
                | CRet (p : peer) (code : N)          (* what a send call returned to the user *)
                | CWire (p : peer) (k : N) (m : N).   (* frame m written on the outbound substream of task k *)

(* return codes of send_sync_notification / send_async_notification *)
Definition R_OK : N := 0.
Definition R_NOCONN : N := 1.      (* NotificationError::NoConnection *)
Definition R_NOPEER : N := 3.      (* Error::PeerDoesntExist *)

(* A Connection task at an event boundary: running, or inside close_connection waiting for a
   substream close that does not complete (t_gated); t_closing = Some notify once it has decided
   to close (its shutdown receiver is closed from then on). *)
Record task := mkTask { t_id : N; t_peer : peer; t_closing : option bool; t_gated : bool }.

Record cfg := mkCfg { auto_accept : bool; should_dial : bool; dialable : peer -> bool }.

Record st := mkSt {
  ps : peer -> option pstate;          (* NotificationProtocol.peers *)
  pend : list (sid * peer);            (* NotificationProtocol.pending_outbound *)
  hsI : peer -> bool;                  (* HandshakeService holds an inbound substream of the peer *)
  hsO : peer -> bool;                  (* ... an outbound one *)
  hopen : peer -> bool;                (* NotificationHandle.peers: the user-side gate *)
  hval : peer -> bool;                 (* NotificationHandle.pending_validations *)
  conn : peer -> bool;                 (* TransportService.connections *)
  dead : peer -> bool;                 (* command channel of the connection is gone *)
  nsid : N;                            (* next substream id *)
  spend : list (sid * peer);           (* open_substream requests the service has not answered *)
  tasks : list task;
  ntask : N;
  lastt : peer -> option N;            (* most recent Connection task of the peer *)
  timers : list peer;                  (* armed 5 s negotiation timers, oldest first *)
  narm : N;                            (* timers armed so far *)
  hsink : peer -> option N;            (* NotificationHandle.peers: the sink (task) stored for the peer *)
  usink : peer -> option N             (* a NotificationSink clone the user keeps for the peer *)
}.

Definition upd {A} (f : peer -> A) (p : peer) (v : A) : peer -> A :=
  fun q => if q =? p then v else f q.

Definition init : st :=
  mkSt (fun _ => None) [] (fun _ => false) (fun _ => false) (fun _ => false) (fun _ => false)
       (fun _ => false) (fun _ => false) 0 [] [] 0 (fun _ => None) [] 0 (fun _ => None) (fun _ => None).

(* ---- field setters ---- *)
Definition set_ps (s : st) (p : peer) (v : option pstate) : st :=
  mkSt (upd (ps s) p v) (pend s) (hsI s) (hsO s) (hopen s) (hval s) (conn s) (dead s) (nsid s) (spend s) (tasks s) (ntask s) (lastt s) (timers s) (narm s) (hsink s) (usink s).
Definition set_pend (s : st) (l : list (sid * peer)) : st :=
  mkSt (ps s) l (hsI s) (hsO s) (hopen s) (hval s) (conn s) (dead s) (nsid s) (spend s) (tasks s) (ntask s) (lastt s) (timers s) (narm s) (hsink s) (usink s).
Definition set_hsI (s : st) (p : peer) (b : bool) : st :=
  mkSt (ps s) (pend s) (upd (hsI s) p b) (hsO s) (hopen s) (hval s) (conn s) (dead s) (nsid s) (spend s) (tasks s) (ntask s) (lastt s) (timers s) (narm s) (hsink s) (usink s).
Definition set_hsO (s : st) (p : peer) (b : bool) : st :=
  mkSt (ps s) (pend s) (hsI s) (upd (hsO s) p b) (hopen s) (hval s) (conn s) (dead s) (nsid s) (spend s) (tasks s) (ntask s) (lastt s) (timers s) (narm s) (hsink s) (usink s).
Definition set_hopen (s : st) (p : peer) (b : bool) : st :=
  mkSt (ps s) (pend s) (hsI s) (hsO s) (upd (hopen s) p b) (hval s) (conn s) (dead s) (nsid s) (spend s) (tasks s) (ntask s) (lastt s) (timers s) (narm s) (hsink s) (usink s).
Definition set_hval (s : st) (p : peer) (b : bool) : st :=
  mkSt (ps s) (pend s) (hsI s) (hsO s) (hopen s) (upd (hval s) p b) (conn s) (dead s) (nsid s) (spend s) (tasks s) (ntask s) (lastt s) (timers s) (narm s) (hsink s) (usink s).
Definition set_conn (s : st) (p : peer) (b : bool) : st :=
  mkSt (ps s) (pend s) (hsI s) (hsO s) (hopen s) (hval s) (upd (conn s) p b) (dead s) (nsid s) (spend s) (tasks s) (ntask s) (lastt s) (timers s) (narm s) (hsink s) (usink s).
Definition set_dead (s : st) (p : peer) (b : bool) : st :=
  mkSt (ps s) (pend s) (hsI s) (hsO s) (hopen s) (hval s) (conn s) (upd (dead s) p b) (nsid s) (spend s) (tasks s) (ntask s) (lastt s) (timers s) (narm s) (hsink s) (usink s).
Definition set_nsid (s : st) (n : N) : st :=
  mkSt (ps s) (pend s) (hsI s) (hsO s) (hopen s) (hval s) (conn s) (dead s) n (spend s) (tasks s) (ntask s) (lastt s) (timers s) (narm s) (hsink s) (usink s).
Definition set_spend (s : st) (l : list (sid * peer)) : st :=
  mkSt (ps s) (pend s) (hsI s) (hsO s) (hopen s) (hval s) (conn s) (dead s) (nsid s) l (tasks s) (ntask s) (lastt s) (timers s) (narm s) (hsink s) (usink s).
Definition set_tasks (s : st) (l : list task) : st :=
  mkSt (ps s) (pend s) (hsI s) (hsO s) (hopen s) (hval s) (conn s) (dead s) (nsid s) (spend s) l (ntask s) (lastt s) (timers s) (narm s) (hsink s) (usink s).
Definition set_hsink (s : st) (p : peer) (v : option N) : st :=
  mkSt (ps s) (pend s) (hsI s) (hsO s) (hopen s) (hval s) (conn s) (dead s) (nsid s) (spend s) (tasks s) (ntask s) (lastt s)
       (timers s) (narm s) (upd (hsink s) p v) (usink s).
Definition set_usink (s : st) (p : peer) (v : option N) : st :=
  mkSt (ps s) (pend s) (hsI s) (hsO s) (hopen s) (hval s) (conn s) (dead s) (nsid s) (spend s) (tasks s) (ntask s) (lastt s)
       (timers s) (narm s) (hsink s) (upd (usink s) p v).
Definition set_timers (s : st) (l : list peer) : st :=
  mkSt (ps s) (pend s) (hsI s) (hsO s) (hopen s) (hval s) (conn s) (dead s) (nsid s) (spend s) (tasks s) (ntask s) (lastt s) l (narm s) (hsink s) (usink s).
(* on_handshake_event pushes a 5 s timer for the peer whenever it returns without the stream open *)
Definition arm (s : st) (p : peer) : st :=
  mkSt (ps s) (pend s) (hsI s) (hsO s) (hopen s) (hval s) (conn s) (dead s) (nsid s) (spend s) (tasks s) (ntask s) (lastt s)
       (timers s ++ [p]) (narm s + 1) (hsink s) (usink s).
Definition spawn_task (s : st) (p : peer) : st :=
  mkSt (ps s) (pend s) (hsI s) (hsO s) (hopen s) (hval s) (conn s) (dead s) (nsid s) (spend s)
       (tasks s ++ [mkTask (ntask s) p None false]) (ntask s + 1) (upd (lastt s) p (Some (ntask s))) (timers s) (narm s) (hsink s) (usink s).

(* ---- pending_outbound (HashMap<SubstreamId, PeerId>) ---- *)
Definition pend_remove (x : sid) (l : list (sid * peer)) : list (sid * peer) :=
  filter (fun e => negb (fst e =? x)) l.
Definition pend_insert (x : sid) (p : peer) (l : list (sid * peer)) : list (sid * peer) :=
  (x, p) :: pend_remove x l.
Fixpoint pend_find (x : sid) (l : list (sid * peer)) : option peer :=
  match l with
  | [] => None
  | (y, p) :: t => if y =? x then Some p else pend_find x t
  end.
Definition drop_peer (p : peer) (l : list (sid * peer)) : list (sid * peer) :=
  filter (fun e => negb (snd e =? p)) l.

Definition pending_open (o : outb) : option sid :=
  match o with OInit x => Some x | _ => None end.
Definition o_closed (o : outb) : bool := match o with OClosed => true | _ => false end.

(* ---- result of a handler: None = stuck; otherwise new state, user events, service calls ---- *)
Definition res := option (st * list uev * list call).
Definition ok (s : st) : res := Some (s, [], []).
Definition ok_ev (s : st) (e : uev) : res := Some (s, [e], []).

(* ---- Connection tasks ---- *)
Fixpoint find_task (k : N) (l : list task) : option task :=
  match l with
  | [] => None
  | t :: r => if t_id t =? k then Some t else find_task k r
  end.
Definition remove_task (k : N) (l : list task) : list task :=
  filter (fun t => negb (t_id t =? k)) l.
Definition map_task (k : N) (f : task -> task) (l : list task) : list task :=
  map (fun t => if t_id t =? k then f t else t) l.

(* the shutdown sender towards task k is used or dropped: a running task closes without
   notifying the protocol; it reports NotificationStreamClosed once its substreams are closed *)
Definition signal (s : st) (k : N) : st * list uev :=
  match find_task k (tasks s) with
  | Some t =>
      match t_closing t with
      | Some _ => (s, [])
      | None =>
          if t_gated t
          then (set_tasks s (map_task k (fun t => mkTask (t_id t) (t_peer t) (Some false) true) (tasks s)), [])
          else (set_tasks s (remove_task k (tasks s)), [UClosed (t_peer t)])
      end
  | None => (s, [])
  end.

(* oneshot::Sender::is_closed() of the sender stored in PeerState::Open{k} *)
Definition task_closed (s : st) (k : N) : bool :=
  match find_task k (tasks s) with
  | Some t => match t_closing t with Some _ => true | None => false end
  | None => true
  end.

(* close notice (shutdown_rx) for peer p, after the fix: honoured only if the stream currently
   tracked as open is shutting down *)
Definition on_shutdown (s : st) (p : peer) : st :=
  match ps s p with
  | Some (Open k) => if task_closed s k then set_ps s p (Some (Closed None)) else s
  | _ => s
  end.

(* ---- TransportService calls ---- *)
(* open_substream: Ok(sid) | Err (the id is consumed when the connection exists) *)
Definition svc_open (s : st) (p : peer) : st * option sid :=
  if conn s p then
    let x := nsid s in
    let s1 := set_nsid s (x + 1) in
    if dead s p then (s1, None) else (set_spend s1 (spend s1 ++ [(x, p)]), Some x)
  else (s, None).
Definition svc_force (s : st) (p : peer) : list call :=
  if conn s p && negb (dead s p) then [CForce p] else [].

(* ---- handlers (one per select! arm / on_* function) ---- *)

(* `pending_outbound.contains_key(&substream_id)` for the id remembered in PeerState::Closed *)
Definition reusable (s : st) (po : option sid) : option sid :=
  match po with
  | Some x => match pend_find x (pend s) with Some _ => Some x | None => None end
  | None => None
  end.

Definition on_open (c : cfg) (s : st) (p : peer) : res :=
  match ps s p with
  | None =>
      if negb (should_dial c) then ok_ev s (UFail p E_DIALFAIL)
      else if dialable c p then Some (set_ps s p (Some Dialing), [], [CDial p])
      else ok_ev s (UFail p E_DIALFAIL)
  | Some (Closed po) =>
      (* a remembered pending substream id is adopted only while pending_outbound still lists it
         (its outcome is outstanding); an id whose open already failed is not (the repair of the
         former finding class 2): a new substream is requested instead *)
      match reusable s po with
      | Some x => ok (set_ps (set_pend s (pend_insert x p (pend s))) p (Some (OutInit x)))
      | None =>
          match svc_open s p with
          | (s1, Some x) =>
              Some (set_ps (set_pend s1 (pend_insert x p (pend s1))) p (Some (OutInit x)), [], [COpen p x])
          | (s1, None) => ok_ev (set_ps s1 p (Some (Closed None))) (UFail p E_NOCONN)
          end
      end
  | Some (VPending _) => ok_ev s (UFail p E_VALPENDING)
  | Some _ => ok s
  end.

Definition on_established (c : cfg) (s : st) (p : peer) : res :=
  match ps s p with
  | None => ok (set_ps s p (Some (Closed None)))
  | Some Dialing => on_open c (set_ps s p (Some (Closed None))) p
  | Some (VPending b) => if b then None else ok (set_ps s p (Some (VPending true)))
  | Some _ => None
  end.

Definition on_closed (s : st) (p : peer) : res :=
  let s := set_pend s (drop_peer p (pend s)) in
  match ps s p with
  | None => None
  | Some x =>
      let s := set_hsI (set_hsO (set_ps s p None) p false) p false in
      match x with
      | OutInit _ => ok_ev s (UFail p E_REJECTED)
      | Open k => let '(s1, ev) := signal s k in Some (s1, ev, [])
      | Validating _ o i =>
          match o, i with
          | OClosed, IValidating => ok (set_ps s p (Some (VPending false)))
          | OClosed, _ => ok s
          | _, _ => ok_ev s (UFail p E_REJECTED)
          end
      | VPending _ => ok (set_ps s p (Some (VPending false)))
      | _ => ok s
      end
  end.

Definition on_sub_out (s : st) (p : peer) (x : sid) : res :=
  match ps s p with
  | None => None
  | Some stt =>
      let pp := pend_find x (pend s) in
      let s := set_pend s (pend_remove x (pend s)) in
      match stt with
      | OutInit y =>
          if (y =? x) && (match pp with Some q => q =? p | None => false end)
          then ok (set_ps (set_hsO s p true) p (Some (Validating DOut ONeg IClosed)))
          else None
      | Validating d o i =>
          match i with
          | ISending | IOpen => ok (set_ps (set_hsO s p true) p (Some (Validating d ONeg i)))
          | _ =>
              match o with
              | OInit y => if y =? x then ok (set_ps (set_hsO s p true) p (Some (Validating d ONeg i))) else None
              | _ => None
              end
          end
      | Closed (Some y) => if y =? x then ok (set_ps s p (Some (Closed None))) else None
      | _ => None
      end
  end.

Definition on_sub_in (s : st) (p : peer) : res :=
  match ps s p with
  | None => None
  | Some (Closed None) => ok (set_ps (set_hsI s p true) p (Some (Validating DIn OClosed IReading)))
  | Some (Validating d o IClosed) => ok (set_ps (set_hsI s p true) p (Some (Validating d o IReading)))
  | Some (OutInit x) => ok (set_ps (set_hsI s p true) p (Some (Validating DOut (OInit x) IReading)))
  | Some (Validating _ OClosed IValidating) => ok (set_ps s p (Some (VPending true)))
  | Some _ => ok s
  end.

Definition on_open_fail (s : st) (x : sid) : res :=
  match pend_find x (pend s) with
  | None => None
  | Some p =>
      let s := set_pend s (pend_remove x (pend s)) in
      match ps s p with
      | None => None
      | Some (OutInit _) => ok_ev (set_ps s p (Some (Closed None))) (UFail p E_REJECTED)
      | Some (Validating _ o _) =>
          let s := set_hsO (set_hsI s p false) p false in
          match o with
          | OClosed => ok (set_ps s p (Some (Closed None)))
          | OInit y => ok_ev (set_ps s p (Some (Closed (Some y)))) (UFail p E_REJECTED)
          | _ => ok_ev (set_ps s p (Some (Closed None))) (UFail p E_REJECTED)
          end
      | Some (Closed po) =>
          match po with
          | Some y => if y =? x then ok (set_ps s p (Some (Closed None))) else None
          | None => None
          end
      | Some _ => None
      end
  end.

Definition on_dial_fail (s : st) (p : peer) : res :=
  match ps s p with
  | Some Dialing => ok_ev (set_ps s p None) (UFail p E_DIALFAIL)
  | _ => ok s
  end.

Definition on_close (s : st) (p : peer) : res :=
  match ps s p with
  | Some (Open k) =>
      let '(s1, ev) := signal s k in Some (set_ps s1 p (Some (Closed None)), ev, [])
  | _ => ok s
  end.

Definition on_validation (s : st) (p : peer) (accept : bool) : res :=
  match ps s p with
  | None => ok s
  | Some (Validating d o IValidating) =>
      if accept then
        match o with
        | OClosed =>
            match svc_open s p with
            | (s1, Some x) =>
                Some (set_ps (set_pend (set_hsI s1 p true) (pend_insert x p (pend s1))) p
                             (Some (Validating d (OInit x) ISending)), [], [COpen p x])
            | (s1, None) => ok_ev (set_ps s1 p (Some (Closed None))) (UFail p E_REJECTED)
            end
        | _ => ok (set_ps (set_hsI s p true) p (Some (Validating d o ISending)))
        end
      else ok (set_ps (set_hsI (set_hsO s p false) p false) p (Some (Closed (pending_open o))))
  | Some (VPending b) =>
      if b then
        let s := set_ps s p (Some (Closed None)) in
        if accept then ok_ev s (UFail p E_REJECTED) else ok s
      else
        let s := set_ps s p None in
        if accept then ok_ev s (UFail p E_NOCONN) else ok s
  | Some _ => ok s
  end.

(* tail of on_handshake_event: both substreams open -> start the Connection task *)
Definition hs_finish (s : st) (p : peer) : res :=
  match ps s p with
  | Some (Validating d OOpen IOpen) =>
      let k := ntask s in
      ok_ev (set_ps (spawn_task s p) p (Some (Open k))) (UOpened p d)
  | _ => ok (arm s p)
  end.

Definition on_hs_out_ok (s : st) (p : peer) : res :=
  match ps s p with
  | None => None
  | Some stt =>
      let s := set_hsO s p false in
      match stt with
      | Validating d ONeg i => hs_finish (set_ps s p (Some (Validating d OOpen i))) p
      | _ => None
      end
  end.

Definition on_hs_in_ok (c : cfg) (s : st) (p : peer) : res :=
  match ps s p with
  | None => None
  | Some stt =>
      let s := set_hsI s p false in
      match stt with
      | Validating d o IReading =>
          if negb (o_closed o) && auto_accept c
          then ok (set_ps (set_hsI s p true) p (Some (Validating d o ISending)))
          else ok_ev (arm (set_ps s p (Some (Validating d o IValidating))) p) (UValidate p)
      | Validating d o ISending => hs_finish (set_ps s p (Some (Validating d o IOpen))) p
      | _ => None
      end
  end.

Definition on_hs_err (s : st) (p : peer) : res :=
  match ps s p with
  | None => None
  | Some stt =>
      let s := set_hsI (set_hsO s p false) p false in
      match stt with
      | Validating _ o _ =>
          let s := set_ps s p (Some (Closed (pending_open o))) in
          if o_closed o then ok (arm s p) else ok_ev s (UFail p E_REJECTED)
      | _ => None
      end
  end.

Fixpoint remove_first (p : peer) (l : list peer) : list peer :=
  match l with
  | [] => []
  | q :: t => if q =? p then t else q :: remove_first p t
  end.

(* an expired timer: "peer didn't answer": only an attempt whose outbound half is open and whose
   inbound substream never came is cancelled; everything else ignores the timer *)
Definition on_timer (s : st) (p : peer) : res :=
  match ps s p with
  | Some (Validating _ OOpen IClosed) =>
      Some (set_ps s p (Some (Closed None)), [UFail p E_REJECTED], svc_force s p)
  | _ => ok s
  end.

(* ---- operations of a case (what the environment / the user does next) ---- *)
Inductive op :=
| Established (p : peer) | ConnClosed (p : peer) | SubIn (p : peer) | SubOut (p : peer)
| OpenFail (p : peer) | DialFail (p : peer) | HsIn (p : peer) (okb : bool) | HsOut (p : peer) (okb : bool)
| Validate (p : peer) (accept : bool) | Timer (p : peer) | CmdOpen (p : peer) | CmdClose (p : peer)
| CmdForce (p : peer) | TaskDie (p : peer) (gated : bool) | Release (p : peer) | KillChan (p : peer)
| Gate (p : peer)
| Notify (p : peer)                      (* the remote sends a notification on the open stream *)
| NotifyDie (p : peer) (gated : bool)    (* ... and then closes the stream *)
| GrabSink (p : peer)                    (* the user keeps a clone of handle.notification_sink(p) *)
| SendSync (p : peer) (m : N)            (* handle.send_sync_notification(p, m) *)
| SendAsync (p : peer) (m : N)           (* handle.send_async_notification(p, m) *)
| SinkSync (p : peer) (m : N)            (* the kept clone: sink.send_sync_notification(m) *)
| SinkAsync (p : peer) (m : N).          (* sink.send_async_notification(m) *)

Definition op_peer (o : op) : peer :=
  match o with
  | Established p | ConnClosed p | SubIn p | SubOut p | OpenFail p | DialFail p | HsIn p _
  | HsOut p _ | Validate p _ | Timer p | CmdOpen p | CmdClose p | CmdForce p | TaskDie p _
  | Release p | KillChan p | Gate p | Notify p | NotifyDie p _ | GrabSink p | SendSync p _ | SendAsync p _
  | SinkSync p _ | SinkAsync p _ => p
  end.

(* oldest unanswered open_substream request of the peer *)
Fixpoint first_req (p : peer) (l : list (sid * peer)) : option sid :=
  match l with
  | [] => None
  | (x, q) :: t => if q =? p then Some x else first_req p t
  end.

(* Connection tasks of p finish closing (their substream closes complete): each one notifies the
   protocol if it closed by itself, then reports NotificationStreamClosed; the close notices are
   handled by next_event afterwards. *)
Fixpoint finish_tasks (p : peer) (l : list task) : list task * list uev * N :=
  match l with
  | [] => ([], [], 0)
  | t :: r =>
      let '(r', ev, n) := finish_tasks p r in
      if (t_peer t =? p) && negb (t_gated t) then
        match t_closing t with
        | Some notify => (r', UClosed p :: ev, (if notify then 1 else 0) + n)
        | None => (t :: r', ev, n)
        end
      else (t :: r', ev, n)
  end.

Definition run_shutdowns (s : st) (p : peer) (n : N) : st :=
  if n =? 0 then s else on_shutdown s p.

(* the remote closes the open stream of p (inbound substream ends): the newest Connection task of
   the peer, if still running, closes by itself and notifies the protocol *)
Definition task_die_op (s : st) (p : peer) (g : bool) : res :=
      match lastt s p with
      | Some k =>
          match find_task k (tasks s) with
          | Some t =>
              match t_closing t with
              | Some _ => ok s
              | None =>
                  if g || t_gated t
                  then ok (set_tasks s (map_task k (fun t => mkTask (t_id t) (t_peer t) (Some true) true) (tasks s)))
                  else Some (on_shutdown (set_tasks s (remove_task k (tasks s))) p, [UClosed p], [])
              end
          | None => ok s
          end
      | None => ok s
      end.

(* A notification handed to the sink of task k: accepted while the task's receivers exist (the task is
   alive, running or closing); written to the task's outbound substream only if the task is running;
   an error if the task is gone. Channel capacities are C12's subject and not modelled here. *)
Definition sink_send (s : st) (p : peer) (k : N) (m : N) (async : bool) : list call :=
  match find_task k (tasks s) with
  | Some t =>
      CRet p R_OK :: match t_closing t with None => [CWire (t_peer t) k m] | Some _ => [] end
  | None => [CRet p (if async then R_NOPEER else R_NOCONN)]
  end.

(* through the handle: the `peers` map is the gate; a synchronous send to a peer that is not in the
   map returns Ok and does nothing, an asynchronous one returns PeerDoesntExist *)
Definition handle_send (s : st) (p : peer) (m : N) (async : bool) : list call :=
  match hsink s p with
  | Some k => sink_send s p k m async
  | None => [CRet p (if async then R_NOPEER else R_OK)]
  end.

Definition main_handler (c : cfg) (s : st) (o : op) : res :=
  match o with
  | Established p =>
      if conn s p then ok s else on_established c (set_dead (set_conn s p true) p false) p
  | ConnClosed p =>
      if conn s p then on_closed (set_spend (set_conn s p false) (drop_peer p (spend s))) p else ok s
  | SubIn p => if conn s p then on_sub_in s p else ok s
  | SubOut p =>
      if conn s p then
        match first_req p (spend s) with
        | Some x => on_sub_out (set_spend s (pend_remove x (spend s))) p x
        | None => ok s
        end
      else ok s
  | OpenFail p =>
      if conn s p then
        match first_req p (spend s) with
        | Some x => on_open_fail (set_spend s (pend_remove x (spend s))) x
        | None => ok s
        end
      else ok s
  | DialFail p => on_dial_fail s p
  | HsIn p b => if hsI s p then (if b then on_hs_in_ok c s p else on_hs_err s p) else ok s
  | HsOut p b => if hsO s p then (if b then on_hs_out_ok s p else on_hs_err s p) else ok s
  | Validate p a => if hval s p then on_validation (set_hval s p false) p a else ok s
  | Timer p => if existsb (N.eqb p) (timers s) then on_timer (set_timers s (remove_first p (timers s))) p else ok s
  | CmdOpen p => if hopen s p then ok s else on_open c s p
  | CmdClose p => if hopen s p then on_close s p else ok s
  | CmdForce p => Some (s, [], svc_force s p)
  | TaskDie p g => task_die_op s p g
  | Notify p => ok s
  | NotifyDie p g => task_die_op s p g
  | Gate p =>
      match lastt s p with
      | Some k => ok (set_tasks s (map_task k (fun t => mkTask (t_id t) (t_peer t) (t_closing t) true) (tasks s)))
      | None => ok s
      end
  | Release p =>
      let l := map (fun t => if t_peer t =? p then mkTask (t_id t) (t_peer t) (t_closing t) false else t) (tasks s) in
      let '(l', ev, n) := finish_tasks p l in
      Some (run_shutdowns (set_tasks s l') p n, ev, [])
  | KillChan p => if conn s p then ok (set_dead s p true) else ok s
  | GrabSink p =>
      match usink s p, hsink s p with
      | None, Some k => ok (set_usink s p (Some k))
      | _, _ => ok s
      end
  | SendSync p m => Some (s, [], handle_send s p m false)
  | SendAsync p m => Some (s, [], handle_send s p m true)
  | SinkSync p m => Some (s, [], match usink s p with Some k => sink_send s p k m false | None => [] end)
  | SinkAsync p m => Some (s, [], match usink s p with Some k => sink_send s p k m true | None => [] end)
  end.

(* the user drains the event stream: the handle's gate and pending validations follow the events.
   A ValidateSubstream that replaces an unanswered one drops the old oneshot (second component of
   the result); since the fix the protocol does not read a dropped sender as a verdict. NotificationStreamClosed removes the peer's NotificationSink from
   the handle: if that sink belongs to a Connection task that is still running (the Closed came
   from an older task), the task sees its notification channels closed and shuts down. *)
Definition running (s : st) (k : N) : bool :=
  match find_task k (tasks s) with
  | Some t => match t_closing t with None => true | Some _ => false end
  | None => false
  end.

Fixpoint drain (s : st) (evs : list uev) : st * list peer * list N :=
  match evs with
  | [] => (s, [], [])
  | e :: t =>
      match e with
      | UOpened p _ => drain (set_hsink (set_hopen s p true) p (lastt s p)) t
      | UClosed p =>
          let killed :=
            match hsink s p with
            | Some k =>
                (* the handle drops its sink; the task notices only if no clone is left *)
                if running s k && negb (match usink s p with Some k' => k' =? k | None => false end)
                then [k] else []
            | None => []
            end in
          let '(s1, l, ks) := drain (set_hsink (set_hopen s p false) p None) t in (s1, l, killed ++ ks)
      | UValidate p =>
          if hval s p then let '(s1, l, ks) := drain s t in (s1, p :: l, ks)
          else drain (set_hval s p true) t
      | UFail _ _ => drain s t
      | UNotif _ => drain s t
      end
  end.

(* a running task whose notification channels were closed: it closes by itself (notify = Yes) *)
Definition task_dies (s : st) (k : N) : st * list uev :=
  match find_task k (tasks s) with
  | Some t =>
      match t_closing t with
      | Some _ => (s, [])
      | None =>
          if t_gated t
          then (set_tasks s (map_task k (fun t => mkTask (t_id t) (t_peer t) (Some true) true) (tasks s)), [])
          else (on_shutdown (set_tasks s (remove_task k (tasks s))) (t_peer t), [UClosed (t_peer t)])
      end
  | None => (s, [])
  end.

Fixpoint kill_tasks (s : st) (ks : list N) : st * list uev :=
  match ks with
  | [] => (s, [])
  | k :: t => let '(s1, e1) := task_dies s k in let '(s2, e2) := kill_tasks s1 t in (s2, e1 ++ e2)
  end.

(* notifications the Connection task of the peer forwards into the handle's notification channel
   while this event is handled: the newest task of the peer must still be running *)
Definition notifs_of (s : st) (o : op) : list peer :=
  match o with
  | Notify p | NotifyDie p _ =>
      match lastt s p with
      | Some k => if running s k then [p] else []
      | None => []
      end
  | _ => []
  end.

(* The handle polls its event channel before its notification channel: the lifecycle events that are
   queued are seen first, then the queued notifications, which are delivered only for peers that are
   in the handle's `peers` map at that moment. *)
Definition step (c : cfg) (s : st) (o : op) : res :=
  match main_handler c s o with
  | None => None
  | Some (s1, ev, calls) =>
      let '(s2, _, killed) := drain s1 ev in
      let nf := map UNotif (filter (hopen s2) (notifs_of s o)) in
      let '(s4, ev4) := kill_tasks s2 killed in
      let '(s5, _, _) := drain s4 ev4 in
      Some (s5, ev ++ nf ++ ev4, calls)
  end.

(* a run: outputs of every step; stops at the first stuck step *)
Fixpoint run (c : cfg) (s : st) (l : list op) : list (st * list uev * list call) * bool :=
  match l with
  | [] => ([], true)
  | o :: t =>
      match step c s o with
      | None => ([], false)
      | Some (s1, ev, calls) => let '(r, b) := run c s1 t in ((s1, ev, calls) :: r, b)
      end
  end.


(* the event grammar per peer (copy of PAlt.grammar for this event type) *)
Fixpoint grammar (h : peer -> bool) (l : list uev) : option (peer -> bool) :=
  match l with
  | [] => Some h
  | UOpened p _ :: t => if h p then None else grammar (upd h p true) t
  | UClosed p :: t => if h p then grammar (upd h p false) t else None
  | UFail p _ :: t => if h p then None else grammar h t
  | UValidate _ :: t => grammar h t
  | UNotif p :: t => if h p then grammar h t else None
  end.
Definition events (r : list (st * list uev * list call)) : list uev := flat_map (fun x => snd (fst x)) r.
