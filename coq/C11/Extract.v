From Coq Require Import ExtrOcamlBasic.
From V.C11 Require Import Glue.
Extraction Language OCaml.
Extraction "c11_model.ml" run_case prop_ok known_class.
