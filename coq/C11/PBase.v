(* C11 — shared basics: update lemmas, the setter-simplification tactic, task list facts. *)
From Coq Require Import List NArith Bool Lia.
From V.C11 Require Import Model.
Import ListNotations.
Open Scope N_scope.

Arguments N.add : simpl never.
Arguments N.eqb : simpl never.

(* ------------------------------------------------------------------ basics *)
Lemma upd_same {A} (f : peer -> A) p v : upd f p v p = v.
Proof. unfold upd. now rewrite N.eqb_refl. Qed.
Lemma upd_other {A} (f : peer -> A) p v q : q <> p -> upd f p v q = f q.
Proof. unfold upd. intros H. destruct (q =? p) eqn:E; auto. apply N.eqb_eq in E. contradiction. Qed.

Definition is_open (x : option pstate) : bool := match x with Some (Open _) => true | _ => false end.

Ltac setters :=
  cbn [ps pend hsI hsO hopen hval conn dead nsid spend tasks ntask lastt timers narm set_timers arm hsink usink set_hsink set_usink
       set_ps set_pend set_hsI set_hsO set_hopen set_hval set_conn set_dead set_nsid set_spend set_tasks spawn_task] in *.

(* ------------------------------------------------------------------ task list facts *)
Lemma find_task_some k l t : find_task k l = Some t -> In t l /\ t_id t = k.
Proof.
  induction l as [|a l IH]; cbn; [discriminate|].
  destruct (t_id a =? k) eqn:E.
  - intros H; inversion H; subst. apply N.eqb_eq in E. auto.
  - intros H. destruct (IH H). auto.
Qed.

Lemma find_task_in l t : In t l -> exists t', find_task (t_id t) l = Some t'.
Proof.
  induction l as [|a l IH]; cbn; [tauto|]. intros [->|H].
  - rewrite N.eqb_refl. eauto.
  - destruct (t_id a =? t_id t); eauto.
Qed.

Lemma nodup_id_eq l t1 t2 :
  NoDup (map t_id l) -> In t1 l -> In t2 l -> t_id t1 = t_id t2 -> t1 = t2.
Proof.
  induction l as [|a l IH]; cbn; [tauto|]. intros ND. inversion ND as [|x y Hn ND']; subst.
  intros [->|H1] [->|H2] E; auto.
  - exfalso. apply Hn. rewrite E. now apply in_map.
  - exfalso. apply Hn. rewrite <- E. now apply in_map.
Qed.

Lemma in_remove t k l : In t (remove_task k l) <-> In t l /\ t_id t <> k.
Proof.
  unfold remove_task. rewrite filter_In. split; intros [H1 H2]; split; auto.
  - intros E. rewrite E, N.eqb_refl in H2. discriminate.
  - destruct (t_id t =? k) eqn:E; auto. apply N.eqb_eq in E. contradiction.
Qed.

Lemma find_task_remove k l : find_task k (remove_task k l) = None.
Proof.
  destruct (find_task k (remove_task k l)) eqn:E; auto.
  apply find_task_some in E. destruct E as [H1 H2]. apply in_remove in H1. tauto.
Qed.

Lemma nodup_remove k l : NoDup (map t_id l) -> NoDup (map t_id (remove_task k l)).
Proof.
  induction l as [|a l IH]; cbn; auto. intros ND. inversion ND as [|x y Hn ND']; subst.
  destruct (negb (t_id a =? k)); cbn; auto. constructor; auto.
  intros H. apply Hn. apply in_map_iff in H. destruct H as (t & E & Ht).
  apply in_remove in Ht. rewrite <- E. apply in_map. tauto.
Qed.

Lemma NoDup_app_single {A} (l : list A) x : NoDup l -> ~ In x l -> NoDup (l ++ [x]).
Proof.
  induction l as [|a l IH]; cbn; intros ND Hn.
  - constructor; auto.
  - inversion ND as [|y z Hy ND']; subst. constructor.
    + intros H. apply in_app_or in H. destruct H as [H|[H|[]]]; auto.
    + apply IH; auto.
Qed.


(* releasing held-back closes changes neither ids, peers nor the closing flags of the tasks *)
Lemma ungate_in s p older l t : In t (ungate s p older l) ->
  exists t0, In t0 l /\ t_id t = t_id t0 /\ t_peer t = t_peer t0 /\ t_closing t = t_closing t0.
Proof.
  unfold ungate. intros H. apply in_map_iff in H. destruct H as (t0 & E & H0). exists t0.
  destruct ((t_peer t0 =? p) && _); subst t; cbn; auto.
Qed.

Lemma ungate_ids s p older l : map t_id (ungate s p older l) = map t_id l.
Proof. unfold ungate. rewrite map_map. apply map_ext. intros t. destruct ((t_peer t =? p) && _); auto. Qed.

(* state after a list of events (None: stuck on the way) *)
Fixpoint exec (c : cfg) (s : st) (l : list op) : option st :=
  match l with
  | [] => Some s
  | o :: t => match step c s o with Some (s1, _, _) => exec c s1 t | None => None end
  end.


(* ---- full case split of handler equations ---- *)
(* what a change of the task list may do: tasks keep their id and peer, tasks with other ids stay *)
Definition tasks_sub (k : N) (old new : list task) : Prop :=
  (forall t', In t' new -> exists t, In t old /\ t_id t' = t_id t /\ t_peer t' = t_peer t) /\
  (forall t, In t old -> t_id t <> k -> In t new).

Lemma tasks_sub_refl k l : tasks_sub k l l.
Proof. split; eauto. Qed.

Lemma tasks_sub_map k f l :
  (forall t, t_id (f t) = t_id t /\ t_peer (f t) = t_peer t) -> tasks_sub k l (map_task k f l).
Proof.
  intros Hf. unfold map_task. split.
  - intros t' H. apply in_map_iff in H. destruct H as (t & E & Ht). exists t. split; auto.
    destruct (t_id t =? k); subst; auto.
  - intros t Ht Hne. apply in_map_iff. exists t. split; auto.
    destruct (t_id t =? k) eqn:E; auto. apply N.eqb_eq in E. contradiction.
Qed.

Lemma tasks_sub_remove k l : tasks_sub k l (remove_task k l).
Proof.
  split.
  - intros t' H. apply in_remove in H. exists t'. tauto.
  - intros t Ht Hne. apply in_remove. tauto.
Qed.

Lemma signal_core s k s' ev : signal s k = (s', ev) ->
  exists l, s' = set_tasks s l /\ tasks_sub k (tasks s) l /\
            (ev = [] \/ exists t, find_task k (tasks s) = Some t /\ ev = [UClosedT (t_peer t) k]).
Proof.
  unfold signal. destruct (find_task k (tasks s)) as [t|] eqn:F.
  - destruct (t_closing t); [|destruct (t_gated t)]; intros H; injection H as <- <-.
    + exists (tasks s). split; [destruct s; reflexivity|]. split; auto using tasks_sub_refl.
    + eexists. split; [reflexivity|]. split; auto. apply tasks_sub_map. intros; auto.
    + eexists. split; [reflexivity|]. split; eauto using tasks_sub_remove.
  - intros H; injection H as <- <-. exists (tasks s). split; [destruct s; reflexivity|].
    split; auto using tasks_sub_refl.
Qed.

Ltac setters_in M :=
  cbn [ps pend hsI hsO hopen hval conn dead nsid spend tasks ntask lastt timers narm set_timers arm hsink usink set_hsink set_usink
       set_ps set_pend set_hsI set_hsO set_hopen set_hval set_conn set_dead set_nsid set_spend set_tasks spawn_task] in M;
  rewrite ?upd_same in M.

(* full case split of handler equations in the context (innermost scrutinee first) *)
Ltac split_all :=
  repeat match goal with
         | E : None = Some _ |- _ => discriminate E
         | E : Some _ = None |- _ => discriminate E
         | E : Some _ = Some _ |- _ => inversion E; subst; clear E
         | E : (_, _) = (_, _) |- _ => inversion E; subst; clear E
         | M : context [signal ?a ?k] |- _ =>
             let Sg := fresh "Sg" in let tl := fresh "tl" in let ss := fresh "ss" in let se := fresh "se" in
             destruct (signal a k) as [ss se] eqn:Sg; apply signal_core in Sg; destruct Sg as (tl & -> & ? & ?)
         | M : context [match ?x with _ => _ end] |- _ =>
             lazymatch x with
             | context [match _ with _ => _ end] => fail
             | _ => destruct x eqn:?; setters_in M
             end
         end.

Ltac unfold_handlers M :=
  cbn [main_handler] in M;
  unfold on_established, on_open, reusable, on_closed, on_sub_out, on_sub_in, on_open_fail, on_dial_fail, on_close,
         on_validation, on_hs_out_ok, on_hs_in_ok, on_hs_err, on_timer, hs_finish, svc_open, svc_force,
         task_die_op, ok, ok_ev in M;
  setters_in M.


(* the handlers never touch the handle's sink table or the user's sink clones *)
Lemma on_shutdown_hsink s p : hsink (on_shutdown s p) = hsink s.
Proof.
  unfold on_shutdown. destruct (ps s p) as [[]|]; auto. destruct (task_closed s k); auto.
Qed.

Lemma hsink_main c s o s1 ev cl : main_handler c s o = Some (s1, ev, cl) -> hsink s1 = hsink s.
Proof.
  intros M. destruct o; unfold_handlers M.
  all: try (split_all; reflexivity).
  - split_all; try reflexivity. rewrite on_shutdown_hsink. reflexivity.
  - match type of M with context [finish_tasks ?a ?b] => destruct (finish_tasks a b) as [[l' e'] n'] end.
    split_all. unfold run_shutdowns. match goal with |- context [if ?b then _ else _] => destruct b end; auto.
    rewrite on_shutdown_hsink. reflexivity.
  - split_all; try reflexivity. rewrite on_shutdown_hsink. reflexivity.
Qed.

Lemma on_shutdown_hopen s p : hopen (on_shutdown s p) = hopen s.
Proof.
  unfold on_shutdown. destruct (ps s p) as [[]|]; auto. destruct (task_closed s k); auto.
Qed.

Lemma hopen_main c s o s1 ev cl : main_handler c s o = Some (s1, ev, cl) -> hopen s1 = hopen s.
Proof.
  intros M. destruct o; unfold_handlers M.
  all: try (split_all; reflexivity).
  - split_all; try reflexivity. rewrite on_shutdown_hopen. reflexivity.
  - match type of M with context [finish_tasks ?a ?b] => destruct (finish_tasks a b) as [[l' e'] n'] end.
    split_all. unfold run_shutdowns. match goal with |- context [if ?b then _ else _] => destruct b end; auto.
    rewrite on_shutdown_hopen. reflexivity.
  - split_all; try reflexivity. rewrite on_shutdown_hopen. reflexivity.
Qed.

Definition same_tasks (s s' : st) : Prop :=
  ps s' = ps s /\ tasks s' = tasks s /\ lastt s' = lastt s /\ ntask s' = ntask s.

(* draining only applies handle-side updates: any reflexive, transitive relation that those updates
   respect holds between the state before and after *)
Lemma drain_rel (R : st -> st -> Prop) :
  (forall s, R s s) -> (forall s1 s2 s3, R s1 s2 -> R s2 s3 -> R s1 s3) ->
  (forall s p, R s (set_hval s p true)) ->
  (forall s p, R s (set_hsink (set_hopen s p true) p (lastt s p))) ->
  (forall s p, R s (set_hsink (set_hopen s p false) p None)) ->
  forall ev s s' dr ks, drain s ev = (s', dr, ks) -> R s s'.
Proof.
  intros Rr Rt Rv Ro Rc. induction ev as [|e t IH]; intros s s' dr ks; cbn [drain].
  - intros H; injection H as <- _ _. apply Rr.
  - destruct e; cbn [closed_report].
    + destruct (hval s p).
      * destruct (drain s t) as [[a b] c0] eqn:E. intros H; injection H as <- _ _. eapply IH; eauto.
      * intros H. eapply Rt; [apply Rv|eapply IH; eauto].
    + intros H. eapply Rt; [apply Ro|eapply IH; eauto].
    + destruct (current s p None); [|intros H; eapply IH; eauto].
      destruct (drain (set_hsink (set_hopen s p false) p None) t) as [[a b] c0] eqn:E. intros H; injection H as <- _ _.
      eapply Rt; [apply Rc|eapply IH; eauto].
    + intros H. eapply IH; eauto.
    + intros H. eapply IH; eauto.
    + destruct (current s p (Some k)); [|intros H; eapply IH; eauto].
      destruct (drain (set_hsink (set_hopen s p false) p None) t) as [[a b] c0] eqn:E. intros H; injection H as <- _ _.
      eapply Rt; [apply Rc|eapply IH; eauto].
Qed.

Lemma drain_tasks ev : forall s s' dr ks, drain s ev = (s', dr, ks) -> same_tasks s s'.
Proof.
  apply (drain_rel same_tasks); unfold same_tasks; intros; setters; repeat split; auto.
  all: destruct H as (A1 & A2 & A3 & A4), H0 as (B1 & B2 & B3 & B4); congruence.
Qed.

