(* C11 — shared basics: update lemmas, the setter-simplification tactic, task list facts. *)
From Coq Require Import List NArith Bool Lia.
From V.C11 Require Import Model.
Import ListNotations.
Open Scope N_scope.

Arguments N.add : simpl never.
Arguments N.eqb : simpl never.

(* ------------------------------------------------------------------ basics *)
Lemma upd_same {A} (f : peer -> A) p v : upd f p v p = v.
Proof. unfold upd. now rewrite N.eqb_refl. Qed.
Lemma upd_other {A} (f : peer -> A) p v q : q <> p -> upd f p v q = f q.
Proof. unfold upd. intros H. destruct (q =? p) eqn:E; auto. apply N.eqb_eq in E. contradiction. Qed.

Definition is_open (x : option pstate) : bool := match x with Some (Open _) => true | _ => false end.

Ltac setters :=
  cbn [ps pend hsI hsO hopen hval conn dead nsid spend tasks ntask lastt timers narm set_timers arm
       set_ps set_pend set_hsI set_hsO set_hopen set_hval set_conn set_dead set_nsid set_spend set_tasks spawn_task] in *.

(* ------------------------------------------------------------------ task list facts *)
Lemma find_task_some k l t : find_task k l = Some t -> In t l /\ t_id t = k.
Proof.
  induction l as [|a l IH]; cbn; [discriminate|].
  destruct (t_id a =? k) eqn:E.
  - intros H; inversion H; subst. apply N.eqb_eq in E. auto.
  - intros H. destruct (IH H). auto.
Qed.

Lemma find_task_in l t : In t l -> exists t', find_task (t_id t) l = Some t'.
Proof.
  induction l as [|a l IH]; cbn; [tauto|]. intros [->|H].
  - rewrite N.eqb_refl. eauto.
  - destruct (t_id a =? t_id t); eauto.
Qed.

Lemma nodup_id_eq l t1 t2 :
  NoDup (map t_id l) -> In t1 l -> In t2 l -> t_id t1 = t_id t2 -> t1 = t2.
Proof.
  induction l as [|a l IH]; cbn; [tauto|]. intros ND. inversion ND as [|x y Hn ND']; subst.
  intros [->|H1] [->|H2] E; auto.
  - exfalso. apply Hn. rewrite E. now apply in_map.
  - exfalso. apply Hn. rewrite <- E. now apply in_map.
Qed.

Lemma in_remove t k l : In t (remove_task k l) <-> In t l /\ t_id t <> k.
Proof.
  unfold remove_task. rewrite filter_In. split; intros [H1 H2]; split; auto.
  - intros E. rewrite E, N.eqb_refl in H2. discriminate.
  - destruct (t_id t =? k) eqn:E; auto. apply N.eqb_eq in E. contradiction.
Qed.

Lemma find_task_remove k l : find_task k (remove_task k l) = None.
Proof.
  destruct (find_task k (remove_task k l)) eqn:E; auto.
  apply find_task_some in E. destruct E as [H1 H2]. apply in_remove in H1. tauto.
Qed.

Lemma nodup_remove k l : NoDup (map t_id l) -> NoDup (map t_id (remove_task k l)).
Proof.
  induction l as [|a l IH]; cbn; auto. intros ND. inversion ND as [|x y Hn ND']; subst.
  destruct (negb (t_id a =? k)); cbn; auto. constructor; auto.
  intros H. apply Hn. apply in_map_iff in H. destruct H as (t & E & Ht).
  apply in_remove in Ht. rewrite <- E. apply in_map. tauto.
Qed.

Lemma NoDup_app_single {A} (l : list A) x : NoDup l -> ~ In x l -> NoDup (l ++ [x]).
Proof.
  induction l as [|a l IH]; cbn; intros ND Hn.
  - constructor; auto.
  - inversion ND as [|y z Hy ND']; subst. constructor.
    + intros H. apply in_app_or in H. destruct H as [H|[H|[]]]; auto.
    + apply IH; auto.
Qed.


(* state after a list of events (None: stuck on the way) *)
Fixpoint exec (c : cfg) (s : st) (l : list op) : option st :=
  match l with
  | [] => Some s
  | o :: t => match step c s o with Some (s1, _, _) => exec c s1 t | None => None end
  end.

