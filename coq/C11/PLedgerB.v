(* C11 — the open-request ledger, part B: no dead substream id; validations stay at the handle. *)
From Coq Require Import List NArith Bool Lia.
From V.C11 Require Import Model PBase PSB PLedgerA.
Import ListNotations.
Open Scope N_scope.

(* no dead substream id: every substream id an outbound attempt in progress waits for is owed by the
   transport (W), and so is every entry of pending_outbound (P). Since the repair of the former finding
   class 2 (a remembered id is adopted only while pending_outbound lists it) this holds for every history. *)
Definition wq2 (x : option pstate) : option sid :=
  match x with
  | Some (OutInit y) => Some y
  | Some (Validating _ (OInit y) _) => Some y
  | _ => None
  end.

Definition B3 (s : st) : Prop :=
  (forall p x, wq2 (ps s p) = Some x -> In (x, p) (spend s)) /\
  (forall x q, In (x, q) (pend s) -> In (x, q) (spend s)).

Lemma pend_find_in x l q : pend_find x l = Some q -> In (x, q) l.
Proof.
  induction l as [|[y r] l IH]; cbn; [discriminate|]. destruct (y =? x) eqn:E.
  - intros H; injection H as ->. apply N.eqb_eq in E. subst. auto.
  - auto.
Qed.

Lemma in_pend_insert x p y (q : peer) l : In (y, q) (pend_insert x p l) -> (y = x /\ q = p) \/ (In (y, q) l /\ y <> x).
Proof.
  unfold pend_insert. intros [H|H].
  - injection H as <- <-. auto.
  - apply in_pend_remove in H. auto.
Qed.

Lemma B3_mono s s' :
  B3 s -> (forall q x, wq2 (ps s' q) = Some x -> wq2 (ps s q) = Some x) ->
  (forall e, In e (pend s') -> In e (pend s)) ->
  (forall e, In e (spend s) -> In e (spend s')) -> B3 s'.
Proof.
  intros [B P] W Pe S. split.
  - intros p x H. apply S, B, W, H.
  - intros x q H. apply S, P, Pe, H.
Qed.

Lemma B3_new s s' p v :
  B3 s -> ps_at s s' p v -> wq2 v = Some (nsid s) -> pend s' = pend_insert (nsid s) p (pend s) ->
  spend s' = spend s ++ [(nsid s, p)] -> B3 s'.
Proof.
  intros [B P] PA Wv Pe S. split.
  - intros q x H. rewrite S. apply in_or_app. rewrite PA in H. destruct (q =? p) eqn:E.
    + apply N.eqb_eq in E. subst q. rewrite Wv in H. injection H as <-. right. left. reflexivity.
    + left. auto.
  - intros x q H. rewrite S. apply in_or_app. rewrite Pe in H. apply in_pend_insert in H.
    destruct H as [[-> ->]|[H _]]; [right; left; reflexivity|left; auto].
Qed.

(* a new request whose result the protocol does not wait for cannot arise: svc_open failing adds nothing *)
Lemma B3_answer s s' p x v :
  B3 s -> SB s -> In (x, p) (spend s) -> ps_at s s' p v -> wq2 v = None ->
  pend s' = pend_remove x (pend s) -> spend s' = pend_remove x (spend s) -> B3 s'.
Proof.
  intros [B P] SBs Hx PA Wv Pe S. split.
  - intros q y H. rewrite S. rewrite PA in H. destruct (q =? p) eqn:E.
    + rewrite Wv in H. discriminate.
    + apply in_pend_remove. split; auto. intros ->. apply N.eqb_neq in E. apply E.
      eapply spend_owner; eauto.
  - intros y q H. rewrite S. rewrite Pe in H. apply in_pend_remove in H. destruct H as [H Hne].
    apply in_pend_remove. auto.
Qed.

Lemma B3_closed s s' p v :
  B3 s -> ps_at s s' p v -> wq2 v = None -> pend s' = drop_peer p (pend s) ->
  spend s' = drop_peer p (spend s) -> B3 s'.
Proof.
  intros [B P] PA Wv Pe S. split.
  - intros q y H. rewrite S. rewrite PA in H. destruct (q =? p) eqn:E.
    + rewrite Wv in H. discriminate.
    + apply in_drop_peer. split; auto. now apply N.eqb_neq.
  - intros y q H. rewrite S. rewrite Pe in H. apply in_drop_peer in H. destruct H as [H Hne].
    apply in_drop_peer. auto.
Qed.

(* the remembered id is adopted: pending_outbound lists it, so the transport owes it, and to this peer *)
Lemma B3_reuse s s' p x q0 :
  B3 s -> SB s -> ps s p = Some (Closed (Some x)) -> pend_find x (pend s) = Some q0 ->
  ps_at s s' p (Some (OutInit x)) -> pend s' = pend_insert x p (pend s) -> spend s' = spend s -> B3 s'.
Proof.
  intros [B P] [B1 B2] Hp Hf PA Pe S.
  assert (X : In (x, p) (spend s)).
  { pose proof (P _ _ (pend_find_in _ _ _ Hf)) as X. destruct (B2 p x) as [_ O]; [rewrite Hp; reflexivity|].
    now rewrite <- (O _ X). }
  split; rewrite S.
  - intros q y H. rewrite PA in H. destruct (q =? p) eqn:E.
    + apply N.eqb_eq in E. subst q. cbn in H. injection H as <-. exact X.
    + auto.
  - intros y q H. rewrite Pe in H. apply in_pend_insert in H. destruct H as [[-> ->]|[H _]]; auto.
Qed.

Ltac wq_mono_close :=
  let q := fresh "q" in let x := fresh "x" in let E := fresh "E" in let X := fresh "X" in
  intros q x; setters; unfold upd;
  repeat (match goal with |- context [q =? ?p] => destruct (q =? p) eqn:E; [apply N.eqb_eq in E; subst q|] end);
  repeat match goal with E : ps _ _ = _ |- _ => rewrite E end;
  repeat match goal with o : outb |- _ => destruct o end; cbn; intros X; first [exact X | discriminate X | congruence].
Ltac B3_mono_close B :=
  eapply (B3_mono _ _ B);
  [wq_mono_close | setters; intros e He; exact He | setters; intros e He; first [exact He | apply in_or_app; left; exact He]].
Ltac B3_new_close B :=
  match goal with |- context [spend ?s ++ [(nsid ?s, ?p)]] =>
    eapply (B3_new s _ p _ B); [psat_close | reflexivity | reflexivity | reflexivity] end.
Ltac B3_closed_close B :=
  match goal with |- context [drop_peer ?p (spend ?s)] =>
    eapply (B3_closed s _ p _ B); [psat_close | reflexivity | reflexivity | reflexivity] end.
Ltac B3_answer_close B SBs :=
  same_peer SBs;
  match goal with Hf : first_req ?p (spend ?s) = Some ?x |- _ =>
    eapply (B3_answer s _ p x _ B SBs); [apply first_req_in; exact Hf | psat_close | reflexivity | reflexivity | reflexivity] end.
Ltac B3_reuse_close B SBs :=
  match goal with Hp : ps ?s ?p = Some (Closed (Some ?x)), Hf : pend_find ?x (pend ?s) = Some ?q0 |- _ =>
    eapply (B3_reuse s _ p x q0 B SBs Hp Hf); [psat_close | reflexivity | reflexivity] end.
Ltac B3_close B SBs :=
  first [B3_reuse_close B SBs | B3_new_close B | B3_closed_close B | B3_answer_close B SBs | B3_mono_close B].

Lemma B3_on_shutdown s p : B3 s -> B3 (on_shutdown s p).
Proof.
  intros B. unfold on_shutdown. destruct (ps s p) as [[]|] eqn:Hp; auto.
  destruct (task_closed s k); auto. B3_mono_close B.
Qed.

Lemma B3_main c s o s1 ev cl :
  B3 s -> SB s -> main_handler c s o = Some (s1, ev, cl) -> B3 s1.
Proof.
  intros B SBs M. destruct o; unfold_handlers M.
  all: try (split_all; try (B3_close B SBs; fail); fail).
  - split_all; try (B3_close B SBs; fail). apply B3_on_shutdown. B3_mono_close B.
  - match type of M with context [finish_tasks ?a ?b] => destruct (finish_tasks a b) as [[l' e'] n'] end.
    split_all. unfold run_shutdowns. match goal with |- context [if ?b then _ else _] => destruct b end; [|apply B3_on_shutdown]; B3_mono_close B.
  - split_all; try (B3_close B SBs; fail). apply B3_on_shutdown. B3_mono_close B.
Qed.

(* no replaced validation: a substream that is being validated has its request at the handle *)
Definition val_state (x : option pstate) : bool :=
  match x with Some (Validating _ _ IValidating) => true | _ => false end.
Definition L3 (s : st) : Prop := forall p, val_state (ps s p) = true -> hval s p = true.

Ltac L3_close L :=
  let q := fresh "q" in let V := fresh "V" in let E := fresh "E" in
  intros q V; setters; unfold upd in *;
  repeat match goal with
         | _ : context [q =? ?p] |- _ => destruct (q =? p) eqn:E; [apply N.eqb_eq in E; subst q|]
         | |- context [q =? ?p] => destruct (q =? p) eqn:E; [apply N.eqb_eq in E; subst q|]
         end;
  cbn in V; try discriminate V;
  try (repeat match goal with E : ps _ _ = _ |- _ => rewrite E in V end; cbn in V; discriminate V);
  first [ left; apply L; repeat match goal with E : ps _ _ = _ |- _ => rewrite E end; first [exact V | reflexivity]
        | right; cbn; rewrite ?N.eqb_refl; reflexivity ].

Lemma val_on_shutdown s p q : val_state (ps (on_shutdown s p) q) = true -> val_state (ps s q) = true.
Proof.
  unfold on_shutdown. destruct (ps s p) as [[]|] eqn:Hp; auto. destruct (task_closed s k); auto.
  setters. unfold upd. destruct (q =? p); auto. discriminate.
Qed.

Lemma hval_on_shutdown s p : hval (on_shutdown s p) = hval s.
Proof.
  unfold on_shutdown. destruct (ps s p) as [[]|]; auto. destruct (task_closed s k); auto.
Qed.

Lemma L3_main c s o s1 ev cl :
  L3 s -> main_handler c s o = Some (s1, ev, cl) ->
  forall q, val_state (ps s1 q) = true -> hval s1 q = true \/ has_validate q ev = true.
Proof.
  intros L M. destruct o; unfold_handlers M.
  all: try (split_all; try (L3_close L; fail); fail).
  - split_all; try (L3_close L; fail). intros q V. apply val_on_shutdown in V. rewrite hval_on_shutdown. left. apply L, V.
  - match type of M with context [finish_tasks ?a ?b] => destruct (finish_tasks a b) as [[l' e'] n'] end.
    split_all. intros q V. unfold run_shutdowns in *.
    match goal with |- context [if ?b then _ else _] => destruct b end;
      [|apply val_on_shutdown in V; rewrite hval_on_shutdown]; left; apply L, V.
  - split_all; try (L3_close L; fail). intros q V. apply val_on_shutdown in V. rewrite hval_on_shutdown. left. apply L, V.
Qed.

