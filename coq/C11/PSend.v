(* C11 — the sending side: the handle's `peers` map and the NotificationSink gate what the user can
   send; a notification reaches the wire only through the sink of the task that writes it. *)
From Coq Require Import List NArith Bool Lia.
From V.C11 Require Import Model PBase PInv PIso.
Import ListNotations.
Open Scope N_scope.

(* a sink in the handle's table means the gate is open: the user saw Opened and not yet Closed *)
Definition GInv (s : st) : Prop := forall p k, hsink s p = Some k -> hopen s p = true.

Lemma GInv_init : GInv init.
Proof. intros p k H. discriminate H. Qed.

Lemma G_drain ev : forall s s' dr ks, GInv s -> drain s ev = (s', dr, ks) -> GInv s'.
Proof.
  intros s s' dr ks G D. revert G. revert s s' dr ks D.
  apply (drain_rel (fun s s' => GInv s -> GInv s')).
  - intros s G. exact G.
  - intros s1 s2 s3 A B G. auto.
  - intros s p G. exact G.
  - intros s p G q k. setters. unfold upd. destruct (q =? p); auto. apply G.
  - intros s p G q k. setters. unfold upd. destruct (q =? p); [discriminate|]. apply G.
Qed.

Lemma task_dies_gate s k s' ev : task_dies s k = (s', ev) -> hopen s' = hopen s /\ hsink s' = hsink s.
Proof.
  unfold task_dies. destruct (find_task k (tasks s)) as [t|]; [|intros E; injection E as <- _; auto].
  destruct (t_closing t); [intros E; injection E as <- _; auto|].
  destruct (t_gated t); intros E; injection E as <- _; auto.
  rewrite on_shutdown_hopen, on_shutdown_hsink. auto.
Qed.

Lemma kill_tasks_gate ks : forall s s' ev, kill_tasks s ks = (s', ev) -> hopen s' = hopen s /\ hsink s' = hsink s.
Proof.
  induction ks as [|k t IH]; intros s s' ev; cbn.
  - intros E; injection E as <- _; auto.
  - destruct (task_dies s k) as [s1 e1] eqn:E1. destruct (kill_tasks s1 t) as [s2 e2] eqn:E2.
    intros E; injection E as <- _. destruct (task_dies_gate _ _ _ _ E1) as [A B].
    destruct (IH _ _ _ E2) as [C D]. split; congruence.
Qed.

Lemma step_G c s o s' ev cl : GInv s -> step c s o = Some (s', ev, cl) -> GInv s'.
Proof.
  intros G. unfold step. destruct (main_handler c s o) as [[[s1 ev1] cl1]|] eqn:M; [|discriminate].
  assert (G1 : GInv s1).
  { intros p k. rewrite (hsink_main _ _ _ _ _ _ M), (hopen_main _ _ _ _ _ _ M). apply G. }
  destruct (drain s1 ev1) as [[s2 dr] ks] eqn:D. pose proof (G_drain _ _ _ _ _ G1 D) as G2.
  destruct (kill_tasks s2 ks) as [s4 ev4] eqn:K. destruct (kill_tasks_gate _ _ _ _ K) as [A B].
  assert (G4 : GInv s4) by (intros p k; rewrite A, B; apply G2).
  destruct (drain s4 ev4) as [[s5 x] y] eqn:D5. intros E; injection E as <- _ _.
  eapply G_drain; eauto.
Qed.

Lemma G_reachable c s : reachable c s -> GInv s.
Proof.
  induction 1 as [|s o s' ev cl R G S]; [apply GInv_init|eapply step_G; eauto].
Qed.

(* which sink a send operation goes through *)
Definition send_sink (s : st) (o : op) : option (peer * N * N) :=
  match o with
  | SendSync p m | SendAsync p m => match hsink s p with Some k => Some (p, k, m) | None => None end
  | SinkSync p m | SinkAsync p m => match usink s p with Some k => Some (p, k, m) | None => None end
  | _ => None
  end.

Lemma sink_send_wire s p k m a q k' m' :
  In (CWire q k' m') (sink_send s p k m a) ->
  k' = k /\ m' = m /\ running s k = true /\ exists t, find_task k (tasks s) = Some t /\ t_peer t = q.
Proof.
  unfold sink_send, running. destruct (find_task k (tasks s)) as [t|] eqn:F.
  - destruct (t_closing t) eqn:TC; cbn.
    + intros [H|[]]. discriminate.
    + intros [H|[H|[]]]; [discriminate|]. injection H as <- <- <-. repeat split; eauto.
  - cbn. intros [H|[]]. discriminate.
Qed.

Ltac nowire :=
  let H := fresh "H" in intros H;
  repeat match type of H with context [if ?b then _ else _] => destruct b end;
  cbn in H; intuition discriminate.

(* a frame is written to a substream only by a send operation, with that message, through the sink
   the operation resolves to, by the running task that owns the sink *)
Lemma wire_main c s o s1 ev cl q k m :
  main_handler c s o = Some (s1, ev, cl) -> In (CWire q k m) cl ->
  (exists p, send_sink s o = Some (p, k, m)) /\ running s k = true /\
  exists t, find_task k (tasks s) = Some t /\ t_peer t = q.
Proof.
  intros M. destruct o; unfold_handlers M; cbn [send_sink].
  all: try (split_all; nowire).
  - injection M as <- <- <-. unfold handle_send. destruct (hsink s p) as [k0|]; [|nowire].
    intros H. destruct (sink_send_wire _ _ _ _ _ _ _ _ H) as (-> & -> & R & T). eauto.
  - injection M as <- <- <-. unfold handle_send. destruct (hsink s p) as [k0|]; [|nowire].
    intros H. destruct (sink_send_wire _ _ _ _ _ _ _ _ H) as (-> & -> & R & T). eauto.
  - injection M as <- <- <-. destruct (usink s p) as [k0|]; [|nowire].
    intros H. destruct (sink_send_wire _ _ _ _ _ _ _ _ H) as (-> & -> & R & T). eauto.
  - injection M as <- <- <-. destruct (usink s p) as [k0|]; [|nowire].
    intros H. destruct (sink_send_wire _ _ _ _ _ _ _ _ H) as (-> & -> & R & T). eauto.
Qed.

Lemma step_calls c s o s' ev cl :
  step c s o = Some (s', ev, cl) -> exists s1 ev1, main_handler c s o = Some (s1, ev1, cl).
Proof.
  unfold step. destruct (main_handler c s o) as [[[s1 ev1] cl1]|]; [|discriminate].
  destruct (drain s1 ev1) as [[s2 dr] ks]. destruct (kill_tasks s2 ks) as [s4 ev4].
  destruct (drain s4 ev4) as [[s5 x] y]. intros E; injection E as _ _ <-. eauto.
Qed.

(* C11_send_gate: in every reachable state, whatever reaches the wire of peer q was handed, in this very
   step, to the sink of a running task of q; through the handle only while the gate for q is open
   (between Opened and Closed as seen by the user) and only into the stream period whose sink the
   handle holds; a sink kept by the user only feeds the task (period) it was cloned from *)
Lemma send_gate c s o s' ev cl q k m :
  reachable c s -> step c s o = Some (s', ev, cl) -> In (CWire q k m) cl ->
  send_sink s o = Some (q, k, m) /\ running s k = true /\
  (exists t, find_task k (tasks s) = Some t /\ t_peer t = q) /\
  match o with SendSync _ _ | SendAsync _ _ => hopen s q = true /\ hsink s q = Some k | _ => usink s q = Some k end.
Proof.
  intros R S HIn. destruct (step_calls _ _ _ _ _ _ S) as (s1 & ev1 & M).
  destruct (wire_main _ _ _ _ _ _ _ _ _ M HIn) as ((p & SS) & Rn & (t & F & Pe)).
  destruct (reachable_inv3 _ _ R) as (_ & _ & K). pose proof (G_reachable _ _ R) as G.
  destruct (find_task_some _ _ _ F) as [In1 Id1].
  assert (E0 : p = q).
  { destruct o; cbn in SS; try discriminate;
      match type of SS with
      | context [hsink s ?r] => destruct (hsink s r) as [k0|] eqn:E; [|discriminate]
      | context [usink s ?r] => destruct (usink s r) as [k0|] eqn:E; [|discriminate]
      end; injection SS as <- <- <-; rewrite <- Pe; symmetry;
      match goal with
      | E : hsink s ?r = Some ?kk |- _ => apply (proj2 (K r kk (or_introl E))); auto
      | E : usink s ?r = Some ?kk |- _ => apply (proj2 (K r kk (or_intror E))); auto
      end. }
  subst p. split; auto. split; auto. split; eauto.
  destruct o; cbn in SS; try discriminate;
    match type of SS with
    | context [hsink s ?r] => destruct (hsink s r) as [k0|] eqn:E; [|discriminate]
    | context [usink s ?r] => destruct (usink s r) as [k0|] eqn:E; [|discriminate]
    end; injection SS as -> <- <-; auto.
  - split; auto. eapply G; eauto.
  - split; auto. eapply G; eauto.
Qed.

(* the gate closed: before Opened, after Closed, or for a peer never opened, a send through the handle
   writes nothing and queues nothing: the synchronous call returns Ok (a no-op), the asynchronous one
   PeerDoesntExist; the state is untouched *)
Lemma send_gate_closed c s p m (a : bool) s' ev cl :
  reachable c s -> hopen s p = false ->
  step c s (if a then SendAsync p m else SendSync p m) = Some (s', ev, cl) ->
  cl = [CRet p (if a then R_NOPEER else R_OK)] /\ ev = [] /\ ps s' = ps s /\ tasks s' = tasks s.
Proof.
  intros R HO. pose proof (G_reachable _ _ R) as G.
  assert (HS : hsink s p = None).
  { destruct (hsink s p) as [k|] eqn:E; auto. rewrite (G p k E) in HO. discriminate. }
  destruct a; unfold step; cbn [main_handler notifs_of]; unfold handle_send; rewrite HS; cbn;
    intros E; injection E as <- <- <-; auto.
Qed.

(* a sink whose task is gone (its stream period is over) only returns errors *)
Lemma stale_sink_errors c s p k m (a : bool) s' ev cl :
  usink s p = Some k -> find_task k (tasks s) = None ->
  step c s (if a then SinkAsync p m else SinkSync p m) = Some (s', ev, cl) ->
  cl = [CRet p (if a then R_NOPEER else R_NOCONN)] /\ ev = [] /\ ps s' = ps s /\ tasks s' = tasks s.
Proof.
  intros U F. destruct a; unfold step; cbn [main_handler notifs_of]; rewrite U; unfold sink_send; rewrite F; cbn;
    intros E; injection E as <- <- <-; auto.
Qed.
