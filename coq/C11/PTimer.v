(* C11 — the 5 s negotiation timers: armed only by handshake events, each fires at most once, a fired
   timer only cancels an attempt that waits for the remote's substream, never an open stream. *)
From Coq Require Import List NArith Bool Lia.
From V.C11 Require Import Model PBase PInv.
Import ListNotations.
Open Scope N_scope.

Definition waiting (x : option pstate) : bool :=
  match x with Some (Validating _ OOpen IClosed) => true | _ => false end.

(* what one event does to the armed timers *)
Definition timers_spec (s : st) (o : op) (s' : st) : Prop :=
  match o with
  | Timer p =>
      if existsb (N.eqb p) (timers s)
      then timers s' = remove_first p (timers s) /\ narm s' = narm s
      else timers s' = timers s /\ narm s' = narm s
  | _ => exists l, timers s' = timers s ++ l /\ narm s' = narm s + N.of_nat (length l) /\
                   forall q, In q l -> q = op_peer o
  end.

Lemma on_shutdown_timers s p : timers (on_shutdown s p) = timers s /\ narm (on_shutdown s p) = narm s.
Proof.
  unfold on_shutdown. destruct (ps s p) as [[]|]; auto. destruct (task_closed s k); auto.
Qed.

Ltac tm_close :=
  first [ exists []; setters; rewrite ?app_nil_r, ?N.add_0_r; repeat split; auto; intros ? []
        | eexists [_]; setters; repeat split; auto;
          let q := fresh "q" in intros q [<-|[]]; reflexivity ].

Lemma timers_main c s o s1 ev cl : main_handler c s o = Some (s1, ev, cl) -> timers_spec s o s1.
Proof.
  intros M. destruct o; unfold_handlers M; unfold timers_spec; cbn [op_peer].
  all: try (split_all; try (tm_close; fail); fail).
  - (* Timer *)
    split_all; setters; auto.
  - split_all; try (tm_close; fail).
    destruct (on_shutdown_timers (set_tasks s (remove_task n (tasks s))) p) as [A B].
    exists []. rewrite A, B, app_nil_r, N.add_0_r. setters. repeat split; auto. intros ? [].
  - match type of M with context [finish_tasks ?a ?b] => destruct (finish_tasks a b) as [[l' e'] n'] end.
    split_all. exists []. rewrite app_nil_r, N.add_0_r. unfold run_shutdowns.
    match goal with |- context [if ?b then _ else _] => destruct b end;
      [|destruct (on_shutdown_timers (set_tasks s l') p) as [A B]; rewrite A, B]; setters; repeat split; auto; intros ? [].
  - split_all; try (tm_close; fail).
    destruct (on_shutdown_timers (set_tasks s (remove_task n (tasks s))) p) as [A B].
    exists []. rewrite A, B, app_nil_r, N.add_0_r. setters. repeat split; auto. intros ? [].
Qed.

Lemma drain_timers ev : forall s s' dr ks, drain s ev = (s', dr, ks) -> timers s' = timers s /\ narm s' = narm s.
Proof.
  apply (drain_rel (fun s s' => timers s' = timers s /\ narm s' = narm s)); intros; setters; auto.
  destruct H, H0. split; congruence.
Qed.

Lemma task_dies_timers s k s' ev : task_dies s k = (s', ev) -> timers s' = timers s /\ narm s' = narm s.
Proof.
  unfold task_dies. destruct (find_task k (tasks s)) as [t|]; [|intros E; injection E as <- _; auto].
  destruct (t_closing t); [intros E; injection E as <- _; auto|].
  destruct (t_gated t); intros E; injection E as <- _; auto.
  destruct (on_shutdown_timers (set_tasks s (remove_task k (tasks s))) (t_peer t)) as [A B]. rewrite A, B. auto.
Qed.

Lemma kill_tasks_timers ks : forall s s' ev, kill_tasks s ks = (s', ev) -> timers s' = timers s /\ narm s' = narm s.
Proof.
  induction ks as [|k t IH]; intros s s' ev; cbn.
  - intros E; injection E as <- _; auto.
  - destruct (task_dies s k) as [s1 e1] eqn:E1. destruct (kill_tasks s1 t) as [s2 e2] eqn:E2.
    intros E; injection E as <- _. destruct (task_dies_timers _ _ _ _ E1) as [A B].
    destruct (IH _ _ _ E2) as [C D]. split; congruence.
Qed.

(* every armed timer is there until it fires, and it fires once: only `Timer p` removes an entry,
   exactly one, and only handshake events of the peer add entries *)
Lemma timers_step c s o s' ev cl : step c s o = Some (s', ev, cl) -> timers_spec s o s'.
Proof.
  unfold step. destruct (main_handler c s o) as [[[s1 ev1] cl1]|] eqn:M; [|discriminate].
  pose proof (timers_main _ _ _ _ _ _ M) as T1.
  destruct (drain s1 ev1) as [[s2 dr] ks] eqn:D. destruct (drain_timers _ _ _ _ _ D) as [A2 B2].
  destruct (kill_tasks s2 ks) as [s4 ev4] eqn:K. destruct (kill_tasks_timers _ _ _ _ K) as [A4 B4].
  destruct (drain s4 ev4) as [[s5 x] y] eqn:D5. destruct (drain_timers _ _ _ _ _ D5) as [A5 B5].
  intros E; injection E as <- _ _.
  unfold timers_spec in *. rewrite A5, A4, A2, B5, B4, B2. exact T1.
Qed.

(* ---- an attempt that waits for the remote's substream has a timer armed ---- *)
Definition WT (s : st) : Prop := forall p, waiting (ps s p) = true -> existsb (N.eqb p) (timers s) = true.

Lemma existsb_app_l p l1 l2 : existsb (N.eqb p) l1 = true -> existsb (N.eqb p) (l1 ++ l2) = true.
Proof. intros H. rewrite existsb_app, H. reflexivity. Qed.

Lemma existsb_remove_other p q l :
  q <> p -> existsb (N.eqb q) l = true -> existsb (N.eqb q) (remove_first p l) = true.
Proof.
  intros Hq. induction l as [|a l IH]; cbn; auto.
  destruct (a =? p) eqn:E.
  - apply N.eqb_eq in E. subst a. destruct (q =? p) eqn:E2; [apply N.eqb_eq in E2; contradiction|auto].
  - cbn. destruct (q =? a); auto.
Qed.

Lemma waiting_on_shutdown s p q : waiting (ps (on_shutdown s p) q) = true -> waiting (ps s q) = true.
Proof.
  unfold on_shutdown. destruct (ps s p) as [[]|] eqn:Hp; auto. destruct (task_closed s k); auto.
  setters. unfold upd. destruct (q =? p); auto. discriminate.
Qed.

Ltac wt_close W :=
  let q := fresh "q" in let V := fresh "V" in let E := fresh "E" in
  intros q V; setters; unfold upd in V;
  repeat match type of V with context [q =? ?p] => destruct (q =? p) eqn:E; [apply N.eqb_eq in E; subst q|] end;
  cbn in V; try discriminate V;
  first [ apply W; repeat match goal with E : ps _ _ = _ |- _ => rewrite E end; first [exact V | reflexivity]
        | apply existsb_app_l, W; repeat match goal with E : ps _ _ = _ |- _ => rewrite E end; first [exact V | reflexivity]
        | rewrite existsb_app; cbn; rewrite N.eqb_refl; apply orb_true_r
        | apply existsb_remove_other; [apply N.eqb_neq; assumption | apply W; exact V] ].

Ltac wt_timer W :=
  match goal with
  | |- WT (set_timers ?s (remove_first ?p _)) =>
      let q := fresh "q" in let V := fresh "V" in let Hne := fresh "Hne" in
      intros q V; setters; destruct (N.eq_dec q p) as [->|Hne];
      [ repeat match goal with E : ps _ _ = _ |- _ => rewrite E in V end; cbn in V;
        repeat match goal with o : outb |- _ => destruct o end;
        repeat match goal with i : inb |- _ => destruct i end; cbn in V; try discriminate V; congruence
      | apply existsb_remove_other; [exact Hne | apply W; exact V] ]
  end.

Lemma WT_on_shutdown s p : WT s -> WT (on_shutdown s p).
Proof.
  intros W q V. apply waiting_on_shutdown in V. destruct (on_shutdown_timers s p) as [A _]. rewrite A. auto.
Qed.

Lemma WT_main c s o s1 ev cl : WT s -> main_handler c s o = Some (s1, ev, cl) -> WT s1.
Proof.
  intros W M. destruct o; unfold_handlers M.
  all: try (split_all; try (first [wt_close W | wt_timer W]; fail); fail).
  - split_all; try (wt_close W; fail). apply WT_on_shutdown. wt_close W.
  - match type of M with context [finish_tasks ?a ?b] => destruct (finish_tasks a b) as [[l' e'] n'] end.
    split_all. unfold run_shutdowns.
    match goal with |- context [if ?b then _ else _] => destruct b end; [|apply WT_on_shutdown]; wt_close W.
  - split_all; try (wt_close W; fail). apply WT_on_shutdown. wt_close W.
Qed.

Lemma WT_step c s o s' ev cl : WT s -> step c s o = Some (s', ev, cl) -> WT s'.
Proof.
  intros W. unfold step. destruct (main_handler c s o) as [[[s1 ev1] cl1]|] eqn:M; [|discriminate].
  pose proof (WT_main _ _ _ _ _ _ W M) as W1.
  destruct (drain s1 ev1) as [[s2 dr] ks] eqn:D. destruct (drain_timers _ _ _ _ _ D) as [A2 _].
  pose proof (drain_tasks _ _ _ _ _ D) as (P2 & _).
  destruct (kill_tasks s2 ks) as [s4 ev4] eqn:K.
  destruct (drain s4 ev4) as [[s5 x] y] eqn:D5. destruct (drain_timers _ _ _ _ _ D5) as [A5 _].
  pose proof (drain_tasks _ _ _ _ _ D5) as (P5 & _).
  intros E; injection E as <- _ _.
  assert (W2 : WT s2) by (intros q V; rewrite P2 in V; rewrite A2; auto).
  assert (W4 : WT s4).
  { clear - K W2. revert s2 s4 ev4 K W2. induction ks as [|k t IH]; intros s2 s4 ev4; cbn.
    - intros E; injection E as <- _; auto.
    - destruct (task_dies s2 k) as [sa ea] eqn:E1. destruct (kill_tasks sa t) as [sb eb] eqn:E2.
      intros E; injection E as <- _. intros W2. eapply IH; eauto.
      unfold task_dies in E1. destruct (find_task k (tasks s2)) as [tt|]; [|injection E1 as <- _; auto].
      destruct (t_closing tt); [injection E1 as <- _; auto|].
      destruct (t_gated tt); injection E1 as <- _; auto.
      apply WT_on_shutdown. exact W2. }
  intros q V. rewrite P5 in V. rewrite A5. auto.
Qed.

(* a fired timer does nothing unless the peer's attempt waits for the remote's substream *)
Lemma timer_only_cancels_waiting c s p s' ev cl :
  waiting (ps s p) = false -> step c s (Timer p) = Some (s', ev, cl) ->
  ev = [] /\ cl = [] /\ ps s' = ps s /\ tasks s' = tasks s /\ hopen s' = hopen s.
Proof.
  intros Wt. unfold step. cbn [main_handler notifs_of].
  assert (O : forall s0, ps s0 = ps s -> on_timer s0 p = ok s0).
  { intros s0 P. unfold on_timer. rewrite P. destruct (ps s p) as [[| | | | |d o i|]|]; auto.
    destruct o; auto. destruct i; auto. discriminate Wt. }
  destruct (existsb (N.eqb p) (timers s)); [rewrite O by reflexivity|]; unfold ok; cbn;
    intros E; injection E as <- <- <-; auto.
Qed.

Lemma no_stale_timer_kill c s p k s' ev cl :
  ps s p = Some (Open k) -> step c s (Timer p) = Some (s', ev, cl) ->
  ev = [] /\ cl = [] /\ ps s' = ps s /\ tasks s' = tasks s /\ hopen s' = hopen s.
Proof. intros Hp. apply timer_only_cancels_waiting. rewrite Hp. reflexivity. Qed.

(* ... but it does cancel a newer attempt of the same peer: the timer armed for a finished attempt is
   still armed when the next attempt reaches the waiting state *)
Definition w_stale_pre : list op :=
  [Established 0; CmdOpen 0; SubOut 0; HsOut 0 true; SubIn 0; HsIn 0 true; HsIn 0 true; CmdClose 0].
Definition w_stale_post : list op := [CmdOpen 0; SubOut 0; HsOut 0 true].
Definition cfg_wt : cfg := mkCfg true true (fun _ => false).

Example stale_timer_cancels_newer_attempt :
  match exec cfg_wt init w_stale_pre with
  | Some s1 =>
      match exec cfg_wt s1 w_stale_post with
      | Some s2 =>
          match step cfg_wt s2 (Timer 0) with
          | Some (s3, ev, cl) =>
              Some (ps s1 0, timers s1, waiting (ps s2 0), timers s2, ev, cl, timers s3, ps s3 0)
          | None => None
          end
      | None => None
      end
  | None => None
  end = Some (Some (Closed None), [0], true, [0; 0], [UFail 0 E_REJECTED], [CForce 0], [0], Some (Closed None)).
Proof. vm_compute. reflexivity. Qed.
