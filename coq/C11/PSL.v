(* C11 — no-stuck invariant, local part: connection state, handshake-service membership and peer state agree. *)
From Coq Require Import List NArith Bool Lia.
From V.C11 Require Import Model PBase.
Import ListNotations.
Open Scope N_scope.

(* ================================================================== no stuck states *)
Definition connected_state (x : option pstate) : bool :=
  match x with None | Some Dialing | Some (VPending false) => false | _ => true end.
Definition hsI_ok (x : option pstate) : bool :=
  match x with Some (Validating _ _ (IReading | ISending)) => true | _ => false end.
Definition hsO_ok (x : option pstate) : bool :=
  match x with Some (Validating _ ONeg _) => true | _ => false end.
Definition both_open (x : option pstate) : bool :=
  match x with Some (Validating _ OOpen IOpen) => true | _ => false end.
(* substream id the peer state waits for *)
Definition pok (cn hi ho : bool) (x : option pstate) : bool :=
  Bool.eqb cn (connected_state x) && Bool.eqb hi (hsI_ok x) && Bool.eqb ho (hsO_ok x) && negb (both_open x).

Definition SL (s : st) : Prop := forall p, pok (conn s p) (hsI s p) (hsO s p) (ps s p) = true.

(* full case split of a handler equation M : handler ... = Some (s1, ev, cl) *)
Ltac peer_facts H p :=
  let K := fresh "K" in
  pose proof (H p) as K; unfold pok in K;
  repeat match goal with E : ps _ p = _ |- _ => rewrite E in K end;
  repeat match goal with o : outb |- _ => destruct o end;
  repeat match goal with i : inb |- _ => destruct i end;
  repeat match goal with b : bool |- _ => destruct b end;
  destruct (conn _ p) eqn:?, (hsI _ p) eqn:?, (hsO _ p) eqn:?; cbn in K; try discriminate K; try congruence.

Ltac pf H := match goal with E : ps _ ?r = _ |- _ => solve [peer_facts H r; cbn in *; try discriminate; reflexivity] end.

Ltac SL_close H :=
  let q := fresh "q" in
  intro q; setters; unfold upd;
  repeat match goal with
         | |- context [q =? ?p] =>
             let E := fresh "E" in destruct (q =? p) eqn:E; [apply N.eqb_eq in E; subst q|]
         end;
  try apply H.

Lemma SL_on_shutdown s p : SL s -> SL (on_shutdown s p).
Proof.
  intros H. unfold on_shutdown. destruct (ps s p) as [[]|] eqn:Hp; auto.
  destruct (task_closed s k); auto. SL_close H. pf H.
Qed.

Lemma SL_main c s o s1 ev cl : SL s -> main_handler c s o = Some (s1, ev, cl) -> SL s1.
Proof.
  intros H M. destruct o; unfold_handlers M.
  all: try (split_all; SL_close H; try pf H; fail).
  - split_all; try (SL_close H; try pf H; fail). apply SL_on_shutdown. SL_close H.
  - match type of M with context [finish_tasks ?a ?b] => destruct (finish_tasks a b) as [[? ?] ?] end.
    split_all. unfold run_shutdowns. match goal with |- context [if ?b then _ else _] => destruct b end; [|apply SL_on_shutdown]; SL_close H.
  - split_all; try (SL_close H; try pf H; fail). apply SL_on_shutdown. SL_close H.
Qed.


Lemma SL_on_validation s p a s1 ev cl : SL s -> on_validation s p a = Some (s1, ev, cl) -> SL s1.
Proof.
  intros H M. unfold on_validation, svc_open, ok, ok_ev in M. setters_in M.
  split_all; SL_close H; try pf H.
Qed.

