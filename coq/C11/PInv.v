(* C11 — the no-stuck invariant: no handler gets stuck, the invariant survives a whole step. *)
From Coq Require Import List NArith Bool Lia.
From V.C11 Require Import Model PBase.
From V.C11 Require Export PSL PSB.
Import ListNotations.
Open Scope N_scope.

Ltac sl_contra H := match goal with E : ps _ ?r = _ |- _ => solve [peer_facts H r] end.
Ltac sb_contra B :=
  match goal with
  | Hf : first_req ?p (spend ?s) = Some ?x |- _ =>
      let K := fresh "K" in let K2 := fresh "K2" in let K3 := fresh "K3" in
      pose proof (proj1 B x p (first_req_in _ _ _ Hf)) as K; destruct K as (_ & K2 & K3);
      try match goal with Hq : pend_find x (pend s) = _ |- _ => rewrite Hq in K2; try discriminate K2; injection K2 as K2; subst end;
      repeat match goal with E : ps _ _ = _ |- _ => rewrite E in K3 end; cbn in K3;
      try discriminate K3; try (injection K3 as K3; subst);
      repeat match goal with E : context [?a =? ?a] |- _ => rewrite N.eqb_refl in E end;
      cbn in *; try discriminate; try congruence
  end.

Lemma nostuck_main c s o : SL s -> SB s -> main_handler c s o <> None.
Proof.
  intros H B M. destruct o; unfold_handlers M.
  all: try (split_all; first [sl_contra H | sb_contra B]; fail).
Qed.

(* ---- the rest of a step: user drain, dropped validations, killed tasks ---- *)
Definition same_net (s s' : st) : Prop :=
  ps s' = ps s /\ conn s' = conn s /\ hsI s' = hsI s /\ hsO s' = hsO s /\
  pend s' = pend s /\ spend s' = spend s /\ nsid s' = nsid s.

Lemma same_net_refl s : same_net s s.
Proof. repeat split. Qed.

Lemma SL_net s s' : same_net s s' -> SL s -> SL s'.
Proof. intros (A & B & C & D & _) H p. rewrite A, B, C, D. apply H. Qed.

Lemma SB_net s s' : same_net s s' -> SB s -> SB s'.
Proof. intros (A & _ & _ & _ & E & F & G) [B1 B2]. split; rewrite ?A, ?E, ?F, ?G; auto. Qed.

Lemma drain_net ev : forall s s' dr ks, drain s ev = (s', dr, ks) -> same_net s s'.
Proof.
  apply (drain_rel same_net); unfold same_net; intros; setters; repeat split; auto.
  all: destruct H as (A1 & A2 & A3 & A4 & A5 & A6 & A7), H0 as (B1 & B2 & B3 & B4 & B5 & B6 & B7); congruence.
Qed.

Lemma on_validation_some s p a : on_validation s p a <> None.
Proof.
  unfold on_validation, svc_open, ok, ok_ev. intros M. split_all.
Qed.

Lemma task_dies_inv s k s' ev : task_dies s k = (s', ev) -> SL s -> SB s -> SL s' /\ SB s'.
Proof.
  unfold task_dies. destruct (find_task k (tasks s)) as [t|]; [|intros E; injection E as <- _; auto].
  destruct (t_closing t); [intros E; injection E as <- _; auto|].
  destruct (t_gated t); intros E; injection E as <- _; intros H B.
  - split; [eapply SL_net; [|exact H]|eapply SB_net; [|exact B]]; repeat split.
  - split; [apply SL_on_shutdown; eapply SL_net; [|exact H]|apply SB_on_shutdown; eapply SB_net; [|exact B]]; repeat split.
Qed.

Lemma kill_tasks_inv ks : forall s s' ev, kill_tasks s ks = (s', ev) -> SL s -> SB s -> SL s' /\ SB s'.
Proof.
  induction ks as [|k t IH]; intros s s' ev; cbn.
  - intros E; injection E as <- _; auto.
  - destruct (task_dies s k) as [s1 e1] eqn:E1. destruct (kill_tasks s1 t) as [s2 e2] eqn:E2.
    intros E; injection E as <- _. intros H B.
    destruct (task_dies_inv _ _ _ _ E1 H B). eapply IH; eauto.
Qed.

Definition SInv (s : st) : Prop := SL s /\ SB s.

Lemma SInv_init : SInv init.
Proof.
  split.
  - intros p. reflexivity.
  - split; cbn; intros; try tauto; discriminate.
Qed.

Lemma step_SInv c s o : SInv s ->
  exists s' ev cl, step c s o = Some (s', ev, cl) /\ SInv s'.
Proof.
  intros [H B]. unfold step.
  destruct (main_handler c s o) as [[[s1 ev] calls]|] eqn:M; [|now apply nostuck_main in M].
  pose proof (SL_main _ _ _ _ _ _ H M) as H1. pose proof (SB_main _ _ _ _ _ _ B M) as B1.
  destruct (drain s1 ev) as [[s2 dr] ks] eqn:D. pose proof (drain_net _ _ _ _ _ D) as N2.
  destruct (kill_tasks s2 ks) as [s4 ev4] eqn:K.
  destruct (kill_tasks_inv _ _ _ _ K (SL_net _ _ N2 H1) (SB_net _ _ N2 B1)) as [H4 B4].
  destruct (drain s4 ev4) as [[s5 x] y] eqn:D5. pose proof (drain_net _ _ _ _ _ D5) as N5.
  do 3 eexists. split; [reflexivity|]. split; [eapply SL_net|eapply SB_net]; eauto.
Qed.

Lemma run_nostuck c ops : forall s, SInv s -> snd (run c s ops) = true.
Proof.
  induction ops as [|o t IH]; intros s I; cbn; auto.
  destruct (step_SInv c s o I) as (s1 & ev & cl & E & I1). rewrite E.
  specialize (IH s1 I1). destruct (run c s1 t). exact IH.
Qed.

Lemma run_SInv c ops : forall s, SInv s -> forall x, In x (fst (run c s ops)) -> SInv (fst (fst x)).
Proof.
  induction ops as [|o t IH]; intros s I x; cbn; [intros []|].
  destruct (step_SInv c s o I) as (s1 & ev & cl & E & I1). rewrite E.
  specialize (IH s1 I1). destruct (run c s1 t) as [r b]. cbn in *. intros [<-|Hx]; auto.
Qed.

