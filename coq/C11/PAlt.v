(* C11 — the event grammar, quiet handlers, Opened needs an accepted inbound (the alternation proof is in PHInv.v). *)
From Coq Require Import List NArith Bool Lia.
From V.C11 Require Import Model PBase.
Import ListNotations.
Open Scope N_scope.

(* the event grammar per peer: Opened only when closed, Closed only when opened, no OpenFailure
   while opened; ValidateSubstream anywhere *)
Fixpoint grammar (h : peer -> bool) (l : list uev) : option (peer -> bool) :=
  match l with
  | [] => Some h
  | UOpened p _ :: t => if h p then None else grammar (upd h p true) t
  | UClosed p :: t => if h p then grammar (upd h p false) t else None
  | UFail p _ :: t => if h p then None else grammar h t
  | UValidate _ :: t => grammar h t
  | UNotif p :: t => if h p then grammar h t else None
  | UClosedT _ _ :: _ => None   (* the report of a Connection task is never handed to the user as such *)
  end.

Lemma grammar_app h l1 l2 :
  grammar h (l1 ++ l2) = match grammar h l1 with Some h1 => grammar h1 l2 | None => None end.
Proof.
  revert h. induction l1 as [|e l1 IH]; intros h; cbn [app grammar]; auto.
  destruct e; try destruct (h p); auto.
Qed.

(* events that neither open nor close a stream and only report failures for peers whose stream
   is not open *)
Definition quiet_ev (s : st) (e : uev) : Prop :=
  match e with
  | UFail q _ => is_open (ps s q) = false
  | UValidate _ => True
  | _ => False
  end.

Definition same_open (s s' : st) : Prop :=
  forall q k, ps s' q = Some (Open k) <-> ps s q = Some (Open k).

Definition quiet (s : st) (r : res) : Prop :=
  match r with
  | None => True
  | Some (s', ev, _) =>
      tasks s' = tasks s /\ lastt s' = lastt s /\ ntask s' = ntask s /\ hopen s' = hopen s /\
      same_open s s' /\ Forall (quiet_ev s) ev
  end.

Lemma same_open_refl s : same_open s s.
Proof. intros q k. tauto. Qed.

Ltac so_tac :=
  let q := fresh "q" in let k := fresh "k" in let E := fresh "E" in
  unfold same_open; intros q k; setters; unfold upd;
  repeat match goal with
         | |- context [q =? ?p] => destruct (q =? p) eqn:E; [apply N.eqb_eq in E; subst q|]
         end;
  (split; intros; first [congruence | tauto | assumption]).

Ltac ev_tac :=
  repeat constructor; cbn [quiet_ev is_open]; auto;
  try match goal with H : ps _ ?p = _ |- is_open (ps _ ?p) = false => rewrite H; reflexivity end.

Ltac quiet_tac :=
  unfold quiet, ok, ok_ev; setters;
  refine (conj _ (conj _ (conj _ (conj _ (conj _ _)))));
  [reflexivity | reflexivity | reflexivity | reflexivity | so_tac | ev_tac].

Lemma svc_open_ps s p s1 r : svc_open s p = (s1, r) ->
  ps s1 = ps s /\ tasks s1 = tasks s /\ lastt s1 = lastt s /\ ntask s1 = ntask s /\ hopen s1 = hopen s.
Proof.
  unfold svc_open. destruct (conn s p); [destruct (dead s p)|]; intros H; inversion H; subst; setters; repeat split; auto.
Qed.

(* replace the state after svc_open by facts about its fields *)
Ltac svc_tac s p :=
  let s1 := fresh "s1" in let r := fresh "r" in let Hs := fresh "Hs" in
  destruct (svc_open s p) as [s1 r] eqn:Hs; apply svc_open_ps in Hs;
  let H1 := fresh "H1" in let H2 := fresh "H2" in let H3 := fresh "H3" in let H4 := fresh "H4" in let H5 := fresh "H5" in
  destruct Hs as (H1 & H2 & H3 & H4 & H5);
  destruct r; unfold quiet, ok, ok_ev; setters; rewrite ?H1, ?H2, ?H3, ?H4, ?H5;
  (refine (conj _ (conj _ (conj _ (conj _ (conj _ _)))));
   [reflexivity | reflexivity | reflexivity | reflexivity | so_tac | ev_tac]).

Lemma quiet_on_open c s p : quiet s (on_open c s p).
Proof.
  unfold on_open. destruct (ps s p) as [x|] eqn:Hp.
  - destruct x as [|b|po| |y|d o i|k]; try (quiet_tac; fail).
    unfold reusable. destruct po as [y|]; [destruct (pend_find y (pend s)); [quiet_tac|]|]; svc_tac s p.
  - destruct (should_dial c); cbn [negb]; [destruct (dialable c p)|]; quiet_tac.
Qed.

Lemma same_open_is_open s s' r : same_open s s' -> is_open (ps s' r) = is_open (ps s r).
Proof.
  intros H. destruct (ps s' r) as [[]|] eqn:E1; destruct (ps s r) as [[]|] eqn:E2; cbn; auto;
    try (apply H in E1; congruence); try (apply H in E2; congruence).
Qed.

Lemma quiet_trans s s' r :
  tasks s' = tasks s -> lastt s' = lastt s -> ntask s' = ntask s -> hopen s' = hopen s ->
  same_open s s' -> quiet s' r -> quiet s r.
Proof.
  intros T L N0 HO SO Q. destruct r as [[[s2 ev] cl]|]; cbn in *; auto.
  destruct Q as (Q1 & Q2 & Q3 & Q4 & Q5 & Q6).
  refine (conj _ (conj _ (conj _ (conj _ (conj _ _))))); try congruence.
  - intros q0 k0. rewrite (Q5 q0 k0). apply SO.
  - eapply Forall_impl; [|exact Q6]. intros e He. destruct e; cbn in *; auto.
    rewrite <- (same_open_is_open s s'); auto.
Qed.

Lemma quiet_on_established c s p : quiet s (on_established c s p).
Proof.
  unfold on_established. destruct (ps s p) as [x|] eqn:Hp.
  - destruct x as [|b|po| |y|d o i|k]; try exact I.
    + destruct b; [exact I|quiet_tac].
    + eapply quiet_trans; [| | | | |apply quiet_on_open]; setters; auto. so_tac.
  - quiet_tac.
Qed.

Lemma quiet_on_sub_out s p x : quiet s (on_sub_out s p x).
Proof.
  unfold on_sub_out. destruct (ps s p) as [stt|] eqn:Hp; [|exact I].
  destruct stt as [|b|po| |y|d o i|k]; try exact I.
  - destruct po as [y|]; [|exact I]. destruct (y =? x); [quiet_tac|exact I].
  - destruct ((y =? x) && _); [quiet_tac|exact I].
  - destruct i; try (quiet_tac; fail); destruct o as [|y| |]; try exact I; destruct (y =? x); try exact I; quiet_tac.
Qed.

Lemma quiet_on_sub_in s p : quiet s (on_sub_in s p).
Proof.
  unfold on_sub_in. destruct (ps s p) as [stt|] eqn:Hp; [|exact I].
  destruct stt as [|b|po| |y|d o i|k]; try (quiet_tac; fail).
  - destruct po; quiet_tac.
  - destruct o, i; quiet_tac.
Qed.

Lemma quiet_on_open_fail s x : quiet s (on_open_fail s x).
Proof.
  unfold on_open_fail. destruct (pend_find x (pend s)) as [p|]; [|exact I]. setters.
  destruct (ps s p) as [stt|] eqn:Hp; [|exact I].
  destruct stt as [|b|po| |y|d o i|k]; try exact I.
  - destruct po as [y|]; [|exact I]. destruct (y =? x); [quiet_tac|exact I].
  - quiet_tac.
  - destruct o; quiet_tac.
Qed.

Lemma quiet_on_dial_fail s p : quiet s (on_dial_fail s p).
Proof.
  unfold on_dial_fail. destruct (ps s p) as [stt|] eqn:Hp; [|quiet_tac].
  destruct stt; quiet_tac.
Qed.

Lemma quiet_on_validation s p a : quiet s (on_validation s p a).
Proof.
  unfold on_validation. destruct (ps s p) as [stt|] eqn:Hp; [|quiet_tac].
  destruct stt as [|b|po| |y|d o i|k]; try (quiet_tac; fail).
  - destruct b, a; quiet_tac.
  - destruct i; try (quiet_tac; fail). destruct a; [|quiet_tac].
    destruct o; try (quiet_tac; fail). svc_tac s p.
Qed.

Lemma quiet_on_hs_err s p : quiet s (on_hs_err s p).
Proof.
  unfold on_hs_err. destruct (ps s p) as [stt|] eqn:Hp; [|exact I].
  destruct stt as [|b|po| |y|d o i|k]; try exact I.
  destruct o; cbn [o_closed pending_open]; quiet_tac.
Qed.

Lemma quiet_on_timer s p : quiet s (on_timer s p).
Proof.
  unfold on_timer. destruct (ps s p) as [stt|] eqn:Hp; [|quiet_tac].
  destruct stt as [|b|po| |y|d o i|k]; try (quiet_tac; fail).
  destruct o; try (quiet_tac; fail). destruct i; quiet_tac.
Qed.

Lemma grammar_quiet s h ev :
  (forall p, h p = is_open (ps s p)) -> Forall (quiet_ev s) ev -> grammar h ev = Some h.
Proof.
  intros Hh. induction 1 as [|e l He _ IH]; cbn; auto.
  destruct e; cbn in He; try tauto; auto. rewrite Hh, He. auto.
Qed.

Lemma drain_quiet s0 ev : Forall (quiet_ev s0) ev -> forall s1 s2 l ks,
  drain s1 ev = (s2, l, ks) ->
  ks = [] /\ ps s2 = ps s1 /\ tasks s2 = tasks s1 /\ lastt s2 = lastt s1 /\ ntask s2 = ntask s1 /\
  hopen s2 = hopen s1 /\ hsI s2 = hsI s1 /\ hsink s2 = hsink s1.
Proof.
  induction 1 as [|e t He _ IH]; intros s1 s2 l ks; cbn.
  - intros H; inversion H; subst. repeat split; auto.
  - destruct e; cbn in He; try tauto.
    + destruct (hval s1 p).
      * destruct (drain s1 t) as [[a b] c] eqn:E. intros H; inversion H; subst. eapply IH; eauto.
      * intros H. apply IH in H. setters. exact H.
    + intros H. eapply IH; eauto.
Qed.

Lemma on_validation_reject_ev s p s' ev cl : on_validation s p false = Some (s', ev, cl) -> ev = [].
Proof.
  unfold on_validation. destruct (ps s p) as [stt|]; [|intros H; inversion H; auto].
  destruct stt as [|b|po| |y|d o i|k]; try (intros H; inversion H; auto; fail).
  - destruct b; intros H; inversion H; auto.
  - destruct i; intros H; inversion H; auto.
Qed.

Lemma quiet_seq s s1 e1 c1 s2 e2 c2 :
  quiet s (Some (s1, e1, c1)) -> quiet s1 (Some (s2, e2, c2)) -> quiet s (Some (s2, e1 ++ e2, c1 ++ c2)).
Proof.
  intros Q1 Q2. pose proof Q1 as (T & L & N0 & HO & SO & F1).
  pose proof (quiet_trans s s1 (Some (s2, e2, c2)) T L N0 HO SO Q2) as (T2 & L2 & N2 & HO2 & SO2 & F2).
  cbn. refine (conj _ (conj _ (conj _ (conj _ (conj _ _))))); auto. apply Forall_app; auto.
Qed.

(* a step whose main handler is quiet keeps the invariant and the grammar state *)
Lemma grammar_notifs h l : (forall q, In q l -> h q = true) -> grammar h (map UNotif l) = Some h.
Proof.
  induction l as [|a l IH]; cbn; auto. intros H. rewrite (H a) by auto. apply IH. auto.
Qed.

Lemma filter_all {A} (f : A -> bool) l : (forall x, In x l -> f x = true) -> filter f l = l.
Proof.
  induction l as [|a l IH]; cbn; auto. intros H. rewrite (H a) by auto. rewrite IH; auto.
Qed.

Lemma filter_none {A} (f : A -> bool) l : (forall x, In x l -> f x = false) -> filter f l = [].
Proof.
  induction l as [|a l IH]; cbn; auto. intros H. rewrite (H a) by auto. apply IH; auto.
Qed.

(* ---- a step that opens a stream to p ---- *)
Definition opens (s : st) (p : peer) (s1 : st) : Prop :=
  is_open (ps s p) = false /\ ps s1 p = Some (Open (ntask s)) /\
  tasks s1 = tasks s ++ [mkTask (ntask s) p None false] /\
  lastt s1 = upd (lastt s) p (Some (ntask s)) /\ ntask s1 = ntask s + 1 /\ hopen s1 = hopen s /\
  (forall q, q <> p -> ps s1 q = ps s q).

(* the frame: fields the invariant does not look at may differ *)
Definition same_core (s s0 : st) : Prop :=
  ps s0 = ps s /\ tasks s0 = tasks s /\ lastt s0 = lastt s /\ ntask s0 = ntask s /\ hopen s0 = hopen s.

Lemma quiet_frame s s0 r : same_core s s0 -> quiet s0 r -> quiet s r.
Proof.
  intros (P & T & L & N0 & HO) Q. eapply quiet_trans; eauto.
  intros q k. rewrite P. tauto.
Qed.

Lemma opens_frame s s0 p s1 : same_core s s0 -> opens s0 p s1 -> opens s p s1.
Proof.
  intros (P & T & L & N0 & HO) (H1 & H2 & H3 & H4 & H5 & H6 & H7).
  unfold opens. rewrite <- P, <- T, <- L, <- N0, <- HO. repeat split; auto.
Qed.

Lemma quiet_ok_frame s s0 : same_core s s0 -> quiet s (ok s0).
Proof.
  intros (P & T & L & N0 & HO). unfold quiet, ok.
  refine (conj _ (conj _ (conj _ (conj _ (conj _ _))))); auto. intros r k. rewrite P. tauto.
Qed.

Definition events (r : list (st * list uev * list call)) : list uev :=
  flat_map (fun x => snd (fst x)) r.

(* ------------------------------------------------------------------ Opened needs an accepted inbound *)
Lemma quiet_no_opened s s1 ev cl p d : quiet s (Some (s1, ev, cl)) -> ~ In (UOpened p d) ev.
Proof.
  intros (_ & _ & _ & _ & _ & F) H. rewrite Forall_forall in F. apply F in H. exact H.
Qed.

Lemma signal_ev s k s' ev p d : signal s k = (s', ev) -> ~ In (UOpened p d) ev.
Proof.
  unfold signal. destruct (find_task k (tasks s)) as [t|]; [|intros H; inversion H; subst; auto].
  destruct (t_closing t); [intros H; inversion H; subst; auto|].
  destruct (t_gated t); intros H; inversion H; subst; cbn; [tauto|]. intros [E|[]]. discriminate.
Qed.

Lemma finish_tasks_ev p l : forall l' ev n q d, finish_tasks p l = (l', ev, n) -> ~ In (UOpened q d) ev.
Proof.
  induction l as [|a l IH]; cbn; intros l' ev n q d.
  - intros H; inversion H; subst. auto.
  - destruct (finish_tasks p l) as [[r' e'] n'] eqn:E.
    destruct ((t_peer a =? p) && negb (t_gated a)); [destruct (t_closing a)|];
      intros H; inversion H; subst; cbn; try (eapply IH; eauto; fail).
    intros [X|X]; [discriminate|]. eapply IH; eauto.
Qed.

Lemma shut_ev_ev s p q d : ~ In (UOpened q d) (shut_ev s p).
Proof.
  unfold shut_ev. destruct (ps s p) as [[]|]; try (intros []). destruct (task_closed s k); [|intros []].
  intros [X|[]]. discriminate X.
Qed.

Definition accepted_in (x : option pstate) (d : dir) : Prop :=
  (exists i, x = Some (Validating d ONeg i) /\ i = IOpen) \/
  (exists o, x = Some (Validating d o ISending) /\ o = OOpen).

Lemma hs_finish_opened s p q d s1 ev cl :
  hs_finish s p = Some (s1, ev, cl) -> In (UOpened q d) ev ->
  q = p /\ ps s p = Some (Validating d OOpen IOpen).
Proof.
  unfold hs_finish. destruct (ps s p) as [x|]; [|intros H; inversion H; subst; intros []].
  destruct x as [|b|po| |y|d0 o i|k]; try (intros H; inversion H; subst; intros []; fail).
  destruct o; try (intros H; inversion H; subst; intros []; fail).
  destruct i; try (intros H; inversion H; subst; intros []; fail).
  intros H; inversion H; subst. intros [E|[]]. inversion E; subst. auto.
Qed.

Lemma main_opened c s o s1 ev cl p d :
  main_handler c s o = Some (s1, ev, cl) -> In (UOpened p d) ev -> accepted_in (ps s p) d.
Proof.
  destruct o as [q|q|q|q|q|q|q b|q b|q a|q|q|q|q|q g|q older|q|q|q|q g|q|q m|q m|q m|q m]; cbn [main_handler]; intros M HIn.
  - destruct (conn s q); [inversion M; subst; destruct HIn|].
    exfalso. eapply quiet_no_opened; [|exact HIn]. rewrite <- M. apply quiet_on_established.
  - destruct (conn s q); [|inversion M; subst; destruct HIn].
    revert M. unfold on_closed. setters.
    destruct (ps s q) as [x|]; [|discriminate].
    destruct x as [|b|po| |y|d0 o i|k]; try (intros M; inversion M; subst; cbn in HIn; intuition discriminate).
    + destruct o, i; intros M; inversion M; subst; cbn in HIn; intuition discriminate.
    + destruct (signal _ k) as [s2 e2] eqn:Sg. intros M; inversion M; subst.
      destruct HIn as [X|HIn]; [discriminate X|]. exfalso. eapply signal_ev; eauto.
  - destruct (conn s q); [|inversion M; subst; destruct HIn].
    exfalso. eapply quiet_no_opened; [|exact HIn]. rewrite <- M. apply quiet_on_sub_in.
  - destruct (conn s q); [|inversion M; subst; destruct HIn].
    destruct (first_req q (spend s)); [|inversion M; subst; destruct HIn].
    exfalso. eapply quiet_no_opened; [|exact HIn]. rewrite <- M. apply quiet_on_sub_out.
  - destruct (conn s q); [|inversion M; subst; destruct HIn].
    destruct (first_req q (spend s)); [|inversion M; subst; destruct HIn].
    exfalso. eapply quiet_no_opened; [|exact HIn]. rewrite <- M. apply quiet_on_open_fail.
  - exfalso. eapply quiet_no_opened; [|exact HIn]. rewrite <- M. apply quiet_on_dial_fail.
  - (* HsIn *)
    destruct (hsI s q); [|inversion M; subst; destruct HIn].
    destruct b; [|exfalso; eapply quiet_no_opened; [|exact HIn]; rewrite <- M; apply quiet_on_hs_err].
    revert M. unfold on_hs_in_ok. destruct (ps s q) as [x|] eqn:Hq; [|discriminate].
    destruct x as [|b|po| |y|d0 o i|k]; try discriminate.
    destruct i; try discriminate.
    + destruct (negb (o_closed o) && auto_accept c); intros M; inversion M; subst; cbn in HIn; intuition discriminate.
    + intros M. destruct (hs_finish_opened _ _ _ _ _ _ _ M HIn) as [-> E].
      setters. rewrite upd_same in E. inversion E; subst. right. rewrite Hq. eauto.
  - (* HsOut *)
    destruct (hsO s q); [|inversion M; subst; destruct HIn].
    destruct b; [|exfalso; eapply quiet_no_opened; [|exact HIn]; rewrite <- M; apply quiet_on_hs_err].
    revert M. unfold on_hs_out_ok. destruct (ps s q) as [x|] eqn:Hq; [|discriminate].
    destruct x as [|b|po| |y|d0 o i|k]; try discriminate.
    destruct o; try discriminate.
    intros M. destruct (hs_finish_opened _ _ _ _ _ _ _ M HIn) as [-> E].
    setters. rewrite upd_same in E. inversion E; subst. left. rewrite Hq. eauto.
  - destruct (hval s q); [|inversion M; subst; destruct HIn].
    exfalso. eapply quiet_no_opened; [|exact HIn]. rewrite <- M. apply quiet_on_validation.
  - destruct (existsb (N.eqb q) (timers s)); [|inversion M; subst; destruct HIn].
    exfalso. eapply quiet_no_opened; [|exact HIn]. rewrite <- M. apply quiet_on_timer.
  - destruct (hopen s q); [inversion M; subst; destruct HIn|].
    exfalso. eapply quiet_no_opened; [|exact HIn]. rewrite <- M. apply quiet_on_open.
  - destruct (hopen s q); [|inversion M; subst; destruct HIn].
    revert M. unfold on_close. destruct (ps s q) as [x|]; [|intros M; inversion M; subst; destruct HIn].
    destruct x as [|b|po| |y|d0 o i|k]; try (intros M; inversion M; subst; destruct HIn).
    destruct (signal s k) as [s2 e2] eqn:Sg. intros M; inversion M; subst.
    destruct HIn as [X|HIn]; [discriminate X|]. exfalso. eapply signal_ev; eauto.
  - inversion M; subst; destruct HIn.
  - revert M. unfold task_die_op. destruct (lastt s q); [|intros M; inversion M; subst; destruct HIn].
    destruct (find_task n (tasks s)) as [t|]; [|intros M; inversion M; subst; destruct HIn].
    destruct (t_closing t); [intros M; inversion M; subst; destruct HIn|].
    destruct (g || t_gated t); intros M; inversion M; subst; [destruct HIn|].
    destruct HIn as [X|HIn]; [discriminate X|]. exfalso. eapply shut_ev_ev; eauto.
  - revert M. destruct (finish_tasks q _) as [[l' e'] n'] eqn:F. intros M; inversion M; subst.
    exfalso. apply in_app_or in HIn. destruct HIn as [HIn|HIn]; [eapply finish_tasks_ev; eauto|].
    destruct (n' =? 0); [destruct HIn|eapply shut_ev_ev; eauto].
  - destruct (conn s q); inversion M; subst; destruct HIn.
  - revert M. destruct (lastt s q); intros M; inversion M; subst; destruct HIn.
  - inversion M; subst; destruct HIn.
  - revert M. unfold task_die_op. destruct (lastt s q); [|intros M; inversion M; subst; destruct HIn].
    destruct (find_task n (tasks s)) as [t|]; [|intros M; inversion M; subst; destruct HIn].
    destruct (t_closing t); [intros M; inversion M; subst; destruct HIn|].
    destruct (g || t_gated t); intros M; inversion M; subst; [destruct HIn|].
    destruct HIn as [X|HIn]; [discriminate X|]. exfalso. eapply shut_ev_ev; eauto.
  - revert M. destruct (usink s q), (hsink s q); intros M; inversion M; subst; destruct HIn.
  - inversion M; subst; destruct HIn.
  - inversion M; subst; destruct HIn.
  - inversion M; subst; destruct HIn.
  - inversion M; subst; destruct HIn.
Qed.

Lemma task_dies_ev s k s' ev p d : task_dies s k = (s', ev) -> ~ In (UOpened p d) ev.
Proof.
  unfold task_dies. destruct (find_task k (tasks s)) as [t|]; [|intros H; inversion H; subst; auto].
  destruct (t_closing t); [intros H; inversion H; subst; auto|].
  destruct (t_gated t); intros H; inversion H; subst; cbn; [tauto|]. intros [E|E]; [discriminate E|].
  eapply shut_ev_ev; eauto.
Qed.

(* what the user is handed contains an Opened only if the emitted events do *)
Lemma delivered_opened ev : forall s p d, In (UOpened p d) (delivered s ev) -> In (UOpened p d) ev.
Proof.
  induction ev as [|e t IH]; intros s p d; cbn [delivered]; [tauto|].
  destruct e; cbn [closed_report].
  - destruct (hval s p0); intros [X|X]; [discriminate X|right; eapply IH; eauto|discriminate X|right; eapply IH; eauto].
  - intros [X|X]; [left; exact X|right; eapply IH; eauto].
  - destruct (current s p0 None); [intros [X|X]; [discriminate X|]|intros X]; right; eapply IH; eauto.
  - intros [X|X]; [discriminate X|right; eapply IH; eauto].
  - intros [X|X]; [discriminate X|right; eapply IH; eauto].
  - destruct (current s p0 (Some k)); [intros [X|X]; [discriminate X|]|intros X]; right; eapply IH; eauto.
Qed.

Lemma kill_tasks_ev ks : forall s s' ev p d, kill_tasks s ks = (s', ev) -> ~ In (UOpened p d) ev.
Proof.
  induction ks as [|k t IH]; cbn; intros s s' ev p d.
  - intros H; inversion H; subst. auto.
  - destruct (task_dies s k) as [s1 e1] eqn:E1. destruct (kill_tasks s1 t) as [s2 e2] eqn:E2.
    intros H; inversion H; subst. intros X. apply in_app_or in X. destruct X as [X|X].
    + eapply task_dies_ev; eauto.
    + eapply IH; eauto.
Qed.

Lemma step_opened c s o s' ev calls p d :
  step c s o = Some (s', ev, calls) -> In (UOpened p d) ev -> accepted_in (ps s p) d.
Proof.
  unfold step. destruct (main_handler c s o) as [[[s1 ev1] cl1]|] eqn:M; [|discriminate].
  destruct (drain s1 ev1) as [[s2 dr] ks].
  destruct (kill_tasks s2 ks) as [s4 ev4] eqn:K.
  destruct (drain s4 ev4) as [[s5 x] y]. intros H; inversion H; subst.
  intros HIn. apply in_app_or in HIn. destruct HIn as [HIn|HIn].
  - apply delivered_opened in HIn. eapply main_opened; eauto.
  - apply in_app_or in HIn. destruct HIn as [HIn|HIn].
    + exfalso. apply in_map_iff in HIn. destruct HIn as (z & E & _). discriminate.
    + exfalso. apply delivered_opened in HIn. eapply kill_tasks_ev; eauto.
Qed.

(* witnesses *)
Definition cfg_w : cfg := mkCfg true true (fun _ => false).
Definition cfg_w0 : cfg := mkCfg false true (fun _ => false).
Definition open_by_user : list op :=
  [Established 0; CmdOpen 0; SubIn 0; HsIn 0 true; SubOut 0; HsIn 0 true; HsOut 0 true].
Definition w_slow_close : list op :=
  open_by_user ++ [Gate 0; CmdClose 0; SubIn 0; HsIn 0 true; Validate 0 true; HsIn 0 true; SubOut 0;
                   HsOut 0 true; Release 0 false].
Definition w_failed_sid : list op :=
  [Established 0; SubIn 0; HsIn 0 true; Validate 0 true; OpenFail 0; CmdOpen 0].

Definition last_state (c : cfg) (ops : list op) : st :=
  last (map (fun x => fst (fst x)) (fst (run c init ops))) init.

