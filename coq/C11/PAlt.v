(* C11 — the event grammar under prompt closes, Opened needs an accepted inbound, Closed on disconnect. *)
From Coq Require Import List NArith Bool Lia.
From V.C11 Require Import Model PBase.
Import ListNotations.
Open Scope N_scope.

(* the event grammar per peer: Opened only when closed, Closed only when opened, no OpenFailure
   while opened; ValidateSubstream anywhere *)
Fixpoint grammar (h : peer -> bool) (l : list uev) : option (peer -> bool) :=
  match l with
  | [] => Some h
  | UOpened p _ :: t => if h p then None else grammar (upd h p true) t
  | UClosed p :: t => if h p then grammar (upd h p false) t else None
  | UFail p _ :: t => if h p then None else grammar h t
  | UValidate _ :: t => grammar h t
  | UNotif p :: t => if h p then grammar h t else None
  end.

Lemma grammar_app h l1 l2 :
  grammar h (l1 ++ l2) = match grammar h l1 with Some h1 => grammar h1 l2 | None => None end.
Proof.
  revert h. induction l1 as [|e l1 IH]; intros h; cbn [app grammar]; auto.
  destruct e; try destruct (h p); auto.
Qed.

(* events that neither open nor close a stream and only report failures for peers whose stream
   is not open *)
Definition quiet_ev (s : st) (e : uev) : Prop :=
  match e with
  | UFail q _ => is_open (ps s q) = false
  | UValidate _ => True
  | _ => False
  end.

Definition same_open (s s' : st) : Prop :=
  forall q k, ps s' q = Some (Open k) <-> ps s q = Some (Open k).

Definition quiet (s : st) (r : res) : Prop :=
  match r with
  | None => True
  | Some (s', ev, _) =>
      tasks s' = tasks s /\ lastt s' = lastt s /\ ntask s' = ntask s /\ hopen s' = hopen s /\
      same_open s s' /\ Forall (quiet_ev s) ev
  end.

Lemma same_open_refl s : same_open s s.
Proof. intros q k. tauto. Qed.

Ltac so_tac :=
  let q := fresh "q" in let k := fresh "k" in let E := fresh "E" in
  unfold same_open; intros q k; setters; unfold upd;
  repeat match goal with
         | |- context [q =? ?p] => destruct (q =? p) eqn:E; [apply N.eqb_eq in E; subst q|]
         end;
  (split; intros; first [congruence | tauto | assumption]).

Ltac ev_tac :=
  repeat constructor; cbn [quiet_ev is_open]; auto;
  try match goal with H : ps _ ?p = _ |- is_open (ps _ ?p) = false => rewrite H; reflexivity end.

Ltac quiet_tac :=
  unfold quiet, ok, ok_ev; setters;
  refine (conj _ (conj _ (conj _ (conj _ (conj _ _)))));
  [reflexivity | reflexivity | reflexivity | reflexivity | so_tac | ev_tac].

Lemma svc_open_ps s p s1 r : svc_open s p = (s1, r) ->
  ps s1 = ps s /\ tasks s1 = tasks s /\ lastt s1 = lastt s /\ ntask s1 = ntask s /\ hopen s1 = hopen s.
Proof.
  unfold svc_open. destruct (conn s p); [destruct (dead s p)|]; intros H; inversion H; subst; setters; repeat split; auto.
Qed.

(* replace the state after svc_open by facts about its fields *)
Ltac svc_tac s p :=
  let s1 := fresh "s1" in let r := fresh "r" in let Hs := fresh "Hs" in
  destruct (svc_open s p) as [s1 r] eqn:Hs; apply svc_open_ps in Hs;
  let H1 := fresh "H1" in let H2 := fresh "H2" in let H3 := fresh "H3" in let H4 := fresh "H4" in let H5 := fresh "H5" in
  destruct Hs as (H1 & H2 & H3 & H4 & H5);
  destruct r; unfold quiet, ok, ok_ev; setters; rewrite ?H1, ?H2, ?H3, ?H4, ?H5;
  (refine (conj _ (conj _ (conj _ (conj _ (conj _ _)))));
   [reflexivity | reflexivity | reflexivity | reflexivity | so_tac | ev_tac]).

Lemma quiet_on_open c s p : quiet s (on_open c s p).
Proof.
  unfold on_open. destruct (ps s p) as [x|] eqn:Hp.
  - destruct x as [|b|po| |y|d o i|k]; try (quiet_tac; fail).
    unfold reusable. destruct po as [y|]; [destruct (pend_find y (pend s)); [quiet_tac|]|]; svc_tac s p.
  - destruct (should_dial c); cbn [negb]; [destruct (dialable c p)|]; quiet_tac.
Qed.

Lemma same_open_is_open s s' r : same_open s s' -> is_open (ps s' r) = is_open (ps s r).
Proof.
  intros H. destruct (ps s' r) as [[]|] eqn:E1; destruct (ps s r) as [[]|] eqn:E2; cbn; auto;
    try (apply H in E1; congruence); try (apply H in E2; congruence).
Qed.

Lemma quiet_trans s s' r :
  tasks s' = tasks s -> lastt s' = lastt s -> ntask s' = ntask s -> hopen s' = hopen s ->
  same_open s s' -> quiet s' r -> quiet s r.
Proof.
  intros T L N0 HO SO Q. destruct r as [[[s2 ev] cl]|]; cbn in *; auto.
  destruct Q as (Q1 & Q2 & Q3 & Q4 & Q5 & Q6).
  refine (conj _ (conj _ (conj _ (conj _ (conj _ _))))); try congruence.
  - intros q0 k0. rewrite (Q5 q0 k0). apply SO.
  - eapply Forall_impl; [|exact Q6]. intros e He. destruct e; cbn in *; auto.
    rewrite <- (same_open_is_open s s'); auto.
Qed.

Lemma quiet_on_established c s p : quiet s (on_established c s p).
Proof.
  unfold on_established. destruct (ps s p) as [x|] eqn:Hp.
  - destruct x as [|b|po| |y|d o i|k]; try exact I.
    + destruct b; [exact I|quiet_tac].
    + eapply quiet_trans; [| | | | |apply quiet_on_open]; setters; auto. so_tac.
  - quiet_tac.
Qed.

Lemma quiet_on_sub_out s p x : quiet s (on_sub_out s p x).
Proof.
  unfold on_sub_out. destruct (ps s p) as [stt|] eqn:Hp; [|exact I].
  destruct stt as [|b|po| |y|d o i|k]; try exact I.
  - destruct po as [y|]; [|exact I]. destruct (y =? x); [quiet_tac|exact I].
  - destruct ((y =? x) && _); [quiet_tac|exact I].
  - destruct i; try (quiet_tac; fail); destruct o as [|y| |]; try exact I; destruct (y =? x); try exact I; quiet_tac.
Qed.

Lemma quiet_on_sub_in s p : quiet s (on_sub_in s p).
Proof.
  unfold on_sub_in. destruct (ps s p) as [stt|] eqn:Hp; [|exact I].
  destruct stt as [|b|po| |y|d o i|k]; try (quiet_tac; fail).
  - destruct po; quiet_tac.
  - destruct o, i; quiet_tac.
Qed.

Lemma quiet_on_open_fail s x : quiet s (on_open_fail s x).
Proof.
  unfold on_open_fail. destruct (pend_find x (pend s)) as [p|]; [|exact I]. setters.
  destruct (ps s p) as [stt|] eqn:Hp; [|exact I].
  destruct stt as [|b|po| |y|d o i|k]; try exact I.
  - destruct po as [y|]; [|exact I]. destruct (y =? x); [quiet_tac|exact I].
  - quiet_tac.
  - destruct o; quiet_tac.
Qed.

Lemma quiet_on_dial_fail s p : quiet s (on_dial_fail s p).
Proof.
  unfold on_dial_fail. destruct (ps s p) as [stt|] eqn:Hp; [|quiet_tac].
  destruct stt; quiet_tac.
Qed.

Lemma quiet_on_validation s p a : quiet s (on_validation s p a).
Proof.
  unfold on_validation. destruct (ps s p) as [stt|] eqn:Hp; [|quiet_tac].
  destruct stt as [|b|po| |y|d o i|k]; try (quiet_tac; fail).
  - destruct b, a; quiet_tac.
  - destruct i; try (quiet_tac; fail). destruct a; [|quiet_tac].
    destruct o; try (quiet_tac; fail). svc_tac s p.
Qed.

Lemma quiet_on_hs_err s p : quiet s (on_hs_err s p).
Proof.
  unfold on_hs_err. destruct (ps s p) as [stt|] eqn:Hp; [|exact I].
  destruct stt as [|b|po| |y|d o i|k]; try exact I.
  destruct o; cbn [o_closed pending_open]; quiet_tac.
Qed.

Lemma quiet_on_timer s p : quiet s (on_timer s p).
Proof.
  unfold on_timer. destruct (ps s p) as [stt|] eqn:Hp; [|quiet_tac].
  destruct stt as [|b|po| |y|d o i|k]; try (quiet_tac; fail).
  destruct o; try (quiet_tac; fail). destruct i; quiet_tac.
Qed.

(* ------------------------------------------------------------------ prompt environment *)
Definition prompt_op (o : op) : bool :=
  match o with Gate _ => false | TaskDie _ g | NotifyDie _ g => negb g | _ => true end.

Record AInv (s : st) (h : peer -> bool) : Prop := mkAInv {
  a_task : forall t, In t (tasks s) ->
             t_closing t = None /\ t_gated t = false /\ ps s (t_peer t) = Some (Open (t_id t)) /\
             t_id t < ntask s /\ lastt s (t_peer t) = Some (t_id t);
  a_nodup : NoDup (map t_id (tasks s));
  a_open : forall p k, ps s p = Some (Open k) -> exists t, In t (tasks s) /\ t_id t = k /\ t_peer t = p;
  a_last : forall p k, lastt s p = Some k -> k < ntask s /\ forall t, In t (tasks s) -> t_id t = k -> t_peer t = p;
  a_h : forall p, h p = is_open (ps s p);
  a_hopen : forall p, hopen s p = h p
}.

Lemma AInv_init : AInv init (fun _ => false).
Proof. constructor; cbn; intros; try tauto; try discriminate; auto. constructor. Qed.

Lemma AInv_quiet s s' h :
  AInv s h -> tasks s' = tasks s -> lastt s' = lastt s -> ntask s' = ntask s -> hopen s' = hopen s ->
  same_open s s' -> AInv s' h.
Proof.
  intros [A1 A2 A3 A4 A5 A6] T L N0 HO SO. constructor; rewrite ?T, ?L, ?N0, ?HO; auto.
  - intros t Ht. destruct (A1 t Ht) as (B1 & B2 & B3 & B4 & B5). repeat split; auto. now apply SO.
  - intros p k Hk. apply SO in Hk. auto.
  - intros p. rewrite A5. symmetry. now apply same_open_is_open.
Qed.

Lemma grammar_quiet s h ev :
  (forall p, h p = is_open (ps s p)) -> Forall (quiet_ev s) ev -> grammar h ev = Some h.
Proof.
  intros Hh. induction 1 as [|e l He _ IH]; cbn; auto.
  destruct e; cbn in He; try tauto; auto. rewrite Hh, He. auto.
Qed.

Lemma drain_quiet s0 ev : Forall (quiet_ev s0) ev -> forall s1 s2 l ks,
  drain s1 ev = (s2, l, ks) ->
  ks = [] /\ ps s2 = ps s1 /\ tasks s2 = tasks s1 /\ lastt s2 = lastt s1 /\ ntask s2 = ntask s1 /\
  hopen s2 = hopen s1 /\ hsI s2 = hsI s1 /\ hsink s2 = hsink s1.
Proof.
  induction 1 as [|e t He _ IH]; intros s1 s2 l ks; cbn.
  - intros H; inversion H; subst. repeat split; auto.
  - destruct e; cbn in He; try tauto.
    + destruct (hval s1 p).
      * destruct (drain s1 t) as [[a b] c] eqn:E. intros H; inversion H; subst. eapply IH; eauto.
      * intros H. apply IH in H. setters. exact H.
    + intros H. eapply IH; eauto.
Qed.

Lemma on_validation_reject_ev s p s' ev cl : on_validation s p false = Some (s', ev, cl) -> ev = [].
Proof.
  unfold on_validation. destruct (ps s p) as [stt|]; [|intros H; inversion H; auto].
  destruct stt as [|b|po| |y|d o i|k]; try (intros H; inversion H; auto; fail).
  - destruct b; intros H; inversion H; auto.
  - destruct i; intros H; inversion H; auto.
Qed.

Lemma quiet_seq s s1 e1 c1 s2 e2 c2 :
  quiet s (Some (s1, e1, c1)) -> quiet s1 (Some (s2, e2, c2)) -> quiet s (Some (s2, e1 ++ e2, c1 ++ c2)).
Proof.
  intros Q1 Q2. pose proof Q1 as (T & L & N0 & HO & SO & F1).
  pose proof (quiet_trans s s1 (Some (s2, e2, c2)) T L N0 HO SO Q2) as (T2 & L2 & N2 & HO2 & SO2 & F2).
  cbn. refine (conj _ (conj _ (conj _ (conj _ (conj _ _))))); auto. apply Forall_app; auto.
Qed.

(* a step whose main handler is quiet keeps the invariant and the grammar state *)
Lemma grammar_notifs h l : (forall q, In q l -> h q = true) -> grammar h (map UNotif l) = Some h.
Proof.
  induction l as [|a l IH]; cbn; auto. intros H. rewrite (H a) by auto. apply IH. auto.
Qed.

Lemma filter_all {A} (f : A -> bool) l : (forall x, In x l -> f x = true) -> filter f l = l.
Proof.
  induction l as [|a l IH]; cbn; auto. intros H. rewrite (H a) by auto. rewrite IH; auto.
Qed.

Lemma filter_none {A} (f : A -> bool) l : (forall x, In x l -> f x = false) -> filter f l = [].
Proof.
  induction l as [|a l IH]; cbn; auto. intros H. rewrite (H a) by auto. apply IH; auto.
Qed.

(* the handle's sink table follows the gate: a stored sink is the one of the newest task of the peer *)
Definition KInv (s : st) : Prop :=
  forall p k, hsink s p = Some k -> hopen s p = true /\ lastt s p = Some k.

Lemma AInv_hsink s h p v : AInv s h -> AInv (set_hsink s p v) h.
Proof. intros [A1 A2 A3 A4 A5 A6]. constructor; auto. Qed.

Lemma step_of_quiet c s o h s1 ev calls s' ev' calls' :
  AInv s h -> KInv s -> (forall q, In q (notifs_of s o) -> h q = true) ->
  main_handler c s o = Some (s1, ev, calls) -> quiet s (Some (s1, ev, calls)) ->
  step c s o = Some (s', ev', calls') -> grammar h ev' = Some h /\ AInv s' h /\ KInv s'.
Proof.
  intros A KI NF M Q. unfold step. rewrite M. pose proof (hsink_main _ _ _ _ _ _ M) as HS.
  destruct Q as (T & L & N0 & HO & SO & F).
  destruct (drain s1 ev) as [[s2 dr] ks] eqn:D.
  destruct (drain_quiet s ev F _ _ _ _ D) as (-> & P2 & T2 & L2 & N2 & HO2 & _ & HS2).
  rewrite filter_all by (intros q Hq; rewrite HO2, HO; destruct A as [_ _ _ _ _ A6]; rewrite A6; auto).
  cbn [kill_tasks app drain].
  intros H; inversion H; subst. rewrite app_nil_r.
  split; [|split].
  - rewrite grammar_app. erewrite grammar_quiet; eauto; [|apply A]. now apply grammar_notifs.
  - eapply AInv_quiet; eauto; try congruence.
    intros q k. rewrite P2. apply SO.
  - intros q k Hq. rewrite HS2, HS in Hq. rewrite HO2, HO, L2, L. apply KI, Hq.
Qed.

(* ---- a step that ends the open stream of p ---- *)
Definition closes (s : st) (p : peer) (s1 : st) : Prop :=
  exists k, ps s p = Some (Open k) /\ tasks s1 = remove_task k (tasks s) /\ lastt s1 = lastt s /\
            ntask s1 = ntask s /\ hopen s1 = hopen s /\ is_open (ps s1 p) = false /\
            (forall q, q <> p -> ps s1 q = ps s q).

Lemma AInv_closes s h p s1 :
  AInv s h -> closes s p s1 -> AInv (set_hopen s1 p false) (upd h p false) /\ h p = true /\
  (exists k, lastt s1 p = Some k /\ running s1 k = false) /\ hopen s1 p = true.
Proof.
  intros [A1 A2 A3 A4 A5 A6] (k & Hp & T & L & N0 & HO & NO & FR).
  destruct (A3 p k Hp) as (t0 & In0 & Id0 & Pe0).
  destruct (A1 t0 In0) as (_ & _ & _ & _ & La0). rewrite Pe0, Id0 in La0.
  assert (Hh : h p = true) by (rewrite A5, Hp; reflexivity).
  split; [|split; [auto|split]].
  - constructor; setters; rewrite ?T, ?L, ?N0.
    + intros t Ht. apply in_remove in Ht. destruct Ht as [Ht Hne].
      destruct (A1 t Ht) as (B1 & B2 & B3 & B4 & B5). repeat split; auto.
      rewrite FR; auto. intros E. rewrite E, Hp in B3. inversion B3. congruence.
    + now apply nodup_remove.
    + intros q k' Hq. assert (q <> p) by (intros ->; rewrite Hq in NO; discriminate).
      rewrite FR in Hq by auto. destruct (A3 q k' Hq) as (t & In1 & Id1 & Pe1).
      exists t. repeat split; auto. apply in_remove. split; auto. intros E.
      assert (t = t0) by (eapply nodup_id_eq; eauto; congruence). subst t. congruence.
    + intros q k' Hq. destruct (A4 q k' Hq) as [B1 B2]. split; auto.
      intros t Ht. apply in_remove in Ht. apply B2. tauto.
    + intros q. unfold upd. destruct (q =? p) eqn:E.
      * apply N.eqb_eq in E. subst q. now rewrite NO.
      * apply N.eqb_neq in E. rewrite FR by auto. apply A5.
    + intros q. rewrite HO. unfold upd. destruct (q =? p); auto.
  - exists k. rewrite L. split; auto. unfold running. rewrite T, find_task_remove. reflexivity.
  - rewrite HO, A6. exact Hh.
Qed.

Lemma step_of_closes c s o h p s1 calls s' ev' calls' :
  AInv s h -> KInv s -> (forall q, In q (notifs_of s o) -> q = p) ->
  main_handler c s o = Some (s1, [UClosed p], calls) -> closes s p s1 ->
  step c s o = Some (s', ev', calls') ->
  grammar h ev' = Some (upd h p false) /\ AInv s' (upd h p false) /\ KInv s'.
Proof.
  intros A KI NF M C. unfold step. rewrite M. pose proof (hsink_main _ _ _ _ _ _ M) as HS.
  destruct (AInv_closes s h p s1 A C) as (A' & Hh & (k & Lk & Rk) & HO).
  destruct C as (k0 & _ & _ & L1 & _ & HO1 & _).
  assert (KL : match hsink s1 p with
               | Some k1 => if running s1 k1 && negb (match usink s1 p with Some k' => k' =? k1 | None => false end)
                            then [k1] else []
               | None => []
               end = []).
  { destruct (hsink s1 p) as [k1|] eqn:E; auto. rewrite HS in E. destruct (KI p k1 E) as [_ E2].
    rewrite <- L1, Lk in E2. injection E2 as <-. rewrite Rk. reflexivity. }
  cbn [drain]. rewrite KL.
  rewrite filter_none by (intros q Hq; apply NF in Hq; subst q; setters; apply upd_same).
  cbn [map app kill_tasks drain].
  intros H; inversion H; subst. cbn [app grammar]. rewrite Hh. split; auto. split.
  - apply AInv_hsink. exact A'.
  - intros q k1 Hq. setters. unfold upd in *. destruct (q =? p); [discriminate|].
    rewrite HS in Hq. rewrite HO1, L1. apply KI, Hq.
Qed.

(* ---- a step that opens a stream to p ---- *)
Definition opens (s : st) (p : peer) (s1 : st) : Prop :=
  is_open (ps s p) = false /\ ps s1 p = Some (Open (ntask s)) /\
  tasks s1 = tasks s ++ [mkTask (ntask s) p None false] /\
  lastt s1 = upd (lastt s) p (Some (ntask s)) /\ ntask s1 = ntask s + 1 /\ hopen s1 = hopen s /\
  (forall q, q <> p -> ps s1 q = ps s q).

Lemma AInv_opens s h p s1 :
  AInv s h -> opens s p s1 -> AInv (set_hopen s1 p true) (upd h p true) /\ h p = false.
Proof.
  intros [A1 A2 A3 A4 A5 A6] (NO & Hp & T & L & N0 & HO & FR).
  assert (Hh : h p = false) by (rewrite A5; exact NO).
  assert (Fresh : forall t, In t (tasks s) -> t_id t <> ntask s /\ t_peer t <> p).
  { intros t Ht. destruct (A1 t Ht) as (_ & _ & B3 & B4 & _). split; [lia|].
    intros E. rewrite E in B3. rewrite B3 in NO. discriminate. }
  split; auto. constructor; setters; rewrite ?T, ?L, ?N0.
  - intros t Ht. apply in_app_or in Ht. destruct Ht as [Ht|[<-|[]]].
    + destruct (A1 t Ht) as (B1 & B2 & B3 & B4 & B5). destruct (Fresh t Ht) as [F1 F2].
      repeat split; auto; try lia. rewrite FR; auto. rewrite upd_other; auto.
    + cbn. repeat split; auto; try lia. now rewrite upd_same.
  - rewrite map_app. cbn. apply NoDup_app_single; auto.
    intros H. apply in_map_iff in H. destruct H as (t & E & Ht). destruct (Fresh t Ht). congruence.
  - intros q k Hq. destruct (N.eq_dec q p) as [->|Hne].
    + rewrite Hp in Hq. inversion Hq; subst. eexists. split; [apply in_or_app; right; left; reflexivity|]. auto.
    + rewrite FR in Hq by auto. destruct (A3 q k Hq) as (t & In1 & Id1 & Pe1).
      exists t. repeat split; auto. apply in_or_app. auto.
  - intros q k Hq. destruct (N.eq_dec q p) as [->|Hne].
    + rewrite upd_same in Hq. inversion Hq; subst. split; [lia|].
      intros t Ht Id. apply in_app_or in Ht. destruct Ht as [Ht|[<-|[]]]; auto.
      destruct (Fresh t Ht). contradiction.
    + rewrite upd_other in Hq by auto. destruct (A4 q k Hq) as [B1 B2]. split; [lia|].
      intros t Ht Id. apply in_app_or in Ht. destruct Ht as [Ht|[<-|[]]]; auto.
      cbn in Id. lia.
  - intros q. unfold upd. destruct (q =? p) eqn:E.
    + apply N.eqb_eq in E. subst q. now rewrite Hp.
    + apply N.eqb_neq in E. rewrite FR by auto. apply A5.
  - intros q. rewrite HO. unfold upd. destruct (q =? p); auto.
Qed.

Lemma step_of_opens c s o h p d s1 calls s' ev' calls' :
  AInv s h -> KInv s -> notifs_of s o = [] -> main_handler c s o = Some (s1, [UOpened p d], calls) -> opens s p s1 ->
  step c s o = Some (s', ev', calls') ->
  grammar h ev' = Some (upd h p true) /\ AInv s' (upd h p true) /\ KInv s'.
Proof.
  intros A KI NF M C. unfold step. rewrite M, NF. cbn [filter map]. pose proof (hsink_main _ _ _ _ _ _ M) as HS.
  destruct (AInv_opens s h p s1 A C) as (A' & Hh).
  destruct C as (_ & _ & _ & L1 & _ & HO1 & _).
  cbn [drain app kill_tasks].
  intros H; inversion H; subst. cbn [app grammar]. rewrite Hh. split; auto. split.
  - apply AInv_hsink. exact A'.
  - intros q k1 Hq. setters. unfold upd in *. destruct (q =? p) eqn:E.
    + apply N.eqb_eq in E. subst q. split; auto.
    + rewrite HS in Hq. rewrite HO1, L1, E. apply KI, Hq.
Qed.

Inductive shape (s : st) : res -> Prop :=
| sh_none : shape s None
| sh_quiet s1 ev cl : quiet s (Some (s1, ev, cl)) -> shape s (Some (s1, ev, cl))
| sh_closes p s1 cl : closes s p s1 -> shape s (Some (s1, [UClosed p], cl))
| sh_opens p d s1 cl : opens s p s1 -> shape s (Some (s1, [UOpened p d], cl)).

Lemma shape_of_quiet s r : quiet s r -> shape s r.
Proof. destruct r as [[[s1 ev] cl]|]; intros; constructor; auto. Qed.

(* the frame: fields the invariant does not look at may differ *)
Definition same_core (s s0 : st) : Prop :=
  ps s0 = ps s /\ tasks s0 = tasks s /\ lastt s0 = lastt s /\ ntask s0 = ntask s /\ hopen s0 = hopen s.

Lemma quiet_frame s s0 r : same_core s s0 -> quiet s0 r -> quiet s r.
Proof.
  intros (P & T & L & N0 & HO) Q. eapply quiet_trans; eauto.
  intros q k. rewrite P. tauto.
Qed.

Lemma closes_frame s s0 p s1 : same_core s s0 -> closes s0 p s1 -> closes s p s1.
Proof.
  intros (P & T & L & N0 & HO) (k & H1 & H2 & H3 & H4 & H5 & H6 & H7).
  exists k. rewrite <- P, <- T, <- L, <- N0, <- HO. repeat split; auto.
Qed.

Lemma opens_frame s s0 p s1 : same_core s s0 -> opens s0 p s1 -> opens s p s1.
Proof.
  intros (P & T & L & N0 & HO) (H1 & H2 & H3 & H4 & H5 & H6 & H7).
  unfold opens. rewrite <- P, <- T, <- L, <- N0, <- HO. repeat split; auto.
Qed.

Lemma shape_frame s s0 r : same_core s s0 -> shape s0 r -> shape s r.
Proof.
  intros C H. destruct H.
  - constructor.
  - apply sh_quiet. eapply quiet_frame; eauto.
  - apply sh_closes. eapply closes_frame; eauto.
  - apply sh_opens. eapply opens_frame; eauto.
Qed.

Lemma signal_open s h s0 p k :
  AInv s h -> ps s p = Some (Open k) -> tasks s0 = tasks s ->
  signal s0 k = (set_tasks s0 (remove_task k (tasks s)), [UClosed p]).
Proof.
  intros [A1 A2 A3 A4 A5 A6] Hp T.
  destruct (A3 p k Hp) as (t0 & In0 & Id0 & Pe0).
  destruct (find_task_in _ _ In0) as (t' & F). rewrite Id0 in F.
  destruct (find_task_some _ _ _ F) as [In1 Id1].
  assert (t' = t0) by (eapply nodup_id_eq; eauto; congruence). subst t'.
  destruct (A1 t0 In0) as (B1 & B2 & _).
  unfold signal. rewrite T, F, B1, B2, Pe0. reflexivity.
Qed.

Lemma shape_on_closed s h p : AInv s h -> shape s (on_closed s p).
Proof.
  intros A. unfold on_closed. setters.
  destruct (ps s p) as [x|] eqn:Hp; [|constructor].
  destruct x as [|b|po| |y|d o i|k]; try (apply sh_quiet; quiet_tac; fail).
  - destruct o, i; apply sh_quiet; quiet_tac.
  - erewrite (signal_open s h _ p k A Hp) by reflexivity.
    apply sh_closes. exists k. setters. repeat apply conj; auto.
    + now rewrite upd_same.
    + intros q Hq. now rewrite upd_other.
Qed.

Lemma shape_on_close s h p : AInv s h -> shape s (on_close s p).
Proof.
  intros A. unfold on_close.
  destruct (ps s p) as [x|] eqn:Hp; [|apply sh_quiet; quiet_tac].
  destruct x as [|b|po| |y|d o i|k]; try (apply sh_quiet; quiet_tac; fail).
  erewrite (signal_open s h s p k A Hp) by reflexivity.
  apply sh_closes. exists k. setters. repeat apply conj; auto.
  - now rewrite upd_same.
  - intros q Hq. now rewrite upd_other.
Qed.

Lemma shape_hs_finish s0 s p :
  tasks s = tasks s0 -> lastt s = lastt s0 -> ntask s = ntask s0 -> hopen s = hopen s0 ->
  is_open (ps s0 p) = false -> (forall q, q <> p -> ps s q = ps s0 q) ->
  is_open (ps s p) = false ->
  shape s0 (hs_finish s p).
Proof.
  intros T L N0 HO NO FR NO2. unfold hs_finish.
  assert (Q : quiet s0 (ok s)).
  { unfold quiet, ok. refine (conj _ (conj _ (conj _ (conj _ (conj _ _))))); auto.
    intros r k. destruct (N.eq_dec r p) as [->|Hne].
    - split; intros H; rewrite H in *; discriminate.
    - rewrite FR by auto. tauto. }
  destruct (ps s p) as [x|] eqn:Hp; [|apply sh_quiet; exact Q].
  destruct x as [|b|po| |y|d o i|k]; try (apply sh_quiet; exact Q).
  destruct o; try (apply sh_quiet; exact Q). destruct i; try (apply sh_quiet; exact Q).
  apply sh_opens. unfold opens, spawn_task. setters. rewrite T, L, N0, HO.
  repeat apply conj; auto.
  - now rewrite upd_same.
  - intros r Hr. rewrite upd_other; auto.
Qed.

Ltac finish_tac Hp :=
  apply shape_hs_finish; setters; auto;
  [ rewrite Hp; reflexivity
  | let r := fresh "r" in let Hr := fresh "Hr" in intros r Hr; now rewrite upd_other
  | now rewrite upd_same ].

Lemma shape_on_hs_out_ok s p : shape s (on_hs_out_ok s p).
Proof.
  unfold on_hs_out_ok. destruct (ps s p) as [x|] eqn:Hp; [|constructor].
  destruct x as [|b|po| |y|d o i|k]; try constructor.
  destruct o; try constructor. finish_tac Hp.
Qed.

Lemma shape_on_hs_in_ok c s p : shape s (on_hs_in_ok c s p).
Proof.
  unfold on_hs_in_ok. destruct (ps s p) as [x|] eqn:Hp; [|constructor].
  destruct x as [|b|po| |y|d o i|k]; try constructor.
  destruct i; try constructor.
  - destruct (negb (o_closed o) && auto_accept c); apply sh_quiet; quiet_tac.
  - finish_tac Hp.
Qed.

Lemma map_ungate_id p l :
  (forall t, In t l -> t_closing t = None /\ t_gated t = false) ->
  map (fun t => if t_peer t =? p then mkTask (t_id t) (t_peer t) (t_closing t) false else t) l = l.
Proof.
  induction l as [|a l IH]; cbn; auto. intros H. rewrite IH by auto.
  destruct (H a (or_introl eq_refl)) as [_ G]. destruct a as [i q cl g]; cbn in *. subst g.
  destruct (q =? p); reflexivity.
Qed.

Lemma finish_tasks_id p l :
  (forall t, In t l -> t_closing t = None /\ t_gated t = false) -> finish_tasks p l = (l, [], 0).
Proof.
  induction l as [|a l IH]; cbn; auto. intros H. rewrite IH by auto.
  destruct (H a (or_introl eq_refl)) as [C G]. rewrite C, G.
  destruct (t_peer a =? p); reflexivity.
Qed.

Lemma quiet_ok_frame s s0 : same_core s s0 -> quiet s (ok s0).
Proof.
  intros (P & T & L & N0 & HO). unfold quiet, ok.
  refine (conj _ (conj _ (conj _ (conj _ (conj _ _))))); auto. intros r k. rewrite P. tauto.
Qed.

Lemma shape_task_die s h p : AInv s h -> shape s (task_die_op s p false).
Proof.
  intros A. pose proof A as [A1 A2 A3 A4 A5 A6]. unfold task_die_op. cbn [orb].
  destruct (lastt s p) as [k|] eqn:Lk; [|apply sh_quiet; quiet_tac].
  destruct (find_task k (tasks s)) as [t|] eqn:F; [|apply sh_quiet; quiet_tac].
  destruct (find_task_some _ _ _ F) as [In1 Id1].
  destruct (A1 t In1) as (B1 & B2 & B3 & B4 & B5). rewrite B1, B2.
  destruct (A4 p k Lk) as [_ Pe]. specialize (Pe t In1 Id1). rewrite Pe, Id1 in B3.
  apply sh_closes. exists k. unfold on_shutdown. setters. rewrite B3.
  unfold task_closed. setters. rewrite find_task_remove. setters.
  repeat apply conj; auto.
  + now rewrite upd_same.
  + intros r Hr. now rewrite upd_other.
Qed.

Lemma main_shape c s o h : AInv s h -> prompt_op o = true -> shape s (main_handler c s o).
Proof.
  intros A PO. pose proof A as [A1 A2 A3 A4 A5 A6].
  destruct o as [p|p|p|p|p|p|p b|p b|p a|p|p|p|p|p g|p|p|p|p|p g|p|p m|p m|p m|p m]; cbn [main_handler].
  - destruct (conn s p); [apply sh_quiet; quiet_tac|].
    apply shape_of_quiet. eapply quiet_frame; [|apply quiet_on_established]. repeat split.
  - destruct (conn s p); [|apply sh_quiet; quiet_tac].
    apply (shape_frame s (set_spend (set_conn s p false) (drop_peer p (spend s)))); [repeat split|].
    apply (shape_on_closed _ h). eapply AInv_quiet; [exact A|..]; setters; auto. intros q0 k0; setters; tauto.
  - destruct (conn s p); apply shape_of_quiet; [apply quiet_on_sub_in|quiet_tac].
  - destruct (conn s p); [|apply sh_quiet; quiet_tac].
    destruct (first_req p (spend s)); [|apply sh_quiet; quiet_tac].
    apply shape_of_quiet. eapply quiet_frame; [|apply quiet_on_sub_out]. repeat split.
  - destruct (conn s p); [|apply sh_quiet; quiet_tac].
    destruct (first_req p (spend s)); [|apply sh_quiet; quiet_tac].
    apply shape_of_quiet. eapply quiet_frame; [|apply quiet_on_open_fail]. repeat split.
  - apply shape_of_quiet. apply quiet_on_dial_fail.
  - destruct (hsI s p); [|apply sh_quiet; quiet_tac].
    destruct b; [apply shape_on_hs_in_ok|apply shape_of_quiet, quiet_on_hs_err].
  - destruct (hsO s p); [|apply sh_quiet; quiet_tac].
    destruct b; [apply shape_on_hs_out_ok|apply shape_of_quiet, quiet_on_hs_err].
  - destruct (hval s p); [|apply sh_quiet; quiet_tac].
    apply shape_of_quiet. eapply quiet_frame; [|apply quiet_on_validation]. repeat split.
  - destruct (existsb (N.eqb p) (timers s)); [|apply sh_quiet; quiet_tac].
    apply shape_of_quiet. eapply quiet_frame; [|apply quiet_on_timer]. repeat split.
  - destruct (hopen s p); [apply sh_quiet; quiet_tac|]. apply shape_of_quiet, quiet_on_open.
  - destruct (hopen s p); [|apply sh_quiet; quiet_tac]. eapply shape_on_close; eauto.
  - apply sh_quiet. quiet_tac.
  - cbn in PO. destruct g; [discriminate|]. eapply shape_task_die; eauto.
  - (* Release *)
    rewrite map_ungate_id by (intros t Ht; destruct (A1 t Ht) as (B1 & B2 & _); auto).
    rewrite finish_tasks_id by (intros t Ht; destruct (A1 t Ht) as (B1 & B2 & _); auto).
    cbn [run_shutdowns N.eqb]. apply sh_quiet. unfold run_shutdowns. cbn. quiet_tac.
  - destruct (conn s p); apply sh_quiet; quiet_tac.
  - discriminate.
  - apply sh_quiet. quiet_tac.
  - cbn in PO. destruct g; [discriminate|]. eapply shape_task_die; eauto.
  - destruct (usink s p), (hsink s p); apply sh_quiet; quiet_tac.
  - apply sh_quiet. quiet_tac.
  - apply sh_quiet. quiet_tac.
  - apply sh_quiet. quiet_tac.
  - apply sh_quiet. quiet_tac.
Qed.

Lemma notifs_facts s h o q : AInv s h -> In q (notifs_of s o) -> q = op_peer o /\ h q = true.
Proof.
  intros [A1 A2 A3 A4 A5 A6] H.
  assert (G : forall p, In q (match lastt s p with Some k => if running s k then [p] else [] | None => [] end) ->
                        q = p /\ h q = true).
  { intros p Hq. destruct (lastt s p) as [k|] eqn:Lk; [|destruct Hq].
    unfold running in Hq. destruct (find_task k (tasks s)) as [t|] eqn:F; [|destruct Hq].
    destruct (t_closing t) eqn:TC; [destruct Hq|]. destruct Hq as [<-|[]]. split; auto.
    destruct (find_task_some _ _ _ F) as [In1 Id1]. destruct (A4 p k Lk) as [_ Pe].
    specialize (Pe t In1 Id1). destruct (A1 t In1) as (_ & _ & B3 & _). rewrite Pe in B3.
    rewrite A5, B3. reflexivity. }
  destruct o; cbn in H; try destruct H; cbn [op_peer]; apply G; auto.
Qed.

Lemma step_inv c s o h s' ev calls :
  AInv s h -> KInv s -> prompt_op o = true -> step c s o = Some (s', ev, calls) ->
  exists h', grammar h ev = Some h' /\ AInv s' h' /\ KInv s'.
Proof.
  intros A KI PO S. pose proof (main_shape c s o h A PO) as Sh.
  destruct (main_handler c s o) as [[[s1 ev1] cl1]|] eqn:M.
  - inversion Sh; subst.
    + exists h. eapply step_of_quiet; eauto. intros q Hq. eapply notifs_facts; eauto.
    + eexists. eapply step_of_closes; eauto. intros q Hq.
      destruct (notifs_facts _ _ _ _ A Hq) as [-> _].
      (* the closing peer is the peer of the event *)
      destruct o; cbn in Hq; try destruct Hq; cbn [op_peer main_handler] in *;
        unfold ok, task_die_op in M;
        repeat match type of M with context [match ?x with _ => _ end] => destruct x end;
        inversion M; reflexivity.
    + eexists. eapply step_of_opens; eauto.
      destruct o; cbn; auto; exfalso; cbn [main_handler] in M;
        unfold ok, task_die_op in M;
        repeat match type of M with context [match ?x with _ => _ end] => destruct x end; inversion M.
  - unfold step in S. rewrite M in S. discriminate.
Qed.

Lemma KInv_init : KInv init.
Proof. intros p k H. discriminate H. Qed.

Definition events (r : list (st * list uev * list call)) : list uev :=
  flat_map (fun x => snd (fst x)) r.

Lemma run_grammar c ops : forall s h,
  AInv s h -> KInv s -> forallb prompt_op ops = true ->
  exists h', grammar h (events (fst (run c s ops))) = Some h'.
Proof.
  induction ops as [|o t IH]; intros s h A KI P; cbn [run fst events flat_map].
  - exists h. reflexivity.
  - cbn in P. apply andb_true_iff in P. destruct P as [P1 P2].
    destruct (step c s o) as [[[s1 ev] calls]|] eqn:S.
    + destruct (step_inv _ _ _ _ _ _ _ A KI P1 S) as (h1 & G1 & A1 & K1).
      destruct (IH s1 h1 A1 K1 P2) as (h2 & G2).
      destruct (run c s1 t) as [r b]. cbn [fst events flat_map snd] in *.
      exists h2. rewrite grammar_app, G1. exact G2.
    + exists h. reflexivity.
Qed.

(* every reachable state of a prompt run satisfies the invariant: used for the corollaries *)
Lemma run_inv c ops : forall s h,
  AInv s h -> KInv s -> forallb prompt_op ops = true ->
  forall x, In x (fst (run c s ops)) -> exists h', AInv (fst (fst x)) h' /\ KInv (fst (fst x)).
Proof.
  induction ops as [|o t IH]; intros s h A KI P x; cbn [run fst].
  - intros [].
  - cbn in P. apply andb_true_iff in P. destruct P as [P1 P2].
    destruct (step c s o) as [[[s1 ev] calls]|] eqn:S; [|intros []].
    destruct (step_inv _ _ _ _ _ _ _ A KI P1 S) as (h1 & G1 & A1 & K1).
    specialize (IH s1 h1 A1 K1 P2). destruct (run c s1 t) as [r b]. cbn [fst] in *.
    intros [<-|H]; eauto.
Qed.

(* ------------------------------------------------------------------ Opened needs an accepted inbound *)
Lemma quiet_no_opened s s1 ev cl p d : quiet s (Some (s1, ev, cl)) -> ~ In (UOpened p d) ev.
Proof.
  intros (_ & _ & _ & _ & _ & F) H. rewrite Forall_forall in F. apply F in H. exact H.
Qed.

Lemma signal_ev s k s' ev p d : signal s k = (s', ev) -> ~ In (UOpened p d) ev.
Proof.
  unfold signal. destruct (find_task k (tasks s)) as [t|]; [|intros H; inversion H; subst; auto].
  destruct (t_closing t); [intros H; inversion H; subst; auto|].
  destruct (t_gated t); intros H; inversion H; subst; cbn; [tauto|]. intros [E|[]]. discriminate.
Qed.

Lemma finish_tasks_ev p l : forall l' ev n q d, finish_tasks p l = (l', ev, n) -> ~ In (UOpened q d) ev.
Proof.
  induction l as [|a l IH]; cbn; intros l' ev n q d.
  - intros H; inversion H; subst. auto.
  - destruct (finish_tasks p l) as [[r' e'] n'] eqn:E.
    destruct ((t_peer a =? p) && negb (t_gated a)); [destruct (t_closing a)|];
      intros H; inversion H; subst; cbn; try (eapply IH; eauto; fail).
    intros [X|X]; [discriminate|]. eapply IH; eauto.
Qed.

Definition accepted_in (x : option pstate) (d : dir) : Prop :=
  (exists i, x = Some (Validating d ONeg i) /\ i = IOpen) \/
  (exists o, x = Some (Validating d o ISending) /\ o = OOpen).

Lemma hs_finish_opened s p q d s1 ev cl :
  hs_finish s p = Some (s1, ev, cl) -> In (UOpened q d) ev ->
  q = p /\ ps s p = Some (Validating d OOpen IOpen).
Proof.
  unfold hs_finish. destruct (ps s p) as [x|]; [|intros H; inversion H; subst; intros []].
  destruct x as [|b|po| |y|d0 o i|k]; try (intros H; inversion H; subst; intros []; fail).
  destruct o; try (intros H; inversion H; subst; intros []; fail).
  destruct i; try (intros H; inversion H; subst; intros []; fail).
  intros H; inversion H; subst. intros [E|[]]. inversion E; subst. auto.
Qed.

Lemma main_opened c s o s1 ev cl p d :
  main_handler c s o = Some (s1, ev, cl) -> In (UOpened p d) ev -> accepted_in (ps s p) d.
Proof.
  destruct o as [q|q|q|q|q|q|q b|q b|q a|q|q|q|q|q g|q|q|q|q|q g|q|q m|q m|q m|q m]; cbn [main_handler]; intros M HIn.
  - destruct (conn s q); [inversion M; subst; destruct HIn|].
    exfalso. eapply quiet_no_opened; [|exact HIn]. rewrite <- M. apply quiet_on_established.
  - destruct (conn s q); [|inversion M; subst; destruct HIn].
    revert M. unfold on_closed. setters.
    destruct (ps s q) as [x|]; [|discriminate].
    destruct x as [|b|po| |y|d0 o i|k]; try (intros M; inversion M; subst; cbn in HIn; intuition discriminate).
    + destruct o, i; intros M; inversion M; subst; cbn in HIn; intuition discriminate.
    + destruct (signal _ k) as [s2 e2] eqn:Sg. intros M; inversion M; subst.
      exfalso. eapply signal_ev; eauto.
  - destruct (conn s q); [|inversion M; subst; destruct HIn].
    exfalso. eapply quiet_no_opened; [|exact HIn]. rewrite <- M. apply quiet_on_sub_in.
  - destruct (conn s q); [|inversion M; subst; destruct HIn].
    destruct (first_req q (spend s)); [|inversion M; subst; destruct HIn].
    exfalso. eapply quiet_no_opened; [|exact HIn]. rewrite <- M. apply quiet_on_sub_out.
  - destruct (conn s q); [|inversion M; subst; destruct HIn].
    destruct (first_req q (spend s)); [|inversion M; subst; destruct HIn].
    exfalso. eapply quiet_no_opened; [|exact HIn]. rewrite <- M. apply quiet_on_open_fail.
  - exfalso. eapply quiet_no_opened; [|exact HIn]. rewrite <- M. apply quiet_on_dial_fail.
  - (* HsIn *)
    destruct (hsI s q); [|inversion M; subst; destruct HIn].
    destruct b; [|exfalso; eapply quiet_no_opened; [|exact HIn]; rewrite <- M; apply quiet_on_hs_err].
    revert M. unfold on_hs_in_ok. destruct (ps s q) as [x|] eqn:Hq; [|discriminate].
    destruct x as [|b|po| |y|d0 o i|k]; try discriminate.
    destruct i; try discriminate.
    + destruct (negb (o_closed o) && auto_accept c); intros M; inversion M; subst; cbn in HIn; intuition discriminate.
    + intros M. destruct (hs_finish_opened _ _ _ _ _ _ _ M HIn) as [-> E].
      setters. rewrite upd_same in E. inversion E; subst. right. rewrite Hq. eauto.
  - (* HsOut *)
    destruct (hsO s q); [|inversion M; subst; destruct HIn].
    destruct b; [|exfalso; eapply quiet_no_opened; [|exact HIn]; rewrite <- M; apply quiet_on_hs_err].
    revert M. unfold on_hs_out_ok. destruct (ps s q) as [x|] eqn:Hq; [|discriminate].
    destruct x as [|b|po| |y|d0 o i|k]; try discriminate.
    destruct o; try discriminate.
    intros M. destruct (hs_finish_opened _ _ _ _ _ _ _ M HIn) as [-> E].
    setters. rewrite upd_same in E. inversion E; subst. left. rewrite Hq. eauto.
  - destruct (hval s q); [|inversion M; subst; destruct HIn].
    exfalso. eapply quiet_no_opened; [|exact HIn]. rewrite <- M. apply quiet_on_validation.
  - destruct (existsb (N.eqb q) (timers s)); [|inversion M; subst; destruct HIn].
    exfalso. eapply quiet_no_opened; [|exact HIn]. rewrite <- M. apply quiet_on_timer.
  - destruct (hopen s q); [inversion M; subst; destruct HIn|].
    exfalso. eapply quiet_no_opened; [|exact HIn]. rewrite <- M. apply quiet_on_open.
  - destruct (hopen s q); [|inversion M; subst; destruct HIn].
    revert M. unfold on_close. destruct (ps s q) as [x|]; [|intros M; inversion M; subst; destruct HIn].
    destruct x as [|b|po| |y|d0 o i|k]; try (intros M; inversion M; subst; destruct HIn).
    destruct (signal s k) as [s2 e2] eqn:Sg. intros M; inversion M; subst. exfalso. eapply signal_ev; eauto.
  - inversion M; subst; destruct HIn.
  - revert M. unfold task_die_op. destruct (lastt s q); [|intros M; inversion M; subst; destruct HIn].
    destruct (find_task n (tasks s)) as [t|]; [|intros M; inversion M; subst; destruct HIn].
    destruct (t_closing t); [intros M; inversion M; subst; destruct HIn|].
    destruct (g || t_gated t); intros M; inversion M; subst; cbn in HIn; intuition discriminate.
  - revert M. destruct (finish_tasks q _) as [[l' e'] n'] eqn:F. intros M; inversion M; subst.
    exfalso. eapply finish_tasks_ev; eauto.
  - destruct (conn s q); inversion M; subst; destruct HIn.
  - revert M. destruct (lastt s q); intros M; inversion M; subst; destruct HIn.
  - inversion M; subst; destruct HIn.
  - revert M. unfold task_die_op. destruct (lastt s q); [|intros M; inversion M; subst; destruct HIn].
    destruct (find_task n (tasks s)) as [t|]; [|intros M; inversion M; subst; destruct HIn].
    destruct (t_closing t); [intros M; inversion M; subst; destruct HIn|].
    destruct (g || t_gated t); intros M; inversion M; subst; cbn in HIn; intuition discriminate.
  - revert M. destruct (usink s q), (hsink s q); intros M; inversion M; subst; destruct HIn.
  - inversion M; subst; destruct HIn.
  - inversion M; subst; destruct HIn.
  - inversion M; subst; destruct HIn.
  - inversion M; subst; destruct HIn.
Qed.

Lemma task_dies_ev s k s' ev p d : task_dies s k = (s', ev) -> ~ In (UOpened p d) ev.
Proof.
  unfold task_dies. destruct (find_task k (tasks s)) as [t|]; [|intros H; inversion H; subst; auto].
  destruct (t_closing t); [intros H; inversion H; subst; auto|].
  destruct (t_gated t); intros H; inversion H; subst; cbn; [tauto|]. intros [E|[]]. discriminate.
Qed.

Lemma kill_tasks_ev ks : forall s s' ev p d, kill_tasks s ks = (s', ev) -> ~ In (UOpened p d) ev.
Proof.
  induction ks as [|k t IH]; cbn; intros s s' ev p d.
  - intros H; inversion H; subst. auto.
  - destruct (task_dies s k) as [s1 e1] eqn:E1. destruct (kill_tasks s1 t) as [s2 e2] eqn:E2.
    intros H; inversion H; subst. intros X. apply in_app_or in X. destruct X as [X|X].
    + eapply task_dies_ev; eauto.
    + eapply IH; eauto.
Qed.

Lemma step_opened c s o s' ev calls p d :
  step c s o = Some (s', ev, calls) -> In (UOpened p d) ev -> accepted_in (ps s p) d.
Proof.
  unfold step. destruct (main_handler c s o) as [[[s1 ev1] cl1]|] eqn:M; [|discriminate].
  destruct (drain s1 ev1) as [[s2 dr] ks].
  destruct (kill_tasks s2 ks) as [s4 ev4] eqn:K.
  destruct (drain s4 ev4) as [[s5 x] y]. intros H; inversion H; subst.
  intros HIn. apply in_app_or in HIn. destruct HIn as [HIn|HIn].
  - eapply main_opened; eauto.
  - apply in_app_or in HIn. destruct HIn as [HIn|HIn].
    + exfalso. apply in_map_iff in HIn. destruct HIn as (z & E & _). discriminate.
    + exfalso. eapply kill_tasks_ev; eauto.
Qed.

(* ------------------------------------------------------------------ Closed on disconnect / user close *)
Lemma step_conn_closed c s h p k s' ev calls :
  AInv s h -> conn s p = true -> ps s p = Some (Open k) ->
  step c s (ConnClosed p) = Some (s', ev, calls) -> In (UClosed p) ev.
Proof.
  intros A C Hp. unfold step. cbn [main_handler]. rewrite C. unfold on_closed. setters. rewrite Hp.
  erewrite (signal_open s h _ p k A Hp) by reflexivity.
  match goal with |- context [drain ?a ?b] => destruct (drain a b) as [[s2 dr] ks] end.
  destruct (kill_tasks s2 ks) as [s4 ev4].
  destruct (drain s4 ev4) as [[s5 x] y].
  intros H; inversion H; subst. left; reflexivity.
Qed.

Lemma step_cmd_close c s h p k s' ev calls :
  AInv s h -> ps s p = Some (Open k) ->
  step c s (CmdClose p) = Some (s', ev, calls) -> In (UClosed p) ev.
Proof.
  intros A Hp. unfold step. cbn [main_handler].
  assert (HO : hopen s p = true).
  { destruct A as [_ _ _ _ A5 A6]. rewrite A6, A5, Hp. reflexivity. }
  rewrite HO. unfold on_close. rewrite Hp.
  erewrite (signal_open s h s p k A Hp) by reflexivity.
  match goal with |- context [drain ?a ?b] => destruct (drain a b) as [[s2 dr] ks] end.
  destruct (kill_tasks s2 ks) as [s4 ev4].
  destruct (drain s4 ev4) as [[s5 x] y].
  intros H; inversion H; subst. left; reflexivity.
Qed.

(* ------------------------------------------------------------------ statements used by Properties.v *)
Lemma alternation_prompt c ops :
  forallb prompt_op ops = true ->
  exists h, grammar (fun _ => false) (events (fst (run c init ops))) = Some h.
Proof. intros P. eapply run_grammar; eauto. apply AInv_init. apply KInv_init. Qed.

Lemma closed_on_disconnect_prompt c ops x p k s' ev calls :
  forallb prompt_op ops = true -> In x (fst (run c init ops)) ->
  conn (fst (fst x)) p = true -> ps (fst (fst x)) p = Some (Open k) ->
  step c (fst (fst x)) (ConnClosed p) = Some (s', ev, calls) -> In (UClosed p) ev.
Proof.
  intros P HIn C Hp S. destruct (run_inv c ops init _ AInv_init KInv_init P x HIn) as (h & A & _).
  eapply step_conn_closed; eauto.
Qed.

Lemma closed_on_user_close_prompt c ops x p k s' ev calls :
  forallb prompt_op ops = true -> In x (fst (run c init ops)) ->
  ps (fst (fst x)) p = Some (Open k) ->
  step c (fst (fst x)) (CmdClose p) = Some (s', ev, calls) -> In (UClosed p) ev.
Proof.
  intros P HIn Hp S. destruct (run_inv c ops init _ AInv_init KInv_init P x HIn) as (h & A & _).
  eapply step_cmd_close; eauto.
Qed.

(* witnesses *)
Definition cfg_w : cfg := mkCfg true true (fun _ => false).
Definition cfg_w0 : cfg := mkCfg false true (fun _ => false).
Definition open_by_user : list op :=
  [Established 0; CmdOpen 0; SubIn 0; HsIn 0 true; SubOut 0; HsIn 0 true; HsOut 0 true].
Definition w_slow_close : list op :=
  open_by_user ++ [Gate 0; CmdClose 0; SubIn 0; HsIn 0 true; Validate 0 true; HsIn 0 true; SubOut 0;
                   HsOut 0 true; Release 0].
Definition w_failed_sid : list op :=
  [Established 0; SubIn 0; HsIn 0 true; Validate 0 true; OpenFail 0; CmdOpen 0].

Definition last_state (c : cfg) (ops : list op) : st :=
  last (map (fun x => fst (fst x)) (fst (run c init ops))) init.

