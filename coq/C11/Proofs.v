(* C11 — proofs about the model: re-exports the parts; short proofs of statements of Properties.v. *)
From Coq Require Import List NArith Bool Lia.
From V.C11 Require Import Model.
From V.C11 Require Before.
From V.C11 Require HSModel HSProofs.
From V.C11 Require Export PBase PAlt PHInv PInv PIso PLedger PTimer PSend PLazy PGate PLazyAlt.
Import ListNotations.
Open Scope N_scope.

Lemma WT_reachable c s : reachable c s -> WT s.
Proof.
  induction 1 as [|s o s' ev cl R W S].
  - intros p V. discriminate V.
  - eapply WT_step; eauto.
Qed.


(* ---- statements of Properties.v whose proofs are a few lines ---- *)
(* ---- finding class 1, before and after its repair ---- *)
(* the history of the witness w3_slow_close_overlap in the model of the code before the repair (Before.v):
   the user closes a stream whose Connection task is slow to close, the remote re-opens, the old task
   finishes: Opened Opened Closed *)
Definition w_slow_close_before : list Before.op :=
  [Before.Established 0; Before.CmdOpen 0; Before.SubIn 0; Before.HsIn 0 true; Before.SubOut 0; Before.HsIn 0 true;
   Before.HsOut 0 true; Before.Gate 0; Before.CmdClose 0; Before.SubIn 0; Before.HsIn 0 true; Before.Validate 0 true;
   Before.HsIn 0 true; Before.SubOut 0; Before.HsOut 0 true; Before.Release 0].
Definition cfg_w_before : Before.cfg := Before.mkCfg true true (fun _ => false).

Lemma C11_alternation_before_fix_refuted_pf :
  Before.events (fst (Before.run cfg_w_before Before.init w_slow_close_before)) =
    [Before.UOpened 0 Before.DOut; Before.UValidate 0; Before.UOpened 0 Before.DIn; Before.UClosed 0; Before.UClosed 0] /\
  Before.grammar (fun _ => false) (Before.events (fst (Before.run cfg_w_before Before.init w_slow_close_before))) = None /\
  events (fst (run cfg_w init w_slow_close)) = [UOpened 0 DOut; UClosed 0; UValidate 0; UOpened 0 DIn].
Proof.
 vm_compute. repeat split; reflexivity.
Qed.

Lemma reachable_HInv c s : reachable c s -> HInv s.
Proof.
  induction 1 as [|s o s' ev cl R HI S]; [apply HInv_init|]. destruct (step_HInv _ _ _ _ _ _ HI S) as [_ H']. exact H'.
Qed.

Lemma C11_closed_on_disconnect_pf :
  forall (c : cfg) (s : st) (p : peer) (k : N) (s' : st) (ev : list uev) (calls : list call),
    reachable c s -> conn s p = true -> ps s p = Some (Open k) ->
    step c s (ConnClosed p) = Some (s', ev, calls) -> In (UClosed p) ev.
Proof. intros c s p k s' ev calls R. eapply step_conn_closed; eauto. apply (reachable_HInv c s R). Qed.

Lemma C11_closed_on_user_close_pf :
  forall (c : cfg) (s : st) (p : peer) (k : N) (s' : st) (ev : list uev) (calls : list call),
    reachable c s -> ps s p = Some (Open k) ->
    step c s (CmdClose p) = Some (s', ev, calls) -> In (UClosed p) ev.
Proof. intros c s p k s' ev calls R. eapply step_cmd_close; eauto. apply (reachable_HInv c s R). Qed.

Lemma C11_user_view_is_protocol_view_pf :
  forall (c : cfg) (s : st), reachable c s ->
    (forall p, hopen s p = is_open (ps s p)) /\ (forall p k, ps s p = Some (Open k) -> hsink s p = Some k).
Proof. intros c s R. destruct (reachable_HInv c s R) as [A B _]. auto. Qed.

Lemma C11_delivered_close_kills_nothing_pf :
  forall (c : cfg) (s : st) (o : op) (s1 : st) (ev : list uev) (cl : list call) (s2 : st) (dr : list peer) (ks : list N),
    reachable c s -> main_handler c s o = Some (s1, ev, cl) -> drain s1 ev = (s2, dr, ks) -> ks = [].
Proof. intros c s o s1 ev cl s2 dr ks R. eapply step_kills_nothing. apply (reachable_HInv c s R). Qed.

Lemma C11_no_stuck_pf :
  forall (c : cfg) (ops : list op), snd (run c init ops) = true.
Proof.
 intros c ops. apply run_nostuck, SInv_init.
Qed.

Lemma C11_no_stuck_feasible_pf :
  forall (c : cfg) (ops : list op), feasible c init ops = true -> snd (run c init ops) = true.
Proof.
 intros c ops _. apply run_nostuck, SInv_init.
Qed.

Lemma C11_no_stuck_needs_environment_refuted_pf :
  exists (c : cfg) (ops : list op) (p : peer),
    conn (last_state c ops) p = true /\ on_established c (last_state c ops) p = None.
Proof.
 exists cfg_w, w_twice, 0. vm_compute. split; reflexivity.
Qed.

Lemma C11_isolation_pf :
  forall (c : cfg) (s : st) (o : op) (s' : st) (ev : list uev) (cl : list call),
    reachable c s -> step c s o = Some (s', ev, cl) -> iso s s' (op_peer o) ev cl.
Proof.

  intros c s o s' ev cl R S. destruct (reachable_inv3 c s R) as (I & T & K). eapply step_iso; eauto.
Qed.

Lemma C11_runs_are_reachable_pf :
  forall (c : cfg) (ops : list op) (x : st * list uev * list call),
    In x (fst (run c init ops)) -> reachable c (fst (fst x)).
Proof.
 intros c ops. apply run_reachable. constructor.
Qed.

Lemma C11_quiescent_nothing_owed_pf :
  forall (c : cfg) (ops : list op) (s : st) (owed : peer -> bool) (p : peer),
    ledger_env c init ops = true -> ledger c init (fun _ => false) ops = Some (s, owed) ->
    obligation s p = false -> owed p = false.
Proof.

  intros c ops s owed p E R Q. destruct (owed p) eqn:O; auto.
  destruct (open_answered _ _ _ _ E R p O). congruence.
Qed.

Lemma C11_at_most_one_answer_pf :
  forall (c : cfg) (s : st) (o : op) (s' : st) (ev : list uev) (cl : list call) (q : peer),
    step c s o = Some (s', ev, cl) -> (length (answers q ev) <= 1)%nat.
Proof.
 intros. eapply answers_step; eauto.
Qed.

Lemma reachable_B3 c s : reachable c s -> B3 s.
Proof.
  intros R. assert (X : SInv s /\ B3 s).
  { induction R as [|s o s' ev cl R [I B] S].
    - split; [apply SInv_init|apply B3_init].
    - split; [|eapply step_B3; eauto].
      destruct (step_SInv c s o I) as (s2 & e2 & c2 & E & I2). rewrite E in S. injection S as <- _ _. exact I2. }
  apply X.
Qed.

Lemma C11_no_dead_substream_id_pf :
  forall (c : cfg) (s : st), reachable c s ->
    (forall p x, (ps s p = Some (OutInit x) \/ exists d i, ps s p = Some (Validating d (OInit x) i)) -> In (x, p) (spend s)) /\
    (forall x q, In (x, q) (pend s) -> In (x, q) (spend s)).
Proof.
  intros c s R. destruct (reachable_B3 c s R) as [B P]. split; auto.
  intros p x [H|(d & i & H)]; apply B; rewrite H; reflexivity.
Qed.

Lemma C11_open_answered_before_fix_refuted_pf :
  exists (c : cfg) (pre : list op) (s s' : st),
    exec c init pre = Some s /\ ledger_env c init pre = true /\ hopen s 0 = false /\
    ps s 0 = Some (Closed (Some 0)) /\ pend_find 0 (pend s) = None /\ spend s = [] /\
    on_open_old c s 0 = Some (s', [], []) /\ in_progress (ps s' 0) = true /\ obligation s' 0 = false /\
    exists s2, on_open c s 0 = Some (s2, [], [COpen 0 1]) /\ obligation s2 0 = true.
Proof.
  exists cfg_w0, w_failed_pre.
  pose proof failed_id_before_fix as W.
  destruct (exec cfg_w0 init w_failed_pre) as [s|] eqn:E; [|discriminate W].
  destruct (on_open_old cfg_w0 s 0) as [[[s' ev] cl]|] eqn:E1; [|discriminate W].
  destruct (on_open cfg_w0 s 0) as [[[s2 ev2] cl2]|] eqn:E2; [|discriminate W].
  injection W as W1 W2 W3 W4 W5 W6 W7 W8 W9 W10 W11 W12 W13 W14. subst.
  exists s, s'. repeat split; auto. exists s2. split; auto.
Qed.

Lemma C11_open_answered_class3_refuted_pf :
  exists (c : cfg) (ops : list op) (s : st) (owed : peer -> bool),
    ledger c init (fun _ => false) ops = Some (s, owed) /\ owed 0 = true /\ in_progress (ps s 0) = false.
Proof.

  exists cfg_w0, w_reject.
  destruct (ledger cfg_w0 init (fun _ => false) w_reject) as [[s owed]|] eqn:E.
  - exists s, owed. split; auto. pose proof w_reject_check as W. rewrite E in W. inversion W. auto.
  - pose proof w_reject_check as W. rewrite E in W. discriminate.
Qed.


Lemma C11_stale_timer_cancels_newer_attempt_refuted_pf :
  exists s1 s2 s3 ev cl,
    exec cfg_wt init w_stale_pre = Some s1 /\ ps s1 0 = Some (Closed None) /\ timers s1 = [0] /\
    exec cfg_wt s1 w_stale_post = Some s2 /\ waiting (ps s2 0) = true /\ timers s2 = [0; 0] /\
    step cfg_wt s2 (Timer 0) = Some (s3, ev, cl) /\ ev = [UFail 0 E_REJECTED] /\ cl = [CForce 0] /\
    timers s3 = [0].
Proof.
  pose proof stale_timer_cancels_newer_attempt as X.
  destruct (exec cfg_wt init w_stale_pre) as [s1|] eqn:E1; [|discriminate X].
  destruct (exec cfg_wt s1 w_stale_post) as [s2|] eqn:E2; [|discriminate X].
  destruct (step cfg_wt s2 (Timer 0)) as [[[s3 ev] cl]|] eqn:E3; [|discriminate X].
  injection X as X1 X2 X3 X4 X5 X6 X7 X8.
  exists s1, s2, s3, ev, cl. subst. repeat split; auto.
Qed.

Lemma reachable_GSInv c s : reachable c s -> GSInv s.
Proof.
  induction 1 as [|s o s' ev cl R G S]; [apply GS_init|eapply step_GS; eauto].
Qed.

Lemma C11_lazy_queue_lifecycle_only_pf : forall (c : cfg) (cap : nat) (gs : list lop) x,
  In x (fst (lrun c cap linit gs)) -> Forall not_notif (lq (fst (fst x))).
Proof. intros c cap gs. apply lrun_nn. constructor. Qed.

Lemma C11_lazy_no_stuck_pf : forall (c : cfg) (cap : nat) (gs : list lop), snd (lrun c cap linit gs) = true.
Proof. intros. apply lrun_nostuck. apply SInv_init. Qed.

Lemma C11_event_channel_no_loss_pf : forall (c : cfg) (cap : nat) (gs : list lop),
  ltaken_run c cap linit gs ++ lq (lfinal c cap linit gs) = lemitted_run c cap linit gs.
Proof. intros. apply (lrun_fifo c cap gs linit). apply SInv_init. Qed.

Lemma C11_capacity_only_delays_pf : forall (c : cfg) (cap1 cap2 : nat) (gs : list lop),
  never_blocked c cap1 linit gs = true -> never_blocked c cap2 linit gs = true ->
  map (fun x => (lcore (fst (fst x)), snd (fst x))) (fst (lrun c cap1 linit gs)) =
  map (fun x => (lcore (fst (fst x)), snd (fst x))) (fst (lrun c cap2 linit gs)) /\
  snd (lrun c cap1 linit gs) = snd (lrun c cap2 linit gs).
Proof. intros. apply lrun_cap; auto. Qed.

(* a parked handler: capacity 1, the user does not poll: the OpenFailure of the timer arm waits behind
   an unread ValidateSubstream, force_close is held back and released by the poll that makes room *)
Definition w_parked : list lop :=
  [LOp (Established 0); LOp (Established 1); LOp (SubIn 1); LOp (HsIn 1 true);
   LOp (CmdOpen 0); LOp (SubOut 0); LOp (HsOut 0 true); LOp (Timer 0); LOp (SubIn 0); LPoll; LPoll].

(* a notification of stream period 0 is still queued in the handle when the user, polling late, is handed
   Closed and then the Opened of period 1 *)
Definition w_stale_notif : list lop :=
  [LOp (Established 0); LOp (CmdOpen 0); LOp (SubOut 0); LOp (HsOut 0 true); LOp (SubIn 0); LOp (HsIn 0 true);
   LOp (HsIn 0 true); LPoll; LOp (Notify 0); LOp (TaskDie 0 false); LOp (SubIn 0); LOp (HsIn 0 true); LPoll; LPoll;
   LOp (Validate 0 true); LOp (SubOut 0); LOp (HsOut 0 true); LOp (HsIn 0 true); LPoll; LPoll].
