(* C11 — proofs about the model. *)
From Coq Require Import List NArith Bool Lia.
From V.C11 Require Import Model.
Import ListNotations.
Open Scope N_scope.

Arguments N.add : simpl never.
Arguments N.eqb : simpl never.

(* ------------------------------------------------------------------ basics *)
Lemma upd_same {A} (f : peer -> A) p v : upd f p v p = v.
Proof. unfold upd. now rewrite N.eqb_refl. Qed.
Lemma upd_other {A} (f : peer -> A) p v q : q <> p -> upd f p v q = f q.
Proof. unfold upd. intros H. destruct (q =? p) eqn:E; auto. apply N.eqb_eq in E. contradiction. Qed.

Definition is_open (x : option pstate) : bool := match x with Some (Open _) => true | _ => false end.

(* the event grammar per peer: Opened only when closed, Closed only when opened, no OpenFailure
   while opened; ValidateSubstream anywhere *)
Fixpoint grammar (h : peer -> bool) (l : list uev) : option (peer -> bool) :=
  match l with
  | [] => Some h
  | UOpened p _ :: t => if h p then None else grammar (upd h p true) t
  | UClosed p :: t => if h p then grammar (upd h p false) t else None
  | UFail p _ :: t => if h p then None else grammar h t
  | UValidate _ :: t => grammar h t
  | UNotif p :: t => if h p then grammar h t else None
  end.

Lemma grammar_app h l1 l2 :
  grammar h (l1 ++ l2) = match grammar h l1 with Some h1 => grammar h1 l2 | None => None end.
Proof.
  revert h. induction l1 as [|e l1 IH]; intros h; cbn [app grammar]; auto.
  destruct e; try destruct (h p); auto.
Qed.

(* events that neither open nor close a stream and only report failures for peers whose stream
   is not open *)
Definition quiet_ev (s : st) (e : uev) : Prop :=
  match e with
  | UFail q _ => is_open (ps s q) = false
  | UValidate _ => True
  | _ => False
  end.

Definition same_open (s s' : st) : Prop :=
  forall q k, ps s' q = Some (Open k) <-> ps s q = Some (Open k).

Definition quiet (s : st) (r : res) : Prop :=
  match r with
  | None => True
  | Some (s', ev, _) =>
      tasks s' = tasks s /\ lastt s' = lastt s /\ ntask s' = ntask s /\ hopen s' = hopen s /\
      same_open s s' /\ Forall (quiet_ev s) ev
  end.

Lemma same_open_refl s : same_open s s.
Proof. intros q k. tauto. Qed.

Ltac setters :=
  cbn [ps pend hsI hsO hopen hval conn dead nsid spend tasks ntask lastt
       set_ps set_pend set_hsI set_hsO set_hopen set_hval set_conn set_dead set_nsid set_spend set_tasks spawn_task] in *.

Ltac so_tac :=
  let q := fresh "q" in let k := fresh "k" in let E := fresh "E" in
  unfold same_open; intros q k; setters; unfold upd;
  repeat match goal with
         | |- context [q =? ?p] => destruct (q =? p) eqn:E; [apply N.eqb_eq in E; subst q|]
         end;
  (split; intros; first [congruence | tauto | assumption]).

Ltac ev_tac :=
  repeat constructor; cbn [quiet_ev is_open]; auto;
  try match goal with H : ps _ ?p = _ |- is_open (ps _ ?p) = false => rewrite H; reflexivity end.

Ltac quiet_tac :=
  unfold quiet, ok, ok_ev; setters;
  refine (conj _ (conj _ (conj _ (conj _ (conj _ _)))));
  [reflexivity | reflexivity | reflexivity | reflexivity | so_tac | ev_tac].

Lemma svc_open_ps s p s1 r : svc_open s p = (s1, r) ->
  ps s1 = ps s /\ tasks s1 = tasks s /\ lastt s1 = lastt s /\ ntask s1 = ntask s /\ hopen s1 = hopen s.
Proof.
  unfold svc_open. destruct (conn s p); [destruct (dead s p)|]; intros H; inversion H; subst; setters; repeat split; auto.
Qed.

(* replace the state after svc_open by facts about its fields *)
Ltac svc_tac s p :=
  let s1 := fresh "s1" in let r := fresh "r" in let Hs := fresh "Hs" in
  destruct (svc_open s p) as [s1 r] eqn:Hs; apply svc_open_ps in Hs;
  let H1 := fresh "H1" in let H2 := fresh "H2" in let H3 := fresh "H3" in let H4 := fresh "H4" in let H5 := fresh "H5" in
  destruct Hs as (H1 & H2 & H3 & H4 & H5);
  destruct r; unfold quiet, ok, ok_ev; setters; rewrite ?H1, ?H2, ?H3, ?H4, ?H5;
  (refine (conj _ (conj _ (conj _ (conj _ (conj _ _)))));
   [reflexivity | reflexivity | reflexivity | reflexivity | so_tac | ev_tac]).

Lemma quiet_on_open c s p : quiet s (on_open c s p).
Proof.
  unfold on_open. destruct (ps s p) as [x|] eqn:Hp.
  - destruct x as [|b|po| |y|d o i|k]; try (quiet_tac; fail).
    destruct po as [y|]; [quiet_tac|]. svc_tac s p.
  - destruct (should_dial c); cbn [negb]; [destruct (dialable c p)|]; quiet_tac.
Qed.

Lemma same_open_is_open s s' r : same_open s s' -> is_open (ps s' r) = is_open (ps s r).
Proof.
  intros H. destruct (ps s' r) as [[]|] eqn:E1; destruct (ps s r) as [[]|] eqn:E2; cbn; auto;
    try (apply H in E1; congruence); try (apply H in E2; congruence).
Qed.

Lemma quiet_trans s s' r :
  tasks s' = tasks s -> lastt s' = lastt s -> ntask s' = ntask s -> hopen s' = hopen s ->
  same_open s s' -> quiet s' r -> quiet s r.
Proof.
  intros T L N0 HO SO Q. destruct r as [[[s2 ev] cl]|]; cbn in *; auto.
  destruct Q as (Q1 & Q2 & Q3 & Q4 & Q5 & Q6).
  refine (conj _ (conj _ (conj _ (conj _ (conj _ _))))); try congruence.
  - intros q0 k0. rewrite (Q5 q0 k0). apply SO.
  - eapply Forall_impl; [|exact Q6]. intros e He. destruct e; cbn in *; auto.
    rewrite <- (same_open_is_open s s'); auto.
Qed.

Lemma quiet_on_established c s p : quiet s (on_established c s p).
Proof.
  unfold on_established. destruct (ps s p) as [x|] eqn:Hp.
  - destruct x as [|b|po| |y|d o i|k]; try exact I.
    + destruct b; [exact I|quiet_tac].
    + eapply quiet_trans; [| | | | |apply quiet_on_open]; setters; auto. so_tac.
  - quiet_tac.
Qed.

Lemma quiet_on_sub_out s p x : quiet s (on_sub_out s p x).
Proof.
  unfold on_sub_out. destruct (ps s p) as [stt|] eqn:Hp; [|exact I].
  destruct stt as [|b|po| |y|d o i|k]; try exact I.
  - destruct po as [y|]; [|exact I]. destruct (y =? x); [quiet_tac|exact I].
  - destruct ((y =? x) && _); [quiet_tac|exact I].
  - destruct i; try (quiet_tac; fail); destruct o as [|y| |]; try exact I; destruct (y =? x); try exact I; quiet_tac.
Qed.

Lemma quiet_on_sub_in s p : quiet s (on_sub_in s p).
Proof.
  unfold on_sub_in. destruct (ps s p) as [stt|] eqn:Hp; [|exact I].
  destruct stt as [|b|po| |y|d o i|k]; try (quiet_tac; fail).
  - destruct po; quiet_tac.
  - destruct o, i; quiet_tac.
Qed.

Lemma quiet_on_open_fail s x : quiet s (on_open_fail s x).
Proof.
  unfold on_open_fail. destruct (pend_find x (pend s)) as [p|]; [|exact I]. setters.
  destruct (ps s p) as [stt|] eqn:Hp; [|exact I].
  destruct stt as [|b|po| |y|d o i|k]; try exact I.
  - destruct po as [y|]; [|exact I]. destruct (y =? x); [quiet_tac|exact I].
  - quiet_tac.
  - destruct o; quiet_tac.
Qed.

Lemma quiet_on_dial_fail s p : quiet s (on_dial_fail s p).
Proof.
  unfold on_dial_fail. destruct (ps s p) as [stt|] eqn:Hp; [|quiet_tac].
  destruct stt; quiet_tac.
Qed.

Lemma quiet_on_validation s p a : quiet s (on_validation s p a).
Proof.
  unfold on_validation. destruct (ps s p) as [stt|] eqn:Hp; [|quiet_tac].
  destruct stt as [|b|po| |y|d o i|k]; try (quiet_tac; fail).
  - destruct b, a; quiet_tac.
  - destruct i; try (quiet_tac; fail). destruct a; [|quiet_tac].
    destruct o; try (quiet_tac; fail). svc_tac s p.
Qed.

Lemma quiet_on_hs_err s p : quiet s (on_hs_err s p).
Proof.
  unfold on_hs_err. destruct (ps s p) as [stt|] eqn:Hp; [|exact I].
  destruct stt as [|b|po| |y|d o i|k]; try exact I.
  destruct o; cbn [o_closed pending_open]; quiet_tac.
Qed.

Lemma quiet_on_timer s p : quiet s (on_timer s p).
Proof.
  unfold on_timer. destruct (ps s p) as [stt|] eqn:Hp; [|quiet_tac].
  destruct stt as [|b|po| |y|d o i|k]; try (quiet_tac; fail).
  destruct o; try (quiet_tac; fail). destruct i; quiet_tac.
Qed.

(* ------------------------------------------------------------------ task list facts *)
Lemma find_task_some k l t : find_task k l = Some t -> In t l /\ t_id t = k.
Proof.
  induction l as [|a l IH]; cbn; [discriminate|].
  destruct (t_id a =? k) eqn:E.
  - intros H; inversion H; subst. apply N.eqb_eq in E. auto.
  - intros H. destruct (IH H). auto.
Qed.

Lemma find_task_in l t : In t l -> exists t', find_task (t_id t) l = Some t'.
Proof.
  induction l as [|a l IH]; cbn; [tauto|]. intros [->|H].
  - rewrite N.eqb_refl. eauto.
  - destruct (t_id a =? t_id t); eauto.
Qed.

Lemma nodup_id_eq l t1 t2 :
  NoDup (map t_id l) -> In t1 l -> In t2 l -> t_id t1 = t_id t2 -> t1 = t2.
Proof.
  induction l as [|a l IH]; cbn; [tauto|]. intros ND. inversion ND as [|x y Hn ND']; subst.
  intros [->|H1] [->|H2] E; auto.
  - exfalso. apply Hn. rewrite E. now apply in_map.
  - exfalso. apply Hn. rewrite <- E. now apply in_map.
Qed.

Lemma in_remove t k l : In t (remove_task k l) <-> In t l /\ t_id t <> k.
Proof.
  unfold remove_task. rewrite filter_In. split; intros [H1 H2]; split; auto.
  - intros E. rewrite E, N.eqb_refl in H2. discriminate.
  - destruct (t_id t =? k) eqn:E; auto. apply N.eqb_eq in E. contradiction.
Qed.

Lemma find_task_remove k l : find_task k (remove_task k l) = None.
Proof.
  destruct (find_task k (remove_task k l)) eqn:E; auto.
  apply find_task_some in E. destruct E as [H1 H2]. apply in_remove in H1. tauto.
Qed.

Lemma nodup_remove k l : NoDup (map t_id l) -> NoDup (map t_id (remove_task k l)).
Proof.
  induction l as [|a l IH]; cbn; auto. intros ND. inversion ND as [|x y Hn ND']; subst.
  destruct (negb (t_id a =? k)); cbn; auto. constructor; auto.
  intros H. apply Hn. apply in_map_iff in H. destruct H as (t & E & Ht).
  apply in_remove in Ht. rewrite <- E. apply in_map. tauto.
Qed.

Lemma NoDup_app_single {A} (l : list A) x : NoDup l -> ~ In x l -> NoDup (l ++ [x]).
Proof.
  induction l as [|a l IH]; cbn; intros ND Hn.
  - constructor; auto.
  - inversion ND as [|y z Hy ND']; subst. constructor.
    + intros H. apply in_app_or in H. destruct H as [H|[H|[]]]; auto.
    + apply IH; auto.
Qed.

(* ------------------------------------------------------------------ prompt environment *)
Definition prompt_op (o : op) : bool :=
  match o with Gate _ => false | TaskDie _ g | NotifyDie _ g => negb g | _ => true end.

Record AInv (s : st) (h : peer -> bool) : Prop := mkAInv {
  a_task : forall t, In t (tasks s) ->
             t_closing t = None /\ t_gated t = false /\ ps s (t_peer t) = Some (Open (t_id t)) /\
             t_id t < ntask s /\ lastt s (t_peer t) = Some (t_id t);
  a_nodup : NoDup (map t_id (tasks s));
  a_open : forall p k, ps s p = Some (Open k) -> exists t, In t (tasks s) /\ t_id t = k /\ t_peer t = p;
  a_last : forall p k, lastt s p = Some k -> k < ntask s /\ forall t, In t (tasks s) -> t_id t = k -> t_peer t = p;
  a_h : forall p, h p = is_open (ps s p);
  a_hopen : forall p, hopen s p = h p
}.

Lemma AInv_init : AInv init (fun _ => false).
Proof. constructor; cbn; intros; try tauto; try discriminate; auto. constructor. Qed.

Lemma AInv_quiet s s' h :
  AInv s h -> tasks s' = tasks s -> lastt s' = lastt s -> ntask s' = ntask s -> hopen s' = hopen s ->
  same_open s s' -> AInv s' h.
Proof.
  intros [A1 A2 A3 A4 A5 A6] T L N0 HO SO. constructor; rewrite ?T, ?L, ?N0, ?HO; auto.
  - intros t Ht. destruct (A1 t Ht) as (B1 & B2 & B3 & B4 & B5). repeat split; auto. now apply SO.
  - intros p k Hk. apply SO in Hk. auto.
  - intros p. rewrite A5. symmetry. now apply same_open_is_open.
Qed.

Lemma grammar_quiet s h ev :
  (forall p, h p = is_open (ps s p)) -> Forall (quiet_ev s) ev -> grammar h ev = Some h.
Proof.
  intros Hh. induction 1 as [|e l He _ IH]; cbn; auto.
  destruct e; cbn in He; try tauto; auto. rewrite Hh, He. auto.
Qed.

Lemma drain_quiet s0 ev : Forall (quiet_ev s0) ev -> forall s1 s2 l ks,
  drain s1 ev = (s2, l, ks) ->
  ks = [] /\ ps s2 = ps s1 /\ tasks s2 = tasks s1 /\ lastt s2 = lastt s1 /\ ntask s2 = ntask s1 /\
  hopen s2 = hopen s1 /\ hsI s2 = hsI s1.
Proof.
  induction 1 as [|e t He _ IH]; intros s1 s2 l ks; cbn.
  - intros H; inversion H; subst. repeat split; auto.
  - destruct e; cbn in He; try tauto.
    + destruct (hval s1 p).
      * destruct (drain s1 t) as [[a b] c] eqn:E. intros H; inversion H; subst. eapply IH; eauto.
      * intros H. apply IH in H. setters. exact H.
    + intros H. eapply IH; eauto.
Qed.

Lemma on_validation_reject_ev s p s' ev cl : on_validation s p false = Some (s', ev, cl) -> ev = [].
Proof.
  unfold on_validation. destruct (ps s p) as [stt|]; [|intros H; inversion H; auto].
  destruct stt as [|b|po| |y|d o i|k]; try (intros H; inversion H; auto; fail).
  - destruct b; intros H; inversion H; auto.
  - destruct i; intros H; inversion H; auto.
Qed.

Lemma quiet_seq s s1 e1 c1 s2 e2 c2 :
  quiet s (Some (s1, e1, c1)) -> quiet s1 (Some (s2, e2, c2)) -> quiet s (Some (s2, e1 ++ e2, c1 ++ c2)).
Proof.
  intros Q1 Q2. pose proof Q1 as (T & L & N0 & HO & SO & F1).
  pose proof (quiet_trans s s1 (Some (s2, e2, c2)) T L N0 HO SO Q2) as (T2 & L2 & N2 & HO2 & SO2 & F2).
  cbn. refine (conj _ (conj _ (conj _ (conj _ (conj _ _))))); auto. apply Forall_app; auto.
Qed.

Lemma dropped_quiet l : forall s s' ev cl,
  dropped_validations s l = Some (s', ev, cl) -> quiet s (Some (s', ev, cl)) /\ ev = [].
Proof.
  induction l as [|p l IH]; intros s s' ev cl; cbn.
  - intros H; inversion H; subst. split; auto. cbn. repeat split; auto using same_open_refl.
  - pose proof (quiet_on_validation s p false) as Q.
    destruct (on_validation s p false) as [[[s1 e1] c1]|] eqn:E1; [|discriminate].
    apply on_validation_reject_ev in E1 as ->.
    destruct (dropped_validations s1 l) as [[[s2 e2] c2]|] eqn:E2; [|discriminate].
    intros H; inversion H; subst. destruct (IH _ _ _ _ E2) as [Q2 ->]. split; auto.
    apply (quiet_seq s s1 [] c1 s' [] c2); auto.
Qed.

(* a step whose main handler is quiet keeps the invariant and the grammar state *)
Lemma grammar_notifs h l : (forall q, In q l -> h q = true) -> grammar h (map UNotif l) = Some h.
Proof.
  induction l as [|a l IH]; cbn; auto. intros H. rewrite (H a) by auto. apply IH. auto.
Qed.

Lemma filter_all {A} (f : A -> bool) l : (forall x, In x l -> f x = true) -> filter f l = l.
Proof.
  induction l as [|a l IH]; cbn; auto. intros H. rewrite (H a) by auto. rewrite IH; auto.
Qed.

Lemma filter_none {A} (f : A -> bool) l : (forall x, In x l -> f x = false) -> filter f l = [].
Proof.
  induction l as [|a l IH]; cbn; auto. intros H. rewrite (H a) by auto. apply IH; auto.
Qed.

Lemma step_of_quiet c s o h s1 ev calls s' ev' calls' :
  AInv s h -> (forall q, In q (notifs_of s o) -> h q = true) ->
  main_handler c s o = Some (s1, ev, calls) -> quiet s (Some (s1, ev, calls)) ->
  step c s o = Some (s', ev', calls') -> grammar h ev' = Some h /\ AInv s' h.
Proof.
  intros A NF M Q. unfold step. rewrite M.
  destruct Q as (T & L & N0 & HO & SO & F).
  destruct (drain s1 ev) as [[s2 dr] ks] eqn:D.
  destruct (drain_quiet s ev F _ _ _ _ D) as (-> & P2 & T2 & L2 & N2 & HO2 & _).
  rewrite filter_all by (intros q Hq; rewrite HO2, HO; destruct A as [_ _ _ _ _ A6]; rewrite A6; auto).
  destruct (dropped_validations s2 dr) as [[[s3 ev3] calls3]|] eqn:DV; [|discriminate].
  destruct (dropped_quiet _ _ _ _ _ DV) as [Q3 ->]. cbn [kill_tasks app drain].
  intros H; inversion H; subst. rewrite app_nil_r.
  destruct Q3 as (T3 & L3 & N3 & HO3 & SO3 & _).
  split.
  - rewrite grammar_app. erewrite grammar_quiet; eauto; [|apply A]. now apply grammar_notifs.
  - eapply AInv_quiet; eauto; try congruence.
    intros q k. rewrite (SO3 q k). rewrite P2. apply SO.
Qed.

(* ---- a step that ends the open stream of p ---- *)
Definition closes (s : st) (p : peer) (s1 : st) : Prop :=
  exists k, ps s p = Some (Open k) /\ tasks s1 = remove_task k (tasks s) /\ lastt s1 = lastt s /\
            ntask s1 = ntask s /\ hopen s1 = hopen s /\ is_open (ps s1 p) = false /\
            (forall q, q <> p -> ps s1 q = ps s q).

Lemma AInv_closes s h p s1 :
  AInv s h -> closes s p s1 -> AInv (set_hopen s1 p false) (upd h p false) /\ h p = true /\
  (exists k, lastt s1 p = Some k /\ running s1 k = false) /\ hopen s1 p = true.
Proof.
  intros [A1 A2 A3 A4 A5 A6] (k & Hp & T & L & N0 & HO & NO & FR).
  destruct (A3 p k Hp) as (t0 & In0 & Id0 & Pe0).
  destruct (A1 t0 In0) as (_ & _ & _ & _ & La0). rewrite Pe0, Id0 in La0.
  assert (Hh : h p = true) by (rewrite A5, Hp; reflexivity).
  split; [|split; [auto|split]].
  - constructor; setters; rewrite ?T, ?L, ?N0.
    + intros t Ht. apply in_remove in Ht. destruct Ht as [Ht Hne].
      destruct (A1 t Ht) as (B1 & B2 & B3 & B4 & B5). repeat split; auto.
      rewrite FR; auto. intros E. rewrite E, Hp in B3. inversion B3. congruence.
    + now apply nodup_remove.
    + intros q k' Hq. assert (q <> p) by (intros ->; rewrite Hq in NO; discriminate).
      rewrite FR in Hq by auto. destruct (A3 q k' Hq) as (t & In1 & Id1 & Pe1).
      exists t. repeat split; auto. apply in_remove. split; auto. intros E.
      assert (t = t0) by (eapply nodup_id_eq; eauto; congruence). subst t. congruence.
    + intros q k' Hq. destruct (A4 q k' Hq) as [B1 B2]. split; auto.
      intros t Ht. apply in_remove in Ht. apply B2. tauto.
    + intros q. unfold upd. destruct (q =? p) eqn:E.
      * apply N.eqb_eq in E. subst q. now rewrite NO.
      * apply N.eqb_neq in E. rewrite FR by auto. apply A5.
    + intros q. rewrite HO. unfold upd. destruct (q =? p); auto.
  - exists k. rewrite L. split; auto. unfold running. rewrite T, find_task_remove. reflexivity.
  - rewrite HO, A6. exact Hh.
Qed.

Lemma step_of_closes c s o h p s1 calls s' ev' calls' :
  AInv s h -> (forall q, In q (notifs_of s o) -> q = p) ->
  main_handler c s o = Some (s1, [UClosed p], calls) -> closes s p s1 ->
  step c s o = Some (s', ev', calls') ->
  grammar h ev' = Some (upd h p false) /\ AInv s' (upd h p false).
Proof.
  intros A NF M C. unfold step. rewrite M.
  destruct (AInv_closes s h p s1 A C) as (A' & Hh & (k & Lk & Rk) & HO).
  cbn [drain]. rewrite HO, Lk, Rk.
  rewrite filter_none by (intros q Hq; apply NF in Hq; subst q; setters; apply upd_same).
  cbn [map app dropped_validations ok kill_tasks drain].
  intros H; inversion H; subst. cbn [app grammar]. rewrite Hh. auto.
Qed.

(* ---- a step that opens a stream to p ---- *)
Definition opens (s : st) (p : peer) (s1 : st) : Prop :=
  is_open (ps s p) = false /\ ps s1 p = Some (Open (ntask s)) /\
  tasks s1 = tasks s ++ [mkTask (ntask s) p None false] /\
  lastt s1 = upd (lastt s) p (Some (ntask s)) /\ ntask s1 = ntask s + 1 /\ hopen s1 = hopen s /\
  (forall q, q <> p -> ps s1 q = ps s q).

Lemma AInv_opens s h p s1 :
  AInv s h -> opens s p s1 -> AInv (set_hopen s1 p true) (upd h p true) /\ h p = false.
Proof.
  intros [A1 A2 A3 A4 A5 A6] (NO & Hp & T & L & N0 & HO & FR).
  assert (Hh : h p = false) by (rewrite A5; exact NO).
  assert (Fresh : forall t, In t (tasks s) -> t_id t <> ntask s /\ t_peer t <> p).
  { intros t Ht. destruct (A1 t Ht) as (_ & _ & B3 & B4 & _). split; [lia|].
    intros E. rewrite E in B3. rewrite B3 in NO. discriminate. }
  split; auto. constructor; setters; rewrite ?T, ?L, ?N0.
  - intros t Ht. apply in_app_or in Ht. destruct Ht as [Ht|[<-|[]]].
    + destruct (A1 t Ht) as (B1 & B2 & B3 & B4 & B5). destruct (Fresh t Ht) as [F1 F2].
      repeat split; auto; try lia. rewrite FR; auto. rewrite upd_other; auto.
    + cbn. repeat split; auto; try lia. now rewrite upd_same.
  - rewrite map_app. cbn. apply NoDup_app_single; auto.
    intros H. apply in_map_iff in H. destruct H as (t & E & Ht). destruct (Fresh t Ht). congruence.
  - intros q k Hq. destruct (N.eq_dec q p) as [->|Hne].
    + rewrite Hp in Hq. inversion Hq; subst. eexists. split; [apply in_or_app; right; left; reflexivity|]. auto.
    + rewrite FR in Hq by auto. destruct (A3 q k Hq) as (t & In1 & Id1 & Pe1).
      exists t. repeat split; auto. apply in_or_app. auto.
  - intros q k Hq. destruct (N.eq_dec q p) as [->|Hne].
    + rewrite upd_same in Hq. inversion Hq; subst. split; [lia|].
      intros t Ht Id. apply in_app_or in Ht. destruct Ht as [Ht|[<-|[]]]; auto.
      destruct (Fresh t Ht). contradiction.
    + rewrite upd_other in Hq by auto. destruct (A4 q k Hq) as [B1 B2]. split; [lia|].
      intros t Ht Id. apply in_app_or in Ht. destruct Ht as [Ht|[<-|[]]]; auto.
      cbn in Id. lia.
  - intros q. unfold upd. destruct (q =? p) eqn:E.
    + apply N.eqb_eq in E. subst q. now rewrite Hp.
    + apply N.eqb_neq in E. rewrite FR by auto. apply A5.
  - intros q. rewrite HO. unfold upd. destruct (q =? p); auto.
Qed.

Lemma step_of_opens c s o h p d s1 calls s' ev' calls' :
  AInv s h -> notifs_of s o = [] -> main_handler c s o = Some (s1, [UOpened p d], calls) -> opens s p s1 ->
  step c s o = Some (s', ev', calls') ->
  grammar h ev' = Some (upd h p true) /\ AInv s' (upd h p true).
Proof.
  intros A NF M C. unfold step. rewrite M, NF. cbn [filter map].
  destruct (AInv_opens s h p s1 A C) as (A' & Hh).
  cbn [drain app dropped_validations ok kill_tasks].
  intros H; inversion H; subst. cbn [app grammar]. rewrite Hh. auto.
Qed.

Inductive shape (s : st) : res -> Prop :=
| sh_none : shape s None
| sh_quiet s1 ev cl : quiet s (Some (s1, ev, cl)) -> shape s (Some (s1, ev, cl))
| sh_closes p s1 cl : closes s p s1 -> shape s (Some (s1, [UClosed p], cl))
| sh_opens p d s1 cl : opens s p s1 -> shape s (Some (s1, [UOpened p d], cl)).

Lemma shape_of_quiet s r : quiet s r -> shape s r.
Proof. destruct r as [[[s1 ev] cl]|]; intros; constructor; auto. Qed.

(* the frame: fields the invariant does not look at may differ *)
Definition same_core (s s0 : st) : Prop :=
  ps s0 = ps s /\ tasks s0 = tasks s /\ lastt s0 = lastt s /\ ntask s0 = ntask s /\ hopen s0 = hopen s.

Lemma quiet_frame s s0 r : same_core s s0 -> quiet s0 r -> quiet s r.
Proof.
  intros (P & T & L & N0 & HO) Q. eapply quiet_trans; eauto.
  intros q k. rewrite P. tauto.
Qed.

Lemma closes_frame s s0 p s1 : same_core s s0 -> closes s0 p s1 -> closes s p s1.
Proof.
  intros (P & T & L & N0 & HO) (k & H1 & H2 & H3 & H4 & H5 & H6 & H7).
  exists k. rewrite <- P, <- T, <- L, <- N0, <- HO. repeat split; auto.
Qed.

Lemma opens_frame s s0 p s1 : same_core s s0 -> opens s0 p s1 -> opens s p s1.
Proof.
  intros (P & T & L & N0 & HO) (H1 & H2 & H3 & H4 & H5 & H6 & H7).
  unfold opens. rewrite <- P, <- T, <- L, <- N0, <- HO. repeat split; auto.
Qed.

Lemma shape_frame s s0 r : same_core s s0 -> shape s0 r -> shape s r.
Proof.
  intros C H. destruct H.
  - constructor.
  - apply sh_quiet. eapply quiet_frame; eauto.
  - apply sh_closes. eapply closes_frame; eauto.
  - apply sh_opens. eapply opens_frame; eauto.
Qed.

Lemma signal_open s h s0 p k :
  AInv s h -> ps s p = Some (Open k) -> tasks s0 = tasks s ->
  signal s0 k = (set_tasks s0 (remove_task k (tasks s)), [UClosed p]).
Proof.
  intros [A1 A2 A3 A4 A5 A6] Hp T.
  destruct (A3 p k Hp) as (t0 & In0 & Id0 & Pe0).
  destruct (find_task_in _ _ In0) as (t' & F). rewrite Id0 in F.
  destruct (find_task_some _ _ _ F) as [In1 Id1].
  assert (t' = t0) by (eapply nodup_id_eq; eauto; congruence). subst t'.
  destruct (A1 t0 In0) as (B1 & B2 & _).
  unfold signal. rewrite T, F, B1, B2, Pe0. reflexivity.
Qed.

Lemma shape_on_closed s h p : AInv s h -> shape s (on_closed s p).
Proof.
  intros A. unfold on_closed. setters.
  destruct (ps s p) as [x|] eqn:Hp; [|constructor].
  destruct x as [|b|po| |y|d o i|k]; try (apply sh_quiet; quiet_tac; fail).
  - destruct o, i; apply sh_quiet; quiet_tac.
  - erewrite (signal_open s h _ p k A Hp) by reflexivity.
    apply sh_closes. exists k. setters. repeat apply conj; auto.
    + now rewrite upd_same.
    + intros q Hq. now rewrite upd_other.
Qed.

Lemma shape_on_close s h p : AInv s h -> shape s (on_close s p).
Proof.
  intros A. unfold on_close.
  destruct (ps s p) as [x|] eqn:Hp; [|apply sh_quiet; quiet_tac].
  destruct x as [|b|po| |y|d o i|k]; try (apply sh_quiet; quiet_tac; fail).
  erewrite (signal_open s h s p k A Hp) by reflexivity.
  apply sh_closes. exists k. setters. repeat apply conj; auto.
  - now rewrite upd_same.
  - intros q Hq. now rewrite upd_other.
Qed.

Lemma shape_hs_finish s0 s p :
  tasks s = tasks s0 -> lastt s = lastt s0 -> ntask s = ntask s0 -> hopen s = hopen s0 ->
  is_open (ps s0 p) = false -> (forall q, q <> p -> ps s q = ps s0 q) ->
  is_open (ps s p) = false ->
  shape s0 (hs_finish s p).
Proof.
  intros T L N0 HO NO FR NO2. unfold hs_finish.
  assert (Q : quiet s0 (ok s)).
  { unfold quiet, ok. refine (conj _ (conj _ (conj _ (conj _ (conj _ _))))); auto.
    intros r k. destruct (N.eq_dec r p) as [->|Hne].
    - split; intros H; rewrite H in *; discriminate.
    - rewrite FR by auto. tauto. }
  destruct (ps s p) as [x|] eqn:Hp; [|apply sh_quiet; exact Q].
  destruct x as [|b|po| |y|d o i|k]; try (apply sh_quiet; exact Q).
  destruct o; try (apply sh_quiet; exact Q). destruct i; try (apply sh_quiet; exact Q).
  apply sh_opens. unfold opens, spawn_task. setters. rewrite T, L, N0, HO.
  repeat apply conj; auto.
  - now rewrite upd_same.
  - intros r Hr. rewrite upd_other; auto.
Qed.

Ltac finish_tac Hp :=
  apply shape_hs_finish; setters; auto;
  [ rewrite Hp; reflexivity
  | let r := fresh "r" in let Hr := fresh "Hr" in intros r Hr; now rewrite upd_other
  | now rewrite upd_same ].

Lemma shape_on_hs_out_ok s p : shape s (on_hs_out_ok s p).
Proof.
  unfold on_hs_out_ok. destruct (ps s p) as [x|] eqn:Hp; [|constructor].
  destruct x as [|b|po| |y|d o i|k]; try constructor.
  destruct o; try constructor. finish_tac Hp.
Qed.

Lemma shape_on_hs_in_ok c s p : shape s (on_hs_in_ok c s p).
Proof.
  unfold on_hs_in_ok. destruct (ps s p) as [x|] eqn:Hp; [|constructor].
  destruct x as [|b|po| |y|d o i|k]; try constructor.
  destruct i; try constructor.
  - destruct (negb (o_closed o) && auto_accept c); apply sh_quiet; quiet_tac.
  - finish_tac Hp.
Qed.

Lemma map_ungate_id p l :
  (forall t, In t l -> t_closing t = None /\ t_gated t = false) ->
  map (fun t => if t_peer t =? p then mkTask (t_id t) (t_peer t) (t_closing t) false else t) l = l.
Proof.
  induction l as [|a l IH]; cbn; auto. intros H. rewrite IH by auto.
  destruct (H a (or_introl eq_refl)) as [_ G]. destruct a as [i q cl g]; cbn in *. subst g.
  destruct (q =? p); reflexivity.
Qed.

Lemma finish_tasks_id p l :
  (forall t, In t l -> t_closing t = None /\ t_gated t = false) -> finish_tasks p l = (l, [], 0).
Proof.
  induction l as [|a l IH]; cbn; auto. intros H. rewrite IH by auto.
  destruct (H a (or_introl eq_refl)) as [C G]. rewrite C, G.
  destruct (t_peer a =? p); reflexivity.
Qed.

Lemma quiet_ok_frame s s0 : same_core s s0 -> quiet s (ok s0).
Proof.
  intros (P & T & L & N0 & HO). unfold quiet, ok.
  refine (conj _ (conj _ (conj _ (conj _ (conj _ _))))); auto. intros r k. rewrite P. tauto.
Qed.

Lemma shape_task_die s h p : AInv s h -> shape s (task_die_op s p false).
Proof.
  intros A. pose proof A as [A1 A2 A3 A4 A5 A6]. unfold task_die_op. cbn [orb].
  destruct (lastt s p) as [k|] eqn:Lk; [|apply sh_quiet; quiet_tac].
  destruct (find_task k (tasks s)) as [t|] eqn:F; [|apply sh_quiet; quiet_tac].
  destruct (find_task_some _ _ _ F) as [In1 Id1].
  destruct (A1 t In1) as (B1 & B2 & B3 & B4 & B5). rewrite B1, B2.
  destruct (A4 p k Lk) as [_ Pe]. specialize (Pe t In1 Id1). rewrite Pe, Id1 in B3.
  apply sh_closes. exists k. unfold on_shutdown. setters. rewrite B3.
  unfold task_closed. setters. rewrite find_task_remove. setters.
  repeat apply conj; auto.
  + now rewrite upd_same.
  + intros r Hr. now rewrite upd_other.
Qed.

Lemma main_shape c s o h : AInv s h -> prompt_op o = true -> shape s (main_handler c s o).
Proof.
  intros A PO. pose proof A as [A1 A2 A3 A4 A5 A6].
  destruct o as [p|p|p|p|p|p|p b|p b|p a|p|p|p|p|p g|p|p|p|p|p g]; cbn [main_handler].
  - destruct (conn s p); [apply sh_quiet; quiet_tac|].
    apply shape_of_quiet. eapply quiet_frame; [|apply quiet_on_established]. repeat split.
  - destruct (conn s p); [|apply sh_quiet; quiet_tac].
    apply (shape_frame s (set_spend (set_conn s p false) (drop_peer p (spend s)))); [repeat split|].
    apply (shape_on_closed _ h). eapply AInv_quiet; [exact A|..]; setters; auto. intros q0 k0; setters; tauto.
  - destruct (conn s p); apply shape_of_quiet; [apply quiet_on_sub_in|quiet_tac].
  - destruct (conn s p); [|apply sh_quiet; quiet_tac].
    destruct (first_req p (spend s)); [|apply sh_quiet; quiet_tac].
    apply shape_of_quiet. eapply quiet_frame; [|apply quiet_on_sub_out]. repeat split.
  - destruct (conn s p); [|apply sh_quiet; quiet_tac].
    destruct (first_req p (spend s)); [|apply sh_quiet; quiet_tac].
    apply shape_of_quiet. eapply quiet_frame; [|apply quiet_on_open_fail]. repeat split.
  - apply shape_of_quiet. apply quiet_on_dial_fail.
  - destruct (hsI s p); [|apply sh_quiet; quiet_tac].
    destruct b; [apply shape_on_hs_in_ok|apply shape_of_quiet, quiet_on_hs_err].
  - destruct (hsO s p); [|apply sh_quiet; quiet_tac].
    destruct b; [apply shape_on_hs_out_ok|apply shape_of_quiet, quiet_on_hs_err].
  - destruct (hval s p); [|apply sh_quiet; quiet_tac].
    apply shape_of_quiet. eapply quiet_frame; [|apply quiet_on_validation]. repeat split.
  - apply shape_of_quiet, quiet_on_timer.
  - destruct (hopen s p); [apply sh_quiet; quiet_tac|]. apply shape_of_quiet, quiet_on_open.
  - destruct (hopen s p); [|apply sh_quiet; quiet_tac]. eapply shape_on_close; eauto.
  - apply sh_quiet. quiet_tac.
  - cbn in PO. destruct g; [discriminate|]. eapply shape_task_die; eauto.
  - (* Release *)
    rewrite map_ungate_id by (intros t Ht; destruct (A1 t Ht) as (B1 & B2 & _); auto).
    rewrite finish_tasks_id by (intros t Ht; destruct (A1 t Ht) as (B1 & B2 & _); auto).
    cbn [run_shutdowns N.eqb]. apply sh_quiet. unfold run_shutdowns. cbn. quiet_tac.
  - destruct (conn s p); apply sh_quiet; quiet_tac.
  - discriminate.
  - apply sh_quiet. quiet_tac.
  - cbn in PO. destruct g; [discriminate|]. eapply shape_task_die; eauto.
Qed.

Lemma notifs_facts s h o q : AInv s h -> In q (notifs_of s o) -> q = op_peer o /\ h q = true.
Proof.
  intros [A1 A2 A3 A4 A5 A6] H.
  assert (G : forall p, In q (match lastt s p with Some k => if running s k then [p] else [] | None => [] end) ->
                        q = p /\ h q = true).
  { intros p Hq. destruct (lastt s p) as [k|] eqn:Lk; [|destruct Hq].
    unfold running in Hq. destruct (find_task k (tasks s)) as [t|] eqn:F; [|destruct Hq].
    destruct (t_closing t) eqn:TC; [destruct Hq|]. destruct Hq as [<-|[]]. split; auto.
    destruct (find_task_some _ _ _ F) as [In1 Id1]. destruct (A4 p k Lk) as [_ Pe].
    specialize (Pe t In1 Id1). destruct (A1 t In1) as (_ & _ & B3 & _). rewrite Pe in B3.
    rewrite A5, B3. reflexivity. }
  destruct o; cbn in H; try destruct H; cbn [op_peer]; apply G; auto.
Qed.

Lemma step_inv c s o h s' ev calls :
  AInv s h -> prompt_op o = true -> step c s o = Some (s', ev, calls) ->
  exists h', grammar h ev = Some h' /\ AInv s' h'.
Proof.
  intros A PO S. pose proof (main_shape c s o h A PO) as Sh.
  destruct (main_handler c s o) as [[[s1 ev1] cl1]|] eqn:M.
  - inversion Sh; subst.
    + exists h. eapply step_of_quiet; eauto. intros q Hq. eapply notifs_facts; eauto.
    + eexists. eapply step_of_closes; eauto. intros q Hq.
      destruct (notifs_facts _ _ _ _ A Hq) as [-> _].
      (* the closing peer is the peer of the event *)
      destruct o; cbn in Hq; try destruct Hq; cbn [op_peer main_handler] in *;
        unfold ok, task_die_op in M;
        repeat match type of M with context [match ?x with _ => _ end] => destruct x end;
        inversion M; reflexivity.
    + eexists. eapply step_of_opens; eauto.
      destruct o; cbn; auto; exfalso; cbn [main_handler] in M;
        unfold ok, task_die_op in M;
        repeat match type of M with context [match ?x with _ => _ end] => destruct x end; inversion M.
  - unfold step in S. rewrite M in S. discriminate.
Qed.

Definition events (r : list (st * list uev * list call)) : list uev :=
  flat_map (fun x => snd (fst x)) r.

Lemma run_grammar c ops : forall s h,
  AInv s h -> forallb prompt_op ops = true ->
  exists h', grammar h (events (fst (run c s ops))) = Some h'.
Proof.
  induction ops as [|o t IH]; intros s h A P; cbn [run fst events flat_map].
  - exists h. reflexivity.
  - cbn in P. apply andb_true_iff in P. destruct P as [P1 P2].
    destruct (step c s o) as [[[s1 ev] calls]|] eqn:S.
    + destruct (step_inv _ _ _ _ _ _ _ A P1 S) as (h1 & G1 & A1).
      destruct (IH s1 h1 A1 P2) as (h2 & G2).
      destruct (run c s1 t) as [r b]. cbn [fst events flat_map snd] in *.
      exists h2. rewrite grammar_app, G1. exact G2.
    + exists h. reflexivity.
Qed.

(* every reachable state of a prompt run satisfies the invariant: used for the corollaries *)
Lemma run_inv c ops : forall s h,
  AInv s h -> forallb prompt_op ops = true ->
  forall x, In x (fst (run c s ops)) -> exists h', AInv (fst (fst x)) h'.
Proof.
  induction ops as [|o t IH]; intros s h A P x; cbn [run fst].
  - intros [].
  - cbn in P. apply andb_true_iff in P. destruct P as [P1 P2].
    destruct (step c s o) as [[[s1 ev] calls]|] eqn:S; [|intros []].
    destruct (step_inv _ _ _ _ _ _ _ A P1 S) as (h1 & G1 & A1).
    specialize (IH s1 h1 A1 P2). destruct (run c s1 t) as [r b]. cbn [fst] in *.
    intros [<-|H]; eauto.
Qed.

(* ------------------------------------------------------------------ Opened needs an accepted inbound *)
Lemma quiet_no_opened s s1 ev cl p d : quiet s (Some (s1, ev, cl)) -> ~ In (UOpened p d) ev.
Proof.
  intros (_ & _ & _ & _ & _ & F) H. rewrite Forall_forall in F. apply F in H. exact H.
Qed.

Lemma signal_ev s k s' ev p d : signal s k = (s', ev) -> ~ In (UOpened p d) ev.
Proof.
  unfold signal. destruct (find_task k (tasks s)) as [t|]; [|intros H; inversion H; subst; auto].
  destruct (t_closing t); [intros H; inversion H; subst; auto|].
  destruct (t_gated t); intros H; inversion H; subst; cbn; [tauto|]. intros [E|[]]. discriminate.
Qed.

Lemma finish_tasks_ev p l : forall l' ev n q d, finish_tasks p l = (l', ev, n) -> ~ In (UOpened q d) ev.
Proof.
  induction l as [|a l IH]; cbn; intros l' ev n q d.
  - intros H; inversion H; subst. auto.
  - destruct (finish_tasks p l) as [[r' e'] n'] eqn:E.
    destruct ((t_peer a =? p) && negb (t_gated a)); [destruct (t_closing a)|];
      intros H; inversion H; subst; cbn; try (eapply IH; eauto; fail).
    intros [X|X]; [discriminate|]. eapply IH; eauto.
Qed.

Definition accepted_in (x : option pstate) (d : dir) : Prop :=
  (exists i, x = Some (Validating d ONeg i) /\ i = IOpen) \/
  (exists o, x = Some (Validating d o ISending) /\ o = OOpen).

Lemma hs_finish_opened s p q d s1 ev cl :
  hs_finish s p = Some (s1, ev, cl) -> In (UOpened q d) ev ->
  q = p /\ ps s p = Some (Validating d OOpen IOpen).
Proof.
  unfold hs_finish. destruct (ps s p) as [x|]; [|intros H; inversion H; subst; intros []].
  destruct x as [|b|po| |y|d0 o i|k]; try (intros H; inversion H; subst; intros []; fail).
  destruct o; try (intros H; inversion H; subst; intros []; fail).
  destruct i; try (intros H; inversion H; subst; intros []; fail).
  intros H; inversion H; subst. intros [E|[]]. inversion E; subst. auto.
Qed.

Lemma main_opened c s o s1 ev cl p d :
  main_handler c s o = Some (s1, ev, cl) -> In (UOpened p d) ev -> accepted_in (ps s p) d.
Proof.
  destruct o as [q|q|q|q|q|q|q b|q b|q a|q|q|q|q|q g|q|q|q|q|q g]; cbn [main_handler]; intros M HIn.
  - destruct (conn s q); [inversion M; subst; destruct HIn|].
    exfalso. eapply quiet_no_opened; [|exact HIn]. rewrite <- M. apply quiet_on_established.
  - destruct (conn s q); [|inversion M; subst; destruct HIn].
    revert M. unfold on_closed. setters.
    destruct (ps s q) as [x|]; [|discriminate].
    destruct x as [|b|po| |y|d0 o i|k]; try (intros M; inversion M; subst; cbn in HIn; intuition discriminate).
    + destruct o, i; intros M; inversion M; subst; cbn in HIn; intuition discriminate.
    + destruct (signal _ k) as [s2 e2] eqn:Sg. intros M; inversion M; subst.
      exfalso. eapply signal_ev; eauto.
  - destruct (conn s q); [|inversion M; subst; destruct HIn].
    exfalso. eapply quiet_no_opened; [|exact HIn]. rewrite <- M. apply quiet_on_sub_in.
  - destruct (conn s q); [|inversion M; subst; destruct HIn].
    destruct (first_req q (spend s)); [|inversion M; subst; destruct HIn].
    exfalso. eapply quiet_no_opened; [|exact HIn]. rewrite <- M. apply quiet_on_sub_out.
  - destruct (conn s q); [|inversion M; subst; destruct HIn].
    destruct (first_req q (spend s)); [|inversion M; subst; destruct HIn].
    exfalso. eapply quiet_no_opened; [|exact HIn]. rewrite <- M. apply quiet_on_open_fail.
  - exfalso. eapply quiet_no_opened; [|exact HIn]. rewrite <- M. apply quiet_on_dial_fail.
  - (* HsIn *)
    destruct (hsI s q); [|inversion M; subst; destruct HIn].
    destruct b; [|exfalso; eapply quiet_no_opened; [|exact HIn]; rewrite <- M; apply quiet_on_hs_err].
    revert M. unfold on_hs_in_ok. destruct (ps s q) as [x|] eqn:Hq; [|discriminate].
    destruct x as [|b|po| |y|d0 o i|k]; try discriminate.
    destruct i; try discriminate.
    + destruct (negb (o_closed o) && auto_accept c); intros M; inversion M; subst; cbn in HIn; intuition discriminate.
    + intros M. destruct (hs_finish_opened _ _ _ _ _ _ _ M HIn) as [-> E].
      setters. rewrite upd_same in E. inversion E; subst. right. rewrite Hq. eauto.
  - (* HsOut *)
    destruct (hsO s q); [|inversion M; subst; destruct HIn].
    destruct b; [|exfalso; eapply quiet_no_opened; [|exact HIn]; rewrite <- M; apply quiet_on_hs_err].
    revert M. unfold on_hs_out_ok. destruct (ps s q) as [x|] eqn:Hq; [|discriminate].
    destruct x as [|b|po| |y|d0 o i|k]; try discriminate.
    destruct o; try discriminate.
    intros M. destruct (hs_finish_opened _ _ _ _ _ _ _ M HIn) as [-> E].
    setters. rewrite upd_same in E. inversion E; subst. left. rewrite Hq. eauto.
  - destruct (hval s q); [|inversion M; subst; destruct HIn].
    exfalso. eapply quiet_no_opened; [|exact HIn]. rewrite <- M. apply quiet_on_validation.
  - exfalso. eapply quiet_no_opened; [|exact HIn]. rewrite <- M. apply quiet_on_timer.
  - destruct (hopen s q); [inversion M; subst; destruct HIn|].
    exfalso. eapply quiet_no_opened; [|exact HIn]. rewrite <- M. apply quiet_on_open.
  - destruct (hopen s q); [|inversion M; subst; destruct HIn].
    revert M. unfold on_close. destruct (ps s q) as [x|]; [|intros M; inversion M; subst; destruct HIn].
    destruct x as [|b|po| |y|d0 o i|k]; try (intros M; inversion M; subst; destruct HIn).
    destruct (signal s k) as [s2 e2] eqn:Sg. intros M; inversion M; subst. exfalso. eapply signal_ev; eauto.
  - inversion M; subst; destruct HIn.
  - revert M. unfold task_die_op. destruct (lastt s q); [|intros M; inversion M; subst; destruct HIn].
    destruct (find_task n (tasks s)) as [t|]; [|intros M; inversion M; subst; destruct HIn].
    destruct (t_closing t); [intros M; inversion M; subst; destruct HIn|].
    destruct (g || t_gated t); intros M; inversion M; subst; cbn in HIn; intuition discriminate.
  - revert M. destruct (finish_tasks q _) as [[l' e'] n'] eqn:F. intros M; inversion M; subst.
    exfalso. eapply finish_tasks_ev; eauto.
  - destruct (conn s q); inversion M; subst; destruct HIn.
  - revert M. destruct (lastt s q); intros M; inversion M; subst; destruct HIn.
  - inversion M; subst; destruct HIn.
  - revert M. unfold task_die_op. destruct (lastt s q); [|intros M; inversion M; subst; destruct HIn].
    destruct (find_task n (tasks s)) as [t|]; [|intros M; inversion M; subst; destruct HIn].
    destruct (t_closing t); [intros M; inversion M; subst; destruct HIn|].
    destruct (g || t_gated t); intros M; inversion M; subst; cbn in HIn; intuition discriminate.
Qed.

Lemma task_dies_ev s k s' ev p d : task_dies s k = (s', ev) -> ~ In (UOpened p d) ev.
Proof.
  unfold task_dies. destruct (find_task k (tasks s)) as [t|]; [|intros H; inversion H; subst; auto].
  destruct (t_closing t); [intros H; inversion H; subst; auto|].
  destruct (t_gated t); intros H; inversion H; subst; cbn; [tauto|]. intros [E|[]]. discriminate.
Qed.

Lemma kill_tasks_ev ks : forall s s' ev p d, kill_tasks s ks = (s', ev) -> ~ In (UOpened p d) ev.
Proof.
  induction ks as [|k t IH]; cbn; intros s s' ev p d.
  - intros H; inversion H; subst. auto.
  - destruct (task_dies s k) as [s1 e1] eqn:E1. destruct (kill_tasks s1 t) as [s2 e2] eqn:E2.
    intros H; inversion H; subst. intros X. apply in_app_or in X. destruct X as [X|X].
    + eapply task_dies_ev; eauto.
    + eapply IH; eauto.
Qed.

Lemma step_opened c s o s' ev calls p d :
  step c s o = Some (s', ev, calls) -> In (UOpened p d) ev -> accepted_in (ps s p) d.
Proof.
  unfold step. destruct (main_handler c s o) as [[[s1 ev1] cl1]|] eqn:M; [|discriminate].
  destruct (drain s1 ev1) as [[s2 dr] ks].
  destruct (dropped_validations s2 dr) as [[[s3 ev3] cl3]|] eqn:DV; [|discriminate].
  destruct (dropped_quiet _ _ _ _ _ DV) as [_ ->].
  destruct (kill_tasks s3 ks) as [s4 ev4] eqn:K. cbn [app].
  destruct (drain s4 ev4) as [[s5 x] y]. intros H; inversion H; subst.
  intros HIn. apply in_app_or in HIn. destruct HIn as [HIn|HIn].
  - eapply main_opened; eauto.
  - apply in_app_or in HIn. destruct HIn as [HIn|HIn].
    + exfalso. apply in_map_iff in HIn. destruct HIn as (z & E & _). discriminate.
    + exfalso. eapply kill_tasks_ev; eauto.
Qed.

(* ------------------------------------------------------------------ Closed on disconnect / user close *)
Lemma step_conn_closed c s h p k s' ev calls :
  AInv s h -> conn s p = true -> ps s p = Some (Open k) ->
  step c s (ConnClosed p) = Some (s', ev, calls) -> In (UClosed p) ev.
Proof.
  intros A C Hp. unfold step. cbn [main_handler]. rewrite C. unfold on_closed. setters. rewrite Hp.
  erewrite (signal_open s h _ p k A Hp) by reflexivity.
  match goal with |- context [drain ?a ?b] => destruct (drain a b) as [[s2 dr] ks] end.
  destruct (dropped_validations s2 dr) as [[[s3 ev3] cl3]|]; [|discriminate].
  destruct (kill_tasks s3 ks) as [s4 ev4].
  destruct (drain s4 (ev3 ++ ev4)) as [[s5 x] y].
  intros H; inversion H; subst. left; reflexivity.
Qed.

Lemma step_cmd_close c s h p k s' ev calls :
  AInv s h -> ps s p = Some (Open k) ->
  step c s (CmdClose p) = Some (s', ev, calls) -> In (UClosed p) ev.
Proof.
  intros A Hp. unfold step. cbn [main_handler].
  assert (HO : hopen s p = true).
  { destruct A as [_ _ _ _ A5 A6]. rewrite A6, A5, Hp. reflexivity. }
  rewrite HO. unfold on_close. rewrite Hp.
  erewrite (signal_open s h s p k A Hp) by reflexivity.
  match goal with |- context [drain ?a ?b] => destruct (drain a b) as [[s2 dr] ks] end.
  destruct (dropped_validations s2 dr) as [[[s3 ev3] cl3]|]; [|discriminate].
  destruct (kill_tasks s3 ks) as [s4 ev4].
  destruct (drain s4 (ev3 ++ ev4)) as [[s5 x] y].
  intros H; inversion H; subst. left; reflexivity.
Qed.

(* ------------------------------------------------------------------ statements used by Properties.v *)
Lemma alternation_prompt c ops :
  forallb prompt_op ops = true ->
  exists h, grammar (fun _ => false) (events (fst (run c init ops))) = Some h.
Proof. intros P. eapply run_grammar; eauto. apply AInv_init. Qed.

Lemma closed_on_disconnect_prompt c ops x p k s' ev calls :
  forallb prompt_op ops = true -> In x (fst (run c init ops)) ->
  conn (fst (fst x)) p = true -> ps (fst (fst x)) p = Some (Open k) ->
  step c (fst (fst x)) (ConnClosed p) = Some (s', ev, calls) -> In (UClosed p) ev.
Proof.
  intros P HIn C Hp S. destruct (run_inv c ops init _ AInv_init P x HIn) as (h & A).
  eapply step_conn_closed; eauto.
Qed.

Lemma closed_on_user_close_prompt c ops x p k s' ev calls :
  forallb prompt_op ops = true -> In x (fst (run c init ops)) ->
  ps (fst (fst x)) p = Some (Open k) ->
  step c (fst (fst x)) (CmdClose p) = Some (s', ev, calls) -> In (UClosed p) ev.
Proof.
  intros P HIn Hp S. destruct (run_inv c ops init _ AInv_init P x HIn) as (h & A).
  eapply step_cmd_close; eauto.
Qed.

(* witnesses *)
Definition cfg_w : cfg := mkCfg true true (fun _ => false).
Definition cfg_w0 : cfg := mkCfg false true (fun _ => false).
Definition open_by_user : list op :=
  [Established 0; CmdOpen 0; SubIn 0; HsIn 0 true; SubOut 0; HsIn 0 true; HsOut 0 true].
Definition w_slow_close : list op :=
  open_by_user ++ [Gate 0; CmdClose 0; SubIn 0; HsIn 0 true; Validate 0 true; HsIn 0 true; SubOut 0;
                   HsOut 0 true; Release 0].
Definition w_failed_sid : list op :=
  [Established 0; SubIn 0; HsIn 0 true; Validate 0 true; OpenFail 0; CmdOpen 0].

Definition last_state (c : cfg) (ops : list op) : st :=
  last (map (fun x => fst (fst x)) (fst (run c init ops))) init.

(* ================================================================== no stuck states *)
Definition connected_state (x : option pstate) : bool :=
  match x with None | Some Dialing | Some (VPending false) => false | _ => true end.
Definition hsI_ok (x : option pstate) : bool :=
  match x with Some (Validating _ _ (IReading | ISending)) => true | _ => false end.
Definition hsO_ok (x : option pstate) : bool :=
  match x with Some (Validating _ ONeg _) => true | _ => false end.
Definition both_open (x : option pstate) : bool :=
  match x with Some (Validating _ OOpen IOpen) => true | _ => false end.
(* substream id the peer state waits for *)
Definition wq (x : option pstate) : option sid :=
  match x with
  | Some (OutInit y) => Some y
  | Some (Validating _ (OInit y) _) => Some y
  | Some (Closed (Some y)) => Some y
  | _ => None
  end.

(* per-peer part: connectivity, handshake-service membership and peer state agree *)
Definition pok (cn hi ho : bool) (x : option pstate) : bool :=
  Bool.eqb cn (connected_state x) && Bool.eqb hi (hsI_ok x) && Bool.eqb ho (hsO_ok x) && negb (both_open x).

Definition SL (s : st) : Prop := forall p, pok (conn s p) (hsI s p) (hsO s p) (ps s p) = true.

(* full case split of a handler equation M : handler ... = Some (s1, ev, cl) *)
(* what a change of the task list may do: tasks keep their id and peer, tasks with other ids stay *)
Definition tasks_sub (k : N) (old new : list task) : Prop :=
  (forall t', In t' new -> exists t, In t old /\ t_id t' = t_id t /\ t_peer t' = t_peer t) /\
  (forall t, In t old -> t_id t <> k -> In t new).

Lemma tasks_sub_refl k l : tasks_sub k l l.
Proof. split; eauto. Qed.

Lemma tasks_sub_map k f l :
  (forall t, t_id (f t) = t_id t /\ t_peer (f t) = t_peer t) -> tasks_sub k l (map_task k f l).
Proof.
  intros Hf. unfold map_task. split.
  - intros t' H. apply in_map_iff in H. destruct H as (t & E & Ht). exists t. split; auto.
    destruct (t_id t =? k); subst; auto.
  - intros t Ht Hne. apply in_map_iff. exists t. split; auto.
    destruct (t_id t =? k) eqn:E; auto. apply N.eqb_eq in E. contradiction.
Qed.

Lemma tasks_sub_remove k l : tasks_sub k l (remove_task k l).
Proof.
  split.
  - intros t' H. apply in_remove in H. exists t'. tauto.
  - intros t Ht Hne. apply in_remove. tauto.
Qed.

Lemma signal_core s k s' ev : signal s k = (s', ev) ->
  exists l, s' = set_tasks s l /\ tasks_sub k (tasks s) l /\
            (ev = [] \/ exists t, find_task k (tasks s) = Some t /\ ev = [UClosed (t_peer t)]).
Proof.
  unfold signal. destruct (find_task k (tasks s)) as [t|] eqn:F.
  - destruct (t_closing t); [|destruct (t_gated t)]; intros H; injection H as <- <-.
    + exists (tasks s). split; [destruct s; reflexivity|]. split; auto using tasks_sub_refl.
    + eexists. split; [reflexivity|]. split; auto. apply tasks_sub_map. intros; auto.
    + eexists. split; [reflexivity|]. split; eauto using tasks_sub_remove.
  - intros H; injection H as <- <-. exists (tasks s). split; [destruct s; reflexivity|].
    split; auto using tasks_sub_refl.
Qed.

Ltac setters_in M :=
  cbn [ps pend hsI hsO hopen hval conn dead nsid spend tasks ntask lastt
       set_ps set_pend set_hsI set_hsO set_hopen set_hval set_conn set_dead set_nsid set_spend set_tasks spawn_task] in M;
  rewrite ?upd_same in M.

(* full case split of handler equations in the context (innermost scrutinee first) *)
Ltac split_all :=
  repeat match goal with
         | E : None = Some _ |- _ => discriminate E
         | E : Some _ = None |- _ => discriminate E
         | E : Some _ = Some _ |- _ => inversion E; subst; clear E
         | E : (_, _) = (_, _) |- _ => inversion E; subst; clear E
         | M : context [signal ?a ?k] |- _ =>
             let Sg := fresh "Sg" in let tl := fresh "tl" in let ss := fresh "ss" in let se := fresh "se" in
             destruct (signal a k) as [ss se] eqn:Sg; apply signal_core in Sg; destruct Sg as (tl & -> & ? & ?)
         | M : context [match ?x with _ => _ end] |- _ =>
             lazymatch x with
             | context [match _ with _ => _ end] => fail
             | _ => destruct x eqn:?; setters_in M
             end
         end.

Ltac unfold_handlers M :=
  cbn [main_handler] in M;
  unfold on_established, on_open, on_closed, on_sub_out, on_sub_in, on_open_fail, on_dial_fail, on_close,
         on_validation, on_hs_out_ok, on_hs_in_ok, on_hs_err, on_timer, hs_finish, svc_open, svc_force,
         task_die_op, ok, ok_ev in M;
  setters_in M.

Ltac peer_facts H p :=
  let K := fresh "K" in
  pose proof (H p) as K; unfold pok in K;
  repeat match goal with E : ps _ p = _ |- _ => rewrite E in K end;
  repeat match goal with o : outb |- _ => destruct o end;
  repeat match goal with i : inb |- _ => destruct i end;
  repeat match goal with b : bool |- _ => destruct b end;
  destruct (conn _ p) eqn:?, (hsI _ p) eqn:?, (hsO _ p) eqn:?; cbn in K; try discriminate K; try congruence.

Ltac pf H := match goal with E : ps _ ?r = _ |- _ => solve [peer_facts H r; cbn in *; try discriminate; reflexivity] end.

Ltac SL_close H :=
  let q := fresh "q" in
  intro q; setters; unfold upd;
  repeat match goal with
         | |- context [q =? ?p] =>
             let E := fresh "E" in destruct (q =? p) eqn:E; [apply N.eqb_eq in E; subst q|]
         end;
  try apply H.

Lemma SL_on_shutdown s p : SL s -> SL (on_shutdown s p).
Proof.
  intros H. unfold on_shutdown. destruct (ps s p) as [[]|] eqn:Hp; auto.
  destruct (task_closed s k); auto. SL_close H. pf H.
Qed.

Lemma SL_main c s o s1 ev cl : SL s -> main_handler c s o = Some (s1, ev, cl) -> SL s1.
Proof.
  intros H M. destruct o; unfold_handlers M.
  all: try (split_all; SL_close H; try pf H; fail).
  - split_all; try (SL_close H; try pf H; fail). apply SL_on_shutdown. SL_close H.
  - match type of M with context [finish_tasks ?a ?b] => destruct (finish_tasks a b) as [[? ?] ?] end.
    split_all. unfold run_shutdowns. match goal with |- context [if ?b then _ else _] => destruct b end; [|apply SL_on_shutdown]; SL_close H.
  - split_all; try (SL_close H; try pf H; fail). apply SL_on_shutdown. SL_close H.
Qed.

(* ---- substream-id bookkeeping: transport requests, pending_outbound and peer states agree ---- *)
Definition SB (s : st) : Prop :=
  (forall x q, In (x, q) (spend s) ->
     x < nsid s /\ pend_find x (pend s) = Some q /\ wq (ps s q) = Some x) /\
  (forall p x, wq (ps s p) = Some x -> x < nsid s /\ forall q, In (x, q) (spend s) -> q = p).

Lemma in_pend_remove x y (q : peer) l : In (y, q) (pend_remove x l) <-> In (y, q) l /\ y <> x.
Proof.
  unfold pend_remove. rewrite filter_In. cbn. split; intros [A B]; split; auto.
  - intros E. subst. rewrite N.eqb_refl in B. discriminate.
  - destruct (y =? x) eqn:E; auto. apply N.eqb_eq in E. contradiction.
Qed.

Lemma in_drop_peer p y (q : peer) l : In (y, q) (drop_peer p l) <-> In (y, q) l /\ q <> p.
Proof.
  unfold drop_peer. rewrite filter_In. cbn. split; intros [A B]; split; auto.
  - intros E. subst. rewrite N.eqb_refl in B. discriminate.
  - destruct (q =? p) eqn:E; auto. apply N.eqb_eq in E. contradiction.
Qed.

Lemma pend_find_remove_other x y l : y <> x -> pend_find y (pend_remove x l) = pend_find y l.
Proof.
  intros H. induction l as [|[z q] l IH]; cbn; auto.
  destruct (z =? x) eqn:E1; cbn.
  - apply N.eqb_eq in E1. subst z. destruct (x =? y) eqn:E2; auto. apply N.eqb_eq in E2. congruence.
  - destruct (z =? y); auto.
Qed.

Lemma pend_find_insert_same x p l : pend_find x (pend_insert x p l) = Some p.
Proof. unfold pend_insert. cbn. now rewrite N.eqb_refl. Qed.

Lemma pend_find_insert_other x y p l : y <> x -> pend_find y (pend_insert x p l) = pend_find y l.
Proof.
  intros H. unfold pend_insert. cbn. destruct (x =? y) eqn:E.
  - apply N.eqb_eq in E. congruence.
  - now apply pend_find_remove_other.
Qed.

Lemma pend_find_drop_peer p y q l : pend_find y l = Some q -> q <> p -> pend_find y (drop_peer p l) = Some q.
Proof.
  intros H Hq. induction l as [|[z r] l IH]; cbn in *; [discriminate|].
  destruct (z =? y) eqn:E.
  - inversion H; subst. destruct (q =? p) eqn:E2; cbn [negb].
    + apply N.eqb_eq in E2. contradiction.
    + cbn. now rewrite E.
  - destruct (negb (r =? p)); cbn; auto. rewrite E. auto.
Qed.

Lemma first_req_in p l x : first_req p l = Some x -> In (x, p) l.
Proof.
  induction l as [|[y q] l IH]; cbn; [discriminate|].
  destruct (q =? p) eqn:E.
  - intros H; inversion H; subst. apply N.eqb_eq in E. subst. auto.
  - auto.
Qed.

Definition ps_at (s s' : st) (p : peer) (v : option pstate) : Prop :=
  forall q, ps s' q = if q =? p then v else ps s q.

Lemma SB_q s s' :
  SB s -> pend s' = pend s -> spend s' = spend s -> nsid s <= nsid s' ->
  (forall q, wq (ps s' q) = wq (ps s q)) -> SB s'.
Proof.
  intros [B1 B2] P S N0 W. split; rewrite ?P, ?S.
  - intros x q H. destruct (B1 x q H) as (A1 & A2 & A3). rewrite W. repeat split; auto. lia.
  - intros p x H. rewrite W in H. destruct (B2 p x H). split; auto. lia.
Qed.

Lemma SB_reuse s s' p x v :
  SB s -> wq (ps s p) = Some x -> ps_at s s' p v -> wq v = Some x ->
  pend s' = pend_insert x p (pend s) -> spend s' = spend s -> nsid s' = nsid s -> SB s'.
Proof.
  intros [B1 B2] Wp PA Wv P S N0. split; rewrite ?P, ?S, ?N0.
  - intros y q H. destruct (B1 y q H) as (A1 & A2 & A3). rewrite PA.
    destruct (N.eq_dec y x) as [->|Hne].
    + assert (q = p) by (eapply B2; eauto). subst q. rewrite N.eqb_refl, pend_find_insert_same. auto.
    + rewrite pend_find_insert_other by auto. destruct (q =? p) eqn:E; auto.
      apply N.eqb_eq in E. subst q. congruence.
  - intros r y H. rewrite PA in H. destruct (r =? p) eqn:E.
    + apply N.eqb_eq in E. subst r. rewrite Wv in H. inversion H; subst. apply B2; auto.
    + apply B2; auto.
Qed.

Lemma SB_new s s' p v :
  SB s -> wq (ps s p) = None -> ps_at s s' p v -> wq v = Some (nsid s) ->
  pend s' = pend_insert (nsid s) p (pend s) -> spend s' = spend s ++ [(nsid s, p)] ->
  nsid s' = nsid s + 1 -> SB s'.
Proof.
  intros [B1 B2] Wp PA Wv P S N0. split; rewrite ?P, ?S, ?N0.
  - intros y q H. apply in_app_or in H. destruct H as [H|[H|[]]].
    + destruct (B1 y q H) as (A1 & A2 & A3). rewrite PA.
      rewrite pend_find_insert_other by lia. destruct (q =? p) eqn:E.
      * apply N.eqb_eq in E. subst q. congruence.
      * repeat split; auto. lia.
    + inversion H; subst. rewrite PA, N.eqb_refl, pend_find_insert_same. repeat split; auto. lia.
  - intros r y H. rewrite PA in H. destruct (r =? p) eqn:E.
    + apply N.eqb_eq in E. subst r. rewrite Wv in H. inversion H; subst. split; [lia|].
      intros q Hq. apply in_app_or in Hq. destruct Hq as [Hq|[Hq|[]]].
      * destruct (B1 _ _ Hq). lia.
      * inversion Hq; auto.
    + destruct (B2 r y H) as [A1 A2]. split; [lia|].
      intros q Hq. apply in_app_or in Hq. destruct Hq as [Hq|[Hq|[]]]; auto.
      inversion Hq; subst. lia.
Qed.

Lemma SB_answer s s' p x v :
  SB s -> In (x, p) (spend s) -> ps_at s s' p v -> (wq v = None \/ wq v = Some x) ->
  pend s' = pend_remove x (pend s) -> spend s' = pend_remove x (spend s) -> nsid s' = nsid s -> SB s'.
Proof.
  intros [B1 B2] Hx PA Wv P S N0. destruct (B1 x p Hx) as (X1 & X2 & X3).
  split; rewrite ?P, ?S, ?N0.
  - intros y q H. apply in_pend_remove in H. destruct H as [H Hne].
    destruct (B1 y q H) as (A1 & A2 & A3). rewrite PA, pend_find_remove_other by auto.
    destruct (q =? p) eqn:E; auto. apply N.eqb_eq in E. subst q. congruence.
  - intros r y H. rewrite PA in H. destruct (r =? p) eqn:E.
    + apply N.eqb_eq in E. subst r. destruct Wv as [Wv|Wv]; rewrite Wv in H; [discriminate|].
      inversion H; subst. split; auto. intros q Hq. apply in_pend_remove in Hq. tauto.
    + destruct (B2 r y H) as [A1 A2]. split; auto.
      intros q Hq. apply in_pend_remove in Hq. apply A2. tauto.
Qed.

Lemma SB_closed s s' p v :
  SB s -> ps_at s s' p v -> wq v = None ->
  pend s' = drop_peer p (pend s) -> spend s' = drop_peer p (spend s) -> nsid s' = nsid s -> SB s'.
Proof.
  intros [B1 B2] PA Wv P S N0. split; rewrite ?P, ?S, ?N0.
  - intros y q H. apply in_drop_peer in H. destruct H as [H Hne].
    destruct (B1 y q H) as (A1 & A2 & A3). rewrite PA.
    apply N.eqb_neq in Hne. rewrite Hne. apply N.eqb_neq in Hne.
    repeat split; auto. now apply pend_find_drop_peer.
  - intros r y H. rewrite PA in H. destruct (r =? p) eqn:E.
    + rewrite Wv in H. discriminate.
    + destruct (B2 r y H) as [A1 A2]. split; auto.
      intros q Hq. apply in_drop_peer in Hq. apply A2. tauto.
Qed.

Ltac wq_close :=
  let q := fresh "q" in intro q; setters; unfold upd;
  repeat (match goal with |- context [q =? ?p] => let E := fresh "E" in destruct (q =? p) eqn:E; [apply N.eqb_eq in E; subst q|] end);
  try reflexivity; repeat match goal with E : ps _ _ = _ |- _ => rewrite E end;
  repeat match goal with o : outb |- _ => destruct o end; try reflexivity.
Ltac psat_close :=
  let q := fresh "q" in intro q; setters; unfold upd;
  repeat match goal with |- context [q =? ?p] => destruct (q =? p) end; reflexivity.
Ltac wqp := repeat match goal with E : ps _ _ = _ |- _ => rewrite E end; reflexivity.
Ltac SB_q_close B := eapply (SB_q _ _ B); [reflexivity | reflexivity | setters; lia | wq_close].
Ltac SB_new_close B :=
  match goal with |- context [spend ?s ++ [(nsid ?s, ?p)]] =>
    eapply (SB_new s _ p _ B); [wqp | psat_close | reflexivity | reflexivity | reflexivity | reflexivity] end.
Ltac SB_closed_close B :=
  match goal with |- context [drop_peer ?p (spend ?s)] =>
    eapply (SB_closed s _ p _ B); [psat_close | reflexivity | reflexivity | reflexivity | reflexivity] end.
Ltac SB_reuse_close B :=
  match goal with |- context [pend_insert ?y ?p (pend ?s)] =>
    eapply (SB_reuse s _ p y _ B); [wqp | psat_close | reflexivity | reflexivity | reflexivity | reflexivity] end.
Ltac same_peer B :=
  match goal with
  | Hf : first_req ?p (spend ?s) = Some ?x, Hq : pend_find ?x (pend ?s) = Some ?p0 |- _ =>
      let K := fresh "K" in
      pose proof (proj1 B x p (first_req_in _ _ _ Hf)) as K; destruct K as (_ & K & _);
      rewrite Hq in K; injection K as K; subst p0
  | _ => idtac
  end;
  match goal with
  | Hf : first_req ?p (spend ?s) = Some ?x |- _ =>
      let K := fresh "K" in
      pose proof (proj1 B x p (first_req_in _ _ _ Hf)) as K; destruct K as (_ & _ & K);
      repeat match goal with E : ps _ _ = _ |- _ => rewrite E in K end; cbn in K;
      try discriminate K; try (injection K as K; subst)
  | _ => idtac
  end.
Ltac SB_answer_close B :=
  same_peer B;
  match goal with Hf : first_req ?p (spend ?s) = Some ?x |- _ =>
    eapply (SB_answer s _ p x _ B);
    [apply first_req_in; exact Hf | psat_close | first [left; reflexivity | right; reflexivity]
    | reflexivity | reflexivity | reflexivity] end.
Ltac SB_close B := first [SB_q_close B | SB_new_close B | SB_closed_close B | SB_reuse_close B | SB_answer_close B].

Lemma SB_on_shutdown s p : SB s -> SB (on_shutdown s p).
Proof.
  intros B. unfold on_shutdown. destruct (ps s p) as [[]|] eqn:Hp; auto.
  destruct (task_closed s k); auto. SB_q_close B.
Qed.

Lemma SB_main c s o s1 ev cl : SB s -> main_handler c s o = Some (s1, ev, cl) -> SB s1.
Proof.
  intros B M. destruct o; unfold_handlers M.
  all: try (split_all; try (SB_close B; fail); fail).
  - split_all; try (SB_close B; fail). apply SB_on_shutdown. SB_q_close B.
  - match type of M with context [finish_tasks ?a ?b] => destruct (finish_tasks a b) as [[? ?] ?] end.
    split_all. unfold run_shutdowns. match goal with |- context [if ?b then _ else _] => destruct b end; [|apply SB_on_shutdown]; SB_q_close B.
  - split_all; try (SB_close B; fail). apply SB_on_shutdown. SB_q_close B.
Qed.

Ltac sl_contra H := match goal with E : ps _ ?r = _ |- _ => solve [peer_facts H r] end.
Ltac sb_contra B :=
  match goal with
  | Hf : first_req ?p (spend ?s) = Some ?x |- _ =>
      let K := fresh "K" in let K2 := fresh "K2" in let K3 := fresh "K3" in
      pose proof (proj1 B x p (first_req_in _ _ _ Hf)) as K; destruct K as (_ & K2 & K3);
      try match goal with Hq : pend_find x (pend s) = _ |- _ => rewrite Hq in K2; try discriminate K2; injection K2 as K2; subst end;
      repeat match goal with E : ps _ _ = _ |- _ => rewrite E in K3 end; cbn in K3;
      try discriminate K3; try (injection K3 as K3; subst);
      repeat match goal with E : context [?a =? ?a] |- _ => rewrite N.eqb_refl in E end;
      cbn in *; try discriminate; try congruence
  end.

Lemma nostuck_main c s o : SL s -> SB s -> main_handler c s o <> None.
Proof.
  intros H B M. destruct o; unfold_handlers M.
  all: try (split_all; first [sl_contra H | sb_contra B]; fail).
  match type of M with context [finish_tasks ?a ?b] => destruct (finish_tasks a b) as [[? ?] ?] end.
  discriminate M.
Qed.

(* ---- the rest of a step: user drain, dropped validations, killed tasks ---- *)
Definition same_net (s s' : st) : Prop :=
  ps s' = ps s /\ conn s' = conn s /\ hsI s' = hsI s /\ hsO s' = hsO s /\
  pend s' = pend s /\ spend s' = spend s /\ nsid s' = nsid s.

Lemma same_net_refl s : same_net s s.
Proof. repeat split. Qed.

Lemma SL_net s s' : same_net s s' -> SL s -> SL s'.
Proof. intros (A & B & C & D & _) H p. rewrite A, B, C, D. apply H. Qed.

Lemma SB_net s s' : same_net s s' -> SB s -> SB s'.
Proof. intros (A & _ & _ & _ & E & F & G) [B1 B2]. split; rewrite ?A, ?E, ?F, ?G; auto. Qed.

Lemma drain_net ev : forall s s' dr ks, drain s ev = (s', dr, ks) -> same_net s s'.
Proof.
  induction ev as [|e t IH]; intros s s' dr ks; cbn.
  - intros H; injection H as <- _ _. apply same_net_refl.
  - destruct e.
    + destruct (hval s p).
      * destruct (drain s t) as [[a b] c0] eqn:E. intros H; injection H as <- _ _. eapply IH; eauto.
      * intros H. apply IH in H. exact H.
    + intros H. apply IH in H. exact H.
    + destruct (drain (set_hopen s p false) t) as [[a b] c0] eqn:E. intros H; injection H as <- _ _.
      apply IH in E. exact E.
    + intros H. eapply IH; eauto.
    + intros H. eapply IH; eauto.
Qed.

Lemma SL_on_validation s p a s1 ev cl : SL s -> on_validation s p a = Some (s1, ev, cl) -> SL s1.
Proof.
  intros H M. unfold on_validation, svc_open, ok, ok_ev in M. setters_in M.
  split_all; SL_close H; try pf H.
Qed.

Lemma SB_on_validation s p a s1 ev cl : SB s -> on_validation s p a = Some (s1, ev, cl) -> SB s1.
Proof.
  intros B M. unfold on_validation, svc_open, ok, ok_ev in M. setters_in M.
  split_all; SB_close B.
Qed.

Lemma on_validation_some s p a : on_validation s p a <> None.
Proof.
  unfold on_validation, svc_open, ok, ok_ev. intros M. split_all.
Qed.

Lemma dropped_inv l : forall s, SL s -> SB s ->
  exists s' ev cl, dropped_validations s l = Some (s', ev, cl) /\ SL s' /\ SB s'.
Proof.
  induction l as [|p l IH]; intros s H B; cbn.
  - unfold ok. eauto 6.
  - destruct (on_validation s p false) as [[[s1 e1] c1]|] eqn:E; [|now apply on_validation_some in E].
    destruct (IH s1 (SL_on_validation _ _ _ _ _ _ H E) (SB_on_validation _ _ _ _ _ _ B E)) as (s2 & e2 & c2 & E2 & H2 & B2).
    rewrite E2. eauto 6.
Qed.

Lemma task_dies_inv s k s' ev : task_dies s k = (s', ev) -> SL s -> SB s -> SL s' /\ SB s'.
Proof.
  unfold task_dies. destruct (find_task k (tasks s)) as [t|]; [|intros E; injection E as <- _; auto].
  destruct (t_closing t); [intros E; injection E as <- _; auto|].
  destruct (t_gated t); intros E; injection E as <- _; intros H B.
  - split; [eapply SL_net; [|exact H]|eapply SB_net; [|exact B]]; repeat split.
  - split; [apply SL_on_shutdown; eapply SL_net; [|exact H]|apply SB_on_shutdown; eapply SB_net; [|exact B]]; repeat split.
Qed.

Lemma kill_tasks_inv ks : forall s s' ev, kill_tasks s ks = (s', ev) -> SL s -> SB s -> SL s' /\ SB s'.
Proof.
  induction ks as [|k t IH]; intros s s' ev; cbn.
  - intros E; injection E as <- _; auto.
  - destruct (task_dies s k) as [s1 e1] eqn:E1. destruct (kill_tasks s1 t) as [s2 e2] eqn:E2.
    intros E; injection E as <- _. intros H B.
    destruct (task_dies_inv _ _ _ _ E1 H B). eapply IH; eauto.
Qed.

Definition SInv (s : st) : Prop := SL s /\ SB s.

Lemma SInv_init : SInv init.
Proof.
  split.
  - intros p. reflexivity.
  - split; cbn; intros; try tauto; discriminate.
Qed.

Lemma step_SInv c s o : SInv s ->
  exists s' ev cl, step c s o = Some (s', ev, cl) /\ SInv s'.
Proof.
  intros [H B]. unfold step.
  destruct (main_handler c s o) as [[[s1 ev] calls]|] eqn:M; [|now apply nostuck_main in M].
  pose proof (SL_main _ _ _ _ _ _ H M) as H1. pose proof (SB_main _ _ _ _ _ _ B M) as B1.
  destruct (drain s1 ev) as [[s2 dr] ks] eqn:D. pose proof (drain_net _ _ _ _ _ D) as N2.
  destruct (dropped_inv dr s2 (SL_net _ _ N2 H1) (SB_net _ _ N2 B1)) as (s3 & ev3 & cl3 & E3 & H3 & B3).
  rewrite E3. destruct (kill_tasks s3 ks) as [s4 ev4] eqn:K.
  destruct (kill_tasks_inv _ _ _ _ K H3 B3) as [H4 B4].
  destruct (drain s4 (ev3 ++ ev4)) as [[s5 x] y] eqn:D5. pose proof (drain_net _ _ _ _ _ D5) as N5.
  do 3 eexists. split; [reflexivity|]. split; [eapply SL_net|eapply SB_net]; eauto.
Qed.

Lemma run_nostuck c ops : forall s, SInv s -> snd (run c s ops) = true.
Proof.
  induction ops as [|o t IH]; intros s I; cbn; auto.
  destruct (step_SInv c s o I) as (s1 & ev & cl & E & I1). rewrite E.
  specialize (IH s1 I1). destruct (run c s1 t). exact IH.
Qed.

Lemma run_SInv c ops : forall s, SInv s -> forall x, In x (fst (run c s ops)) -> SInv (fst (fst x)).
Proof.
  induction ops as [|o t IH]; intros s I x; cbn; [intros []|].
  destruct (step_SInv c s o I) as (s1 & ev & cl & E & I1). rewrite E.
  specialize (IH s1 I1). destruct (run c s1 t) as [r b]. cbn in *. intros [<-|Hx]; auto.
Qed.

(* ---- tasks and peers: ids of Connection tasks identify the peer ---- *)
Definition TInv (s : st) : Prop :=
  (forall t, In t (tasks s) -> t_id t < ntask s) /\
  (forall p k, ps s p = Some (Open k) \/ lastt s p = Some k ->
     k < ntask s /\ forall t, In t (tasks s) -> t_id t = k -> t_peer t = p).

Definition tasks_le (old new : list task) : Prop :=
  forall t', In t' new -> exists t, In t old /\ t_id t' = t_id t /\ t_peer t' = t_peer t.

Lemma TInv_sub s s' :
  TInv s -> tasks_le (tasks s) (tasks s') -> ntask s' = ntask s -> lastt s' = lastt s ->
  (forall q k, ps s' q = Some (Open k) -> ps s q = Some (Open k)) -> TInv s'.
Proof.
  intros [T1 T2] TL N0 L P. split; rewrite ?N0, ?L.
  - intros t' H. destruct (TL t' H) as (t & Ht & E & _). rewrite E. auto.
  - intros p k H. assert (H' : ps s p = Some (Open k) \/ lastt s p = Some k) by (destruct H; auto).
    destruct (T2 p k H') as [A B]. split; auto.
    intros t' Ht' Id. destruct (TL t' Ht') as (t & Ht & E1 & E2). rewrite E2. apply B; auto. congruence.
Qed.

Lemma TInv_spawn s s' p :
  TInv s -> tasks s' = tasks s ++ [mkTask (ntask s) p None false] -> ntask s' = ntask s + 1 ->
  (forall q, lastt s' q = if q =? p then Some (ntask s) else lastt s q) ->
  (forall q k, ps s' q = Some (Open k) -> (q = p /\ k = ntask s) \/ ps s q = Some (Open k)) -> TInv s'.
Proof.
  intros [T1 T2] T N0 L P. split; rewrite ?T, ?N0.
  - intros t H. apply in_app_or in H. destruct H as [H|[<-|[]]]; cbn; [apply T1 in H|]; lia.
  - intros q k H.
    assert (C : (q = p /\ k = ntask s) \/ (ps s q = Some (Open k) \/ lastt s q = Some k)).
    { destruct H as [H|H].
      - apply P in H. tauto.
      - rewrite L in H. destruct (q =? p) eqn:E; [|tauto]. apply N.eqb_eq in E. inversion H. auto. }
    destruct C as [[-> ->]|C].
    + split; [lia|]. intros t Ht Id. apply in_app_or in Ht. destruct Ht as [Ht|[<-|[]]]; auto.
      apply T1 in Ht. lia.
    + destruct (T2 q k C) as [A B]. split; [lia|].
      intros t Ht Id. apply in_app_or in Ht. destruct Ht as [Ht|[<-|[]]]; auto. cbn in Id. lia.
Qed.

Lemma tasks_le_refl l : tasks_le l l.
Proof. intros t H. eauto. Qed.

Lemma finish_tasks_le p l : forall l' ev n, finish_tasks p l = (l', ev, n) -> tasks_le l l'.
Proof.
  induction l as [|a l IH]; cbn; intros l' ev n.
  - intros H; injection H as <- _ _. intros t [].
  - destruct (finish_tasks p l) as [[r' e'] n'] eqn:E. specialize (IH _ _ _ eq_refl).
    destruct ((t_peer a =? p) && negb (t_gated a)); [destruct (t_closing a)|];
      intros H; injection H as <- _ _; intros t Ht.
    + destruct (IH t Ht) as (t0 & A & B). exists t0. cbn. tauto.
    + destruct Ht as [<-|Ht]; [exists a; cbn; auto|]. destruct (IH t Ht) as (t0 & A & B). exists t0. cbn. tauto.
    + destruct Ht as [<-|Ht]; [exists a; cbn; auto|]. destruct (IH t Ht) as (t0 & A & B). exists t0. cbn. tauto.
Qed.

Ltac tle_close :=
  first [ apply tasks_le_refl
        | match goal with H : tasks_sub _ _ _ |- _ => exact (proj1 H) end
        | exact (proj1 (tasks_sub_remove _ _))
        | refine (proj1 (tasks_sub_map _ _ _ _)); intros; cbn; auto ].

Ltac noopen_close :=
  let q := fresh "q" in let k := fresh "k" in let E := fresh "E" in let X := fresh "X" in
  intros q k; setters; unfold upd;
  repeat match goal with |- context [q =? ?p] => destruct (q =? p) eqn:E; [apply N.eqb_eq in E; subst q|] end;
  intros X; first [discriminate X | congruence | exact X].

Ltac TInv_close T :=
  eapply (TInv_sub _ _ T); [setters; tle_close | reflexivity | reflexivity | noopen_close].

Lemma TInv_on_shutdown s p : TInv s -> TInv (on_shutdown s p).
Proof.
  intros T. unfold on_shutdown. destruct (ps s p) as [[]|] eqn:Hp; auto.
  destruct (task_closed s k); auto. TInv_close T.
Qed.

Ltac TInv_spawn_close T :=
  match goal with |- TInv (set_ps (spawn_task _ ?p) ?p _) =>
    eapply (TInv_spawn _ _ p T); [reflexivity | reflexivity | intros q; setters; unfold upd; destruct (q =? p); reflexivity
      | let q := fresh "q" in let k := fresh "k" in let E := fresh "E" in let X := fresh "X" in
        intros q k; setters; unfold upd; destruct (q =? p) eqn:E;
        [apply N.eqb_eq in E; subst q; intros X; left; split; [reflexivity|congruence] | intros X; right; exact X] ]
  end.

Lemma TInv_main c s o s1 ev cl : TInv s -> main_handler c s o = Some (s1, ev, cl) -> TInv s1.
Proof.
  intros T M. destruct o; unfold_handlers M.
  all: try (split_all; try (first [TInv_close T | TInv_spawn_close T]; fail); fail).
  - split_all; try (TInv_close T; fail). apply TInv_on_shutdown. TInv_close T.
  - match type of M with context [finish_tasks ?a ?b] => destruct (finish_tasks a b) as [[l' e'] n'] eqn:F end.
    apply finish_tasks_le in F. split_all.
    assert (T1 : TInv (set_tasks s l')).
    { eapply (TInv_sub _ _ T); [|reflexivity|reflexivity|noopen_close]. setters.
      intros t' Ht'. destruct (F t' Ht') as (t & Ht & E1 & E2). apply in_map_iff in Ht.
      destruct Ht as (t0 & E0 & Ht0). exists t0. split; auto.
      destruct (t_peer t0 =? p); subst t; cbn in *; split; congruence. }
    unfold run_shutdowns. match goal with |- context [if ?b then _ else _] => destruct b end; auto.
    now apply TInv_on_shutdown.
  - split_all; try (TInv_close T; fail). apply TInv_on_shutdown. TInv_close T.
Qed.

Definition same_tasks (s s' : st) : Prop :=
  ps s' = ps s /\ tasks s' = tasks s /\ lastt s' = lastt s /\ ntask s' = ntask s.

Lemma TInv_same s s' : same_tasks s s' -> TInv s -> TInv s'.
Proof. intros (A & B & C & D) [T1 T2]. split; rewrite ?A, ?B, ?C, ?D; auto. Qed.

Lemma drain_tasks ev : forall s s' dr ks, drain s ev = (s', dr, ks) -> same_tasks s s'.
Proof.
  induction ev as [|e t IH]; intros s s' dr ks; cbn.
  - intros H; injection H as <- _ _. repeat split.
  - destruct e.
    + destruct (hval s p).
      * destruct (drain s t) as [[a b] c0] eqn:E. intros H; injection H as <- _ _. eapply IH; eauto.
      * intros H. apply IH in H. exact H.
    + intros H. apply IH in H. exact H.
    + destruct (drain (set_hopen s p false) t) as [[a b] c0] eqn:E. intros H; injection H as <- _ _.
      apply IH in E. exact E.
    + intros H. eapply IH; eauto.
    + intros H. eapply IH; eauto.
Qed.

Lemma TInv_on_validation s p a s1 ev cl : TInv s -> on_validation s p a = Some (s1, ev, cl) -> TInv s1.
Proof.
  intros T M. unfold on_validation, svc_open, ok, ok_ev in M. setters_in M.
  split_all; TInv_close T.
Qed.

Lemma dropped_TInv l : forall s s' ev cl, dropped_validations s l = Some (s', ev, cl) -> TInv s -> TInv s'.
Proof.
  induction l as [|p l IH]; intros s s' ev cl; cbn.
  - intros H; injection H as <- _ _. auto.
  - destruct (on_validation s p false) as [[[s1 e1] c1]|] eqn:E; [|discriminate].
    destruct (dropped_validations s1 l) as [[[s2 e2] c2]|] eqn:E2; [|discriminate].
    intros H; injection H as <- _ _. intros T. eapply IH; eauto. eapply TInv_on_validation; eauto.
Qed.

Lemma task_dies_TInv s k s' ev : task_dies s k = (s', ev) -> TInv s -> TInv s'.
Proof.
  unfold task_dies. destruct (find_task k (tasks s)) as [t|]; [|intros E; injection E as <- _; auto].
  destruct (t_closing t); [intros E; injection E as <- _; auto|].
  destruct (t_gated t); intros E; injection E as <- _; intros T.
  - TInv_close T.
  - apply TInv_on_shutdown. TInv_close T.
Qed.

Lemma kill_tasks_TInv ks : forall s s' ev, kill_tasks s ks = (s', ev) -> TInv s -> TInv s'.
Proof.
  induction ks as [|k t IH]; intros s s' ev; cbn.
  - intros E; injection E as <- _; auto.
  - destruct (task_dies s k) as [s1 e1] eqn:E1. destruct (kill_tasks s1 t) as [s2 e2] eqn:E2.
    intros E; injection E as <- _. intros T. eapply IH; eauto. eapply task_dies_TInv; eauto.
Qed.

Lemma TInv_init : TInv init.
Proof. split; cbn; intros; try tauto. destruct H; discriminate. Qed.

Lemma step_TInv c s o s' ev cl : TInv s -> step c s o = Some (s', ev, cl) -> TInv s'.
Proof.
  intros T. unfold step.
  destruct (main_handler c s o) as [[[s1 ev1] calls]|] eqn:M; [|discriminate].
  pose proof (TInv_main _ _ _ _ _ _ T M) as T1.
  destruct (drain s1 ev1) as [[s2 dr] ks] eqn:D. pose proof (TInv_same _ _ (drain_tasks _ _ _ _ _ D) T1) as T2.
  destruct (dropped_validations s2 dr) as [[[s3 ev3] cl3]|] eqn:E3; [|discriminate].
  pose proof (dropped_TInv _ _ _ _ _ E3 T2) as T3.
  destruct (kill_tasks s3 ks) as [s4 ev4] eqn:K. pose proof (kill_tasks_TInv _ _ _ _ K T3) as T4.
  destruct (drain s4 (ev3 ++ ev4)) as [[s5 x] y] eqn:D5.
  intros H; injection H as <- _ _. eapply TInv_same; [eapply drain_tasks; eauto|auto].
Qed.

(* reachable states *)
Inductive reachable (c : cfg) : st -> Prop :=
| reach_init : reachable c init
| reach_step s o s' ev cl : reachable c s -> step c s o = Some (s', ev, cl) -> reachable c s'.

Lemma reachable_inv c s : reachable c s -> SInv s /\ TInv s.
Proof.
  induction 1 as [|s o s' ev cl R [I T] S].
  - split; [apply SInv_init|apply TInv_init].
  - split; [|eapply step_TInv; eauto].
    destruct (step_SInv c s o I) as (s2 & e2 & c2 & E & I2). rewrite E in S. injection S as <- _ _. exact I2.
Qed.

Lemma run_reachable c ops : forall s, reachable c s ->
  forall x, In x (fst (run c s ops)) -> reachable c (fst (fst x)).
Proof.
  induction ops as [|o t IH]; intros s R x; cbn; [intros []|].
  destruct (step c s o) as [[[s1 ev] cl]|] eqn:E; [|intros []].
  assert (R1 : reachable c s1) by (eapply reach_step; eauto).
  specialize (IH s1 R1). destruct (run c s1 t) as [r b]. cbn in *. intros [<-|Hx]; auto.
Qed.

(* ================================================================== isolation between peers *)
Definition uev_peer (e : uev) : peer :=
  match e with UValidate p | UOpened p _ | UClosed p | UFail p _ | UNotif p => p end.
Definition call_peer (c : call) : peer :=
  match c with CDial p | COpen p _ | CForce p => p end.

Definition iso_fields (s s' : st) (p : peer) : Prop :=
  forall q, q <> p ->
    ps s' q = ps s q /\ hsI s' q = hsI s q /\ hsO s' q = hsO s q /\ hopen s' q = hopen s q /\
    hval s' q = hval s q /\ conn s' q = conn s q /\ dead s' q = dead s q /\ lastt s' q = lastt s q.
Definition iso_spend (s s' : st) (p : peer) : Prop :=
  forall q y, q <> p -> (In (y, q) (spend s') <-> In (y, q) (spend s)).
Definition iso_out (p : peer) (ev : list uev) (cl : list call) : Prop :=
  Forall (fun e => uev_peer e = p) ev /\ Forall (fun c => call_peer c = p) cl.
Definition iso (s s' : st) (p : peer) (ev : list uev) (cl : list call) : Prop :=
  iso_fields s s' p /\ iso_spend s s' p /\ iso_out p ev cl.

Lemma iso_refl s p : iso s s p [] [].
Proof. split; [|split]; [intros q Hq; repeat split | intros q y Hq; tauto | split; constructor]. Qed.

Lemma iso_trans s s1 s2 p e1 c1 e2 c2 :
  iso s s1 p e1 c1 -> iso s1 s2 p e2 c2 -> iso s s2 p (e1 ++ e2) (c1 ++ c2).
Proof.
  intros (F1 & S1 & O1 & O1') (F2 & S2 & O2 & O2'). split; [|split; [|split]].
  - intros q Hq. destruct (F1 q Hq) as (A1 & A2 & A3 & A4 & A5 & A6 & A7 & A8).
    destruct (F2 q Hq) as (B1 & B2 & B3 & B4 & B5 & B6 & B7 & B8).
    repeat split; congruence.
  - intros q y Hq. rewrite (S2 q y Hq). apply S1; auto.
  - apply Forall_app; auto.
  - apply Forall_app; auto.
Qed.

Lemma spend_owner s x p q : SB s -> In (x, q) (spend s) -> In (x, p) (spend s) -> q = p.
Proof.
  intros [B1 _] H1 H2. destruct (B1 _ _ H1) as (_ & A & _). destruct (B1 _ _ H2) as (_ & A' & _). congruence.
Qed.

Ltac isof_close := let q := fresh "q" in let Hq := fresh "Hq" in
  intros q Hq; setters; rewrite ?upd_other by exact Hq; repeat split; reflexivity.
Ltac isos_close B :=
  let q := fresh "q" in let y := fresh "y" in let Hq := fresh "Hq" in
  intros q y Hq; setters;
  first [ tauto
        | rewrite in_app_iff; cbn; split; [intros [?|[X|[]]]; auto; inversion X; congruence | auto]
        | rewrite in_drop_peer; tauto
        | rewrite in_pend_remove; split; [tauto|];
          let H := fresh "H" in intros H; split; [exact H|];
          intros ->;
          match goal with Hf : first_req ?p (spend ?s) = Some ?x |- _ =>
            apply Hq; eapply (spend_owner s x p q B); [exact H | apply first_req_in; exact Hf] end ].
Ltac isoo_close := split; repeat match goal with |- context [if ?b then _ else _] => destruct b end; repeat constructor.
Ltac iso_close B := split; [isof_close | split; [isos_close B | isoo_close]].

Ltac sig_ev T :=
  match goal with
  | H0 : ?ev = [] \/ (exists t, find_task ?k _ = Some t /\ ?ev = [UClosed (t_peer t)]), Hp : ps ?s ?p = Some (Open ?k) |- _ =>
      let t := fresh "t" in let F := fresh "F" in let In1 := fresh "In1" in let Id1 := fresh "Id1" in
      destruct H0 as [->|(t & F & ->)];
      [| setters; apply find_task_some in F; destruct F as [In1 Id1];
         rewrite (proj2 (proj2 T p k (or_introl Hp)) t In1 Id1)]
  end.

Lemma iso_shutdown_after s s' p ev cl : iso s s' p ev cl -> iso s (on_shutdown s' p) p ev cl.
Proof.
  intros I. unfold on_shutdown. destruct (ps s' p) as [[]|]; auto.
  destruct (task_closed s' k); auto.
  destruct I as (F & S & O). split; [|split; auto].
  intros q Hq. destruct (F q Hq) as (A1 & A2). setters. rewrite upd_other by exact Hq. split; auto.
Qed.

Lemma finish_tasks_evs p l : forall l' ev n, finish_tasks p l = (l', ev, n) -> Forall (fun e => uev_peer e = p) ev.
Proof.
  induction l as [|a l IH]; cbn; intros l' ev n.
  - intros H; injection H as _ <- _. constructor.
  - destruct (finish_tasks p l) as [[r' e'] n'] eqn:E. specialize (IH _ _ _ eq_refl).
    destruct ((t_peer a =? p) && negb (t_gated a)); [destruct (t_closing a)|];
      intros H; injection H as _ <- _; auto.
Qed.

Lemma iso_main c s o s1 ev cl :
  SB s -> TInv s -> main_handler c s o = Some (s1, ev, cl) -> iso s s1 (op_peer o) ev cl.
Proof.
  intros B T M. destruct o; unfold_handlers M; cbn [op_peer].
  all: try (split_all; same_peer B; try (iso_close B; fail); try (sig_ev T; iso_close B; fail);
            try (apply iso_shutdown_after; iso_close B; fail); fail).
  match type of M with context [finish_tasks ?a ?b] => destruct (finish_tasks a b) as [[l' e'] n'] eqn:F end.
  apply finish_tasks_evs in F. split_all.
  assert (I : iso s (set_tasks s l') p ev []) by (split; [isof_close | split; [isos_close B | split; [exact F|constructor]]]).
  unfold run_shutdowns. match goal with |- context [if ?b then _ else _] => destruct b end; auto.
  now apply iso_shutdown_after.
Qed.

Definition same_rest (s s' : st) : Prop :=
  ps s' = ps s /\ pend s' = pend s /\ hsI s' = hsI s /\ hsO s' = hsO s /\ conn s' = conn s /\
  dead s' = dead s /\ nsid s' = nsid s /\ spend s' = spend s /\ tasks s' = tasks s /\
  ntask s' = ntask s /\ lastt s' = lastt s.

Lemma drain_iso p ev : Forall (fun e => uev_peer e = p) ev -> forall s s' dr ks,
  drain s ev = (s', dr, ks) ->
  same_rest s s' /\ (forall q, q <> p -> hopen s' q = hopen s q /\ hval s' q = hval s q) /\
  Forall (eq p) dr /\ (forall k, In k ks -> lastt s p = Some k).
Proof.
  induction 1 as [|e t He _ IH]; intros s s' dr ks; cbn.
  - intros H; injection H as <- <- <-. repeat split; auto. intros k [].
  - destruct e; cbn in He; subst p0.
    + destruct (hval s p) eqn:HV.
      * destruct (drain s t) as [[a b] c0] eqn:E. intros H; injection H as <- <- <-.
        destruct (IH _ _ _ _ E) as (A & B & C & D). split; [exact A|split; [exact B|split; [constructor; auto|exact D]]].
      * intros H. destruct (IH _ _ _ _ H) as (A & B & C & D). setters.
        split; [exact A|]. split; [|split; auto].
        intros q Hq. destruct (B q Hq) as [B1 B2]. rewrite upd_other in B2 by exact Hq. auto.
    + intros H. destruct (IH _ _ _ _ H) as (A & B & C & D). setters.
      split; [exact A|]. split; [|split; auto].
      intros q Hq. destruct (B q Hq) as [B1 B2]. rewrite upd_other in B1 by exact Hq. auto.
    + destruct (drain (set_hopen s p false) t) as [[a b] c0] eqn:E. intros H; injection H as <- <- <-.
      destruct (IH _ _ _ _ E) as (A & B & C & D). setters.
      split; [exact A|]. split; [|split; auto].
      * intros q Hq. destruct (B q Hq) as [B1 B2]. rewrite upd_other in B1 by exact Hq. auto.
      * intros k Hk. apply in_app_or in Hk. destruct Hk as [Hk|Hk]; auto.
        destruct (hopen s p); [|destruct Hk]. destruct (lastt s p) as [k0|]; [|destruct Hk].
        destruct (running s k0); [|destruct Hk]. destruct Hk as [<-|[]]. reflexivity.
    + intros H. eapply IH; eauto.
    + intros H. eapply IH; eauto.
Qed.

Lemma iso_of_drain s s' p :
  same_rest s s' -> (forall q, q <> p -> hopen s' q = hopen s q /\ hval s' q = hval s q) -> iso s s' p [] [].
Proof.
  intros (A1 & A2 & A3 & A4 & A5 & A6 & A7 & A8 & A9 & A10 & A11) G. split; [|split].
  - intros q Hq. destruct (G q Hq). rewrite A1, A3, A4, A5, A6, A11. repeat split; auto.
  - intros q y Hq. rewrite A8. tauto.
  - split; constructor.
Qed.

Lemma iso_on_validation s p a s1 ev cl : SB s -> on_validation s p a = Some (s1, ev, cl) -> iso s s1 p ev cl.
Proof.
  intros B M. unfold on_validation, svc_open, ok, ok_ev in M. setters_in M.
  split_all; iso_close B.
Qed.

Lemma dropped_iso p l : Forall (eq p) l -> forall s s' ev cl,
  SL s -> SB s -> dropped_validations s l = Some (s', ev, cl) -> iso s s' p ev cl.
Proof.
  induction 1 as [|q l <- _ IH]; intros s s' ev cl H B; cbn.
  - intros E; injection E as <- <- <-. apply iso_refl.
  - destruct (on_validation s p false) as [[[s1 e1] c1]|] eqn:E1; [|discriminate].
    destruct (dropped_validations s1 l) as [[[s2 e2] c2]|] eqn:E2; [|discriminate].
    intros E; injection E as <- <- <-.
    eapply iso_trans; [eapply iso_on_validation; eauto|].
    eapply IH; eauto using SL_on_validation, SB_on_validation.
Qed.

Lemma task_dies_iso s k p s' ev :
  TInv s -> lastt s p = Some k -> task_dies s k = (s', ev) -> iso s s' p ev [].
Proof.
  intros T Lk. unfold task_dies. destruct (find_task k (tasks s)) as [t|] eqn:F;
    [|intros E; injection E as <- <-; apply iso_refl].
  destruct (find_task_some _ _ _ F) as [In1 Id1].
  rewrite (proj2 (proj2 T p k (or_intror Lk)) t In1 Id1).
  destruct (t_closing t); [intros E; injection E as <- <-; apply iso_refl|].
  destruct (t_gated t); intros E; injection E as <- <-.
  - split; [isof_close|split; [intros q y Hq; setters; tauto|split; constructor]].
  - apply iso_shutdown_after. split; [isof_close|split; [intros q y Hq; setters; tauto|split; repeat constructor]].
Qed.

Lemma task_dies_lastt s k s' ev : task_dies s k = (s', ev) -> lastt s' = lastt s.
Proof.
  unfold task_dies. destruct (find_task k (tasks s)) as [t|]; [|intros E; injection E as <- _; auto].
  destruct (t_closing t); [intros E; injection E as <- _; auto|].
  destruct (t_gated t); intros E; injection E as <- _; auto.
  unfold on_shutdown. match goal with |- context [match ?x with _ => _ end] => destruct x as [[]|] end; auto.
  match goal with |- context [if ?x then _ else _] => destruct x end; auto.
Qed.

Lemma kill_tasks_iso p ks : forall s s' ev,
  TInv s -> (forall k, In k ks -> lastt s p = Some k) -> kill_tasks s ks = (s', ev) -> iso s s' p ev [].
Proof.
  induction ks as [|k t IH]; intros s s' ev T L; cbn.
  - intros E; injection E as <- <-. apply iso_refl.
  - destruct (task_dies s k) as [s1 e1] eqn:E1. destruct (kill_tasks s1 t) as [s2 e2] eqn:E2.
    intros E; injection E as <- <-.
    change (@nil call) with (@nil call ++ []).
    eapply iso_trans; [eapply task_dies_iso; eauto; apply L; left; reflexivity|].
    eapply IH; eauto using task_dies_TInv.
    intros k0 Hk. rewrite (task_dies_lastt _ _ _ _ E1). apply L. right. exact Hk.
Qed.

Lemma notifs_peer s o q : In q (notifs_of s o) -> q = op_peer o.
Proof.
  destruct o; cbn; try tauto;
    (destruct (lastt s p) as [k|]; [|intros []]; destruct (running s k); [|intros []]; intros [<-|[]]; reflexivity).
Qed.

Lemma on_validation_lastt s p a s1 ev cl : on_validation s p a = Some (s1, ev, cl) -> lastt s1 = lastt s.
Proof.
  intros M. unfold on_validation, svc_open, ok, ok_ev in M. setters_in M. split_all; reflexivity.
Qed.

Lemma dropped_lastt l : forall s s' ev cl, dropped_validations s l = Some (s', ev, cl) -> lastt s' = lastt s.
Proof.
  induction l as [|p l IH]; intros s s' ev cl; cbn.
  - intros E; injection E as <- _ _. reflexivity.
  - destruct (on_validation s p false) as [[[s1 e1] c1]|] eqn:E1; [|discriminate].
    destruct (dropped_validations s1 l) as [[[s2 e2] c2]|] eqn:E2; [|discriminate].
    intros E; injection E as <- _ _. rewrite (IH _ _ _ _ E2). eapply on_validation_lastt; eauto.
Qed.

Definition isoS (s s' : st) (p : peer) : Prop := iso_fields s s' p /\ iso_spend s s' p.

Lemma isoS_trans s s1 s2 p : isoS s s1 p -> isoS s1 s2 p -> isoS s s2 p.
Proof.
  intros [F1 S1] [F2 S2]. split.
  - intros q Hq. destruct (F1 q Hq) as (A1 & A2 & A3 & A4 & A5 & A6 & A7 & A8).
    destruct (F2 q Hq) as (B1 & B2 & B3 & B4 & B5 & B6 & B7 & B8). repeat split; congruence.
  - intros q y Hq. rewrite (S2 q y Hq). apply S1; auto.
Qed.

Lemma step_iso c s o s' ev cl :
  SInv s -> TInv s -> step c s o = Some (s', ev, cl) -> iso s s' (op_peer o) ev cl.
Proof.
  intros [H B] T. unfold step. set (p := op_peer o).
  destruct (main_handler c s o) as [[[s1 ev1] cl1]|] eqn:M; [|discriminate].
  destruct (iso_main _ _ _ _ _ _ B T M) as (F1 & S1 & O1 & C1). fold p in F1, S1, O1, C1.
  pose proof (SL_main _ _ _ _ _ _ H M) as H1. pose proof (SB_main _ _ _ _ _ _ B M) as B1.
  pose proof (TInv_main _ _ _ _ _ _ T M) as T1.
  destruct (drain s1 ev1) as [[s2 dr] ks] eqn:D.
  destruct (drain_iso p ev1 O1 _ _ _ _ D) as (R2 & G2 & DR & KS).
  destruct (iso_of_drain _ _ p R2 G2) as (F2 & S2 & _).
  pose proof (drain_net _ _ _ _ _ D) as N2. pose proof (drain_tasks _ _ _ _ _ D) as TS2.
  pose proof (SL_net _ _ N2 H1) as H2. pose proof (SB_net _ _ N2 B1) as B2. pose proof (TInv_same _ _ TS2 T1) as T2.
  destruct (dropped_validations s2 dr) as [[[s3 ev3] cl3]|] eqn:E3; [|discriminate].
  destruct (dropped_iso p dr DR _ _ _ _ H2 B2 E3) as (F3 & S3 & O3 & C3).
  pose proof (dropped_TInv _ _ _ _ _ E3 T2) as T3.
  destruct (kill_tasks s3 ks) as [s4 ev4] eqn:K.
  assert (KS3 : forall k, In k ks -> lastt s3 p = Some k).
  { intros k Hk. rewrite (dropped_lastt _ _ _ _ _ E3). destruct R2 as (_ & _ & _ & _ & _ & _ & _ & _ & _ & _ & L2).
    rewrite L2. auto. }
  destruct (kill_tasks_iso p ks _ _ _ T3 KS3 K) as (F4 & S4 & O4 & _).
  destruct (drain s4 (ev3 ++ ev4)) as [[s5 x] y] eqn:D5.
  assert (O34 : Forall (fun e => uev_peer e = p) (ev3 ++ ev4)) by (apply Forall_app; auto).
  destruct (drain_iso p (ev3 ++ ev4) O34 _ _ _ _ D5) as (R5 & G5 & _ & _).
  destruct (iso_of_drain _ _ p R5 G5) as (F5 & S5 & _).
  intros E; injection E as <- <- <-.
  assert (ST : isoS s s5 p).
  { eapply isoS_trans; [split; [exact F1|exact S1]|].
    eapply isoS_trans; [split; [exact F2|exact S2]|].
    eapply isoS_trans; [split; [exact F3|exact S3]|].
    eapply isoS_trans; [split; [exact F4|exact S4]|]. split; [exact F5|exact S5]. }
  destruct ST as [FF SS]. split; [exact FF|split; [exact SS|split]].
  - repeat (apply Forall_app; split); auto.
    apply Forall_forall. intros e He. apply in_map_iff in He. destruct He as (q & <- & Hq).
    apply filter_In in Hq. cbn. apply (notifs_peer s o). tauto.
  - apply Forall_app; auto.
Qed.

(* ================================================================== the accepted-inbound state has an origin *)
Definition acc_inb (x : option pstate) : bool :=
  match x with Some (Validating _ _ (ISending | IOpen)) => true | _ => false end.

(* the two transitions that accept an inbound substream: the user's Accept for a substream that is
   being validated, and the auto-accept branch (auto_accept configured and an outbound substream
   already initiated) when the remote handshake has been read *)
Definition is_accept (c : cfg) (s : st) (o : op) (p : peer) : bool :=
  match o with
  | Validate q true =>
      (q =? p) && hval s p &&
      match ps s p with Some (Validating _ _ IValidating) => true | _ => false end
  | HsIn q true =>
      (q =? p) && hsI s p && auto_accept c &&
      match ps s p with Some (Validating _ ob IReading) => negb (o_closed ob) | _ => false end
  | _ => false
  end.

Definition noacc (s s' : st) : Prop := forall q, acc_inb (ps s' q) = true -> acc_inb (ps s q) = true.

Ltac acc_close :=
  let q := fresh "q" in let A := fresh "A" in let N0 := fresh "N" in let E := fresh "E" in
  intros q A N0; setters; unfold upd in A;
  repeat match type of A with context [q =? ?p] => destruct (q =? p) eqn:E; [apply N.eqb_eq in E; subst q|] end;
  try congruence; cbn in A; try discriminate A;
  repeat match goal with E : ps _ _ = _ |- _ => rewrite E in N0 end; cbn in N0; try discriminate N0;
  repeat match goal with E : _ && _ = true |- _ => apply andb_true_iff in E; destruct E end;
  cbn [is_accept]; rewrite ?N.eqb_refl;
  repeat match goal with E : _ = _ |- _ => rewrite E end; cbn; try reflexivity; try congruence.

Lemma noacc_on_shutdown s p q : acc_inb (ps (on_shutdown s p) q) = true -> acc_inb (ps s q) = true.
Proof.
  unfold on_shutdown. destruct (ps s p) as [[]|] eqn:Hp; auto. destruct (task_closed s k); auto.
  setters. unfold upd. destruct (q =? p); auto. discriminate.
Qed.

Lemma accept_main c s o s1 ev cl :
  main_handler c s o = Some (s1, ev, cl) ->
  forall q, acc_inb (ps s1 q) = true -> acc_inb (ps s q) = false -> is_accept c s o q = true.
Proof.
  intros M. destruct o; unfold_handlers M.
  all: try (split_all; try (acc_close; fail); fail).
  - split_all; try (acc_close; fail). intros q A N0. apply noacc_on_shutdown in A. setters. congruence.
  - match type of M with context [finish_tasks ?a ?b] => destruct (finish_tasks a b) as [[l' e'] n'] end.
    split_all. intros q A N0. unfold run_shutdowns in A.
    match type of A with context [if ?b then _ else _] => destruct b end; [|apply noacc_on_shutdown in A]; setters; congruence.
  - split_all; try (acc_close; fail). intros q A N0. apply noacc_on_shutdown in A. setters. congruence.
Qed.

Lemma noacc_on_validation s p s1 ev cl q :
  on_validation s p false = Some (s1, ev, cl) -> acc_inb (ps s1 q) = true -> acc_inb (ps s q) = true.
Proof.
  intros M. unfold on_validation, svc_open, ok, ok_ev in M. setters_in M.
  split_all; intros A; setters; unfold upd in A;
    repeat match type of A with context [q =? ?r] => destruct (q =? r) end; auto; discriminate A.
Qed.

Lemma noacc_dropped l : forall s s' ev cl q,
  dropped_validations s l = Some (s', ev, cl) -> acc_inb (ps s' q) = true -> acc_inb (ps s q) = true.
Proof.
  induction l as [|p l IH]; intros s s' ev cl q; cbn.
  - intros E; injection E as <- _ _. auto.
  - destruct (on_validation s p false) as [[[s1 e1] c1]|] eqn:E1; [|discriminate].
    destruct (dropped_validations s1 l) as [[[s2 e2] c2]|] eqn:E2; [|discriminate].
    intros E; injection E as <- _ _. intros A. eapply noacc_on_validation; eauto.
Qed.

Lemma noacc_task_dies s k s' ev q : task_dies s k = (s', ev) -> acc_inb (ps s' q) = true -> acc_inb (ps s q) = true.
Proof.
  unfold task_dies. destruct (find_task k (tasks s)) as [t|]; [|intros E; injection E as <- _; auto].
  destruct (t_closing t); [intros E; injection E as <- _; auto|].
  destruct (t_gated t); intros E; injection E as <- _; auto.
  intros A. apply noacc_on_shutdown in A. exact A.
Qed.

Lemma noacc_kill ks : forall s s' ev q, kill_tasks s ks = (s', ev) -> acc_inb (ps s' q) = true -> acc_inb (ps s q) = true.
Proof.
  induction ks as [|k t IH]; intros s s' ev q; cbn.
  - intros E; injection E as <- _; auto.
  - destruct (task_dies s k) as [s1 e1] eqn:E1. destruct (kill_tasks s1 t) as [s2 e2] eqn:E2.
    intros E; injection E as <- _. intros A. eapply noacc_task_dies; eauto.
Qed.

Lemma accept_step c s o s' ev cl q :
  step c s o = Some (s', ev, cl) -> acc_inb (ps s' q) = true -> acc_inb (ps s q) = false ->
  is_accept c s o q = true.
Proof.
  unfold step. destruct (main_handler c s o) as [[[s1 ev1] cl1]|] eqn:M; [|discriminate].
  destruct (drain s1 ev1) as [[s2 dr] ks] eqn:D. pose proof (drain_tasks _ _ _ _ _ D) as (P2 & _).
  destruct (dropped_validations s2 dr) as [[[s3 ev3] cl3]|] eqn:E3; [|discriminate].
  destruct (kill_tasks s3 ks) as [s4 ev4] eqn:K.
  destruct (drain s4 (ev3 ++ ev4)) as [[s5 x] y] eqn:D5. pose proof (drain_tasks _ _ _ _ _ D5) as (P5 & _).
  intros E; injection E as <- _ _. rewrite P5. intros A N0.
  eapply accept_main; eauto. rewrite <- P2.
  eapply noacc_dropped; eauto. eapply noacc_kill; eauto.
Qed.

(* state after a list of events (None: stuck on the way) *)
Fixpoint exec (c : cfg) (s : st) (l : list op) : option st :=
  match l with
  | [] => Some s
  | o :: t => match step c s o with Some (s1, _, _) => exec c s1 t | None => None end
  end.

Lemma acc_history c p pre : forall s0 s,
  exec c s0 pre = Some s -> acc_inb (ps s p) = true ->
  acc_inb (ps s0 p) = true \/
  exists pre1 a pre2 s1, pre = pre1 ++ a :: pre2 /\ exec c s0 pre1 = Some s1 /\ is_accept c s1 a p = true.
Proof.
  induction pre as [|a t IH]; intros s0 s; cbn.
  - intros E; injection E as <-. auto.
  - destruct (step c s0 a) as [[[s1 ev] cl]|] eqn:S; [|discriminate].
    intros E A. destruct (IH _ _ E A) as [A1|(pre1 & b & pre2 & s2 & -> & E1 & Acc)].
    + destruct (acc_inb (ps s0 p)) eqn:A0; auto. right.
      exists [], a, t, s0. repeat split; auto. eapply accept_step; eauto.
    + right. exists (a :: pre1), b, pre2, s2. repeat split; auto. cbn. now rewrite S.
Qed.

Lemma accepted_in_acc x d : accepted_in x d -> acc_inb x = true.
Proof. intros [(i & -> & ->)|(o & -> & ->)]; reflexivity. Qed.

Lemma inbound_needs_accept c pre s o s' ev cl p d :
  exec c init pre = Some s -> step c s o = Some (s', ev, cl) -> In (UOpened p d) ev ->
  exists pre1 a pre2 s1,
    pre = pre1 ++ a :: pre2 /\ exec c init pre1 = Some s1 /\ is_accept c s1 a p = true.
Proof.
  intros E S HIn. pose proof (accepted_in_acc _ _ (step_opened _ _ _ _ _ _ _ _ S HIn)) as A.
  destruct (acc_history c p pre init s E A) as [A0|X]; auto. discriminate A0.
Qed.

(* ================================================================== the open-request ledger *)
Definition in_progress (x : option pstate) : bool :=
  match x with
  | Some (OutInit _) => true
  | Some (Validating _ o _) => negb (o_closed o)
  | _ => false
  end.
Definition is_answer (p : peer) (e : uev) : bool :=
  match e with UOpened q _ | UFail q _ => q =? p | _ => false end.
Definition has_answer (p : peer) (ev : list uev) : bool := existsb (is_answer p) ev.
Definition has_validate (p : peer) (ev : list uev) : bool :=
  existsb (fun e => match e with UValidate q => q =? p | _ => false end) ev.

(* an open request the protocol takes up: the user's command passes the handle gate and finds the
   peer connected with no negotiation in progress (PeerState::Closed, with or without a remembered
   pending substream id) *)
Definition request_accepted (s : st) (o : op) (p : peer) : bool :=
  match o with
  | CmdOpen q => (q =? p) && negb (hopen s p) &&
                 match ps s p with Some (Closed _) => true | _ => false end
  | _ => false
  end.
(* the user rejects the inbound substream of the peer that is being validated: by design this
   discards an outbound attempt as well, without a report *)
Definition user_reject (s : st) (o : op) (p : peer) : bool :=
  match o with
  | Validate q false => (q =? p) && hval s p &&
                        match ps s p with Some (Validating _ _ IValidating) => true | _ => false end
  | _ => false
  end.

Ltac leave_close :=
  let q := fresh "q" in let A := fresh "A" in let N0 := fresh "N" in let E := fresh "E" in
  intros q A N0; setters; unfold upd in N0;
  repeat match type of N0 with context [q =? ?p] => destruct (q =? p) eqn:E; [apply N.eqb_eq in E; subst q|] end;
  try congruence;
  repeat match goal with E : ps _ _ = _ |- _ => rewrite E in A end; cbn in A; try discriminate A;
  repeat match goal with o : outb |- _ => destruct o end; cbn in A, N0; try discriminate A; try discriminate N0;
  repeat match goal with E : o_closed _ = _ |- _ => cbn in E; try discriminate E end;
  cbn [has_answer existsb is_answer user_reject]; rewrite ?N.eqb_refl; cbn;
  first [ left; reflexivity
        | right; repeat match goal with E : _ = _ |- _ => rewrite E end; reflexivity ].

Lemma inprog_on_shutdown s p q : in_progress (ps (on_shutdown s p) q) = in_progress (ps s q).
Proof.
  unfold on_shutdown. destruct (ps s p) as [[]|] eqn:Hp; auto. destruct (task_closed s k); auto.
  setters. unfold upd. destruct (q =? p) eqn:E; auto. apply N.eqb_eq in E. subst q. now rewrite Hp.
Qed.

Lemma leave_main c s o s1 ev cl :
  main_handler c s o = Some (s1, ev, cl) ->
  forall q, in_progress (ps s q) = true -> in_progress (ps s1 q) = false ->
            has_answer q ev = true \/ user_reject s o q = true.
Proof.
  intros M. destruct o; unfold_handlers M.
  all: try (split_all; try (leave_close; fail); fail).
  - split_all; try (leave_close; fail). intros q A N0. rewrite inprog_on_shutdown in N0. setters. congruence.
  - match type of M with context [finish_tasks ?a ?b] => destruct (finish_tasks a b) as [[l' e'] n'] end.
    split_all. intros q A N0. unfold run_shutdowns in N0.
    match type of N0 with context [if ?b then _ else _] => destruct b end; [|rewrite inprog_on_shutdown in N0]; setters; congruence.
  - split_all; try (leave_close; fail). intros q A N0. rewrite inprog_on_shutdown in N0. setters. congruence.
Qed.

(* no kept failed id (outside finding class 2): every substream id a peer state waits for is owed by the transport *)
Definition B3 (s : st) : Prop := forall p x, wq (ps s p) = Some x -> In (x, p) (spend s).

Definition class2_step (s : st) (o : op) : bool :=
  match o with
  | OpenFail p =>
      conn s p &&
      match first_req p (spend s) with
      | Some _ => match ps s p with Some (Validating _ (OInit _) _) => true | _ => false end
      | None => false
      end
  | _ => false
  end.

Lemma B3_mono s s' :
  B3 s -> (forall q x, wq (ps s' q) = Some x -> wq (ps s q) = Some x) ->
  (forall e, In e (spend s) -> In e (spend s')) -> B3 s'.
Proof. intros B W S p x H. apply S, B, W, H. Qed.

Lemma B3_new s s' p v :
  B3 s -> ps_at s s' p v -> wq v = Some (nsid s) -> spend s' = spend s ++ [(nsid s, p)] -> B3 s'.
Proof.
  intros B PA Wv S q x H. rewrite S. apply in_or_app. rewrite PA in H. destruct (q =? p) eqn:E.
  - apply N.eqb_eq in E. subst q. rewrite Wv in H. injection H as <-. right. left. reflexivity.
  - left. auto.
Qed.

Lemma B3_answer s s' p x v :
  B3 s -> SB s -> In (x, p) (spend s) -> ps_at s s' p v -> wq v = None ->
  spend s' = pend_remove x (spend s) -> B3 s'.
Proof.
  intros B SBs Hx PA Wv S q y H. rewrite S. rewrite PA in H. destruct (q =? p) eqn:E.
  - rewrite Wv in H. discriminate.
  - apply in_pend_remove. split; auto. intros ->. apply N.eqb_neq in E. apply E.
    eapply spend_owner; eauto.
Qed.

Lemma B3_closed s s' p v :
  B3 s -> ps_at s s' p v -> wq v = None -> spend s' = drop_peer p (spend s) -> B3 s'.
Proof.
  intros B PA Wv S q y H. rewrite S. rewrite PA in H. destruct (q =? p) eqn:E.
  - rewrite Wv in H. discriminate.
  - apply in_drop_peer. split; auto. now apply N.eqb_neq.
Qed.

Ltac wq_mono_close :=
  let q := fresh "q" in let x := fresh "x" in let E := fresh "E" in let X := fresh "X" in
  intros q x; setters; unfold upd;
  repeat (match goal with |- context [q =? ?p] => destruct (q =? p) eqn:E; [apply N.eqb_eq in E; subst q|] end);
  repeat match goal with E : ps _ _ = _ |- _ => rewrite E end;
  repeat match goal with o : outb |- _ => destruct o end; cbn; intros X; first [exact X | discriminate X | congruence].
Ltac B3_mono_close B := eapply (B3_mono _ _ B); [wq_mono_close | setters; intros e He; first [exact He | apply in_or_app; left; exact He]].
Ltac B3_new_close B :=
  match goal with |- context [spend ?s ++ [(nsid ?s, ?p)]] =>
    eapply (B3_new s _ p _ B); [psat_close | reflexivity | reflexivity] end.
Ltac B3_closed_close B :=
  match goal with |- context [drop_peer ?p (spend ?s)] =>
    eapply (B3_closed s _ p _ B); [psat_close | reflexivity | reflexivity] end.
Ltac B3_answer_close B SBs :=
  same_peer SBs;
  match goal with Hf : first_req ?p (spend ?s) = Some ?x |- _ =>
    eapply (B3_answer s _ p x _ B SBs); [apply first_req_in; exact Hf | psat_close | reflexivity | reflexivity] end.
Ltac class2_contra C2 :=
  exfalso; unfold class2_step in C2;
  repeat match goal with E : _ = _ |- _ => tryif constr_eq E C2 then fail else rewrite E in C2 end; cbn in C2; discriminate C2.
Ltac B3_close B SBs C2 :=
  first [B3_mono_close B | B3_new_close B | B3_closed_close B | B3_answer_close B SBs | (same_peer SBs; class2_contra C2)].

Lemma B3_on_shutdown s p : B3 s -> B3 (on_shutdown s p).
Proof.
  intros B. unfold on_shutdown. destruct (ps s p) as [[]|] eqn:Hp; auto.
  destruct (task_closed s k); auto. B3_mono_close B.
Qed.

Lemma B3_main c s o s1 ev cl :
  B3 s -> SB s -> class2_step s o = false -> main_handler c s o = Some (s1, ev, cl) -> B3 s1.
Proof.
  intros B SBs C2 M. destruct o; unfold_handlers M.
  all: try (split_all; try (B3_close B SBs C2; fail); fail).
  - split_all; try (B3_close B SBs C2; fail). apply B3_on_shutdown. B3_mono_close B.
  - match type of M with context [finish_tasks ?a ?b] => destruct (finish_tasks a b) as [[l' e'] n'] end.
    split_all. unfold run_shutdowns. match goal with |- context [if ?b then _ else _] => destruct b end; [|apply B3_on_shutdown]; B3_mono_close B.
  - split_all; try (B3_close B SBs C2; fail). apply B3_on_shutdown. B3_mono_close B.
Qed.

(* no replaced validation: a substream that is being validated has its request at the handle *)
Definition val_state (x : option pstate) : bool :=
  match x with Some (Validating _ _ IValidating) => true | _ => false end.
Definition L3 (s : st) : Prop := forall p, val_state (ps s p) = true -> hval s p = true.

Ltac L3_close L :=
  let q := fresh "q" in let V := fresh "V" in let E := fresh "E" in
  intros q V; setters; unfold upd in *;
  repeat match goal with
         | _ : context [q =? ?p] |- _ => destruct (q =? p) eqn:E; [apply N.eqb_eq in E; subst q|]
         | |- context [q =? ?p] => destruct (q =? p) eqn:E; [apply N.eqb_eq in E; subst q|]
         end;
  cbn in V; try discriminate V;
  try (repeat match goal with E : ps _ _ = _ |- _ => rewrite E in V end; cbn in V; discriminate V);
  first [ left; apply L; repeat match goal with E : ps _ _ = _ |- _ => rewrite E end; first [exact V | reflexivity]
        | right; cbn; rewrite ?N.eqb_refl; reflexivity ].

Lemma val_on_shutdown s p q : val_state (ps (on_shutdown s p) q) = true -> val_state (ps s q) = true.
Proof.
  unfold on_shutdown. destruct (ps s p) as [[]|] eqn:Hp; auto. destruct (task_closed s k); auto.
  setters. unfold upd. destruct (q =? p); auto. discriminate.
Qed.

Lemma hval_on_shutdown s p : hval (on_shutdown s p) = hval s.
Proof.
  unfold on_shutdown. destruct (ps s p) as [[]|]; auto. destruct (task_closed s k); auto.
Qed.

Lemma L3_main c s o s1 ev cl :
  L3 s -> main_handler c s o = Some (s1, ev, cl) ->
  forall q, val_state (ps s1 q) = true -> hval s1 q = true \/ has_validate q ev = true.
Proof.
  intros L M. destruct o; unfold_handlers M.
  all: try (split_all; try (L3_close L; fail); fail).
  - split_all; try (L3_close L; fail). intros q V. apply val_on_shutdown in V. rewrite hval_on_shutdown. left. apply L, V.
  - match type of M with context [finish_tasks ?a ?b] => destruct (finish_tasks a b) as [[l' e'] n'] end.
    split_all. intros q V. unfold run_shutdowns in *.
    match goal with |- context [if ?b then _ else _] => destruct b end;
      [|apply val_on_shutdown in V; rewrite hval_on_shutdown]; left; apply L, V.
  - split_all; try (L3_close L; fail). intros q V. apply val_on_shutdown in V. rewrite hval_on_shutdown. left. apply L, V.
Qed.

Lemma request_main c s o p s1 ev cl :
  request_accepted s o p = true -> main_handler c s o = Some (s1, ev, cl) ->
  has_answer p ev = true \/ in_progress (ps s1 p) = true.
Proof.
  destruct o; cbn [request_accepted]; try discriminate.
  intros R. apply andb_true_iff in R. destruct R as [R R3]. apply andb_true_iff in R. destruct R as [R1 R2].
  apply N.eqb_eq in R1. subst p0. apply negb_true_iff in R2.
  destruct (ps s p) as [[| |po| | | |]|] eqn:Hp; try discriminate R3.
  cbn [main_handler]. rewrite R2. unfold on_open. rewrite Hp. destruct po as [y|].
  - unfold ok. intros M; injection M as <- <- <-. setters. rewrite upd_same. auto.
  - unfold svc_open.
    destruct (conn s p); [destruct (dead s p)|]; intros M; injection M as <- <- <-; setters; rewrite ?upd_same; cbn;
      rewrite ?N.eqb_refl; auto.
Qed.

Definition answers (p : peer) (ev : list uev) : list uev := filter (is_answer p) ev.

Lemma finish_tasks_noans p l q : forall l' ev n, finish_tasks p l = (l', ev, n) -> answers q ev = [].
Proof.
  induction l as [|a l IH]; cbn; intros l' ev n.
  - intros H; injection H as _ <- _. reflexivity.
  - destruct (finish_tasks p l) as [[r' e'] n'] eqn:E. specialize (IH _ _ _ eq_refl).
    destruct ((t_peer a =? p) && negb (t_gated a)); [destruct (t_closing a)|];
      intros H; injection H as _ <- _; auto.
Qed.

Ltac ans_close :=
  let q := fresh "q" in intros q;
  try match goal with
      | H0 : ?ev = [] \/ (exists t, _ /\ ?ev = [UClosed _]) |- _ => destruct H0 as [->|(? & ? & ->)]
      end;
  unfold answers; cbn [filter is_answer];
  repeat match goal with |- context [if ?b then _ else _] => destruct b end; cbn; lia.

Lemma answers_main c s o s1 ev cl :
  main_handler c s o = Some (s1, ev, cl) -> forall q, (length (answers q ev) <= 1)%nat.
Proof.
  intros M. destruct o; unfold_handlers M.
  all: try (split_all; ans_close; fail).
  match type of M with context [finish_tasks ?a ?b] => destruct (finish_tasks a b) as [[l' e'] n'] eqn:F end.
  split_all. intros q. rewrite (finish_tasks_noans _ _ q _ _ _ F). cbn. lia.
Qed.

(* what the protocol still expects from its environment for the outbound half of peer p *)
Definition obligation (s : st) (p : peer) : bool :=
  match ps s p with
  | Some (OutInit x) | Some (Validating _ (OInit x) _) =>
      existsb (fun e => (fst e =? x) && (snd e =? p)) (spend s)     (* the transport owes the substream *)
  | Some (Validating _ ONeg _) => hsO s p                             (* the handshake service owes an event *)
  | Some (Validating _ OOpen IClosed) => true                         (* remote's substream or the 5 s timer *)
  | Some (Validating _ OOpen (IReading | ISending)) => hsI s p
  | Some (Validating _ OOpen IValidating) => hval s p                 (* the user owes a validation result *)
  | _ => false
  end.

Lemma existsb_spend x p l : In (x, p) l -> existsb (fun e : sid * peer => (fst e =? x) && (snd e =? p)) l = true.
Proof.
  intros H. apply existsb_exists. exists (x, p). split; auto. cbn. now rewrite !N.eqb_refl.
Qed.

Lemma obligation_ok s p : SL s -> B3 s -> L3 s -> in_progress (ps s p) = true -> obligation s p = true.
Proof.
  intros H B L I. pose proof (H p) as K. pose proof (B p) as Bp. pose proof (L p) as Lp.
  unfold obligation, pok in *. destruct (ps s p) as [[|b|po| |y|d o i|k]|]; try discriminate I.
  - apply existsb_spend, Bp. reflexivity.
  - destruct o; try discriminate I.
    + apply existsb_spend, Bp. reflexivity.
    + destruct (conn s p), (hsI s p), (hsO s p), i; cbn in K; try discriminate K; reflexivity.
    + destruct i; try reflexivity;
        try (destruct (conn s p), (hsI s p), (hsO s p); cbn in K; try discriminate K; reflexivity).
      apply Lp. reflexivity.
Qed.

Definition drops (c : cfg) (s : st) (o : op) : list peer :=
  match main_handler c s o with
  | Some (s1, ev, _) => snd (fst (drain s1 ev))
  | None => []
  end.

Lemma drain_hval_mono ev : forall s s' dr ks p, drain s ev = (s', dr, ks) -> hval s p = true -> hval s' p = true.
Proof.
  induction ev as [|e t IH]; intros s s' dr ks p; cbn.
  - intros H; injection H as <- _ _. auto.
  - destruct e.
    + destruct (hval s p0) eqn:HV.
      * destruct (drain s t) as [[a b] c0] eqn:E. intros H; injection H as <- _ _. eapply IH; eauto.
      * intros H A. eapply (IH _ _ _ _ _ H). setters. unfold upd. destruct (p =? p0); auto.
    + intros H A. eapply (IH _ _ _ _ _ H). exact A.
    + destruct (drain (set_hopen s p0 false) t) as [[a b] c0] eqn:E. intros H; injection H as <- _ _.
      intros A. eapply (IH _ _ _ _ _ E). exact A.
    + intros H. eapply IH; eauto.
    + intros H. eapply IH; eauto.
Qed.

Lemma drain_sets ev : forall s s' dr ks p, drain s ev = (s', dr, ks) -> has_validate p ev = true -> hval s' p = true.
Proof.
  induction ev as [|e t IH]; intros s s' dr ks p; cbn; [discriminate|].
  destruct e; cbn.
  - destruct (p0 =? p) eqn:E; cbn.
    + apply N.eqb_eq in E. subst p0. destruct (hval s p) eqn:HV.
      * destruct (drain s t) as [[a b] c0] eqn:D. intros H; injection H as <- _ _. intros _.
        eapply drain_hval_mono; eauto.
      * intros H _. eapply (drain_hval_mono _ _ _ _ _ _ H). setters. apply upd_same.
    + destruct (hval s p0).
      * destruct (drain s t) as [[a b] c0] eqn:D. intros H; injection H as <- _ _. eapply IH; eauto.
      * intros H. eapply (IH _ _ _ _ _ H).
  - intros H. eapply (IH _ _ _ _ _ H).
  - destruct (drain (set_hopen s p0 false) t) as [[a b] c0] eqn:D. intros H; injection H as <- _ _. eapply (IH _ _ _ _ _ D).
  - intros H. eapply IH; eauto.
  - intros H. eapply IH; eauto.
Qed.

Lemma task_dies_ledger s k s' ev :
  task_dies s k = (s', ev) ->
  (forall q, in_progress (ps s' q) = in_progress (ps s q)) /\ (B3 s -> B3 s') /\ (L3 s -> L3 s') /\
  (forall q, answers q ev = []).
Proof.
  unfold task_dies. destruct (find_task k (tasks s)) as [t|]; [|intros E; injection E as <- <-; auto].
  destruct (t_closing t); [intros E; injection E as <- <-; auto|].
  destruct (t_gated t); intros E; injection E as <- <-.
  - repeat split; auto.
  - repeat split; auto.
    + intros q. now rewrite inprog_on_shutdown.
    + intros B. apply B3_on_shutdown. exact B.
    + intros L q V. apply val_on_shutdown in V. rewrite hval_on_shutdown. apply L, V.
Qed.

Lemma kill_tasks_ledger ks : forall s s' ev,
  kill_tasks s ks = (s', ev) ->
  (forall q, in_progress (ps s' q) = in_progress (ps s q)) /\ (B3 s -> B3 s') /\ (L3 s -> L3 s') /\
  (forall q, answers q ev = []).
Proof.
  induction ks as [|k t IH]; intros s s' ev; cbn.
  - intros E; injection E as <- <-; auto.
  - destruct (task_dies s k) as [s1 e1] eqn:E1. destruct (kill_tasks s1 t) as [s2 e2] eqn:E2.
    intros E; injection E as <- <-.
    destruct (task_dies_ledger _ _ _ _ E1) as (A1 & A2 & A3 & A4).
    destruct (IH _ _ _ E2) as (C1 & C2 & C3 & C4).
    repeat split; auto.
    + intros q. now rewrite C1.
    + intros q. unfold answers in *. rewrite filter_app, A4, C4. reflexivity.
Qed.

Lemma answers_nil_has q ev : answers q ev = [] -> has_answer q ev = false.
Proof.
  unfold answers, has_answer. induction ev as [|e t IH]; cbn; auto.
  destruct (is_answer q e); [discriminate|auto].
Qed.

Lemma has_answer_app q a b : has_answer q (a ++ b) = has_answer q a || has_answer q b.
Proof. apply existsb_app. Qed.

Lemma has_answer_notifs q l : has_answer q (map UNotif l) = false.
Proof. induction l; cbn; auto. Qed.

(* the ledger: a request the protocol took up is owed an answer until NotificationStreamOpened or
   NotificationStreamOpenFailure for the peer is reported (or the user rejects the peer's inbound
   substream, which discards the outbound attempt by design) *)
Definition owed_next (s : st) (o : op) (ev : list uev) (owed : peer -> bool) : peer -> bool :=
  fun p => if has_answer p ev then false
           else if request_accepted s o p then true
           else if user_reject s o p then false else owed p.

Record LInv (s : st) (owed : peer -> bool) : Prop := mkLInv {
  l_owed : forall p, owed p = true -> in_progress (ps s p) = true;
  l_b3 : B3 s;
  l_l3 : L3 s
}.

Lemma B3_same s s' : ps s' = ps s -> spend s' = spend s -> B3 s -> B3 s'.
Proof. intros P S B p x. rewrite P, S. apply B. Qed.

Lemma step_ledger c s o owed s' ev cl :
  SInv s -> LInv s owed -> class2_step s o = false -> drops c s o = [] ->
  step c s o = Some (s', ev, cl) -> LInv s' (owed_next s o ev owed).
Proof.
  intros [H B] [L1 LB L3s] C2 D0. unfold step, drops in *.
  destruct (main_handler c s o) as [[[s1 ev1] cl1]|] eqn:M; [|discriminate].
  destruct (drain s1 ev1) as [[s2 dr] ks] eqn:D. cbn in D0. subst dr.
  cbn [dropped_validations ok]. destruct (kill_tasks s2 ks) as [s4 ev4] eqn:K. cbn [app].
  destruct (drain s4 ev4) as [[s5 x] y] eqn:D5.
  intros E; injection E as <- <- <-.
  pose proof (drain_tasks _ _ _ _ _ D) as (P2 & _). pose proof (drain_net _ _ _ _ _ D) as (_ & _ & _ & _ & _ & S2 & _).
  pose proof (drain_tasks _ _ _ _ _ D5) as (P5 & _). pose proof (drain_net _ _ _ _ _ D5) as (_ & _ & _ & _ & _ & S5 & _).
  destruct (kill_tasks_ledger _ _ _ _ K) as (KI & KB & KL & KA).
  assert (IP : forall q, in_progress (ps s5 q) = in_progress (ps s1 q)) by (intros q; rewrite P5, KI, P2; reflexivity).
  assert (HA : forall q, has_answer q (ev1 ++ map UNotif (filter (hopen s2) (notifs_of s o)) ++ ev4) = has_answer q ev1).
  { intros q. rewrite !has_answer_app, has_answer_notifs, (answers_nil_has _ _ (KA q)). now rewrite !orb_false_r. }
  constructor.
  - intros p. unfold owed_next. rewrite HA, IP.
    destruct (has_answer p ev1) eqn:A1; [discriminate|].
    destruct (request_accepted s o p) eqn:R.
    + intros _. destruct (request_main _ _ _ _ _ _ _ R M); congruence.
    + destruct (user_reject s o p) eqn:U; [discriminate|]. intros O. specialize (L1 p O).
      destruct (in_progress (ps s1 p)) eqn:I1; auto.
      destruct (leave_main _ _ _ _ _ _ M p L1 I1); congruence.
  - pose proof (B3_main _ _ _ _ _ _ LB B C2 M) as B1.
    eapply B3_same; [exact P5|exact S5|]. apply KB. eapply B3_same; [exact P2|exact S2|exact B1].
  - assert (L2 : L3 s2).
    { intros q V. rewrite P2 in V. destruct (L3_main _ _ _ _ _ _ L3s M q V) as [A|A].
      - eapply drain_hval_mono; eauto.
      - eapply drain_sets; eauto. }
    intros q V. rewrite P5 in V. eapply drain_hval_mono; eauto. apply (KL L2 q V).
Qed.

Lemma answers_step c s o s' ev cl :
  step c s o = Some (s', ev, cl) -> forall q, (length (answers q ev) <= 1)%nat.
Proof.
  unfold step. destruct (main_handler c s o) as [[[s1 ev1] cl1]|] eqn:M; [|discriminate].
  destruct (drain s1 ev1) as [[s2 dr] ks] eqn:D.
  destruct (dropped_validations s2 dr) as [[[s3 ev3] cl3]|] eqn:E3; [|discriminate].
  destruct (dropped_quiet _ _ _ _ _ E3) as [_ ->].
  destruct (kill_tasks s3 ks) as [s4 ev4] eqn:K. cbn [app].
  destruct (drain s4 ev4) as [[s5 x] y]. intros E; injection E as _ <- _. intros q.
  destruct (kill_tasks_ledger _ _ _ _ K) as (_ & _ & _ & KA).
  unfold answers in *. rewrite !filter_app, KA, app_nil_r.
  assert (N0 : filter (is_answer q) (map UNotif (filter (hopen s2) (notifs_of s o))) = []).
  { induction (filter (hopen s2) (notifs_of s o)); cbn; auto. }
  rewrite N0, app_nil_r. eapply answers_main; eauto.
Qed.

Fixpoint ledger (c : cfg) (s : st) (owed : peer -> bool) (l : list op) : option (st * (peer -> bool)) :=
  match l with
  | [] => Some (s, owed)
  | o :: t =>
      match step c s o with
      | Some (s1, ev, _) => ledger c s1 (owed_next s o ev owed) t
      | None => None
      end
  end.

(* the histories the ledger theorem is about: outside finding class 2 (no failed substream id is kept
   pending) and no ValidateSubstream replaces an unanswered one at the handle *)
Fixpoint ledger_env (c : cfg) (s : st) (l : list op) : bool :=
  match l with
  | [] => true
  | o :: t =>
      negb (class2_step s o) && match drops c s o with [] => true | _ => false end &&
      match step c s o with
      | Some (s1, _, _) => ledger_env c s1 t
      | None => true
      end
  end.

Lemma LInv_init : LInv init (fun _ => false).
Proof. constructor; intros p; cbn; discriminate. Qed.

Lemma ledger_inv c l : forall s owed s' owed',
  SInv s -> LInv s owed -> ledger_env c s l = true -> ledger c s owed l = Some (s', owed') ->
  SInv s' /\ LInv s' owed'.
Proof.
  induction l as [|o t IH]; intros s owed s' owed' I L E R; cbn in *.
  - injection R as <- <-. auto.
  - apply andb_true_iff in E. destruct E as [E E3]. apply andb_true_iff in E. destruct E as [E1 E2].
    apply negb_true_iff in E1. destruct (drops c s o) eqn:D0; [|discriminate].
    destruct (step_SInv c s o I) as (s1 & ev & cl & S & I1). rewrite S in *.
    eapply IH; eauto. eapply step_ledger; eauto.
Qed.

Lemma open_answered c l s owed :
  ledger_env c init l = true -> ledger c init (fun _ => false) l = Some (s, owed) ->
  forall p, owed p = true -> in_progress (ps s p) = true /\ obligation s p = true.
Proof.
  intros E R p O. destruct (ledger_inv _ _ _ _ _ _ SInv_init LInv_init E R) as [[H B] [L1 LB L3s]].
  split; auto. apply obligation_ok; auto.
Qed.

Definition w_drop : list op :=
  [Established 0; CmdOpen 0; SubIn 0; HsIn 0 true; SubOut 0; HsOut 0 false;
   CmdOpen 0; SubIn 0; HsIn 0 true; SubOut 0].
Definition w_failed_sid2 : list op :=
  [Established 0; SubIn 0; HsIn 0 true; Validate 0 true; OpenFail 0; CmdOpen 0].

Example w_drop_check :
  match ledger cfg_w0 init (fun _ => false) w_drop with
  | Some (s, owed) => (owed 0, in_progress (ps s 0), obligation s 0)
  | None => (false, false, false)
  end = (true, false, false).
Proof. vm_compute. reflexivity. Qed.
Example w_failed_check :
  match ledger cfg_w0 init (fun _ => false) w_failed_sid2 with
  | Some (s, owed) => (owed 0, in_progress (ps s 0), obligation s 0)
  | None => (false, false, false)
  end = (true, true, false).
Proof. vm_compute. reflexivity. Qed.

(* ================================================================== the environment guards, explicitly *)
(* An event is enabled when the TransportService / HandshakeService / NotificationHandle can deliver it:
   connections are established and closed alternately per peer, substreams arrive on live connections,
   substream results answer a request that is in flight, handshake events concern a substream the
   handshake service holds, a validation result answers a request the handle holds, user commands
   pass the handle's gate. A disabled event is not delivered (main_handler leaves the state alone). *)
Definition enabled (s : st) (o : op) : bool :=
  match o with
  | Established p => negb (conn s p)
  | ConnClosed p | SubIn p | KillChan p => conn s p
  | SubOut p | OpenFail p => conn s p && match first_req p (spend s) with Some _ => true | None => false end
  | HsIn p _ => hsI s p
  | HsOut p _ => hsO s p
  | Validate p _ => hval s p
  | CmdOpen p => negb (hopen s p)
  | CmdClose p => hopen s p
  | _ => true
  end.

Lemma disabled_noop c s o : enabled s o = false -> main_handler c s o = ok s.
Proof.
  destruct o; cbn; try discriminate; intros E; rewrite ?E; auto.
  - apply negb_false_iff in E. now rewrite E.
  - destruct (conn s p); auto. cbn in E. destruct (first_req p (spend s)); [discriminate|auto].
  - destruct (conn s p); auto. cbn in E. destruct (first_req p (spend s)); [discriminate|auto].
  - apply negb_false_iff in E. now rewrite E.
Qed.

Fixpoint feasible (c : cfg) (s : st) (l : list op) : bool :=
  match l with
  | [] => true
  | o :: t => enabled s o && match step c s o with Some (s1, _, _) => feasible c s1 t | None => true end
  end.

Definition w_twice : list op := [Established 0].

(* ---- statements of Properties.v whose proofs are a few lines ---- *)
Lemma C11_alternation_refuted_pf :
  exists (c : cfg) (ops : list op),
    grammar (fun _ => false) (events (fst (run c init ops))) = None.
Proof.
 exists cfg_w, w_slow_close. vm_compute. reflexivity.
Qed.

Lemma C11_no_stuck_pf :
  forall (c : cfg) (ops : list op), snd (run c init ops) = true.
Proof.
 intros c ops. apply run_nostuck, SInv_init.
Qed.

Lemma C11_no_stuck_feasible_pf :
  forall (c : cfg) (ops : list op), feasible c init ops = true -> snd (run c init ops) = true.
Proof.
 intros c ops _. apply run_nostuck, SInv_init.
Qed.

Lemma C11_no_stuck_needs_environment_refuted_pf :
  exists (c : cfg) (ops : list op) (p : peer),
    conn (last_state c ops) p = true /\ on_established c (last_state c ops) p = None.
Proof.
 exists cfg_w, w_twice, 0. vm_compute. split; reflexivity.
Qed.

Lemma C11_isolation_pf :
  forall (c : cfg) (s : st) (o : op) (s' : st) (ev : list uev) (cl : list call),
    reachable c s -> step c s o = Some (s', ev, cl) -> iso s s' (op_peer o) ev cl.
Proof.

  intros c s o s' ev cl R S. destruct (reachable_inv c s R) as [I T]. eapply step_iso; eauto.
Qed.

Lemma C11_runs_are_reachable_pf :
  forall (c : cfg) (ops : list op) (x : st * list uev * list call),
    In x (fst (run c init ops)) -> reachable c (fst (fst x)).
Proof.
 intros c ops. apply run_reachable. constructor.
Qed.

Lemma C11_quiescent_nothing_owed_pf :
  forall (c : cfg) (ops : list op) (s : st) (owed : peer -> bool) (p : peer),
    ledger_env c init ops = true -> ledger c init (fun _ => false) ops = Some (s, owed) ->
    obligation s p = false -> owed p = false.
Proof.

  intros c ops s owed p E R Q. destruct (owed p) eqn:O; auto.
  destruct (open_answered _ _ _ _ E R p O). congruence.
Qed.

Lemma C11_at_most_one_answer_pf :
  forall (c : cfg) (s : st) (o : op) (s' : st) (ev : list uev) (cl : list call) (q : peer),
    step c s o = Some (s', ev, cl) -> (length (answers q ev) <= 1)%nat.
Proof.
 intros. eapply answers_step; eauto.
Qed.

Lemma C11_open_answered_refuted_pf :
  exists (c : cfg) (ops : list op) (s : st) (owed : peer -> bool),
    ledger c init (fun _ => false) ops = Some (s, owed) /\ owed 0 = true /\ obligation s 0 = false.
Proof.

  exists cfg_w0, w_failed_sid2.
  destruct (ledger cfg_w0 init (fun _ => false) w_failed_sid2) as [[s owed]|] eqn:E.
  - exists s, owed. split; auto. pose proof w_failed_check as W. rewrite E in W. inversion W. auto.
  - pose proof w_failed_check as W. rewrite E in W. discriminate.
Qed.

Lemma C11_open_answered_needs_validation_answers_refuted_pf :
  exists (c : cfg) (ops : list op) (s : st) (owed : peer -> bool),
    ledger c init (fun _ => false) ops = Some (s, owed) /\ owed 0 = true /\ in_progress (ps s 0) = false.
Proof.

  exists cfg_w0, w_drop.
  destruct (ledger cfg_w0 init (fun _ => false) w_drop) as [[s owed]|] eqn:E.
  - exists s, owed. split; auto. pose proof w_drop_check as W. rewrite E in W. inversion W. auto.
  - pose proof w_drop_check as W. rewrite E in W. discriminate.
Qed.
