(* C11 — Connection tasks and peers: task ids identify the peer; sinks held by the handle or the user belong to a task of that peer. *)
From Coq Require Import List NArith Bool Lia.
From V.C11 Require Import Model PBase.
Import ListNotations.
Open Scope N_scope.

(* ---- tasks and peers: ids of Connection tasks identify the peer ---- *)
Definition TInv (s : st) : Prop :=
  (forall t, In t (tasks s) -> t_id t < ntask s) /\
  (forall p k, ps s p = Some (Open k) \/ lastt s p = Some k ->
     k < ntask s /\ forall t, In t (tasks s) -> t_id t = k -> t_peer t = p).

Definition tasks_le (old new : list task) : Prop :=
  forall t', In t' new -> exists t, In t old /\ t_id t' = t_id t /\ t_peer t' = t_peer t.

Lemma TInv_sub s s' :
  TInv s -> tasks_le (tasks s) (tasks s') -> ntask s' = ntask s -> lastt s' = lastt s ->
  (forall q k, ps s' q = Some (Open k) -> ps s q = Some (Open k)) -> TInv s'.
Proof.
  intros [T1 T2] TL N0 L P. split; rewrite ?N0, ?L.
  - intros t' H. destruct (TL t' H) as (t & Ht & E & _). rewrite E. auto.
  - intros p k H. assert (H' : ps s p = Some (Open k) \/ lastt s p = Some k) by (destruct H; auto).
    destruct (T2 p k H') as [A B]. split; auto.
    intros t' Ht' Id. destruct (TL t' Ht') as (t & Ht & E1 & E2). rewrite E2. apply B; auto. congruence.
Qed.

Lemma TInv_spawn s s' p :
  TInv s -> tasks s' = tasks s ++ [mkTask (ntask s) p None false] -> ntask s' = ntask s + 1 ->
  (forall q, lastt s' q = if q =? p then Some (ntask s) else lastt s q) ->
  (forall q k, ps s' q = Some (Open k) -> (q = p /\ k = ntask s) \/ ps s q = Some (Open k)) -> TInv s'.
Proof.
  intros [T1 T2] T N0 L P. split; rewrite ?T, ?N0.
  - intros t H. apply in_app_or in H. destruct H as [H|[<-|[]]]; cbn; [apply T1 in H|]; lia.
  - intros q k H.
    assert (C : (q = p /\ k = ntask s) \/ (ps s q = Some (Open k) \/ lastt s q = Some k)).
    { destruct H as [H|H].
      - apply P in H. tauto.
      - rewrite L in H. destruct (q =? p) eqn:E; [|tauto]. apply N.eqb_eq in E. inversion H. auto. }
    destruct C as [[-> ->]|C].
    + split; [lia|]. intros t Ht Id. apply in_app_or in Ht. destruct Ht as [Ht|[<-|[]]]; auto.
      apply T1 in Ht. lia.
    + destruct (T2 q k C) as [A B]. split; [lia|].
      intros t Ht Id. apply in_app_or in Ht. destruct Ht as [Ht|[<-|[]]]; auto. cbn in Id. lia.
Qed.

Lemma tasks_le_refl l : tasks_le l l.
Proof. intros t H. eauto. Qed.

Lemma finish_tasks_le p l : forall l' ev n, finish_tasks p l = (l', ev, n) -> tasks_le l l'.
Proof.
  induction l as [|a l IH]; cbn; intros l' ev n.
  - intros H; injection H as <- _ _. intros t [].
  - destruct (finish_tasks p l) as [[r' e'] n'] eqn:E. specialize (IH _ _ _ eq_refl).
    destruct ((t_peer a =? p) && negb (t_gated a)); [destruct (t_closing a)|];
      intros H; injection H as <- _ _; intros t Ht.
    + destruct (IH t Ht) as (t0 & A & B). exists t0. cbn. tauto.
    + destruct Ht as [<-|Ht]; [exists a; cbn; auto|]. destruct (IH t Ht) as (t0 & A & B). exists t0. cbn. tauto.
    + destruct Ht as [<-|Ht]; [exists a; cbn; auto|]. destruct (IH t Ht) as (t0 & A & B). exists t0. cbn. tauto.
Qed.

Ltac tle_close :=
  first [ apply tasks_le_refl
        | match goal with H : tasks_sub _ _ _ |- _ => exact (proj1 H) end
        | exact (proj1 (tasks_sub_remove _ _))
        | refine (proj1 (tasks_sub_map _ _ _ _)); intros; cbn; auto ].

Ltac noopen_close :=
  let q := fresh "q" in let k := fresh "k" in let E := fresh "E" in let X := fresh "X" in
  intros q k; setters; unfold upd;
  repeat match goal with |- context [q =? ?p] => destruct (q =? p) eqn:E; [apply N.eqb_eq in E; subst q|] end;
  intros X; first [discriminate X | congruence | exact X].

Ltac TInv_close T :=
  eapply (TInv_sub _ _ T); [setters; tle_close | reflexivity | reflexivity | noopen_close].

Lemma TInv_on_shutdown s p : TInv s -> TInv (on_shutdown s p).
Proof.
  intros T. unfold on_shutdown. destruct (ps s p) as [[]|] eqn:Hp; auto.
  destruct (task_closed s k); auto. TInv_close T.
Qed.

Ltac TInv_spawn_close T :=
  match goal with |- TInv (set_ps (spawn_task _ ?p) ?p _) =>
    eapply (TInv_spawn _ _ p T); [reflexivity | reflexivity | intros q; setters; unfold upd; destruct (q =? p); reflexivity
      | let q := fresh "q" in let k := fresh "k" in let E := fresh "E" in let X := fresh "X" in
        intros q k; setters; unfold upd; destruct (q =? p) eqn:E;
        [apply N.eqb_eq in E; subst q; intros X; left; split; [reflexivity|congruence] | intros X; right; exact X] ]
  end.

Lemma TInv_main c s o s1 ev cl : TInv s -> main_handler c s o = Some (s1, ev, cl) -> TInv s1.
Proof.
  intros T M. destruct o; unfold_handlers M.
  all: try (split_all; try (first [TInv_close T | TInv_spawn_close T]; fail); fail).
  - split_all; try (TInv_close T; fail). apply TInv_on_shutdown. TInv_close T.
  - match type of M with context [finish_tasks ?a ?b] => destruct (finish_tasks a b) as [[l' e'] n'] eqn:F end.
    apply finish_tasks_le in F. split_all.
    assert (T1 : TInv (set_tasks s l')).
    { eapply (TInv_sub _ _ T); [|reflexivity|reflexivity|noopen_close]. setters.
      intros t' Ht'. destruct (F t' Ht') as (t & Ht & E1 & E2). apply ungate_in in Ht.
      destruct Ht as (t0 & Ht0 & E3 & E4 & _). exists t0. split; auto. split; congruence. }
    unfold run_shutdowns. match goal with |- context [if ?b then _ else _] => destruct b end; auto.
    now apply TInv_on_shutdown.
  - split_all; try (TInv_close T; fail). apply TInv_on_shutdown. TInv_close T.
Qed.

Lemma TInv_same s s' : same_tasks s s' -> TInv s -> TInv s'.
Proof. intros (A & B & C & D) [T1 T2]. split; rewrite ?A, ?B, ?C, ?D; auto. Qed.

Lemma TInv_on_validation s p a s1 ev cl : TInv s -> on_validation s p a = Some (s1, ev, cl) -> TInv s1.
Proof.
  intros T M. unfold on_validation, svc_open, ok, ok_ev in M. setters_in M.
  split_all; TInv_close T.
Qed.

Lemma task_dies_TInv s k s' ev : task_dies s k = (s', ev) -> TInv s -> TInv s'.
Proof.
  unfold task_dies. destruct (find_task k (tasks s)) as [t|]; [|intros E; injection E as <- _; auto].
  destruct (t_closing t); [intros E; injection E as <- _; auto|].
  destruct (t_gated t); intros E; injection E as <- _; intros T.
  - TInv_close T.
  - apply TInv_on_shutdown. TInv_close T.
Qed.

Lemma kill_tasks_TInv ks : forall s s' ev, kill_tasks s ks = (s', ev) -> TInv s -> TInv s'.
Proof.
  induction ks as [|k t IH]; intros s s' ev; cbn.
  - intros E; injection E as <- _; auto.
  - destruct (task_dies s k) as [s1 e1] eqn:E1. destruct (kill_tasks s1 t) as [s2 e2] eqn:E2.
    intros E; injection E as <- _. intros T. eapply IH; eauto. eapply task_dies_TInv; eauto.
Qed.

Lemma TInv_init : TInv init.
Proof. split; cbn; intros; try tauto. destruct H; discriminate. Qed.

Lemma step_TInv c s o s' ev cl : TInv s -> step c s o = Some (s', ev, cl) -> TInv s'.
Proof.
  intros T. unfold step.
  destruct (main_handler c s o) as [[[s1 ev1] calls]|] eqn:M; [|discriminate].
  pose proof (TInv_main _ _ _ _ _ _ T M) as T1.
  destruct (drain s1 ev1) as [[s2 dr] ks] eqn:D. pose proof (TInv_same _ _ (drain_tasks _ _ _ _ _ D) T1) as T2.
  destruct (kill_tasks s2 ks) as [s4 ev4] eqn:K. pose proof (kill_tasks_TInv _ _ _ _ K T2) as T4.
  destruct (drain s4 ev4) as [[s5 x] y] eqn:D5.
  intros H; injection H as <- _ _. eapply TInv_same; [eapply drain_tasks; eauto|auto].
Qed.

(* ---- sinks and tasks: a sink the handle or the user holds belongs to a task of that peer ---- *)
Definition SKInv (s : st) : Prop :=
  forall p k, hsink s p = Some k \/ usink s p = Some k ->
    k < ntask s /\ forall t, In t (tasks s) -> t_id t = k -> t_peer t = p.

Definition tasks_le2 (n : N) (old new : list task) : Prop :=
  forall t', In t' new -> (exists t, In t old /\ t_id t' = t_id t /\ t_peer t' = t_peer t) \/ n <= t_id t'.

Lemma SK_sub s s' :
  SKInv s -> tasks_le2 (ntask s) (tasks s) (tasks s') -> ntask s <= ntask s' ->
  (forall q k, hsink s' q = Some k -> hsink s q = Some k \/ usink s q = Some k) ->
  (forall q k, usink s' q = Some k -> hsink s q = Some k \/ usink s q = Some k) -> SKInv s'.
Proof.
  intros K TL N0 HS US p k H.
  assert (H' : hsink s p = Some k \/ usink s p = Some k) by (destruct H as [H|H]; [apply HS in H|apply US in H]; exact H).
  destruct (K p k H') as [A B]. split; [lia|].
  intros t' Ht' Id. destruct (TL t' Ht') as [(t & Ht & E1 & E2)|Hge]; [|lia].
  rewrite E2. apply B; auto. congruence.
Qed.

Lemma tle2_of_le n old new : tasks_le old new -> tasks_le2 n old new.
Proof. intros H t Ht. left. apply H, Ht. Qed.

Ltac tle2_close :=
  first [ apply tle2_of_le; tle_close
        | let t := fresh "t" in let Ht := fresh "Ht" in
          intros t Ht; setters; apply in_app_or in Ht; destruct Ht as [Ht|[<-|[]]];
          [left; exists t; auto | right; cbn; lia] ].
Ltac sink_src :=
  let q := fresh "q" in let k := fresh "k" in let X := fresh "X" in let E := fresh "E" in
  intros q k X; setters; unfold upd in X;
  repeat match type of X with context [q =? ?p] => destruct (q =? p) eqn:E; [apply N.eqb_eq in E; subst q|] end;
  first [left; exact X | right; exact X | left; congruence | right; congruence].
Ltac SK_close K := eapply (SK_sub _ _ K); [setters; tle2_close | setters; lia | sink_src | sink_src].

Lemma SK_on_shutdown s p : SKInv s -> SKInv (on_shutdown s p).
Proof.
  intros K. unfold on_shutdown. destruct (ps s p) as [[]|] eqn:Hp; auto.
  destruct (task_closed s k); auto.
Qed.

Lemma SK_main c s o s1 ev cl : SKInv s -> main_handler c s o = Some (s1, ev, cl) -> SKInv s1.
Proof.
  intros K M. destruct o; unfold_handlers M.
  all: try (split_all; try (SK_close K; fail); fail).
  - split_all; try (SK_close K; fail). apply SK_on_shutdown. SK_close K.
  - match type of M with context [finish_tasks ?a ?b] => destruct (finish_tasks a b) as [[l' e'] n'] eqn:F end.
    apply finish_tasks_le in F. split_all.
    assert (K1 : SKInv (set_tasks s l')).
    { eapply (SK_sub _ _ K); [|setters; lia|sink_src|sink_src]. setters. apply tle2_of_le.
      intros t' Ht'. destruct (F t' Ht') as (t & Ht & E1 & E2). apply ungate_in in Ht.
      destruct Ht as (t0 & Ht0 & E3 & E4 & _). exists t0. split; auto. split; congruence. }
    unfold run_shutdowns. match goal with |- context [if ?b then _ else _] => destruct b end; auto.
    now apply SK_on_shutdown.
  - split_all; try (SK_close K; fail). apply SK_on_shutdown. SK_close K.
Qed.

Lemma SK_drain ev : forall s s' dr ks, TInv s -> SKInv s -> drain s ev = (s', dr, ks) -> SKInv s'.
Proof.
  intros s s' dr ks T K D.
  refine (proj2 (drain_rel (fun s s' => TInv s -> SKInv s -> TInv s' /\ SKInv s') _ _ _ _ _ ev s s' dr ks D T K)).
  - intros s0 T0 K0. auto.
  - intros s1 s2 s3 A B T1 K1. destruct (A T1 K1). auto.
  - intros s0 p T0 K0. split; [exact T0|exact K0].
  - intros s0 p T0 K0. split; [exact T0|].
    intros q k X. setters. unfold upd in X. destruct (q =? p) eqn:E.
    + apply N.eqb_eq in E. subst q. destruct X as [X|X]; [|apply K0; auto].
      apply (proj2 T0). right. exact X.
    + apply K0. exact X.
  - intros s0 p T0 K0. split; [exact T0|].
    intros q k X. setters. unfold upd in X. destruct (q =? p) eqn:E2.
    + destruct X as [X|X]; [discriminate|]. apply N.eqb_eq in E2. subst q. apply K0; auto.
    + apply K0. exact X.
Qed.

Lemma SK_task_dies s k s' ev : task_dies s k = (s', ev) -> SKInv s -> SKInv s'.
Proof.
  unfold task_dies. destruct (find_task k (tasks s)) as [t|]; [|intros E; injection E as <- _; auto].
  destruct (t_closing t); [intros E; injection E as <- _; auto|].
  destruct (t_gated t); intros E; injection E as <- _; intros K.
  - SK_close K.
  - apply SK_on_shutdown. SK_close K.
Qed.

Lemma SK_kill ks : forall s s' ev, kill_tasks s ks = (s', ev) -> SKInv s -> SKInv s'.
Proof.
  induction ks as [|k t IH]; intros s s' ev; cbn.
  - intros E; injection E as <- _; auto.
  - destruct (task_dies s k) as [s1 e1] eqn:E1. destruct (kill_tasks s1 t) as [s2 e2] eqn:E2.
    intros E; injection E as <- _. intros K. eapply IH; eauto. eapply SK_task_dies; eauto.
Qed.

Lemma SK_init : SKInv init.
Proof. intros p k [H|H]; discriminate H. Qed.

Lemma step_SK c s o s' ev cl : TInv s -> SKInv s -> step c s o = Some (s', ev, cl) -> SKInv s'.
Proof.
  intros T K. unfold step.
  destruct (main_handler c s o) as [[[s1 ev1] calls]|] eqn:M; [|discriminate].
  pose proof (TInv_main _ _ _ _ _ _ T M) as T1. pose proof (SK_main _ _ _ _ _ _ K M) as K1.
  destruct (drain s1 ev1) as [[s2 dr] ks] eqn:D.
  pose proof (TInv_same _ _ (drain_tasks _ _ _ _ _ D) T1) as T2. pose proof (SK_drain _ _ _ _ _ T1 K1 D) as K2.
  destruct (kill_tasks s2 ks) as [s4 ev4] eqn:KK.
  pose proof (kill_tasks_TInv _ _ _ _ KK T2) as T4. pose proof (SK_kill _ _ _ _ KK K2) as K4.
  destruct (drain s4 ev4) as [[s5 x] y] eqn:D5.
  intros H; injection H as <- _ _. eapply SK_drain; eauto.
Qed.

