(* C11 — wire format, model runner and the trace oracle. Definitions only.
   case  : auto_accept should_dial dialable_mask nops (kind peer arg)*
   trace : 1 then per step: 1 nev (kind peer arg)* ncalls (kind peer arg)* (9 numbers per peer)*
           npend (sid peer)* tasks_alive timers_armed_so_far ; a stuck step is the single number 2 and ends the trace. *)
From Coq Require Import List NArith Bool.
From V.common Require Import Wire.
From V.C11 Require Import Model.
From V.C11 Require HSModel.
Import ListNotations.
Open Scope N_scope.

Definition NP : N := 3.
Definition peers_l : list peer := [0; 1; 2].

Definition p_op : parser op :=
  let* k := pN in let* p := pN in let* a := pN in
  if NP <=? p then pfail else
  let b := negb (a =? 0) in
  match k with
  | 0 => pret (Established p) | 1 => pret (ConnClosed p) | 2 => pret (SubIn p) | 3 => pret (SubOut p)
  | 4 => pret (OpenFail p) | 5 => pret (DialFail p) | 6 => pret (HsIn p b) | 7 => pret (HsOut p b)
  | 8 => pret (Validate p b) | 9 => pret (Timer p) | 10 => pret (CmdOpen p) | 11 => pret (CmdClose p)
  (* 13 / 18: bit 0 of the argument = the substream closes are held back; the higher bits name what ends the
     stream (inbound EOF, inbound error frame, outbound write error): one and the same transition. 4: the
     argument names the SubstreamError variant; 15: 0 = channel closed, 1 = channel full *)
  | 12 => pret (CmdForce p) | 13 => pret (TaskDie p (N.odd a)) | 14 => pret (Release p b) | 15 => pret (KillChan p)
  | 16 => pret (Gate p) | 17 => pret (Notify p) | 18 => pret (NotifyDie p (N.odd a))
  | 20 => pret (GrabSink p) | 21 => pret (SendSync p a) | 22 => pret (SendAsync p a)
  | 23 => pret (SinkSync p a) | 24 => pret (SinkAsync p a)
  | _ => pfail
  end.

(* an operation of a case: a model event, or (kind 19) "all armed timers expire": the harness really
   sleeps > 5 s and the real futures_timer timers fire, oldest first; the model handles one `Timer p`
   per armed timer. A case with a SleepAll contains no hook-fired Timer events (they are dropped here
   and skipped by the harness) because the real timer of a hook-fired entry would fire again. *)
(* kinds 26 / 27: open_substream_batch / close_substream_batch: ONE NotificationCommand for several peers, which
   the protocol works through in the iteration order of a HashSet. The argument lists the peers in the order
   the implementation took them (base-4 digits, least significant first, digit = peer + 1, 0 ends the list;
   the harness writes the order it observed into the case). The handle filters the peers against its gate
   when the call is made and each on_open_substream / on_close_substream only touches its own peer
   (C11_isolation), so the command is the sequence of the single-peer commands; events and calls of the one
   step are printed sorted by peer. *)
Inductive gop := GOp (o : op) | GSleepAll | GBatch (open : bool) (l : list peer)
                | GSleepLong.   (* kind 28: the harness really sleeps > 10 s: every substream the HandshakeService
                                   holds runs into NEGOTIATION_TIMEOUT (NegotiationError), then every 5 s timer that
                                   was armed before the sleep fires; events and calls of the step are printed by peer *)

Fixpoint digits4 (fuel : nat) (a : N) : list peer :=
  match fuel with
  | O => []
  | S f => if a mod 4 =? 0 then [] else (a mod 4 - 1) :: digits4 f (a / 4)
  end.

Definition p_gop : parser gop :=
  fun l => match l with
           | 19 :: _ :: _ :: rest => Some (GSleepAll, rest)
           | 26 :: _ :: a :: rest => Some (GBatch true (digits4 3 a), rest)
           | 27 :: _ :: a :: rest => Some (GBatch false (digits4 3 a), rest)
           | 28 :: _ :: _ :: rest => Some (GSleepLong, rest)
           | _ => match p_op l with Some (o, rest) => Some (GOp o, rest) | None => None end
           end.

Definition is_sleep (g : gop) : bool := match g with GSleepAll | GSleepLong => true | _ => false end.
Definition is_timer (g : gop) : bool := match g with GOp (Timer _) => true | _ => false end.

Definition decode_case (l : list N) : option (cfg * list gop) :=
  match pall (let* aa := pBool in let* sd := pBool in let* mask := pN in let* ops := plist p_gop in
              pret (mkCfg aa sd (fun p => (p <? 3) && N.testbit mask p), ops)) l with
  | Some (c, ops) => Some (c, if existsb is_sleep ops then filter (fun g => negb (is_timer g)) ops else ops)
  | None => None
  end.

(* ---- encoders ---- *)
Definition enc_dir (d : dir) : N := match d with DIn => 0 | DOut => 1 end.
(* a NotificationReceived is printed with the stream it arrived on (1 + ordinal of the Connection task;
   the harness puts that ordinal into the payload when the remote sends the notification): `tag` *)
Definition enc_ev (tag : peer -> N) (e : uev) : list N :=
  match e with
  | UValidate p => [0; p; 0]
  | UOpened p d => [1; p; enc_dir d]
  | UClosed p => [2; p; 0]
  | UFail p e => [3; p; e]
  | UNotif p => [4; p; tag p]
  | UClosedT p k => [5; p; k]   (* never part of a trace: the handle passes it on as UClosed or ignores it *)
  end.
Definition tag_of (x : option N) : N := match x with Some k => k + 1 | None => 0 end.
Definition enc_call (c : call) : list N :=
  match c with
  | CDial p => [0; p; 0] | COpen p x => [1; p; x] | CForce p => [2; p; 0]
  | CRet p code => [3; p; code] | CWire p k m => [4; p; k * 1000000 + m]
  end.
Definition enc_inb (i : inb) : N :=
  match i with IClosed => 0 | IReading => 1 | IValidating => 2 | ISending => 3 | IOpen => 4 end.
Definition enc_ps (x : option pstate) : list N :=
  match x with
  | None => [0; 0; 0; 0; 0]
  | Some Poisoned => [1; 0; 0; 0; 0]
  | Some (VPending b) => [2; b2n b; 0; 0; 0]
  | Some (Closed po) => [3; enc_opt po; 0; 0; 0]
  | Some Dialing => [4; 0; 0; 0; 0]
  | Some (OutInit x) => [5; x; 0; 0; 0]
  | Some (Validating d o i) =>
      match o with
      | OClosed => [6; enc_dir d; 0; 0; enc_inb i]
      | OInit x => [6; enc_dir d; 1; x; enc_inb i]
      | ONeg => [6; enc_dir d; 2; 0; enc_inb i]
      | OOpen => [6; enc_dir d; 3; 0; enc_inb i]
      end
  | Some (Open _) => [7; 0; 0; 0; 0]
  end.
Definition enc_peer (s : st) (p : peer) : list N :=
  enc_ps (ps s p) ++ [b2n (hsI s p); b2n (hsO s p); b2n (hopen s p); b2n (hval s p)].
Definition dump (s : st) : list N :=
  flat_map (enc_peer s) peers_l ++
  enc_list (fun e : sid * peer => [fst e; snd e]) (sort_by fst (pend s)) ++
  [N.of_nat (length (tasks s)); narm s].

(* eager user: the notification of a step was forwarded by the newest Connection task of the peer in the
   state before the step (Model.notifs_of) *)
Fixpoint enc_run (pre : st) (r : list (st * list uev * list call)) : list N :=
  match r with
  | [] => []
  | (s, ev, calls) :: t =>
      1 :: enc_list (enc_ev (fun p => tag_of (lastt pre p))) ev ++ enc_list enc_call calls ++ dump s ++ enc_run s t
  end.

(* all armed timers fire, oldest first: one Timer step per entry of the snapshot *)
Fixpoint fire_all (c : cfg) (s : st) (l : list peer) : res :=
  match l with
  | [] => ok s
  | p :: t =>
      match step c s (Timer p) with
      | Some (s1, e1, c1) =>
          match fire_all c s1 t with
          | Some (s2, e2, c2) => Some (s2, e1 ++ e2, c1 ++ c2)
          | None => None
          end
      | None => None
      end
  end.

(* the single-peer commands of a batch, one after the other *)
Fixpoint batch_all (c : cfg) (s : st) (open : bool) (l : list peer) : res :=
  match l with
  | [] => ok s
  | p :: t =>
      match step c s (if open then CmdOpen p else CmdClose p) with
      | Some (s1, e1, c1) =>
          match batch_all c s1 open t with
          | Some (s2, e2, c2) => Some (s2, e1 ++ e2, c1 ++ c2)
          | None => None
          end
      | None => None
      end
  end.

Definition ev_peer0 (e : uev) : peer :=
  match e with UValidate p | UOpened p _ | UClosed p | UFail p _ | UNotif p | UClosedT p _ => p end.
Definition call_peer0 (c : call) : peer :=
  match c with CDial p | COpen p _ | CForce p | CRet p _ | CWire p _ _ => p end.

(* the 10 s negotiation timeout of every substream in the HandshakeService: one NegotiationError per peer
   (the handler drops both substreams of the peer) *)
Fixpoint hs_timeouts (c : cfg) (s : st) (l : list peer) : res :=
  match l with
  | [] => ok s
  | p :: t =>
      match (if hsI s p then step c s (HsIn p false) else if hsO s p then step c s (HsOut p false) else ok s) with
      | Some (s1, e1, c1) =>
          match hs_timeouts c s1 t with
          | Some (s2, e2, c2) => Some (s2, e1 ++ e2, c1 ++ c2)
          | None => None
          end
      | None => None
      end
  end.

Definition by_peer {A} (key : A -> peer) (l : list A) : list A :=
  flat_map (fun p => filter (fun x => key x =? p) l) peers_l.

Definition gstep (c : cfg) (s : st) (g : gop) : res :=
  match g with
  | GSleepLong =>
      match hs_timeouts c s peers_l with
      | Some (s1, e1, c1) =>
          match fire_all c s1 (timers s) with
          | Some (s2, e2, c2) => Some (s2, by_peer ev_peer0 (e1 ++ e2), by_peer call_peer0 (c1 ++ c2))
          | None => None
          end
      | None => None
      end
  | GOp o => step c s o
  | GSleepAll => fire_all c s (timers s)
  | GBatch open l =>
      match batch_all c s open l with
      | Some (s1, ev, cl) => Some (s1, sort_by ev_peer0 ev, sort_by call_peer0 cl)
      | None => None
      end
  end.

Fixpoint grun (c : cfg) (s : st) (l : list gop) : list (st * list uev * list call) * bool :=
  match l with
  | [] => ([], true)
  | g :: t =>
      match gstep c s g with
      | None => ([], false)
      | Some (s1, ev, calls) => let '(r, b) := grun c s1 t in ((s1, ev, calls) :: r, b)
      end
  end.

Definition run_ecase (l : list N) : list N :=
  match decode_case l with
  | Some (c, ops) =>
      let '(r, fin) := grun c init ops in
      1 :: enc_run init r ++ (if fin then [] else [2])
  | None => [0]
  end.

(* ---- lazy-user mode: the dialable mask of a case carries the capacity of the user event channel in
   its bits 3 and up (0: the eager mode above); kind 25 is one `handle.next()` of the user ---- *)
Definition case_cap (l : list N) : N := match l with _ :: _ :: mask :: _ => mask / 8 | _ => 0 end.

Definition p_lop : parser lop :=
  fun l => match l with
           | 25 :: _ :: _ :: rest => Some (LPoll, rest)
           | _ => match p_op l with Some (o, rest) => Some (LOp o, rest) | None => None end
           end.

Definition decode_lcase (l : list N) : option (cfg * list lop) :=
  pall (let* aa := pBool in let* sd := pBool in let* mask := pN in let* ops := plist p_lop in
        pret (mkCfg aa sd (fun p => (p <? 3) && N.testbit mask p), ops)) l.

Definition ldump (cap : nat) (l : lst) : list N :=
  flat_map (fun p => [b2n (hopen (ls l) p); b2n (hval (ls l) p)]) peers_l ++
  [N.of_nat (Nat.min cap (length (lq l))); b2n (parked cap l)].

(* late-polling user: a notification is handed out only if it arrived on the stream whose sink the handle
   holds before the poll (Model.sink_is, theorem C11_lazy_notification_in_its_period) *)
Fixpoint enc_lrun (cap : nat) (pre : lst) (r : list (lst * list uev * list call)) : list N :=
  match r with
  | [] => []
  | (l, ev, calls) :: t =>
      1 :: enc_list (enc_ev (fun p => tag_of (hsink (ls pre) p))) ev ++ enc_list enc_call calls ++ ldump cap l ++
      enc_lrun cap l t
  end.

Definition run_lcase (l : list N) : list N :=
  match decode_lcase l with
  | Some (c, ops) =>
      let cap := N.to_nat (case_cap l) in
      let '(r, fin) := lrun c cap linit ops in
      1 :: enc_lrun cap linit r ++ (if fin then [] else [2])
  | None => [0]
  end.

(* ---- second kind of case (first number 7000): the HandshakeService on its own (HSModel.v) ----
   case  : 7000 nops (kind a b)* ; trace: 1 then per op: 0 | 1 kind key rd ; held(key 0..5) len *)
Fixpoint digits7 (fuel : nat) (a : N) : list N :=
  match fuel with
  | O => []
  | S f => if a mod 7 =? 0 then [] else (a mod 7 - 1) :: digits7 f (a / 7)
  end.

Definition p_hop : parser HSModel.hop :=
  let* k := pN in let* a := pN in let* b := pN in
  match k with
  | 0 => if a <? 3 then pret (HSModel.HCall (HSModel.NegOut a)) else pfail
  | 1 => if a <? 3 then pret (HSModel.HCall (HSModel.ReadIn a)) else pfail
  | 2 => if a <? 3 then pret (HSModel.HCall (HSModel.SendIn a)) else pfail
  | 3 => if a <? 3 then pret (HSModel.HCall (HSModel.RemOut a)) else pfail
  | 4 => if a <? 3 then pret (HSModel.HCall (HSModel.RemIn a)) else pfail
  | 5 => if a <? 6 then
           match b with
           | 0 => pret (HSModel.HEnv a HSModel.EFrame) | 1 => pret (HSModel.HEnv a HSModel.EEof) | 2 => pret (HSModel.HEnv a HSModel.EWerr)
           | 3 => pret (HSModel.HEnv a HSModel.EFlush) | 4 => pret (HSModel.HEnv a HSModel.ETimeout) | _ => pfail
           end
         else pfail
  | 6 => pret (HSModel.HPoll (digits7 6 a))
  | _ => pfail
  end.

Definition decode_hcase (l : list N) : option (list HSModel.hop) :=
  match l with
  | 7000 :: rest => pall (plist p_hop) rest
  | _ => None
  end.

Definition hkeys : list N := [0; 1; 2; 3; 4; 5].
Definition hdump (h : HSModel.hs) : list N :=
  map (fun k => b2n (HSModel.has k h)) hkeys ++ [N.of_nat (length (HSModel.ents h) + length (HSModel.ready h))].

Definition enc_pres (o : HSModel.hop) (r : HSModel.pres) : list N :=
  match o with
  | HSModel.HPoll _ =>
      match r with
      | HSModel.PPending => [1; 0; 0; 0]
      | HSModel.PNeg k rd => [1; 1; k; b2n rd]
      | HSModel.PErr k => [1; 2; k; 0]
      end
  | _ => [0]
  end.

Fixpoint enc_hrun (ops : list HSModel.hop) (r : list (HSModel.hs * HSModel.pres)) : list N :=
  match ops, r with
  | o :: ops', (h, x) :: r' => enc_pres o x ++ hdump h ++ enc_hrun ops' r'
  | _, _ => []
  end.

Definition run_hcase (l : list N) : list N :=
  match decode_hcase l with
  | Some ops => 1 :: enc_hrun ops (HSModel.hrun HSModel.hs0 ops)
  | None => [0]
  end.

Definition is_hcase (l : list N) : bool := match l with 7000 :: _ => true | _ => false end.

Definition run_case (l : list N) : list N :=
  if is_hcase l then run_hcase l else
  if case_cap l =? 0 then run_ecase l else run_lcase l.

(* ---- decoding a trace ---- *)
Record pobs := mkPobs { o_ps : option pstate; o_hsI : bool; o_hsO : bool; o_hopen : bool; o_hval : bool }.
Record sobs := mkSobs { o_ev : list uev; o_evt : list (uev * N); o_calls : list call; o_peers : list pobs; o_pend : list (sid * peer); o_tasks : N; o_narm : N }.

Definition p_dir : parser dir := let* x := pN in pret (if x =? 0 then DIn else DOut).
(* an event together with its third number (for NotificationReceived: the stream tag) *)
Definition p_ev : parser (uev * N) :=
  let* k := pN in let* p := pN in let* a := pN in
  match k with
  | 0 => pret (UValidate p, a) | 1 => pret (UOpened p (if a =? 0 then DIn else DOut), a)
  | 2 => pret (UClosed p, a) | 3 => pret (UFail p a, a) | 4 => pret (UNotif p, a) | _ => pfail
  end.
Definition p_call : parser call :=
  let* k := pN in let* p := pN in let* a := pN in
  match k with
  | 0 => pret (CDial p) | 1 => pret (COpen p a) | 2 => pret (CForce p)
  | 3 => pret (CRet p a) | 4 => pret (CWire p (a / 1000000) (a mod 1000000))
  | _ => pfail
  end.
Definition dec_inb (x : N) : option inb :=
  match x with 0 => Some IClosed | 1 => Some IReading | 2 => Some IValidating | 3 => Some ISending
          | 4 => Some IOpen | _ => None end.
Definition p_ps : parser (option pstate) :=
  let* t := pN in let* a := pN in let* b := pN in let* c := pN in let* d := pN in
  match t with
  | 0 => pret None
  | 1 => pret (Some Poisoned)
  | 2 => pret (Some (VPending (negb (a =? 0))))
  | 3 => pret (Some (Closed (dec_opt a)))
  | 4 => pret (Some Dialing)
  | 5 => pret (Some (OutInit a))
  | 6 => match dec_inb d with
         | Some i =>
             let dr := if a =? 0 then DIn else DOut in
             match b with
             | 0 => pret (Some (Validating dr OClosed i))
             | 1 => pret (Some (Validating dr (OInit c) i))
             | 2 => pret (Some (Validating dr ONeg i))
             | 3 => pret (Some (Validating dr OOpen i))
             | _ => pfail
             end
         | None => pfail
         end
  | 7 => pret (Some (Open 0))
  | _ => pfail
  end.
Definition p_pobs : parser pobs :=
  let* x := p_ps in let* a := pBool in let* b := pBool in let* c := pBool in let* d := pBool in
  pret (mkPobs x a b c d).
Definition p_sobs : parser sobs :=
  let* ev := plist p_ev in
  let* calls := plist p_call in
  let* pp := prep 3 p_pobs in
  let* pe := plist (let* x := pN in let* q := pN in pret (x, q)) in
  let* t := pN in
  let* na := pN in
  pret (mkSobs (map fst ev) ev calls pp pe t na).

(* steps of a trace; the flag tells whether the trace ended with a stuck step *)
Fixpoint p_steps (fuel : nat) : parser (list sobs * bool) :=
  fun l =>
    match fuel with
    | O => None
    | S f =>
        match l with
        | [] => Some (([], false), [])
        | [2] => Some (([], true), [])
        | 1 :: rest =>
            match p_sobs rest with
            | Some (o, rest') =>
                match p_steps f rest' with
                | Some ((t, b), r) => Some ((o :: t, b), r)
                | None => None
                end
            | None => None
            end
        | _ => None
        end
    end.

(* ---- the oracle: what the property text demands, judged on an observed trace ---- *)
Definition is_none_b {A} (x : option A) : bool := match x with None => true | Some _ => false end.
Definition absent : pobs := mkPobs None false false false false.
Definition nth_p (l : list pobs) (p : peer) : pobs := nth (N.to_nat p) l absent.

Definition inb_eqb (a b : inb) : bool := enc_inb a =? enc_inb b.
Definition ps_eqb (a b : option pstate) : bool := nlist_eqb (enc_ps a) (enc_ps b).
Definition pobs_eqb (a b : pobs) : bool :=
  ps_eqb (o_ps a) (o_ps b) && Bool.eqb (o_hsI a) (o_hsI b) && Bool.eqb (o_hsO a) (o_hsO b) &&
  Bool.eqb (o_hopen a) (o_hopen b) && Bool.eqb (o_hval a) (o_hval b).

Definition ev_peer (e : uev) : peer :=
  match e with UValidate p | UOpened p _ | UClosed p | UFail p _ | UNotif p | UClosedT p _ => p end.
Definition call_peer (c : call) : peer :=
  match c with CDial p | COpen p _ | CForce p | CRet p _ | CWire p _ _ => p end.

(* inbound substream accepted: handshake being sent or sent *)
Definition in_accepted (x : option pstate) : bool :=
  match x with Some (Validating _ _ (ISending | IOpen)) => true | _ => false end.
(* an outbound substream is wanted and not yet there *)
Definition in_progress (x : option pstate) : bool :=
  match x with
  | Some (OutInit _) => true
  | Some (Validating _ o _) => negb (o_closed o)
  | _ => false
  end.
Definition is_open (x : option pstate) : bool := match x with Some (Open _) => true | _ => false end.
(* the substream id an outbound attempt in progress waits for (an id merely remembered in
   PeerState::Closed is not waited for: since the repair of the former finding class 2 it is adopted by
   an open request only while pending_outbound still lists it) *)
Definition waits_for (x : option pstate) : option sid :=
  match x with
  | Some (OutInit y) => Some y
  | Some (Validating _ (OInit y) _) => Some y
  | _ => None
  end.

Definition has_fail (p : peer) (l : list uev) : bool :=
  existsb (fun e => match e with UFail q _ => q =? p | _ => false end) l.
Definition has_closed (p : peer) (l : list uev) : bool :=
  existsb (fun e => match e with UClosed q => q =? p | _ => false end) l.
Definition has_opened (p : peer) (l : list uev) : bool :=
  existsb (fun e => match e with UOpened q _ => q =? p | _ => false end) l.
Definition has_validate (p : peer) (l : list uev) : bool :=
  existsb (fun e => match e with UValidate q => q =? p | _ => false end) l.

(* oracle memory *)
Record omem := mkOmem {
  m_prev : list pobs;
  m_opened : peer -> bool;              (* user view: last of Opened/Closed was Opened *)
  m_req : list (sid * peer);            (* open_substream requests not answered by the case *)
  m_cnt : N;                            (* NotificationStreamOpened events so far = stream periods *)
  m_sink : peer -> option N;            (* the period whose sink the handle holds for the peer *)
  m_usink : peer -> option N            (* the period of the sink clone the user keeps *)
}.

Definition omem0 : omem :=
  mkOmem [absent; absent; absent] (fun _ => false) [] 0 (fun _ => None) (fun _ => None).

(* failures: bit 0 = outside every known class, bit 3 = class 3 (user Reject drops the open request);
   classes 1 (slow close: Closed reported after the next Opened) and 2 (failed substream id adopted by the
   next open request) were repaired in the code and are ordinary violations now *)
Definition F_GEN : N := 1.
Definition F_REJ : N := 8.

(* grammar of the user-visible events of one step, in order: Opened and Closed alternate per peer, no
   OpenFailure and every NotificationReceived between an Opened and its Closed, whatever the Connection
   tasks do and however slowly they close *)
Fixpoint grammar (opened : peer -> bool) (l : list uev) : (peer -> bool) * N :=
  match l with
  | [] => (opened, 0)
  | e :: t =>
      match e with
      | UOpened p _ =>
          let '(o', f) := grammar (upd opened p true) t in
          (o', N.lor (if opened p then F_GEN else 0) f)
      | UClosed p =>
          let '(o', f) := grammar (upd opened p false) t in
          (o', N.lor (if opened p then 0 else F_GEN) f)
      | UFail p _ =>
          let '(o', f) := grammar opened t in
          (o', N.lor (if opened p then F_GEN else 0) f)
      | UNotif p =>
          (* notifications are delivered only between Opened and Closed *)
          let '(o', f) := grammar opened t in
          (o', N.lor (if opened p then 0 else F_GEN) f)
      | UValidate _ => grammar opened t
      | UClosedT _ _ => let '(o', f) := grammar opened t in (o', N.lor F_GEN f)   (* not a user event *)
      end
  end.

(* the handle's sink table as the user-visible events dictate it: period numbers are handed out in the
   order of the Opened events *)
Fixpoint sinks (cnt : N) (sk : peer -> option N) (l : list uev) : N * (peer -> option N) :=
  match l with
  | [] => (cnt, sk)
  | UOpened p _ :: t => sinks (cnt + 1) (upd sk p (Some cnt)) t
  | UClosed p :: t => sinks cnt (upd sk p None) t
  | _ :: t => sinks cnt sk t
  end.

(* "receives notifications only between the two": a NotificationReceived is handed out only while the user
   sees a stream of the peer open, and it arrived on THAT stream (periods are numbered in the order of the
   Opened events; the tag of a notification is 1 + the period it was sent in) *)
Fixpoint ntags_ok (cnt : N) (sk : peer -> option N) (l : list (uev * N)) : bool :=
  match l with
  | [] => true
  | (UOpened p _, _) :: t => ntags_ok (cnt + 1) (upd sk p (Some cnt)) t
  | (UClosed p, _) :: t => ntags_ok cnt (upd sk p None) t
  | (UNotif p, a) :: t => match sk p with Some k => a =? k + 1 | None => false end && ntags_ok cnt sk t
  | _ :: t => ntags_ok cnt sk t
  end.

Definition flag (b : bool) (f : N) : N := if b then 0 else f.

(* clause 5 for one peer of an open command *)
Definition ans_ok (pre post : pobs) (p : peer) (ev : list uev) (calls : list call) : bool :=
  if o_hopen pre then true else
  match o_ps pre with
  | None => has_fail p ev || existsb (fun cl => match cl with CDial q => q =? p | _ => false end) calls
  | Some (Closed _) => has_fail p ev || in_progress (o_ps post)
  | Some (VPending _) => has_fail p ev
  (* the handle lets the request through although the protocol tracks a stream as open: the user was told
     Closed for a stream that is not closed; the request (connected peer, nothing in progress) is owed an answer *)
  | Some (Open _) => has_fail p ev || has_opened p ev
  | _ => true
  end.

Definition check_step (c : cfg) (m : omem) (o : op) (x : sobs) : omem * N :=
  let p := op_peer o in
  let pre := nth_p (m_prev m) p in
  let post := nth_p (o_peers x) p in
  (* requests *)
  let req0 :=
    match o with
    | ConnClosed q => if is_none_b (o_ps pre) then m_req m else drop_peer q (m_req m)
    | SubOut q | OpenFail q =>
        match first_req q (m_req m) with Some y => pend_remove y (m_req m) | None => m_req m end
    | _ => m_req m
    end in
  let req := req0 ++ flat_map (fun cl => match cl with COpen q y => [(y, q)] | _ => [] end) (o_calls x) in
  (* 1. isolation: nothing about other peers changes, nothing is said about other peers *)
  let iso :=
    forallb (fun q => (q =? p) || pobs_eqb (nth_p (m_prev m) q) (nth_p (o_peers x) q)) peers_l &&
    forallb (fun e => ev_peer e =? p) (o_ev x) && forallb (fun cl => call_peer cl =? p) (o_calls x) in
  (* 2. event grammar *)
  let '(opened', fg) := grammar (m_opened m) (o_ev x) in
  (* 3. inbound streams only after an accept *)
  let acc :=
    (negb (has_opened p (o_ev x)) || in_accepted (o_ps pre)) &&
    (negb (in_accepted (o_ps post)) || in_accepted (o_ps pre) ||
     match o, o_ps pre with
     | Validate _ true, Some (Validating _ _ IValidating) => o_hval pre
     | HsIn _ true, Some (Validating _ ob IReading) => auto_accept c && negb (o_closed ob)
     | _, _ => false
     end) in
  (* 4. "when the connection to a peer is lost an open stream is reported closed" (also when the user
     closes it): in the same step, however long the Connection task takes to close its substreams *)
  let cl :=
    match o with
    | ConnClosed _ => negb (is_open (o_ps pre)) || has_closed p (o_ev x)
    | CmdClose _ => negb (is_open (o_ps pre) && o_hopen pre) || has_closed p (o_ev x)
    | _ => true
    end in
  (* 5. "a request to open a stream to a connected peer with no negotiation in progress is answered":
     the request is taken up (outbound substream wanted) or answered at once. Not a request in the
     sense of the text: the handle refuses the call because it still lists the peer as open
     (open_substream returns PeerAlreadyExists: o_hopen); a negotiation, a dial or a stream is already
     in progress (every other peer state: the command is ignored and the outcome of what is in
     progress is the answer). A peer that is not connected is dialed first (CDial) or refused. *)
  let ans := match o with CmdOpen _ => ans_ok pre post p (o_ev x) (o_calls x) | _ => true end in
  (* 6. "... answered by exactly one of opened or open-failure": whoever gives up an outbound
     substream the user asked for (or agreed to) says so: in progress -> still in progress, or Open with
     NotificationStreamOpened, or NotificationStreamOpenFailure. The one exception in the code is the
     user's own Reject of the peer's inbound substream: finding class 3. *)
  let leave :=
    negb (in_progress (o_ps pre)) || in_progress (o_ps post) ||
    (is_open (o_ps post) && has_opened p (o_ev x)) || has_fail p (o_ev x) in
  let rej := match o with Validate _ false => true | _ => false end in
  (* 7. a substream id an attempt in progress waits for is still owed by the transport (the request can
     still be answered): never an id whose open has already failed or that belongs to a closed connection *)
  let owed :=
    match waits_for (o_ps post) with
    | Some y => if existsb (fun e => (fst e =? y) && (snd e =? p)) req then 0 else F_GEN
    | None => 0
    end in
  (* 8. "can send notifications only between the two": a frame reaches a substream only in a send
     operation, with that message, on the stream period whose sink the operation uses: through the handle
     the period of the last Opened that the user has not seen Closed (nothing at all when there is
     none: the call returns Ok / PeerDoesntExist and nothing else happens), through a kept clone the
     period it was cloned in *)
  let wires := flat_map (fun cl => match cl with CWire q k mm => [(q, k, mm)] | _ => [] end) (o_calls x) in
  let wire_ok (sk : option N) (msg : N) :=
    forallb (fun w : peer * N * N =>
               let '(q, k, mm) := w in
               (q =? p) && (mm =? msg) && match sk with Some k0 => k =? k0 | None => false end) wires in
  let send :=
    match o with
    | SendSync _ msg | SendAsync _ msg => wire_ok (if o_hopen pre then m_sink m p else None) msg
    | SinkSync _ msg | SinkAsync _ msg => wire_ok (m_usink m p) msg
    | _ => match wires with [] => true | _ => false end
    end in
  let usink' :=
    match o with
    | GrabSink _ => match m_usink m p, m_sink m p with None, Some k => upd (m_usink m) p (Some k) | _, _ => m_usink m end
    | _ => m_usink m
    end in
  let '(cnt', sink') := sinks (m_cnt m) (m_sink m) (o_ev x) in
  let nt := ntags_ok (m_cnt m) (m_sink m) (o_evt x) in
  (mkOmem (o_peers x) opened' req cnt' sink' usink',
   N.lor (flag (iso && acc && cl && ans && send && nt && (leave || rej)) F_GEN)
         (N.lor (flag (leave || negb rej) F_REJ) (N.lor fg owed))).

(* a SleepAll step is a batch of timer events for several peers, a batch command one of user commands for
   several peers: only the event grammar and the bookkeeping of the oracle are applied to them *)
Definition check_batch (m : omem) (g : gop) (x : sobs) : omem * N :=
  let '(opened', fg) := grammar (m_opened m) (o_ev x) in
  (* every peer of an open_substream_batch is answered like a single open request *)
  let ansb :=
    match g with
    | GBatch true l => forallb (fun q => ans_ok (nth_p (m_prev m) q) (nth_p (o_peers x) q) q (o_ev x) (o_calls x)) l
    | _ => true
    end in
  let '(cnt', sink') := sinks (m_cnt m) (m_sink m) (o_ev x) in
  let req := m_req m ++ flat_map (fun cl => match cl with COpen q y => [(y, q)] | _ => [] end) (o_calls x) in
  (mkOmem (o_peers x) opened' req cnt' sink' (m_usink m),
   N.lor fg (flag (ntags_ok (m_cnt m) (m_sink m) (o_evt x) && ansb) F_GEN)).

Fixpoint check_steps (c : cfg) (m : omem) (ops : list gop) (tr : list sobs) : N :=
  match ops, tr with
  | g :: ops', x :: tr' =>
      let '(m', f) := match g with GOp o => check_step c m o x | GSleepAll | GSleepLong | GBatch _ _ => check_batch m g x end in
      N.lor f (check_steps c m' ops' tr')
  | _, _ => 0
  end.

Definition verdict (case trace : list N) : N :=
  match decode_case case, trace with
  | Some (c, ops), 1 :: body =>
      match pall (p_steps (S (length ops))) body with
      | Some (tr, stuck) =>
          if stuck then F_GEN
          else if negb (Nat.eqb (length tr) (length ops)) then F_GEN
          else check_steps c omem0 ops tr
      | None => F_GEN
      end
  | None, [0] => 0
  | _, _ => F_GEN
  end.

(* ---- oracle for lazy-user traces: what the user is handed obeys the same event grammar, the loop is
   never stuck, the channel never holds more than its capacity ---- *)
Record lobs := mkLobs { lo_ev : list uev; lo_evt : list (uev * N); lo_calls : list call; lo_q : N; lo_parked : bool }.

Definition p_lobs : parser lobs :=
  let* ev := plist p_ev in
  let* calls := plist p_call in
  let* _ := prep 6 pN in
  let* q := pN in
  let* pk := pBool in
  pret (mkLobs (map fst ev) ev calls q pk).

Fixpoint p_lsteps (fuel : nat) : parser (list lobs * bool) :=
  fun l =>
    match fuel with
    | O => None
    | S f =>
        match l with
        | [] => Some (([], false), [])
        | [2] => Some (([], true), [])
        | 1 :: rest =>
            match p_lobs rest with
            | Some (o, rest') =>
                match p_lsteps f rest' with
                | Some ((t, b), r) => Some ((o :: t, b), r)
                | None => None
                end
            | None => None
            end
        | _ => None
        end
    end.

Fixpoint lcheck (cap : N) (opened : peer -> bool) (cnt : N) (sk : peer -> option N) (ops : list lop) (tr : list lobs) : N :=
  match ops, tr with
  | g :: ops', x :: tr' =>
      let '(opened', fg) := grammar opened (lo_ev x) in
      let '(cnt', sk') := sinks cnt sk (lo_ev x) in
      N.lor (N.lor fg (flag ((lo_q x <=? cap) && ntags_ok cnt sk (lo_evt x)) F_GEN)) (lcheck cap opened' cnt' sk' ops' tr')
  | _, _ => 0
  end.

Definition lverdict (case trace : list N) : N :=
  match decode_lcase case, trace with
  | Some (c, ops), 1 :: body =>
      match pall (p_lsteps (S (length ops))) body with
      | Some (tr, stuck) =>
          if stuck then F_GEN
          else if negb (Nat.eqb (length tr) (length ops)) then F_GEN
          else lcheck (case_cap case) (fun _ => false) 0 (fun _ => None) ops tr
      | None => F_GEN
      end
  | None, [0] => 0
  | _, _ => F_GEN
  end.

(* ---- oracle for HandshakeService traces: what NotificationProtocol relies on (theorems C11_hs_...): an event
   concerns a substream the service holds, Negotiated hands the substream out (it is gone afterwards), calls
   and the environment produce no events ---- *)
Fixpoint hcheck (held : list N) (ops : list HSModel.hop) (tr : list N) : bool :=
  match ops with
  | [] => match tr with [] => true | _ => false end
  | o :: ops' =>
      match o, tr with
      | HSModel.HPoll _, 1 :: kind :: k :: rd :: h0 :: h1 :: h2 :: h3 :: h4 :: h5 :: len :: rest =>
          let now := [h0; h1; h2; h3; h4; h5] in
          let was := nth (N.to_nat k) held 0 in
          let is_ := nth (N.to_nat k) now 0 in
          match kind with
          | 0 => true
          | 1 => (was =? 1) && (is_ =? 0)
          | 2 => was =? 1
          | _ => false
          end && hcheck now ops' rest
      | (HSModel.HCall _ | HSModel.HEnv _ _), 0 :: h0 :: h1 :: h2 :: h3 :: h4 :: h5 :: len :: rest =>
          hcheck [h0; h1; h2; h3; h4; h5] ops' rest
      | _, _ => false
      end
  end.

Definition hverdict (case trace : list N) : N :=
  match decode_hcase case, trace with
  | Some ops, 1 :: body => flag (hcheck [0; 0; 0; 0; 0; 0] ops body) F_GEN
  | None, [0] => 0
  | _, _ => F_GEN
  end.

Definition verdict_any (case trace : list N) : N :=
  if is_hcase case then hverdict case trace else
  if case_cap case =? 0 then verdict case trace else lverdict case trace.

Definition prop_ok (case trace : list N) : bool := verdict_any case trace =? 0.

(* class 3: "the user's Reject drops the user's own open request without an answer" (classes 1, "slow
   close", and 2, "failed substream id kept pending", were repaired in the code: no longer classes) *)
Definition known_class (case trace : list N) : N :=
  let v := verdict_any case trace in
  if N.testbit v 0 then 0 else if N.testbit v 3 then 3 else 0.
