(* C11 — origin of the accepted-inbound state, the open-request ledger, the environment guards. *)
From Coq Require Import List NArith Bool Lia.
From V.C11 Require Import Model PBase PAlt PInv.
From V.C11 Require Export PAccept PLedgerA PLedgerB.
Import ListNotations.
Open Scope N_scope.

Lemma request_main c s o p s1 ev cl :
  request_accepted s o p = true -> main_handler c s o = Some (s1, ev, cl) ->
  has_answer p ev = true \/ in_progress (ps s1 p) = true.
Proof.
  destruct o; cbn [request_accepted]; try discriminate.
  intros R. apply andb_true_iff in R. destruct R as [R R3]. apply andb_true_iff in R. destruct R as [R1 R2].
  apply N.eqb_eq in R1. subst p0. apply negb_true_iff in R2.
  destruct (ps s p) as [[| |po| | | |]|] eqn:Hp; try discriminate R3.
  cbn [main_handler]. rewrite R2. unfold on_open. rewrite Hp.
  destruct (reusable s po) as [y|].
  - unfold ok. intros M; injection M as <- <- <-. setters. rewrite upd_same. auto.
  - unfold svc_open.
    destruct (conn s p); [destruct (dead s p)|]; intros M; injection M as <- <- <-; setters; rewrite ?upd_same; cbn;
      rewrite ?N.eqb_refl; auto.
Qed.

Definition answers (p : peer) (ev : list uev) : list uev := filter (is_answer p) ev.

Lemma finish_tasks_noans p l q : forall l' ev n, finish_tasks p l = (l', ev, n) -> answers q ev = [].
Proof.
  induction l as [|a l IH]; cbn; intros l' ev n.
  - intros H; injection H as _ <- _. reflexivity.
  - destruct (finish_tasks p l) as [[r' e'] n'] eqn:E. specialize (IH _ _ _ eq_refl).
    destruct ((t_peer a =? p) && negb (t_gated a)); [destruct (t_closing a)|];
      intros H; injection H as _ <- _; auto.
Qed.

Lemma answers_shut q s p : answers q (shut_ev s p) = [].
Proof.
  unfold shut_ev. destruct (ps s p) as [[]|]; auto. destruct (task_closed s k); auto.
Qed.

Lemma answers_cons_shut q e s p : answers q (e :: shut_ev s p) = answers q [e].
Proof. change (e :: shut_ev s p) with ([e] ++ shut_ev s p). unfold answers. rewrite filter_app. fold (answers q (shut_ev s p)). rewrite answers_shut. apply app_nil_r. Qed.

Ltac ans_close :=
  let q := fresh "q" in intros q;
  try match goal with
      | H0 : ?ev = [] \/ (exists t, _ /\ ?ev = [UClosedT _ _]) |- _ => destruct H0 as [->|(? & ? & ->)]
      end;
  rewrite ?answers_cons_shut;
  unfold answers; cbn [filter is_answer];
  repeat match goal with |- context [if ?b then _ else _] => destruct b end; cbn; lia.

Lemma answers_main c s o s1 ev cl :
  main_handler c s o = Some (s1, ev, cl) -> forall q, (length (answers q ev) <= 1)%nat.
Proof.
  intros M. destruct o; unfold_handlers M.
  all: try (split_all; ans_close; fail).
  match type of M with context [finish_tasks ?a ?b] => destruct (finish_tasks a b) as [[l' e'] n'] eqn:F end.
  split_all. intros q. unfold answers. rewrite filter_app. fold (answers q e'). rewrite (finish_tasks_noans _ _ q _ _ _ F).
  destruct (n' =? 0); cbn; [lia|]. fold (answers q (shut_ev (set_tasks s l') p)). rewrite answers_shut. cbn. lia.
Qed.

(* the Closed reports are no answers: what the user is handed has the same answers as what was emitted *)
Lemma answers_delivered q ev : forall s, answers q (delivered s ev) = answers q ev.
Proof.
  induction ev as [|e t IH]; intros s; cbn [delivered]; auto.
  destruct e; cbn [closed_report]; unfold answers in *; cbn [filter is_answer].
  - apply IH.
  - rewrite IH. reflexivity.
  - destruct (current s p None); cbn [filter is_answer]; apply IH.
  - rewrite IH. reflexivity.
  - apply IH.
  - destruct (current s p (Some k)); cbn [filter is_answer]; apply IH.
Qed.

(* what the protocol still expects from its environment for the outbound half of peer p *)
Definition obligation (s : st) (p : peer) : bool :=
  match ps s p with
  | Some (OutInit x) | Some (Validating _ (OInit x) _) =>
      existsb (fun e => (fst e =? x) && (snd e =? p)) (spend s)     (* the transport owes the substream *)
  | Some (Validating _ ONeg _) => hsO s p                             (* the handshake service owes an event *)
  | Some (Validating _ OOpen IClosed) => true                         (* remote's substream or the 5 s timer *)
  | Some (Validating _ OOpen (IReading | ISending)) => hsI s p
  | Some (Validating _ OOpen IValidating) => hval s p                 (* the user owes a validation result *)
  | _ => false
  end.

Lemma existsb_spend x p l : In (x, p) l -> existsb (fun e : sid * peer => (fst e =? x) && (snd e =? p)) l = true.
Proof.
  intros H. apply existsb_exists. exists (x, p). split; auto. cbn. now rewrite !N.eqb_refl.
Qed.

Lemma obligation_ok s p : SL s -> B3 s -> L3 s -> in_progress (ps s p) = true -> obligation s p = true.
Proof.
  intros H B L I. pose proof (H p) as K. pose proof (proj1 B p) as Bp. pose proof (L p) as Lp.
  unfold obligation, pok in *. destruct (ps s p) as [[|b|po| |y|d o i|k]|]; try discriminate I.
  - apply existsb_spend, Bp. reflexivity.
  - destruct o; try discriminate I.
    + apply existsb_spend, Bp. reflexivity.
    + destruct (conn s p), (hsI s p), (hsO s p), i; cbn in K; try discriminate K; reflexivity.
    + destruct i; try reflexivity;
        try (destruct (conn s p), (hsI s p), (hsO s p); cbn in K; try discriminate K; reflexivity).
      apply Lp. reflexivity.
Qed.

Lemma drain_hval_mono ev : forall s s' dr ks p, drain s ev = (s', dr, ks) -> hval s p = true -> hval s' p = true.
Proof.
  intros s s' dr ks p D. revert s s' dr ks D.
  apply (drain_rel (fun s s' => hval s p = true -> hval s' p = true)); intros; setters; auto.
  unfold upd. destruct (p =? p0); auto.
Qed.

Lemma drain_sets ev : forall s s' dr ks p, drain s ev = (s', dr, ks) -> has_validate p ev = true -> hval s' p = true.
Proof.
  induction ev as [|e t IH]; intros s s' dr ks p; cbn; [discriminate|].
  destruct e; cbn.
  - destruct (p0 =? p) eqn:E; cbn.
    + apply N.eqb_eq in E. subst p0. destruct (hval s p) eqn:HV.
      * destruct (drain s t) as [[a b] c0] eqn:D. intros H; injection H as <- _ _. intros _.
        eapply drain_hval_mono; eauto.
      * intros H _. eapply (drain_hval_mono _ _ _ _ _ _ H). setters. apply upd_same.
    + destruct (hval s p0).
      * destruct (drain s t) as [[a b] c0] eqn:D. intros H; injection H as <- _ _. eapply IH; eauto.
      * intros H. eapply (IH _ _ _ _ _ H).
  - intros H. eapply (IH _ _ _ _ _ H).
  - destruct (current s p0 None); [|intros H; eapply IH; eauto].
    destruct (drain (set_hsink (set_hopen s p0 false) p0 None) t) as [[a b] c0] eqn:D. intros H; injection H as <- _ _. eapply (IH _ _ _ _ _ D).
  - intros H. eapply IH; eauto.
  - intros H. eapply IH; eauto.
  - destruct (current s p0 (Some k)); [|intros H; eapply IH; eauto].
    destruct (drain (set_hsink (set_hopen s p0 false) p0 None) t) as [[a b] c0] eqn:D. intros H; injection H as <- _ _. eapply (IH _ _ _ _ _ D).
Qed.

Lemma task_dies_ledger s k s' ev :
  task_dies s k = (s', ev) ->
  (forall q, in_progress (ps s' q) = in_progress (ps s q)) /\ (B3 s -> B3 s') /\ (L3 s -> L3 s') /\
  (forall q, answers q ev = []).
Proof.
  unfold task_dies. destruct (find_task k (tasks s)) as [t|]; [|intros E; injection E as <- <-; auto].
  destruct (t_closing t); [intros E; injection E as <- <-; auto|].
  destruct (t_gated t); intros E; injection E as <- <-.
  - split; [|split; [|split]]; auto.
  - split; [|split; [|split]]; auto.
    + intros q. now rewrite inprog_on_shutdown.
    + intros B. apply B3_on_shutdown. exact B.
    + intros L q V. apply val_on_shutdown in V. rewrite hval_on_shutdown. apply L, V.
    + intros q. rewrite answers_cons_shut. reflexivity.
Qed.

Lemma kill_tasks_ledger ks : forall s s' ev,
  kill_tasks s ks = (s', ev) ->
  (forall q, in_progress (ps s' q) = in_progress (ps s q)) /\ (B3 s -> B3 s') /\ (L3 s -> L3 s') /\
  (forall q, answers q ev = []).
Proof.
  induction ks as [|k t IH]; intros s s' ev; cbn.
  - intros E; injection E as <- <-; auto.
  - destruct (task_dies s k) as [s1 e1] eqn:E1. destruct (kill_tasks s1 t) as [s2 e2] eqn:E2.
    intros E; injection E as <- <-.
    destruct (task_dies_ledger _ _ _ _ E1) as (A1 & A2 & A3 & A4).
    destruct (IH _ _ _ E2) as (C1 & C2 & C3 & C4).
    split; [|split; [|split]]; auto.
    + intros q. now rewrite C1.
    + intros q. unfold answers in *. rewrite filter_app, A4, C4. reflexivity.
Qed.

Lemma answers_nil_has q ev : answers q ev = [] -> has_answer q ev = false.
Proof.
  unfold answers, has_answer. induction ev as [|e t IH]; cbn; auto.
  destruct (is_answer q e); [discriminate|auto].
Qed.

Lemma has_answer_app q a b : has_answer q (a ++ b) = has_answer q a || has_answer q b.
Proof. apply existsb_app. Qed.

Lemma has_answer_delivered q ev : forall s, has_answer q (delivered s ev) = has_answer q ev.
Proof.
  induction ev as [|e t IH]; intros s; cbn [delivered]; auto.
  destruct e; cbn [closed_report]; unfold has_answer in *; cbn [existsb is_answer].
  - apply IH.
  - rewrite IH. reflexivity.
  - destruct (current s p None); cbn [existsb is_answer]; apply IH.
  - rewrite IH. reflexivity.
  - apply IH.
  - destruct (current s p (Some k)); cbn [existsb is_answer]; apply IH.
Qed.

Lemma has_answer_notifs q l : has_answer q (map UNotif l) = false.
Proof. induction l; cbn; auto. Qed.

(* finding class 3: the user's Reject of the peer's inbound substream while an outbound substream is
   wanted for the same peer; the outbound attempt is dropped without OpenFailure (pinned by the
   integration test both_nodes_open_substream_one_rejects_substreams) *)
Definition class3_step (s : st) (o : op) : bool :=
  match o with
  | Validate p false =>
      hval s p && match ps s p with Some (Validating _ ob IValidating) => negb (o_closed ob) | _ => false end
  | _ => false
  end.

Lemma reject_class3 s o q :
  user_reject s o q = true -> in_progress (ps s q) = true -> class3_step s o = true.
Proof.
  destruct o; cbn; try discriminate. destruct accept; [discriminate|].
  intros U I. apply andb_true_iff in U. destruct U as [U U3]. apply andb_true_iff in U. destruct U as [U1 U2].
  apply N.eqb_eq in U1. subst p. rewrite U2. destruct (ps s q) as [[| | | | |d ob i|]|]; try discriminate.
  destruct i; try discriminate. exact I.
Qed.

(* the ledger: a request the protocol took up is owed an answer until NotificationStreamOpened or
   NotificationStreamOpenFailure for the peer is reported *)
Definition owed_next (s : st) (o : op) (ev : list uev) (owed : peer -> bool) : peer -> bool :=
  fun p => if has_answer p ev then false
           else if request_accepted s o p then true else owed p.

Record LInv (s : st) (owed : peer -> bool) : Prop := mkLInv {
  l_owed : forall p, owed p = true -> in_progress (ps s p) = true;
  l_b3 : B3 s;
  l_l3 : L3 s
}.

Lemma B3_same s s' : ps s' = ps s -> pend s' = pend s -> spend s' = spend s -> B3 s -> B3 s'.
Proof. intros P Pe S [B Q]. split; [intros p x|intros x q]; rewrite ?P, ?Pe, ?S; auto. Qed.

(* the no-dead-id invariant is kept by every step, whatever the user does *)
Lemma step_B3 c s o s' ev cl : SInv s -> B3 s -> step c s o = Some (s', ev, cl) -> B3 s'.
Proof.
  intros [H B] LB. unfold step.
  destruct (main_handler c s o) as [[[s1 ev1] cl1]|] eqn:M; [|discriminate].
  destruct (drain s1 ev1) as [[s2 dr] ks] eqn:D.
  destruct (kill_tasks s2 ks) as [s4 ev4] eqn:K.
  destruct (drain s4 ev4) as [[s5 x] y] eqn:D5.
  intros E; injection E as <- _ _.
  pose proof (drain_tasks _ _ _ _ _ D) as (P2 & _). pose proof (drain_net _ _ _ _ _ D) as (_ & _ & _ & _ & Pe2 & S2 & _).
  pose proof (drain_tasks _ _ _ _ _ D5) as (P5 & _). pose proof (drain_net _ _ _ _ _ D5) as (_ & _ & _ & _ & Pe5 & S5 & _).
  destruct (kill_tasks_ledger _ _ _ _ K) as (_ & KB & _ & _).
  pose proof (B3_main _ _ _ _ _ _ LB B M) as B1.
  eapply B3_same; [exact P5|exact Pe5|exact S5|]. apply KB. eapply B3_same; [exact P2|exact Pe2|exact S2|exact B1].
Qed.

Lemma B3_init : B3 init.
Proof. split; [intros p x; cbn; discriminate|intros x q []]. Qed.

Lemma step_ledger c s o owed s' ev cl :
  SInv s -> LInv s owed -> class3_step s o = false ->
  step c s o = Some (s', ev, cl) -> LInv s' (owed_next s o ev owed).
Proof.
  intros [H B] [L1 LB L3s] C4. unfold step in *.
  destruct (main_handler c s o) as [[[s1 ev1] cl1]|] eqn:M; [|discriminate].
  destruct (drain s1 ev1) as [[s2 dr] ks] eqn:D.
  destruct (kill_tasks s2 ks) as [s4 ev4] eqn:K.
  destruct (drain s4 ev4) as [[s5 x] y] eqn:D5.
  intros E; injection E as <- <- <-.
  pose proof (drain_tasks _ _ _ _ _ D) as (P2 & _). pose proof (drain_net _ _ _ _ _ D) as (_ & _ & _ & _ & Pe2 & S2 & _).
  pose proof (drain_tasks _ _ _ _ _ D5) as (P5 & _). pose proof (drain_net _ _ _ _ _ D5) as (_ & _ & _ & _ & Pe5 & S5 & _).
  destruct (kill_tasks_ledger _ _ _ _ K) as (KI & KB & KL & KA).
  assert (IP : forall q, in_progress (ps s5 q) = in_progress (ps s1 q)) by (intros q; rewrite P5, KI, P2; reflexivity).
  assert (HA : forall q, has_answer q (delivered s1 ev1 ++ map UNotif (filter (hopen s2) (notifs_of s o)) ++ delivered s4 ev4) = has_answer q ev1).
  { intros q. rewrite !has_answer_app, has_answer_notifs, !has_answer_delivered, (answers_nil_has _ _ (KA q)). now rewrite !orb_false_r. }
  constructor.
  - intros p. unfold owed_next. rewrite HA, IP.
    destruct (has_answer p ev1) eqn:A1; [discriminate|].
    destruct (request_accepted s o p) eqn:R.
    + intros _. destruct (request_main _ _ _ _ _ _ _ R M); congruence.
    + intros O. specialize (L1 p O).
      destruct (in_progress (ps s1 p)) eqn:I1; auto.
      destruct (leave_main _ _ _ _ _ _ M p L1 I1) as [X|X]; [congruence|].
      rewrite (reject_class3 _ _ _ X L1) in C4. discriminate.
  - pose proof (B3_main _ _ _ _ _ _ LB B M) as B1.
    eapply B3_same; [exact P5|exact Pe5|exact S5|]. apply KB. eapply B3_same; [exact P2|exact Pe2|exact S2|exact B1].
  - assert (L2 : L3 s2).
    { intros q V. rewrite P2 in V. destruct (L3_main _ _ _ _ _ _ L3s M q V) as [A|A].
      - eapply drain_hval_mono; eauto.
      - eapply drain_sets; eauto. }
    intros q V. rewrite P5 in V. eapply drain_hval_mono; eauto. apply (KL L2 q V).
Qed.

Lemma answers_step c s o s' ev cl :
  step c s o = Some (s', ev, cl) -> forall q, (length (answers q ev) <= 1)%nat.
Proof.
  unfold step. destruct (main_handler c s o) as [[[s1 ev1] cl1]|] eqn:M; [|discriminate].
  destruct (drain s1 ev1) as [[s2 dr] ks] eqn:D.
  destruct (kill_tasks s2 ks) as [s4 ev4] eqn:K.
  destruct (drain s4 ev4) as [[s5 x] y]. intros E; injection E as _ <- _. intros q.
  destruct (kill_tasks_ledger _ _ _ _ K) as (_ & _ & _ & KA).
  pose proof (answers_delivered q ev1 s1) as A1. pose proof (answers_delivered q ev4 s4) as A4.
  unfold answers in *. rewrite !filter_app, A1, A4, KA, app_nil_r.
  assert (N0 : filter (is_answer q) (map UNotif (filter (hopen s2) (notifs_of s o))) = []).
  { induction (filter (hopen s2) (notifs_of s o)); cbn; auto. }
  rewrite N0, app_nil_r. eapply answers_main; eauto.
Qed.

Fixpoint ledger (c : cfg) (s : st) (owed : peer -> bool) (l : list op) : option (st * (peer -> bool)) :=
  match l with
  | [] => Some (s, owed)
  | o :: t =>
      match step c s o with
      | Some (s1, ev, _) => ledger c s1 (owed_next s o ev owed) t
      | None => None
      end
  end.

(* the histories the ledger theorem is about: outside finding class 3 (the user does not reject an
   inbound substream of a peer while an outbound substream for that peer is wanted) *)
Fixpoint ledger_env (c : cfg) (s : st) (l : list op) : bool :=
  match l with
  | [] => true
  | o :: t =>
      negb (class3_step s o) &&
      match step c s o with
      | Some (s1, _, _) => ledger_env c s1 t
      | None => true
      end
  end.

Lemma LInv_init : LInv init (fun _ => false).
Proof.
  constructor.
  - intros p; cbn; discriminate.
  - split; [intros p x; cbn; discriminate|intros x q []].
  - intros p; cbn; discriminate.
Qed.

Lemma ledger_inv c l : forall s owed s' owed',
  SInv s -> LInv s owed -> ledger_env c s l = true -> ledger c s owed l = Some (s', owed') ->
  SInv s' /\ LInv s' owed'.
Proof.
  induction l as [|o t IH]; intros s owed s' owed' I L E R; cbn in *.
  - injection R as <- <-. auto.
  - apply andb_true_iff in E. destruct E as [E2 E3].
    apply negb_true_iff in E2.
    destruct (step_SInv c s o I) as (s1 & ev & cl & S & I1). rewrite S in *.
    eapply IH; eauto. eapply step_ledger; eauto.
Qed.

Lemma open_answered c l s owed :
  ledger_env c init l = true -> ledger c init (fun _ => false) l = Some (s, owed) ->
  forall p, owed p = true -> in_progress (ps s p) = true /\ obligation s p = true.
Proof.
  intros E R p O. destruct (ledger_inv _ _ _ _ _ _ SInv_init LInv_init E R) as [[H B] [L1 LB L3s]].
  split; auto. apply obligation_ok; auto.
Qed.

Definition w_drop : list op :=
  [Established 0; CmdOpen 0; SubIn 0; HsIn 0 true; SubOut 0; HsOut 0 false;
   CmdOpen 0; SubIn 0; HsIn 0 true; SubOut 0].
Definition w_failed_sid2 : list op :=
  [Established 0; SubIn 0; HsIn 0 true; Validate 0 true; OpenFail 0; CmdOpen 0].

Example w_drop_check :
  match ledger cfg_w0 init (fun _ => false) w_drop with
  | Some (s, owed) => (owed 0, in_progress (ps s 0), obligation s 0)
  | None => (false, false, false)
  end = (true, true, true).
Proof. vm_compute. reflexivity. Qed.
Definition w_reject : list op :=
  [Established 0; CmdOpen 0; SubIn 0; HsIn 0 true; Validate 0 false; SubOut 0].
Example w_reject_check :
  match ledger cfg_w0 init (fun _ => false) w_reject with
  | Some (s, owed) => (owed 0, in_progress (ps s 0), obligation s 0)
  | None => (false, false, false)
  end = (true, false, false).
Proof. vm_compute. reflexivity. Qed.
(* the former finding class 2, repaired (fix: commit): the failed id stays remembered in
   PeerState::Closed, but the next open request does not adopt it: a new substream is requested *)
Example w_failed_check :
  match ledger cfg_w0 init (fun _ => false) w_failed_sid2 with
  | Some (s, owed) => (owed 0, in_progress (ps s 0), obligation s 0, ps s 0)
  | None => (false, false, false, None)
  end = (true, true, true, Some (OutInit 1)).
Proof. vm_compute. reflexivity. Qed.

(* on_open_substream before the repair: a remembered id was adopted unconditionally *)
Definition on_open_old (c : cfg) (s : st) (p : peer) : res :=
  match ps s p with
  | Some (Closed (Some x)) => ok (set_ps (set_pend s (pend_insert x p (pend s))) p (Some (OutInit x)))
  | _ => on_open c s p
  end.

Definition w_failed_pre : list op :=
  [Established 0; SubIn 0; HsIn 0 true; Validate 0 true; OpenFail 0].

(* after w_failed_pre the id 0 has failed and is still remembered; the old arm takes the request up
   with that id although neither pending_outbound nor the transport knows it (nothing will ever answer
   the request), the repaired one asks the transport for a new substream *)
Example failed_id_before_fix :
  match exec cfg_w0 init w_failed_pre with
  | Some s =>
      (ps s 0, pend_find 0 (pend s), spend s, hopen s 0,
       match on_open_old cfg_w0 s 0 with
       | Some (s', ev, cl) => Some (ps s' 0, in_progress (ps s' 0), obligation s' 0, ev, cl)
       | None => None
       end,
       match on_open cfg_w0 s 0 with
       | Some (s', ev, cl) => Some (ps s' 0, in_progress (ps s' 0), obligation s' 0, ev, cl)
       | None => None
       end)
  | None => (None, None, [], true, None, None)
  end =
  (Some (Closed (Some 0)), None, [], false,
   Some (Some (OutInit 0), true, false, [], []),
   Some (Some (OutInit 1), true, true, [], [COpen 0 1])).
Proof. vm_compute. reflexivity. Qed.

(* ================================================================== the environment guards, explicitly *)
(* An event is enabled when the TransportService / HandshakeService / NotificationHandle can deliver it:
   connections are established and closed alternately per peer, substreams arrive on live connections,
   substream results answer a request that is in flight, handshake events concern a substream the
   handshake service holds, a validation result answers a request the handle holds, user commands
   pass the handle's gate. A disabled event is not delivered (main_handler leaves the state alone). *)
Definition enabled (s : st) (o : op) : bool :=
  match o with
  | Established p => negb (conn s p)
  | ConnClosed p | SubIn p | KillChan p => conn s p
  | SubOut p | OpenFail p => conn s p && match first_req p (spend s) with Some _ => true | None => false end
  | HsIn p _ => hsI s p
  | HsOut p _ => hsO s p
  | Validate p _ => hval s p
  | CmdOpen p => negb (hopen s p)
  | CmdClose p => hopen s p
  | _ => true
  end.

Lemma disabled_noop c s o : enabled s o = false -> main_handler c s o = ok s.
Proof.
  destruct o; cbn; try discriminate; intros E; rewrite ?E; auto.
  - apply negb_false_iff in E. now rewrite E.
  - destruct (conn s p); auto. cbn in E. destruct (first_req p (spend s)); [discriminate|auto].
  - destruct (conn s p); auto. cbn in E. destruct (first_req p (spend s)); [discriminate|auto].
  - apply negb_false_iff in E. now rewrite E.
Qed.

Fixpoint feasible (c : cfg) (s : st) (l : list op) : bool :=
  match l with
  | [] => true
  | o :: t => enabled s o && match step c s o with Some (s1, _, _) => feasible c s1 t | None => true end
  end.

Definition w_twice : list op := [Established 0].

