(* C11 — task/peer identity, reachable states, isolation between peers. *)
From Coq Require Import List NArith Bool Lia.
From V.C11 Require Import Model PBase PInv.
From V.C11 Require Export PTask.
Import ListNotations.
Open Scope N_scope.

(* reachable states *)
Inductive reachable (c : cfg) : st -> Prop :=
| reach_init : reachable c init
| reach_step s o s' ev cl : reachable c s -> step c s o = Some (s', ev, cl) -> reachable c s'.

Lemma reachable_inv c s : reachable c s -> SInv s /\ TInv s.
Proof.
  induction 1 as [|s o s' ev cl R [I T] S].
  - split; [apply SInv_init|apply TInv_init].
  - split; [|eapply step_TInv; eauto].
    destruct (step_SInv c s o I) as (s2 & e2 & c2 & E & I2). rewrite E in S. injection S as <- _ _. exact I2.
Qed.

Lemma run_reachable c ops : forall s, reachable c s ->
  forall x, In x (fst (run c s ops)) -> reachable c (fst (fst x)).
Proof.
  induction ops as [|o t IH]; intros s R x; cbn; [intros []|].
  destruct (step c s o) as [[[s1 ev] cl]|] eqn:E; [|intros []].
  assert (R1 : reachable c s1) by (eapply reach_step; eauto).
  specialize (IH s1 R1). destruct (run c s1 t) as [r b]. cbn in *. intros [<-|Hx]; auto.
Qed.

Lemma reachable_inv3 c s : reachable c s -> SInv s /\ TInv s /\ SKInv s.
Proof.
  induction 1 as [|s o s' ev cl R (I & T & K) S].
  - split; [apply SInv_init|split; [apply TInv_init|apply SK_init]].
  - split; [|split; [eapply step_TInv; eauto|eapply step_SK; eauto]].
    destruct (step_SInv c s o I) as (s2 & e2 & c2 & E & I2). rewrite E in S. injection S as <- _ _. exact I2.
Qed.

(* ================================================================== isolation between peers *)
Definition uev_peer (e : uev) : peer :=
  match e with UValidate p | UOpened p _ | UClosed p | UFail p _ | UNotif p | UClosedT p _ => p end.
Definition call_peer (c : call) : peer :=
  match c with CDial p | COpen p _ | CForce p | CRet p _ | CWire p _ _ => p end.

Definition iso_fields (s s' : st) (p : peer) : Prop :=
  forall q, q <> p ->
    ps s' q = ps s q /\ hsI s' q = hsI s q /\ hsO s' q = hsO s q /\ hopen s' q = hopen s q /\
    hval s' q = hval s q /\ conn s' q = conn s q /\ dead s' q = dead s q /\ lastt s' q = lastt s q.
Definition iso_spend (s s' : st) (p : peer) : Prop :=
  forall q y, q <> p -> (In (y, q) (spend s') <-> In (y, q) (spend s)).
Definition iso_out (p : peer) (ev : list uev) (cl : list call) : Prop :=
  Forall (fun e => uev_peer e = p) ev /\ Forall (fun c => call_peer c = p) cl.
Definition iso (s s' : st) (p : peer) (ev : list uev) (cl : list call) : Prop :=
  iso_fields s s' p /\ iso_spend s s' p /\ iso_out p ev cl.

Lemma iso_refl s p : iso s s p [] [].
Proof. split; [|split]; [intros q Hq; repeat split | intros q y Hq; tauto | split; constructor]. Qed.

Lemma iso_trans s s1 s2 p e1 c1 e2 c2 :
  iso s s1 p e1 c1 -> iso s1 s2 p e2 c2 -> iso s s2 p (e1 ++ e2) (c1 ++ c2).
Proof.
  intros (F1 & S1 & O1 & O1') (F2 & S2 & O2 & O2'). split; [|split; [|split]].
  - intros q Hq. destruct (F1 q Hq) as (A1 & A2 & A3 & A4 & A5 & A6 & A7 & A8).
    destruct (F2 q Hq) as (B1 & B2 & B3 & B4 & B5 & B6 & B7 & B8).
    repeat split; congruence.
  - intros q y Hq. rewrite (S2 q y Hq). apply S1; auto.
  - apply Forall_app; auto.
  - apply Forall_app; auto.
Qed.

Ltac isof_close := let q := fresh "q" in let Hq := fresh "Hq" in
  intros q Hq; setters; rewrite ?upd_other by exact Hq; repeat split; reflexivity.
Ltac isos_close B :=
  let q := fresh "q" in let y := fresh "y" in let Hq := fresh "Hq" in
  intros q y Hq; setters;
  first [ tauto
        | rewrite in_app_iff; cbn; split; [intros [?|[X|[]]]; auto; inversion X; congruence | auto]
        | rewrite in_drop_peer; tauto
        | rewrite in_pend_remove; split; [tauto|];
          let H := fresh "H" in intros H; split; [exact H|];
          intros ->;
          match goal with Hf : first_req ?p (spend ?s) = Some ?x |- _ =>
            apply Hq; eapply (spend_owner s x p q B); [exact H | apply first_req_in; exact Hf] end ].
Lemma shut_ev_peer s p : Forall (fun e => uev_peer e = p) (shut_ev s p).
Proof.
  unfold shut_ev. destruct (ps s p) as [[]|]; try constructor. destruct (task_closed s k); repeat constructor.
Qed.

Ltac isoo_close := split; repeat match goal with |- context [if ?b then _ else _] => destruct b end;
  repeat first [apply shut_ev_peer | constructor].
Ltac iso_close B := split; [isof_close | split; [isos_close B | isoo_close]].

Ltac sig_ev T :=
  match goal with
  | H0 : ?ev = [] \/ (exists t, find_task ?k _ = Some t /\ ?ev = [UClosedT (t_peer t) ?k]), Hp : ps ?s ?p = Some (Open ?k) |- _ =>
      let t := fresh "t" in let F := fresh "F" in let In1 := fresh "In1" in let Id1 := fresh "Id1" in
      destruct H0 as [->|(t & F & ->)];
      [| setters; apply find_task_some in F; destruct F as [In1 Id1];
         rewrite (proj2 (proj2 T p k (or_introl Hp)) t In1 Id1)]
  end.

Lemma iso_shutdown_after s s' p ev cl : iso s s' p ev cl -> iso s (on_shutdown s' p) p ev cl.
Proof.
  intros I. unfold on_shutdown. destruct (ps s' p) as [[]|]; auto.
  destruct (task_closed s' k); auto.
  destruct I as (F & S & O). split; [|split; auto].
  intros q Hq. destruct (F q Hq) as (A1 & A2). setters. rewrite upd_other by exact Hq. split; auto.
Qed.

Lemma finish_tasks_evs p l : forall l' ev n, finish_tasks p l = (l', ev, n) -> Forall (fun e => uev_peer e = p) ev.
Proof.
  induction l as [|a l IH]; cbn; intros l' ev n.
  - intros H; injection H as _ <- _. constructor.
  - destruct (finish_tasks p l) as [[r' e'] n'] eqn:E. specialize (IH _ _ _ eq_refl).
    destruct ((t_peer a =? p) && negb (t_gated a)); [destruct (t_closing a)|];
      intros H; injection H as _ <- _; auto.
Qed.

Lemma sink_send_peer s p k m a :
  SKInv s -> hsink s p = Some k \/ usink s p = Some k -> Forall (fun c => call_peer c = p) (sink_send s p k m a).
Proof.
  intros K H. unfold sink_send. destruct (find_task k (tasks s)) as [t|] eqn:F.
  - destruct (find_task_some _ _ _ F) as [In1 Id1]. rewrite (proj2 (K p k H) t In1 Id1).
    destruct (t_closing t); repeat constructor.
  - repeat constructor.
Qed.

Lemma iso_calls s p cl : Forall (fun c => call_peer c = p) cl -> iso s s p [] cl.
Proof. intros F. split; [|split]; [intros q Hq; repeat split | intros q y Hq; tauto | split; [constructor|exact F]]. Qed.

Lemma iso_main c s o s1 ev cl :
  SB s -> TInv s -> SKInv s -> main_handler c s o = Some (s1, ev, cl) -> iso s s1 (op_peer o) ev cl.
Proof.
  intros B T K M. destruct o; unfold_handlers M; cbn [op_peer].
  all: try (split_all; same_peer B; try (iso_close B; fail); try (sig_ev T; iso_close B; fail);
            try (apply iso_shutdown_after; iso_close B; fail); fail).
  - match type of M with context [finish_tasks ?a ?b] => destruct (finish_tasks a b) as [[l' e'] n'] eqn:F end.
    apply finish_tasks_evs in F. split_all.
    assert (I : iso s (set_tasks s l') p (e' ++ (if n' =? 0 then [] else shut_ev (set_tasks s l') p)) []).
    { split; [isof_close | split; [isos_close B | split; [|constructor]]]. apply Forall_app. split; [exact F|].
      destruct (n' =? 0); [constructor|apply shut_ev_peer]. }
    unfold run_shutdowns. match goal with |- context [if ?b then _ else _] => destruct b end; auto.
    now apply iso_shutdown_after.
  - injection M as <- <- <-. apply iso_calls. unfold handle_send. destruct (hsink s p) as [k|] eqn:E.
    + apply sink_send_peer; auto.
    + repeat constructor.
  - injection M as <- <- <-. apply iso_calls. unfold handle_send. destruct (hsink s p) as [k|] eqn:E.
    + apply sink_send_peer; auto.
    + repeat constructor.
  - injection M as <- <- <-. apply iso_calls. destruct (usink s p) as [k|] eqn:E.
    + apply sink_send_peer; auto.
    + constructor.
  - injection M as <- <- <-. apply iso_calls. destruct (usink s p) as [k|] eqn:E.
    + apply sink_send_peer; auto.
    + constructor.
Qed.

Definition same_rest (s s' : st) : Prop :=
  ps s' = ps s /\ pend s' = pend s /\ hsI s' = hsI s /\ hsO s' = hsO s /\ conn s' = conn s /\
  dead s' = dead s /\ nsid s' = nsid s /\ spend s' = spend s /\ tasks s' = tasks s /\
  ntask s' = ntask s /\ lastt s' = lastt s.

(* all tasks with one of these ids belong to p *)
Definition owned (p : peer) (ks : list N) (l : list task) : Prop :=
  forall k, In k ks -> forall t, In t l -> t_id t = k -> t_peer t = p.

Lemma SK_hsink_last s p : TInv s -> SKInv s -> SKInv (set_hsink s p (lastt s p)).
Proof.
  intros T K q k X. setters. unfold upd in X. destruct (q =? p) eqn:E.
  - apply N.eqb_eq in E. subst q. destruct X as [X|X]; [|apply K; auto].
    apply (proj2 T). right. exact X.
  - apply K. exact X.
Qed.

Lemma SK_hsink_none s p : SKInv s -> SKInv (set_hsink s p None).
Proof.
  intros K q k X. setters. unfold upd in X. destruct (q =? p) eqn:E.
  - destruct X as [X|X]; [discriminate|]. apply N.eqb_eq in E. subst q. apply K; auto.
  - apply K. exact X.
Qed.

Lemma drain_iso p ev : Forall (fun e => uev_peer e = p) ev -> forall s s' dr ks,
  TInv s -> SKInv s -> drain s ev = (s', dr, ks) ->
  same_rest s s' /\ (forall q, q <> p -> hopen s' q = hopen s q /\ hval s' q = hval s q) /\
  Forall (eq p) dr /\ owned p ks (tasks s).
Proof.
  induction 1 as [|e t He _ IH]; intros s s' dr ks T K; cbn.
  - intros H; injection H as <- <- <-. repeat split; auto. intros k [].
  - destruct e; cbn in He; subst p0.
    + destruct (hval s p) eqn:HV.
      * destruct (drain s t) as [[a b] c0] eqn:E. intros H; injection H as <- <- <-.
        destruct (IH _ _ _ _ T K E) as (A & B & C & D). split; [exact A|split; [exact B|split; [constructor; auto|exact D]]].
      * intros H. destruct (IH (set_hval s p true) _ _ _ T K H) as (A & B & C & D). setters.
        split; [exact A|]. split; [|split; auto].
        intros q Hq. destruct (B q Hq) as [B1 B2]. rewrite upd_other in B2 by exact Hq. auto.
    + intros H. destruct (IH (set_hsink (set_hopen s p true) p (lastt s p)) _ _ _ T (SK_hsink_last s p T K) H) as (A & B & C & D). setters.
      split; [exact A|]. split; [|split; auto].
      intros q Hq. destruct (B q Hq) as [B1 B2]. rewrite upd_other in B1 by exact Hq. auto.
    + cbn [closed_report]. destruct (current s p None); [|intros H; eapply IH; eauto].
      destruct (drain (set_hsink (set_hopen s p false) p None) t) as [[a b] c0] eqn:E. intros H; injection H as <- <- <-.
      destruct (IH (set_hsink (set_hopen s p false) p None) _ _ _ T (SK_hsink_none s p K) E) as (A & B & C & D). setters.
      split; [exact A|]. split; [|split; auto].
      * intros q Hq. destruct (B q Hq) as [B1 B2]. rewrite upd_other in B1 by exact Hq. auto.
      * intros k Hk. apply in_app_or in Hk. destruct Hk as [Hk|Hk]; [|apply D; exact Hk].
        destruct (hsink s p) as [k0|] eqn:HS; [|destruct Hk].
        destruct (running s k0 && _); [|destruct Hk]. destruct Hk as [<-|[]].
        apply (K p k0). left. exact HS.
    + intros H. eapply IH; eauto.
    + intros H. eapply IH; eauto.
    + cbn [closed_report]. destruct (current s p (Some k)); [|intros H; eapply IH; eauto].
      destruct (drain (set_hsink (set_hopen s p false) p None) t) as [[a b] c0] eqn:E. intros H; injection H as <- <- <-.
      destruct (IH (set_hsink (set_hopen s p false) p None) _ _ _ T (SK_hsink_none s p K) E) as (A & B & C & D). setters.
      split; [exact A|]. split; [|split; auto].
      * intros q Hq. destruct (B q Hq) as [B1 B2]. rewrite upd_other in B1 by exact Hq. auto.
      * intros k1 Hk. apply in_app_or in Hk. destruct Hk as [Hk|Hk]; [|apply D; exact Hk].
        destruct (hsink s p) as [k0|] eqn:HS; [|destruct Hk].
        destruct (running s k0 && _); [|destruct Hk]. destruct Hk as [<-|[]].
        apply (K p k0). left. exact HS.
Qed.

Lemma delivered_peer p ev : Forall (fun e => uev_peer e = p) ev -> forall s, Forall (fun e => uev_peer e = p) (delivered s ev).
Proof.
  induction 1 as [|e t He _ IH]; intros s; cbn [delivered]; [constructor|].
  destruct e; cbn [closed_report]; cbn in He.
  - constructor; auto.
  - constructor; auto.
  - destruct (current s p0 None); [constructor|]; auto.
  - constructor; auto.
  - constructor; auto.
  - destruct (current s p0 (Some k)); [constructor|]; auto.
Qed.

Lemma iso_of_drain s s' p :
  same_rest s s' -> (forall q, q <> p -> hopen s' q = hopen s q /\ hval s' q = hval s q) -> iso s s' p [] [].
Proof.
  intros (A1 & A2 & A3 & A4 & A5 & A6 & A7 & A8 & A9 & A10 & A11) G. split; [|split].
  - intros q Hq. destruct (G q Hq). rewrite A1, A3, A4, A5, A6, A11. repeat split; auto.
  - intros q y Hq. rewrite A8. tauto.
  - split; constructor.
Qed.

Lemma iso_on_validation s p a s1 ev cl : SB s -> on_validation s p a = Some (s1, ev, cl) -> iso s s1 p ev cl.
Proof.
  intros B M. unfold on_validation, svc_open, ok, ok_ev in M. setters_in M.
  split_all; iso_close B.
Qed.

Lemma task_dies_iso s k p s' ev :
  owned p [k] (tasks s) -> task_dies s k = (s', ev) -> iso s s' p ev [].
Proof.
  intros O. unfold task_dies. destruct (find_task k (tasks s)) as [t|] eqn:F;
    [|intros E; injection E as <- <-; apply iso_refl].
  destruct (find_task_some _ _ _ F) as [In1 Id1].
  rewrite (O k (or_introl eq_refl) t In1 Id1).
  destruct (t_closing t); [intros E; injection E as <- <-; apply iso_refl|].
  destruct (t_gated t); intros E; injection E as <- <-.
  - split; [isof_close|split; [intros q y Hq; setters; tauto|split; constructor]].
  - apply iso_shutdown_after. split; [isof_close|split; [intros q y Hq; setters; tauto|split; repeat first [apply shut_ev_peer | constructor]]].
Qed.

Lemma task_dies_le s k s' ev : task_dies s k = (s', ev) -> tasks_le (tasks s) (tasks s').
Proof.
  unfold task_dies. destruct (find_task k (tasks s)) as [t|]; [|intros E; injection E as <- _; apply tasks_le_refl].
  destruct (t_closing t); [intros E; injection E as <- _; apply tasks_le_refl|].
  destruct (t_gated t); intros E; injection E as <- _.
  - setters. tle_close.
  - assert (X : tasks (on_shutdown (set_tasks s (remove_task k (tasks s))) (t_peer t)) = remove_task k (tasks s)).
    { unfold on_shutdown. match goal with |- context [match ?x with _ => _ end] => destruct x as [[]|] end; auto.
      match goal with |- context [if ?x then _ else _] => destruct x end; auto. }
    rewrite X. tle_close.
Qed.

Lemma owned_le p ks l l' : tasks_le l l' -> owned p ks l -> owned p ks l'.
Proof.
  intros TL O k Hk t' Ht' Id. destruct (TL t' Ht') as (t & Ht & E1 & E2). rewrite E2. apply (O k Hk t Ht). congruence.
Qed.

Lemma kill_tasks_iso p ks : forall s s' ev,
  owned p ks (tasks s) -> kill_tasks s ks = (s', ev) -> iso s s' p ev [].
Proof.
  induction ks as [|k t IH]; intros s s' ev O; cbn.
  - intros E; injection E as <- <-. apply iso_refl.
  - destruct (task_dies s k) as [s1 e1] eqn:E1. destruct (kill_tasks s1 t) as [s2 e2] eqn:E2.
    intros E; injection E as <- <-.
    change (@nil call) with (@nil call ++ []).
    eapply iso_trans; [eapply task_dies_iso; eauto; intros k0 [<-|[]]; apply O; left; reflexivity|].
    eapply IH; eauto. eapply owned_le; [eapply task_dies_le; eauto|].
    intros k0 Hk. apply O. right. exact Hk.
Qed.

Lemma notifs_peer s o q : In q (notifs_of s o) -> q = op_peer o.
Proof.
  destruct o; cbn; try tauto;
    (destruct (lastt s p) as [k|]; [|intros []]; destruct (running s k); [|intros []]; intros [<-|[]]; reflexivity).
Qed.

Lemma on_validation_lastt s p a s1 ev cl : on_validation s p a = Some (s1, ev, cl) -> lastt s1 = lastt s.
Proof.
  intros M. unfold on_validation, svc_open, ok, ok_ev in M. setters_in M. split_all; reflexivity.
Qed.

Definition isoS (s s' : st) (p : peer) : Prop := iso_fields s s' p /\ iso_spend s s' p.

Lemma isoS_trans s s1 s2 p : isoS s s1 p -> isoS s1 s2 p -> isoS s s2 p.
Proof.
  intros [F1 S1] [F2 S2]. split.
  - intros q Hq. destruct (F1 q Hq) as (A1 & A2 & A3 & A4 & A5 & A6 & A7 & A8).
    destruct (F2 q Hq) as (B1 & B2 & B3 & B4 & B5 & B6 & B7 & B8). repeat split; congruence.
  - intros q y Hq. rewrite (S2 q y Hq). apply S1; auto.
Qed.

Lemma step_iso c s o s' ev cl :
  SInv s -> TInv s -> SKInv s -> step c s o = Some (s', ev, cl) -> iso s s' (op_peer o) ev cl.
Proof.
  intros [H B] T SK. unfold step. set (p := op_peer o).
  destruct (main_handler c s o) as [[[s1 ev1] cl1]|] eqn:M; [|discriminate].
  destruct (iso_main _ _ _ _ _ _ B T SK M) as (F1 & S1 & O1 & C1). fold p in F1, S1, O1, C1.
  pose proof (TInv_main _ _ _ _ _ _ T M) as T1. pose proof (SK_main _ _ _ _ _ _ SK M) as K1.
  destruct (drain s1 ev1) as [[s2 dr] ks] eqn:D.
  destruct (drain_iso p ev1 O1 _ _ _ _ T1 K1 D) as (R2 & G2 & DR & KS).
  destruct (iso_of_drain _ _ p R2 G2) as (F2 & S2 & _).
  pose proof (drain_tasks _ _ _ _ _ D) as TS2.
  pose proof (TInv_same _ _ TS2 T1) as T2. pose proof (SK_drain _ _ _ _ _ T1 K1 D) as K2.
  destruct (kill_tasks s2 ks) as [s4 ev4] eqn:K.
  assert (KS3 : owned p ks (tasks s2)).
  { destruct R2 as (_ & _ & _ & _ & _ & _ & _ & _ & TT & _). rewrite TT. exact KS. }
  destruct (kill_tasks_iso p ks _ _ _ KS3 K) as (F4 & S4 & O4 & _).
  pose proof (kill_tasks_TInv _ _ _ _ K T2) as T4. pose proof (SK_kill _ _ _ _ K K2) as K4.
  destruct (drain s4 ev4) as [[s5 x] y] eqn:D5.
  destruct (drain_iso p ev4 O4 _ _ _ _ T4 K4 D5) as (R5 & G5 & _ & _).
  destruct (iso_of_drain _ _ p R5 G5) as (F5 & S5 & _).
  intros E; injection E as <- <- <-.
  assert (ST : isoS s s5 p).
  { eapply isoS_trans; [split; [exact F1|exact S1]|].
    eapply isoS_trans; [split; [exact F2|exact S2]|].
    eapply isoS_trans; [split; [exact F4|exact S4]|]. split; [exact F5|exact S5]. }
  destruct ST as [FF SS]. split; [exact FF|split; [exact SS|split]].
  - apply Forall_app; split; [apply delivered_peer; exact O1|].
    apply Forall_app; split; [|apply delivered_peer; exact O4].
    apply Forall_forall. intros e He. apply in_map_iff in He. destruct He as (q & <- & Hq).
    apply filter_In in Hq. cbn. apply (notifs_peer s o). tauto.
  - exact C1.
Qed.


