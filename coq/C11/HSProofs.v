(* C11 — lemmas about the HandshakeService model (HSModel.v). *)
From Coq Require Import List NArith Bool Lia.
From V.C11 Require Import HSModel.
Import ListNotations.
Open Scope N_scope.

Arguments N.add : simpl never.
Arguments N.eqb : simpl never.

Lemma find_some k l e : find k l = Some e -> In e l /\ e_key e = k.
Proof.
  induction l as [|a l IH]; cbn; [discriminate|]. destruct (e_key a =? k) eqn:E.
  - intros H; injection H as ->. apply N.eqb_eq in E. auto.
  - intros H. destruct (IH H). auto.
Qed.

Lemma find_del_same k l : find k (del k l) = None.
Proof.
  induction l as [|a l IH]; cbn; auto. destruct (e_key a =? k) eqn:E; cbn; auto. now rewrite E.
Qed.

Lemma find_del_other k k' l : k' <> k -> find k' (del k l) = find k' l.
Proof.
  intros H. induction l as [|a l IH]; cbn; auto. destruct (e_key a =? k) eqn:E; cbn.
  - apply N.eqb_eq in E. destruct (e_key a =? k') eqn:E2; auto. apply N.eqb_eq in E2. congruence.
  - destruct (e_key a =? k'); auto.
Qed.

Lemma find_put_same e l : find (e_key e) (put e l) = Some e.
Proof. unfold put. cbn. now rewrite N.eqb_refl. Qed.

Lemma find_put_other e k l : k <> e_key e -> find k (put e l) = find k l.
Proof.
  intros H. unfold put. cbn. destruct (e_key e =? k) eqn:E; [apply N.eqb_eq in E; congruence|].
  apply find_del_other. auto.
Qed.

(* ---- the keys of the map are unique ---- *)
Definition uniq (l : list hent) : Prop := NoDup (map e_key l).

Lemma in_del e k l : In e (del k l) <-> In e l /\ e_key e <> k.
Proof.
  unfold del. rewrite filter_In. split; intros [A B]; split; auto.
  - intros E. rewrite E, N.eqb_refl in B. discriminate.
  - destruct (e_key e =? k) eqn:E; auto. apply N.eqb_eq in E. contradiction.
Qed.

Lemma uniq_del k l : uniq l -> uniq (del k l).
Proof.
  unfold uniq. induction l as [|a l IH]; cbn; auto. intros ND. inversion ND as [|x y Hn ND']; subst.
  destruct (negb (e_key a =? k)); cbn; auto. constructor; auto.
  intros H. apply Hn. apply in_map_iff in H. destruct H as (e & E & He). apply in_del in He. rewrite <- E. apply in_map. tauto.
Qed.

Lemma uniq_put e l : uniq l -> uniq (put e l).
Proof.
  intros U. unfold put, uniq. cbn. constructor; [|apply uniq_del; auto].
  intros H. apply in_map_iff in H. destruct H as (a & E & Ha). apply in_del in Ha. tauto.
Qed.

Lemma visit1_key e : match visit1 e with VNeg e' _ | VWait e' => e_key e' = e_key e | VErr => True end.
Proof.
  unfold visit1, read_stage. destruct (e_timed e); auto.
  destruct (e_stage e); repeat match goal with |- context [if ?b then _ else _] => destruct b end; cbn; auto.
Qed.

Lemma visit_uniq ord : forall h h' r, visit h ord = (h', r) -> uniq (ents h) -> uniq (ents h').
Proof.
  induction ord as [|k t IH]; intros h h' r; cbn [visit].
  - intros E; injection E as <- _. auto.
  - destruct (find k (ents h)) as [e|]; [|apply IH].
    destruct (visit1 e) as [|e' rd|e']; [intros E; injection E as <- _; auto| |];
      intros E U; eapply IH; eauto; cbn; apply uniq_put; auto.
Qed.

(* the loop neither adds nor removes keys *)
Lemma visit_has ord : forall h h' r k0, visit h ord = (h', r) ->
  find k0 (ents h') = None <-> find k0 (ents h) = None.
Proof.
  induction ord as [|k t IH]; intros h h' r k0; cbn [visit].
  - intros E; injection E as <- _. tauto.
  - destruct (find k (ents h)) as [e|] eqn:F; [|apply IH].
    pose proof (visit1_key e) as VK. destruct (find_some _ _ _ F) as [_ Ek].
    destruct (visit1 e) as [|e' rd|e']; [intros E; injection E as <- _; tauto| |];
      intros E; rewrite (IH _ _ _ k0 E); cbn [ents];
      (destruct (N.eq_dec k0 (e_key e')) as [->|Hne];
       [rewrite find_put_same, VK, Ek, F; split; discriminate|rewrite find_put_other by auto; tauto]).
Qed.

(* a key the loop reports or pushes to `ready` is in the map *)
Lemma visit_err ord : forall h h' k, visit h ord = (h', Some k) -> find k (ents h') <> None.
Proof.
  induction ord as [|k0 t IH]; intros h h' k; cbn [visit]; [discriminate|].
  destruct (find k0 (ents h)) as [e|] eqn:F; [|apply IH].
  destruct (visit1 e) as [|e' rd|e']; [intros E; injection E as <- <-; congruence|apply IH|apply IH].
Qed.

Definition ready_held (h : hs) : Prop := forall k rd, In (k, rd) (ready h) -> find k (ents h) <> None.

Lemma visit_ready ord : forall h h' r, visit h ord = (h', r) -> ready_held h -> ready_held h'.
Proof.
  induction ord as [|k t IH]; intros h h' r; cbn [visit].
  - intros E; injection E as <- _. auto.
  - destruct (find k (ents h)) as [e|] eqn:F; [|apply IH].
    pose proof (visit1_key e) as VK. destruct (find_some _ _ _ F) as [_ Ek].
    destruct (visit1 e) as [|e' rd|e']; [intros E; injection E as <- _; auto| |]; intros E RH; eapply IH; eauto;
      intros k1 rd1; cbn [ents ready]; intros H.
    + apply in_app_or in H. destruct H as [H|[H|[]]].
      * destruct (N.eq_dec k1 (e_key e')) as [->|Hne]; [rewrite find_put_same; discriminate|rewrite find_put_other by auto; eapply RH; eauto].
      * injection H as <- <-. rewrite <- Ek, <- VK, find_put_same. discriminate.
    + destruct (N.eq_dec k1 (e_key e')) as [->|Hne]; [rewrite find_put_same; discriminate|rewrite find_put_other by auto; eapply RH; eauto].
Qed.

Lemma pop_some l r k rd r' : pop l r = (Some (k, rd), r') -> find k l <> None.
Proof.
  induction r as [|[k0 rd0] t IH]; cbn [pop]; [discriminate|].
  destruct (find k0 l) eqn:F; [intros E; injection E as <- <- _; congruence|apply IH].
Qed.

(* ---- one poll ---- *)
Lemma poll_held h ord h' k :
  (exists rd, poll h ord = (h', PNeg k rd)) \/ poll h ord = (h', PErr k) -> has k h = true.
Proof.
  unfold poll, has. destruct (pop (ents h) (ready h)) as [[[k0 rd0]|] r] eqn:P.
  - intros [(rd & E)|E]; [|discriminate E]. injection E as _ <- _. apply pop_some in P.
    destruct (find k0 (ents h)); [reflexivity|contradiction].
  - destruct (ents h) as [|a l] eqn:EN; [intros [(rd & E)|E]; discriminate E|]. rewrite <- EN in *.
    destruct (visit (mkHs (ents h) r) ord) as [h1 [k1|]] eqn:V.
    + intros [(rd & E)|E]; [discriminate E|]. injection E as _ <-.
      pose proof (visit_err _ _ _ _ V) as X. pose proof (visit_has _ _ _ _ k1 V) as Y. cbn [ents] in Y.
      destruct (find k1 (ents h)); [reflexivity|]. exfalso. apply X. apply Y. reflexivity.
    + destruct (ready h1) as [|[k1 rd1] t] eqn:R; [intros [(rd & E)|E]; discriminate E|].
      intros [(rd & E)|E]; [|discriminate E]. injection E as _ <- _.
      assert (RH : ready_held (mkHs (ents h) r)).
      { intros k2 rd2 H. cbn in H. (* after pop returned None the queue is empty *)
        clear -P H. exfalso. revert P H. generalize (ready h). intros q. revert r.
        induction q as [|[k3 rd3] t IH]; cbn [pop]; intros r P H.
        - injection P as <-. destruct H.
        - destruct (find k3 (ents h)); [discriminate P|]. eapply IH; eauto. }
      pose proof (visit_ready _ _ _ _ V RH k1 rd1) as X. rewrite R in X. specialize (X (or_introl eq_refl)).
      pose proof (visit_has _ _ _ _ k1 V) as Y. cbn [ents] in Y.
      destruct (find k1 (ents h)); [reflexivity|]. exfalso. apply X. apply Y. reflexivity.
Qed.

Lemma poll_neg_removes h ord h' k rd : poll h ord = (h', PNeg k rd) -> has k h' = false.
Proof.
  unfold poll, has. destruct (pop (ents h) (ready h)) as [[[k0 rd0]|] r] eqn:P.
  - intros E; injection E as <- <- _. cbn [ents]. now rewrite find_del_same.
  - destruct (ents h) as [|a l] eqn:EN; [discriminate|]. rewrite <- EN in *.
    destruct (visit (mkHs (ents h) r) ord) as [h1 [k1|]] eqn:V; [discriminate|].
    destruct (ready h1) as [|[k1 rd1] t]; [discriminate|].
    intros E; injection E as <- <- _. cbn [ents]. now rewrite find_del_same.
Qed.

Lemma poll_err_keeps h ord h' k : poll h ord = (h', PErr k) -> has k h' = true.
Proof.
  unfold poll, has. destruct (pop (ents h) (ready h)) as [[[k0 rd0]|] r] eqn:P; [discriminate|].
  destruct (ents h) as [|a l] eqn:EN; [discriminate|]. rewrite <- EN in *.
  destruct (visit (mkHs (ents h) r) ord) as [h1 [k1|]] eqn:V.
  - intros E; injection E as <- <-. pose proof (visit_err _ _ _ _ V) as X. destruct (find k1 (ents h1)); [reflexivity|contradiction].
  - destruct (ready h1) as [|[k1 rd1] t]; discriminate.
Qed.

(* the timer: a substream whose negotiation timer fired is reported as failed when the loop reaches it *)
Lemma visit1_timed e : e_timed e = true -> visit1 e = VErr.
Proof. unfold visit1. intros ->. reflexivity. Qed.

Lemma step_uniq h o : uniq (ents h) -> uniq (ents (fst (hstep h o))).
Proof.
  intros U. unfold hstep. destruct o as [c|k x|ord]; cbn [hstep_gen fst].
  - destruct c; cbn; first [apply uniq_put; auto | apply uniq_del; auto].
  - cbn [env ents]. unfold uniq in *. rewrite map_map.
    assert (E : map (fun x0 => e_key (if e_key x0 =? k then mkE k (e_stage x0) (env_io x (e_io x0)) match x with ETimeout => true | _ => e_timed x0 end else x0)) (ents h) = map e_key (ents h)).
    { apply map_ext_in. intros a _. destruct (e_key a =? k) eqn:E; auto. cbn. now apply N.eqb_eq in E. }
    now rewrite E.
  - unfold poll. destruct (pop (ents h) (ready h)) as [[[k0 rd0]|] r]; cbn [fst ents].
    + apply uniq_del; auto.
    + destruct (ents h) as [|a l] eqn:EN; [cbn; constructor|]. rewrite <- EN in *.
      destruct (visit (mkHs (ents h) r) ord) as [h1 [k1|]] eqn:V; cbn [fst].
      * eapply visit_uniq; eauto.
      * destruct (ready h1) as [|[k1 rd1] t]; cbn [fst ents]; [|apply uniq_del]; eapply visit_uniq; eauto.
Qed.

(* a substream that was removed is silent as long as `ready` does not mention its key *)
Lemma poll_silent h ord h' k :
  has k h = false -> (forall rd, ~ In (k, rd) (ready h)) ->
  (forall rd, poll h ord <> (h', PNeg k rd)) /\ poll h ord <> (h', PErr k).
Proof.
  intros H _. split; [intros rd E|intros E]; assert (X : has k h = true) by (eapply poll_held; eauto); congruence.
Qed.

(* ---- the stale `ready` entry ---- *)
Definition w_stale : list hop :=
  [HCall (ReadIn 0); HCall (NegOut 0); HEnv 0 EFrame; HEnv 1 EWerr;
   HPoll [0; 1];                 (* inbound first: its handshake is read and queued; the outbound fails: error *)
   HCall (RemOut 0); HCall (RemIn 0);   (* the handler drops both substreams; the map is empty *)
   HCall (ReadIn 0);             (* a new inbound substream of the peer; nothing can be read from it yet *)
   HPoll [0]].

(* the original code: `ready` still holds the result of the removed substream; the new one is reported negotiated *)
Lemma stale_ready_run :
  map snd (hrun0 hs0 w_stale) =
  [PPending; PPending; PPending; PPending; PErr 1; PPending; PPending; PPending; PNeg 0 true].
Proof. vm_compute. reflexivity. Qed.

(* the repaired code: the queued result went away with its substream; the new one waits for its handshake *)
Lemma stale_ready_repaired_run :
  map snd (hrun hs0 w_stale) =
  [PPending; PPending; PPending; PPending; PErr 1; PPending; PPending; PPending; PPending].
Proof. vm_compute. reflexivity. Qed.

Lemma forget_not_in (k : key) (rd : bool) (r : list (key * bool)) : ~ In (k, rd) (forget k r).
Proof. unfold forget. rewrite filter_In. cbn. rewrite N.eqb_refl. intros [_ H]. discriminate. Qed.

(* every call of the owner forgets what was queued for the key it touches *)
Lemma call_forgets (h : hs) (c : hcall) :
  let k := match c with NegOut p | RemOut p => mkkey p true | ReadIn p | SendIn p | RemIn p => mkkey p false end in
  forall rd, ~ In (k, rd) (ready (call h c)).
Proof. destruct c; cbn; intros rd; apply forget_not_in. Qed.

(* a removed substream is silent: the service reports nothing under its key until a substream is registered again *)
Lemma removed_is_silent (h : hs) (p : peer) (out : bool) (ord : list key) (h' : hs) :
  let h1 := call h (if out then RemOut p else RemIn p) in
  (forall rd, poll h1 ord <> (h', PNeg (mkkey p out) rd)) /\ poll h1 ord <> (h', PErr (mkkey p out)).
Proof.
  cbv zeta. apply poll_silent.
  - unfold has. destruct out; cbn; now rewrite find_del_same.
  - intros rd. destruct out; apply forget_not_in.
Qed.
