(* C11 — the handle's gate and the stream identifier of received notifications.
   handle.rs hands a received notification to the user only if the sink it holds for the peer belongs to
   the stream the notification arrived on (`sink.stream_id() == stream_id`). With a user who drains the
   handle after every event (Model.step) that test coincides with the model's `hopen`: whenever the gate
   of a peer is open the stored sink is the one of the newest Connection task of the peer (GSInv, for
   every reachable state). With a late-polling user (Model.lstep) the test is modelled as it is written
   (sink_is) and a notification is handed out only in the stream period it arrived in. *)
From Coq Require Import List NArith Bool Lia.
From V.C11 Require Import Model PBase PAlt.
Import ListNotations.
Open Scope N_scope.

Definition GSInv (s : st) : Prop :=
  forall p, hopen s p = true -> hsink s p = lastt s p /\ lastt s p <> None.

Definition no_opened (ev : list uev) : Prop := forall q d, ~ In (UOpened q d) ev.

(* the main handler leaves `lastt` alone unless it starts a Connection task, and then it reports exactly
   NotificationStreamOpened for that peer *)
Definition lastt_shape (s s1 : st) (ev : list uev) : Prop :=
  (lastt s1 = lastt s /\ no_opened ev) \/
  (exists p d, ev = [UOpened p d] /\ lastt s1 = upd (lastt s) p (Some (ntask s))).

Lemma no_opened_nil : no_opened [].
Proof. intros q d []. Qed.

Lemma on_shutdown_lastt s p : lastt (on_shutdown s p) = lastt s.
Proof.
  unfold on_shutdown. destruct (ps s p) as [[]|]; auto. destruct (task_closed s k); auto.
Qed.

Ltac no_opened_tac :=
  let q := fresh "q" in let d := fresh "d" in let H := fresh "H" in
  intros q d H; cbn in H;
  repeat match goal with
         | H0 : ?ev = [] \/ (exists t, _ /\ ?ev = [UClosedT _ _]) |- _ => destruct H0 as [->|(? & ? & ->)]
         end;
  cbn in H; repeat (destruct H as [H|H]; try discriminate H); try contradiction;
  try (eapply shut_ev_ev; eassumption).

Ltac lshape_close :=
  first [ left; split; [reflexivity | no_opened_tac]
        | right; do 2 eexists; split; reflexivity ].

Lemma finish_tasks_no_opened p l : forall l' ev n, finish_tasks p l = (l', ev, n) -> no_opened ev.
Proof.
  induction l as [|a l IH]; cbn; intros l' ev n.
  - intros H; injection H as _ <- _. apply no_opened_nil.
  - destruct (finish_tasks p l) as [[r' e'] n'] eqn:E. specialize (IH _ _ _ eq_refl).
    destruct ((t_peer a =? p) && negb (t_gated a)); [destruct (t_closing a)|];
      intros H; injection H as _ <- _; auto.
    intros q d [X|X]; [discriminate X|]. eapply IH; eauto.
Qed.

Lemma main_lastt c s o s1 ev cl : main_handler c s o = Some (s1, ev, cl) -> lastt_shape s s1 ev.
Proof.
  intros M. unfold lastt_shape. destruct o; unfold_handlers M.
  all: try (split_all; lshape_close; fail).
  - split_all; try (lshape_close; fail). left. rewrite on_shutdown_lastt. split; [reflexivity|no_opened_tac].
  - match type of M with context [finish_tasks ?a ?b] => destruct (finish_tasks a b) as [[l' e'] n'] eqn:F end.
    split_all. left. split.
    + unfold run_shutdowns. match goal with |- context [if ?b then _ else _] => destruct b end; auto.
      now rewrite on_shutdown_lastt.
    + intros q d H. apply in_app_or in H. destruct H as [H|H]; [eapply finish_tasks_no_opened; eauto|].
      destruct (n' =? 0); [destruct H|eapply shut_ev_ev; eauto].
  - split_all; try (lshape_close; fail). left. rewrite on_shutdown_lastt. split; [reflexivity|no_opened_tac].
Qed.

(* draining events that contain no NotificationStreamOpened keeps the gate invariant *)
Lemma drain_GS_closed ev : no_opened ev -> forall s s' dr ks, GSInv s -> drain s ev = (s', dr, ks) -> GSInv s'.
Proof.
  induction ev as [|e t IH]; intros NO s s' dr ks G; cbn.
  - intros H; injection H as <- _ _. exact G.
  - assert (NO' : no_opened t) by (intros q d H; eapply NO; right; exact H).
    destruct e; cbn [closed_report].
    + destruct (hval s p).
      * destruct (drain s t) as [[a b] c0] eqn:E. intros H; injection H as <- _ _. eapply IH; eauto.
      * intros H. eapply (IH NO' _ _ _ _ _ H). Unshelve. intros q Hq. apply (G q Hq).
    + exfalso. eapply NO. left. reflexivity.
    + destruct (current s p None); [|intros H; eapply IH; eauto].
      destruct (drain (set_hsink (set_hopen s p false) p None) t) as [[a b] c0] eqn:E.
      intros H; injection H as <- _ _. eapply (IH NO' _ _ _ _ _ E). Unshelve.
      intros q Hq. setters. unfold upd in *. destruct (q =? p); [discriminate Hq|]. apply (G q Hq).
    + intros H. eapply IH; eauto.
    + intros H. eapply IH; eauto.
    + destruct (current s p (Some k)); [|intros H; eapply IH; eauto].
      destruct (drain (set_hsink (set_hopen s p false) p None) t) as [[a b] c0] eqn:E.
      intros H; injection H as <- _ _. eapply (IH NO' _ _ _ _ _ E). Unshelve.
      intros q Hq. setters. unfold upd in *. destruct (q =? p); [discriminate Hq|]. apply (G q Hq).
Qed.

Lemma task_dies_gate s k s' ev :
  task_dies s k = (s', ev) -> hopen s' = hopen s /\ hsink s' = hsink s /\ lastt s' = lastt s /\ no_opened ev.
Proof.
  unfold task_dies. destruct (find_task k (tasks s)) as [t|]; [|intros E; injection E as <- <-; repeat split; apply no_opened_nil].
  destruct (t_closing t); [intros E; injection E as <- <-; repeat split; apply no_opened_nil|].
  destruct (t_gated t); intros E; injection E as <- <-.
  - repeat split. apply no_opened_nil.
  - rewrite on_shutdown_hopen, on_shutdown_hsink, on_shutdown_lastt. repeat split.
    intros q d [X|X]; [discriminate X|]. eapply shut_ev_ev; eauto.
Qed.

Lemma kill_tasks_gate ks : forall s s' ev,
  kill_tasks s ks = (s', ev) -> hopen s' = hopen s /\ hsink s' = hsink s /\ lastt s' = lastt s /\ no_opened ev.
Proof.
  induction ks as [|k t IH]; intros s s' ev; cbn.
  - intros E; injection E as <- <-. repeat split. apply no_opened_nil.
  - destruct (task_dies s k) as [s1 e1] eqn:E1. destruct (kill_tasks s1 t) as [s2 e2] eqn:E2.
    intros E; injection E as <- <-.
    destruct (task_dies_gate _ _ _ _ E1) as (A1 & A2 & A3 & A4).
    destruct (IH _ _ _ E2) as (C1 & C2 & C3 & C4).
    repeat split; try congruence.
    intros q d H. apply in_app_or in H. destruct H as [H|H]; [eapply A4|eapply C4]; eauto.
Qed.

Lemma GS_frame s s' : hopen s' = hopen s -> hsink s' = hsink s -> lastt s' = lastt s -> GSInv s -> GSInv s'.
Proof. intros A B C G p. rewrite A, B, C. apply G. Qed.

Lemma step_GS c s o s' ev cl : GSInv s -> step c s o = Some (s', ev, cl) -> GSInv s'.
Proof.
  intros G. unfold step.
  destruct (main_handler c s o) as [[[s1 ev1] cl1]|] eqn:M; [|discriminate].
  pose proof (hsink_main _ _ _ _ _ _ M) as HS. pose proof (hopen_main _ _ _ _ _ _ M) as HO.
  pose proof (main_lastt _ _ _ _ _ _ M) as LS.
  destruct (drain s1 ev1) as [[s2 dr] ks] eqn:D.
  destruct (kill_tasks s2 ks) as [s4 ev4] eqn:K.
  destruct (drain s4 ev4) as [[s5 x] y] eqn:D5.
  intros E; injection E as <- _ _.
  destruct (kill_tasks_gate _ _ _ _ K) as (K1 & K2 & K3 & K4).
  assert (G2 : GSInv s2).
  { destruct LS as [[L NO]|(p & d & -> & L)].
    - eapply (drain_GS_closed ev1 NO _ _ _ _ _ D). Unshelve. eapply GS_frame; eauto.
    - cbn in D. injection D as <- _ _. intros q Hq. setters. rewrite L, HS in *. rewrite HO in Hq.
      unfold upd in *. rewrite ?N.eqb_refl. destruct (q =? p) eqn:E.
      + split; [reflexivity|discriminate].
      + apply (G q Hq). }
  eapply (drain_GS_closed ev4 K4 _ _ _ _ _ D5). Unshelve. eapply GS_frame; eauto.
Qed.

Lemma GS_init : GSInv init.
Proof. intros p H. discriminate H. Qed.

(* ---- the late-polling user: a notification is handed out only in its own stream period ---- *)
Lemma next_notif_some s l p t :
  next_notif s l = (Some p, t) ->
  exists k, In (p, k) l /\ hopen s p = true /\ hsink s p = Some k.
Proof.
  induction l as [|[q k] l IH]; cbn [next_notif]; [discriminate|].
  unfold sink_is at 1. cbn [fst snd].
  destruct (hopen s q) eqn:HO; cbn [andb].
  - destruct (hsink s q) as [k'|] eqn:HS.
    + destruct (k' =? k) eqn:E.
      * intros H; injection H as <- _. apply N.eqb_eq in E. subst k'. exists k. repeat split; auto. now left.
      * intros H. destruct (IH H) as (k0 & I0 & R). exists k0. split; [now right|exact R].
    + intros H. destruct (IH H) as (k0 & I0 & R). exists k0. split; [now right|exact R].
  - intros H. destruct (IH H) as (k0 & I0 & R). exists k0. split; [now right|exact R].
Qed.

(* the event queue holds lifecycle events only: NotificationReceived travels through the other channel *)
Definition not_notif (e : uev) : Prop := match e with UNotif _ => False | _ => True end.

Lemma shut_ev_nn s p : Forall not_notif (shut_ev s p).
Proof.
  unfold shut_ev. destruct (ps s p) as [[]|]; try constructor. destruct (task_closed s k); repeat constructor.
Qed.

Ltac nn_tac :=
  repeat match goal with
         | H0 : ?ev = [] \/ (exists t, _ /\ ?ev = [UClosedT _ _]) |- _ => destruct H0 as [->|(? & ? & ->)]
         end;
  repeat first [apply shut_ev_nn | constructor].

Lemma finish_tasks_nn p l : forall l' ev n, finish_tasks p l = (l', ev, n) -> Forall not_notif ev.
Proof.
  induction l as [|a l IH]; cbn; intros l' ev n.
  - intros H; injection H as _ <- _. constructor.
  - destruct (finish_tasks p l) as [[r' e'] n'] eqn:E. specialize (IH _ _ _ eq_refl).
    destruct ((t_peer a =? p) && negb (t_gated a)); [destruct (t_closing a)|];
      intros H; injection H as _ <- _; auto.
    constructor; [exact I|auto].
Qed.

Lemma main_nn c s o s1 ev cl : main_handler c s o = Some (s1, ev, cl) -> Forall not_notif ev.
Proof.
  intros M. destruct o; unfold_handlers M.
  all: try (split_all; nn_tac; fail).
  match type of M with context [finish_tasks ?a ?b] => destruct (finish_tasks a b) as [[l' e'] n'] eqn:F end.
  split_all. apply Forall_app. split; [eapply finish_tasks_nn; eauto|].
  destruct (n' =? 0); [constructor|apply shut_ev_nn].
Qed.

Lemma task_dies_nn s k s' ev : task_dies s k = (s', ev) -> Forall not_notif ev.
Proof.
  unfold task_dies. destruct (find_task k (tasks s)) as [t|]; [|intros E; injection E as _ <-; constructor].
  destruct (t_closing t); [intros E; injection E as _ <-; constructor|].
  destruct (t_gated t); intros E; injection E as _ <-; repeat first [apply shut_ev_nn | constructor].
Qed.

Lemma kill_tasks_nn ks : forall s s' ev, kill_tasks s ks = (s', ev) -> Forall not_notif ev.
Proof.
  induction ks as [|k t IH]; intros s s' ev; cbn.
  - intros E; injection E as _ <-. constructor.
  - destruct (task_dies s k) as [s1 e1] eqn:E1. destruct (kill_tasks s1 t) as [s2 e2] eqn:E2.
    intros E; injection E as _ <-. apply Forall_app. split; [eapply task_dies_nn|eapply IH]; eauto.
Qed.

Lemma lstep_nn c cap l g l' ev cl :
  Forall not_notif (lq l) -> lstep c cap l g = Some (l', ev, cl) -> Forall not_notif (lq l').
Proof.
  intros Q. destruct g as [o|]; cbn [lstep].
  - destruct (lskip cap l o); [intros H; injection H as <- _ _; exact Q|].
    destruct (main_handler c (ls l) o) as [[[s1 ev1] cl1]|] eqn:M; [|discriminate].
    pose proof (main_nn _ _ _ _ _ _ M) as NN.
    match goal with |- context [if ?b then _ else _] => destruct b end;
      intros H; injection H as <- _ _; cbn [lq]; apply Forall_app; auto.
  - destruct (poll_events cap (ls l) (lq l)) as [[dd h] rest] eqn:E.
    assert (QS : Forall not_notif (match h with Some e => e :: rest | None => rest end)).
    { clear -Q E. revert dd h rest E. generalize (lq l) Q. induction cap as [|n IH]; intros q Qq dd h rest; cbn [poll_events].
      - intros X; injection X as <- <- <-. exact Qq.
      - destruct q as [|e t]; [intros X; injection X as <- <- <-; exact Qq|]. inversion Qq; subst.
        destruct (stale (ls l) e).
        + destruct (poll_events n (ls l) t) as [[d0 h0] r0] eqn:P. intros X; injection X as <- <- <-. eapply IH; eauto.
        + intros X; injection X as <- <- <-. constructor; auto. }
    destruct h as [e|].
    2: { destruct (next_notif (ls l) (lnf l)) as [[q|] t]; intros H; injection H as <- _ _; cbn [lq]; exact QS. }
    + destruct (drain (ls l) [e]) as [[s1 dr] killed].
      destruct (match e, lsk l with UOpened p _, k :: kt => (set_hsink s1 p (Some k), kt) | _, ks => (s1, ks) end) as [s1' ks].
      destruct (kill_tasks s1' killed) as [s2 ev4] eqn:K. pose proof (kill_tasks_nn _ _ _ _ K) as NN.
      inversion QS as [|a b Qa Qb]; subst.
      match goal with |- context [if ?b then _ else _] => destruct b end;
        intros H; injection H as <- _ _; cbn [lq]; apply Forall_app; auto.
Qed.

Lemma lrun_nn c cap gs : forall l, Forall not_notif (lq l) ->
  forall x, In x (fst (lrun c cap l gs)) -> Forall not_notif (lq (fst (fst x))).
Proof.
  induction gs as [|g t IH]; intros l Q x; cbn [lrun]; [intros []|].
  destruct (lstep c cap l g) as [[[l1 ev] cl]|] eqn:S; [|intros []].
  pose proof (lstep_nn _ _ _ _ _ _ _ Q S) as Q1.
  destruct (lrun c cap l1 t) as [r b] eqn:R. cbn [fst]. intros [<-|H]; [exact Q1|].
  apply (IH l1 Q1 x). rewrite R. exact H.
Qed.

(* one `handle.next()`: a NotificationReceived is handed out only when no lifecycle event is queued, for a
   peer whose gate is open, and only if the sink the handle holds belongs to the stream (Connection task)
   that forwarded the notification *)
Lemma lpoll_notif c cap l l' ev cl p :
  Forall not_notif (lq l) -> lstep c cap l LPoll = Some (l', ev, cl) -> In (UNotif p) ev ->
  snd (fst (poll_events cap (ls l) (lq l))) = None /\ exists k, In (p, k) (lnf l) /\ hopen (ls l) p = true /\ hsink (ls l) p = Some k.
Proof.
  intros Q. cbn [lstep].
  destruct (poll_events cap (ls l) (lq l)) as [[dd h] rest] eqn:E.
  assert (QS : Forall not_notif (match h with Some e => e :: rest | None => rest end)).
  { clear -Q E. revert dd h rest E. generalize (lq l) Q. induction cap as [|n IH]; intros q Qq dd h rest; cbn [poll_events].
    - intros X; injection X as <- <- <-. exact Qq.
    - destruct q as [|e t]; [intros X; injection X as <- <- <-; exact Qq|]. inversion Qq; subst.
      destruct (stale (ls l) e).
      + destruct (poll_events n (ls l) t) as [[d0 h0] r0] eqn:P. intros X; injection X as <- <- <-. eapply IH; eauto.
      + intros X; injection X as <- <- <-. constructor; auto. }
  destruct h as [e|]; cbn [fst snd].
  2: { destruct (next_notif (ls l) (lnf l)) as [[q|] t] eqn:NN; intros H; injection H as _ <- _; [|intros []].
       intros [X|[]]. injection X as ->. split; auto. eapply next_notif_some; eauto. }
  - destruct (drain (ls l) [e]) as [[s1 dr] killed].
    destruct (match e, lsk l with UOpened p0 _, k :: kt => (set_hsink s1 p0 (Some k), kt) | _, ks => (s1, ks) end) as [s1' ks].
    destruct (kill_tasks s1' killed) as [s2 ev4] eqn:K.
    inversion QS as [|a b Qa Qb]; subst.
    assert (ND : ~ In (UNotif p) (delivered (ls l) [e])).
    { destruct e; cbn [delivered closed_report]; try contradiction Qa;
        repeat match goal with |- context [if ?b then _ else _] => destruct b end;
        intros Y; cbn in Y; repeat (destruct Y as [Y|Y]; try discriminate Y); try contradiction. }
    match goal with |- context [if ?b then _ else _] => destruct b end;
      intros H; injection H as _ <- _; intros Y; contradiction (ND Y).
Qed.
