(* C11 — the event grammar for the late-polling user (bounded user event channel, Model.lstep), for every
   capacity and every schedule of protocol events and polls.
   The handle lags behind the protocol: `vrun` is what it will make of the events that are still queued
   (in the channel or with waiting producers). Invariant LI: after that virtual processing the handle's gate
   is open exactly for the peers whose PeerState is Open, with the sink of that stream; the queued events
   are grammatical from the user's present view; and no queued Closed report that the handle will not ignore
   removes the sink of a running Connection task. *)
From Coq Require Import List NArith Bool Lia.
From V.C11 Require Import Model PBase PAlt PHInv PInv PIso PLazy PGate.
Import ListNotations.
Open Scope N_scope.

(* `current` on a handle state given by its two maps *)
Definition hcur (ho : peer -> bool) (hk : peer -> option N) (p : peer) (k : option N) : bool :=
  ho p &&
  match k with
  | Some k => match hk p with Some k' => k' =? k | None => false end
  | None => true
  end.

Lemma hcur_current s p k : hcur (hopen s) (hsink s) p k = current s p k.
Proof. reflexivity. Qed.

(* the handle processes the queued events q; the sinks of the queued Opened events are sk *)
Fixpoint vrun (ho : peer -> bool) (hk : peer -> option N) (q : list uev) (sk : list N)
  : (peer -> bool) * (peer -> option N) * list uev :=
  match q with
  | [] => (ho, hk, [])
  | e :: t =>
      match e with
      | UOpened p _ =>
          let '(a, b, dl) := vrun (upd ho p true) (upd hk p (hd_error sk)) t (tl sk) in (a, b, e :: dl)
      | UClosed p | UClosedT p _ =>
          if match closed_report e with Some (_, k) => hcur ho hk p k | None => false end
          then let '(a, b, dl) := vrun (upd ho p false) (upd hk p None) t sk in (a, b, UClosed p :: dl)
          else vrun ho hk t sk
      | _ => let '(a, b, dl) := vrun ho hk t sk in (a, b, e :: dl)
      end
  end.

Definition n_opened (q : list uev) : nat :=
  length (filter (fun e => match e with UOpened _ _ => true | _ => false end) q).

Lemma vrun_app q1 : forall sk1 q2 sk2 ho hk,
  length sk1 = n_opened q1 ->
  vrun ho hk (q1 ++ q2) (sk1 ++ sk2) =
  let '(a, b, d1) := vrun ho hk q1 sk1 in let '(a2, b2, d2) := vrun a b q2 sk2 in (a2, b2, d1 ++ d2).
Proof.
  induction q1 as [|e t IH]; intros sk1 q2 sk2 ho hk L; cbn [app vrun].
  - destruct sk1; [|discriminate L]. cbn. destruct (vrun ho hk q2 sk2) as [[a b] d]. reflexivity.
  - destruct e; cbn [closed_report].
    + cbn in L. rewrite (IH sk1 q2 sk2 ho hk L). destruct (vrun ho hk t sk1) as [[a b] d1].
      destruct (vrun a b q2 sk2) as [[a2 b2] d2]. reflexivity.
    + destruct sk1 as [|k kt]; [discriminate L|]. cbn in L. injection L as L. cbn [app hd_error tl].
      rewrite (IH kt q2 sk2 _ _ L). destruct (vrun _ _ t kt) as [[a b] d1].
      destruct (vrun a b q2 sk2) as [[a2 b2] d2]. reflexivity.
    + cbn in L. destruct (hcur ho hk p None).
      * rewrite (IH sk1 q2 sk2 _ _ L). destruct (vrun _ _ t sk1) as [[a b] d1].
        destruct (vrun a b q2 sk2) as [[a2 b2] d2]. reflexivity.
      * apply IH; auto.
    + cbn in L. rewrite (IH sk1 q2 sk2 ho hk L). destruct (vrun ho hk t sk1) as [[a b] d1].
      destruct (vrun a b q2 sk2) as [[a2 b2] d2]. reflexivity.
    + cbn in L. rewrite (IH sk1 q2 sk2 ho hk L). destruct (vrun ho hk t sk1) as [[a b] d1].
      destruct (vrun a b q2 sk2) as [[a2 b2] d2]. reflexivity.
    + cbn in L. destruct (hcur ho hk p (Some k)).
      * rewrite (IH sk1 q2 sk2 _ _ L). destruct (vrun _ _ t sk1) as [[a b] d1].
        destruct (vrun a b q2 sk2) as [[a2 b2] d2]. reflexivity.
      * apply IH; auto.
Qed.

(* no queued Closed report that the handle will not ignore takes away the sink of a running task *)
Fixpoint NK (s : st) (ho : peer -> bool) (hk : peer -> option N) (q : list uev) (sk : list N) : Prop :=
  match q with
  | [] => True
  | e :: t =>
      match e with
      | UOpened p _ => NK s (upd ho p true) (upd hk p (hd_error sk)) t (tl sk)
      | UClosed p | UClosedT p _ =>
          if match closed_report e with Some (_, k) => hcur ho hk p k | None => false end
          then (forall k0, hk p = Some k0 -> running s k0 = false) /\ NK s (upd ho p false) (upd hk p None) t sk
          else NK s ho hk t sk
      | _ => NK s ho hk t sk
      end
  end.

Lemma NK_app s q1 : forall sk1 q2 sk2 ho hk,
  length sk1 = n_opened q1 ->
  NK s ho hk (q1 ++ q2) (sk1 ++ sk2) <->
  NK s ho hk q1 sk1 /\ let '(a, b, _) := vrun ho hk q1 sk1 in NK s a b q2 sk2.
Proof.
  induction q1 as [|e t IH]; intros sk1 q2 sk2 ho hk L; cbn [app vrun NK].
  - destruct sk1; [|discriminate L]. cbn. tauto.
  - destruct e; cbn [closed_report].
    + cbn in L. rewrite (IH sk1 q2 sk2 ho hk L). destruct (vrun ho hk t sk1) as [[a b] d1]. tauto.
    + destruct sk1 as [|k kt]; [discriminate L|]. cbn in L. injection L as L. cbn [app hd_error tl].
      rewrite (IH kt q2 sk2 _ _ L). destruct (vrun _ _ t kt) as [[a b] d1]. tauto.
    + cbn in L. destruct (hcur ho hk p None).
      * rewrite (IH sk1 q2 sk2 _ _ L). destruct (vrun _ _ t sk1) as [[a b] d1]. tauto.
      * apply IH; auto.
    + cbn in L. rewrite (IH sk1 q2 sk2 ho hk L). destruct (vrun ho hk t sk1) as [[a b] d1]. tauto.
    + cbn in L. rewrite (IH sk1 q2 sk2 ho hk L). destruct (vrun ho hk t sk1) as [[a b] d1]. tauto.
    + cbn in L. destruct (hcur ho hk p (Some k)).
      * rewrite (IH sk1 q2 sk2 _ _ L). destruct (vrun _ _ t sk1) as [[a b] d1]. tauto.
      * apply IH; auto.
Qed.

(* NK only depends on which tasks are running *)
Lemma NK_mono s s' q : forall ho hk sk,
  (forall p k, hk p = Some k -> k < ntask s) -> Forall (fun k => k < ntask s) sk ->
  (forall k, k < ntask s -> running s' k = true -> running s k = true) ->
  NK s ho hk q sk -> NK s' ho hk q sk.
Proof.
  induction q as [|e t IH]; intros ho hk sk B1 B2 M; cbn [NK]; auto.
  destruct e; cbn [closed_report].
  - apply IH; auto.
  - apply IH; auto.
    + intros q0 k0. unfold upd. destruct (q0 =? p); [|apply B1]. destruct sk as [|k kt]; cbn; [discriminate|].
      intros X; injection X as <-. inversion B2; auto.
    + destruct sk; cbn; auto. inversion B2; auto.
  - destruct (hcur ho hk p None); [|apply IH; auto]. intros [A B]. split.
    + intros k0 Hk. specialize (A k0 Hk). destruct (running s' k0) eqn:R; auto.
      rewrite (M k0 (B1 p k0 Hk) R) in A. discriminate A.
    + apply IH; auto. intros q0 k0. unfold upd. destruct (q0 =? p); [discriminate|apply B1].
  - apply IH; auto.
  - apply IH; auto.
  - destruct (hcur ho hk p (Some k)); [|apply IH; auto]. intros [A B]. split.
    + intros k0 Hk. specialize (A k0 Hk). destruct (running s' k0) eqn:R; auto.
      rewrite (M k0 (B1 p k0 Hk) R) in A. discriminate A.
    + apply IH; auto. intros q0 k0. unfold upd. destruct (q0 =? p); [discriminate|apply B1].
Qed.

(* ---- the maps only matter pointwise ---- *)
Lemma grammar_ext l : forall h h', (forall p, h p = h' p) ->
  match grammar h l, grammar h' l with
  | Some g, Some g' => forall p, g p = g' p
  | None, None => True
  | _, _ => False
  end.
Proof.
  induction l as [|e t IH]; intros h h' E; cbn [grammar]; auto.
  destruct e; try rewrite <- (E p).
  - apply IH; auto.
  - destruct (h p); auto. apply IH. intros q. unfold upd. destruct (q =? p); auto.
  - destruct (h p); auto. apply IH. intros q. unfold upd. destruct (q =? p); auto.
  - destruct (h p); auto. apply IH; auto.
  - destruct (h p); auto. apply IH; auto.
  - exact I.
Qed.

Lemma grammar_ext_some l h h' g' : (forall p, h p = h' p) -> grammar h' l = Some g' ->
  exists g, grammar h l = Some g /\ forall p, g p = g' p.
Proof.
  intros E G. pose proof (grammar_ext l h h' E) as X. rewrite G in X.
  destruct (grammar h l) as [g|]; [|contradiction]. eauto.
Qed.

Lemma vrun_ext q : forall sk ho ho' hk hk', (forall p, ho p = ho' p) -> (forall p, hk p = hk' p) ->
  let '(a, b, d) := vrun ho hk q sk in let '(a', b', d') := vrun ho' hk' q sk in
  d = d' /\ (forall p, a p = a' p) /\ (forall p, b p = b' p).
Proof.
  induction q as [|e t IH]; intros sk ho ho' hk hk' E1 E2; cbn [vrun]; auto.
  assert (U1 : forall p v q0, upd ho p v q0 = upd ho' p v q0) by (intros; unfold upd; destruct (_ =? _); auto).
  assert (U2 : forall p v q0, upd hk p v q0 = upd hk' p v q0) by (intros; unfold upd; destruct (_ =? _); auto).
  assert (HC : forall p k, hcur ho hk p k = hcur ho' hk' p k) by (intros; unfold hcur; rewrite E1, E2; reflexivity).
  destruct e; cbn [closed_report]; rewrite ?HC.
  - specialize (IH sk ho ho' hk hk' E1 E2). destruct (vrun ho hk t sk) as [[a b] d0], (vrun ho' hk' t sk) as [[a' b'] d0'].
    destruct IH as (-> & A & B). auto.
  - specialize (IH (tl sk) _ _ _ _ (U1 p true) (U2 p (hd_error sk))).
    destruct (vrun (upd ho p true) _ t (tl sk)) as [[a b] d0], (vrun (upd ho' p true) _ t (tl sk)) as [[a' b'] d0'].
    destruct IH as (-> & A & B). auto.
  - destruct (hcur ho' hk' p None); [|apply IH; auto].
    specialize (IH sk _ _ _ _ (U1 p false) (U2 p None)).
    destruct (vrun (upd ho p false) _ t sk) as [[a b] d0], (vrun (upd ho' p false) _ t sk) as [[a' b'] d0'].
    destruct IH as (-> & A & B). auto.
  - specialize (IH sk ho ho' hk hk' E1 E2). destruct (vrun ho hk t sk) as [[a b] d0], (vrun ho' hk' t sk) as [[a' b'] d0'].
    destruct IH as (-> & A & B). auto.
  - specialize (IH sk ho ho' hk hk' E1 E2). destruct (vrun ho hk t sk) as [[a b] d0], (vrun ho' hk' t sk) as [[a' b'] d0'].
    destruct IH as (-> & A & B). auto.
  - destruct (hcur ho' hk' p (Some k)); [|apply IH; auto].
    specialize (IH sk _ _ _ _ (U1 p false) (U2 p None)).
    destruct (vrun (upd ho p false) _ t sk) as [[a b] d0], (vrun (upd ho' p false) _ t sk) as [[a' b'] d0'].
    destruct IH as (-> & A & B). auto.
Qed.

Lemma NK_ext s q : forall sk ho ho' hk hk', (forall p, ho p = ho' p) -> (forall p, hk p = hk' p) ->
  NK s ho hk q sk -> NK s ho' hk' q sk.
Proof.
  induction q as [|e t IH]; intros sk ho ho' hk hk' E1 E2; cbn [NK]; auto.
  assert (U1 : forall p v q0, upd ho p v q0 = upd ho' p v q0) by (intros; unfold upd; destruct (_ =? _); auto).
  assert (U2 : forall p v q0, upd hk p v q0 = upd hk' p v q0) by (intros; unfold upd; destruct (_ =? _); auto).
  assert (HC : forall p k, hcur ho hk p k = hcur ho' hk' p k) by (intros; unfold hcur; rewrite E1, E2; reflexivity).
  destruct e; cbn [closed_report]; rewrite ?HC.
  - apply IH; auto.
  - apply IH; auto.
  - destruct (hcur ho' hk' p None); [|apply IH; auto]. intros [A B]. split.
    + intros k0 X. apply A. now rewrite E2.
    + eapply IH; [| |exact B]; auto.
  - apply IH; auto.
  - apply IH; auto.
  - destruct (hcur ho' hk' p (Some k)); [|apply IH; auto]. intros [A B]. split.
    + intros k0 X. apply A. now rewrite E2.
    + eapply IH; [| |exact B]; auto.
Qed.

(* ------------------------------------------------------------------ the invariant *)
Record LI (l : lst) : Prop := mkLI {
  li_len : length (lsk l) = n_opened (lq l);
  li_lt1 : forall p k, hsink (ls l) p = Some k -> k < ntask (ls l);
  li_lt2 : Forall (fun k => k < ntask (ls l)) (lsk l);
  li_t : TPart (ls l);
  li_v : let '(a, b, dl) := vrun (hopen (ls l)) (hsink (ls l)) (lq l) (lsk l) in
         (forall p, a p = is_open (ps (ls l) p)) /\
         (forall p k, ps (ls l) p = Some (Open k) -> b p = Some k) /\
         exists g, grammar (hopen (ls l)) dl = Some g /\ forall p, g p = a p;
  li_nk : NK (ls l) (hopen (ls l)) (hsink (ls l)) (lq l) (lsk l)
}.

Lemma LI_init : LI linit.
Proof.
  constructor; cbn; auto.
  - intros p k H. discriminate H.
  - constructor; cbn; intros; try tauto; try discriminate. constructor.
  - repeat split; auto; [intros p k H; discriminate H|]. eexists. split; [reflexivity|auto].
Qed.

(* ---- what the handle will make of the events of one main handler, from the virtual state (a, b) ---- *)
Lemma vrun_quiet s0 ev : Forall (quiet_ev s0) ev -> forall a b, vrun a b ev [] = (a, b, ev).
Proof.
  induction 1 as [|e t He _ IH]; intros a b; cbn [vrun]; auto.
  destruct e; cbn in He; try contradiction; rewrite IH; reflexivity.
Qed.

Lemma NK_quiet s s0 ev : Forall (quiet_ev s0) ev -> forall a b, NK s a b ev [].
Proof.
  induction 1 as [|e t He _ IH]; intros a b; cbn [NK]; auto.
  destruct e; cbn in He; try contradiction; apply IH.
Qed.

Lemma n_opened_quiet s0 ev : Forall (quiet_ev s0) ev -> n_opened ev = 0%nat.
Proof.
  induction 1 as [|e t He _ IH]; cbn; auto. destruct e; cbn in He; try contradiction; exact IH.
Qed.

Lemma new_sinks_quiet s s0 ev : Forall (quiet_ev s0) ev -> new_sinks s ev = [].
Proof.
  induction 1 as [|e t He _ IH]; cbn; auto. destruct e; cbn in He; try contradiction; exact IH.
Qed.

Lemma vrun_reports_closed p ev : Forall (is_report p) ev -> forall a b,
  a p = false -> vrun a b ev [] = (a, b, []).
Proof.
  induction 1 as [|e t He _ IH]; intros a b HO; cbn [vrun]; auto.
  destruct e; cbn in He; try contradiction; subst p0; cbn [closed_report]; unfold hcur; rewrite HO; cbn [andb]; apply IH; auto.
Qed.

Lemma NK_reports_closed s p ev : Forall (is_report p) ev -> forall a b, a p = false -> NK s a b ev [].
Proof.
  induction 1 as [|e t He _ IH]; intros a b HO; cbn [NK]; auto.
  destruct e; cbn in He; try contradiction; subst p0; cbn [closed_report]; unfold hcur; rewrite HO; cbn [andb]; apply IH; auto.
Qed.

Lemma vrun_reports_open p k ev : Forall (is_report p) ev -> forall a b,
  a p = true -> b p = Some k ->
  vrun a b ev [] = if existsb (cur k) ev then (upd a p false, upd b p None, [UClosed p]) else (a, b, []).
Proof.
  induction 1 as [|e t He F IH]; intros a b HO HS; cbn [existsb vrun]; auto.
  destruct e; cbn in He; try contradiction; subst p0; cbn [closed_report cur orb]; unfold hcur; rewrite HO, ?HS; cbn [andb].
  - rewrite (vrun_reports_closed p t F) by apply upd_same. reflexivity.
  - destruct (k =? k0) eqn:E.
    + rewrite N.eqb_sym, E. cbn [orb]. rewrite (vrun_reports_closed p t F) by apply upd_same. reflexivity.
    + rewrite N.eqb_sym, E. cbn [orb]. apply IH; auto.
Qed.

Lemma NK_reports_open s p k ev : Forall (is_report p) ev -> forall a b,
  a p = true -> b p = Some k -> (existsb (cur k) ev = true -> running s k = false) -> NK s a b ev [].
Proof.
  induction 1 as [|e t He F IH]; intros a b HO HS R; cbn [NK]; auto.
  destruct e; cbn in He; try contradiction; subst p0; cbn [closed_report]; unfold hcur; rewrite HO, ?HS; cbn [andb].
  - split.
    + intros k0 X. injection X as <-. apply R. reflexivity.
    + apply (NK_reports_closed s p t F). apply upd_same.
  - destruct (k =? k0) eqn:E.
    + split.
      * intros k1 X. try rewrite HS in X. injection X as <-. apply R. cbn. now rewrite N.eqb_sym, E.
      * apply (NK_reports_closed s p t F). apply upd_same.
    + apply IH; auto. intros X. apply R. cbn. now rewrite X, orb_true_r.
Qed.

Lemma n_opened_reports p ev : Forall (is_report p) ev -> n_opened ev = 0%nat /\ forall s, new_sinks s ev = [].
Proof.
  induction 1 as [|e t He _ [IH1 IH2]]; cbn; auto.
  destruct e; cbn in He; try contradiction; split; auto.
Qed.

(* the task part is kept by quiet handlers and by handlers that open a stream *)
Lemma TPart_quiet s s1 ev cl : TPart s -> quiet s (Some (s1, ev, cl)) -> TPart s1.
Proof.
  intros [H3 H4 H5 H6 H7] (T & L & N0 & HO & SO & F). constructor; rewrite ?T, ?N0; auto.
  - intros p k Hk. apply SO in Hk. eauto.
  - intros t Ht C Hk. apply SO in Hk. eapply H6; eauto.
  - intros p k t Hk. apply SO in Hk. eauto.
Qed.

Lemma TPart_opens s p s1 : TPart s -> opens s p s1 -> TPart s1.
Proof.
  intros [H3 H4 H5 H6 H7] (NO & Hp & T & L & N0 & HO & FR).
  assert (FrI : forall t, In t (tasks s) -> t_id t <> ntask s) by (intros t Ht; specialize (H3 t Ht); lia).
  constructor; rewrite ?T, ?N0.
  - intros t Ht. apply in_app_or in Ht. destruct Ht as [Ht|[<-|[]]]; cbn; [specialize (H3 t Ht)|]; lia.
  - intros q k Hk. destruct (N.eq_dec q p) as [->|Hne].
    + rewrite Hp in Hk. injection Hk as <-. lia.
    + rewrite FR in Hk by auto. specialize (H4 q k Hk). lia.
  - rewrite map_app. cbn. apply NoDup_app_single; auto.
    intros X. apply in_map_iff in X. destruct X as (t & E & Ht). apply (FrI t Ht). exact E.
  - intros t Ht C. apply in_app_or in Ht. destruct Ht as [Ht|[<-|[]]]; [|discriminate C].
    destruct (N.eq_dec (t_peer t) p) as [E|Hne].
    + rewrite E, Hp. intros X. injection X as X. apply (FrI t Ht). auto.
    + rewrite FR by auto. auto.
  - intros q k t Hk Ht Id. destruct (N.eq_dec q p) as [->|Hne].
    + rewrite Hp in Hk. injection Hk as <-. apply in_app_or in Ht. destruct Ht as [Ht|[<-|[]]]; auto.
      exfalso. apply (FrI t Ht). auto.
    + rewrite FR in Hk by auto. apply in_app_or in Ht. destruct Ht as [Ht|[<-|[]]]; [eauto|].
      cbn in Id. specialize (H4 q k Hk). lia.
Qed.

(* ---- tasks only stop running: old tasks that run after a main handler ran before ---- *)
Lemma find_task_app_old k l t : t_id t <> k -> find_task k (l ++ [t]) = find_task k l.
Proof.
  intros H. induction l as [|a l IH]; cbn.
  - destruct (t_id t =? k) eqn:E; auto. apply N.eqb_eq in E. contradiction.
  - destruct (t_id a =? k); auto.
Qed.

Lemma main_runs c s o s1 ev cl :
  TPart s -> main_handler c s o = Some (s1, ev, cl) ->
  (forall k, k < ntask s -> running s1 k = true -> running s k = true) /\ ntask s <= ntask s1.
Proof.
  intros HT M. pose proof (main_mshape c s o HT) as Sh. rewrite M in Sh.
  inversion Sh as [|s1' ev' cl' Q|p d s1' cl' Op|p s1' ev' cl' Rs]; subst.
  - destruct Q as (T & L & N0 & _). split; [|lia]. intros k _. unfold running. now rewrite T.
  - destruct Op as (_ & _ & T & _ & N0 & _). split; [|lia]. intros k Lk. unfold running. rewrite T.
    rewrite find_task_app_old by (cbn; lia). auto.
  - destruct Rs as [_ _ _ _ _ _ [R N0]]. split; [|lia]. intros k Lk. apply (runs_running s s1 k (h_nodup s HT) R Lk).
Qed.

(* ------------------------------------------------------------------ a protocol event keeps the invariant *)
Lemma length_new_sinks s ev : length (new_sinks s ev) = n_opened ev.
Proof.
  induction ev as [|e t IH]; cbn; auto. destruct e; cbn; auto.
Qed.

Lemma n_opened_app a b : n_opened (a ++ b) = (n_opened a + n_opened b)%nat.
Proof. unfold n_opened. rewrite filter_app, app_length. reflexivity. Qed.

Lemma LI_main c l o s1 ev calls hd :
  LI l -> main_handler c (ls l) o = Some (s1, ev, calls) ->
  LI (mkL s1 (lq l ++ ev) (lsk l ++ new_sinks (ls l) ev) (lnf l ++ notifs_k (ls l) o) hd).
Proof.
  intros [Len Lt1 Lt2 HT V NKq] M. set (s := ls l) in *.
  pose proof (main_mshape c s o HT) as Sh. rewrite M in Sh.
  pose proof (hsink_main _ _ _ _ _ _ M) as HS. pose proof (hopen_main _ _ _ _ _ _ M) as HO.
  destruct (main_runs _ _ _ _ _ _ HT M) as [RM NM].
  destruct (vrun (hopen s) (hsink s) (lq l) (lsk l)) as [[a b] dl] eqn:VR. destruct V as (VA & VB & (g & VG & GA)).
  assert (NK1 : NK s1 (hopen s) (hsink s) (lq l) (lsk l)) by (eapply NK_mono; eauto).
  assert (LEN : length (lsk l ++ new_sinks s ev) = n_opened (lq l ++ ev))
    by (rewrite app_length, n_opened_app, length_new_sinks, Len; reflexivity).
  assert (LT1 : forall p k, hsink s1 p = Some k -> k < ntask s1) by (intros p k H; rewrite HS in H; specialize (Lt1 p k H); lia).
  (* what remains: the task part, the virtual state after ev, the grammar of what ev delivers, NK of ev *)
  assert (Core : TPart s1 /\ Forall (fun k => k < ntask s1) (new_sinks s ev) /\
                 (let '(a2, b2, d2) := vrun a b ev (new_sinks s ev) in
                  (forall p, a2 p = is_open (ps s1 p)) /\ (forall p k, ps s1 p = Some (Open k) -> b2 p = Some k) /\
                  grammar a d2 = Some a2) /\
                 NK s1 a b ev (new_sinks s ev)).
  { inversion Sh as [|s1' ev' cl' Q|p d s1' cl' Op|p s1' ev' cl' Rs]; subst.
    - (* quiet *)
      pose proof Q as (T & L & N0 & HO' & SO & F).
      rewrite (new_sinks_quiet s s ev F), (vrun_quiet s ev F). split; [eapply TPart_quiet; eauto|]. split; [constructor|]. split.
      + split; [|split].
        * intros p. rewrite VA. symmetry. now apply same_open_is_open.
        * intros p k Hk. apply SO in Hk. auto.
        * apply (grammar_quiet s a ev VA F).
      + apply (NK_quiet s1 s ev F).
    - (* a stream opens *)
      pose proof Op as (NO & Hp & T & L & N0 & HO' & FR). cbn [new_sinks flat_map app vrun hd_error tl].
      split; [eapply TPart_opens; eauto|]. split; [constructor; [lia|constructor]|]. split.
      + split; [|split].
        * intros q. unfold upd. destruct (q =? p) eqn:E.
          -- apply N.eqb_eq in E. subst q. now rewrite Hp.
          -- apply N.eqb_neq in E. rewrite FR by auto. apply VA.
        * intros q k Hk. unfold upd. destruct (q =? p) eqn:E.
          -- apply N.eqb_eq in E. subst q. rewrite Hp in Hk. injection Hk as <-. reflexivity.
          -- apply N.eqb_neq in E. rewrite FR in Hk by auto. auto.
        * cbn [grammar]. rewrite VA, NO. reflexivity.
      + cbn [NK]. exact I.
    - (* Closed reports for p *)
      destruct Rs as [REv RHo RHs ROt RT RC [RR RN]].
      destruct (n_opened_reports p ev REv) as [_ NS]. rewrite NS.
      split; [exact RT|]. split; [constructor|].
      destruct (a p) eqn:AP.
      + pose proof (VA p) as G. rewrite AP in G. destruct (ps s p) as [[| | | | | |k]|] eqn:Hp; try discriminate G.
        pose proof (VB p k Hp) as BK.
        rewrite (vrun_reports_open p k ev REv a b AP BK).
        destruct RC as [[Same NoCur]|(k0 & Hk0 & NO & NR & InC)].
        * rewrite (NoCur k eq_refl). split.
          -- split; [|split].
             ++ intros q. destruct (N.eq_dec q p) as [->|Hne]; [rewrite Same, AP; reflexivity|rewrite ROt by auto; apply VA].
             ++ intros q k1 Hq. destruct (N.eq_dec q p) as [->|Hne]; [rewrite Same in Hq; injection Hq as <-; exact BK|rewrite ROt in Hq by auto; auto].
             ++ reflexivity.
          -- apply (NK_reports_open s1 p k ev REv a b AP BK). rewrite (NoCur k eq_refl). discriminate.
        * injection Hk0 as <-.
          assert (EC : existsb (cur k) ev = true) by (apply existsb_exists; exists (UClosed p); split; auto).
          rewrite EC. split.
          -- split; [|split].
             ++ intros q. unfold upd. destruct (q =? p) eqn:E.
                ** apply N.eqb_eq in E. subst q. symmetry. exact NO.
                ** apply N.eqb_neq in E. rewrite ROt by auto. apply VA.
             ++ intros q k1 Hq. unfold upd. destruct (q =? p) eqn:E.
                ** apply N.eqb_eq in E. subst q. rewrite Hq in NO. discriminate NO.
                ** apply N.eqb_neq in E. rewrite ROt in Hq by auto. auto.
             ++ cbn [grammar]. rewrite AP. reflexivity.
          -- apply (NK_reports_open s1 p k ev REv a b AP BK). intros _. exact NR.
      + rewrite (vrun_reports_closed p ev REv a b AP).
        assert (NOp : is_open (ps s p) = false) by (rewrite <- VA; exact AP).
        split.
        * split; [|split].
          -- intros q. destruct (N.eq_dec q p) as [->|Hne]; [|rewrite ROt by auto; apply VA].
             rewrite AP. symmetry. destruct RC as [[Same _]|(k0 & Hk0 & _)]; [rewrite Same; exact NOp|rewrite Hk0 in NOp; discriminate NOp].
          -- intros q k1 Hq. destruct (N.eq_dec q p) as [->|Hne]; [|rewrite ROt in Hq by auto; auto].
             destruct RC as [[Same _]|(k0 & Hk0 & NO & _)]; [rewrite Same in Hq; rewrite Hq in NOp; discriminate NOp|rewrite Hq in NO; discriminate NO].
          -- reflexivity.
        * apply (NK_reports_closed s1 p ev REv a b AP). }
  destruct Core as (T1 & NSlt & V2 & NK2).
  constructor; cbn [ls lq lsk].
  - exact LEN.
  - exact LT1.
  - apply Forall_app. split; [eapply Forall_impl; [|exact Lt2]; cbn; intros; lia|exact NSlt].
  - exact T1.
  - rewrite HO, HS. rewrite (vrun_app (lq l) (lsk l) ev (new_sinks s ev) _ _ Len). fold s. rewrite VR.
    destruct (vrun a b ev (new_sinks s ev)) as [[a2 b2] d2]. destruct V2 as (X1 & X2 & X3).
    split; [exact X1|split; [exact X2|]]. rewrite grammar_app, VG.
    destruct (grammar_ext_some d2 g a a2 GA X3) as (g2 & G2 & E2). eauto.
  - rewrite HO, HS. apply (NK_app s1 (lq l) (lsk l) ev (new_sinks s ev) _ _ Len). split; [exact NK1|].
    fold s. rewrite VR. exact NK2.
Qed.


(* ------------------------------------------------------------------ a poll keeps the invariant *)
Lemma poll_hit n s : forall q dd e rest, poll_events n s q = (dd, Some e, rest) -> stale s e = false.
Proof.
  induction n as [|n IH]; intros q dd e rest; cbn [poll_events]; [discriminate|].
  destruct q as [|e0 t]; [discriminate|]. destruct (stale s e0) eqn:St.
  - destruct (poll_events n s t) as [[d0 h0] r0] eqn:P. intros E; injection E as _ -> _. eapply IH; eauto.
  - intros E; injection E as _ <- _. exact St.
Qed.

Lemma stale_spec s e : stale s e = true ->
  exists p k, closed_report e = Some (p, k) /\ hcur (hopen s) (hsink s) p k = false.
Proof.
  unfold stale. destruct (closed_report e) as [[p k]|] eqn:C; [|discriminate].
  intros H. apply negb_true_iff in H. eauto.
Qed.

Lemma vrun_skip s dd : Forall (fun e => stale s e = true) dd -> forall q sk,
  vrun (hopen s) (hsink s) (dd ++ q) sk = vrun (hopen s) (hsink s) q sk /\
  (NK s (hopen s) (hsink s) (dd ++ q) sk <-> NK s (hopen s) (hsink s) q sk) /\
  n_opened (dd ++ q) = n_opened q.
Proof.
  induction 1 as [|e t E _ IH]; intros q sk; cbn [app]; [tauto|].
  destruct (stale_spec s e E) as (p & k & C & HC). destruct (IH q sk) as (A & B & D).
  destruct e; cbn [closed_report] in C; try discriminate C; injection C as <- <-; cbn [vrun NK closed_report];
    rewrite HC; cbn [n_opened filter]; auto.
Qed.

(* one queue entry that the handle does not ignore: the maps, the sinks and what the user is handed *)
Definition hstep (ho : peer -> bool) (hk : peer -> option N) (e : uev) (sk : list N)
  : (peer -> bool) * (peer -> option N) * list N * list uev :=
  match e with
  | UOpened p _ => (upd ho p true, upd hk p (hd_error sk), tl sk, [e])
  | UClosed p | UClosedT p _ => (upd ho p false, upd hk p None, sk, [UClosed p])
  | _ => (ho, hk, sk, [e])
  end.

Definition live (ho : peer -> bool) (hk : peer -> option N) (e : uev) : bool :=
  match closed_report e with Some (p, k) => hcur ho hk p k | None => true end.

Lemma vrun_cons ho hk e t sk : live ho hk e = true ->
  vrun ho hk (e :: t) sk =
  let '(ho1, hk1, sk1, de) := hstep ho hk e sk in let '(a, b, dl) := vrun ho1 hk1 t sk1 in (a, b, de ++ dl).
Proof.
  unfold live. destruct e; cbn [closed_report vrun hstep]; intros L; rewrite ?L;
    match goal with |- context [vrun ?a ?b t ?c] => destruct (vrun a b t c) as [[x y] z] end; reflexivity.
Qed.

Lemma NK_cons s ho hk e t sk : live ho hk e = true -> NK s ho hk (e :: t) sk ->
  (forall p k, closed_report e = Some (p, k) -> forall k0, hk p = Some k0 -> running s k0 = false) /\
  let '(ho1, hk1, sk1, _) := hstep ho hk e sk in NK s ho1 hk1 t sk1.
Proof.
  unfold live. destruct e; cbn [closed_report NK hstep]; intros L; rewrite ?L; intros H.
  - split; [intros ? ? X; discriminate X|exact H].
  - split; [intros ? ? X; discriminate X|exact H].
  - destruct H as [A B]. split; [|exact B]. intros q k X. injection X as <- <-. exact A.
  - split; [intros ? ? X; discriminate X|exact H].
  - split; [intros ? ? X; discriminate X|exact H].
  - destruct H as [A B]. split; [|exact B]. intros q k0 X. injection X as <- <-. exact A.
Qed.

(* the real poll of such an entry: the handle fields follow hstep, everything else stays, and the handle does
   not take the sink of a running task away *)
Lemma poll_head s e sk s1 dr killed :
  drain s [e] = (s1, dr, killed) -> live (hopen s) (hsink s) e = true ->
  (length sk >= n_opened [e])%nat ->
  (forall p k, closed_report e = Some (p, k) -> forall k0, hsink s p = Some k0 -> running s k0 = false) ->
  let '(s1', ks) := match e, sk with UOpened p _, k :: kt => (set_hsink s1 p (Some k), kt) | _, ks => (s1, ks) end in
  let '(ho1, hk1, sk1, de) := hstep (hopen s) (hsink s) e sk in
  killed = [] /\ (forall p, hopen s1' p = ho1 p) /\ (forall p, hsink s1' p = hk1 p) /\ ks = sk1 /\
  delivered s [e] = de /\ ps s1' = ps s /\ tasks s1' = tasks s /\ ntask s1' = ntask s.
Proof.
  unfold live. destruct e; cbn [closed_report drain delivered hstep n_opened filter length]; intros D L Len R.
  - destruct (hval s p); injection D as <- _ <-; repeat split; auto.
  - injection D as <- _ <-. destruct sk as [|k kt]; [cbn in Len; lia|]. cbn [hd_error tl]. setters.
    repeat split; auto. intros q. unfold upd. destruct (q =? p); auto.
  - change (current s p None) with (hcur (hopen s) (hsink s) p None) in *. rewrite L in *.
    assert (K : match hsink s p with
                | Some k => if running s k && negb (match usink s p with Some k' => k' =? k | None => false end) then [k] else []
                | None => []
                end = []).
    { destruct (hsink s p) as [k0|] eqn:HS; auto. rewrite (R p None eq_refl k0 HS). reflexivity. }
    rewrite K in D. cbn [app] in D. injection D as <- _ <-. setters. repeat split; auto.
  - injection D as <- _ <-. repeat split; auto.
  - injection D as <- _ <-. repeat split; auto.
  - change (current s p (Some k)) with (hcur (hopen s) (hsink s) p (Some k)) in *. rewrite L in *.
    assert (K : match hsink s p with
                | Some k => if running s k && negb (match usink s p with Some k' => k' =? k | None => false end) then [k] else []
                | None => []
                end = []).
    { destruct (hsink s p) as [k0|] eqn:HS; auto. rewrite (R p (Some k) eq_refl k0 HS). reflexivity. }
    rewrite K in D. cbn [app] in D. injection D as <- _ <-. setters. repeat split; auto.
Qed.

Lemma hstep_facts ho hk e sk rest n :
  length sk = n_opened (e :: rest) -> (forall p k, hk p = Some k -> k < n) -> Forall (fun k => k < n) sk ->
  let '(ho1, hk1, sk1, de) := hstep ho hk e sk in
  length sk1 = n_opened rest /\ (forall p k, hk1 p = Some k -> k < n) /\ Forall (fun k => k < n) sk1 /\
  forall g, grammar ho de = Some g -> g = ho1.
Proof.
  intros Len B1 B2. destruct e; cbn [hstep n_opened filter length] in *.
  - repeat split; auto. cbn. intros g X. now injection X as <-.
  - destruct sk as [|k kt]; [discriminate Len|]. injection Len as Len. cbn [hd_error tl]. inversion B2; subst.
    repeat split; auto.
    + intros q k0. unfold upd. destruct (q =? p); [intros X; injection X as <-; auto|apply B1].
    + cbn. destruct (ho p); [discriminate|]. intros g X. now injection X as <-.
  - repeat split; auto.
    + intros q k0. unfold upd. destruct (q =? p); [discriminate|apply B1].
    + cbn. destruct (ho p); [|discriminate]. intros g X. now injection X as <-.
  - repeat split; auto. cbn. destruct (ho p); [discriminate|]. intros g X. now injection X as <-.
  - repeat split; auto. cbn. destruct (ho p); [|discriminate]. intros g X. now injection X as <-.
  - repeat split; auto.
    + intros q k0. unfold upd. destruct (q =? p); [discriminate|apply B1].
    + cbn. destruct (ho p); [|discriminate]. intros g X. now injection X as <-.
Qed.

Lemma live_of_not_stale s e : stale s e = false -> live (hopen s) (hsink s) e = true.
Proof.
  unfold stale, live. destruct (closed_report e) as [[p k]|]; auto. intros H. apply negb_false_iff in H. exact H.
Qed.

Lemma LI_poll c cap l l' ev cl :
  LI l -> lstep c cap l LPoll = Some (l', ev, cl) ->
  LI l' /\ exists g, grammar (hopen (ls l)) ev = Some g /\ forall p, g p = hopen (ls l') p.
Proof.
  intros [Len Lt1 Lt2 HT V NKq]. cbn [lstep]. set (s := ls l) in *.
  destruct (poll_events cap s (lq l)) as [[dd h] rest] eqn:PE.
  destruct (poll_split _ _ _ _ _ _ PE) as [SP St].
  destruct (vrun_skip s dd St (match h with Some e => e :: rest | None => rest end) (lsk l)) as (VS & NS & OS).
  rewrite SP in V, NKq, Len. rewrite VS in V. rewrite OS in Len. apply NS in NKq. clear VS NS OS.
  destruct h as [e|].
  - (* an event is handed out *)
    pose proof (live_of_not_stale s e (poll_hit _ _ _ _ _ _ PE)) as Lv.
    rewrite (vrun_cons _ _ e rest (lsk l) Lv) in V.
    destruct (NK_cons s _ _ e rest (lsk l) Lv NKq) as [RF NKr].
    destruct (drain s [e]) as [[s1 dr] killed] eqn:D.
    assert (LenE : (length (lsk l) >= n_opened [e])%nat).
    { rewrite Len. change (e :: rest) with ([e] ++ rest). rewrite n_opened_app. lia. }
    pose proof (poll_head s e (lsk l) s1 dr killed D Lv LenE RF) as PH.
    pose proof (hstep_facts (hopen s) (hsink s) e (lsk l) rest (ntask s) Len Lt1 Lt2) as HF.
    (* the common part, for the handle state s1' / sinks ks the poll leaves and the maps hstep predicts *)
    assert (Fin : forall s1' ho1 hk1 sk1 de,
      (let '(a, b, dl) := let '(a, b, dl) := vrun ho1 hk1 rest sk1 in (a, b, de ++ dl) in
        (forall p0, a p0 = is_open (ps s p0)) /\ (forall p0 k, ps s p0 = Some (Open k) -> b p0 = Some k) /\
        exists g, grammar (hopen s) dl = Some g /\ forall p0, g p0 = a p0) ->
      NK s ho1 hk1 rest sk1 ->
      (forall p, hopen s1' p = ho1 p) -> (forall p, hsink s1' p = hk1 p) ->
      ps s1' = ps s -> tasks s1' = tasks s -> ntask s1' = ntask s ->
      length sk1 = n_opened rest -> (forall p k, hk1 p = Some k -> k < ntask s) -> Forall (fun k => k < ntask s) sk1 ->
      (forall g, grammar (hopen s) de = Some g -> g = ho1) ->
      (forall hd, LI (mkL s1' rest sk1 (lnf l) hd)) /\
      exists g, grammar (hopen s) de = Some g /\ forall p, g p = hopen s1' p).
    { intros s1' ho1 hk1 sk1 de V' NKr' E1 E2 P1 T1 N1 L1 B1 B2 GD.
      destruct (vrun ho1 hk1 rest sk1) as [[a b] dl] eqn:VR. destruct V' as (VA & VB & (g & VG & GA)).
      rewrite grammar_app in VG. destruct (grammar (hopen s) de) as [g1|] eqn:G1; [|discriminate VG].
      specialize (GD g1 eq_refl). subst g1.
      pose proof (vrun_ext rest sk1 (hopen s1') ho1 (hsink s1') hk1 E1 E2) as VX. rewrite VR in VX.
      destruct (vrun (hopen s1') (hsink s1') rest sk1) as [[a' b'] dl'] eqn:VR'. destruct VX as (-> & XA & XB).
      split; [|exists ho1; split; auto].
      intros hd. constructor; cbn [ls lq lsk]; rewrite ?N1; auto.
      - intros p k. rewrite E2. apply B1.
      - eapply TPart_fields; eauto.
      - rewrite VR'. split; [intros p; rewrite XA, P1; apply VA|]. split; [intros p k; rewrite XB, P1; apply VB|].
        destruct (grammar_ext_some dl (hopen s1') ho1 g E1 VG) as (g' & G' & EG). exists g'. split; auto.
        intros p. rewrite EG, GA, XA. reflexivity.
      - eapply NK_ext; [intros p; symmetry; apply E1|intros p; symmetry; apply E2|].
        eapply NK_mono; [| | |exact NKr']; auto. intros k0 _. unfold running. now rewrite T1. }
    destruct e as [p|p d|p|p e0|p|p k]; [ |destruct (lsk l) as [|k kt] eqn:SK; [cbn in LenE; lia|] | | | | ];
      cbn [hstep hd_error tl] in *; cbn beta iota zeta in PH, HF;
      destruct PH as (-> & E1 & E2 & EK & DL & P1 & T1 & N1); destruct HF as (L1 & B1 & B2 & GD);
      cbn [kill_tasks]; rewrite app_nil_r, DL;
      match goal with |- context [kill_tasks ?x []] => idtac | _ => idtac end;
      (edestruct Fin as [Core GR]; [exact V|exact NKr|exact E1|exact E2|exact P1|exact T1|exact N1|exact L1|exact B1|exact B2|exact GD|]);
      match goal with |- context [if ?b then _ else _] => destruct b end; intros E; injection E as <- <- <-;
      (split; [apply Core|exact GR]).
  - (* nothing to hand out from the event channel: notifications *)
    destruct (vrun (hopen s) (hsink s) rest (lsk l)) as [[a b] dl] eqn:VR.
    assert (Core : forall t hd, LI (mkL s rest (lsk l) t hd)).
    { intros t hd. constructor; cbn [ls lq lsk]; auto. fold s. rewrite VR. exact V. }
    destruct (next_notif s (lnf l)) as [[p|] t] eqn:NN; intros E; injection E as <- <- <-; (split; [apply Core|]).
    + destruct (next_notif_some _ _ _ _ NN) as (k & _ & HO & _). exists (hopen s). cbn [grammar ls]. rewrite HO. auto.
    + exists (hopen s). cbn [grammar ls]. auto.
Qed.

(* ------------------------------------------------------------------ every schedule *)
Definition levents (r : list (lst * list uev * list call)) : list uev := flat_map (fun x => snd (fst x)) r.

Lemma LI_step c cap l g l' ev cl :
  LI l -> lstep c cap l g = Some (l', ev, cl) ->
  LI l' /\ exists h, grammar (hopen (ls l)) ev = Some h /\ forall p, h p = hopen (ls l') p.
Proof.
  intros HI. destruct g as [o|]; [|apply LI_poll; exact HI].
  cbn [lstep]. destruct (lskip cap l o).
  - intros E; injection E as <- <- <-. split; auto. exists (hopen (ls l)). auto.
  - destruct (main_handler c (ls l) o) as [[[s1 ev1] calls]|] eqn:M; [|discriminate].
    pose proof (hopen_main _ _ _ _ _ _ M) as HO.
    match goal with |- context [if ?b then _ else _] => destruct b end; intros E; injection E as <- <- <-;
      (split; [eapply LI_main; eauto|exists (hopen (ls l)); cbn [grammar ls]; split; auto; intros p; now rewrite HO]).
Qed.

Lemma lrun_grammar c cap gs : forall l, LI l ->
  exists h, grammar (hopen (ls l)) (levents (fst (lrun c cap l gs))) = Some h.
Proof.
  induction gs as [|g t IH]; intros l HI; cbn [lrun fst levents flat_map].
  - eexists. reflexivity.
  - destruct (lstep c cap l g) as [[[l1 ev] cl]|] eqn:S; [|eexists; reflexivity].
    destruct (LI_step _ _ _ _ _ _ _ HI S) as (H1 & h1 & G1 & E1).
    destruct (IH l1 H1) as (h2 & G2).
    destruct (lrun c cap l1 t) as [r b]. cbn [fst levents flat_map snd] in *.
    rewrite grammar_app, G1.
    destruct (grammar_ext_some _ h1 (hopen (ls l1)) h2 E1 G2) as (h3 & G3 & _). eauto.
Qed.

Lemma lazy_alternation c cap gs :
  exists h, grammar (fun _ => false) (levents (fst (lrun c cap linit gs))) = Some h.
Proof. apply (lrun_grammar c cap gs linit LI_init). Qed.
