(* C11 — the open-request ledger, part A: definitions, leaving the in-progress state needs an answer. *)
From Coq Require Import List NArith Bool Lia.
From V.C11 Require Import Model PBase.
Import ListNotations.
Open Scope N_scope.

(* ================================================================== the open-request ledger *)
Definition in_progress (x : option pstate) : bool :=
  match x with
  | Some (OutInit _) => true
  | Some (Validating _ o _) => negb (o_closed o)
  | _ => false
  end.
Definition is_answer (p : peer) (e : uev) : bool :=
  match e with UOpened q _ | UFail q _ => q =? p | _ => false end.
Definition has_answer (p : peer) (ev : list uev) : bool := existsb (is_answer p) ev.
Definition has_validate (p : peer) (ev : list uev) : bool :=
  existsb (fun e => match e with UValidate q => q =? p | _ => false end) ev.

(* an open request the protocol takes up: the user's command passes the handle gate and finds the
   peer connected with no negotiation in progress (PeerState::Closed, with or without a remembered
   pending substream id) *)
Definition request_accepted (s : st) (o : op) (p : peer) : bool :=
  match o with
  | CmdOpen q => (q =? p) && negb (hopen s p) &&
                 match ps s p with Some (Closed _) => true | _ => false end
  | _ => false
  end.
(* the user rejects the inbound substream of the peer that is being validated: the code discards an
   outbound attempt as well, without a report (finding class 3 when an outbound attempt exists) *)
Definition user_reject (s : st) (o : op) (p : peer) : bool :=
  match o with
  | Validate q false => (q =? p) && hval s p &&
                        match ps s p with Some (Validating _ _ IValidating) => true | _ => false end
  | _ => false
  end.

Ltac leave_close :=
  let q := fresh "q" in let A := fresh "A" in let N0 := fresh "N" in let E := fresh "E" in
  intros q A N0; setters; unfold upd in N0;
  repeat match type of N0 with context [q =? ?p] => destruct (q =? p) eqn:E; [apply N.eqb_eq in E; subst q|] end;
  try congruence;
  repeat match goal with E : ps _ _ = _ |- _ => rewrite E in A end; cbn in A; try discriminate A;
  repeat match goal with o : outb |- _ => destruct o end; cbn in A, N0; try discriminate A; try discriminate N0;
  repeat match goal with E : o_closed _ = _ |- _ => cbn in E; try discriminate E end;
  cbn [has_answer existsb is_answer user_reject]; rewrite ?N.eqb_refl; cbn;
  first [ left; reflexivity
        | right; repeat match goal with E : _ = _ |- _ => rewrite E end; reflexivity ].

Lemma inprog_on_shutdown s p q : in_progress (ps (on_shutdown s p) q) = in_progress (ps s q).
Proof.
  unfold on_shutdown. destruct (ps s p) as [[]|] eqn:Hp; auto. destruct (task_closed s k); auto.
  setters. unfold upd. destruct (q =? p) eqn:E; auto. apply N.eqb_eq in E. subst q. now rewrite Hp.
Qed.

Lemma leave_main c s o s1 ev cl :
  main_handler c s o = Some (s1, ev, cl) ->
  forall q, in_progress (ps s q) = true -> in_progress (ps s1 q) = false ->
            has_answer q ev = true \/ user_reject s o q = true.
Proof.
  intros M. destruct o; unfold_handlers M.
  all: try (split_all; try (leave_close; fail); fail).
  - split_all; try (leave_close; fail). intros q A N0. rewrite inprog_on_shutdown in N0. setters. congruence.
  - match type of M with context [finish_tasks ?a ?b] => destruct (finish_tasks a b) as [[l' e'] n'] end.
    split_all. intros q A N0. unfold run_shutdowns in N0.
    match type of N0 with context [if ?b then _ else _] => destruct b end; [|rewrite inprog_on_shutdown in N0]; setters; congruence.
  - split_all; try (leave_close; fail). intros q A N0. rewrite inprog_on_shutdown in N0. setters. congruence.
Qed.

