(* C11 — the bounded user event channel and a user who polls late: never stuck, nothing lost or
   reordered, the capacity only delays. *)
From Coq Require Import List NArith Bool Lia.
From V.C11 Require Import Model PBase PInv PIso.
Import ListNotations.
Open Scope N_scope.

(* ---- never stuck ---- *)
Lemma SInv_set_hsink s p v : SInv s -> SInv (set_hsink s p v).
Proof. intros [H B]. split; [intros q; apply H|exact B]. Qed.

Lemma lstep_SInv c cap l g : SInv (ls l) ->
  exists l' ev cl, lstep c cap l g = Some (l', ev, cl) /\ SInv (ls l').
Proof.
  intros I. destruct g as [o|]; cbn [lstep].
  - destruct (lskip cap l o); [eauto 6|].
    destruct I as [H B].
    destruct (main_handler c (ls l) o) as [[[s1 ev] calls]|] eqn:M; [|now apply nostuck_main in M].
    pose proof (SL_main _ _ _ _ _ _ H M) as H1. pose proof (SB_main _ _ _ _ _ _ B M) as B1.
    match goal with |- context [if ?b then _ else _] => destruct b end; do 3 eexists; (split; [reflexivity|split; auto]).
  - destruct (poll_events cap (ls l) (lq l)) as [[dd [e|]] rest].
    2: { destruct (next_notif (ls l) (lnf l)) as [[p|] t]; do 3 eexists; (split; [reflexivity|exact I]). }
    + destruct (drain (ls l) [e]) as [[s1 dr] killed] eqn:D.
      pose proof (drain_net _ _ _ _ _ D) as N1. destruct I as [H B].
      pose proof (SL_net _ _ N1 H) as H1. pose proof (SB_net _ _ N1 B) as B1.
      assert (I1 : forall s1', (exists p v, s1' = set_hsink s1 p v) \/ s1' = s1 -> SL s1' /\ SB s1').
      { intros s1' [(p & v & ->)| ->]; [|auto]. apply (SInv_set_hsink s1 p v). split; auto. }
      destruct e as [p|p d|p|p e0|p|p k0]; destruct (lsk l) as [|k kt];
        match goal with
        | |- context [kill_tasks ?x killed] =>
            destruct (kill_tasks x killed) as [s2 ev4] eqn:K;
            destruct (I1 x ltac:(first [right; reflexivity | left; eauto])) as [HX BX];
            destruct (kill_tasks_inv _ _ _ _ K HX BX) as [H2 B2]
        end;
        match goal with |- context [if ?b then _ else _] => destruct b end;
        do 3 eexists; (split; [reflexivity|split; auto]).
Qed.

Lemma lrun_nostuck c cap gs : forall l, SInv (ls l) -> snd (lrun c cap l gs) = true.
Proof.
  induction gs as [|g t IH]; intros l I; cbn; auto.
  destruct (lstep_SInv c cap l g I) as (l1 & ev & cl & E & I1). rewrite E.
  specialize (IH l1 I1). destruct (lrun c cap l1 t). exact IH.
Qed.

(* ---- nothing lost, nothing reordered ---- *)
(* one poll splits the queue into the ignored reports it drops, the event it hits, and the rest *)
Lemma poll_split n s : forall q d h r, poll_events n s q = (d, h, r) ->
  q = d ++ match h with Some e => e :: r | None => r end /\ Forall (fun e => stale s e = true) d.
Proof.
  induction n as [|n IH]; intros q d h r; cbn [poll_events].
  - intros E; injection E as <- <- <-. auto.
  - destruct q as [|e t]; [intros E; injection E as <- <- <-; auto|].
    destruct (stale s e) eqn:St.
    + destruct (poll_events n s t) as [[d0 h0] r0] eqn:P. intros E; injection E as <- <- <-.
      destruct (IH _ _ _ _ P) as [A B]. split; [cbn; f_equal; exact A|constructor; auto].
    + intros E; injection E as <- <- <-. auto.
Qed.

(* ignored reports are dropped without a trace: nothing is handed out, the handle state stays *)
Lemma delivered_stale s d : Forall (fun e => stale s e = true) d -> forall t, delivered s (d ++ t) = delivered s t.
Proof.
  induction 1 as [|e r E _ IH]; intros t; cbn [app]; auto.
  unfold stale in E. destruct e; cbn [closed_report] in E; try discriminate E; cbn [delivered closed_report];
    apply negb_true_iff in E; rewrite E; apply IH.
Qed.

(* what a step takes out of the event queue: the ignored reports at its head and the event it hits *)
Definition ltaken (cap : nat) (l : lst) (g : lop) : list uev :=
  match g with
  | LPoll => let '(d, h, _) := poll_events cap (ls l) (lq l) in d ++ match h with Some e => [e] | None => [] end
  | LOp _ => []
  end.

(* one step: what was taken from the queue, followed by what is still queued, is what was queued before
   followed by what the step emitted; and when the poll hits an event that the handle does not ignore, what
   `handle.next()` returns is what the handle makes of the events taken (delivered: ignored reports vanish,
   a Connection task's report that is not ignored is handed out as NotificationStreamClosed) *)
Lemma lstep_fifo c cap l g l' ev cl :
  lstep c cap l g = Some (l', ev, cl) ->
  ltaken cap l g ++ lq l' = lq l ++ lemitted c cap l g /\
  (snd (fst (poll_events cap (ls l) (lq l))) <> None \/ g <> LPoll -> ev = delivered (ls l) (ltaken cap l g)).
Proof.
  destruct g as [o|]; cbn [lstep lemitted ltaken].
  - destruct (lskip cap l o); [intros E; injection E as <- <- <-; cbn; rewrite app_nil_r; split; [auto|tauto]|].
    destruct (main_handler c (ls l) o) as [[[s1 ev1] calls]|]; [|discriminate].
    match goal with |- context [if ?b then _ else _] => destruct b end; intros E; injection E as <- <- <-;
      (split; [reflexivity|tauto]).
  - destruct (poll_events cap (ls l) (lq l)) as [[dd h] rest] eqn:Q.
    destruct (poll_split _ _ _ _ _ _ Q) as [SP St]. cbn [fst snd].
    destruct h as [e|].
    + destruct (drain (ls l) [e]) as [[s1 dr] killed].
      destruct (match e, lsk l with UOpened p _, k :: kt => (set_hsink s1 p (Some k), kt) | _, ks => (s1, ks) end) as [s1' ks].
      destruct (kill_tasks s1' killed) as [s2 ev4]. cbn [snd].
      match goal with |- context [if ?b then _ else _] => destruct b end; intros E; injection E as <- <- <-;
        (split; [cbn [lq]; rewrite SP, <- !app_assoc; reflexivity|intros _; now rewrite delivered_stale]).
    + destruct (next_notif (ls l) (lnf l)) as [[p|] t]; intros E; injection E as <- <- <-;
        (split; [cbn [lq]; rewrite SP, !app_nil_r; reflexivity|intros [X|X]; contradiction]).
Qed.

(* the emissions and the removals of a whole run *)
Fixpoint lemitted_run (c : cfg) (cap : nat) (l : lst) (gs : list lop) : list uev :=
  match gs with
  | [] => []
  | g :: t => lemitted c cap l g ++
              match lstep c cap l g with Some (l1, _, _) => lemitted_run c cap l1 t | None => [] end
  end.
Fixpoint ltaken_run (c : cfg) (cap : nat) (l : lst) (gs : list lop) : list uev :=
  match gs with
  | [] => []
  | g :: t => ltaken cap l g ++
              match lstep c cap l g with Some (l1, _, _) => ltaken_run c cap l1 t | None => [] end
  end.
Fixpoint lfinal (c : cfg) (cap : nat) (l : lst) (gs : list lop) : lst :=
  match gs with
  | [] => l
  | g :: t => match lstep c cap l g with Some (l1, _, _) => lfinal c cap l1 t | None => l end
  end.

Lemma lrun_fifo c cap gs : forall l, SInv (ls l) ->
  ltaken_run c cap l gs ++ lq (lfinal c cap l gs) = lq l ++ lemitted_run c cap l gs.
Proof.
  induction gs as [|g t IH]; intros l I; cbn.
  - now rewrite app_nil_r.
  - destruct (lstep_SInv c cap l g I) as (l1 & ev & cl & E & I1). rewrite E.
    destruct (lstep_fifo _ _ _ _ _ _ _ E) as [F _].
    rewrite <- app_assoc, (IH l1 I1), app_assoc, F, <- app_assoc. reflexivity.
Qed.

(* a user who keeps polling gets the oldest queued event that the handle does not ignore, whatever the capacity *)
Lemma lpoll_delivers c cap l dd e rest :
  poll_events cap (ls l) (lq l) = (dd, Some e, rest) -> exists l' cl, lstep c cap l LPoll = Some (l', delivered (ls l) [e], cl).
Proof.
  intros Q. cbn [lstep]. rewrite Q.
  destruct (drain (ls l) [e]) as [[s1 dr] killed].
  destruct (match e, lsk l with UOpened p _, k :: kt => (set_hsink s1 p (Some k), kt) | _, ks => (s1, ks) end) as [s1' ks].
  destruct (kill_tasks s1' killed) as [s2 ev4].
  match goal with |- context [if ?b then _ else _] => destruct b end; eauto.
Qed.

(* ---- the capacity only delays ----
   Apart from the calls that a parked handler holds back, a step looks at the capacity only to decide
   whether the loop is parked: two runs of the same schedule under different capacities in which no
   event is scheduled while the loop is parked go through the same protocol states, the same queue and
   hand the user the same events. *)
Definition lcore (l : lst) : st * list uev * list N * list (peer * N) := (ls l, lq l, lsk l, lnf l).

(* a poll that is cut short by the capacity: every event in the channel was an ignored report and more is
   queued with waiting producers *)
Fixpoint poll_cut (n : nat) (s : st) (q : list uev) : bool :=
  match n, q with
  | S n', e :: t => if stale s e then poll_cut n' s t else false
  | O, _ :: _ => true
  | _, [] => false
  end.

Lemma poll_uncut n1 s : forall n2 q, poll_cut n1 s q = false -> poll_cut n2 s q = false ->
  poll_events n1 s q = poll_events n2 s q.
Proof.
  induction n1 as [|n1 IH]; intros n2 q C1 C2.
  - destruct q; [|discriminate C1]. destruct n2; reflexivity.
  - destruct q as [|e t]; [destruct n2; reflexivity|].
    destruct n2 as [|n2]; [discriminate C2|]. cbn in *.
    destruct (stale s e); auto. rewrite (IH n2 t C1 C2). reflexivity.
Qed.

Fixpoint never_blocked (c : cfg) (cap : nat) (l : lst) (gs : list lop) : bool :=
  match gs with
  | [] => true
  | g :: t =>
      match g with LOp _ => negb (parked cap l) | LPoll => negb (poll_cut cap (ls l) (lq l)) end &&
      match lstep c cap l g with Some (l1, _, _) => never_blocked c cap l1 t | None => true end
  end.

Lemma lstep_cap c cap1 cap2 l1 l2 g :
  lcore l1 = lcore l2 ->
  match g with LOp _ => parked cap1 l1 = false /\ parked cap2 l2 = false
             | LPoll => poll_cut cap1 (ls l1) (lq l1) = false /\ poll_cut cap2 (ls l2) (lq l2) = false end ->
  match lstep c cap1 l1 g, lstep c cap2 l2 g with
  | Some (a, ev1, _), Some (b, ev2, _) => lcore a = lcore b /\ ev1 = ev2
  | None, None => True
  | _, _ => False
  end.
Proof.
  unfold lcore. intros C P. injection C as C1 C2 C3 C4. destruct l1 as [s1 q1 k1 n1 h1], l2 as [s2 q2 k2 n2 h2].
  cbn in *. subst s2 q2 k2 n2. destruct g as [o|]; cbn [lstep ls lq lsk lnf lheld].
  - destruct P as [P1 P2]. unfold lskip. rewrite P1, P2. cbn [orb].
    destruct (send_op o); [auto|].
    destruct (main_handler c s1 o) as [[[sa ev] calls]|]; [|exact I].
    repeat match goal with |- context [if ?b then _ else _] => destruct b end; auto.
  - destruct P as [P1 P2]. rewrite (poll_uncut cap1 s1 cap2 q1 P1 P2).
    destruct (poll_events cap2 s1 q1) as [[dd [e|]] rest].
    2: { destruct (next_notif s1 n1) as [[p|] t]; repeat match goal with |- context [if ?b then _ else _] => destruct b end; auto. }
    + destruct (drain s1 [e]) as [[sa dr] killed].
      destruct e; destruct k1;
        match goal with |- context [kill_tasks ?x killed] => destruct (kill_tasks x killed) as [sb ev4] end;
        repeat match goal with |- context [if ?b then _ else _] => destruct b end; auto.
Qed.

Lemma lrun_cap c cap1 cap2 gs : forall l1 l2,
  lcore l1 = lcore l2 ->
  never_blocked c cap1 l1 gs = true -> never_blocked c cap2 l2 gs = true ->
  map (fun x => (lcore (fst (fst x)), snd (fst x))) (fst (lrun c cap1 l1 gs)) =
  map (fun x => (lcore (fst (fst x)), snd (fst x))) (fst (lrun c cap2 l2 gs)) /\
  snd (lrun c cap1 l1 gs) = snd (lrun c cap2 l2 gs).
Proof.
  induction gs as [|g t IH]; intros l1 l2 C N1 N2; cbn in *; auto.
  apply andb_true_iff in N1. destruct N1 as [N1 N1']. apply andb_true_iff in N2. destruct N2 as [N2 N2'].
  assert (P : match g with LOp _ => parked cap1 l1 = false /\ parked cap2 l2 = false
                         | LPoll => poll_cut cap1 (ls l1) (lq l1) = false /\ poll_cut cap2 (ls l2) (lq l2) = false end).
  { destruct g; split; now apply negb_true_iff. }
  pose proof (lstep_cap c cap1 cap2 l1 l2 g C P) as S.
  destruct (lstep c cap1 l1 g) as [[[a ev1] c1]|]; destruct (lstep c cap2 l2 g) as [[[b ev2] c2]|]; try tauto; auto.
  destruct S as [CA ->]. specialize (IH a b CA N1' N2').
  destruct (lrun c cap1 a t) as [r1 b1]. destruct (lrun c cap2 b t) as [r2 b2]. cbn in *.
  destruct IH as [IH1 IH2]. split; auto. rewrite CA, IH1. reflexivity.
Qed.
