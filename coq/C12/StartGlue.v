(* C12 — wire format, runner and trace oracle of the START stream (first number 9002). Definitions only.

   case  = 9002 auto_accept nops (kind a b c)*
     0 p Established | 1 p ConnectionClosed | 2 p inbound substream (new carrier) | 3 p the oldest open_substream
     request of p succeeds (new carrier) | 4 p ... fails | 5 id w t carrier id: w = 0 the remote writes frame t,
     1 the remote closes, 2 writes fail, 3 flushes complete | 6 _ order ONE poll of next_event (order = visiting order
     of the handshake service's map: digits base 5, key + 1, least significant first; key = 2 * peer + outbound) |
     7 p handle.open_substream | 8 p handle.close_substream | 9 p a send_validation_result | 10 every live Connection
     task is polled once | 11 ONE handle.next() | 12 p t handle.send_sync_notification(frame t) | 13 the user drops the NotificationHandle
   trace = 3, then per operation: result, dump
     result = code, or for 11: 0 | 1 p h | 2 p dir h | 3 p | 4 p err | 5 p t
     dump   = per peer (0, 1): state (5 numbers), in the handshake service (inbound, outbound), handle holds the
              sink, handle holds a validation; size of the handshake service (map + ready), tasks spawned, tasks
              alive, pending_outbound, events queued for the user, service calls (n, then kind p sid), carriers
              (n, then per carrier: unread frames, dropped, frames written (n, tags)) *)
From Coq Require Import List NArith Bool.
From V.common Require Import Wire.
From V.C12 Require Import Start.
Import ListNotations.
Open Scope N_scope.

Definition MARK : N := 9002.
Definition PANIC : N := 999999999.

Fixpoint dec_order (fuel : nat) (x : N) : list N :=
  match fuel with
  | O => []
  | S f => if x =? 0 then [] else (x mod 5 - 1) :: dec_order f (x / 5)
  end.

Definition okp (p : N) : bool := p <? 2.

Definition p_op : parser op :=
  let* k := pN in let* a := pN in let* b := pN in let* c := pN in
  match k with
  | 0 => if okp a then pret (OEst a) else pfail
  | 1 => if okp a then pret (OClosed_ a) else pfail
  | 2 => if okp a then pret (OSubIn a) else pfail
  | 3 => if okp a then pret (OSubOut a) else pfail
  | 4 => if okp a then pret (OFail a) else pfail
  | 5 => if (b <? 6) && (c <? 60000) && (a <? 4096)
         then pret (OEnv a (match b with 0 => EFrame c | 1 => EEof | 2 => EWerr | 3 => EFlush | 4 => EGate | _ => EUngate end))
         else pfail
  | 6 => pret (OPoll (map (fun k => (k / 2, N.odd k)) (dec_order 8 b)))
  | 7 => if okp a then pret (OUOpen a) else pfail
  | 8 => if okp a then pret (OUClose a) else pfail
  | 9 => if okp a then pret (OUVal a (negb (b =? 0))) else pfail
  | 10 => pret OTasks
  | 11 => pret OUPoll
  | 12 => if okp a && (b <? 60000) then pret (OUSend a b) else pfail
  | 13 => pret OUDrop
  | _ => pfail
  end.

Fixpoint p_ops (fuel : nat) : parser (list op) :=
  match fuel with
  | O => pret []
  | S f => fun l => match l with
                    | [] => Some ([], [])
                    | _ => (let* o := p_op in let* r := p_ops f in pret (o :: r)) l
                    end
  end.

(* the tags of the frames the remote writes and of the notifications the user sends are pairwise distinct:
   a delivered frame then names its carrier and its position *)
Definition tags_of (l : list op) : list N :=
  flat_map (fun o => match o with OEnv _ (EFrame t) => [t] | OUSend _ t => [t] | _ => [] end) l.
Fixpoint nodupb (l : list N) : bool :=
  match l with [] => true | x :: t => negb (existsb (N.eqb x) t) && nodupb t end.

Definition decode (l : list N) : option (bool * list op) :=
  match l with
  | m :: auto :: n :: body =>
      if (m =? MARK) && (N.of_nat (length body) =? 4 * n) then
        match pall (p_ops (length body)) body with
        | Some ops => if nodupb (tags_of ops) then Some (negb (auto =? 0), ops) else None
        | None => None
        end
      else None
  | _ => None
  end.

(* ---- encoding ---- *)
Definition enc_uev (e : uev) : list N :=
  match e with
  | UNone => [0]
  | UValidate p h => [1; p; h]
  | UOpened p d h => [2; p; b2n d; h]
  | UClosed p => [3; p]
  | UFail p e => [4; p; e]
  | UNotif p f => [5; p; f]
  end.
Definition enc_ores (r : ores) : list N := match r with RCode v => [v] | RUser e => enc_uev e end.

Definition enc_ps (x : option pstate) : list N :=
  match x with
  | None => [0; 0; 0; 0; 0]
  | Some (VPending b) => [2; b2n b; 0; 0; 0]
  | Some (Closed po) => [3; enc_opt po; 0; 0; 0]
  | Some (OutInit y) => [5; y; 0; 0; 0]
  | Some (Validating d o i) =>
      let '(ot, sd) := match o with OClosed => (0, 0) | OInit y => (1, y) | ONeg => (2, 0) | OOpen _ _ => (3, 0) end in
      let it := match i with IClosed => 0 | IReading => 1 | IValidating _ _ => 2 | ISending => 3 | IOpen _ => 4 end in
      [6; b2n d; ot; sd; it]
  | Some (Open _) => [7; 0; 0; 0; 0]
  end.

Definition some {A} (o : option A) : bool := match o with Some _ => true | None => false end.

(* every substream of the state, with "dropped" *)
Definition ps_subs (x : option pstate) : list sub :=
  match x with Some (Validating _ o i) => outb_subs o ++ inb_subs i | _ => [] end.
Definition ent_subs (x : option hent) : list sub := match x with Some e => [e_sub e] | None => [] end.
Definition sev_subs (e : sev) : list sub := match e with EvIn _ y | EvOut _ _ y => [y] | _ => [] end.
Definition all_subs (s : st) : list (sub * bool) :=
  map (fun y => (y, false))
      (flat_map sev_subs (sq s) ++
       flat_map (fun p => ent_subs (hin s p) ++ ent_subs (hout s p) ++ ps_subs (ps s p)) PEERS) ++
  flat_map (fun t => [(t_in t, match t_ph t with PCloseOut _ | PDone => true | _ => false end); (t_out t, negb (t_alive t))])
           (tasks s) ++
  map (fun y => (y, true)) (grave s).

Fixpoint find_sub (id : N) (l : list (sub * bool)) : option (sub * bool) :=
  match l with [] => None | (y, d) :: t => if s_id y =? id then Some (y, d) else find_sub id t end.

Fixpoint upto (n : nat) : list N := match n with O => [] | S m => upto m ++ [N.of_nat m] end.

Definition enc_car (l : list (sub * bool)) (id : N) : list N :=
  match find_sub id l with
  | Some (y, d) => [N.of_nat (length (s_wire y)); b2n d] ++ enc_list (fun f => [f]) (s_out y)
  | None => [0; 1; 0]
  end.

Definition dump (s : st) (cs : list call) : list N :=
  flat_map (fun p => enc_ps (ps s p) ++ [b2n (some (hin s p)); b2n (some (hout s p));
                                          b2n (some (hsink s p) && negb (hdrop s)); b2n (some (hval s p) && negb (hdrop s))]) PEERS ++
  [N.of_nat (length (flat_map (fun p => ent_subs (hin s p) ++ ent_subs (hout s p)) PEERS) + length (ready s));
   N.of_nat (length (tasks s)); N.of_nat (length (filter t_alive (tasks s)));
   N.of_nat (length (pend s)); N.of_nat (length (evq s))] ++
  enc_list (fun c => let '(a, b, d) := c in [a; b; d]) cs ++
  (ncar s :: flat_map (enc_car (all_subs s)) (upto (N.to_nat (ncar s)))).

Fixpoint run_trace (fx auto : bool) (s : st) (l : list op) : list N * bool :=
  match l with
  | [] => ([], stuck s)
  | o :: t =>
      let '(s1, r, c) := step fx auto s o in
      let '(rest, stk) := run_trace fx auto s1 t in
      (enc_ores r ++ dump s1 c ++ rest, stk)
  end.

Definition run_start (l : list N) : list N :=
  match decode l with
  | Some (auto, ops) =>
      let '(tr, stk) := run_trace true auto init ops in
      if stk then [3; PANIC] else 3 :: tr
  | None => [3; 78]
  end.

(* ================================================================== the oracle: the implementation trace alone *)
Record cdump := mkCD { cd_unread : N; cd_dropped : bool; cd_out : list N }.
(* sd_st: per peer, the tag of its state and the tag of its inbound half *)
Record sdump := mkSDump { sd_st : list (N * N); sd_ncar : N; sd_cars : list cdump }.

Definition p_car : parser cdump :=
  let* u := pN in let* d := pBool in let* w := plist pN in pret (mkCD u d w).
Definition p_dump : parser sdump :=
  let* sts := prep 2 (let* t := pN in let* _ := prep 3 pN in let* i := pN in let* _ := prep 4 pN in pret (t, i)) in
  let* _ := prep 5 pN in
  let* _ := plist (let* a := pN in let* b := pN in let* c := pN in pret (a, b, c)) in
  let* cars := plist p_car in pret (mkSDump sts (N.of_nat (length cars)) cars).
Definition p_ores (o : op) : parser ores :=
  match o with
  | OUPoll =>
      let* t := pN in
      match t with
      | 0 => pret (RUser UNone)
      | 1 => let* p := pN in let* h := pN in pret (RUser (UValidate p h))
      | 2 => let* p := pN in let* d := pBool in let* h := pN in pret (RUser (UOpened p d h))
      | 3 => let* p := pN in pret (RUser (UClosed p))
      | 4 => let* p := pN in let* e := pN in pret (RUser (UFail p e))
      | 5 => let* p := pN in let* f := pN in pret (RUser (UNotif p f))
      | _ => pfail
      end
  | _ => let* v := pN in pret (RCode v)
  end.
Fixpoint p_blocks (ops : list op) : parser (list (ores * sdump)) :=
  match ops with
  | [] => pret []
  | o :: r => let* v := p_ores o in let* d := p_dump in let* rest := p_blocks r in pret ((v, d) :: rest)
  end.

(* what the oracle knows about a carrier: whose it is, what the remote wrote on it, how many of the frames after
   the first were delivered, whether its first frame was reported for validation / with Opened *)
Record ocar := mkOC { oc_peer : peer; oc_in : bool; oc_hist : list frame; oc_del : N; oc_used : bool; oc_dropped : bool }.
(* o_prev: the peer states after the previous step; o_vsnap / o_osnap: per peer, for every ValidateSubstream /
   NotificationStreamOpened the protocol has queued and the user has not seen, which carriers were dropped when it
   was queued *)
Record ost := mkO { o_cars : list ocar; o_sent : peer -> list frame; o_ok : bool;
                    o_prev : list (N * N); o_vsnap : peer -> list (list bool); o_osnap : peer -> list (list bool) }.

Definition is_validating (x : N * N) : bool := (fst x =? 6) && (snd x =? 2).
Definition is_open (x : N * N) : bool := fst x =? 7.
Definition snap_live (snaps : list (list bool)) (ci : N) : bool :=
  match snaps with
  | sn :: _ => negb (nth (N.to_nat ci) sn true)
  | [] => false
  end.

Fixpoint index_of (t : N) (l : list N) (i : N) : option N :=
  match l with [] => None | x :: r => if x =? t then Some i else index_of t r (i + 1) end.

(* the carrier (and position) on which the remote wrote tag t *)
Fixpoint locate (t : N) (cs : list ocar) (ci : N) : option (N * N) :=
  match cs with
  | [] => None
  | c :: r => match index_of t (oc_hist c) 0 with Some i => Some (ci, i) | None => locate t r (ci + 1) end
  end.

Fixpoint upd_nth {A} (n : nat) (f : A -> A) (l : list A) : list A :=
  match l, n with
  | [], _ => []
  | x :: t, O => f x :: t
  | x :: t, S m => x :: upd_nth m f t
  end.

Fixpoint set_dropped (cs : list ocar) (ds : list cdump) : list ocar :=
  match cs, ds with
  | c :: r, d :: r' => mkOC (oc_peer c) (oc_in c) (oc_hist c) (oc_del c) (oc_used c) (cd_dropped d) :: set_dropped r r'
  | _, _ => cs
  end.

(* frames the local side wrote on a carrier: its handshake first and once, then notifications the user sent to
   that peer, in sending order *)
Fixpoint subseq_of (w sent : list N) : bool :=
  match w, sent with
  | [], _ => true
  | _ :: _, [] => false
  | x :: w', y :: s' => if x =? y then subseq_of w' s' else subseq_of w s'
  end.
Definition written_ok (c : ocar) (d : cdump) (sent : list frame) : bool :=
  match cd_out d with
  | [] => true
  | h :: rest => (h =? LOCAL_HS) && (if oc_in c then match rest with [] => true | _ => false end else subseq_of rest sent)
  end.

Definition o_step (o : ost) (x : op) (v : ores) (d : sdump) : ost :=
  (* a new carrier appears with SubIn / SubOut *)
  let cars :=
    if N.of_nat (length (o_cars o)) <? sd_ncar d then
      match x with
      | OSubIn p => o_cars o ++ [mkOC p true [] 0 false false]
      | OSubOut p => o_cars o ++ [mkOC p false [] 0 false false]
      | _ => o_cars o
      end
    else o_cars o in
  let cars := match x with
              | OEnv id (EFrame t) => upd_nth (N.to_nat id) (fun c => mkOC (oc_peer c) (oc_in c) (oc_hist c ++ [t]) (oc_del c)
                                                                             (oc_used c) (oc_dropped c)) cars
              | _ => cars
              end in
  let sent := match x, v with
              | OUSend p t, RCode 0 => upd (o_sent o) p (o_sent o p ++ [t])
              | _, _ => o_sent o
              end in
  let '(cars, ok) :=
    match v with
    | RUser (UNotif p t) =>
        (* a delivered notification is the next frame AFTER the first one of an inbound substream of that peer *)
        match locate t cars 0 with
        | Some (ci, i) =>
            match nth_error cars (N.to_nat ci) with
            | Some c =>
                (upd_nth (N.to_nat ci) (fun c => mkOC (oc_peer c) (oc_in c) (oc_hist c) (oc_del c + 1) (oc_used c) (oc_dropped c)) cars,
                 oc_in c && (oc_peer c =? p) && (i =? oc_del c + 1))
            | None => (cars, false)
            end
        | None => (cars, false)
        end
    | RUser (UValidate p h) =>
        (* the handshake offered for validation is the first frame of a live inbound substream of that peer, once *)
        match locate h cars 0 with
        | Some (ci, i) =>
            match nth_error cars (N.to_nat ci) with
            | Some c =>
                (upd_nth (N.to_nat ci) (fun c => mkOC (oc_peer c) (oc_in c) (oc_hist c) (oc_del c) true (oc_dropped c)) cars,
                 oc_in c && (oc_peer c =? p) && (i =? 0) && negb (oc_used c) && snap_live (o_vsnap o p) ci)
            | None => (cars, false)
            end
        | None => (cars, false)
        end
    | RUser (UOpened p _ h) =>
        match locate h cars 0 with
        | Some (ci, i) =>
            match nth_error cars (N.to_nat ci) with
            | Some c =>
                (upd_nth (N.to_nat ci) (fun c => mkOC (oc_peer c) (oc_in c) (oc_hist c) (oc_del c) true (oc_dropped c)) cars,
                 negb (oc_in c) && (oc_peer c =? p) && (i =? 0) && negb (oc_used c) && snap_live (o_osnap o p) ci)
            | None => (cars, false)
            end
        | None => (cars, false)
        end
    | _ => (cars, true)
    end in
  let wok := forallb (fun cd => written_ok (fst cd) (snd cd) (sent (oc_peer (fst cd)))) (combine cars (sd_cars d)) in
  let drops := map cd_dropped (sd_cars d) in
  let vs := match v with RUser (UValidate p _) => upd (o_vsnap o) p (tl (o_vsnap o p)) | _ => o_vsnap o end in
  let os := match v with RUser (UOpened p _ _) => upd (o_osnap o) p (tl (o_osnap o p)) | _ => o_osnap o end in
  let became (f : N * N -> bool) (p : peer) :=
    f (nth (N.to_nat p) (sd_st d) (0, 0)) && negb (f (nth (N.to_nat p) (o_prev o) (0, 0))) in
  let push (snaps : peer -> list (list bool)) (f : N * N -> bool) :=
    fun p => if became f p then snaps p ++ [drops] else snaps p in
  mkO (set_dropped cars (sd_cars d)) sent (o_ok o && ok && wok && (N.of_nat (length cars) =? sd_ncar d))
      (sd_st d) (push vs is_validating) (push os is_open).

Fixpoint o_run (o : ost) (ops : list op) (tr : list (ores * sdump)) : ost :=
  match ops, tr with
  | x :: ops', (v, d) :: tr' => o_run (o_step o x v d) ops' tr'
  | _, _ => o
  end.

Definition prop_start (case trace : list N) : bool :=
  match decode case with
  | Some (_, ops) =>
      match trace with
      | 3 :: body =>
          match pall (p_blocks ops) body with
          | Some tr => o_ok (o_run (mkO [] (fun _ => []) true [] (fun _ => []) (fun _ => [])) ops tr)
          | None => false
          end
      | _ => false
      end
  | None => match trace with [3; 78] => true | _ => false end
  end.
