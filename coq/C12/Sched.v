(* C12 — single-call specifications, ForceClose, the quiescence stream as a derived schedule. *)
From Coq Require Import List NArith Bool Lia.
From Coq Require Import ZifyBool ZifyNat ZifyN.
From V.C12 Require Import Model Proofs Inv2 Async.
Import ListNotations.
Open Scope N_scope.
Arguments N.add : simpl never.
Arguments N.sub : simpl never.
Arguments N.eqb : simpl never.
Arguments N.ltb : simpl never.
Arguments N.leb : simpl never.
Arguments N.of_nat : simpl never.
Arguments N.to_nat : simpl never.

(* ------------------------------------------------------------------ the synchronous send *)
Lemma send_sync_spec c x s t l :
  let '(s', r) := send_sync c x s t l in
  gep s' (negb x) = gep s (negb x) /\ lAB s' = lAB s /\ lBA s' = lBA s /\
  e_ws (hn s' x) = e_ws (hn s x) /\ e_aq (cn s' x) = e_aq (cn s x) /\
  match e_peers (hn s x) with
  | None => r = 3 /\ s' = s
  | Some k =>
      if live s x k then
        if len (e_sq (cn s x)) <? c_s (ecf c x)
        then r = 0 /\ e_sq (cn s' x) = e_sq (cn s x) ++ [mkN x k true t l] /\
             e_acc (gl s' x) = e_acc (gl s x) ++ [mkN x k true t l] /\
             e_fclog (gl s' x) = e_fclog (gl s x) /\ e_cmds (hn s' x) = e_cmds (hn s x)
        else r = 1 /\ cn s' x = cn s x /\ e_acc (gl s' x) = e_acc (gl s x) /\ e_clog (hn s' x) = true /\
             (if e_clog (hn s x) || negb (e_cmds (hn s x) <? c_c (ecf c x))
              then e_fclog (gl s' x) = e_fclog (gl s x) /\ e_cmds (hn s' x) = e_cmds (hn s x)
              else e_fclog (gl s' x) = e_fclog (gl s x) ++ [k] /\ e_cmds (hn s' x) = e_cmds (hn s x) + 1)
      else r = 2 /\ s' = s
  end.
Proof.
  unfold send_sync, cn, hn, gl. destruct (e_peers (eh (gep s x))) as [k|] eqn:Ep.
  - destruct (live s x k).
    + destruct (len (e_sq (ec (gep s x))) <? c_s (ecf c x)).
      * destruct x; cbn; repeat split; reflexivity.
      * destruct (e_clog (eh (gep s x))) eqn:Ec; cbn [orb].
        -- destruct x; cbn; repeat split; try reflexivity; assumption.
        -- destruct (e_cmds (eh (gep s x)) <? c_c (ecf c x)); cbn [negb];
             destruct x; cbn; repeat split; reflexivity.
    + destruct x; cbn; repeat split; reflexivity.
  - destruct x; cbn; repeat split; reflexivity.
Qed.

(* the same call on a clone of the sink, without the handle *)
Lemma sink_sync_spec c x s k t l :
  let '(s', r) := sink_sync c x s k t l in
  gep s' (negb x) = gep s (negb x) /\ lAB s' = lAB s /\ lBA s' = lBA s /\
  hn s' x = hn s x /\ e_aq (cn s' x) = e_aq (cn s x) /\
  e_fclog (gl s' x) = e_fclog (gl s x) /\
  if live s x k then
    if len (e_sq (cn s x)) <? c_s (ecf c x)
    then r = 0 /\ e_sq (cn s' x) = e_sq (cn s x) ++ [mkN x k true t l] /\
         e_acc (gl s' x) = e_acc (gl s x) ++ [mkN x k true t l]
    else r = 1 /\ s' = s
  else r = 2 /\ s' = s.
Proof.
  unfold sink_sync, cn, hn, gl. destruct (live s x k).
  - destruct (len (e_sq (ec (gep s x))) <? c_s (ecf c x)); destruct x; cbn; repeat split; reflexivity.
  - destruct x; cbn; repeat split; reflexivity.
Qed.

(* ------------------------------------------------------------------ the asynchronous send *)
Lemma set_async_proj x aq ws acc ok err s :
  let s' := set_async x aq ws acc ok err s in
  gep s' (negb x) = gep s (negb x) /\ lAB s' = lAB s /\ lBA s' = lBA s /\
  e_aq (cn s' x) = aq /\ e_ws (hn s' x) = ws /\ e_acc (gl s' x) = acc /\
  e_sq (cn s' x) = e_sq (cn s x) /\ e_alive (cn s' x) = e_alive (cn s x) /\ e_per (cn s' x) = e_per (cn s x).
Proof. destruct x; cbn; repeat split; reflexivity. Qed.

Lemma async_start_spec c x s id t l :
  let '(s', r) := async_start c x s id t l in
  gep s' (negb x) = gep s (negb x) /\ lAB s' = lAB s /\ lBA s' = lBA s /\ e_sq (cn s' x) = e_sq (cn s x) /\
  match find_w id (e_ws (hn s x)) with
  | Some _ => r = 5 /\ s' = s
  | None =>
      match e_peers (hn s x) with
      | None => r = 3 /\ s' = s
      | Some k =>
          let n := mkN x k false t l in
          if live s x k then
            if 0 <? afree (ecf c x) (cn s x) (e_ws (hn s x))
            then r = 0 /\ e_aq (cn s' x) = e_aq (cn s x) ++ [n] /\ e_ws (hn s' x) = e_ws (hn s x) /\
                 e_acc (gl s' x) = e_acc (gl s x) ++ [n]
            else r = 4 /\ e_aq (cn s' x) = e_aq (cn s x) /\ e_ws (hn s' x) = e_ws (hn s x) ++ [mkW id n false] /\
                 e_acc (gl s' x) = e_acc (gl s x)
          else r = 2 /\ e_aq (cn s' x) = e_aq (cn s x) /\ e_ws (hn s' x) = e_ws (hn s x) /\
               e_acc (gl s' x) = e_acc (gl s x)
      end
  end.
Proof.
  unfold async_start. fold (cn s x) (hn s x) (gl s x).
  destruct (find_w id (e_ws (hn s x))); [repeat split; reflexivity|].
  destruct (e_peers (hn s x)) as [k|]; [|repeat split; reflexivity].
  cbn zeta. destruct (live s x k); [destruct (0 <? afree _ _ _)|];
    match goal with |- context [set_async x ?a ?b ?c ?d ?e s] =>
      pose proof (set_async_proj x a b c d e s) as P; cbn zeta in P end; tauto.
Qed.

Lemma async_poll_spec x s id :
  let '(s', r) := async_poll x s id in
  gep s' (negb x) = gep s (negb x) /\ lAB s' = lAB s /\ lBA s' = lBA s /\ e_sq (cn s' x) = e_sq (cn s x) /\
  match find_w id (e_ws (hn s x)) with
  | None => r = 5 /\ s' = s
  | Some w =>
      if wlive (cn s x) w then
        if w_asg w
        then r = 0 /\ e_aq (cn s' x) = e_aq (cn s x) ++ [w_n w] /\ e_acc (gl s' x) = e_acc (gl s x) ++ [w_n w] /\
             e_ws (hn s' x) = remove_w id (e_ws (hn s x))
        else r = 4 /\ s' = s
      else r = 2 /\ e_aq (cn s' x) = e_aq (cn s x) /\ e_acc (gl s' x) = e_acc (gl s x) /\
           e_ws (hn s' x) = remove_w id (e_ws (hn s x))
  end.
Proof.
  unfold async_poll. fold (cn s x) (hn s x) (gl s x).
  destruct (find_w id (e_ws (hn s x))) as [w|]; [|repeat split; reflexivity].
  destruct (wlive (cn s x) w); cbn [negb]; [destruct (w_asg w)|]; try (repeat split; reflexivity);
    match goal with |- context [set_async x ?a ?b ?c ?d ?e s] =>
      pose proof (set_async_proj x a b c d e s) as P; cbn zeta in P end; tauto.
Qed.

(* a sender waits exactly when queue and permit holders fill the capacity *)
Lemma async_waits_iff c s x : InvW c s x ->
  (afree (ecf c x) (cn s x) (e_ws (hn s x)) = 0 <->
   len (e_aq (cn s x)) + held (cn s x) (e_ws (hn s x)) = c_a (ecf c x)).
Proof.
  intros [C _ _]. unfold afree. rewrite held_asg in *. lia.
Qed.

(* dropping a future that holds a permit: the permit goes to the first waiting sender of the live
   stream, or becomes free again if nobody waits *)
Lemma existsb_filter {A} (f : A -> bool) l : existsb f l = negb (len (filter f l) =? 0).
Proof.
  induction l as [|a l IH]; cbn; [reflexivity|]. destruct (f a); cbn.
  - rewrite len_cons. destruct (len (filter f l) + 1 =? 0) eqn:E; [lia|reflexivity].
  - exact IH.
Qed.

Lemma drop_returns_permit c x s id w : InvW c s x ->
  find_w id (e_ws (hn s x)) = Some w -> w_asg w = true -> wlive (cn s x) w = true ->
  let s' := fst (async_drop c x s id) in
  e_aq (cn s' x) = e_aq (cn s x) /\ e_acc (gl s' x) = e_acc (gl s x) /\
  if existsb (ua (e_per (cn s x)) (e_alive (cn s x))) (e_ws (hn s x))
  then held (cn s' x) (e_ws (hn s' x)) = held (cn s x) (e_ws (hn s x)) /\
       afree (ecf c x) (cn s' x) (e_ws (hn s' x)) = afree (ecf c x) (cn s x) (e_ws (hn s x))
  else held (cn s' x) (e_ws (hn s' x)) + 1 = held (cn s x) (e_ws (hn s x)) /\
       afree (ecf c x) (cn s' x) (e_ws (hn s' x)) = afree (ecf c x) (cn s x) (e_ws (hn s x)) + 1.
Proof.
  intros [C S W] Hf Hg Hl. unfold async_drop. fold (cn s x) (hn s x) (gl s x). rewrite Hf. cbn [fst].
  match goal with |- context [set_async x ?a ?b ?c ?d ?e s] =>
    pose proof (set_async_proj x a b c d e s) as P; cbn zeta in P end.
  destruct P as (_ & _ & _ & Eaq & Ews & Eacc & _ & Eal & Epe).
  cbn zeta. split; [exact Eaq|]. split; [exact Eacc|].
  set (p := e_per (cn s x)) in *. set (al := e_alive (cn s x)) in *.
  unfold afree. rewrite !held_asg. rewrite Eaq, Ews, Eal, Epe. fold p al.
  destruct (find_remove _ _ _ Hf) as (a & b & E1 & E2).
  assert (Ha : asg p al w = true) by (unfold asg; rewrite Hg; exact Hl).
  assert (Hu : ua p al w = false) by (unfold ua; now rewrite Hg).
  set (ws := e_ws (hn s x)) in *. set (ws1 := remove_w id ws) in *.
  assert (EA : len (filter (asg p al) ws) = len (filter (asg p al) ws1) + 1).
  { rewrite E2, E1. rewrite !filter_app. cbn [filter]. rewrite Ha. rewrite !len_app, len_cons. lia. }
  assert (EU : filter (ua p al) ws = filter (ua p al) ws1).
  { rewrite E2, E1. rewrite !filter_app. cbn [filter]. now rewrite Hu. }
  unfold rebalance.
  destruct (assign_counts (cn s x) ws1 (N.to_nat (afree (ecf c x) (cn s x) ws1))) as [A B]. fold p al in A, B.
  assert (Ek : afree (ecf c x) (cn s x) ws1 = c_a (ecf c x) - len (e_aq (cn s x)) - len (filter (asg p al) ws1)) by reflexivity.
  rewrite existsb_filter. rewrite EU.
  unfold len in *. rewrite A.
  destruct (N.of_nat (length (filter (ua p al) ws1)) =? 0) eqn:E0; cbn [negb].
  - split; lia.
  - assert (Hfull : ~ (N.of_nat (length (e_aq (cn s x))) + N.of_nat (length (filter (asg p al) ws)) < c_a (ecf c x))).
    { intros Hlt. specialize (W Hlt). apply forall_filter_nil in W. rewrite EU in W.
      rewrite W in E0. cbn in E0. lia. }
    split; lia.
Qed.

(* ------------------------------------------------------------------ reading needs a slot *)
Lemma close_frame x nfy s :
  glo (close x nfy s) (negb x) = glo s (negb x) /\ e_nq (hn (close x nfy s) x) = e_nq (hn s x).
Proof. destruct x; split; reflexivity. Qed.

Lemma reserve_phase_noslot c x b s : can_reserve c x s = false ->
  let '(s2, go, b2) := reserve_phase c x b s in
  go = false /\ glo s2 (negb x) = glo s (negb x) /\ e_nq (hn s2 x) = e_nq (hn s x).
Proof.
  intros Hc. unfold reserve_phase. rewrite Hc.
  assert (E : e_res (ec (gep s x)) = false).
  { unfold can_reserve in Hc. apply orb_false_iff in Hc. tauto. }
  rewrite E. cbn [andb]. destruct (0 <? b); repeat split; auto; destruct x; reflexivity.
Qed.

Lemma read_needs_slot c x b s : e_alive (cn s x) = true -> can_reserve c x s = false ->
  let s' := conn_poll c x b s in
  carrier (glo s' (negb x)) = carrier (glo s (negb x)) /\ e_nq (hn s' x) = e_nq (hn s x).
Proof.
  intros Ha Hc. cbn zeta. unfold conn_poll. fold (cn s x). rewrite Ha. cbn [conn_loop]. fold (cn s x).
  destruct (e_shut (cn s x) && (0 <? b)); [destruct (close_frame x false s) as [A B]; now rewrite A, B|].
  destruct (killed s); [destruct (close_frame x true s) as [A B]; now rewrite A, B|].
  pose proof (out_phase_frame c x b s Ha) as F. cbn zeta in F.
  destruct (out_phase c x b s) as [s1 refused]. cbn [fst] in F.
  destruct F as (_ & _ & _ & _ & _ & Fg & _ & _ & _ & Fn & _ & _ & Fr & _).
  assert (Hc1 : can_reserve c x s1 = false).
  { unfold can_reserve in *. fold (cn s1 x) (hn s1 x). fold (cn s x) (hn s x) in Hc. now rewrite Fr, Fn. }
  destruct refused.
  - destruct (close_frame x true s1) as [A B]. now rewrite A, B, Fg, Fn.
  - pose proof (reserve_phase_noslot c x (b - (qlen s x - qlen s1 x)) s1 Hc1) as R.
    destruct (reserve_phase c x _ s1) as [[s2 go] b2]. destruct R as (Eg & G & Q). subst go. cbn [negb].
    now rewrite G, Q, Fg, Fn.
Qed.

(* ------------------------------------------------------------------ ForceClose *)
Lemma conn_poll_kp c x b s : killed (conn_poll c x b s) = killed s /\ per (conn_poll c x b s) = per s.
Proof.
  unfold conn_poll. fold (cn s x). destruct (e_alive (cn s x)) eqn:Ea; [|split; reflexivity].
  apply (conn_loop_gen (fun s' => killed s' = killed s /\ per s' = per s)); auto.
  - intros s0 nfy [A B] _. destruct x; cbn; split; assumption.
  - intros s0 b0 [A B] Ha0 _. pose proof (out_phase_frame c x b0 s0 Ha0) as F. cbn zeta in F.
    destruct (out_phase c x b0 s0) as [s1 [|]]; cbn [fst] in F; destruct F as (_ & Fk & Fp & _).
    + destruct x; cbn; split; congruence.
    + split; congruence.
  - intros s0 [A B] _ _. destruct x; cbn; split; assumption.
  - intros s0 [A B] _ _. destruct x; cbn; split; assumption.
  - intros s0 n rest [A B] _ _ _ _ _ _. destruct x; cbn; split; assumption.
Qed.

Lemma kill_closes c z b s : killed s = true -> e_alive (cn (conn_poll c z b s) z) = false.
Proof.
  intros Hk. unfold conn_poll. fold (cn s z). destruct (e_alive (cn s z)) eqn:Ea; [|exact Ea].
  cbn [conn_loop]. fold (cn s z). destruct (e_shut (cn s z) && (0 <? b)); [destruct z; reflexivity|].
  rewrite Hk. destruct z; reflexivity.
Qed.

Lemma do_step_per c s t : per s <= per (fst (do_step c s t)).
Proof.
  destruct t; cbn [do_step].
  - unfold send_sync. destruct (e_peers _); [|cbn; lia]. destruct (live s x n); [|cbn; lia].
    destruct (_ <? _); [destruct x; cbn; lia|]. destruct (e_clog _); [cbn; lia|].
    destruct (_ <? _); destruct x; cbn; lia.
  - unfold async_start. destruct (find_w id _); [cbn; lia|]. destruct (e_peers _); [|cbn; lia].
    destruct (live s x n); [destruct (0 <? afree _ _ _)|]; destruct x; cbn; lia.
  - unfold async_poll. destruct (find_w id _) as [w|]; [|cbn; lia].
    destruct (negb (wlive _ w)); [|destruct (w_asg w)]; destruct x; cbn; lia.
  - unfold async_drop. destruct (find_w id _) as [w|]; [|cbn; lia]. destruct x; cbn; lia.
  - cbn [fst]. destruct (conn_poll_kp c x budget s) as [_ E]. lia.
  - unfold h_poll, h_poll_gen. destruct (budget =? 0); [cbn; lia|].
    destruct (e_evs (eh (gep s x))) as [|[k|k] es]; cbn [fst].
    + destruct (h_scan _ _ _ _) as [r q]. destruct r; cbn [fst]; unfold hand_over;
        match goal with |- context [if ?g then _ else _] => destruct g end; destruct x; cbn; lia.
    + destruct x; cbn; lia.
    + destruct x; cbn; lia.
  - unfold open_stream. destruct (e_alive _); [cbn; lia|]. destruct (_ <? _); [destruct x; cbn; lia|].
    destruct (_ && _); [destruct x; cbn; lia|cbn; lia].
  - destruct (e_alive _); destruct x; cbn; lia.
  - destruct (_ =? 0); [cbn; lia|destruct x; cbn; lia].
  - destruct (_ =? 0); [cbn; lia|destruct x; cbn; lia].
  - destruct x; cbn; lia.
  - destruct (per s =? 0); cbn; lia.
  - unfold sink_sync. destruct (live s x k); [|cbn; lia]. destruct (_ <? _); [destruct x; cbn; lia|cbn; lia].
Qed.

Lemma do_step_killed c s t : killed s = true -> per (fst (do_step c s t)) = per s ->
  killed (fst (do_step c s t)) = true.
Proof.
  intros Hk. destruct t; cbn [do_step].
  - unfold send_sync. destruct (e_peers _); [|cbn; auto]. destruct (live s x n); [|cbn; auto].
    destruct (_ <? _); [destruct x; cbn; auto|]. destruct (e_clog _); [cbn; auto|].
    destruct (_ <? _); destruct x; cbn; auto.
  - unfold async_start. destruct (find_w id _); [cbn; auto|]. destruct (e_peers _); [|cbn; auto].
    destruct (live s x n); [destruct (0 <? afree _ _ _)|]; destruct x; cbn; auto.
  - unfold async_poll. destruct (find_w id _) as [w|]; [|cbn; auto].
    destruct (negb (wlive _ w)); [|destruct (w_asg w)]; destruct x; cbn; auto.
  - unfold async_drop. destruct (find_w id _) as [w|]; [|cbn; auto]. destruct x; cbn; auto.
  - cbn [fst]. destruct (conn_poll_kp c x budget s) as [E _]. congruence.
  - unfold h_poll, h_poll_gen. destruct (budget =? 0); [cbn; auto|].
    destruct (e_evs (eh (gep s x))) as [|[k|k] es]; cbn [fst].
    + destruct (h_scan _ _ _ _) as [r q]. destruct r; cbn [fst]; unfold hand_over;
        match goal with |- context [if ?g then _ else _] => destruct g end; destruct x; cbn; auto.
    + destruct x; cbn; auto.
    + destruct x; cbn; auto.
  - unfold open_stream. destruct (e_alive _); [cbn; auto|]. destruct (_ <? _); [destruct x; cbn; auto|].
    destruct (_ && _); [destruct x; cbn; lia|cbn; auto].
  - destruct (e_alive _); destruct x; cbn; auto.
  - destruct (_ =? 0); [cbn; auto|destruct x; cbn; auto].
  - destruct (_ =? 0); [cbn; auto|destruct x; cbn; auto].
  - destruct x; cbn; auto.
  - destruct (per s =? 0); cbn; auto.
  - unfold sink_sync. destruct (live s x k); [|cbn; auto]. destruct (_ <? _); [destruct x; cbn; auto|cbn; auto].
Qed.

Lemma run_app c : forall ts1 ts2 s, fst (run c s (ts1 ++ ts2)) = fst (run c (fst (run c s ts1)) ts2).
Proof.
  induction ts1 as [|t ts1 IH]; intros ts2 s; cbn [run app]; [reflexivity|].
  destruct (do_step c s t) as [s1 v]. specialize (IH ts2 s1).
  destruct (run c s1 (ts1 ++ ts2)) as [s2 vs]. destruct (run c s1 ts1) as [s3 vs3]. cbn [fst] in *. exact IH.
Qed.

Lemma run_per c : forall ts s, per s <= per (fst (run c s ts)).
Proof.
  induction ts as [|t ts IH]; intros s; cbn [run]; [cbn; lia|].
  pose proof (do_step_per c s t) as P. destruct (do_step c s t) as [s1 v]. specialize (IH s1).
  destruct (run c s1 ts) as [s2 vs]. cbn [fst] in *. lia.
Qed.

Lemma run_killed c : forall ts s, killed s = true -> per (fst (run c s ts)) = per s ->
  killed (fst (run c s ts)) = true.
Proof.
  induction ts as [|t ts IH]; intros s Hk Hp; cbn [run] in *; [exact Hk|].
  pose proof (do_step_per c s t) as P1. pose proof (do_step_killed c s t Hk) as K1.
  destruct (do_step c s t) as [s1 v]. pose proof (run_per c ts s1) as P2. specialize (IH s1).
  destruct (run c s1 ts) as [s2 vs]. cbn [fst] in *.
  assert (E1 : per s1 = per s) by lia. apply IH; [apply K1; exact E1|lia].
Qed.

(* once the protocol has executed a ForceClose, every later poll of either Connection task of that
   period ends it, whatever else happens in between *)
Lemma force_close_closes c s x ts z b :
  e_cmds (hn s x) <> 0 ->
  let s' := fst (run c s (SCmd x :: ts ++ [SConn z b])) in
  per s' = per s -> e_alive (cn s' z) = false.
Proof.
  intros Hc. cbn zeta. cbn [run do_step]. fold (hn s x).
  destruct (e_cmds (hn s x) =? 0) eqn:E0; [lia|].
  set (s1 := kill _).
  assert (K1 : killed s1 = true) by reflexivity.
  assert (P1 : per s1 = per s) by (unfold s1; destruct x; reflexivity).
  pose proof (run_app c ts [SConn z b] s1) as RA.
  destruct (run c s1 (ts ++ [SConn z b])) as [s3 vs3]. cbn [fst] in *. subst s3.
  pose proof (run_per c ts s1) as Q1.
  set (s2 := fst (run c s1 ts)) in *.
  cbn [run do_step fst]. intros Hp.
  destruct (conn_poll_kp c z b s2) as [_ Ep].
  apply kill_closes. apply run_killed; [exact K1|]. fold s2. lia.
Qed.

(* ------------------------------------------------------------------ the quiescence stream is a schedule *)
Definition reach (c : cfg) (s s' : st) : Prop := exists ts, s' = fst (run c s ts).

Lemma reach_refl c s : reach c s s.
Proof. exists []. reflexivity. Qed.

Lemma reach_trans c s1 s2 s3 : reach c s1 s2 -> reach c s2 s3 -> reach c s1 s3.
Proof. intros [a ->] [b ->]. exists (a ++ b). now rewrite run_app. Qed.

Lemma reach_step c s t : reach c s (fst (do_step c s t)).
Proof. exists [t]. cbn [run]. destruct (do_step c s t). reflexivity. Qed.

Lemma reach_conn c x b s : reach c s (conn_poll c x b s).
Proof. exact (reach_step c s (SConn x b)). Qed.

Lemma reach_apoll c x s id : reach c s (fst (async_poll x s id)).
Proof.
  pose proof (reach_step c s (SAsyncPoll x id)) as R. cbn [do_step] in R.
  destruct (async_poll x s id). exact R.
Qed.

Lemma reach_hpoll c x b s : reach c s (fst (h_poll c x b s)).
Proof.
  pose proof (reach_step c s (SHandle x b)) as R. cbn [do_step] in R.
  destruct (h_poll c x b s). exact R.
Qed.

Lemma reach_open c x s : reach c s (fst (open_stream x s)).
Proof.
  pose proof (reach_step c s (SOpen x)) as R. cbn [do_step] in R.
  destruct (open_stream x s). exact R.
Qed.

Lemma reach_poll_ids c x : forall ids s prog, reach c s (fst (poll_ids x ids s prog)).
Proof.
  induction ids as [|id t IH]; intros s prog; cbn [poll_ids]; [apply reach_refl|].
  pose proof (reach_apoll c x s id) as R. destruct (async_poll x s id) as [s1 r]. cbn [fst] in R.
  eapply reach_trans; [exact R|apply IH].
Qed.

Lemma reach_poll_woken c x s : reach c s (fst (poll_woken x s)).
Proof. apply reach_poll_ids. Qed.

Lemma reach_poll_b c s : reach c s (poll_b c s).
Proof. unfold poll_b. destruct (b_woken c s); [apply reach_conn|apply reach_refl]. Qed.

Lemma reach_rounds c : forall fuel s, reach c s (rounds fuel c s).
Proof.
  induction fuel as [|f IH]; intros s; cbn [rounds]; [apply reach_refl|].
  pose proof (reach_conn c true BIG s) as R1. set (s1 := conn_poll c true BIG s) in *.
  pose proof (reach_poll_woken c true s1) as R2. destruct (poll_woken true s1) as [s2 prog]. cbn [fst] in R2.
  pose proof (reach_poll_b c s2) as R3. set (s3 := poll_b c s2) in *.
  assert (R : reach c s s3) by (eapply reach_trans; [exact R1|eapply reach_trans; [exact R2|exact R3]]).
  destruct prog; [eapply reach_trans; [exact R|apply IH]|].
  destruct (_ && _); [|exact R].
  eapply reach_trans; [exact R|]. eapply reach_trans; [apply (reach_conn c true BIG)|apply reach_poll_woken].
Qed.

Lemma reach_settle c s : reach c s (settle c s).
Proof. unfold settle. eapply reach_trans; [apply reach_poll_b|apply reach_rounds]. Qed.

Lemma reach_drain_x c x : forall fuel s, reach c s (drain_x fuel c x s).
Proof.
  induction fuel as [|f IH]; intros s; cbn [drain_x]; [apply reach_refl|].
  eapply reach_trans; [apply (reach_step c s (SCmdFail x))|apply IH].
Qed.

Lemma reach_drain_cmds c s : reach c s (drain_cmds c s).
Proof. unfold drain_cmds. eapply reach_trans; apply reach_drain_x. Qed.

Lemma reach_drain_a c : forall fuel s acc, reach c s (fst (drain_a c fuel s acc)).
Proof.
  induction fuel as [|f IH]; intros s acc; cbn [drain_a]; [apply reach_refl|].
  pose proof (reach_hpoll c true BIG s) as R. destruct (h_poll c true BIG s) as [s1 e]. cbn [fst] in R.
  destruct e; try exact R; (eapply reach_trans; [exact R|apply IH]).
Qed.

Lemma reach_act c i s a : reach c s (fst (act c i s a)).
Proof.
  destruct a; cbn [act].
  - pose proof (reach_step c s (SSync true tag ln)) as R. destruct (do_step c s (SSync true tag ln)). exact R.
  - pose proof (reach_step c s (SAsyncStart true i tag ln)) as R. destruct (do_step c s (SAsyncStart true i tag ln)). exact R.
  - pose proof (reach_step c s (SGate true w r)) as R. destruct (do_step c s (SGate true w r)). exact R.
  - pose proof (reach_hpoll c false BIG s) as R. destruct (h_poll c false BIG s). exact R.
  - pose proof (reach_drain_a c (S (length (e_evs (eh (gep s true))) + length (e_nq (eh (gep s true))))) s []) as R.
    destruct (drain_a c _ s []). exact R.
  - pose proof (reach_step c s (SClose true)) as R. destruct (do_step c s (SClose true)). exact R.
  - pose proof (reach_step c s (SClose false)) as R. destruct (do_step c s (SClose false)). exact R.
  - destruct (_ || _); [|apply reach_refl].
    pose proof (reach_step c s SKill) as R. destruct (do_step c s SKill). exact R.
  - destruct (_ || _); [apply reach_refl|].
    pose proof (reach_open c false s) as R1. destruct (open_stream false s) as [s1 r1]. cbn [fst] in R1.
    pose proof (reach_open c true s1) as R2. destruct (open_stream true s1) as [s2 r2]. cbn [fst] in *.
    eapply reach_trans; eassumption.
Qed.

Lemma reach_astep c i s a : reach c s (fst (astep c i s a)).
Proof.
  unfold astep. pose proof (reach_act c i s a) as R. destruct (act c i s a) as [s1 r]. cbn [fst] in *.
  eapply reach_trans; [exact R|]. eapply reach_trans; [apply reach_settle|apply reach_drain_cmds].
Qed.

(* the state after a script of the quiescence stream *)
Fixpoint arun (c : cfg) (i : N) (s : st) (xs : list action) : st :=
  match xs with
  | [] => s
  | a :: t => arun c (i + 1) (fst (astep c i s a)) t
  end.

Lemma reach_arun c : forall xs i s, reach c s (arun c i s xs).
Proof.
  induction xs as [|a t IH]; intros i s; cbn [arun]; [apply reach_refl|].
  eapply reach_trans; [apply reach_astep|apply IH].
Qed.

Lemma quiescence_is_a_schedule c hs xs : exists ts, arun c 0 (init hs) xs = final c hs ts.
Proof. destruct (reach_arun c xs 0 (init hs)) as [ts E]. exists ts. exact E. Qed.

(* ------------------------------------------------------------------ the two directions *)
(* a sending call of endpoint x does not touch anything the reverse direction depends on *)
Definition is_send_of (x : bool) (t : step) : bool :=
  match t with
  | SSync y _ _ | SAsyncStart y _ _ _ | SAsyncPoll y _ | SAsyncDrop y _ | SSinkSync y _ _ _ => Bool.eqb x y
  | _ => false
  end.

Lemma sends_leave_reverse_direction c s t x : is_send_of x t = true ->
  dview (fst (do_step c s t)) (negb x) = dview s (negb x).
Proof.
  destruct t; cbn [is_send_of]; try discriminate; intros E; apply eqb_prop in E; subst x0; cbn [do_step].
  - unfold send_sync. destruct (e_peers (eh (gep s x))) as [k|] eqn:Epe; [|reflexivity].
    destruct (live s x k); [|reflexivity].
    destruct (_ <? _); cbn [fst].
    + destruct x; cbn; unfold dview, cn, hn, gl; cbn in *; rewrite ?Epe; reflexivity.
    + destruct (e_clog _); [reflexivity|].
      destruct (_ <? _); cbn [fst]; destruct x; cbn; unfold dview, cn, hn, gl; cbn in *; rewrite ?Epe; reflexivity.
  - unfold async_start. destruct (find_w id _); [reflexivity|]. destruct (e_peers _); [|reflexivity].
    destruct (live s x n); [destruct (0 <? afree _ _ _)|]; cbn [fst]; apply set_async_dview_y.
  - unfold async_poll. destruct (find_w id _) as [w|]; [|reflexivity].
    destruct (negb (wlive _ w)); [|destruct (w_asg w)]; cbn [fst]; try reflexivity; apply set_async_dview_y.
  - unfold async_drop. destruct (find_w id _) as [w|]; [|reflexivity]. cbn [fst]. apply set_async_dview_y.
  - unfold sink_sync. destruct (live s x k); [|reflexivity]. destruct (_ <? _); cbn [fst]; [|reflexivity].
    destruct x; cbn; unfold dview, cn, hn, gl; cbn in *; reflexivity.
Qed.

(* ------------------------------------------------------------------ the unrepaired handle filter *)
(* With the filter of the original code (`peers.contains_key(&peer)`), a notification of stream 1 that
   is still queued when the stream is closed and reopened is reported as part of stream 2. *)
Definition refute_cfg : cfg := mkCfg (mkEC 2 2 4 2 64) (mkEC 2 2 4 2 64).
Definition refute_steps : list step :=
  [SOpen true; SOpen false; SHandle true 128; SHandle false 128;
   SSync true 7 8; SConn true BIG; SConn false BIG;          (* the notification reaches B's channel *)
   SClose false; SConn false BIG; SConn true BIG;             (* both Connections of stream 1 end *)
   SOpen true; SOpen false;                           (* stream 2 *)
   SHandle false 128; SHandle false 128].             (* B's user sees Closed, Opened 2 *)

Lemma unrepaired_filter_refuted :
  let s := final refute_cfg [] refute_steps in
  e_peers (hn s false) = Some 2 /\
  snd (h_poll_gen false refute_cfg false 128 s) = UNotif (mkN true 1 true 7 8) /\
  snd (h_poll refute_cfg false 128 s) = UPending.
Proof. vm_compute. repeat split; reflexivity. Qed.

(* ------------------------------------------------------------------ consequences for every schedule *)
Section Consequences.
  Variables (c : cfg) (hs : list (list bool)) (ts : list step).
  Let s := final c hs ts.

  (* delivered, then what the handle can still report, then what the Connection can still read:
     together a prefix of what was accepted *)
  Lemma pending_prefix x k m :
    prefix (proj k m (e_del (gl s (negb x))) ++
            (if dead_for s (negb x) k then [] else proj k m (e_nq (hn s (negb x)))) ++
            (if (k =? per s) && reading s (negb x) then proj k m (carrier (glo s x)) else []))
           (proj k m (e_acc (gl s x))).
  Proof. exact (i_pre _ (inv_d _ (final_inv c hs ts) x) k m). Qed.

  Lemma clog_once x : NoDup (e_fclog (gl s x)).
  Proof. exact (e1_fnd _ _ _ _ (final_invB c hs ts x)). Qed.

  Lemma oversize_never_delivered x :
    Forall (fun n => n_len n <= c_max (ecf c x) /\ n_len n <= c_max (ecf c (negb x))) (e_del (gl s x)).
  Proof.
    pose proof (e1_in _ _ _ _ (final_invB c hs ts x)) as H. cbn in H. apply Forall_app_iff in H. tauto.
  Qed.

  Lemma oversize_never_sent x : Forall (fun n => n_len n <= c_max (ecf c x)) (carrier (glo s x)).
  Proof.
    pose proof (e1_out _ _ _ _ (final_invB c hs ts x)) as H. cbn in H. apply Forall_app_iff in H. tauto.
  Qed.

  Lemma user_channel_bound x : len (e_nq (hn s x)) + b2n (e_res (cn s x)) <= c_n (ecf c x).
  Proof. exact (e1_res _ _ _ _ (final_invB c hs ts x)). Qed.

  Lemma delivered_periods_monotone x : mono_from 0 (e_del (gl s x)).
  Proof. exact (e1_mono _ _ _ _ (final_invB c hs ts x)). Qed.

  Lemma stream_confinement x : e_dper (gl s x) = map (fun n => Some (n_per n)) (e_del (gl s x)).
  Proof. exact (e1_conf _ _ _ _ (final_invB c hs ts x)). Qed.

  Lemma events_alternate x : alt_state false (e_seen (gl s x) ++ e_evs (hn s x)) = Some (e_alive (cn s x)).
  Proof. exact (e1_alt _ _ _ _ (final_invB c hs ts x)). Qed.

  Lemma async_capacity x : len (e_aq (cn s x)) + held (cn s x) (e_ws (hn s x)) <= c_a (ecf c x).
  Proof. exact (w_cap _ _ _ _ _ (final_invWB c hs ts x)). Qed.

  Lemma async_fifo_handover x : srt (e_per (cn s x)) (e_alive (cn s x)) (e_ws (hn s x)).
  Proof. exact (w_srt _ _ _ _ _ (final_invWB c hs ts x)). Qed.

  Lemma async_work_conserving x :
    0 < afree (ecf c x) (cn s x) (e_ws (hn s x)) ->
    Forall (fun w => ua (e_per (cn s x)) (e_alive (cn s x)) w = false) (e_ws (hn s x)).
  Proof. intros H. apply afree_lt in H. exact (w_work _ _ _ _ _ (final_invWB c hs ts x) H). Qed.

  Lemma async_waits x :
    afree (ecf c x) (cn s x) (e_ws (hn s x)) = 0 <->
    len (e_aq (cn s x)) + held (cn s x) (e_ws (hn s x)) = c_a (ecf c x).
  Proof. apply async_waits_iff. exact (final_invWB c hs ts x). Qed.

  Lemma async_drop_returns_permit x id w :
    find_w id (e_ws (hn s x)) = Some w -> w_asg w = true -> wlive (cn s x) w = true ->
    let s' := fst (async_drop c x s id) in
    e_aq (cn s' x) = e_aq (cn s x) /\ e_acc (gl s' x) = e_acc (gl s x) /\
    if existsb (ua (e_per (cn s x)) (e_alive (cn s x))) (e_ws (hn s x))
    then held (cn s' x) (e_ws (hn s' x)) = held (cn s x) (e_ws (hn s x)) /\
         afree (ecf c x) (cn s' x) (e_ws (hn s' x)) = afree (ecf c x) (cn s x) (e_ws (hn s x))
    else held (cn s' x) (e_ws (hn s' x)) + 1 = held (cn s x) (e_ws (hn s x)) /\
         afree (ecf c x) (cn s' x) (e_ws (hn s' x)) = afree (ecf c x) (cn s x) (e_ws (hn s x)) + 1.
  Proof. apply drop_returns_permit. exact (final_invWB c hs ts x). Qed.
End Consequences.
