(* C12 — pinned property theorems. This file contains statements, `exact`, and
   Print Assumptions only. The pins in tools/pins/C12.v re-check the statements.

   `final c hs xs` is the state after any list of scripted actions xs (sends through both modes,
   carrier stalls, user reads, handle polls, local closes, transport kill, reopen) under any
   configuration c and any lists hs of merge choices of the select! between the two queues;
   every action is followed by running both Connection tasks to quiescence. *)
From Coq Require Import List NArith Bool.
From V.gen Require Consts.
From V.C12 Require Import Model Proofs.
Import ListNotations.
Open Scope N_scope.

(* Per period k and per sending mode m: what user B received is a prefix of what the send calls
   accepted — at most once, in sending order, nothing skipped once a later one was delivered, and
   a closed stream delivered a prefix. For every capacity configuration, burst, stall pattern,
   close point and merge order. *)
Theorem C12_per_mode_fifo :
  forall (c : cfg) (hs : list (list bool)) (xs : list action) (k : N) (m : bool),
    prefix (proj k m (delivered (sg (final c hs xs)))) (proj k m (accepted (sg (final c hs xs)))).
Proof. exact fifo_prefix. Qed.
Print Assumptions C12_per_mode_fifo.

(* The same holds for delivered ++ still queued for the user: nothing queued can break the order. *)
Theorem C12_pending_prefix :
  forall (c : cfg) (hs : list (list bool)) (xs : list action) (k : N) (m : bool),
    let s := final c hs xs in
    prefix (proj k m (delivered (sg s) ++ notifq (sb s))) (proj k m (accepted (sg s))).
Proof. exact pending_prefix. Qed.
Print Assumptions C12_pending_prefix.

(* No loss while open: while both Connection tasks run, every notification accepted in the current
   period through mode m is delivered or sits, in order, in the user channel, the carrier, the
   substream sink, the next_notification slot or its queue. *)
Theorem C12_no_loss_while_open :
  forall (c : cfg) (hs : list (list bool)) (xs : list action) (m : bool),
    let s := final c hs xs in
    a_alive (sa s) = true -> b_alive (sb s) = true ->
    proj (per s) m (accepted (sg s)) =
    proj (per s) m (delivered (sg s) ++ notifq (sb s) ++ carrier (sl s) ++ sink (sa s) ++
                    opt_list (parked (sa s)) ++ syncq (sa s) ++ asyncq (sa s)).
Proof. exact no_loss_while_open. Qed.
Print Assumptions C12_no_loss_while_open.

(* The synchronous send is one step with four outcomes (0 accepted, 1 ChannelClogged,
   2 NoConnection, 3 Ok-because-unknown-peer); it never touches the blocked async senders; a
   clogged queue raises ForceClose only if the handle has not raised it since the last
   NotificationStreamClosed. *)
Theorem C12_sync_nonblocking :
  forall (c : cfg) (s : st) (t l : N),
  let '(s', r) := send_sync c s t l in
  waiters (sa s') = waiters (sa s) /\
  match a_sink (sh s) with
  | None => r = 3 /\ s' = s
  | Some k =>
      if live s k then
        if len (syncq (sa s)) <? cap_s c
        then r = 0 /\ syncq (sa s') = syncq (sa s) ++ [mkN k true t l] /\
             accepted (sg s') = accepted (sg s) ++ [mkN k true t l] /\ fclog (sg s') = fclog (sg s)
        else r = 1 /\ sa s' = sa s /\ accepted (sg s') = accepted (sg s) /\ a_clogged (sh s') = true /\
             fclog (sg s') = (if a_clogged (sh s) then fclog (sg s) else fclog (sg s) ++ [k])
      else r = 2 /\ s' = s
  end.
Proof. exact send_sync_spec. Qed.
Print Assumptions C12_sync_nonblocking.

(* Clogging triggers at most one force-close per open period: the log of the periods for which
   handle A sent ForceClose has no duplicates, for every action script. *)
Theorem C12_clog_once :
  forall (c : cfg) (hs : list (list bool)) (xs : list action),
    NoDup (fclog (sg (final c hs xs))).
Proof. exact clog_once. Qed.
Print Assumptions C12_clog_once.

(* The asynchronous send never drops or reorders: the notification joins the FIFO of blocked
   senders (or fails at once on a closed stream); it is accepted only by admission into the queue. *)
Theorem C12_async_send :
  forall (s : st) (t l : N),
  let '(s', r) := send_async s t l in
  accepted (sg s') = accepted (sg s) /\ syncq (sa s') = syncq (sa s) /\ asyncq (sa s') = asyncq (sa s) /\
  match a_sink (sh s) with
  | None => r = 3 /\ s' = s
  | Some k => r = 0 /\
      if live s k then waiters (sa s') = waiters (sa s) ++ [mkN k false t l] /\ async_err (sg s') = async_err (sg s)
      else waiters (sa s') = waiters (sa s) /\ async_err (sg s') = async_err (sg s) + 1
  end.
Proof. exact send_async_spec. Qed.
Print Assumptions C12_async_send.

(* ... and it waits exactly when the queue is full: after a poll of the sending Connection a
   blocked sender remains only if the async queue is at capacity. *)
Theorem C12_async_waits :
  forall (c : cfg) (s : st),
  a_alive (sa s) = true ->
  let s' := fst (a_round c s) in
  a_alive (sa s') = true -> waiters (sa s') = [] \/ cap_a c <= len (asyncq (sa s')).
Proof. exact async_waits_round. Qed.
Print Assumptions C12_async_waits.

(* A notification larger than the sender's or the receiver's maximum is never delivered. *)
Theorem C12_oversize_never_delivered :
  forall (c : cfg) (hs : list (list bool)) (xs : list action), 1 <= cap_n c ->
    Forall (fun n => n_len n <= max_out c /\ n_len n <= max_in c) (delivered (sg (final c hs xs))).
Proof. exact oversize_never_delivered. Qed.
Print Assumptions C12_oversize_never_delivered.

(* The user channel never exceeds its capacity, counting the slot reserved by the Connection,
   and the receiving Connection does not touch the substream without a reservation. *)
Theorem C12_reserve_before_read :
  forall (c : cfg) (hs : list (list bool)) (xs : list action), 1 <= cap_n c ->
    let s := final c hs xs in
    len (notifq (sb s)) + (if reserved (sb s) then 1 else 0) <= cap_n c.
Proof. exact user_channel_bound. Qed.
Print Assumptions C12_reserve_before_read.

Theorem C12_no_read_without_slot :
  forall (c : cfg) (s : st),
    b_alive (sb s) = true -> reserved (sb s) = false -> cap_n c <= len (notifq (sb s)) ->
    forall fuel, b_run fuel c s = s.
Proof. exact read_needs_reservation. Qed.
Print Assumptions C12_no_read_without_slot.

(* Reopen: the periods of the delivered notifications never decrease — once a notification of a
   later period was delivered, none of an earlier period follows. *)
Theorem C12_reopen_order :
  forall (c : cfg) (hs : list (list bool)) (xs : list action), 1 <= cap_n c ->
    mono_from 0 (delivered (sg (final c hs xs))).
Proof. exact delivered_periods_monotone. Qed.
Print Assumptions C12_reopen_order.

(* ---- non-vacuity and an observation (Examples, by computation) ---- *)
Definition ex_cfg : cfg := mkCfg 2 1 4 64 64.

(* two notifications per mode travel through the whole pipeline and arrive in order *)
Example C12_example_delivery :
  let xs := [AReopen; APollA; AUserRecv; ASendSync 1 4; ASendAsync 2 5; ASendSync 3 6; ASendAsync 4 7;
             AUserRecv; AUserRecv; AUserRecv; AUserRecv] in
  let s := final ex_cfg [[true; false; true; false]] xs in
  proj 1 true (delivered (sg s)) = [mkN 1 true 1 4; mkN 1 true 3 6] /\
  proj 1 false (delivered (sg s)) = [mkN 1 false 2 5; mkN 1 false 4 7] /\
  accepted (sg s) = delivered (sg s).
Proof. vm_compute. repeat split; reflexivity. Qed.

(* a full sync queue reports ChannelClogged at once, and only the first clog raises ForceClose *)
Example C12_example_clog :
  let xs := [AReopen; APollA; AGate false true;
             ASendSync 1 40000; ASendSync 2 40000; ASendSync 3 40000; ASendSync 4 40000;
             ASendSync 5 40000; ASendSync 6 40000] in
  let '(s, rs) := run (mkCfg 1 1 4 50000 50000) (init []) xs in
  skipn 3 rs = [RCode 0; RCode 0; RCode 0; RCode 0; RCode 1; RCode 1] /\ fclog (sg s) = [1] /\
  parked (sa s) = Some (mkN 1 true 3 40000).
Proof. vm_compute. repeat split; reflexivity. Qed.

(* Observation (not a violation of the property text): a notification of period 1 that is still in
   the handle's channel when the stream is closed and reopened is delivered after the user has
   seen NotificationStreamClosed and the NotificationStreamOpened of period 2 — the handle's
   `peers` filter only drops it if the user polls in between. Order and at-most-once still hold. *)
Example C12_stale_delivery_after_reopen :
  let xs := [AReopen; APollA; AUserRecv; ASendSync 1 4; ACloseA; AReopen;
             AUserRecv; AUserRecv; AUserRecv] in
  skipn 6 (snd (run ex_cfg (init []) xs)) =
    [RUser UClosed; RUser (UOpened 2); RUser (UNotif (mkN 1 true 1 4))].
Proof. vm_compute. reflexivity. Qed.
