(* C12 — pinned property theorems. This file contains statements, `exact`, and
   Print Assumptions only. The pins in tools/pins/C12.v re-check the statements.

   The model (Model.v) is one notification stream between two endpoints A (x = true) and B (x = false),
   both directions at once, as a set of processes: per endpoint the user (handle calls, send_async
   futures), the NotificationHandle, the sink queues, the Connection task and the protocol; plus two
   byte carriers. `final c hs ts` is the state after ANY list ts of scheduler steps (one call or one poll
   of one future each: Inductive step) under any configuration c (capacities and maximum sizes per
   endpoint) and any lists hs of merge choices of the select! between the two queues. Nothing is
   assumed about fairness, quiescence or the order in which tasks run. `cn s x`, `hn s x`, `gl s x` are
   the Connection/sink state, the handle state and the ghost log (accepted, delivered, ...) of x. *)
From Coq Require Import List NArith Bool.
From V.gen Require Consts.
From V.C12 Require Import Model Proofs Inv2 Async Sched Progress Live.
From V.C11 Require Model PAlt.
From V.Link Require C11_C12.
Import ListNotations.
Open Scope N_scope.

(* ---------------------------------------------------------------- order, no duplication, no loss *)

(* In each direction (sender x), per stream k and per sending mode m: what the peer's user received is a
   prefix of what the send calls of x accepted — at most once, in sending order, nothing skipped once
   a later one was delivered, and a closed stream delivered a prefix. Under any interleaving. *)
Theorem C12_per_mode_fifo :
  forall (c : cfg) (hs : list (list bool)) (ts : list step) (x : bool) (k : N) (m : bool),
    let s := final c hs ts in
    prefix (proj k m (e_del (gl s (negb x)))) (proj k m (e_acc (gl s x))).
Proof. exact fifo_prefix. Qed.
Print Assumptions C12_per_mode_fifo.

(* The same with everything that can still be delivered: what was delivered, then what the handle
   can still report from its channel (nothing, once it has written stream k off), then what the
   receiving Connection can still read from the carrier — together still a prefix of what was
   accepted. Nothing in flight can break the order. *)
Theorem C12_pending_prefix :
  forall (c : cfg) (hs : list (list bool)) (ts : list step) (x : bool) (k : N) (m : bool),
    let s := final c hs ts in
    prefix (proj k m (e_del (gl s (negb x))) ++
            (if dead_for s (negb x) k then [] else proj k m (e_nq (hn s (negb x)))) ++
            (if (k =? per s) && reading s (negb x) then proj k m (carrier (glo s x)) else []))
           (proj k m (e_acc (gl s x))).
Proof. exact pending_prefix. Qed.
Print Assumptions C12_pending_prefix.

(* No loss while open: while the transport is up, the sending Connection runs and the receiving one
   has not finished, every notification accepted on the current stream through mode m is delivered
   or sits, in order, in the receiver's channel, the carrier, the substream sink, the
   next_notification slot or its queue. *)
Theorem C12_no_loss_while_open :
  forall (c : cfg) (hs : list (list bool)) (ts : list step) (x : bool) (m : bool),
    let s := final c hs ts in
    killed s = false -> e_alive (cn s x) = true -> reading s (negb x) = true ->
    proj (per s) m (e_acc (gl s x)) =
    proj (per s) m (e_del (gl s (negb x)) ++ e_nq (hn s (negb x)) ++ carrier (glo s x) ++ e_sk (cn s x) ++
                    opt_list (e_cur (cn s x)) ++ e_sq (cn s x) ++ e_aq (cn s x)).
Proof. exact no_loss_while_open. Qed.
Print Assumptions C12_no_loss_while_open.

(* The two directions do not interfere: a sending call of endpoint x (sync send; creating, polling or
   dropping a send_async future) leaves untouched everything the direction negb x -> x depends on. *)
Theorem C12_directions_independent :
  forall (c : cfg) (s : st) (t : step) (x : bool), is_send_of x t = true ->
    dview (fst (do_step c s t)) (negb x) = dview s (negb x).
Proof. exact sends_leave_reverse_direction. Qed.
Print Assumptions C12_directions_independent.

(* Reopen: the streams of the delivered notifications never go backwards ... *)
Theorem C12_reopen_order :
  forall (c : cfg) (hs : list (list bool)) (ts : list step) (x : bool),
    mono_from 0 (e_del (gl (final c hs ts) x)).
Proof. exact delivered_periods_monotone. Qed.
Print Assumptions C12_reopen_order.

(* ... and a notification is reported only while the handle holds the sink of the very stream it was
   sent on (e_dper logs `peers[peer]` at each NotificationReceived): never after that stream's
   NotificationStreamClosed, never as part of a later stream. (Repaired code: stream identifier.) *)
Theorem C12_stream_confinement :
  forall (c : cfg) (hs : list (list bool)) (ts : list step) (x : bool),
    let s := final c hs ts in
    e_dper (gl s x) = map (fun n => Some (n_per n)) (e_del (gl s x)).
Proof. exact stream_confinement. Qed.
Print Assumptions C12_stream_confinement.

(* The filter of the original code (`peers.contains_key(&peer)`) does not have this property: after
   the schedule refute_steps handle B holds the sink of stream 2 and the original filter reports a
   notification of stream 1, which the repaired filter drops. *)
Theorem C12_unrepaired_filter_refuted :
  let s := final refute_cfg [] refute_steps in
  e_peers (hn s false) = Some 2 /\
  snd (h_poll_gen false refute_cfg false 128 s) = UNotif (mkN true 1 true 7 8) /\
  snd (h_poll refute_cfg false 128 s) = UPending.
Proof. exact unrepaired_filter_refuted. Qed.
Print Assumptions C12_unrepaired_filter_refuted.

(* NotificationStreamOpened and NotificationStreamClosed alternate, for seen and still queued events. *)
Theorem C12_events_alternate :
  forall (c : cfg) (hs : list (list bool)) (ts : list step) (x : bool),
    let s := final c hs ts in
    alt_state false (e_seen (gl s x) ++ e_evs (hn s x)) = Some (e_alive (cn s x)).
Proof. exact events_alternate. Qed.
Print Assumptions C12_events_alternate.

(* ---------------------------------------------------------------- the synchronous send *)

(* One step with four outcomes (0 accepted, 1 ChannelClogged, 2 NoConnection, 3 Ok-because-unknown-
   peer); it touches neither the other endpoint, nor the carriers, nor the waiting async senders; a
   full queue is reported at once and raises ForceClose only if the handle has not raised it since the
   last NotificationStreamClosed (and the command channel has room). *)
Theorem C12_sync_nonblocking :
  forall (c : cfg) (x : bool) (s : st) (t l : N),
  let '(s', r) := send_sync c x s t l in
  gep s' (negb x) = gep s (negb x) /\ lAB s' = lAB s /\ lBA s' = lBA s /\
  e_ws (hn s' x) = e_ws (hn s x) /\ e_aq (cn s' x) = e_aq (cn s x) /\
  match e_peers (hn s x) with
  | None => r = 3 /\ s' = s
  | Some k =>
      if live s x k then
        if len (e_sq (cn s x)) <? c_s (ecf c x)
        then r = 0 /\ e_sq (cn s' x) = e_sq (cn s x) ++ [mkN x k true t l] /\
             e_acc (gl s' x) = e_acc (gl s x) ++ [mkN x k true t l] /\
             e_fclog (gl s' x) = e_fclog (gl s x) /\ e_cmds (hn s' x) = e_cmds (hn s x)
        else r = 1 /\ cn s' x = cn s x /\ e_acc (gl s' x) = e_acc (gl s x) /\ e_clog (hn s' x) = true /\
             (if e_clog (hn s x) || negb (e_cmds (hn s x) <? c_c (ecf c x))
              then e_fclog (gl s' x) = e_fclog (gl s x) /\ e_cmds (hn s' x) = e_cmds (hn s x)
              else e_fclog (gl s' x) = e_fclog (gl s x) ++ [k] /\ e_cmds (hn s' x) = e_cmds (hn s x) + 1)
      else r = 2 /\ s' = s
  end.
Proof. exact send_sync_spec. Qed.
Print Assumptions C12_sync_nonblocking.

(* The same call on a clone of the NotificationSink of stream k, without the handle (no lookup in `peers`, no
   `clogged` set): one step with three outcomes (0 accepted, 1 ChannelClogged, 2 NoConnection: the stream of the
   sink has ended); the handle of the endpoint is untouched, so no ForceClose is ever raised by it. *)
Theorem C12_sink_sync_nonblocking :
  forall (c : cfg) (x : bool) (s : st) (k t l : N),
  let '(s', r) := sink_sync c x s k t l in
  gep s' (negb x) = gep s (negb x) /\ lAB s' = lAB s /\ lBA s' = lBA s /\
  hn s' x = hn s x /\ e_aq (cn s' x) = e_aq (cn s x) /\
  e_fclog (gl s' x) = e_fclog (gl s x) /\
  if live s x k then
    if len (e_sq (cn s x)) <? c_s (ecf c x)
    then r = 0 /\ e_sq (cn s' x) = e_sq (cn s x) ++ [mkN x k true t l] /\
         e_acc (gl s' x) = e_acc (gl s x) ++ [mkN x k true t l]
    else r = 1 /\ s' = s
  else r = 2 /\ s' = s.
Proof. exact sink_sync_spec. Qed.
Print Assumptions C12_sink_sync_nonblocking.

(* At most one ForceClose per stream: the log of the streams for which a handle queued ForceClose has
   no duplicates, under any schedule. *)
Theorem C12_clog_once :
  forall (c : cfg) (hs : list (list bool)) (ts : list step) (x : bool),
    NoDup (e_fclog (gl (final c hs ts) x)).
Proof. exact clog_once. Qed.
Print Assumptions C12_clog_once.

(* ForceClose closes: once the protocol has executed a queued ForceClose, every later poll of either
   Connection task of that stream ends it, under any cooperative budget and whatever happens in between
   (as long as no new stream has been set up, which needs both tasks to have ended). *)
Theorem C12_force_close_closes :
  forall (c : cfg) (s : st) (x : bool) (ts : list step) (z : bool) (b : N),
    e_cmds (hn s x) <> 0 ->
    let s' := fst (run c s (SCmd x :: ts ++ [SConn z b])) in
    per s' = per s -> e_alive (cn s' z) = false.
Proof. exact force_close_closes. Qed.
Print Assumptions C12_force_close_closes.

(* ---------------------------------------------------------------- the asynchronous send *)

(* Creating and first polling a send_async future: it completes at once when a permit is free (the
   notification joins the end of the queue and is accepted), fails at once on a closed stream, and
   otherwise joins the end of the waiting senders without being accepted. *)
Theorem C12_async_send :
  forall (c : cfg) (x : bool) (s : st) (id t l : N),
  let '(s', r) := async_start c x s id t l in
  gep s' (negb x) = gep s (negb x) /\ lAB s' = lAB s /\ lBA s' = lBA s /\ e_sq (cn s' x) = e_sq (cn s x) /\
  match find_w id (e_ws (hn s x)) with
  | Some _ => r = 5 /\ s' = s
  | None =>
      match e_peers (hn s x) with
      | None => r = 3 /\ s' = s
      | Some k =>
          let n := mkN x k false t l in
          if live s x k then
            if 0 <? afree (ecf c x) (cn s x) (e_ws (hn s x))
            then r = 0 /\ e_aq (cn s' x) = e_aq (cn s x) ++ [n] /\ e_ws (hn s' x) = e_ws (hn s x) /\
                 e_acc (gl s' x) = e_acc (gl s x) ++ [n]
            else r = 4 /\ e_aq (cn s' x) = e_aq (cn s x) /\ e_ws (hn s' x) = e_ws (hn s x) ++ [mkW id n false] /\
                 e_acc (gl s' x) = e_acc (gl s x)
          else r = 2 /\ e_aq (cn s' x) = e_aq (cn s x) /\ e_ws (hn s' x) = e_ws (hn s x) /\
               e_acc (gl s' x) = e_acc (gl s x)
      end
  end.
Proof. exact async_start_spec. Qed.
Print Assumptions C12_async_send.

(* Polling a waiting future: it completes (and only then is the notification accepted and queued)
   exactly when a permit was handed to it; it fails when its stream has closed; else it keeps waiting. *)
Theorem C12_async_completion :
  forall (x : bool) (s : st) (id : N),
  let '(s', r) := async_poll x s id in
  gep s' (negb x) = gep s (negb x) /\ lAB s' = lAB s /\ lBA s' = lBA s /\ e_sq (cn s' x) = e_sq (cn s x) /\
  match find_w id (e_ws (hn s x)) with
  | None => r = 5 /\ s' = s
  | Some w =>
      if wlive (cn s x) w then
        if w_asg w
        then r = 0 /\ e_aq (cn s' x) = e_aq (cn s x) ++ [w_n w] /\ e_acc (gl s' x) = e_acc (gl s x) ++ [w_n w] /\
             e_ws (hn s' x) = remove_w id (e_ws (hn s x))
        else r = 4 /\ s' = s
      else r = 2 /\ e_aq (cn s' x) = e_aq (cn s x) /\ e_acc (gl s' x) = e_acc (gl s x) /\
           e_ws (hn s' x) = remove_w id (e_ws (hn s x))
  end.
Proof. exact async_poll_spec. Qed.
Print Assumptions C12_async_completion.

(* The queue never exceeds its capacity, counting the permits held by waiting senders ... *)
Theorem C12_async_capacity :
  forall (c : cfg) (hs : list (list bool)) (ts : list step) (x : bool),
    let s := final c hs ts in
    len (e_aq (cn s x)) + held (cn s x) (e_ws (hn s x)) <= c_a (ecf c x).
Proof. exact async_capacity. Qed.
Print Assumptions C12_async_capacity.

(* ... a send waits exactly when there is no capacity (no free permit <-> queue plus held permits
   fill the capacity) ... *)
Theorem C12_async_waits :
  forall (c : cfg) (hs : list (list bool)) (ts : list step) (x : bool),
    let s := final c hs ts in
    afree (ecf c x) (cn s x) (e_ws (hn s x)) = 0 <->
    len (e_aq (cn s x)) + held (cn s x) (e_ws (hn s x)) = c_a (ecf c x).
Proof. exact async_waits. Qed.
Print Assumptions C12_async_waits.

(* ... no permit stays free while a sender of the live stream waits ... *)
Theorem C12_async_work_conserving :
  forall (c : cfg) (hs : list (list bool)) (ts : list step) (x : bool),
    let s := final c hs ts in
    0 < afree (ecf c x) (cn s x) (e_ws (hn s x)) ->
    Forall (fun w => ua (e_per (cn s x)) (e_alive (cn s x)) w = false) (e_ws (hn s x)).
Proof. exact async_work_conserving. Qed.
Print Assumptions C12_async_work_conserving.

(* ... permits are handed over in the order in which the senders started to wait: behind a sender
   without a permit nobody holds one (srt) ... *)
Theorem C12_async_fifo_handover :
  forall (c : cfg) (hs : list (list bool)) (ts : list step) (x : bool),
    let s := final c hs ts in
    srt (e_per (cn s x)) (e_alive (cn s x)) (e_ws (hn s x)).
Proof. exact async_fifo_handover. Qed.
Print Assumptions C12_async_fifo_handover.

(* ... and a dropped future returns its permit: nothing is accepted or queued, and the permit goes to
   the first waiting sender of the live stream, or is free again if nobody waits. *)
Theorem C12_async_drop_returns_permit :
  forall (c : cfg) (hs : list (list bool)) (ts : list step) (x : bool) (id : N) (w : waiter),
    let s := final c hs ts in
    find_w id (e_ws (hn s x)) = Some w -> w_asg w = true -> wlive (cn s x) w = true ->
    let s' := fst (async_drop c x s id) in
    e_aq (cn s' x) = e_aq (cn s x) /\ e_acc (gl s' x) = e_acc (gl s x) /\
    if existsb (ua (e_per (cn s x)) (e_alive (cn s x))) (e_ws (hn s x))
    then held (cn s' x) (e_ws (hn s' x)) = held (cn s x) (e_ws (hn s x)) /\
         afree (ecf c x) (cn s' x) (e_ws (hn s' x)) = afree (ecf c x) (cn s x) (e_ws (hn s x))
    else held (cn s' x) (e_ws (hn s' x)) + 1 = held (cn s x) (e_ws (hn s x)) /\
         afree (ecf c x) (cn s' x) (e_ws (hn s' x)) = afree (ecf c x) (cn s x) (e_ws (hn s x)) + 1.
Proof. exact async_drop_returns_permit. Qed.
Print Assumptions C12_async_drop_returns_permit.

(* ---------------------------------------------------------------- sizes and the receiving side *)

(* A notification larger than the sender's or the receiver's maximum is never delivered. *)
Theorem C12_oversize_never_delivered :
  forall (c : cfg) (hs : list (list bool)) (ts : list step) (x : bool),
    Forall (fun n => n_len n <= c_max (ecf c x) /\ n_len n <= c_max (ecf c (negb x)))
           (e_del (gl (final c hs ts) x)).
Proof. exact oversize_never_delivered. Qed.
Print Assumptions C12_oversize_never_delivered.

(* The channel to the handle never exceeds its capacity, counting the slot reserved by the Connection. *)
Theorem C12_reserve_before_read :
  forall (c : cfg) (hs : list (list bool)) (ts : list step) (x : bool),
    let s := final c hs ts in
    len (e_nq (hn s x)) + b2n (e_res (cn s x)) <= c_n (ecf c x).
Proof. exact user_channel_bound. Qed.
Print Assumptions C12_reserve_before_read.

(* ... and a poll of the Connection that cannot get a slot leaves the inbound substream alone. *)
Theorem C12_no_read_without_slot :
  forall (c : cfg) (x : bool) (b : N) (s : st),
    e_alive (cn s x) = true -> can_reserve c x s = false ->
    let s' := conn_poll c x b s in
    carrier (glo s' (negb x)) = carrier (glo s (negb x)) /\ e_nq (hn s' x) = e_nq (hn s x).
Proof. exact read_needs_slot. Qed.
Print Assumptions C12_no_read_without_slot.

(* ---------------------------------------------------------------- nothing is stuck behind a free slot *)

(* Each stage of the pipeline moves its head on as soon as the next stage has room, whatever the state.
   (1) One poll of the sending Connection with the carrier accepting writes and a cooperative budget
   larger than the number of queued notifications sends the parked notification and both queues
   completely (sizes within the maximum), in an order that keeps each mode's order. *)
Theorem C12_outbound_progress :
  forall (c : cfg) (x : bool) (b : N) (s : st),
  e_alive (cn s x) = true -> wgate (glo s x) = true -> qlen s x < b ->
  Forall (fun n => n_len n <= c_max (ecf c x)) (opt_list (e_cur (cn s x)) ++ e_sq (cn s x) ++ e_aq (cn s x)) ->
  let '(s1, refused) := out_phase c x b s in
  refused = false /\ e_cur (cn s1 x) = None /\ e_sq (cn s1 x) = [] /\ e_aq (cn s1 x) = [] /\ e_sk (cn s1 x) = [] /\
  (Forall (fun n => n_sync n = true) (e_sq (cn s x)) -> Forall (fun n => n_sync n = false) (e_aq (cn s x)) ->
   forall k m, proj k m (carrier (glo s1 x)) = proj k m (pipe s x)).
Proof. exact outbound_progress. Qed.
Print Assumptions C12_outbound_progress.

(* (2) One poll of the receiving Connection (budget larger than what it has queued for sending) that
   can get a slot of the handle channel moves (at least) the first frame of the carrier into it. *)
Theorem C12_inbound_progress :
  forall (c : cfg) (y : bool) (b : N) (s : st) (n : notif) (rest : list notif),
  e_alive (cn s y) = true -> e_shut (cn s y) = false -> killed s = false -> qlen s y < b ->
  snd (out_phase c y b s) = false -> can_reserve c y s = true ->
  rgate (glo s (negb y)) = true -> carrier (glo s (negb y)) = n :: rest -> n_len n <= c_max (ecf c y) ->
  exists more, e_nq (hn (conn_poll c y b s) y) = e_nq (hn s y) ++ n :: more.
Proof. exact inbound_progress. Qed.
Print Assumptions C12_inbound_progress.

(* (3) A handle poll with any budget left and no event pending reports the head of its channel if it
   belongs to the stream whose sink the handle holds. *)
Theorem C12_handle_progress :
  forall (c : cfg) (y : bool) (s : st) (k : N) (n : notif) (q : list notif) (b : N),
  e_evs (hn s y) = [] -> e_peers (hn s y) = Some k -> e_nq (hn s y) = n :: q -> n_per n = k -> b <> 0 ->
  let '(s', e) := h_poll c y b s in
  e = UNotif n /\ e_nq (hn s' y) = q /\ e_del (gl s' y) = e_del (gl s y) ++ [n].
Proof. exact handle_progress. Qed.
Print Assumptions C12_handle_progress.

(* ---------------------------------------------------------------- eventual delivery under a fair scheduler *)

(* The per-stage progress facts composed. s is ANY reachable state in which the stream is open at both ends and
   left alone (`drainable c b s`: transport up, both Connections running and not asked to shut down, gates open,
   everything under way within both maxima, both users have seen NotificationStreamOpened, the polls have more
   budget b than what is queued, handle channels of capacity >= 1). `fair_rounds b n` is n rounds of a fair
   scheduler: in each round both Connection tasks and both users are polled. After at least as many rounds as
   notifications are under way (`under_way s`: in the queues, the sinks, the carriers and the handle channels,
   both directions), every notification accepted on the stream, in either direction and through either mode, has
   been delivered: the delivered sequence IS the accepted sequence; and the stream is still open and drained. *)
Theorem C12_eventual_delivery :
  forall (c : cfg) (hs : list (list bool)) (ts : list step) (b : N) (n : nat),
    let s := final c hs ts in
    drainable c b s -> (under_way s <= n)%nat ->
    let s' := final c hs (ts ++ fair_rounds b n) in
    drainable c b s' /\ under_way s' = O /\
    forall x m, proj (per s) m (e_del (gl s' (negb x))) = proj (per s) m (e_acc (gl s x)).
Proof. exact eventual_delivery. Qed.
Print Assumptions C12_eventual_delivery.

(* One round never loses ground and, while anything is under way, gains some. *)
Theorem C12_fair_round_progress :
  forall (c : cfg) (b : N) (s : st), drainable c b s ->
    let s' := fst (run c s (fair_round b)) in
    drainable c b s' /\ same_acc s s' /\
    (under_way s' <= under_way s)%nat /\ (under_way s <> O -> (under_way s' < under_way s)%nat).
Proof. exact fair_round_progress. Qed.
Print Assumptions C12_fair_round_progress.

(* The first notification delivered on a stream through a mode is the first one accepted on it through that mode
   (with C12_start_inbound_clean: nothing that was not sent precedes it). *)
Theorem C12_first_delivered_is_first_accepted :
  forall (c : cfg) (hs : list (list bool)) (ts : list step) (x : bool) (k : N) (m : bool) (n : notif) (rest : list notif),
    let s := final c hs ts in
    proj k m (e_del (gl s (negb x))) = n :: rest ->
    exists rest', proj k m (e_acc (gl s x)) = n :: rest'.
Proof. exact first_delivered_is_first_accepted. Qed.
Print Assumptions C12_first_delivered_is_first_accepted.

(* ---------------------------------------------------------------- the quiescence stream *)

(* The first harness stream ("one user action, then run the tasks until nothing is runnable") is a
   particular family of schedules: every state it reaches is `final c hs ts` for some ts, so all of
   the above holds for it. *)
Theorem C12_quiescence_is_a_schedule :
  forall (c : cfg) (hs : list (list bool)) (xs : list action),
    exists ts, arun c 0 (init hs) xs = final c hs ts.
Proof. exact quiescence_is_a_schedule. Qed.
Print Assumptions C12_quiescence_is_a_schedule.

(* ---- non-vacuity (Examples, by computation) ---- *)
Definition ex_cfg : cfg := mkCfg (mkEC 2 1 4 2 64) (mkEC 2 2 4 2 64).

(* notifications travel in both directions through the whole pipeline, interleaved, and arrive in order *)
Example C12_example_both_directions :
  let ts := [SOpen true; SOpen false; SHandle true 128; SHandle false 128;
             SSync true 1 4; SSync false 2 5; SAsyncStart true 0 3 6; SAsyncStart false 1 4 7; SSync true 5 8;
             SConn false BIG; SConn true 1; SConn true BIG; SConn false 128; SConn true 2;
             SHandle true 128; SHandle false 128; SHandle true 128; SHandle false 128; SHandle false 128] in
  let s := final ex_cfg [[true; false; true]; [false; true]] ts in
  e_del (gl s false) = [mkN true 1 true 1 4; mkN true 1 false 3 6; mkN true 1 true 5 8] /\
  e_del (gl s true) = [mkN false 1 false 4 7; mkN false 1 true 2 5] /\
  e_acc (gl s true) = [mkN true 1 true 1 4; mkN true 1 false 3 6; mkN true 1 true 5 8].
Proof. vm_compute. repeat split; reflexivity. Qed.

(* a second async sender waits for capacity, is handed the permit when the Connection pops the queue,
   and completes on its next poll; a dropped waiter passes its permit on *)
Example C12_example_async_waiters :
  let ts := [SOpen true; SOpen false; SHandle true 128; SGate true false true;
             SAsyncStart true 10 1 40; SAsyncStart true 11 2 40; SAsyncStart true 12 3 40;
             SConn true BIG; SAsyncDrop true 11; SAsyncPoll true 12; SAsyncPoll true 12] in
  snd (run ex_cfg (init []) ts) =
    [RCode 0; RCode 0; RUser (UOpened 1); RCode 0; RCode 0; RCode 4; RCode 4; RCode 0; RCode 0; RCode 0; RCode 5].
Proof. vm_compute. reflexivity. Qed.

(* a full sync queue reports ChannelClogged at once, only the first clog queues ForceClose, and after
   the protocol has executed it both Connections end on their next poll *)
Example C12_example_clog :
  let ts := [SOpen true; SOpen false; SHandle true 128; SSync true 1 8; SSync true 2 8; SSync true 3 8; SSync true 4 8;
             SCmd true; SConn true 0; SConn false BIG] in
  let '(s, rs) := run ex_cfg (init []) ts in
  skipn 3 rs = [RCode 0; RCode 0; RCode 1; RCode 1; RCode 1; RCode 1; RCode 1] /\
  e_fclog (gl s true) = [1] /\ e_alive (cn s true) = false /\ e_alive (cn s false) = false.
Proof. vm_compute. repeat split; reflexivity. Qed.

(* the hypotheses of C12_eventual_delivery are satisfiable: both ends open, both users have seen Opened, five
   notifications accepted (two of them from waiting async senders are not: they are not accepted yet), nothing polled;
   three rounds deliver everything *)
Example C12_example_drainable :
  let ts := [SOpen true; SOpen false; SHandle true 128; SHandle false 128;
             SSync true 1 4; SSync false 2 5; SAsyncStart true 0 3 6; SAsyncStart false 1 4 7; SSync true 5 8] in
  let s := final ex_cfg [[true; false; true]; [false; true]] ts in
  drainable ex_cfg 128 s /\ under_way s = 5%nat /\
  let s' := final ex_cfg [[true; false; true]; [false; true]] (ts ++ fair_rounds 128 5) in
  e_del (gl s' false) = [mkN true 1 true 1 4; mkN true 1 false 3 6; mkN true 1 true 5 8] /\
  e_del (gl s' true) = [mkN false 1 false 4 7; mkN false 1 true 2 5].
Proof.
  cbv zeta. split; [|split; [vm_compute; reflexivity|vm_compute; split; reflexivity]].
  constructor.
  - constructor; try (intros z; destruct z); vm_compute; repeat constructor; try discriminate.
  - intros z; destruct z; reflexivity.
  - intros z; destruct z; reflexivity.
  - intros z; destruct z; vm_compute; discriminate.
Qed.

(* ---- the side condition of `open_stream`, and C11 (coq/Link/C11_C12.v) ----
   Model.open_stream starts a new period only when both Connections of the previous one have ended. This
   was documented as "guaranteed by NotificationProtocol's peer state, C11". The attempt to derive it from
   C11's model shows that it is NOT a guarantee of the code: in C11's model of the (repaired) protocol the
   user closes a stream whose Connection task is slow to close its substreams, the remote re-opens and
   the user accepts — the user sees Opened, Closed, Validate, Opened (correct alternation), the peer
   state is Open 1, and Connection task 0 of the same peer is still alive, closing. The condition
   therefore remains an ASSUMPTION that restricts C12's scheduler model (old Connections finished before
   the stream is set up again); the overlap itself is C11's subject (stream-identifier filter:
   C11_lazy_notification_in_its_period; the gate holds the newest sink: C11_gate_is_newest_sink). *)
Theorem C12_setup_condition_not_provided_by_C11 :
  let r := V.C11.Model.run V.C11.PAlt.cfg_w V.C11.Model.init V.Link.C11_C12.w_reopen_while_closing in
  let s := V.C11.PAlt.last_state V.C11.PAlt.cfg_w V.Link.C11_C12.w_reopen_while_closing in
  snd r = true /\
  V.C11.PAlt.events (fst r) =
    [V.C11.Model.UOpened 0 V.C11.Model.DOut; V.C11.Model.UClosed 0; V.C11.Model.UValidate 0;
     V.C11.Model.UOpened 0 V.C11.Model.DIn] /\
  V.C11.Model.ps s 0 = Some (V.C11.Model.Open 1) /\
  V.C11.Model.tasks s = [V.C11.Model.mkTask 0 0 (Some false) true; V.C11.Model.mkTask 1 0 None false].
Proof. exact V.Link.C11_C12.restart_overlaps_old_task. Qed.
Print Assumptions C12_setup_condition_not_provided_by_C11.
