(* C12 — proofs about the start of a notification stream (Start.v): an invariant of the repaired code that holds
   after ANY list of operations, under any visiting order of the handshake service's map. It says who consumed
   which frame of every substream, wherever the substream currently is. *)
From Coq Require Import List NArith Bool Lia.
From V.C12 Require Import Start.
From V.gen Require C12Tables.
Import ListNotations.
Open Scope N_scope.

Arguments N.add : simpl never.
Arguments N.eqb : simpl never.

(* ------------------------------------------------------------------ what a substream has been through *)
(* conservation: what the remote wrote = what the handshake service consumed, then what the Connection consumed,
   then what is still unread *)
Definition cons (s : sub) : Prop := s_hist s = s_hs s ++ s_cn s ++ s_wire s.

(* nobody has touched it *)
Definition fresh (s : sub) : Prop := cons s /\ s_hs s = [] /\ s_cn s = [] /\ s_out s = [] /\ s_ohs s = 0.
(* inbound: the handshake service has read h, its first frame *)
Definition read1 (h : frame) (s : sub) : Prop := cons s /\ s_hs s = [h] /\ s_cn s = [] /\ s_out s = [] /\ s_ohs s = 0.
(* inbound: ... and has written the local handshake *)
Definition acc1 (s : sub) : Prop :=
  cons s /\ (exists h, s_hs s = [h]) /\ s_cn s = [] /\ s_out s = [LOCAL_HS] /\ s_ohs s = 1.
(* outbound: the local handshake has been written *)
Definition osent (s : sub) : Prop := cons s /\ s_hs s = [] /\ s_cn s = [] /\ s_out s = [LOCAL_HS] /\ s_ohs s = 1.
(* outbound: ... and the remote's answer h has been read *)
Definition odone (h : frame) (s : sub) : Prop :=
  cons s /\ s_hs s = [h] /\ s_cn s = [] /\ s_out s = [LOCAL_HS] /\ s_ohs s = 1.
(* the substreams of a Connection: the handshake service consumed exactly one frame of each and wrote exactly one,
   the first; the Connection reads the inbound and writes the outbound one *)
Definition tin (s : sub) : Prop := cons s /\ (exists h, s_hs s = [h]) /\ s_out s = [LOCAL_HS] /\ s_ohs s = 1.
Definition tout (s : sub) : Prop :=
  cons s /\ (exists h, s_hs s = [h]) /\ s_cn s = [] /\ s_ohs s = 1 /\ exists q, s_out s = LOCAL_HS :: q.

Lemma cons_env x s : cons s -> cons (env_sub x s).
Proof. unfold cons. destruct x; cbn; auto. intros ->. now rewrite !app_assoc. Qed.

Ltac env_tac := intros x s H; unfold fresh, read1, acc1, osent, odone, tin, tout in *;
  repeat match goal with H : _ /\ _ |- _ => destruct H end;
  repeat split; try apply cons_env; auto; destruct x; cbn; auto.

Lemma fresh_env : forall x s, fresh s -> fresh (env_sub x s). Proof. env_tac. Qed.
Lemma read1_env h : forall x s, read1 h s -> read1 h (env_sub x s). Proof. env_tac. Qed.
Lemma acc1_env : forall x s, acc1 s -> acc1 (env_sub x s). Proof. env_tac. Qed.
Lemma osent_env : forall x s, osent s -> osent (env_sub x s). Proof. env_tac. Qed.
Lemma odone_env h : forall x s, odone h s -> odone h (env_sub x s). Proof. env_tac. Qed.
Lemma tin_env : forall x s, tin s -> tin (env_sub x s). Proof. env_tac. Qed.
Lemma tout_env : forall x s, tout s -> tout (env_sub x s). Proof. env_tac. Qed.

Lemma touch_pres (P : sub -> Prop) id x :
  (forall x s, P s -> P (env_sub x s)) -> forall s, P s -> P (touch id x s).
Proof. intros HP s H. unfold touch. destruct (s_id s =? id); auto. Qed.

Lemma fresh_new id : fresh (new_sub id).
Proof. unfold fresh, cons. cbn. auto. Qed.

(* ------------------------------------------------------------------ entries of the handshake service *)
(* rd = the handshake queued in `ready` for the key of the entry, if any *)
Definition ent_ok (out : bool) (rd : option frame) (e : hent) : Prop :=
  match out, e_stage e, rd with
  | false, SRead, None => fresh (e_sub e)
  | false, SRead, Some h => read1 h (e_sub e)
  | false, SSend, None => exists h, read1 h (e_sub e)
  | false, SSent, None => acc1 (e_sub e)
  | false, SSent, Some h => acc1 (e_sub e) /\ h = EMPTY
  | true, SSend, None => fresh (e_sub e)
  | true, SSent, None => osent (e_sub e)
  | true, SRead, None => osent (e_sub e)
  | true, SRead, Some h => odone h (e_sub e)
  | _, _, _ => False
  end.

Definition in_rel (x : option pstate) (g : hstage) : Prop :=
  match x with
  | Some (Validating _ _ IReading) => g = SRead
  | Some (Validating _ _ ISending) => g <> SRead
  | _ => False
  end.
Definition out_rel (x : option pstate) : Prop :=
  match x with Some (Validating _ ONeg _) => True | _ => False end.
Definition inb_ok (i : inb) : Prop :=
  match i with IValidating y h => read1 h y | IOpen y => acc1 y | _ => True end.
Definition outb_ok (o : outb) : Prop := match o with OOpen h y => odone h y | _ => True end.
Definition ps_ok (x : option pstate) : Prop :=
  match x with Some (Validating _ o i) => outb_ok o /\ inb_ok i | _ => True end.

(* what the invariant says about one peer *)
Record loc := mkLoc { lp : option pstate; li : option hent; lo : option hent; ri : option frame; ro : option frame }.
Definition view (s : st) (p : peer) : loc :=
  mkLoc (ps s p) (hin s p) (hout s p) (rfind p false (ready s)) (rfind p true (ready s)).

Definition LInv (l : loc) : Prop :=
  match li l with Some e => ent_ok false (ri l) e /\ in_rel (lp l) (e_stage e) | None => ri l = None end /\
  match lo l with Some e => ent_ok true (ro l) e /\ out_rel (lp l) | None => ro l = None end /\
  ps_ok (lp l).

Definition rkey (e : peer * bool * frame) : peer * bool := fst e.
(* ... and what a Connection handed to the handle is what it consumed from its inbound substream *)
Definition task_ok (t : task) : Prop := tin (t_in t) /\ tout (t_out t) /\ t_fwd t = s_cn (t_in t).
Definition sev_ok (e : sev) : Prop := match e with EvIn _ y | EvOut _ _ y => fresh y | _ => True end.

Record Inv (s : st) : Prop := mkInv {
  i_nd : NoDup (map rkey (ready s));
  i_loc : forall p, LInv (view s p);
  i_tk : Forall task_ok (tasks s);
  i_sq : Forall sev_ok (sq s)
}.

(* ------------------------------------------------------------------ the queue `ready` *)
Lemma key_is_true p o e : key_is p o e = true <-> rkey e = (p, o).
Proof.
  destruct e as [[q o'] h]. unfold key_is, rkey. cbn. rewrite andb_true_iff, N.eqb_eq, eqb_true_iff.
  split; [intros [-> ->]; reflexivity|intros E; injection E as -> ->; auto].
Qed.

Lemma rfind_none p o r : rfind p o r = None <-> ~ In (p, o) (map rkey r).
Proof.
  induction r as [|e t IH]; cbn; [tauto|]. destruct (key_is p o e) eqn:K.
  - apply key_is_true in K. split; [discriminate|]. intros H. exfalso. apply H. auto.
  - rewrite IH. split; [intros H [E|H1]; auto; apply key_is_true in E; congruence|tauto].
Qed.

Lemma rfind_some_in p o r h : rfind p o r = Some h -> In (p, o, h) r.
Proof.
  induction r as [|e t IH]; cbn; [discriminate|]. destruct (key_is p o e) eqn:K; auto.
  intros E; injection E as <-. left. apply key_is_true in K. destruct e as [[q o'] h']. unfold rkey in K. cbn in *. congruence.
Qed.

Lemma rfind_app p o r q o' h :
  rfind q o' (r ++ [(p, o, h)]) =
  match rfind q o' r with Some x => Some x | None => if (p =? q) && Bool.eqb o o' then Some h else None end.
Proof.
  induction r as [|e t IH]; cbn.
  - unfold key_is. cbn. reflexivity.
  - destruct (key_is q o' e); auto.
Qed.

Lemma rfind_filter_other p o q o' r :
  (q =? p) && Bool.eqb o' o = false ->
  rfind q o' (filter (fun e => negb (key_is p o e)) r) = rfind q o' r.
Proof.
  intros Hne. induction r as [|e t IH]; cbn; auto. destruct (key_is p o e) eqn:K; cbn.
  - destruct (key_is q o' e) eqn:K2; auto. apply key_is_true in K, K2. rewrite K in K2. injection K2 as -> ->.
    rewrite N.eqb_refl, eqb_reflx in Hne. discriminate.
  - destruct (key_is q o' e); auto.
Qed.

Lemma rfind_filter_same p o r : rfind p o (filter (fun e => negb (key_is p o e)) r) = None.
Proof.
  induction r as [|e t IH]; cbn; auto. destruct (key_is p o e) eqn:K; cbn; auto. now rewrite K.
Qed.

Lemma nodup_filter {A B} (f : A -> B) (g : A -> bool) l : NoDup (map f l) -> NoDup (map f (filter g l)).
Proof.
  induction l as [|a t IH]; cbn; auto. intros H. inversion H as [|x y Hn Ht]; subst.
  destruct (g a); cbn; auto. constructor; auto.
  intros Hi. apply Hn. apply in_map_iff in Hi. destruct Hi as (b & E & Hb). apply filter_In in Hb.
  rewrite <- E. apply in_map. tauto.
Qed.

Lemma nodup_app_key r p o h : NoDup (map rkey r) -> rfind p o r = None -> NoDup (map rkey (r ++ [(p, o, h)])).
Proof.
  intros ND RF. rewrite map_app. cbn. apply rfind_none in RF.
  induction (map rkey r) as [|k t IH]; cbn; [constructor; auto; constructor|].
  inversion ND as [|x y Hn Ht]; subst. constructor.
  - rewrite in_app_iff. intros [H|[H|[]]]; auto. apply RF. left. auto.
  - apply IH; auto. intros H. apply RF. right. auto.
Qed.

(* ------------------------------------------------------------------ tactics *)
Arguments key_is : simpl never.
Arguments purge : simpl never.

Lemma upd_same {A} (f : peer -> A) p v : upd f p v p = v.
Proof. unfold upd. now rewrite N.eqb_refl. Qed.
Lemma upd_other {A} (f : peer -> A) p v q : q <> p -> upd f p v q = f q.
Proof. unfold upd. intros H. apply N.eqb_neq in H. now rewrite H. Qed.

Lemma rfind_purge_peer p o q o' r : q <> p -> rfind q o' (purge true p o r) = rfind q o' r.
Proof. intros H. apply rfind_filter_other. apply N.eqb_neq in H. now rewrite H. Qed.
Lemma rfind_purge_dir p o r : rfind p (negb o) (purge true p o r) = rfind p (negb o) r.
Proof. apply rfind_filter_other. rewrite N.eqb_refl. destruct o; reflexivity. Qed.
Lemma rfind_purge_same p o r : rfind p o (purge true p o r) = None.
Proof. apply rfind_filter_same. Qed.
Lemma nodup_purge p o r : NoDup (map rkey r) -> NoDup (map rkey (purge true p o r)).
Proof. apply nodup_filter. Qed.

(* the invariant looks at six fields *)
Lemma Inv_core s s' :
  ps s = ps s' -> hin s = hin s' -> hout s = hout s' -> ready s = ready s' -> tasks s = tasks s' -> sq s = sq s' ->
  Inv s -> Inv s'.
Proof.
  intros E1 E2 E3 E4 E5 E6 [ND L T Q]. constructor; try congruence.
  intros p. specialize (L p). unfold view in *. now rewrite <- E1, <- E2, <- E3, <- E4.
Qed.

(* an update that concerns one peer only *)
Lemma Inv_peer s s' p :
  Inv s ->
  NoDup (map rkey (ready s')) ->
  (forall q, q <> p -> view s' q = view s q) ->
  LInv (view s' p) ->
  Forall task_ok (tasks s') -> Forall sev_ok (sq s') ->
  Inv s'.
Proof.
  intros I ND F L T Q. constructor; auto. intros q. destruct (N.eq_dec q p) as [->|H]; auto.
  rewrite F by auto. apply I.
Qed.

Ltac frame_tac :=
  let q := fresh "q" in let H := fresh "Hq" in
  intros q H; unfold view; cbn;
  rewrite ?upd_other by exact H;
  rewrite ?rfind_purge_peer by exact H; reflexivity.

(* the view of the peer itself *)
Ltac self_tac :=
  unfold view; cbn; rewrite ?upd_same;
  change (rfind ?p false (purge true ?p true ?r)) with (rfind p (negb true) (purge true p true r));
  change (rfind ?p true (purge true ?p false ?r)) with (rfind p (negb false) (purge true p false r));
  rewrite ?rfind_purge_dir, ?rfind_purge_same; cbn [negb].

Lemma LInv_view s p : Inv s -> LInv (mkLoc (ps s p) (hin s p) (hout s p) (rfind p false (ready s)) (rfind p true (ready s))).
Proof. intros I. apply (i_loc s I p). Qed.

Lemma tasks_map_ok (f : task -> task) l :
  (forall t, task_ok t -> task_ok (f t)) -> Forall task_ok l -> Forall task_ok (map f l).
Proof. intros Hf H. induction H; cbn; constructor; auto. Qed.

Ltac tasks_tac T :=
  try exact T;
  try (apply tasks_map_ok; [intros ? ?; match goal with |- context [if ?c then _ else _] => destruct c end; auto | exact T]).

Ltac inv_tac I p ND T Q :=
  apply (Inv_peer _ _ p I);
  [ cbn; try apply nodup_purge; try apply nodup_purge; try exact ND
  | frame_tac
  | self_tac
  | cbn; tasks_tac T
  | cbn; try exact Q ].

(* the local part: case analysis over what the handshake service holds for the peer *)
Ltac loc_split s p :=
  destruct (hin s p) as [ei|]; destruct (hout s p) as [eo|];
  destruct (rfind p false (ready s)) as [hi|]; destruct (rfind p true (ready s)) as [ho|].

Ltac loc_tac s p E L :=
  rewrite ?E in *; try exact L;
  unfold LInv in *; cbn in *; loc_split s p; cbn in *;
  unfold in_rel, out_rel, ps_ok, outb_ok, inb_ok in *; cbn in *;
  try solve [intuition (eauto; try congruence; try discriminate)].

Lemma on_sub_in_inv s p y : Inv s -> fresh y -> Inv (on_sub_in true s p y).
Proof.
  intros I Fy. pose proof (LInv_view s p I) as L. pose proof (i_nd s I) as ND.
  pose proof (i_tk s I) as T. pose proof (i_sq s I) as Q.
  unfold on_sub_in. destruct (ps s p) as [[b|po|x|d o i|k]|] eqn:E.
  - inv_tac I p ND T Q. loc_tac s p E L.
  - destruct po; inv_tac I p ND T Q; loc_tac s p E L.
  - inv_tac I p ND T Q; loc_tac s p E L.
  - destruct o, i; inv_tac I p ND T Q; loc_tac s p E L.
  - inv_tac I p ND T Q; loc_tac s p E L.
  - inv_tac I p ND T Q; loc_tac s p E L.
Qed.

Ltac start_tac s p I L ND T Q :=
  pose proof (LInv_view s p I) as L; pose proof (i_nd s I) as ND;
  pose proof (i_tk s I) as T; pose proof (i_sq s I) as Q.

Lemma on_sub_out_inv s p x y : Inv s -> fresh y -> Inv (on_sub_out true s p x y).
Proof.
  intros I Fy. start_tac s p I L ND T Q.
  unfold on_sub_out. destruct (ps s p) as [[b|po|z|d o i|k]|] eqn:E.
  - inv_tac I p ND T Q. loc_tac s p E L.
  - destruct po as [z|]; [destruct (z =? x)|]; inv_tac I p ND T Q; loc_tac s p E L.
  - destruct ((z =? x) && _); inv_tac I p ND T Q; loc_tac s p E L.
  - destruct i; try (destruct o as [|z| |]; try destruct (z =? x)); inv_tac I p ND T Q; loc_tac s p E L.
  - inv_tac I p ND T Q. loc_tac s p E L.
  - inv_tac I p ND T Q. loc_tac s p E L.
Qed.

Lemma on_established_inv s p : Inv s -> Inv (on_established s p).
Proof.
  intros I. start_tac s p I L ND T Q.
  unfold on_established. destruct (ps s p) as [[b|po|z|d o i|k]|] eqn:E; try destruct b;
    inv_tac I p ND T Q; loc_tac s p E L.
Qed.

Lemma on_closed_inv s p : Inv s -> Inv (on_closed true s p).
Proof.
  intros I. start_tac s p I L ND T Q.
  unfold on_closed. cbn [ps set_pend]. destruct (ps s p) as [[b|po|z|d o i|k]|] eqn:E.
  - inv_tac I p ND T Q. loc_tac s p E L.
  - inv_tac I p ND T Q. loc_tac s p E L.
  - inv_tac I p ND T Q. loc_tac s p E L.
  - destruct o, i; inv_tac I p ND T Q; loc_tac s p E L.
  - inv_tac I p ND T Q. loc_tac s p E L.
  - inv_tac I p ND T Q. loc_tac s p E L.
Qed.

Lemma on_open_fail_inv s x : Inv s -> Inv (on_open_fail true s x).
Proof.
  intros I. unfold on_open_fail. destruct (pend_find x (pend s)) as [p|].
  2:{ destruct I; constructor; auto. }
  start_tac s p I L ND T Q. cbn [ps set_pend].
  destruct (ps s p) as [[b|po|z|d o i|k]|] eqn:E.
  - inv_tac I p ND T Q. loc_tac s p E L.
  - destruct po as [y|]; [destruct (y =? x)|]; inv_tac I p ND T Q; loc_tac s p E L.
  - inv_tac I p ND T Q. loc_tac s p E L.
  - destruct o, i; inv_tac I p ND T Q; loc_tac s p E L.
  - inv_tac I p ND T Q. loc_tac s p E L.
  - inv_tac I p ND T Q. loc_tac s p E L.
Qed.

Lemma on_close_inv s p : Inv s -> Inv (on_close s p).
Proof.
  intros I. start_tac s p I L ND T Q.
  unfold on_close. destruct (ps s p) as [[b|po|z|d o i|k]|] eqn:E; try exact I.
  inv_tac I p ND T Q. loc_tac s p E L.
Qed.

Lemma on_shutdown_inv s p : Inv s -> Inv (on_shutdown s p).
Proof.
  intros I. start_tac s p I L ND T Q.
  unfold on_shutdown. destruct (ps s p) as [[b|po|z|d o i|k]|] eqn:E; try exact I.
  destruct (task_closed s k); try exact I.
  inv_tac I p ND T Q. loc_tac s p E L.
Qed.

Lemma on_open_inv s p : Inv s -> Inv (fst (on_open s p)).
Proof.
  intros I. start_tac s p I L ND T Q.
  unfold on_open. destruct (ps s p) as [[b|po|z|d o i|k]|] eqn:E; cbn [fst]; try exact I.
  - inv_tac I p ND T Q. loc_tac s p E L.
  - destruct (reusable s po) as [x|].
    + cbn [fst]. inv_tac I p ND T Q. loc_tac s p E L.
    + unfold svc_open. destruct (conn s p); cbn [fst]; inv_tac I p ND T Q; loc_tac s p E L.
  - inv_tac I p ND T Q. loc_tac s p E L.
Qed.

Lemma on_validation_inv s p a : Inv s -> Inv (fst (on_validation true s p a)).
Proof.
  intros I. start_tac s p I L ND T Q.
  unfold on_validation. destruct (ps s p) as [[b|po|z|d o i|k]|] eqn:E; cbn [fst]; try exact I.
  - destruct b, a; cbn [fst]; inv_tac I p ND T Q; loc_tac s p E L.
  - destruct i; cbn [fst]; try exact I. destruct a.
    + destruct o; cbn [fst]; try (unfold svc_open; destruct (conn s p); cbn [fst]);
        inv_tac I p ND T Q; loc_tac s p E L.
    + cbn [fst]. destruct o; inv_tac I p ND T Q; loc_tac s p E L.
Qed.

(* ------------------------------------------------------------------ one visit of a substream *)
Lemma hs_write_read1 h s : read1 h s -> acc1 (hs_write s).
Proof.
  unfold read1, acc1, cons. cbn. intros (C & H1 & H2 & H3 & H4). rewrite H1, H2 in C. rewrite ?H1, ?H2, ?H3, ?H4.
  repeat split; eauto.
Qed.
Lemma hs_write_fresh s : fresh s -> osent (hs_write s).
Proof.
  unfold fresh, osent, cons. cbn. intros (C & H1 & H2 & H3 & H4). rewrite H1, H2 in C. rewrite ?H1, ?H2, ?H3, ?H4.
  repeat split; eauto.
Qed.
Lemma hs_read_fresh s f w : fresh s -> s_wire s = f :: w -> read1 f (hs_read s f w).
Proof.
  unfold fresh, read1, cons. cbn. intros (C & H1 & H2 & H3 & H4) W. rewrite H1, H2, H3, H4 in *. rewrite W in C.
  repeat split; auto.
Qed.
Lemma hs_read_osent s f w : osent s -> s_wire s = f :: w -> odone f (hs_read s f w).
Proof.
  unfold osent, odone, cons. cbn. intros (C & H1 & H2 & H3 & H4) W. rewrite H1, H2, H3, H4 in *. rewrite W in C.
  repeat split; auto.
Qed.

Definition vres_ok (o : bool) (g : hstage) (r : vres) : Prop :=
  match r with
  | VErr e' | VWait e' => ent_ok o None e' /\ (o = false -> (g = SRead <-> e_stage e' = SRead))
  | VNeg e' h => ent_ok o (Some h) e' /\ (o = false -> (g = SRead <-> e_stage e' = SRead))
  end.

Lemma read_stage_in s : fresh s -> vres_ok false SRead (read_stage s).
Proof.
  intros F. unfold read_stage. destruct (s_wire s) as [|f w] eqn:W; [destruct (s_eof s)|]; cbn; try tauto.
  split; [apply hs_read_fresh; auto|tauto].
Qed.
Lemma read_stage_out g s : osent s -> vres_ok true g (read_stage s).
Proof.
  intros F. unfold read_stage. destruct (s_wire s) as [|f w] eqn:W; [destruct (s_eof s)|]; cbn;
    (split; [auto|discriminate]).
  apply hs_read_osent; auto.
Qed.

Lemma visit1_ok o e : ent_ok o None e -> vres_ok o (e_stage e) (visit1 o e).
Proof.
  destruct e as [g s]. destruct o, g; cbn; intros H.
  - (* outbound, SSend *)
    destruct (s_werr s); [cbn; split; [auto|discriminate]|].
    unfold flush_stage. cbn. destruct (s_werr s); [cbn; split; [apply hs_write_fresh; auto|discriminate]|].
    destruct (s_flush s); [apply read_stage_out, hs_write_fresh; auto|cbn; split; [apply hs_write_fresh; auto|discriminate]].
  - unfold flush_stage. destruct (s_werr s); [cbn; split; [auto|discriminate]|].
    destruct (s_flush s); [apply read_stage_out; auto|cbn; split; [auto|discriminate]].
  - apply read_stage_out; auto.
  - (* inbound, SSend *)
    destruct H as (h & H).
    destruct (s_werr s); [cbn; split; [eauto|intros _; split; discriminate]|].
    unfold flush_stage. cbn. destruct (s_werr s); [cbn; split; [eapply hs_write_read1; eauto|intros _; split; discriminate]|].
    destruct (s_flush s); cbn; (split; [|intros _; split; discriminate]); try split; auto; eapply hs_write_read1; eauto.
  - unfold flush_stage. destruct (s_werr s); [cbn; split; [auto|intros _; split; discriminate]|].
    destruct (s_flush s); cbn; (split; [|intros _; split; discriminate]); auto.
  - apply read_stage_in; auto.
Qed.

(* ------------------------------------------------------------------ the loop over the map *)
Lemma in_rel_stage x g g' : (g = SRead <-> g' = SRead) -> in_rel x g -> in_rel x g'.
Proof. unfold in_rel. destruct x as [[| | |d o [| | | |]|]|]; tauto. Qed.

Lemma LInv_at s p : Inv s -> LInv (view s p).
Proof. intros I. apply I. Qed.

(* the entry under a key, seen through the invariant *)
Lemma ent_of s p o e : Inv s -> hget s p o = Some e ->
  ent_ok o (rfind p o (ready s)) e /\ (if o then out_rel (ps s p) else in_rel (ps s p) (e_stage e)).
Proof.
  intros I H. pose proof (LInv_at s p I) as L. unfold LInv, view in L. cbn in L.
  destruct o; cbn in H; rewrite H in L; tauto.
Qed.

Lemma rfind_app_self p o r h : rfind p o r = None -> rfind p o (r ++ [(p, o, h)]) = Some h.
Proof. intros H. rewrite rfind_app, H, N.eqb_refl, eqb_reflx. reflexivity. Qed.
Lemma rfind_app_dir p o r h : rfind p (negb o) (r ++ [(p, o, h)]) = rfind p (negb o) r.
Proof. rewrite rfind_app. destruct (rfind p (negb o) r); auto. rewrite N.eqb_refl. destruct o; reflexivity. Qed.
Lemma rfind_app_peer p o r h q o' : q <> p -> rfind q o' (r ++ [(p, o, h)]) = rfind q o' r.
Proof.
  intros H. rewrite rfind_app. destruct (rfind q o' r); auto.
  assert (E : p =? q = false) by (apply N.eqb_neq; auto). now rewrite E.
Qed.

(* the entry under key (p, o) is replaced by e' and, possibly, its result queued *)
Lemma put_inv s p o e e' (qd : option frame) :
  Inv s -> hget s p o = Some e -> rfind p o (ready s) = None ->
  ent_ok o qd e' -> (o = false -> (e_stage e = SRead <-> e_stage e' = SRead)) ->
  let s1 := hput s p o (Some e') in
  Inv (set_hs s1 (hin s1) (hout s1) (match qd with Some h => ready s1 ++ [(p, o, h)] | None => ready s1 end)).
Proof.
  intros I H RF EO ST. destruct (ent_of s p o e I H) as [_ REL].
  pose proof (LInv_at s p I) as L. pose proof (i_nd s I) as ND. pose proof (i_tk s I) as T. pose proof (i_sq s I) as Q.
  cbv zeta. apply (Inv_peer s _ p I).
  - destruct o, qd; cbn; auto; apply nodup_app_key; auto.
  - intros q Hq. unfold view. destruct o, qd; cbn; rewrite ?upd_other by exact Hq; rewrite ?rfind_app_peer by exact Hq; reflexivity.
  - unfold view, LInv in *. cbn in L.
    destruct o; cbn in H, REL.
    + destruct qd as [h|]; cbn; rewrite upd_same; cbn;
        try (change (rfind p false (ready s ++ [(p, true, h)])) with (rfind p (negb true) (ready s ++ [(p, true, h)]));
             rewrite rfind_app_dir, rfind_app_self by exact RF); cbn [negb];
        rewrite H in L; rewrite ?RF; tauto.
    + destruct qd as [h|]; cbn; rewrite upd_same; cbn;
        try (change (rfind p true (ready s ++ [(p, false, h)])) with (rfind p (negb false) (ready s ++ [(p, false, h)]));
             rewrite rfind_app_dir, rfind_app_self by exact RF); cbn [negb];
        rewrite H in L; rewrite ?RF; (split; [split; [exact EO|eapply in_rel_stage; eauto]|tauto]).
  - destruct o, qd; exact T.
  - destruct o, qd; exact Q.
Qed.

Lemma visit_inv ord : forall s, Inv s -> Inv (fst (visit s ord)).
Proof.
  induction ord as [|[p o] t IH]; intros s I; cbn [visit fst]; auto.
  destruct (hget s p o) as [e|] eqn:H; [|apply IH; auto].
  destruct (rfind p o (ready s)) as [h0|] eqn:RF; [apply IH; auto|].
  destruct (ent_of s p o e I H) as [EO _]. rewrite RF in EO.
  pose proof (visit1_ok o e EO) as V. destruct (visit1 o e) as [e'|e' h|e']; cbn in V; destruct V as [V1 V2].
  - cbn [fst]. eapply Inv_core; [..|apply (put_inv s p o e e' None); auto]; destruct o; reflexivity.
  - apply IH. apply (put_inv s p o e e' (Some h)); auto.
  - apply IH. eapply Inv_core; [..|apply (put_inv s p o e e' None); auto]; destruct o; reflexivity.
Qed.

(* ------------------------------------------------------------------ one poll of the handshake service *)
Definition neg_facts (s1 : st) (p : peer) (o : bool) (h : frame) (y : sub) : Prop :=
  exists g, ent_ok o (Some h) (mkE g y) /\ (if o then out_rel (ps s1 p) else in_rel (ps s1 p) g).

Definition hs_post (s1 : st) (r : pres) : Prop :=
  Inv s1 /\ match r with PNeg p o h y => neg_facts s1 p o h y | _ => True end.

Lemma rfind_head (p : peer) (o : bool) (h : frame) (t : list (peer * bool * frame)) : rfind p o ((p, o, h) :: t) = Some h.
Proof. cbn. assert (K : key_is p o (p, o, h) = true) by (apply key_is_true; reflexivity). now rewrite K. Qed.

Lemma rfind_tail_other (p : peer) (o : bool) (h : frame) (t : list (peer * bool * frame)) (q : peer) (o' : bool) :
  (q =? p) && Bool.eqb o' o = false -> rfind q o' ((p, o, h) :: t) = rfind q o' t.
Proof.
  intros H. cbn. destruct (key_is q o' (p, o, h)) eqn:K; auto. apply key_is_true in K. unfold rkey in K. cbn in K.
  injection K as -> ->. rewrite N.eqb_refl, eqb_reflx in H. discriminate.
Qed.

Arguments rfind : simpl never.

(* the head of `ready` is handed out *)
Lemma pop_head s p o h t :
  Inv s -> ready s = (p, o, h) :: t ->
  exists e, hget s p o = Some e /\
    let s1 := hput s p o None in
    Inv (set_hs s1 (hin s1) (hout s1) t) /\ neg_facts (set_hs s1 (hin s1) (hout s1) t) p o h (e_sub e).
Proof.
  intros I R. pose proof (LInv_at s p I) as L. pose proof (i_nd s I) as ND. rewrite R in ND. cbn in ND.
  inversion ND as [|k l Hn ND']; subst.
  assert (RT : rfind p o t = None) by (apply rfind_none; exact Hn).
  pose proof (rfind_head p o h t) as RH. rewrite <- R in RH.
  unfold LInv, view in L. cbn in L.
  destruct (hget s p o) as [e|] eqn:H.
  2:{ exfalso. destruct o; cbn in H; rewrite H, RH in L; destruct L as (L1 & L2 & _); discriminate. }
  exists e. split; [reflexivity|]. cbv zeta.
  destruct (ent_of s p o e I H) as [EO REL]. rewrite RH in EO.
  split.
  - apply (Inv_peer s _ p I).
    + destruct o; cbn; exact ND'.
    + intros q Hq. assert (Eq : q =? p = false) by (apply N.eqb_neq; auto).
      unfold view. destruct o; cbn; rewrite ?upd_other by exact Hq; rewrite R, !rfind_tail_other by (rewrite Eq; reflexivity);
        reflexivity.
    + unfold view, LInv. rewrite R in L.
      destruct o; cbn [hput set_hs hin hout ready ps li lo ri ro lp]; rewrite upd_same, RT.
      * rewrite (rfind_tail_other p true h t p false) in L by (rewrite N.eqb_refl; reflexivity). tauto.
      * rewrite (rfind_tail_other p false h t p true) in L by (rewrite N.eqb_refl; reflexivity). tauto.
    + destruct o; exact (i_tk s I).
    + destruct o; exact (i_sq s I).
  - exists (e_stage e). destruct e as [g y]. split; [exact EO|]. destruct o; exact REL.
Qed.

Lemma pop_spec s : Inv s ->
  match ready s with
  | [] => pop s (ready s) = (None, [])
  | (p, o, h) :: t => exists e, hget s p o = Some e /\ pop s (ready s) = (Some (p, o, h, e), t)
  end.
Proof.
  intros I. destruct (ready s) as [|[[p o] h] t] eqn:R; [reflexivity|].
  destruct (pop_head s p o h t I R) as (e & H & _). exists e. split; auto. cbn. now rewrite H.
Qed.

Lemma hs_poll_spec s ord : Inv s -> hs_post (fst (hs_poll s ord)) (snd (hs_poll s ord)).
Proof.
  intros I. unfold hs_poll. pose proof (pop_spec s I) as P.
  destruct (ready s) as [|[[p o] h] t] eqn:R.
  - rewrite P.
    assert (I0 : Inv (set_hs s (hin s) (hout s) [])) by (eapply Inv_core; [..|exact I]; auto).
    destruct (hs_empty _); [split; cbn; auto|].
    pose proof (visit_inv ord _ I0) as IV.
    destruct (visit (set_hs s (hin s) (hout s) []) ord) as [s1 [[p o]|]]; cbn [fst snd] in *; [split; auto|].
    destruct (ready s1) as [|[[p o] h] t] eqn:R1; [split; cbn; auto|].
    destruct (pop_head s1 p o h t IV R1) as (e & H & I1 & F). rewrite H. cbn [fst snd]. split; auto.
  - destruct P as (e & H & ->). cbn [fst snd].
    destruct (pop_head s p o h t I R) as (e' & H' & I1 & F). rewrite H in H'. injection H' as <-. split; auto.
Qed.

(* ------------------------------------------------------------------ the handshake events *)
Lemma acc1_tin y : acc1 y -> tin y.
Proof. unfold acc1, tin. tauto. Qed.
Lemma odone_tout h y : odone h y -> tout y.
Proof. unfold odone, tout. intros (C & H1 & H2 & H3 & H4). repeat split; eauto. Qed.

Lemma hs_finish_inv s p : Inv s -> Inv (hs_finish s p).
Proof.
  intros I. start_tac s p I L ND T Q.
  unfold hs_finish. destruct (ps s p) as [[b|po|z|d [| | |h so] [| | | |si]|k]|] eqn:E; try exact I.
  apply (Inv_peer s _ p I).
  - exact ND.
  - frame_tac.
  - self_tac. loc_tac s p E L.
  - cbn. apply Forall_app. split; [exact T|]. constructor; [|constructor].
    unfold LInv in L. cbn in L. destruct L as (_ & _ & L1 & L2).
    split; [|split]; cbn; [apply acc1_tin; auto|eapply odone_tout; eauto|symmetry; apply L2].
  - exact Q.
Qed.

Lemma on_hs_event_inv auto s r : hs_post s r -> Inv (on_hs_event true auto s r).
Proof.
  intros [I F]. destruct r as [|p o h y|p o]; cbn [on_hs_event]; auto.
  - start_tac s p I L ND T Q. destruct F as (g & EO & REL).
    destruct o.
    + (* outbound *)
      destruct (ps s p) as [[b|po|z|d oo i|k]|] eqn:E; try (cbn in REL; contradiction).
      destruct oo; try (cbn in REL; contradiction).
      apply hs_finish_inv. inv_tac I p ND T Q.
      destruct g; cbn in EO; try contradiction. loc_tac s p E L.
    + destruct (ps s p) as [[b|po|z|d oo i|k]|] eqn:E; try (cbn in REL; contradiction).
      destruct i; try (cbn in REL; contradiction).
      * (* the remote's handshake was read *)
        cbn in REL. subst g. cbn in EO.
        destruct (negb (o_closed oo) && auto).
        -- inv_tac I p ND T Q. loc_tac s p E L.
        -- apply hs_finish_inv. inv_tac I p ND T Q. loc_tac s p E L.
      * (* the local handshake was sent *)
        cbn in REL. destruct g; cbn in EO; try contradiction; try (exfalso; apply REL; reflexivity).
        apply hs_finish_inv. inv_tac I p ND T Q. loc_tac s p E L.
  - start_tac s p I L ND T Q.
    destruct (ps s p) as [[b|po|z|d oo i|k]|] eqn:E; try (inv_tac I p ND T Q; loc_tac s p E L).
    destruct oo, i; cbn [o_closed]; inv_tac I p ND T Q; loc_tac s p E L.
Qed.

(* ------------------------------------------------------------------ one poll of next_event *)
Ltac core_tac I := eapply Inv_core; [..|exact I]; reflexivity.

Lemma poll_inv auto s ord : Inv s -> Inv (fst (fst (poll true auto s ord))).
Proof.
  intros I. unfold poll. destruct (exited s); [exact I|].
  assert (P : hs_post (fst (if hs_empty s then (s, PPending) else hs_poll s ord))
                      (snd (if hs_empty s then (s, PPending) else hs_poll s ord))).
  { destruct (hs_empty s); [cbn; split; auto|apply hs_poll_spec; auto]. }
  destruct (if hs_empty s then (s, PPending) else hs_poll s ord) as [s1 r]. cbn [fst snd] in P.
  destruct r as [|p o h y|p o]; try (cbn [fst]; apply on_hs_event_inv; exact P).
  destruct P as [I1 _].
  destruct (shq s1) as [|p t].
  2:{ cbn [fst]. apply on_shutdown_inv. core_tac I1. }
  destruct (sq s1) as [|e t] eqn:SQ.
  2:{ cbn [fst]. pose proof (i_sq s1 I1) as Q. rewrite SQ in Q. inversion Q as [|a b Qe Qt]; subst.
      assert (I2 : Inv (set_sq s1 t)).
      { destruct I1 as [ND L T _]. constructor; auto. }
      destruct e as [p|p|p y|p x y|x].
      - apply on_established_inv. core_tac I2.
      - apply on_closed_inv. core_tac I2.
      - apply on_sub_in_inv; auto.
      - apply on_sub_out_inv; auto.
      - apply on_open_fail_inv; auto. }
  destruct (vscan (vq s1) (vwait s1)) as [[[v|] q] w].
  - destruct (v_ans v) as [[a|]|].
    + pose proof (on_validation_inv (set_vals s1 q w (nvid s1)) (v_peer v) a) as X.
      destruct (on_validation true (set_vals s1 q w (nvid s1)) (v_peer v) a) as [s2 c]. cbn [fst] in *. apply X. core_tac I1.
    + cbn [fst]. core_tac I1.
    + cbn [fst]. core_tac I1.
  - destruct (cq (set_vals s1 q w (nvid s1))) as [|[p|p] t].
    + destruct (hdrop _); cbn [fst]; core_tac I1.
    + pose proof (on_open_inv (set_cq (set_vals s1 q w (nvid s1)) t) p) as X.
      destruct (on_open (set_cq (set_vals s1 q w (nvid s1)) t) p) as [s2 c]. cbn [fst] in *. apply X. core_tac I1.
    + cbn [fst]. apply on_close_inv. core_tac I1.
Qed.

(* ------------------------------------------------------------------ the Connection tasks *)
Lemma Inv_tasks s s' :
  ps s = ps s' -> hin s = hin s' -> hout s = hout s' -> ready s = ready s' -> sq s = sq s' ->
  Forall task_ok (tasks s') -> Inv s -> Inv s'.
Proof.
  intros E1 E2 E3 E4 E6 T [ND L _ Q]. constructor; try congruence.
  intros p. specialize (L p). unfold view in *. now rewrite <- E1, <- E2, <- E3, <- E4.
Qed.

Lemma cn_read_tin s f w : tin s -> s_wire s = f :: w -> tin (cn_read s f w).
Proof.
  unfold tin, cons. cbn. intros (C & H1 & H2 & H3) W. rewrite W in C. repeat split; auto.
  rewrite C. now rewrite <- !app_assoc.
Qed.
Lemma cn_write_tout s q : tout s -> tout (cn_write s q).
Proof.
  unfold tout, cons. cbn. intros (C & H1 & H2 & H3 & (q0 & H4)). repeat split; auto. exists (q0 ++ q). now rewrite H4.
Qed.

Lemma map_task_ok k t' l : task_ok t' -> Forall task_ok l -> Forall task_ok (map_task k (fun _ => t') l).
Proof. intros H F. apply tasks_map_ok; auto. intros t Ht. destruct (t_id t =? k); auto. Qed.

Lemma put_task_inv s t : Inv s -> task_ok t -> Inv (put_task s t).
Proof.
  intros I Ht. unfold put_task. eapply Inv_tasks; [..|exact I]; try reflexivity. cbn. apply map_task_ok; auto. exact (i_tk s I).
Qed.

Lemma with_ph_ok t ph : task_ok t -> task_ok (with_ph t ph).
Proof. intros H. exact H. Qed.

Lemma close_fin_inv s t n : Inv s -> task_ok t -> Inv (close_fin s t n).
Proof.
  intros I Ht. unfold close_fin. pose proof (put_task_inv s (with_ph t PDone) I (with_ph_ok t PDone Ht)) as I1.
  destruct n; core_tac I1.
Qed.

Lemma close_step_inv s t : Inv s -> task_ok t -> Inv (close_step s t).
Proof.
  intros I Ht. unfold close_step. destruct (t_ph t) as [|n|n|]; auto.
  - destruct (s_gate (t_in t)); [apply put_task_inv; auto|].
    destruct (s_gate (t_out t)); [apply put_task_inv; auto|apply close_fin_inv; auto].
  - destruct (s_gate (t_out t)); [apply put_task_inv; auto|apply close_fin_inv; auto].
Qed.

Lemma close_task_inv s t b : Inv s -> task_ok t -> Inv (close_task s t b).
Proof. intros I Ht. unfold close_task. apply close_step_inv; auto. Qed.

Lemma task_loop_inv fuel : forall s t, Inv s -> task_ok t -> Inv (task_loop fuel s t).
Proof.
  induction fuel as [|f IH]; intros s t I Ht; cbn [task_loop]; auto.
  destruct (t_shut t); [apply close_task_inv; auto|].
  destruct (t_nosink t); [apply close_task_inv; auto|].
  destruct (s_werr (t_out t)); [apply close_task_inv; auto|].
  destruct Ht as (Hi & Ho & Hf). cbn [t_in t_out].
  assert (H1 : task_ok (mkT (t_id t) (t_peer t) PRun false (t_in t) (cn_write (t_out t) (t_q t)) [] (t_res t) false (t_fwd t))).
  { split; [|split]; cbn; auto. apply cn_write_tout; auto. }
  destruct (hdrop s && negb (t_res t)); [apply close_task_inv; auto|].
  destruct (s_wire (t_in t)) as [|fr w] eqn:W.
  - assert (H3 : task_ok (mkT (t_id t) (t_peer t) PRun false (t_in t) (cn_write (t_out t) (t_q t)) [] true false (t_fwd t))).
    { split; [|split]; cbn; auto. apply cn_write_tout; auto. }
    destruct (s_eof (t_in t)); [apply close_task_inv; auto|apply put_task_inv; auto].
  - assert (H2 : task_ok (mkT (t_id t) (t_peer t) PRun false (cn_read (t_in t) fr w) (cn_write (t_out t) (t_q t)) [] false
                            false (t_fwd t ++ [fr]))).
    { split; [|split]; cbn; [apply cn_read_tin; auto|apply cn_write_tout; auto|now rewrite Hf]. }
    apply IH; auto. eapply Inv_core; [..|apply (put_task_inv s _ I H2)]; reflexivity.
Qed.

Lemma find_task_ok k l t : Forall task_ok l -> find_task k l = Some t -> task_ok t.
Proof.
  induction l as [|a l IH]; cbn; [discriminate|]. intros F. inversion F; subst.
  destruct (t_id a =? k); [intros E; injection E as <-; auto|auto].
Qed.

Lemma task_poll_inv s k : Inv s -> Inv (task_poll s k).
Proof.
  intros I. unfold task_poll. destruct (find_task k (tasks s)) as [t|] eqn:F; auto.
  pose proof (find_task_ok k (tasks s) t (i_tk s I) F) as Ht.
  destruct (t_ph t); auto; [apply task_loop_inv; auto|apply close_step_inv; auto|apply close_step_inv; auto].
Qed.

Lemma tasks_poll_inv ks : forall s, Inv s -> Inv (tasks_poll s ks).
Proof.
  induction ks as [|k r IH]; intros s I; cbn [tasks_poll]; auto. apply IH. apply task_poll_inv. exact I.
Qed.

(* ------------------------------------------------------------------ the handle and the user *)
Lemma vanswer_core s id a : Inv s -> Inv (vanswer s id a).
Proof. intros I. unfold vanswer. destruct (filter _ (vwait s)); core_tac I. Qed.

Lemma h_poll_live_inv fuel : forall s, Inv s -> Inv (fst (h_poll_live fuel s)).
Proof.
  induction fuel as [|f IH]; intros s I; cbn [h_poll_live fst]; auto.
  destruct (evq s) as [|[p h v|p d h k|p k|p e] es].
  - destruct (nq s) as [|[[p k] fr] t]; auto.
    destruct (opt_eqb _ _); [cbn [fst]; core_tac I|apply IH; core_tac I].
  - cbn [fst]. destruct (hval (set_evq s es) p) as [old|].
    + eapply Inv_core; [..|apply (vanswer_core (set_evq s es) old None); core_tac I]; reflexivity.
    + core_tac I.
  - cbn [fst]. core_tac I.
  - destruct (match hsink (set_evq s es) p with Some a => _ | None => false end); [cbn [fst]; core_tac I|apply IH; core_tac I].
  - cbn [fst]. core_tac I.
Qed.

Lemma h_poll_inv fuel s : Inv s -> Inv (fst (h_poll fuel s)).
Proof. intros I. unfold h_poll. destruct (hdrop s); auto. apply h_poll_live_inv; auto. Qed.

Lemma fold_vanswer_inv {A} (f : st -> A -> st) (l : list A) :
  (forall s a, Inv s -> Inv (f s a)) -> forall s, Inv s -> Inv (fold_left f l s).
Proof. intros Hf. induction l as [|a t IH]; intros s I; cbn; auto. Qed.

Lemma drop_handle_inv s : Inv s -> Inv (drop_handle s).
Proof.
  intros I. unfold drop_handle.
  set (s1 := fold_left _ PEERS s).
  assert (I1 : Inv s1).
  { apply fold_vanswer_inv; auto. intros a p Ia. destruct (hval a p); auto. apply vanswer_core; auto. }
  set (s2 := fold_left _ (evq s1) s1).
  assert (I2 : Inv s2).
  { apply fold_vanswer_inv; auto. intros a e Ia. destruct e; auto. apply vanswer_core; auto. }
  eapply Inv_tasks; [..|exact I2]; try reflexivity. cbn.
  apply tasks_map_ok; [|exact (i_tk s2 I2)]. intros t Ht. destruct (existsb _ _); auto.
Qed.

(* ------------------------------------------------------------------ the environment touches a carrier *)
Section Env.
  Variable f : sub -> sub.
  Hypothesis f_fresh : forall s, fresh s -> fresh (f s).
  Hypothesis f_read1 : forall h s, read1 h s -> read1 h (f s).
  Hypothesis f_acc1 : forall s, acc1 s -> acc1 (f s).
  Hypothesis f_osent : forall s, osent s -> osent (f s).
  Hypothesis f_odone : forall h s, odone h s -> odone h (f s).
  Hypothesis f_tin : forall s, tin s -> tin (f s).
  Hypothesis f_tout : forall s, tout s -> tout (f s).
  Hypothesis f_cn : forall s, s_cn (f s) = s_cn s.

  Lemma ent_ok_map o rd e : ent_ok o rd e -> ent_ok o rd (map_hent f e).
  Proof.
    destruct e as [g y]. unfold ent_ok. cbn. destruct o, g, rd; auto.
    - intros (h & H). eauto.
    - intros [H ->]. auto.
  Qed.

  Lemma in_rel_map x g : in_rel x g -> in_rel (option_map (map_pstate f) x) g.
  Proof. destruct x as [[| | |d o [| | | |]|]|]; cbn; auto. Qed.
  Lemma out_rel_map x : out_rel x -> out_rel (option_map (map_pstate f) x).
  Proof. destruct x as [[| | |d [| | |] i|]|]; cbn; auto. Qed.
  Lemma ps_ok_map x : ps_ok x -> ps_ok (option_map (map_pstate f) x).
  Proof. destruct x as [[| | |d [| | |] [| | | |]|]|]; cbn; intuition auto. Qed.

  Lemma map_all_inv s : Inv s -> Inv (map_all f s).
  Proof.
    intros [ND L T Q]. constructor.
    - exact ND.
    - intros p. specialize (L p). unfold LInv, view in *. cbn [lp li lo ri ro map_all ps hin hout ready] in *.
      destruct L as (L1 & L2 & L3). split; [|split].
      + destruct (hin s p) as [ei|]; cbn [option_map]; auto. destruct L1. split; [apply ent_ok_map|apply in_rel_map]; auto.
      + destruct (hout s p) as [eo|]; cbn [option_map]; auto. destruct L2. split; [apply ent_ok_map|apply out_rel_map]; auto.
      + apply ps_ok_map; auto.
    - cbn. apply tasks_map_ok; auto. intros t (H1 & H2 & H3). split; [|split]; cbn; auto. now rewrite f_cn.
    - cbn. apply Forall_forall. intros e He. apply in_map_iff in He. destruct He as (e0 & <- & He0).
      rewrite Forall_forall in Q. specialize (Q e0 He0). destruct e0; cbn in *; auto.
  Qed.
End Env.

Lemma env_inv s id x : Inv s -> Inv (map_all (touch id x) s).
Proof.
  apply map_all_inv; intros;
    match goal with
    | |- s_cn _ = _ => unfold touch; match goal with |- context [if ?c then _ else _] => destruct c end; [destruct x|]; reflexivity
    | _ => apply touch_pres; eauto using fresh_env, read1_env, acc1_env, osent_env, odone_env, tin_env, tout_env
    end.
Qed.

(* ------------------------------------------------------------------ every operation, every history *)
Lemma init_inv : Inv init.
Proof.
  constructor; cbn.
  - constructor.
  - intros q. unfold LInv, view. cbn. auto.
  - constructor.
  - constructor.
Qed.

Lemma sq_push_inv s e : Inv s -> sev_ok e -> Inv (set_sq s (sq s ++ [e])).
Proof.
  intros [ND L T Q] H. constructor; auto. cbn. apply Forall_app. split; auto.
Qed.

Lemma step_inv auto s o : Inv s -> Inv (fst (fst (step true auto s o))).
Proof.
  intros I. destruct o as [p|p|p|p|p|id x|ord|p|p|p a| | |p t|]; cbn [step].
  - destruct (hc s p); cbn [fst]; auto. eapply Inv_core; [..|apply (sq_push_inv s (EvEst p) I Logic.I)]; reflexivity.
  - destruct (hc s p); cbn [fst]; auto. eapply Inv_core; [..|apply (sq_push_inv s (EvClosed p) I Logic.I)]; reflexivity.
  - destruct (hc s p); cbn [fst]; auto.
    eapply Inv_core; [..|apply (sq_push_inv s (EvIn p (new_sub (ncar s))) I (fresh_new _))]; reflexivity.
  - destruct (hc s p); cbn [fst]; auto. destruct (hpend s p) as [|x t]; cbn [fst]; auto.
    eapply Inv_core; [..|apply (sq_push_inv s (EvOut p x (new_sub (ncar s))) I (fresh_new _))]; reflexivity.
  - destruct (hc s p); cbn [fst]; auto. destruct (hpend s p) as [|x t]; cbn [fst]; auto.
    eapply Inv_core; [..|apply (sq_push_inv s (EvFail x) I Logic.I)]; reflexivity.
  - cbn [fst]. apply env_inv; auto.
  - pose proof (poll_inv auto s ord I) as X. destruct (poll true auto s ord) as [[s1 r] c]. exact X.
  - destruct (hdrop s); cbn [fst]; auto. destruct (hsink s p); cbn [fst]; auto. core_tac I.
  - destruct (hdrop s); cbn [fst]; auto. destruct (hsink s p); cbn [fst]; auto. core_tac I.
  - destruct (hdrop s); cbn [fst]; auto. destruct (hval s p) as [v|]; cbn [fst]; auto. apply vanswer_core. core_tac I.
  - cbn [fst]. apply tasks_poll_inv. exact I.
  - pose proof (h_poll_inv (S (length (evq s) + length (nq s))) s I) as X.
    destruct (h_poll (S (length (evq s) + length (nq s))) s) as [s1 e]. exact X.
  - destruct (hdrop s); cbn [fst]; auto. destruct (hsink s p) as [k|]; cbn [fst]; auto.
    destruct (find_task k (tasks s)) as [tk|]; cbn [fst]; auto.
    destruct (t_alive tk); cbn [fst]; auto.
    eapply Inv_tasks; [..|exact I]; try reflexivity. cbn. apply tasks_map_ok; [|exact (i_tk s I)].
    intros t0 H. destruct (t_id t0 =? k); auto.
  - destruct (hdrop s); cbn [fst]; auto. apply drop_handle_inv. exact I.
Qed.

Lemma run_inv auto l : forall s, Inv s -> Inv (fst (run true auto s l)).
Proof.
  induction l as [|o t IH]; intros s I; cbn [run fst]; auto.
  pose proof (step_inv auto s o I) as X. destruct (step true auto s o) as [[s1 r] c]. cbn [fst] in X.
  specialize (IH s1 X). destruct (run true auto s1 t) as [s2 rs]. exact IH.
Qed.

Lemma final_inv auto l : Inv (final true auto l).
Proof. apply run_inv. apply init_inv. Qed.

(* ------------------------------------------------------------------ what the invariant means for a stream *)
Definition prefix {A} (x y : list A) : Prop := exists r, y = x ++ r.

(* the inbound substream of every Connection ever started: the handshake service consumed exactly the first frame
   the remote wrote on THIS substream; everything after it was handed to the handle by the Connection, in order,
   or is still unread; the local side wrote its handshake on it and nothing else *)
Lemma inbound_clean auto l t : In t (tasks (final true auto l)) ->
  exists h, s_hs (t_in t) = [h] /\ s_cn (t_in t) = t_fwd t /\
            s_hist (t_in t) = h :: t_fwd t ++ s_wire (t_in t) /\ s_out (t_in t) = [LOCAL_HS].
Proof.
  intros H. pose proof (i_tk _ (final_inv auto l)) as T. rewrite Forall_forall in T.
  destruct (T t H) as ((C & (h & Hh) & Ho & _) & _ & F). exists h. unfold cons in C. rewrite Hh, <- F in C.
  repeat split; auto.
Qed.

(* the outbound substream: the first frame written on it is the local handshake, written by the handshake service;
   exactly one frame — the remote's answer — was read from it, by the handshake service *)
Lemma outbound_clean auto l t : In t (tasks (final true auto l)) ->
  exists h q, s_out (t_out t) = LOCAL_HS :: q /\ s_ohs (t_out t) = 1 /\ s_hs (t_out t) = [h] /\
              s_hist (t_out t) = h :: s_wire (t_out t).
Proof.
  intros H. pose proof (i_tk _ (final_inv auto l)) as T. rewrite Forall_forall in T.
  destruct (T t H) as (_ & (C & (h & Hh) & Hc & Ho & (q & Hq)) & _). exists h, q. unfold cons in C. rewrite Hh, Hc in C.
  repeat split; auto.
Qed.

(* a remote that writes its handshake H and then the notifications ns gets H consumed as the handshake and a prefix
   of ns forwarded: the first notification the Connection hands to the handle is the first one the remote sent *)
Lemma first_forwarded_is_first_sent auto l t H ns : In t (tasks (final true auto l)) ->
  s_hist (t_in t) = H :: ns -> s_hs (t_in t) = [H] /\ prefix (t_fwd t) ns.
Proof.
  intros Ht E. destruct (inbound_clean auto l t Ht) as (h & Hh & _ & C & _). rewrite E in C. injection C as -> ->.
  split; auto. eexists; reflexivity.
Qed.

(* two endpoints running this code, joined by a carrier that delivers what was written, in order: what B's
   Connection hands to B's handle is a prefix of what A's Connection wrote after A's handshake *)
Lemma end_to_end autoa autob la lb ta tb :
  In ta (tasks (final true autoa la)) -> In tb (tasks (final true autob lb)) ->
  prefix (s_hist (t_in tb)) (s_out (t_out ta)) ->
  exists q, s_out (t_out ta) = LOCAL_HS :: q /\ s_hs (t_in tb) = [LOCAL_HS] /\ prefix (t_fwd tb) q.
Proof.
  intros Ha Hb [r E]. destruct (outbound_clean autoa la ta Ha) as (h & q & Hq & _).
  destruct (inbound_clean autob lb tb Hb) as (h' & Hh & _ & C & _).
  rewrite Hq, C in E. cbn in E. injection E as <- E. exists q. repeat split; auto.
  exists (s_wire (t_in tb) ++ r). now rewrite E, app_assoc.
Qed.

(* the handshake the protocol holds while the user validates an inbound substream was read from that substream, and
   it is the first frame the remote wrote on it *)
Lemma validated_handshake auto l p d o y h :
  ps (final true auto l) p = Some (Validating d o (IValidating y h)) ->
  s_hs y = [h] /\ s_hist y = h :: s_wire y.
Proof.
  intros E. pose proof (i_loc _ (final_inv auto l) p) as L. unfold LInv, view in L. cbn in L. rewrite E in L.
  destruct L as (_ & _ & _ & (C & Hh & Hc & _)). unfold cons in C. rewrite Hh, Hc in C. auto.
Qed.

(* no entry of `ready` outlives its substream: every queued result has its substream in the map, and a queued
   handshake is the one frame the handshake service read from that substream *)
Lemma ready_belongs auto l p o h :
  In (p, o, h) (ready (final true auto l)) ->
  exists e, hget (final true auto l) p o = Some e /\ (s_hs (e_sub e) = [h] \/ (o = false /\ h = EMPTY)).
Proof.
  set (s := final true auto l). intros H. pose proof (final_inv auto l) as I. fold s in I.
  assert (RF : rfind p o (ready s) = Some h).
  { pose proof (i_nd s I) as ND. clear -H ND. induction (ready s) as [|e t IH]; [destruct H|].
    cbn in ND. inversion ND as [|k r Hn ND']; subst. unfold rfind; fold rfind. destruct H as [->|H].
    - assert (K : key_is p o (p, o, h) = true) by (apply key_is_true; reflexivity). now rewrite K.
    - destruct (key_is p o e) eqn:K; auto. apply key_is_true in K. exfalso. apply Hn. rewrite K.
      change (p, o) with (rkey (p, o, h)). apply in_map. exact H. }
  pose proof (LInv_at s p I) as L. unfold LInv, view in L. cbn in L.
  destruct o; cbn.
  - destruct (hout s p) as [e|]; [|rewrite RF in L; destruct L as (_ & L & _); discriminate].
    exists e. split; auto. rewrite RF in L. destruct L as (_ & (L & _) & _). destruct e as [g y]. destruct g; cbn in L; try contradiction.
    left. apply L.
  - destruct (hin s p) as [e|]; [|rewrite RF in L; destruct L as (L & _); discriminate].
    exists e. split; auto. rewrite RF in L. destruct L as ((L & _) & _). destruct e as [g y]. destruct g; cbn in L; try contradiction.
    + right. split; auto. apply L.
    + left. apply L.
Qed.

(* ------------------------------------------------------------------ the end of a Connection *)
Lemma find_map_task k l t t' : find_task k l = Some t -> t_id t' = k -> find_task k (map_task k (fun _ => t') l) = Some t'.
Proof.
  intros F E. induction l as [|a l IH]; cbn in *; [discriminate|].
  destruct (t_id a =? k) eqn:Ea.
  - rewrite E, N.eqb_refl. reflexivity.
  - rewrite Ea. auto.
Qed.

Lemma find_task_id k l t : find_task k l = Some t -> t_id t = k.
Proof.
  induction l as [|a l IH]; cbn; [discriminate|]. destruct (t_id a =? k) eqn:Ea; auto.
  intros E; injection E as <-. now apply N.eqb_eq.
Qed.

(* the state of task k after close_step: same substreams, nothing forwarded, not running *)
Definition same_io (t t' : task) : Prop :=
  t_in t' = t_in t /\ t_out t' = t_out t /\ t_fwd t' = t_fwd t /\ t_running t' = false.

Lemma close_step_task s k t : find_task k (tasks s) = Some t -> t_running t = false ->
  exists t', find_task k (tasks (close_step s t)) = Some t' /\ same_io t t'.
Proof.
  intros F R. pose proof (find_task_id _ _ _ F) as Ek. unfold close_step.
  destruct (t_ph t) as [|n|n|] eqn:P; try (unfold t_running in R; rewrite P in R; discriminate).
  - destruct (s_gate (t_in t)).
    + exists t. split; [cbn; rewrite Ek; apply (find_map_task k _ t t F Ek)|repeat split; auto].
    + destruct (s_gate (t_out t)).
      * eexists. split; [cbn; rewrite Ek; apply (find_map_task k _ t _ F); exact Ek|repeat split; auto].
      * eexists. unfold close_fin. split.
        { destruct n; cbn; rewrite Ek; apply (find_map_task k _ t _ F); exact Ek. }
        repeat split; auto.
  - destruct (s_gate (t_out t)).
    + exists t. split; [cbn; rewrite Ek; apply (find_map_task k _ t t F Ek)|repeat split; auto].
    + eexists. unfold close_fin. split.
      { destruct n; cbn; rewrite Ek; apply (find_map_task k _ t _ F); exact Ek. }
      repeat split; auto.
  - exists t. split; auto. repeat split; auto.
Qed.

(* close_connection spread over several polls: while a Connection waits for its substreams to close it neither
   reads nor writes nor hands anything to the handle (what the sink still accepts meanwhile is never sent) *)
Lemma closing_is_silent s k t : find_task k (tasks s) = Some t -> t_alive t = true -> t_running t = false ->
  exists t', find_task k (tasks (task_poll s k)) = Some t' /\ same_io t t'.
Proof.
  intros F A R. unfold task_poll. rewrite F.
  destruct (t_ph t) eqn:P; try (unfold t_running in R; rewrite P in R; discriminate);
    try (apply close_step_task; auto; unfold t_running; rewrite P; reflexivity).
  unfold t_alive in A. rewrite P in A. discriminate.
Qed.

(* the NotificationHandle is gone and the Connection holds no slot of its channel: the next poll ends the stream
   (poll_reserve fails) without reading the inbound substream *)
Lemma handle_gone_closes s k t : find_task k (tasks s) = Some t -> t_ph t = PRun ->
  hdrop s = true -> t_res t = false ->
  exists t', find_task k (tasks (task_poll s k)) = Some t' /\ t_running t' = false /\ t_in t' = t_in t /\ t_fwd t' = t_fwd t.
Proof.
  intros F P D R. pose proof (find_task_id _ _ _ F) as Ek. unfold task_poll. rewrite F, P. cbn [task_loop].
  set (tw := mkT (t_id t) (t_peer t) PRun false (t_in t) (cn_write (t_out t) (t_q t)) [] (t_res t) (t_nosink t) (t_fwd t)).
  assert (G : forall tc n, t_id tc = k -> t_in tc = t_in t -> t_fwd tc = t_fwd t ->
              exists t', find_task k (tasks (close_task s tc n)) = Some t' /\ t_running t' = false /\ t_in t' = t_in t /\ t_fwd t' = t_fwd t).
  { intros tc n Eid Ein Efw. unfold close_task, close_step. cbn [with_ph t_ph t_in t_out].
    destruct (s_gate (t_in tc)); [|destruct (s_gate (t_out tc))].
    - eexists. split; [cbn; rewrite Eid; apply (find_map_task k _ t _ F); exact Eid|cbn; auto].
    - eexists. split; [cbn; rewrite Eid; apply (find_map_task k _ t _ F); exact Eid|cbn; auto].
    - eexists. unfold close_fin. split; [destruct n; cbn; rewrite Eid; apply (find_map_task k _ t _ F); exact Eid|cbn; auto]. }
  destruct (t_shut t); [apply G; auto|].
  destruct (t_nosink t); [apply G; auto|].
  destruct (s_werr (t_out t)); [apply G; auto|].
  rewrite D, R. cbn [andb negb]. apply G; auto.
Qed.

(* ------------------------------------------------------------------ the original code (fx = false) *)
(* corpus/C12/start.case, witness 1 *)
Definition w_stale_in : list op :=
  [OEst 0; OPoll []; OUOpen 0; OPoll []; OSubIn 0; OPoll []; OSubOut 0; OPoll [(0, false)];
   OEnv 0 (EFrame 100); OEnv 1 EWerr; OPoll [(0, false); (0, true)];
   OSubIn 0; OPoll []; OEnv 2 (EFrame 101); OEnv 2 (EFrame 7); OPoll [(0, false)];
   OUPoll; OUPoll; OUVal 0 true; OPoll []; OSubOut 0; OPoll [(0, false)];
   OEnv 2 EFlush; OEnv 3 EFlush; OEnv 3 (EFrame 200); OPoll [(0, false); (0, true)]; OPoll [(0, true)];
   OTasks; OUPoll; OUPoll; OUPoll].

Definition user_events (fx : bool) (l : list op) : list uev :=
  flat_map (fun rc => match fst rc with RUser UNone => [] | RUser e => [e] | RCode _ => [] end) (snd (run fx false init l)).
Definition task_view (fx : bool) (l : list op) : list (list frame * list frame * list frame) :=
  map (fun t => (s_hist (t_in t), s_hs (t_in t), t_fwd t)) (tasks (final fx false l)).

(* original code: the user is asked to validate handshake 100, which was read from the FIRST inbound substream;
   the stream is then opened over the second one (the remote wrote 101, 7 on it), from which the handshake service
   read nothing, and the Connection hands the remote's handshake 101 to the user as the first notification *)
Lemma stale_in_original :
  user_events false w_stale_in =
    [UFail 0 E_REJECTED; UValidate 0 100; UOpened 0 false 200; UNotif 0 101; UNotif 0 7] /\
  task_view false w_stale_in = [([101; 7], [], [101; 7])].
Proof. vm_compute. split; reflexivity. Qed.

(* repaired code, same history *)
Lemma stale_in_repaired :
  user_events true w_stale_in = [UFail 0 E_REJECTED; UValidate 0 101; UOpened 0 false 200; UNotif 0 7] /\
  task_view true w_stale_in = [([101; 7], [101], [7])].
Proof. vm_compute. split; reflexivity. Qed.

(* corpus/C12/start.case, witness 2: the sending side *)
Definition w_stale_out : list op :=
  [OEst 0; OPoll []; OUOpen 0; OPoll []; OSubIn 0; OPoll []; OSubOut 0; OPoll [(0, false)];
   OEnv 1 EFlush; OEnv 1 (EFrame 200); OEnv 0 EEof; OPoll [(0, true); (0, false)];
   OUOpen 0; OPoll []; OSubOut 0; OPoll []; OEnv 2 EFlush; OEnv 2 (EFrame 201); OPoll [(0, true)];
   OSubIn 0; OPoll []; OEnv 3 (EFrame 300); OPoll [(0, false)]; OUPoll; OUPoll; OUVal 0 true; OPoll [];
   OEnv 3 EFlush; OPoll [(0, false)]; OUPoll; OUSend 0 9; OTasks].

(* original code: the second outbound substream is reported negotiated with the answer 200 read from the first
   one; the local handshake is never written on it, and the first frame on it is the user's notification 9 *)
Lemma stale_out_original :
  map (fun t => (s_out (t_out t), s_hs (t_out t))) (tasks (final false false w_stale_out)) = [([9], [])] /\
  In (UOpened 0 true 200) (user_events false w_stale_out).
Proof. vm_compute. split; [reflexivity|tauto]. Qed.

Lemma stale_out_repaired :
  map (fun t => (s_out (t_out t), s_hs (t_out t))) (tasks (final true false w_stale_out)) = [([LOCAL_HS; 9], [201])] /\
  In (UOpened 0 true 201) (user_events true w_stale_out).
Proof. vm_compute. split; [reflexivity|tauto]. Qed.

(* ------------------------------------------------------------------ the orders and mappings the models hard-wire *)
(* coq/gen/C12Tables.v is extracted from the Rust source on every check (tools/gen_c12_tables.py). The models are
   written for exactly these values: Start.poll tries the branches of next_event in this order because the select! is
   biased; Model.conn_loop / Start.task_loop run the stages of Connection::poll_next in this order; close / close_step
   follow close_connection; the handles look at their event channel first; a full sync queue is ChannelClogged and a
   closed one NoConnection (try_send: never waits), the asynchronous send waits (send); every call of the
   HandshakeService that touches a key forgets what was queued for it. *)
Lemma tables_in_sync :
  C12Tables.select_biased = true /\ C12Tables.select_order = [1; 2; 3; 4; 5; 6] /\
  C12Tables.conn_poll_order = [1; 2; 3; 4; 5] /\ C12Tables.close_order = [1; 2; 3; 4; 5] /\
  C12Tables.handle_order = [1; 2] /\
  C12Tables.notification_errors = 6 /\ C12Tables.sync_closed_maps_to = 1 /\ C12Tables.sync_full_maps_to = 2 /\
  C12Tables.sync_uses_try_send = true /\ C12Tables.async_uses_send = true /\
  C12Tables.forget_sites = [true; true; true; true; true] /\
  1 <= C12Tables.C12_SYNC_CHANNEL_SIZE /\ 1 <= C12Tables.C12_ASYNC_CHANNEL_SIZE /\
  1 <= C12Tables.C12_NEGOTIATION_TIMEOUT_SECS.
Proof. repeat split; try reflexivity; vm_compute; discriminate. Qed.
