From Coq Require Import ExtrOcamlBasic.
From V.C12 Require Import Glue.
Extraction Language OCaml.
Extraction "c12_model.ml" run_case prop_ok known_class.
